(* C05, history level, part 2 (stage S1): how the transaction layer (MTxCommon / MTxReq / MTxRes: running a hook, body
   data dispatch, the raw-data receivers, htp_tx_state_* and htp_tx_finalize) moves the lifecycle view and the monitor. *)
Require Import Htp.Model.MUri Htp.Model.MPath Htp.Model.MUrlenc.
Require Import Htp.Model.MConnTypes Htp.Model.MBstr Htp.Model.MTxCommon Htp.Model.MReqLine Htp.Model.MReqUri Htp.Model.MResLine
               Htp.Model.MTxReq Htp.Model.MTxRes Htp.Spec.SConnp Htp.Spec.SLife Htp.Proof.PLife.
Local Open Scope nat_scope.

Ltac brk := repeat match goal with
  | |- context [match ?x with _ => _ end] => destruct x
  | |- context [if ?b then _ else _] => destruct b
  end.

(* ------------------------------------------------------------------------------------------------ *)
(* 1. pure updates of a transaction record keep the lifecycle fields *)
Lemma txv_set_flag b t : txv (tx_set_flag b t) = txv t. Proof. reflexivity. Qed.
Lemma txv_parse_request_line g t : txv (htp_parse_request_line g t) = txv t.
Proof. unfold htp_parse_request_line. brk; reflexivity. Qed.
Lemma txv_process_request_header l t : txv (htp_process_request_header_generic l t) = txv t.
Proof. unfold htp_process_request_header_generic. brk; reflexivity. Qed.
Lemma txv_te_cl t : txv (rq_te_cl t) = txv t.
Proof. unfold rq_te_cl. brk; reflexivity. Qed.
Lemma txv_host nu t : txv (rq_host nu t) = txv t.
Proof. unfold rq_host. brk; reflexivity. Qed.
Lemma txv_content_type t : txv (rq_content_type t) = txv t.
Proof. unfold rq_content_type. brk; reflexivity. Qed.
Lemma txv_urldecode_uri g s t : txv (snd (rq_urldecode_uri g s t)) = txv t.
Proof. unfold rq_urldecode_uri. brk; reflexivity. Qed.
Lemma txv_urldecode_uri_opt g s t : txv (snd (rq_urldecode_uri_opt g s t)) = txv t.
Proof.
  unfold rq_urldecode_uri_opt. destruct s as [s|]; [|reflexivity].
  pose proof (txv_urldecode_uri g s t) as H. destruct (rq_urldecode_uri g s t). exact H.
Qed.
Lemma txv_normalize_path g p t : txv (snd (rq_normalize_path g p t)) = txv t.
Proof. unfold rq_normalize_path. brk; reflexivity. Qed.
Lemma txv_normalize_parsed_uri g raw t : txv (snd (htp_normalize_parsed_uri g raw t)) = txv t.
Proof.
  unfold htp_normalize_parsed_uri.
  pose proof (txv_urldecode_uri_opt g (u_user raw) t) as H1. destruct (rq_urldecode_uri_opt g (u_user raw) t) as [user t1]. cbn [snd] in H1.
  pose proof (txv_urldecode_uri_opt g (u_pass raw) t1) as H2. destruct (rq_urldecode_uri_opt g (u_pass raw) t1) as [pass t2]. cbn [snd] in H2.
  pose proof (txv_urldecode_uri_opt g (u_host raw) t2) as H3. destruct (rq_urldecode_uri_opt g (u_host raw) t2) as [host t3]. cbn [snd] in H3.
  destruct (uri_norm_port_opt (u_port raw)) as [pn inv].
  set (t4 := if inv then _ else t3). assert (H4 : txv t4 = txv t3) by (subst t4; destruct inv; reflexivity).
  destruct (u_path raw) as [p|].
  - pose proof (txv_normalize_path g p t4) as H5. destruct (rq_normalize_path g p t4) as [o t5]. cbn [snd] in H5.
    pose proof (txv_urldecode_uri_opt g (u_frag raw) t5) as H6. destruct (rq_urldecode_uri_opt g (u_frag raw) t5) as [frag t6]. cbn [snd] in *.
    congruence.
  - pose proof (txv_urldecode_uri_opt g (u_frag raw) t4) as H6. destruct (rq_urldecode_uri_opt g (u_frag raw) t4) as [frag t6]. cbn [snd] in *.
    congruence.
Qed.
Lemma txv_pipeline g b u t t' : rq_uri_pipeline_opt g b u t = Some t' -> txv t' = txv t.
Proof.
  unfold rq_uri_pipeline_opt.
  set (r := if b then _ else _).
  assert (Hr : match r with Some (raw, t0) => txv t0 = txv t | None => True end).
  { subst r. destruct b; [|reflexivity]. unfold rq_parse_uri_hostport. destruct u as [s|]; [|exact I].
    destruct (parse_hostport s) as [[[hn port] pn] invalid]. brk; reflexivity. }
  destruct r as [[raw t0]|]; [|discriminate].
  set (t1 := t0 <| t_parsed_uri_raw := raw |>).
  destruct (t_parsed_uri t1) as [nu|] eqn:Eu.
  - intros H. injection H as <-. brk; unfold txv in *; cbn in *; congruence.
  - pose proof (txv_normalize_parsed_uri g raw t1) as H1. destruct (htp_normalize_parsed_uri g raw t1) as [nu t2]. cbn [snd] in H1.
    intros H. injection H as <-. brk; unfold txv in *; cbn in *; congruence.
Qed.
Lemma txv_apply_response_line l t : txv (rs_apply_response_line l t) = txv t. Proof. reflexivity. Qed.
Lemma txv_process_response_header l t : txv (rs_process_response_header l t) = txv t.
Proof. unfold rs_process_response_header. brk; reflexivity. Qed.

(* ------------------------------------------------------------------------------------------------ *)
(* 2. the transaction table *)
Lemma map_upd {A B} (f : A -> B) l k x : map f (upd l k x) = upd (map f l) k (f x).
Proof. revert k. induction l as [|h t IH]; intros [|k]; cbn; try reflexivity. rewrite IH. reflexivity. Qed.
Lemma upd_same {B} (l : list B) k y : nth_error l k = Some y -> upd l k y = l.
Proof. revert k. induction l as [|h t IH]; intros [|k]; cbn; try discriminate; intros H; [congruence|rewrite (IH k H); reflexivity]. Qed.

Lemma tx_slot_some c i t : tx_slot c i = Some t ->
  (i <? c_txs_shifted c) = false /\ nth_error (c_txs c) (i - c_txs_shifted c) = Some (Some t) /\ (i - c_txs_shifted c <? length (c_txs c)) = true.
Proof.
  unfold tx_slot. destruct (i <? c_txs_shifted c); [discriminate|].
  destruct (nth_error (c_txs c) (i - c_txs_shifted c)) as [[t'|]|] eqn:N; try discriminate. intros X; injection X as ->.
  repeat split. apply Nat.ltb_lt. apply nth_error_Some. congruence.
Qed.

Lemma lview_tx_put c i t t0 : tx_slot c i = Some t0 ->
  lview (tx_put c i t) = v_put i (Some (txv t)) (lview c) /\ levs (tx_put c i t) = levs c.
Proof.
  intros Hs. destruct (tx_slot_some c i t0 Hs) as (E1 & E2 & E3). unfold tx_put. rewrite E1, E3.
  split; [|reflexivity]. unfold lview, v_put. cbn. rewrite map_upd. reflexivity.
Qed.
Lemma v_put_same v i x : vslot v i = Some x -> v_put i (Some x) v = v.
Proof.
  unfold vslot, v_put. destruct (i <? lv_sh v); [discriminate|].
  destruct (nth_error (lv_txs v) (i - lv_sh v)) as [[y|]|] eqn:N; try discriminate. intros X; injection X as ->.
  rewrite (upd_same _ _ _ N). destruct v; reflexivity.
Qed.
Lemma lview_tx_upd c i f t : tx_slot c i = Some t ->
  lview (tx_upd c i f) = v_put i (Some (txv (f t))) (lview c) /\ levs (tx_upd c i f) = levs c.
Proof. intros Hs. unfold tx_upd. rewrite Hs. exact (lview_tx_put c i (f t) t Hs). Qed.
Lemma lview_tx_upd_none c i f : tx_slot c i = None -> lview (tx_upd c i f) = lview c /\ levs (tx_upd c i f) = levs c.
Proof. intros Hs. unfold tx_upd. rewrite Hs. split; reflexivity. Qed.
Lemma lview_tx_upd_same c i f : (forall t, txv (f t) = txv t) -> lview (tx_upd c i f) = lview c /\ levs (tx_upd c i f) = levs c.
Proof.
  intros Hf. destruct (tx_slot c i) as [t|] eqn:Hs; [|exact (lview_tx_upd_none c i f Hs)].
  destruct (lview_tx_upd c i f t Hs) as [E1 E2]. split; [|exact E2]. rewrite E1, Hf. apply v_put_same.
  rewrite vslot_lview, Hs. reflexivity.
Qed.

Lemma lview_destroy_incomplete c i t : tx_slot c i = Some t ->
  lview (tx_destroy_incomplete c i) = v_destroy i (lview c) /\ levs (tx_destroy_incomplete c i) = levs c.
Proof.
  intros Hs. destruct (tx_slot_some c i t Hs) as (E1 & E2 & E3). clear Hs E2 E3. unfold tx_destroy_incomplete. rewrite E1.
  set (c1 := c <| c_txs := upd (c_txs c) (i - c_txs_shifted c) None |>).
  assert (A1 : lview c1 = v_put i None (lview c) /\ levs c1 = levs c).
  { split; [|reflexivity]. unfold lview, v_put. cbn. rewrite map_upd. reflexivity. }
  set (c2 := match c_in_tx c1 with Some j => if j =? i then c1 <| c_in_tx := None |> else c1 | None => c1 end).
  assert (A2 : lview c2 = (lview c1) <| lv_itx := clr (lv_itx (lview c)) i |> /\ levs c2 = levs c1).
  { subst c2. change (c_in_tx c1) with (c_in_tx c). unfold clr. change (lv_itx (lview c)) with (c_in_tx c).
    destruct (c_in_tx c) as [a|] eqn:Ea; [destruct (a =? i) eqn:Eai|]; split; try reflexivity;
      unfold lview; cbn; try rewrite Ea; reflexivity. }
  assert (A3 : forall cc, lview (match c_out_tx cc with Some j => if j =? i then cc <| c_out_tx := None |> else cc | None => cc end)
                          = (lview cc) <| lv_otx := clr (lv_otx (lview cc)) i |> /\
                          levs (match c_out_tx cc with Some j => if j =? i then cc <| c_out_tx := None |> else cc | None => cc end) = levs cc).
  { intros cc. unfold clr. change (lv_otx (lview cc)) with (c_out_tx cc).
    destruct (c_out_tx cc) as [b|] eqn:Eb; [destruct (b =? i) eqn:Ebi|]; split; try reflexivity;
      unfold lview; cbn; try rewrite Eb; reflexivity. }
  destruct (A3 c2) as [B1 B2]. rewrite B1, B2. destruct A1 as [A1 A1']. destruct A2 as [A2 A2'].
  split; [|congruence].
  assert (Eo : lv_otx (lview c2) = lv_otx (lview c)) by (rewrite A2, A1; reflexivity).
  rewrite Eo, A2, A1. reflexivity.
Qed.

Definition vcomplete (x : txv3) : Prop := qp x = c_HTP_REQUEST_COMPLETE /\ fst (sp x) = c_HTP_RESPONSE_COMPLETE.
Lemma tx_complete_v t : tx_is_complete t = true -> vcomplete (txv t).
Proof. unfold tx_is_complete, vcomplete. intros H. apply andb_prop in H. destruct H as [H1 H2]. apply Z.eqb_eq in H1, H2. split; assumption. Qed.
Lemma tx_incomplete_v t : tx_is_complete t = false -> ~ vcomplete (txv t).
Proof. unfold tx_is_complete, vcomplete. intros H [H1 H2]. cbn in H1, H2. rewrite H1, H2 in H. cbn in H. discriminate. Qed.

(* what a callback may have done to the view: nothing, or destroyed its (complete) transaction *)
Definition vmoved (i : nat) (v v' : lv) : Prop :=
  v' = v \/ exists x, vslot v i = Some x /\ vcomplete x /\ v' = v_destroy i v.

Lemma lview_tx_destroy c i : vmoved i (lview c) (lview (tx_destroy c i)) /\ levs (tx_destroy c i) = levs c.
Proof.
  unfold tx_destroy. destruct (tx_slot c i) as [t|] eqn:Hs; [|split; [left|]; reflexivity].
  destruct (tx_is_complete t) eqn:Hc; [|split; [left|]; reflexivity].
  destruct (lview_destroy_incomplete c i t Hs) as [E1 E2]. split; [|exact E2].
  right. exists (txv t). rewrite vslot_lview, Hs. split; [reflexivity|]. split; [exact (tx_complete_v t Hc)|exact E1].
Qed.

Section Tx.
Variable cb : cb_oracle.
Variable g : cfg.

Definition rc3 (rc : st) : Prop := rc = ST_OK \/ rc = ST_STOP \/ rc = ST_ERROR.

Lemma hook_lv h i d l sn c rc c1 : run_hook_ex cb h i d l sn c = (rc, c1) ->
  levs c1 = (h, i) :: levs c /\ rc3 rc /\ vmoved i (lview c) (lview c1).
Proof.
  unfold run_hook_ex. set (c0 := emit (bump_hook c h) (mkev h i d l sn)).
  assert (E0 : lview c0 = lview c /\ levs c0 = (h, i) :: levs c) by (split; reflexivity). destruct E0 as [E0 E0'].
  unfold rc3, vmoved. destruct (cb h (hook_count c h)); intros X; injection X as <- <-; rewrite <- ?E0.
  1-4: split; [exact E0'|]; split; [tauto|left; reflexivity].
  - match goal with |- context [tx_upd c0 i ?f] => destruct (lview_tx_upd_same c0 i f (fun t => eq_refl)) as [A B] end.
    split; [exact (eq_trans B E0')|]. split; [tauto|left; exact A].
  - match goal with |- context [tx_upd c0 i ?f] => destruct (lview_tx_upd_same c0 i f (fun t => eq_refl)) as [A B] end.
    split; [exact (eq_trans B E0')|]. split; [tauto|left; exact A].
  - destruct (lview_tx_destroy c0 i) as [A B]. split; [exact (eq_trans B E0')|]. split; [tauto|exact A].
Qed.

(* ---- a callback's possible destruction of its transaction and the invariant ---- *)
Lemma vmoved_inc i v v' x : vmoved i v v' -> vslot v i = Some x -> ~ vcomplete x -> v' = v.
Proof. intros [E|(y & Hy & Hc & _)] Hs Hn; [exact E|]. rewrite Hs in Hy. injection Hy as <-. contradiction. Qed.
Lemma Core_moved xq xs i v v' m : vmoved i v v' -> Core xq xs v m -> Core xq xs v' m.
Proof. intros [->|(x & Hx & _ & ->)] C; [exact C|]. apply Core_destroy; [exact C|congruence]. Qed.
Lemma RQ_moved i v v' m : vmoved i v v' -> RQ v m -> RQ v' m.
Proof. intros [->|(x & Hx & [Hc _] & ->)] R; [exact R|]. exact (RQ_destroy v m i x R Hx Hc). Qed.
Lemma RS_moved i v v' m : vmoved i v v' -> RS v m -> RS v' m.
Proof. intros [->|(x & Hx & [_ Hc] & ->)] R; [exact R|]. exact (RS_destroy v m i x R Hx Hc). Qed.
Lemma vmoved_fields i v v' : vmoved i v v' ->
  lv_is v' = lv_is v /\ lv_os v' = lv_os v /\ lv_ist v' = lv_ist v /\ lv_ost v' = lv_ost v /\ lv_ih v' = lv_ih v /\ lv_oh v' = lv_oh v /\
  lv_icl v' = lv_icl v /\ lv_sh v' = lv_sh v /\ lv_on v' = lv_on v /\ vnid v' = vnid v.
Proof.
  intros [->|(x & Hx & _ & ->)]; [repeat split; reflexivity|].
  repeat split; try reflexivity. unfold v_destroy. change (vnid (v_put i None v) = vnid v). apply vnid_put.
Qed.

(* ---- one callback: the log, the monitor state and the core invariant ---- *)
Lemma hook_step H xq xs h i d l sn c rc c1 m s' :
  run_hook_ex cb h i d l sn c = (rc, c1) ->
  MS (levs c ++ H) m -> lc_step (m i) h = Some s' -> Core xq xs (lview c) (mupd m i s') ->
  MS (levs c1 ++ H) (mupd m i s') /\ Core xq xs (lview c1) (mupd m i s') /\ rc3 rc /\ vmoved i (lview c) (lview c1).
Proof.
  intros E HM Hs HC. destruct (hook_lv h i d l sn c rc c1 E) as (El & Hr & Hv).
  split; [rewrite El; exact (MS_emit _ m h i s' HM Hs)|]. split; [exact (Core_moved xq xs i _ _ _ Hv HC)|]. split; assumption.
Qed.

(* the monitor of a live transaction whose request (response) is not complete has not seen TRANSACTION_COMPLETE *)
Lemma nofin_q xq xs v m i p ps ce : Core xq xs v m -> vslot v i = Some (p, ps, ce) -> p <> c_HTP_REQUEST_COMPLETE -> lc_fin (m i) = false /\ lc_rq (m i) < 6.
Proof.
  intros C Hs Hp. destruct (co_bnd _ _ _ _ C i) as (B1 & B2 & B3).
  assert (lc_rq (m i) <> 6) by (intros X; exact (Hp (co_q6 _ _ _ _ C i p ps ce Hs X))).
  split; [|lia]. destruct (lc_fin (m i)); [|reflexivity]. destruct (B3 eq_refl). contradiction.
Qed.
Lemma nofin_s xq xs v m i p ps ce : Core xq xs v m -> vslot v i = Some (p, ps, ce) -> ps <> c_HTP_RESPONSE_COMPLETE -> lc_fin (m i) = false /\ lc_rs (m i) < 6.
Proof.
  intros C Hs Hp. destruct (co_bnd _ _ _ _ C i) as (B1 & B2 & B3).
  assert (lc_rs (m i) <> 6) by (intros X; exact (Hp (co_s6 _ _ _ _ C i p ps ce Hs X))).
  split; [|lia]. destruct (lc_fin (m i)); [|reflexivity]. destruct (B3 eq_refl). contradiction.
Qed.

(* a request-side callback on a transaction whose request is not complete: rq moves to q' < 6 *)
Lemma qhook H h i d l sn c rc c1 m q' p ps ce :
  run_hook_ex cb h i d l sn c = (rc, c1) ->
  MS (levs c ++ H) m -> Core None None (lview c) m -> vslot (lview c) i = Some (p, ps, ce) -> p <> c_HTP_REQUEST_COMPLETE ->
  lc_step (m i) h = Some (lcq (m i) q') -> q' < 6 ->
  MS (levs c1 ++ H) (mupd m i (lcq (m i) q')) /\ Core None None (lview c1) (mupd m i (lcq (m i) q')) /\ rc3 rc /\ lview c1 = lview c.
Proof.
  intros E HM HC Hs Hp Hst Hq. destruct (nofin_q _ _ _ _ _ _ _ _ HC Hs Hp) as [Hf _].
  destruct (vslot_lt _ _ _ Hs) as [_ Hi].
  assert (HC' : Core None None (lview c) (mupd m i (lcq (m i) q'))).
  { apply (Core_qstep None None None); try assumption; [lia| |tauto].
    intros p0 ps0 ce0 Hs0. rewrite Hs in Hs0. injection Hs0 as <- <- <-. split; [lia|tauto]. }
  destruct (hook_step H None None h i d l sn c rc c1 m _ E HM Hst HC') as (A & B & R & V).
  split; [exact A|]. split; [exact B|]. split; [exact R|].
  apply (vmoved_inc i _ _ _ V Hs). intros [X _]. cbn in X. contradiction.
Qed.
Lemma shook H h i d l sn c rc c1 m r' p ps ce :
  run_hook_ex cb h i d l sn c = (rc, c1) ->
  MS (levs c ++ H) m -> Core None None (lview c) m -> vslot (lview c) i = Some (p, ps, ce) -> ps <> c_HTP_RESPONSE_COMPLETE ->
  i < lv_sh (lview c) + lv_on (lview c) ->
  lc_step (m i) h = Some (lcs (m i) r') -> r' < 6 ->
  MS (levs c1 ++ H) (mupd m i (lcs (m i) r')) /\ Core None None (lview c1) (mupd m i (lcs (m i) r')) /\ rc3 rc /\ lview c1 = lview c.
Proof.
  intros E HM HC Hs Hp Ho Hst Hq. destruct (nofin_s _ _ _ _ _ _ _ _ HC Hs Hp) as [Hf _].
  destruct (vslot_lt _ _ _ Hs) as [_ Hi].
  assert (HC' : Core None None (lview c) (mupd m i (lcs (m i) r'))).
  { apply (Core_sstep None None None); try assumption; [lia| |tauto].
    intros p0 ps0 ce0 Hs0. rewrite Hs in Hs0. injection Hs0 as <- <- <-. split; [lia|tauto]. }
  destruct (hook_step H None None h i d l sn c rc c1 m _ E HM Hst HC') as (A & B & R & V).
  split; [exact A|]. split; [exact B|]. split; [exact R|].
  apply (vmoved_inc i _ _ _ V Hs). intros [_ X]. cbn in X. contradiction.
Qed.

(* the other side's relation does not see such a step *)
Lemma RS_qupd v m i q' : RS v m -> RS v (mupd m i (lcq (m i) q')).
Proof. intros R. apply (RS_ext v v m); try reflexivity; [|exact R]. intros j _. mu j i; reflexivity. Qed.
Lemma RQ_supd v m i r' : RQ v m -> RQ v (mupd m i (lcs (m i) r')).
Proof. intros R. apply (RQ_ext v v m); try reflexivity; [|exact R]. intros j _. mu j i; reflexivity. Qed.
Lemma RS_fupd v m i : lc_rs (m i) = 6 -> RS v m -> RS v (mupd m i (mklc 6 6 true)).
Proof. intros E R. apply (RS_ext v v m); try reflexivity; [|exact R]. intros j _. mu j i; [symmetry; exact E|reflexivity]. Qed.
Lemma RQ_fupd v m i : lc_rq (m i) = 6 -> RQ v m -> RQ v (mupd m i (mklc 6 6 true)).
Proof. intros E R. apply (RQ_ext v v m); try reflexivity; [|exact R]. intros j _. mu j i; [symmetry; exact E|reflexivity]. Qed.


(* ---- bookkeeping on monitor assignments ---- *)
Lemma MS_meq L m m' : MS L m' -> (forall j, m' j = m j) -> MS L m.
Proof. intros HM E j. rewrite <- E. apply HM. Qed.
Lemma Core_meq xq xs v m m' : Core xq xs v m' -> (forall j, m' j = m j) -> Core xq xs v m.
Proof.
  intros [H1 H2 H3 H4 H5 H6 H7 H8 H9] E.
  constructor; try assumption; intros;
    repeat match goal with
           | X : context [m ?j] |- _ => rewrite <- (E j) in X
           | |- context [m ?j] => rewrite <- (E j)
           end; eauto.
Qed.
Lemma lcq_id s : lc_fin s = false -> lcq s (lc_rq s) = s.
Proof. destruct s as [q r f]. cbn. intros ->. reflexivity. Qed.
Lemma lcs_id s : lc_fin s = false -> lcs s (lc_rs s) = s.
Proof. destruct s as [q r f]. cbn. intros ->. reflexivity. Qed.
Lemma mupd_id m i s j : s = m i -> mupd m i s j = m j.
Proof. intros ->. unfold mupd. destruct (j =? i) eqn:E; b2p; [subst; reflexivity|reflexivity]. Qed.

(* a move of the request component of transaction i (never backwards); the rest is untouched *)
Definition qmv (i : nat) (m m' : nat -> lc) : Prop :=
  (forall j, lc_rs (m' j) = lc_rs (m j)) /\ (forall j, j <> i -> lc_rq (m' j) = lc_rq (m j)) /\ lc_rq (m i) <= lc_rq (m' i).
Definition smv (i : nat) (m m' : nat -> lc) : Prop :=
  (forall j, lc_rq (m' j) = lc_rq (m j)) /\ (forall j, j <> i -> lc_rs (m' j) = lc_rs (m j)).
Lemma qmv_refl i m : qmv i m m. Proof. repeat split; auto. Qed.
Lemma qmv_trans i a b c : qmv i a b -> qmv i b c -> qmv i a c.
Proof.
  intros (A1 & A2 & A3) (B1 & B2 & B3). split; [intros j; rewrite B1; apply A1|]. split; [intros j Hj; rewrite (B2 j Hj); apply (A2 j Hj)|lia].
Qed.
Lemma qmv_upd i m q' : lc_rq (m i) <= q' -> qmv i m (mupd m i (lcq (m i) q')).
Proof. intros L. repeat split; intros; try (mu j i; try reflexivity; try contradiction). rewrite mupd_same. exact L. Qed.
Lemma qmv_fupd i m : lc_rq (m i) = 6 -> lc_rs (m i) = 6 -> qmv i m (mupd m i (mklc 6 6 true)).
Proof. intros A B. repeat split; intros; try (mu j i; try reflexivity; try contradiction; auto). rewrite mupd_same. cbn. lia. Qed.
Lemma smv_refl i m : smv i m m. Proof. repeat split; auto. Qed.
Lemma smv_trans i a b c : smv i a b -> smv i b c -> smv i a c.
Proof. intros (A1 & A2) (B1 & B2). split; [intros j; rewrite B1; apply A1|intros j Hj; rewrite (B2 j Hj); apply (A2 j Hj)]. Qed.
Lemma smv_upd i m r' : smv i m (mupd m i (lcs (m i) r')).
Proof. repeat split; intros; mu j i; try reflexivity; contradiction. Qed.
Lemma smv_fupd i m : lc_rq (m i) = 6 -> lc_rs (m i) = 6 -> smv i m (mupd m i (mklc 6 6 true)).
Proof. intros A B. repeat split; intros; mu j i; try reflexivity; try contradiction; auto. Qed.
Lemma RS_qmv i v m m' : qmv i m m' -> RS v m -> RS v m'.
Proof. intros (A & _) R. apply (RS_ext v v m); try reflexivity; [|exact R]. intros j _. apply A. Qed.
Lemma RQ_smv i v m m' : smv i m m' -> RQ v m -> RQ v m'.
Proof. intros (A & _) R. apply (RQ_ext v v m); try reflexivity; [|exact R]. intros j _. apply A. Qed.
Lemma RQ_qmv i v m m' :
  qmv i m m' -> lv_itx v = Some i ->
  (forall p ps ce, vslot v i = Some (p, ps, ce) -> qst (lv_ist v) p (lc_rq (m i)) -> qst (lv_ist v) p (lc_rq (m' i))) -> RQ v m -> RQ v m'.
Proof.
  intros (A1 & A2 & A3) Hi Hq [H1 H2 H3]. constructor; [| |exact H3].
  - intros j Hj. assert (j = i) by congruence. subst j. destruct (H1 i Hi) as (p & ps & ce & Hs & Hp & Hst & Hx).
    exists p, ps, ce. split; [exact Hs|]. split; [exact Hp|]. split; [exact (Hq p ps ce Hs Hst)|exact Hx].
  - intros h Hh. destruct (H2 h Hh) as (Ha & Hb & j & Hj & Hn). split; [exact Ha|]. split; [exact Hb|].
    assert (j = i) by congruence. subst j. exists i. split; [exact Hi|lia].
Qed.
Lemma RQ_qmv_other i v m m' : qmv i m m' -> lv_itx v <> Some i -> RQ v m -> RQ v m'.
Proof.
  intros (A1 & A2 & A3) Hi R. apply (RQ_ext v v m); try reflexivity; [|exact R].
  intros j Hj. apply A2. congruence.
Qed.
Lemma RS_smv j v m m' :
  smv j m m' -> lv_otx v = Some j -> (forall h, lv_oh v = Some h -> need_s h <= lc_rs (m' j)) ->
  (forall p ps ce, vslot v j = Some (p, ps, ce) -> sst (lv_ost v) ps ce (lc_rs (m j)) -> sst (lv_ost v) ps ce (lc_rs (m' j))) -> RS v m -> RS v m'.
Proof.
  intros (A1 & A2) Hi Hn Hq [H1 H2 H3]. constructor; [| |exact H3].
  - intros k Hk. assert (k = j) by congruence. subst k. destruct (H1 j Hi) as (p & ps & ce & Hs & Hp & Hst).
    exists p, ps, ce. split; [exact Hs|]. split; [exact Hp|exact (Hq p ps ce Hs Hst)].
  - intros h Hh. destruct (H2 h Hh) as (Ha & k & Hk & Hm). split; [exact Ha|].
    assert (k = j) by congruence. subst k. exists j. split; [exact Hi|exact (Hn h Hh)].
Qed.
Lemma RS_smv_other j v m m' : smv j m m' -> lv_otx v <> Some j -> RS v m -> RS v m'.
Proof.
  intros (A1 & A2) Hi R. apply (RS_ext v v m); try reflexivity; [|exact R].
  intros k Hk. apply A2. congruence.
Qed.

(* ---- a field of one transaction is rewritten ---- *)
Definition v_map (i : nat) (F : txv3 -> txv3) (v : lv) : lv :=
  match vslot v i with Some x => v_put i (Some (F x)) v | None => v end.
Lemma lview_tx_upd_map c i f F : (forall t, txv (f t) = F (txv t)) ->
  lview (tx_upd c i f) = v_map i F (lview c) /\ levs (tx_upd c i f) = levs c.
Proof.
  intros Hf. unfold v_map. rewrite vslot_lview. destruct (tx_slot c i) as [t|] eqn:Hs; cbn [option_map].
  - destruct (lview_tx_upd c i f t Hs) as [A B]. rewrite A, Hf. split; [reflexivity|exact B].
  - exact (lview_tx_upd_none c i f Hs).
Qed.
Lemma vslot_map v i F j : vslot (v_map i F v) j = if j =? i then option_map F (vslot v i) else vslot v j.
Proof.
  unfold v_map. destruct (vslot v i) as [x|] eqn:Hs.
  - rewrite vslot_put by congruence. destruct (j =? i); reflexivity.
  - destruct (j =? i) eqn:E; b2p; [subst; rewrite Hs; reflexivity|reflexivity].
Qed.
Lemma v_map_fields i F v :
  lv_is (v_map i F v) = lv_is v /\ lv_os (v_map i F v) = lv_os v /\ lv_ist (v_map i F v) = lv_ist v /\ lv_ost (v_map i F v) = lv_ost v /\
  lv_itx (v_map i F v) = lv_itx v /\ lv_otx (v_map i F v) = lv_otx v /\ lv_ih (v_map i F v) = lv_ih v /\ lv_oh (v_map i F v) = lv_oh v /\
  lv_icl (v_map i F v) = lv_icl v /\ lv_sh (v_map i F v) = lv_sh v /\ lv_on (v_map i F v) = lv_on v /\ vnid (v_map i F v) = vnid v.
Proof. unfold v_map. destruct (vslot v i); repeat split; try reflexivity. apply vnid_put. Qed.
End Tx.

(* ------------------------------------------------------------------------------------------------ *)
(* 3. request side of the transaction layer *)
Section TxReq.
Variable cb : cb_oracle.
Variable g : cfg.
Variable H : list evp.          (* the events of the earlier API calls, newest first *)

Lemma vslot_tx c i x : vslot (lview c) i = Some x -> exists t, tx_slot c i = Some t /\ txv t = x.
Proof. rewrite vslot_lview. destruct (tx_slot c i) as [t|]; [|discriminate]. intros X; injection X as <-. exists t. auto. Qed.

(* the tx-level body hooks registered by callbacks *)
Lemma tx_hooks_q k d l : forall c m i p ps ce,
  MS (levs c ++ H) m -> Core None None (lview c) m -> vslot (lview c) i = Some (p, ps, ce) -> p <> c_HTP_REQUEST_COMPLETE ->
  2 <= lc_rq (m i) <= 5 ->
  exists m', MS (levs (run_tx_hooks k H_TX_REQUEST_BODY_DATA i d l c) ++ H) m' /\
             Core None None (lview c) m' /\ lview (run_tx_hooks k H_TX_REQUEST_BODY_DATA i d l c) = lview c /\
             qmv i m m' /\ 2 <= lc_rq (m' i) <= 5.
Proof.
  induction k as [|k IH]; intros c m i p ps ce HM HC Hs Hp Hq; cbn [run_tx_hooks].
  - exists m. split; [exact HM|]. split; [exact HC|]. split; [reflexivity|]. split; [apply qmv_refl|exact Hq].
  - set (c1 := emit (bump_hook c H_TX_REQUEST_BODY_DATA) (mkev H_TX_REQUEST_BODY_DATA i d l None)).
    destruct (nofin_q _ _ _ _ _ _ _ _ HC Hs Hp) as [Hf _]. destruct (vslot_lt _ _ _ Hs) as [_ Hi].
    pose proof (lc_h5 (m i) 19 Hf (or_intror eq_refl) Hq) as Hst.
    set (m1 := mupd m i (lcq (m i) (Nat.max 4 (lc_rq (m i))))).
    assert (HM1 : MS (levs c1 ++ H) m1) by exact (MS_emit _ m 19 i _ HM Hst).
    assert (HC1 : Core None None (lview c1) m1).
    { change (lview c1) with (lview c). apply (Core_qstep None None None); try assumption; [lia| |tauto].
      intros p0 ps0 ce0 Hs0. rewrite Hs in Hs0. injection Hs0 as <- <- <-. split; [lia|tauto]. }
    assert (Hq1 : 2 <= lc_rq (m1 i) <= 5) by (subst m1; rewrite mupd_same; cbn [lcq lc_rq]; lia).
    destruct (IH c1 m1 i p ps ce HM1 HC1 Hs Hp Hq1) as (m' & A & B & C & D & E).
    exists m'. split; [exact A|]. split; [exact B|]. split; [exact C|]. split; [|exact E].
    apply (qmv_trans i m m1 m'); [|exact D]. apply qmv_upd. lia.
Qed.

(* htp_req_run_hook_body_data on connp->in_tx *)
Lemma req_body_hook data last c rc c' m i p ps ce :
  req_run_hook_body_data cb data last c = (rc, c') ->
  MS (levs c ++ H) m -> Core None None (lview c) m -> c_in_tx c = Some i -> vslot (lview c) i = Some (p, ps, ce) ->
  p <> c_HTP_REQUEST_COMPLETE -> 2 <= lc_rq (m i) <= 5 ->
  exists m', MS (levs c' ++ H) m' /\ Core None None (lview c') m' /\ lview c' = lview c /\ rc3 rc /\ qmv i m m' /\ 2 <= lc_rq (m' i) <= 5.
Proof.
  intros E HM HC Hi Hs Hp Hq. unfold req_run_hook_body_data in E. rewrite Hi in E.
  assert (Triv : (rc, c') = (ST_OK, c) -> exists m', MS (levs c' ++ H) m' /\ Core None None (lview c') m' /\ lview c' = lview c /\ rc3 rc /\ qmv i m m' /\ 2 <= lc_rq (m' i) <= 5).
  { intros X. injection X as -> ->. exists m. split; [exact HM|]. split; [exact HC|]. split; [reflexivity|]. split; [left; reflexivity|].
    split; [apply qmv_refl|exact Hq]. }
  assert (Main : run_data_hook cb H_REQUEST_BODY_DATA i data last
                   (run_tx_hooks (t_hook_request_body (tx_get c i)) H_TX_REQUEST_BODY_DATA i data last c) = (rc, c') ->
                 exists m', MS (levs c' ++ H) m' /\ Core None None (lview c') m' /\ lview c' = lview c /\ rc3 rc /\ qmv i m m' /\ 2 <= lc_rq (m' i) <= 5).
  { clear E Triv. intros E.
    destruct (tx_hooks_q (t_hook_request_body (tx_get c i)) data last c m i p ps ce HM HC Hs Hp Hq) as (m1 & A & B & C & D & F).
    set (c1 := run_tx_hooks _ _ _ _ _ c) in *. rewrite <- C in B, Hs.
    destruct (nofin_q _ _ _ _ _ _ _ _ B Hs Hp) as [Hf _].
    pose proof (lc_h5 (m1 i) 5 Hf (or_introl eq_refl) F) as Hst.
    destruct (qhook cb H H_REQUEST_BODY_DATA i data last None c1 rc c' m1 _ p ps ce E A B Hs Hp Hst ltac:(lia)) as (A' & B' & R & V).
    eexists. split; [exact A'|]. split; [exact B'|]. split; [congruence|]. split; [exact R|]. split.
    - apply (qmv_trans i m m1); [exact D|]. apply qmv_upd. lia.
    - rewrite mupd_same. cbn [lcq lc_rq]. lia. }
  destruct data as [[|b r]|]; [exact (Triv (eq_sym E))|exact (Main E)|exact (Main E)].
Qed.

Lemma req_body_ex i data nlen c rc c' m p ps ce :
  tx_req_process_body_data_ex cb i data nlen c = (rc, c') ->
  MS (levs c ++ H) m -> Core None None (lview c) m -> c_in_tx c = Some i -> vslot (lview c) i = Some (p, ps, ce) ->
  p <> c_HTP_REQUEST_COMPLETE -> 2 <= lc_rq (m i) <= 5 ->
  exists m', MS (levs c' ++ H) m' /\ Core None None (lview c') m' /\ lview c' = lview c /\ (rc = ST_OK \/ rc = ST_ERROR) /\
             qmv i m m' /\ 2 <= lc_rq (m' i) <= 5.
Proof.
  intros E HM HC Hi Hs Hp Hq. unfold tx_req_process_body_data_ex in E.
  match type of E with context [tx_upd c i ?f] => destruct (lview_tx_upd_same c i f (fun t => eq_refl)) as [A B]; set (c0 := tx_upd c i f) in * end.
  assert (Hi0 : c_in_tx c0 = Some i) by (change (lv_itx (lview c0) = Some i); rewrite A; exact Hi).
  destruct (req_run_hook_body_data cb data _ c0) as [rc1 c1] eqn:E1.
  rewrite <- A in HC, Hs. rewrite <- B in HM.
  destruct (req_body_hook data _ c0 rc1 c1 m i p ps ce E1 HM HC Hi0 Hs Hp Hq) as (m' & A' & B' & C' & R & D & F).
  exists m'. assert (c' = c1 /\ (rc = ST_OK \/ rc = ST_ERROR)) as [-> Hr] by (destruct rc1; injection E as <- <-; auto).
  split; [exact A'|]. split; [exact B'|]. split; [congruence|]. split; [exact Hr|]. split; assumption.
Qed.

(* htp_connp_req_receiver_send_data / _finalize_clear *)
Definition QJ (c : connp) (m : nat -> lc) : Prop := MS (levs c ++ H) m /\ Core None None (lview c) m /\ RQ (lview c) m.
Lemma QJ_view c c' m : lview c' = lview c -> levs c' = levs c -> QJ c m -> QJ c' m.
Proof. unfold QJ. intros -> ->. tauto. Qed.

Lemma req_send last c rc c' m :
  req_receiver_send_data cb last c = (rc, c') -> QJ c m -> QJ c' m /\ lview c' = lview c /\ rc3 rc.
Proof.
  intros E (HM & HC & HR). unfold req_receiver_send_data in E.
  destruct (k_receiver_hook (c_in c)) as [h|] eqn:Eh.
  2:{ injection E as <- <-. split; [split; [|split]; assumption|]. split; [reflexivity|left; reflexivity]. }
  destruct (rq_arm _ _ HR h Eh) as (Hh & _ & i & Hi & Hn).
  destruct (rq_txc _ _ HR i Hi) as (p & ps & ce & Hs & Hp & _).
  match type of E with context [if ?b then ?x else c] => set (c0 := if b then x else c) in E;
    assert (V0 : lview c0 = lview c /\ levs c0 = levs c) by (subst c0; destruct b; split; reflexivity) end.
  destruct V0 as [V0 L0].
  assert (Hi0 : in_txi c0 = i) by (unfold in_txi; change (c_in_tx c0) with (lv_itx (lview c0)); rewrite V0; cbn; change (lv_itx (lview c)) with (c_in_tx c) in Hi; rewrite Hi; reflexivity).
  rewrite Hi0 in E. unfold run_data_hook in E.
  destruct (run_hook_ex cb h i (cur_slice (c_in c) (k_receiver (c_in c)) (k_read (c_in c))) last None c0) as [rc1 c1] eqn:E1.
  rewrite <- V0 in HC, Hs, HR. rewrite <- L0 in HM.
  destruct (nofin_q _ _ _ _ _ _ _ _ HC Hs Hp) as [Hf Hlt].
  assert (Hst : lc_step (m i) h = Some (lcq (m i) (lc_rq (m i)))).
  { destruct Hh as [-> | ->]; [apply lc_h3|apply lc_h7]; try assumption; unfold need_q in Hn; cbn in Hn; exact Hn. }
  destruct (qhook cb H h i _ last None c0 rc1 c1 m _ p ps ce E1 HM HC Hs Hp Hst Hlt) as (A & B & R & V).
  assert (Em : forall j, mupd m i (lcq (m i) (lc_rq (m i))) j = m j) by (intros j; apply mupd_id; apply lcq_id; exact Hf).
  pose proof (MS_meq _ _ _ A Em) as A'. pose proof (Core_meq _ _ _ _ _ B Em) as B'.
  assert (Q1 : QJ c1 m) by (split; [exact A'|]; split; [exact B'|]; rewrite V; exact HR).
  destruct R as [-> | [-> | ->]]; injection E as <- <-.
  - split; [exact (QJ_view c1 _ m eq_refl eq_refl Q1)|]. split; [|left; reflexivity]. transitivity (lview c1); [reflexivity|congruence].
  - split; [exact Q1|]. split; [congruence|right; left; reflexivity].
  - split; [exact Q1|]. split; [congruence|right; right; reflexivity].
Qed.

Lemma lv_unarm_id v : lv_ih v = None -> v <| lv_ih := None |> = v.
Proof. destruct v. cbn. intros ->. reflexivity. Qed.
Lemma RQ_unarm v m : RQ v m -> RQ (v <| lv_ih := None |>) m.
Proof.
  intros [H1 H2 H3]. constructor.
  - intros i Hi. exact (H1 i Hi).
  - intros h Hh. discriminate Hh.
  - exact H3.
Qed.
Lemma req_fin_clear c rc c' m :
  req_receiver_finalize_clear cb c = (rc, c') -> QJ c m -> QJ c' m /\ lview c' = (lview c) <| lv_ih := None |> /\ rc3 rc.
Proof.
  intros E Q. unfold req_receiver_finalize_clear in E.
  destruct (k_receiver_hook (c_in c)) as [h|] eqn:Eh.
  - destruct (req_receiver_send_data cb true c) as [rc1 c1] eqn:E1. injection E as <- <-.
    destruct (req_send true c rc1 c1 m E1 Q) as ((A & B & R) & V & Rc).
    assert (V' : lview (c1 <| c_in := (c_in c1) <| k_receiver_hook := None |> |>) = (lview c) <| lv_ih := None |>) by (rewrite <- V; reflexivity).
    split; [|split; [exact V'|exact Rc]].
    split; [exact A|]. rewrite V'. split; [|apply RQ_unarm; rewrite <- V; exact R].
    apply (Core_ext None None (lview c1)); try (rewrite V; reflexivity). exact B.
  - injection E as <- <-. split; [exact Q|]. split; [|left; reflexivity]. symmetry. apply lv_unarm_id. exact Eh.
Qed.

(* ---- progress updates ---- *)
Definition xsetp (p' : Z) (x : txv3) : txv3 := (p', snd (fst x), snd x).
Definition xsetps (ps' : Z) (x : txv3) : txv3 := (fst (fst x), ps', snd x).
Definition xsetce (ce' : Z) (x : txv3) : txv3 := (fst (fst x), snd (fst x), ce').

Lemma Core_setp xq v m i p' :
  Core xq None v m -> p' <> c_HTP_REQUEST_COMPLETE -> lc_rq (m i) < 6 -> Core xq None (v_map i (xsetp p') v) m.
Proof.
  intros C Hp Hq. unfold v_map. destruct (vslot v i) as [[[p ps] ce]|] eqn:Hs; [|exact C].
  apply (Core_put xq xq None None v m i (p, ps, ce)); try assumption; cbn.
  - intros X. lia.
  - intros _ X. contradiction.
  - exact (co_s6 _ _ _ _ C i p ps ce Hs).
  - exact (co_sc _ _ _ _ C i p ps ce Hs).
  - tauto.
  - tauto.
Qed.
Lemma RS_setp v m i p' : RS v m -> RS (v_map i (xsetp p') v) m.
Proof.
  intros R. destruct (v_map_fields i (xsetp p') v) as (_ & _ & _ & E4 & _ & E6 & _ & E8 & _).
  apply (RS_ext v _ m m); try assumption; try reflexivity.
  intros j _. rewrite vslot_map. destruct (j =? i) eqn:E; b2p; [subst j|reflexivity]. destruct (vslot v i) as [[[p ps] ce]|]; reflexivity.
Qed.

(* htp_tx_state_request_start *)
Lemma request_start_spec i c rc c' m p ps ce :
  tx_state_request_start cb i c = (rc, c') ->
  MS (levs c ++ H) m -> Core None None (lview c) m -> c_in_tx c = Some i -> vslot (lview c) i = Some (p, ps, ce) ->
  p <> c_HTP_REQUEST_COMPLETE -> lc_rq (m i) = 0 ->
  exists m', MS (levs c' ++ H) m' /\ Core None None (lview c') m' /\ rc3 rc /\ qmv i m m' /\ lc_rq (m' i) = 1 /\
             (rc = ST_OK -> lview c' = v_map i (xsetp c_HTP_REQUEST_LINE) ((lview c) <| lv_ist := REQ_LINE |>)) /\
             (rc <> ST_OK -> lview c' = lview c).
Proof.
  intros E HM HC Hi Hs Hp Hq. unfold tx_state_request_start, run_hook in E.
  destruct (run_hook_ex cb H_REQUEST_START i None false None c) as [rc1 c1] eqn:E1.
  destruct (nofin_q _ _ _ _ _ _ _ _ HC Hs Hp) as [Hf _].
  pose proof (lc_h0 (m i) Hf Hq) as Hst.
  destruct (qhook cb H H_REQUEST_START i None false None c rc1 c1 m 1 p ps ce E1 HM HC Hs Hp Hst ltac:(lia)) as (A & B & R & V).
  exists (mupd m i (lcq (m i) 1)).
  assert (Q : qmv i m (mupd m i (lcq (m i) 1))) by (apply qmv_upd; lia).
  assert (Q1 : lc_rq (mupd m i (lcq (m i) 1) i) = 1) by (rewrite mupd_same; reflexivity).
  destruct R as [-> | [-> | ->]].
  2,3: injection E as <- <-; split; [exact A|]; split; [exact B|]; split; [unfold rc3; tauto|]; split; [exact Q|]; split; [exact Q1|];
       split; [discriminate|intros _; exact V].
  assert (Hi1 : c_in_tx c1 = Some i) by (change (lv_itx (lview c1) = Some i); rewrite V; exact Hi).
  match type of E with context [match ?x with Some _ => _ | None => _ end] => change x with (c_in_tx c1) in E end.
  rewrite Hi1 in E. injection E as <- <-.
  match goal with |- context [tx_upd ?cc i ?f] =>
    destruct (lview_tx_upd_map cc i f (xsetp c_HTP_REQUEST_LINE) (fun t => eq_refl)) as [A2 B2]; set (c2 := tx_upd cc i f) in * end.
  assert (V2 : lview c2 = v_map i (xsetp c_HTP_REQUEST_LINE) ((lview c) <| lv_ist := REQ_LINE |>)).
  { rewrite A2. f_equal. rewrite <- V. reflexivity. }
  split; [rewrite B2; exact A|]. split.
  - rewrite V2. apply Core_setp; [|discriminate|rewrite Q1; lia].
    apply (Core_ext None None (lview c1)); try (rewrite V; reflexivity). exact B.
  - split; [left; reflexivity|]. split; [exact Q|]. split; [exact Q1|]. split; [intros _; exact V2|congruence].
Qed.

Lemma tx_get_live c i t : tx_slot c i = Some t -> tx_get c i = t.
Proof. unfold tx_get. intros ->. reflexivity. Qed.

(* htp_tx_state_request_line *)
Lemma request_line_spec i c rc c' m p ps ce :
  tx_state_request_line cb g i c = (rc, c') ->
  MS (levs c ++ H) m -> Core None None (lview c) m -> vslot (lview c) i = Some (p, ps, ce) ->
  p <> c_HTP_REQUEST_COMPLETE -> lc_rq (m i) <= 2 ->
  exists m', MS (levs c' ++ H) m' /\ Core None None (lview c') m' /\ rc3 rc /\ qmv i m m' /\ lc_rq (m' i) <= 2 /\
             (rc = ST_OK -> lview c' = (lview c) <| lv_ist := REQ_PROTOCOL |> /\ lc_rq (m' i) = 2) /\
             (rc <> ST_OK -> lview c' = lview c).
Proof.
  intros E HM HC Hs Hp Hq. unfold tx_state_request_line in E.
  destruct (vslot_tx c i _ Hs) as (t0 & Ht0 & Hv0). rewrite (tx_get_live c i t0 Ht0) in E.
  destruct (rq_uri_pipeline_opt g _ _ t0) as [t'|] eqn:Ep.
  2:{ injection E as <- <-. exists m. split; [exact HM|]. split; [exact HC|]. split; [unfold rc3; tauto|]. split; [apply qmv_refl|].
      split; [exact Hq|]. split; [discriminate|reflexivity]. }
  pose proof (txv_pipeline g _ _ t0 t' Ep) as Hv.
  destruct (lview_tx_put c i t' t0 Ht0) as [A0 B0]. set (c0 := tx_put c i t') in *.
  assert (V0 : lview c0 = lview c) by (rewrite A0, Hv, Hv0; apply v_put_same; exact Hs).
  unfold run_hook in E.
  destruct (run_hook_ex cb H_REQUEST_URI_NORMALIZE i None false None c0) as [rc1 c1] eqn:E1.
  rewrite <- V0 in HC, Hs. rewrite <- B0 in HM.
  destruct (nofin_q _ _ _ _ _ _ _ _ HC Hs Hp) as [Hf _].
  pose proof (lc_h12 (m i) 2 Hf (or_intror eq_refl) Hq) as Hst.
  destruct (qhook cb H H_REQUEST_URI_NORMALIZE i None false None c0 rc1 c1 m 2 p ps ce E1 HM HC Hs Hp Hst ltac:(lia)) as (A & B & R & V).
  set (m1 := mupd m i (lcq (m i) 2)) in *.
  assert (Q : qmv i m m1) by (apply qmv_upd; lia).
  assert (Q1 : lc_rq (m1 i) = 2) by (subst m1; rewrite mupd_same; reflexivity).
  destruct R as [-> | [-> | ->]].
  2,3: injection E as <- <-; exists m1; split; [exact A|]; split; [exact B|]; split; [unfold rc3; tauto|]; split; [exact Q|]; split; [lia|];
       split; [discriminate|intros _; congruence].
  destruct (run_hook_ex cb H_REQUEST_LINE i None false None c1) as [rc2 c2] eqn:E2.
  rewrite <- V in Hs.
  destruct (nofin_q _ _ _ _ _ _ _ _ B Hs Hp) as [Hf1 _].
  pose proof (lc_h12 (m1 i) 1 Hf1 (or_introl eq_refl) ltac:(lia)) as Hst2.
  destruct (qhook cb H H_REQUEST_LINE i None false None c1 rc2 c2 m1 2 p ps ce E2 A B Hs Hp Hst2 ltac:(lia)) as (A2 & B2 & R2 & V2).
  set (m2 := mupd m1 i (lcq (m1 i) 2)) in *.
  assert (Q' : qmv i m m2) by (apply (qmv_trans i m m1); [exact Q|apply qmv_upd; lia]).
  assert (Q2 : lc_rq (m2 i) = 2) by (subst m2; rewrite mupd_same; reflexivity).
  exists m2. destruct R2 as [-> | [-> | ->]]; injection E as <- <-.
  2,3: split; [exact A2|]; split; [exact B2|]; split; [unfold rc3; tauto|]; split; [exact Q'|]; split; [lia|];
       split; [discriminate|intros _; congruence].
  split; [exact A2|]. split.
  - apply (Core_ext None None (lview c2)); try reflexivity. exact B2.
  - split; [unfold rc3; tauto|]. split; [exact Q'|]. split; [lia|]. split; [|congruence].
    intros _. split; [|exact Q2]. transitivity ((lview c2) <| lv_ist := REQ_PROTOCOL |>); [reflexivity|]. rewrite V2, V, V0. reflexivity.
Qed.

(* htp_tx_process_request_headers *)
Lemma process_request_headers_spec i c rc c' m :
  tx_process_request_headers cb i c = (rc, c') -> QJ c m -> c_in_tx c = Some i -> 2 <= lc_rq (m i) <= 3 ->
  exists m', MS (levs c' ++ H) m' /\ Core None None (lview c') m' /\ rc3 rc /\ qmv i m m' /\ 2 <= lc_rq (m' i) <= 3 /\
             lview c' = (lview c) <| lv_ih := None |> /\ (rc = ST_OK -> lc_rq (m' i) = 3).
Proof.
  intros E Q Hi Hq. pose proof Q as (HM & HC & HR). unfold tx_process_request_headers in E.
  destruct (rq_txc _ _ HR i Hi) as (p & ps & ce & Hs & Hp & _).
  destruct (vslot_tx c i _ Hs) as (t0 & Ht0 & Hv0). rewrite (tx_get_live c i t0 Ht0) in E.
  set (t1 := rq_te_cl t0) in E.
  set (pr := match t_parsed_uri t1 with Some nu => (rq_host nu t1, false) | None => (t1, true) end) in E.
  assert (Hpr : txv (fst pr) = txv t0).
  { subst pr. destruct (t_parsed_uri t1); cbn [fst]; [rewrite txv_host|]; apply txv_te_cl. }
  destruct pr as [t2 fl]. cbn [fst] in Hpr.
  destruct (lview_tx_put c i (rq_content_type t2) t0 Ht0) as [A0 B0]. set (c0 := tx_put c i (rq_content_type t2)) in *.
  assert (V0 : lview c0 = lview c) by (rewrite A0, txv_content_type, Hpr, Hv0; apply v_put_same; exact Hs).
  match type of E with context [if fl then ?x else c0] => set (c0' := if fl then x else c0) in E;
    assert (V0' : lview c0' = lview c /\ levs c0' = levs c) by (subst c0'; destruct fl; split; assumption) end.
  destruct V0' as [V0' L0'].
  destruct (req_receiver_finalize_clear cb c0') as [rc1 c1] eqn:E1.
  destruct (req_fin_clear c0' rc1 c1 m E1 (QJ_view c c0' m V0' L0' Q)) as ((A1 & B1 & R1) & V1 & Rc1).
  rewrite V0' in V1.
  destruct Rc1 as [-> | [-> | ->]].
  2,3: injection E as <- <-; exists m; split; [exact A1|]; split; [exact B1|]; split; [unfold rc3; tauto|]; split; [apply qmv_refl|];
       split; [exact Hq|]; split; [exact V1|discriminate].
  unfold run_hook in E.
  assert (Hs1 : vslot (lview c1) i = Some (p, ps, ce)) by (rewrite V1; exact Hs).
  destruct (nofin_q _ _ _ _ _ _ _ _ B1 Hs1 Hp) as [Hf _].
  pose proof (lc_h4 (m i) Hf Hq) as Hst.
  destruct (qhook cb H H_REQUEST_HEADERS i None false None c1 rc c' m 3 p ps ce E A1 B1 Hs1 Hp Hst ltac:(lia)) as (A & B & R & V).
  exists (mupd m i (lcq (m i) 3)). split; [exact A|]. split; [exact B|]. split; [exact R|]. split; [apply qmv_upd; lia|].
  rewrite mupd_same. cbn [lcq lc_rq]. split; [lia|]. split; [congruence|reflexivity].
Qed.

Lemma RQ_state v m st' :
  RQ v m -> lv_ih v = None ->
  (forall i p ps ce, lv_itx v = Some i -> vslot v i = Some (p, ps, ce) -> qst (lv_ist v) p (lc_rq (m i)) -> qst st' p (lc_rq (m i))) ->
  (q_expect st' = false -> q_expect (lv_ist v) = false) -> (lv_itx v = None -> qnone st' = true) ->
  RQ (v <| lv_ist := st' |>) m.
Proof.
  intros [H1 H2 H3] Hu Hq Hx Hn. constructor; [| |exact Hn].
  - intros i Hi. destruct (H1 i Hi) as (p & ps & ce & Hs & Hp & Hst & He). exists p, ps, ce.
    split; [exact Hs|]. split; [exact Hp|]. split; [exact (Hq i p ps ce Hi Hs Hst)|]. intros X. exact (He (Hx X)).
  - intros h Hh. cbn in Hh. congruence.
Qed.

(* the trailer branch of htp_tx_state_request_headers (also reached when the stream is closed inside the headers) *)
Lemma lv_same2 v : v = v <| lv_ih := lv_ih v |> <| lv_ist := lv_ist v |>.
Proof. destruct v; reflexivity. Qed.
Lemma trailer_branch i c rc c' m ps ce :
  (match run_hook cb H_REQUEST_TRAILER i c with
   | (ST_OK, c) => match req_receiver_finalize_clear cb c with
                   | (ST_OK, c) => (ST_OK, c <| c_in_state := REQ_FINALIZE |>)
                   | r => r
                   end
   | r => r
   end) = (rc, c') ->
  MS (levs c ++ H) m -> Core None None (lview c) m -> c_in_tx c = Some i -> c_in_state c = REQ_HEADERS ->
  vslot (lview c) i = Some (c_HTP_REQUEST_TRAILER, ps, ce) -> 2 <= lc_rq (m i) <= 5 ->
  (0 <? lv_icl (lview c))%Z = false -> (forall h, lv_ih (lview c) = Some h -> h = 3 \/ h = 7) ->
  exists m', QJ c' m' /\ rc3 rc /\ qmv i m m' /\ (exists h' st', lview c' = (lview c) <| lv_ih := h' |> <| lv_ist := st' |>).
Proof.
  intros E HM HC Hi Hst Hs Hq Hx Harm.
  assert (Hp : c_HTP_REQUEST_TRAILER <> c_HTP_REQUEST_COMPLETE) by discriminate.
  unfold run_hook in E. destruct (run_hook_ex cb H_REQUEST_TRAILER i None false None c) as [rc1 c1] eqn:E2.
  destruct (nofin_q _ _ _ _ _ _ _ _ HC Hs Hp) as [Hf _].
  pose proof (lc_h8 (m i) Hf Hq) as Hst8.
  destruct (qhook cb H H_REQUEST_TRAILER i None false None c rc1 c1 m 5 _ ps ce E2 HM HC Hs Hp Hst8 ltac:(lia)) as (A & B & R & V).
  set (m1 := mupd m i (lcq (m i) 5)) in *.
  assert (Qm : qmv i m m1) by (apply qmv_upd; lia).
  assert (Hq1 : lc_rq (m1 i) = 5) by (subst m1; rewrite mupd_same; reflexivity).
  assert (Q1 : QJ c1 m1).
  { split; [exact A|]. split; [exact B|]. rewrite V. constructor.
    - intros j Hj. assert (j = i) by (change (lv_itx (lview c)) with (c_in_tx c) in Hj; congruence). subst j.
      exists c_HTP_REQUEST_TRAILER, ps, ce. split; [exact Hs|]. split; [exact Hp|]. change (lv_ist (lview c)) with (c_in_state c). rewrite Hst, Hq1.
      cbn [qst]. split; [right; split; [reflexivity|lia]|intros _; exact Hx].
    - intros h Hh. split; [exact (Harm h Hh)|]. split; [exact Hst|]. exists i. split; [exact Hi|]. rewrite Hq1. unfold need_q. destruct (h =? 7); lia.
    - intros Hn. change (lv_itx (lview c)) with (c_in_tx c) in Hn. congruence. }
  exists m1. destruct R as [-> | [-> | ->]].
  2,3: injection E as <- <-; split; [exact Q1|]; split; [unfold rc3; tauto|]; split; [exact Qm|]; eexists; eexists; rewrite V; apply lv_same2.
  destruct (req_receiver_finalize_clear cb c1) as [rc2 c2] eqn:E3.
  destruct (req_fin_clear c1 rc2 c2 m1 E3 Q1) as (Q2 & V2 & R2). rewrite V in V2.
  destruct R2 as [-> | [-> | ->]]; injection E as <- <-.
  2,3: split; [exact Q2|]; split; [unfold rc3; tauto|]; split; [exact Qm|]; exists None, (lv_ist (lview c)); rewrite V2; destruct (lview c); reflexivity.
  destruct Q2 as (A2 & B2 & R2).
  assert (V3 : lview (c2 <| c_in_state := REQ_FINALIZE |>) = (lview c) <| lv_ih := None |> <| lv_ist := REQ_FINALIZE |>) by (rewrite <- V2; reflexivity).
  split; [|split; [unfold rc3; tauto|split; [exact Qm|exists None, REQ_FINALIZE; exact V3]]].
  split; [exact A2|]. split; [apply (Core_ext None None (lview c2)); try reflexivity; exact B2|].
  change (RQ ((lview c2) <| lv_ist := REQ_FINALIZE |>) m1). apply RQ_state; [exact R2|rewrite V2; reflexivity| |discriminate|intros _; reflexivity].
  intros j p0 ps0 ce0 Hj Hs0 _. rewrite V2 in Hj. change (lv_itx (lview c) = Some j) in Hj.
  assert (j = i) by (change (lv_itx (lview c)) with (c_in_tx c) in Hj; congruence). subst j.
  cbn [qst]. rewrite Hq1. lia.
Qed.

(* htp_tx_state_request_headers *)
Lemma request_headers_spec i c rc c' m :
  tx_state_request_headers cb i c = (rc, c') -> QJ c m -> c_in_tx c = Some i -> c_in_state c = REQ_HEADERS ->
  exists m', QJ c' m' /\ rc3 rc /\ qmv i m m' /\
             (exists h' st', lview c' = (lview c) <| lv_ih := h' |> <| lv_ist := st' |>).
Proof.
  intros E Q Hi Hst. pose proof Q as (HM & HC & HR). unfold tx_state_request_headers in E.
  destruct (rq_txc _ _ HR i Hi) as (p & ps & ce & Hs & Hp & Hq & Hx).
  change (lv_ist (lview c)) with (c_in_state c) in Hq, Hx. rewrite Hst in Hq, Hx. cbn [qst q_expect] in Hq, Hx. specialize (Hx eq_refl).
  destruct (vslot_tx c i _ Hs) as (t0 & Ht0 & Hv0). rewrite (tx_get_live c i t0 Ht0) in E.
  assert (Ep : t_request_progress t0 = p) by (unfold txv in Hv0; congruence). rewrite Ep in E.
  assert (Same : forall cc, lview cc = (lview cc) <| lv_ih := lv_ih (lview cc) |> <| lv_ist := lv_ist (lview cc) |>) by (intros cc; destruct (lview cc); reflexivity).
  destruct (Z.ltb c_HTP_REQUEST_HEADERS p) eqn:E1.
  - (* trailers *)
    assert (Hq' : p = c_HTP_REQUEST_TRAILER /\ 3 <= lc_rq (m i) <= 5).
    { destruct Hq as [[-> _]|Hq]; [discriminate E1|exact Hq]. }
    destruct Hq' as [-> Hq']. clear Hq.
    apply (trailer_branch i c rc c' m ps ce E HM HC Hi Hst Hs ltac:(lia) Hx).
    intros h Hh. exact (proj1 (rq_arm _ _ HR h Hh)).
  - destruct (Z.leb c_HTP_REQUEST_LINE p) eqn:E2.
    2:{ injection E as <- <-. exists m. split; [exact Q|]. split; [unfold rc3; tauto|]. split; [apply qmv_refl|]. eexists; eexists; apply Same. }
    assert (Hq' : p = c_HTP_REQUEST_HEADERS /\ 2 <= lc_rq (m i) <= 3).
    { destruct Hq as [Hq|[-> _]]; [exact Hq|discriminate E1]. }
    destruct Hq' as [-> Hq']. clear Hq.
    match type of E with context [if ?b then tx_upd c i ?f else c] =>
      set (c0 := if b then tx_upd c i f else c) in E;
      assert (V0 : lview c0 = lview c /\ levs c0 = levs c) by (subst c0; destruct b; [exact (lview_tx_upd_same c i f (fun t => eq_refl))|split; reflexivity]) end.
    destruct V0 as [V0 L0].
    assert (Hi0 : c_in_tx c0 = Some i) by (change (lv_itx (lview c0) = Some i); rewrite V0; exact Hi).
    destruct (tx_process_request_headers cb i c0) as [rc1 c1] eqn:E3.
    destruct (process_request_headers_spec i c0 rc1 c1 m E3 (QJ_view c c0 m V0 L0 Q) Hi0 Hq') as (m1 & A & B & R & Qm & Hq1 & V1 & Hok).
    rewrite V0 in V1.
    assert (R1 : RQ (lview c1) m1).
    { rewrite V1. apply RQ_unarm. apply (RQ_qmv i (lview c) m m1 Qm Hi); [|exact HR].
      intros p0 ps0 ce0 Hs0 _. rewrite Hs in Hs0. injection Hs0 as <- <- <-.
      change (lv_ist (lview c)) with (c_in_state c). rewrite Hst. cbn [qst]. left. split; [reflexivity|exact Hq1]. }
    exists m1. destruct R as [-> | [-> | ->]]; injection E as <- <-.
    2,3: split; [split; [exact A|split; [exact B|exact R1]]|]; split; [unfold rc3; tauto|]; split; [exact Qm|];
         exists None, (lv_ist (lview c)); rewrite V1; destruct (lview c); reflexivity.
    assert (V3 : lview (c1 <| c_in_state := REQ_CONNECT_CHECK |>) = (lview c) <| lv_ih := None |> <| lv_ist := REQ_CONNECT_CHECK |>) by (rewrite <- V1; reflexivity).
    split; [|split; [unfold rc3; tauto|split; [exact Qm|exists None, REQ_CONNECT_CHECK; exact V3]]].
    split; [exact A|]. split; [apply (Core_ext None None (lview c1)); try reflexivity; exact B|].
    change (RQ ((lview c1) <| lv_ist := REQ_CONNECT_CHECK |>) m1). apply RQ_state; [exact R1|rewrite V1; reflexivity| | |].
    + intros j p0 ps0 ce0 Hj Hs0 _. rewrite V1 in Hj. change (lv_itx (lview c) = Some j) in Hj.
      assert (j = i) by (change (lv_itx (lview c)) with (c_in_tx c) in Hj; congruence). subst j.
      cbn [qst]. rewrite (Hok eq_refl). lia.
    + intros _. rewrite V1. change (q_expect (c_in_state c) = false). rewrite Hst. reflexivity.
    + intros Hn. rewrite V1 in Hn. change (c_in_tx c = None) in Hn. congruence.
Qed.

(* htp_tx_finalize (both directions call it): TRANSACTION_COMPLETE when both sides are complete *)
Lemma vmoved_trans_dead i v v1 v2 : vmoved i v v1 -> vmoved i v1 v2 -> vmoved i v v2.
Proof.
  intros [->|(x & Hx & Hc & ->)] M2; [exact M2|].
  destruct M2 as [->|(y & Hy & _)]; [right; exists x; auto|].
  rewrite vslot_destroy in Hy by congruence. rewrite Nat.eqb_refl in Hy. discriminate.
Qed.
Lemma tx_finalize_spec i c rc c' m :
  tx_finalize cb g i c = (rc, c') ->
  MS (levs c ++ H) m -> Core None None (lview c) m -> lc_fin (m i) = false ->
  exists m', MS (levs c' ++ H) m' /\ Core None None (lview c') m' /\ rc3 rc /\ vmoved i (lview c) (lview c') /\
             ((forall j, m' j = m j) \/ (lc_rq (m i) = 6 /\ lc_rs (m i) = 6 /\ m' = mupd m i (mklc 6 6 true))).
Proof.
  intros E HM HC Hf. unfold tx_finalize in E.
  destruct (tx_slot c i) as [t|] eqn:Ht.
  2:{ injection E as <- <-. exists m. split; [exact HM|]. split; [exact HC|]. split; [unfold rc3; tauto|]. split; [left; reflexivity|left; reflexivity]. }
  destruct (tx_is_complete t) eqn:Hc; cbn [negb] in E.
  2:{ injection E as <- <-. exists m. split; [exact HM|]. split; [exact HC|]. split; [unfold rc3; tauto|]. split; [left; reflexivity|left; reflexivity]. }
  assert (Hs : vslot (lview c) i = Some (txv t)) by (rewrite vslot_lview, Ht; reflexivity).
  destruct (tx_complete_v t Hc) as [Cq Cs]. unfold txv in Hs, Cq, Cs. cbn in Cq, Cs.
  assert (Hq : lc_rq (m i) = 6) by (apply (co_qc _ _ _ _ HC i _ _ _ Hs); [discriminate|exact Cq]).
  assert (Hr : lc_rs (m i) = 6) by (apply (co_sc _ _ _ _ HC i _ _ _ Hs); [discriminate|exact Cs]).
  destruct (vslot_lt _ _ _ Hs) as [_ Hi].
  assert (Ho : i < lv_sh (lview c) + lv_on (lview c)).
  { destruct (Nat.lt_ge_cases i (lv_sh (lview c) + lv_on (lview c))) as [X|X]; [exact X|]. pose proof (co_on _ _ _ _ HC i X). lia. }
  pose proof (lc_h18 (m i) Hf Hq Hr) as Hst.
  pose proof (Core_fstep None None _ m i HC Hi Ho Hq Hr) as HC'.
  destruct (run_hook_ex cb H_TRANSACTION_COMPLETE i None false (Some t) c) as [rc1 c1] eqn:E1.
  destruct (hook_step cb H None None H_TRANSACTION_COMPLETE i None false (Some t) c rc1 c1 m _ E1 HM Hst HC') as (A & B & R & V).
  exists (mupd m i (mklc 6 6 true)).
  assert (Fin : forall cc, lview cc = lview c1 -> levs cc = levs c1 ->
            MS (levs cc ++ H) (mupd m i (mklc 6 6 true)) /\ Core None None (lview cc) (mupd m i (mklc 6 6 true)) /\ vmoved i (lview c) (lview cc)).
  { intros cc -> ->. auto. }
  destruct R as [-> | [-> | ->]].
  2,3: injection E as <- <-; destruct (Fin c1 eq_refl eq_refl) as (X1 & X2 & X3); split; [exact X1|]; split; [exact X2|]; split; [unfold rc3; tauto|];
       split; [exact X3|right; auto].
  destruct (tx_slot c1 i) as [t1|] eqn:Ht1; injection E as <- <-.
  2:{ destruct (Fin (c1 <| c_fault := true |>) eq_refl eq_refl) as (X1 & X2 & X3). split; [exact X1|]. split; [exact X2|]. split; [unfold rc3; tauto|].
      split; [exact X3|right; auto]. }
  destruct (g_tx_auto_destroy g).
  - destruct (lview_tx_destroy c1 i) as [M2 L2]. split; [rewrite L2; exact A|]. split; [exact (Core_moved None None i _ _ _ M2 B)|].
    split; [unfold rc3; tauto|]. split; [exact (vmoved_trans_dead i _ _ _ V M2)|right; auto].
  - split; [exact A|]. split; [exact B|]. split; [unfold rc3; tauto|]. split; [exact V|right; auto].
Qed.

(* htp_tx_state_request_complete_partial on connp->in_tx *)
Lemma Core_setp_complete v m i x :
  Core None None v m -> vslot v i = Some x -> Core (Some i) None (v_map i (xsetp c_HTP_REQUEST_COMPLETE) v) m.
Proof.
  intros C Hs. unfold v_map. rewrite Hs. destruct x as [[p ps] ce].
  apply (Core_put None (Some i) None None v m i (p, ps, ce)); try assumption; cbn.
  - reflexivity.
  - intros X. congruence.
  - exact (co_s6 _ _ _ _ C i p ps ce Hs).
  - exact (co_sc _ _ _ _ C i p ps ce Hs).
  - intros j _ _. discriminate.
  - tauto.
Qed.

Lemma request_complete_partial_spec i c rc c' m p ps ce :
  tx_state_request_complete_partial cb i c = (rc, c') ->
  MS (levs c ++ H) m -> Core None None (lview c) m -> c_in_tx c = Some i -> vslot (lview c) i = Some (p, ps, ce) ->
  p <> c_HTP_REQUEST_COMPLETE -> 2 <= lc_rq (m i) <= 5 -> lv_ih (lview c) = None ->
  exists m', MS (levs c' ++ H) m' /\ Core None None (lview c') m' /\ qmv i m m' /\ lc_fin (m' i) = false /\
    ((rc = ST_ERROR /\ lview c' = lview c) \/
     (rc3 rc /\ lc_rq (m' i) = 6 /\ vmoved i (v_map i (xsetp c_HTP_REQUEST_COMPLETE) (lview c)) (lview c'))).
Proof.
  intros E HM HC Hi Hs Hp Hq Hu. unfold tx_state_request_complete_partial in E.
  (* the last body-data call *)
  assert (Body : exists rc1 c1 m1, (if tx_req_has_body (tx_get c i) then tx_req_process_body_data_ex cb i None 0 c else (ST_OK, c)) = (rc1, c1) /\
            MS (levs c1 ++ H) m1 /\ Core None None (lview c1) m1 /\ lview c1 = lview c /\ (rc1 = ST_OK \/ rc1 = ST_ERROR) /\ qmv i m m1 /\ 2 <= lc_rq (m1 i) <= 5).
  { destruct (tx_req_has_body (tx_get c i)).
    - destruct (tx_req_process_body_data_ex cb i None 0 c) as [rc1 c1] eqn:E1.
      destruct (req_body_ex i None 0 c rc1 c1 m p ps ce E1 HM HC Hi Hs Hp Hq) as (m1 & X). exists rc1, c1, m1. split; [reflexivity|exact X].
    - exists ST_OK, c, m. split; [reflexivity|]. split; [exact HM|]. split; [exact HC|]. split; [reflexivity|]. split; [tauto|]. split; [apply qmv_refl|exact Hq]. }
  destruct Body as (rc1 & c1 & m1 & Eb & A1 & B1 & V1 & R1 & Q1 & Hq1). rewrite Eb in E.
  assert (Hs1 : vslot (lview c1) i = Some (p, ps, ce)) by (rewrite V1; exact Hs).
  destruct (nofin_q _ _ _ _ _ _ _ _ B1 Hs1 Hp) as [Hf1 _].
  destruct R1 as [-> | ->].
  2:{ injection E as <- <-. exists m1. split; [exact A1|]. split; [exact B1|]. split; [exact Q1|]. split; [exact Hf1|]. left. auto. }
  match type of E with context [tx_upd c1 i ?f] =>
    destruct (lview_tx_upd_map c1 i f (xsetp c_HTP_REQUEST_COMPLETE) (fun t => eq_refl)) as [A2 B2]; set (c2 := tx_upd c1 i f) in * end.
  rewrite V1 in A2.
  unfold run_hook in E. destruct (run_hook_ex cb H_REQUEST_COMPLETE i None false None c2) as [rc3' c3] eqn:E3.
  pose proof (lc_h9 (m1 i) Hf1 ltac:(lia)) as Hst.
  rewrite <- V1 in HC.
  assert (HC2 : Core (Some i) None (lview c2) m1) by (rewrite A2; rewrite V1 in B1; exact (Core_setp_complete _ m1 i _ B1 Hs)).
  assert (Hs2 : vslot (lview c2) i = Some (c_HTP_REQUEST_COMPLETE, ps, ce)).
  { rewrite A2, vslot_map, Nat.eqb_refl, Hs. reflexivity. }
  destruct (vslot_lt _ _ _ Hs2) as [_ Hi2].
  assert (HC2' : Core None None (lview c2) (mupd m1 i (lcq (m1 i) 6))).
  { apply (Core_qstep (Some i) None None); try assumption; [lia| |].
    - intros p0 ps0 ce0 Hs0. rewrite Hs2 in Hs0. injection Hs0 as <- <- <-. split; auto.
    - intros j Hj _. congruence. }
  rewrite <- B2 in A1.
  destruct (hook_step cb H None None H_REQUEST_COMPLETE i None false None c2 rc3' c3 m1 _ E3 A1 Hst HC2') as (A3 & B3 & R3 & V3).
  set (m2 := mupd m1 i (lcq (m1 i) 6)) in *.
  assert (Q2 : qmv i m m2) by (apply (qmv_trans i m m1); [exact Q1|apply qmv_upd; lia]).
  assert (F2 : lc_fin (m2 i) = false /\ lc_rq (m2 i) = 6) by (subst m2; rewrite mupd_same; split; reflexivity).
  rewrite A2 in V3.
  exists m2. destruct R3 as [-> | [-> | ->]].
  2,3: injection E as <- <-; split; [exact A3|]; split; [exact B3|]; split; [exact Q2|]; split; [exact (proj1 F2)|]; right;
       split; [unfold rc3; tauto|]; split; [exact (proj2 F2)|exact V3].
  (* the receiver is not armed *)
  unfold req_receiver_finalize_clear in E.
  assert (Hu3 : k_receiver_hook (c_in c3) = None).
  { change (lv_ih (lview c3) = None). destruct (vmoved_fields i _ _ V3) as (_ & _ & _ & _ & X & _). rewrite X.
    destruct (v_map_fields i (xsetp c_HTP_REQUEST_COMPLETE) (lview c)) as (_ & _ & _ & _ & _ & _ & Y & _). rewrite Y. exact Hu. }
  rewrite Hu3 in E. injection E as <- <-.
  split; [exact A3|]. split; [exact B3|]. split; [exact Q2|]. split; [exact (proj1 F2)|]. right.
  split; [unfold rc3; tauto|]. split; [exact (proj2 F2)|exact V3].
Qed.

Lemma RS_same_out v v' m :
  lv_ost v' = lv_ost v -> lv_otx v' = lv_otx v -> lv_oh v' = lv_oh v -> lv_txs v' = lv_txs v -> lv_sh v' = lv_sh v -> RS v m -> RS v' m.
Proof.
  intros E1 E2 E3 E4 E5 R. apply (RS_ext v v' m m E1 E2 E3); [| |exact R].
  - intros j _. unfold vslot. rewrite E4, E5. reflexivity.
  - reflexivity.
Qed.
Lemma RQ_same_in v v' m :
  lv_ist v' = lv_ist v -> lv_itx v' = lv_itx v -> lv_ih v' = lv_ih v -> lv_icl v' = lv_icl v -> lv_txs v' = lv_txs v -> lv_sh v' = lv_sh v ->
  RQ v m -> RQ v' m.
Proof.
  intros E1 E2 E3 E4 E5 E6 R. apply (RQ_ext v v' m m E1 E2 E3 E4); [| |exact R].
  - intros j _. unfold vslot. rewrite E5, E6. reflexivity.
  - reflexivity.
Qed.
Lemma RS_meq v m m' : (forall j, m' j = m j) -> RS v m -> RS v m'.
Proof. intros E R. apply (RS_ext v v m m'); try reflexivity; [|exact R]. intros j _. rewrite E. reflexivity. Qed.
Lemma RQ_meq v m m' : (forall j, m' j = m j) -> RQ v m -> RQ v m'.
Proof. intros E R. apply (RQ_ext v v m m'); try reflexivity; [|exact R]. intros j _. rewrite E. reflexivity. Qed.

(* ---- what a request-side state function guarantees ---- *)
Definition okrc (rc : st) : Prop := rc = ST_OK \/ rc = ST_DATA \/ rc = ST_DATA_BUFFER \/ rc = ST_DATA_OTHER.
Definition QPost (c : connp) (m : nat -> lc) (rc : st) (c' : connp) : Prop :=
  exists m', MS (levs c' ++ H) m' /\ Core None None (lview c') m' /\
             (RS (lview c) m -> RS (lview c') m') /\ (alive (c_out_status c) -> alive (c_out_status c')) /\
             (okrc rc -> RQ (lview c') m').

Lemma lv_ist_id v : v <| lv_ist := lv_ist v |> = v.
Proof. destruct v; reflexivity. Qed.
Lemma RQ_idle v m : lv_itx v = None -> lv_ih v = None -> qnone (lv_ist v) = true -> RQ v m.
Proof. intros A B C. constructor; [intros i Hi; congruence|intros h Hh; congruence|intros _; exact C]. Qed.
Lemma Core_itx_none xq xs v m : Core xq xs v m -> Core xq xs (v <| lv_itx := None |>) m.
Proof.
  intros [H1 H2 H3 H4 H5 H6 H7 H8 H9]. constructor; try assumption. intros i Hi. discriminate Hi.
Qed.
Lemma RS_moved_m i v v' m m' : vmoved i v v' -> (RS v m -> RS v m') -> RS v m -> RS v' m'.
Proof. intros V F R. exact (RS_moved i v v' m' V (F R)). Qed.

(* htp_tx_state_request_complete on connp->in_tx, called from a state in which no receiver is armed *)
Lemma request_complete_spec i c rc c' m :
  tx_state_request_complete cb g i c = (rc, c') -> QJ c m -> c_in_tx c = Some i -> 2 <= lc_rq (m i) <= 5 -> lv_ih (lview c) = None ->
  qnone (c_in_state c) = true ->
  QPost c m rc c'.
Proof.
  intros E Q Hi Hq Hu Hqn. pose proof Q as (HM & HC & HR). unfold tx_state_request_complete in E.
  destruct (rq_txc _ _ HR i Hi) as (p & ps & ce & Hs & Hp & _).
  destruct (vslot_tx c i _ Hs) as (t0 & Ht0 & Hv0). rewrite Ht0 in E.
  assert (Ep : t_request_progress t0 = p) by (unfold txv in Hv0; congruence). rewrite Ep in E.
  assert (Hne : Z.eqb p c_HTP_REQUEST_COMPLETE = false) by (apply Z.eqb_neq; exact Hp). rewrite Hne in E. cbn [negb] in E.
  destruct (tx_state_request_complete_partial cb i c) as [rc1 c1] eqn:E1.
  destruct (request_complete_partial_spec i c rc1 c1 m p ps ce E1 HM HC Hi Hs Hp Hq Hu) as (m1 & A1 & B1 & Q1 & F1 & Cs).
  destruct Cs as [[-> V1]|(R1 & Hq6 & V1)].
  { injection E as <- <-. exists m1. split; [exact A1|]. split; [exact B1|]. split; [rewrite V1; exact (RS_qmv i _ m m1 Q1)|].
    split; [change (c_out_status c1) with (lv_os (lview c1)); rewrite V1; tauto|]. intros [X|[X|[X|X]]]; discriminate X. }
  set (v1 := v_map i (xsetp c_HTP_REQUEST_COMPLETE) (lview c)) in *.
  assert (RSf : RS (lview c) m -> RS (lview c1) m1).
  { intros R. apply (RS_moved i v1 _ m1 V1). apply RS_setp. exact (RS_qmv i _ m m1 Q1 R). }
  assert (Os1 : lv_os (lview c1) = lv_os (lview c)).
  { destruct (vmoved_fields i _ _ V1) as (_ & X & _). rewrite X. subst v1. destruct (v_map_fields i (xsetp c_HTP_REQUEST_COMPLETE) (lview c)) as (_ & Y & _). exact Y. }
  assert (Ih1 : lv_ih (lview c1) = None).
  { destruct (vmoved_fields i _ _ V1) as (_ & _ & _ & _ & X & _). rewrite X. subst v1.
    destruct (v_map_fields i (xsetp c_HTP_REQUEST_COMPLETE) (lview c)) as (_ & _ & _ & _ & _ & _ & Y & _). rewrite Y. exact Hu. }
  destruct R1 as [-> | [-> | ->]].
  2,3: injection E as <- <-; exists m1; split; [exact A1|]; split; [exact B1|]; split; [exact RSf|]; split;
       [change (c_out_status c1) with (lv_os (lview c1)); rewrite Os1; tauto|intros [X|[X|[X|X]]]; discriminate X].
  (* in_state := IDLE / IGNORE_DATA_AFTER_HTTP_0_9 *)
  assert (Ist1 : lv_ist (lview c1) = lv_ist (lview c)).
  { destruct (vmoved_fields i _ _ V1) as (_ & _ & X & _). rewrite X. subst v1.
    destruct (v_map_fields i (xsetp c_HTP_REQUEST_COMPLETE) (lview c)) as (_ & _ & Y & _). exact Y. }
  assert (Tail : forall c2 st', lview c2 = (lview c1) <| lv_ist := st' |> -> levs c2 = levs c1 -> qnone st' = true ->
            (let '(_, c) := tx_finalize cb g i c2 in (ST_OK, c <| c_in_tx := None |>)) = (rc, c') -> QPost c m rc c').
  { intros c2 st' V2 L2 Hq2 E2.
    destruct (tx_finalize cb g i c2) as [rc3' c3] eqn:E3. injection E2 as <- <-.
    assert (A2 : MS (levs c2 ++ H) m1) by (rewrite L2; exact A1).
    assert (B2 : Core None None (lview c2) m1) by (apply (Core_ext None None (lview c1)); try (rewrite V2; reflexivity); exact B1).
    destruct (tx_finalize_spec i c2 rc3' c3 m1 E3 A2 B2 F1) as (m3 & A3 & B3 & R3 & V3 & M3).
    exists m3. split; [exact A3|]. split; [exact (Core_itx_none _ _ _ _ B3)|].
    assert (RS3 : RS (lview c1) m1 -> RS (lview c3) m3).
    { intros R. apply (RS_moved i (lview c2) _ m3 V3).
      assert (R2 : RS (lview c2) m1) by (apply (RS_same_out (lview c1)); try (rewrite V2; reflexivity); exact R).
      destruct M3 as [M3|(X1 & X2 & ->)]; [exact (RS_meq _ m1 m3 M3 R2)|exact (RS_fupd _ m1 i X2 R2)]. }
    split.
    - intros R. apply (RS_same_out (lview c3)); try reflexivity. exact (RS3 (RSf R)).
    - split.
      + change (alive (lv_os (lview c)) -> alive (lv_os (lview c3))). destruct (vmoved_fields i _ _ V3) as (_ & X & _). rewrite X, V2. change (lv_os ((lview c1) <| lv_ist := st' |>)) with (lv_os (lview c1)). rewrite Os1. tauto.
      + intros _. apply RQ_idle; [reflexivity| |].
        * change (lv_ih (lview c3) = None). destruct (vmoved_fields i _ _ V3) as (_ & _ & _ & _ & X & _). rewrite X, V2. exact Ih1.
        * change (qnone (lv_ist (lview c3)) = true). destruct (vmoved_fields i _ _ V3) as (_ & _ & X & _). rewrite X, V2. exact Hq2. }
  destruct (tx_slot c1 i) as [t1|] eqn:Ht1.
  - match type of E with context [tx_finalize cb g i ?cc] => apply (Tail cc (lv_ist (lview cc))); [reflexivity|reflexivity| |exact E] end.
    cbn. destruct (t_is_protocol_0_9 t1); reflexivity.
  - match type of E with context [tx_finalize cb g i ?cc] => apply (Tail cc (lv_ist (lview c1))); [transitivity (lview c1); [reflexivity|symmetry; apply lv_ist_id]|reflexivity| |exact E] end.
    rewrite Ist1. exact Hqn.
Qed.

(* htp_connp_tx_create *)
Definition x_new : txv3 := (c_HTP_REQUEST_NOT_STARTED, c_HTP_RESPONSE_NOT_STARTED, 0%Z).
Definition v_create (v : lv) : lv :=
  v <| lv_txs := lv_txs v ++ [Some x_new] |> <| lv_itx := Some (vnid v) |> <| lv_icl := (-1)%Z |>.
Lemma vslot_create v j : vslot (v_create v) j = if j =? vnid v then Some x_new else vslot v j.
Proof.
  unfold vslot, v_create, vnid. cbn [lv_sh lv_txs set].
  destruct (j <? lv_sh v) eqn:E1; b2p.
  - destruct (j =? lv_sh v + length (lv_txs v)) eqn:E2; b2p; [lia|reflexivity].
  - destruct (j =? lv_sh v + length (lv_txs v)) eqn:E2; b2p.
    + replace (j - lv_sh v) with (length (lv_txs v)) by lia. rewrite nth_error_app2 by lia. rewrite Nat.sub_diag. reflexivity.
    + destruct (Nat.lt_ge_cases (j - lv_sh v) (length (lv_txs v))) as [L|L].
      * rewrite nth_error_app1 by exact L. reflexivity.
      * assert (N1 : nth_error (lv_txs v ++ [Some x_new]) (j - lv_sh v) = None) by (apply nth_error_None; rewrite app_length; cbn; lia).
        assert (N2 : nth_error (lv_txs v) (j - lv_sh v) = None) by (apply nth_error_None; lia).
        rewrite N1, N2. reflexivity.
Qed.
Lemma Core_create v m : Core None None v m -> Core None None (v_create v) m.
Proof.
  intros C. pose proof C as [H1 H2 H3 H4 H5 H6 H7 H8 H9].
  assert (Hn : m (vnid v) = lc0) by (apply H1; lia).
  constructor; try assumption.
  - intros j Hj. apply H1. unfold vnid, v_create in *. cbn [lv_sh lv_txs set] in Hj. rewrite app_length in Hj. cbn in Hj. lia.
  - intros j p ps ce. rewrite vslot_create. destruct (j =? vnid v) eqn:E; b2p; [|apply H3]. subst j. rewrite Hn. cbn. discriminate.
  - intros j p ps ce. rewrite vslot_create. destruct (j =? vnid v) eqn:E; b2p; [|apply H4]. intros X. injection X as <- <- <-. intros _ X. discriminate X.
  - intros j p ps ce. rewrite vslot_create. destruct (j =? vnid v) eqn:E; b2p; [|apply H5]. subst j. rewrite Hn. cbn. discriminate.
  - intros j p ps ce. rewrite vslot_create. destruct (j =? vnid v) eqn:E; b2p; [|apply H6]. intros X. injection X as <- <- <-. intros _ X. discriminate X.
  - intros j Hj. cbn in Hj. injection Hj as <-. rewrite vslot_create, Nat.eqb_refl. discriminate.
  - intros j Hj. change (lv_otx v = Some j) in Hj. destruct (H9 j Hj) as [L O]. split; [|exact O].
    rewrite vslot_create. destruct (j =? vnid v); [discriminate|exact L].
Qed.
Lemma RS_create v m : Core None None v m -> RS v m -> RS (v_create v) m.
Proof.
  intros C R. apply (RS_ext v _ m m); try reflexivity; [|exact R].
  intros j Hj. rewrite vslot_create. destruct (j =? vnid v) eqn:E; b2p; [|reflexivity].
  destruct (co_otx _ _ _ _ C j Hj) as [L _]. destruct (vslot v j) as [x|] eqn:Hs; [|congruence]. apply vslot_lt in Hs. lia.
Qed.
Lemma tx_create_spec c o c' :
  connp_tx_create g c = (o, c') ->
  levs c' = levs c /\ ((o = None /\ lview c' = lview c) \/ (o = Some (vnid (lview c)) /\ lview c' = v_create (lview c))).
Proof.
  unfold connp_tx_create.
  match goal with |- context [if ?b then ?x else c] => set (c0 := if b then x else c);
    assert (V0 : lview c0 = lview c /\ levs c0 = levs c /\ c_txs c0 = c_txs c /\ c_txs_shifted c0 = c_txs_shifted c) by (subst c0; destruct b; repeat split; reflexivity) end.
  destruct V0 as (V0 & L0 & T0 & S0).
  destruct (_ && _)%bool; intros X; injection X as <- <-.
  - split; [exact L0|left; split; [reflexivity|exact V0]].
  - split; [exact L0|right]. rewrite S0. split; [unfold vnid, lview; cbn; rewrite map_length; reflexivity|].
    rewrite <- V0. unfold v_create, vnid, lview. cbn. rewrite map_app, map_length, ?T0, ?S0. reflexivity.
Qed.
End TxReq.
