(* C10 -- configured limits bound what the parser keeps: the invariant and its preservation by every function of
   the transaction layer (MTxCommon, MTxReq) and of the request direction (MReq).
   Everything is phrased over the KEY of a state: the four retained buffers and the size of the transaction list. *)
Require Import Htp.Model.MConnTypes Htp.Model.MTxCommon Htp.Model.MBstr Htp.Model.MReqLine Htp.Model.MReqUri
               Htp.Model.MTxReq Htp.Model.MReq Htp.Model.MConnp.

(* ---- the key and the invariant ---- *)
Definition lside := (option bytes * option bytes)%type.          (* (buffer, pending header) of one direction *)
Definition lkey_t := (lside * lside * nat)%type.
Definition lkey (c : connp) : lkey_t :=
  ((k_buf (c_in c), k_header (c_in c)), (k_buf (c_out c), k_header (c_out c)), length (c_txs c)).
(* a property of a state that only depends on its key *)
Definition kp (P : lkey_t -> Prop) (c : connp) : Prop := P (lkey c).

(* one direction: while a buffer exists, buffer + pending (folded) header fit the hard limit *)
Definition side_ok (hard : nat) (s : lside) : Prop :=
  match fst s with Some b => length b + olen (snd s) <= hard | None => True end.
Definition lim_key (g : cfg) (k : lkey_t) : Prop :=
  side_ok (g_field_limit_hard g) (fst (fst k)) /\ side_ok (g_field_limit_hard g) (snd (fst k)) /\
  (0 < g_max_tx g -> snd k <= S (g_max_tx g)).
Notation lim_inv g := (kp (lim_key g)).

Lemma lim_inv_new g : lim_inv g connp_new.
Proof. unfold kp, lim_key, side_ok. cbn. repeat split; auto. intros; lia. Qed.

Lemma kp_eq P c c' : lkey c' = lkey c -> kp P c -> kp P c'.
Proof. unfold kp. intros ->. auto. Qed.

(* results that carry an optional state *)
Definition okp (P : lkey_t -> Prop) (o : option connp) : Prop := match o with Some c => kp P c | None => True end.

Lemma lm_upd_length {B} (l : list B) i x : length (upd l i x) = length l.
Proof. revert i. induction l as [|h t IH]; intros [|i]; cbn; auto. Qed.

(* ---- automation: peel the matches of a state expression, remembering the invariant for every intermediate state ---- *)
Create HintDb kp discriminated.
#[export] Hint Extern 1 (kp ?P (set ?fld ?f ?c0)) => change (kp P c0) : kp.
#[export] Hint Extern 1 (kp ?P (rq_set_in ?f ?c0)) => change (kp P c0) : kp.
#[export] Hint Extern 1 (kp ?P (rq_fault ?c0)) => change (kp P c0) : kp.
#[export] Hint Extern 1 (kp ?P (emit ?c0 ?e)) => change (kp P c0) : kp.
#[export] Hint Extern 1 (kp ?P (bump_hook ?c0 ?e)) => change (kp P c0) : kp.

Ltac kp_solve := solve [eauto 14 with kp].

Ltac kp_case P x :=
  let T := type of x in
  let T' := eval cbv beta in T in
  lazymatch T' with
  | prod (prod _ connp) _ =>
    let H := fresh "Hk" in assert (H : kp P (snd (fst x))) by kp_solve;
    let E := fresh "E" in destruct x as [[? ?] ?] eqn:E; cbn [fst snd] in H
  | prod connp _ =>
    let H := fresh "Hk" in assert (H : kp P (fst x)) by kp_solve;
    let E := fresh "E" in destruct x as [? ?] eqn:E; cbn [fst snd] in H
  | prod _ connp =>
    let H := fresh "Hk" in assert (H : kp P (snd x)) by kp_solve;
    let E := fresh "E" in destruct x as [? ?] eqn:E; cbn [fst snd] in H
  | option connp =>
    let H := fresh "Hk" in assert (H : okp P x) by kp_solve;
    let E := fresh "E" in destruct x eqn:E; cbn [okp] in H
  | _ => let E := fresh "E" in destruct x eqn:E
  end.

Ltac kp_peel :=
  lazymatch goal with
  | |- kp ?P ?X =>
    match X with
    | context [match ?x with _ => _ end] =>
      lazymatch x with context [match _ with _ => _ end] => fail | _ => idtac end;
      kp_case P x
    end
  end.
Ltac kp_go := cbn [fst snd]; repeat (first [kp_solve | kp_peel]; cbn [fst snd]).

Section Common.
Variable cb : cb_oracle.
Variable g : cfg.
Variable P : lkey_t -> Prop.

Lemma tx_put_kp c i t : kp P c -> kp P (tx_put c i t).
Proof.
  apply kp_eq. unfold tx_put. destruct (i <? c_txs_shifted c); [reflexivity|].
  destruct (_ <? _); [|reflexivity]. unfold lkey. cbn. rewrite lm_upd_length. reflexivity.
Qed.
Hint Resolve tx_put_kp : kp.
Lemma tx_upd_kp c i f : kp P c -> kp P (tx_upd c i f).
Proof. intros H. unfold tx_upd. kp_go. Qed.
Hint Resolve tx_upd_kp : kp.
Lemma tx_destroy_incomplete_kp c i : kp P c -> kp P (tx_destroy_incomplete c i).
Proof.
  apply kp_eq. unfold tx_destroy_incomplete.
  destruct (i <? c_txs_shifted c); cbn;
    repeat match goal with |- context [match ?x with _ => _ end] => destruct x; cbn end;
    unfold lkey; cbn; rewrite ?lm_upd_length; reflexivity.
Qed.
Hint Resolve tx_destroy_incomplete_kp : kp.
Lemma tx_destroy_kp c i : kp P c -> kp P (tx_destroy c i).
Proof. intros H. unfold tx_destroy. kp_go. Qed.
Hint Resolve tx_destroy_kp : kp.
Lemma run_hook_ex_kp h i d l s c : kp P c -> kp P (snd (run_hook_ex cb h i d l s c)).
Proof. intros H. unfold run_hook_ex. kp_go. Qed.
Hint Resolve run_hook_ex_kp : kp.
Lemma run_hook_kp h i c : kp P c -> kp P (snd (run_hook cb h i c)).
Proof. apply run_hook_ex_kp. Qed.
Lemma run_data_hook_kp h i d l c : kp P c -> kp P (snd (run_data_hook cb h i d l c)).
Proof. apply run_hook_ex_kp. Qed.
Hint Resolve run_hook_kp run_data_hook_kp : kp.
Lemma run_tx_hooks_kp k h i d l c : kp P c -> kp P (run_tx_hooks k h i d l c).
Proof. revert c. induction k as [|k IH]; intros c H; cbn [run_tx_hooks]; [exact H|]. apply IH. kp_go. Qed.
Hint Resolve run_tx_hooks_kp : kp.
Lemma req_run_hook_body_data_kp d l c : kp P c -> kp P (snd (req_run_hook_body_data cb d l c)).
Proof. intros H. unfold req_run_hook_body_data. kp_go. Qed.
Hint Resolve req_run_hook_body_data_kp : kp.
Lemma tx_req_process_body_data_ex_kp i d n c : kp P c -> kp P (snd (tx_req_process_body_data_ex cb i d n c)).
Proof. intros H. unfold tx_req_process_body_data_ex. kp_go. Qed.
Hint Resolve tx_req_process_body_data_ex_kp : kp.
Lemma req_receiver_send_data_kp l c : kp P c -> kp P (snd (req_receiver_send_data cb l c)).
Proof. intros H. unfold req_receiver_send_data. kp_go. Qed.
Hint Resolve req_receiver_send_data_kp : kp.
Lemma req_receiver_finalize_clear_kp c : kp P c -> kp P (snd (req_receiver_finalize_clear cb c)).
Proof. intros H. unfold req_receiver_finalize_clear. kp_go. Qed.
Hint Resolve req_receiver_finalize_clear_kp : kp.
Lemma tx_finalize_kp i c : kp P c -> kp P (snd (tx_finalize cb g i c)).
Proof. intros H. unfold tx_finalize. kp_go. Qed.
Hint Resolve tx_finalize_kp : kp.
Lemma tx_state_request_complete_partial_kp i c : kp P c -> kp P (snd (tx_state_request_complete_partial cb i c)).
Proof. intros H. unfold tx_state_request_complete_partial. kp_go. Qed.
Hint Resolve tx_state_request_complete_partial_kp : kp.
Lemma tx_state_request_complete_kp i c : kp P c -> kp P (snd (tx_state_request_complete cb g i c)).
Proof. intros H. unfold tx_state_request_complete. kp_go. Qed.
Hint Resolve tx_state_request_complete_kp : kp.
End Common.
#[export] Hint Resolve tx_put_kp tx_upd_kp tx_destroy_incomplete_kp tx_destroy_kp run_hook_ex_kp run_hook_kp run_data_hook_kp
  run_tx_hooks_kp req_run_hook_body_data_kp tx_req_process_body_data_ex_kp req_receiver_send_data_kp
  req_receiver_finalize_clear_kp tx_finalize_kp tx_state_request_complete_partial_kp tx_state_request_complete_kp : kp.

(* ---- MTxReq: the request-side transaction states touch neither buffer nor the size of the list ---- *)
Section TxReq.
Variable cb : cb_oracle.
Variable g : cfg.
Variable P : lkey_t -> Prop.

Lemma tx_state_request_start_kp i c : kp P c -> kp P (snd (tx_state_request_start cb i c)).
Proof. intros H. unfold tx_state_request_start. kp_go. Qed.
Lemma tx_state_request_line_kp i c : kp P c -> kp P (snd (tx_state_request_line cb g i c)).
Proof. intros H. unfold tx_state_request_line. kp_go. Qed.
Lemma tx_process_request_headers_kp i c : kp P c -> kp P (snd (tx_process_request_headers cb i c)).
Proof. intros H. unfold tx_process_request_headers. kp_go. Qed.
Hint Resolve tx_process_request_headers_kp : kp.
Lemma tx_state_request_headers_kp i c : kp P c -> kp P (snd (tx_state_request_headers cb i c)).
Proof. intros H. unfold tx_state_request_headers. kp_go. Qed.
End TxReq.
#[export] Hint Resolve tx_state_request_start_kp tx_state_request_line_kp tx_process_request_headers_kp
  tx_state_request_headers_kp : kp.

(* ---- MReq, the functions that leave the key alone ---- *)
#[export] Hint Extern 2 (kp _ (snd (rq_with_tx _ ?c))) => unfold rq_with_tx; destruct (c_in_tx c); cbn [snd] : kp.

Section ReqFrame.
Variable cb : cb_oracle.
Variable g : cfg.
Variable P : lkey_t -> Prop.

Lemma rq_read_byte_kp c : kp P c -> kp P (fst (rq_read_byte c)).
Proof. intros H. unfold rq_read_byte. kp_go. Qed.
Hint Resolve rq_read_byte_kp : kp.
Lemma rq_slice_kp c a b : kp P c -> kp P (fst (rq_slice c a b)).
Proof. intros H. unfold rq_slice. kp_go. Qed.
Hint Resolve rq_slice_kp : kp.
Lemma rq_peek_next_kp c : kp P c -> kp P (rq_peek_next c).
Proof. intros H. unfold rq_peek_next. kp_go. Qed.
Hint Resolve rq_peek_next_kp : kp.
Lemma rq_copy_byte_kp c : kp P c -> okp P (rq_copy_byte c).
Proof.
  intros H. unfold rq_copy_byte. destruct (rq_at_end c); [exact I|].
  pose proof (rq_read_byte_kp c H) as H1. destruct (rq_read_byte c) as [c1 b]. cbn [okp fst] in *. kp_go.
Qed.
Lemma rq_next_byte_kp c : kp P c -> okp P (rq_next_byte c).
Proof.
  intros H. unfold rq_next_byte. destruct (rq_at_end c); [exact I|].
  pose proof (rq_read_byte_kp c H) as H1. destruct (rq_read_byte c) as [c1 b]. cbn [okp fst] in *. kp_go.
Qed.
Hint Resolve rq_copy_byte_kp rq_next_byte_kp : kp.
Lemma rq_tx_upd_kp f c : kp P c -> kp P (rq_tx_upd f c).
Proof. intros H. unfold rq_tx_upd. kp_go. Qed.
Hint Resolve rq_tx_upd_kp : kp.
Lemma rq_process_header_kp l c : kp P c -> kp P (rq_process_header l c).
Proof. apply rq_tx_upd_kp. Qed.
Hint Resolve rq_process_header_kp : kp.
Lemma req_receiver_set_kp h c : kp P c -> kp P (snd (req_receiver_set cb h c)).
Proof. intros H. unfold req_receiver_set. kp_go. Qed.
Hint Resolve req_receiver_set_kp : kp.
Lemma req_handle_state_change_kp c : kp P c -> kp P (snd (req_handle_state_change cb c)).
Proof. intros H. unfold req_handle_state_change. kp_go. Qed.
Lemma rq_request_complete_kp c : kp P c -> kp P (snd (rq_request_complete cb g c)).
Proof. intros H. unfold rq_request_complete. kp_go. Qed.
Hint Resolve rq_request_complete_kp : kp.
Lemma rq_to_headers_kp c : kp P c -> kp P (rq_to_headers c).
Proof. intros H. unfold rq_to_headers. kp_go. Qed.
Hint Resolve rq_to_headers_kp : kp.
Lemma REQ_PROTOCOL_fn_kp c : kp P c -> kp P (snd (REQ_PROTOCOL_fn c)).
Proof. intros H. unfold REQ_PROTOCOL_fn. kp_go. Qed.
Lemma REQ_CONNECT_CHECK_fn_kp c : kp P c -> kp P (snd (REQ_CONNECT_CHECK_fn c)).
Proof. intros H. unfold REQ_CONNECT_CHECK_fn. kp_go. Qed.
Lemma REQ_CONNECT_WAIT_RESPONSE_fn_kp c : kp P c -> kp P (snd (REQ_CONNECT_WAIT_RESPONSE_fn c)).
Proof. intros H. unfold REQ_CONNECT_WAIT_RESPONSE_fn. kp_go. Qed.
Lemma rq_peek_copy_until_kp stop n : forall c, kp P c -> kp P (snd (rq_peek_copy_until stop n c)).
Proof.
  induction n as [|n IH]; intros c H; cbn [rq_peek_copy_until]; kp_go.
Qed.
Hint Resolve rq_peek_copy_until_kp : kp.
Lemma REQ_BODY_DETERMINE_fn_kp c : kp P c -> kp P (snd (REQ_BODY_DETERMINE_fn c)).
Proof. intros H. unfold REQ_BODY_DETERMINE_fn. kp_go. Qed.
Lemma rq_consume_body_kp n c : kp P c -> kp P (snd (rq_consume_body cb n c)).
Proof. intros H. unfold rq_consume_body. kp_go. Qed.
Hint Resolve rq_consume_body_kp : kp.
Lemma REQ_BODY_IDENTITY_fn_kp c : kp P c -> kp P (snd (REQ_BODY_IDENTITY_fn cb c)).
Proof. intros H. unfold REQ_BODY_IDENTITY_fn. kp_go. Qed.
Lemma REQ_BODY_CHUNKED_DATA_fn_kp c : kp P c -> kp P (snd (REQ_BODY_CHUNKED_DATA_fn cb c)).
Proof. intros H. unfold REQ_BODY_CHUNKED_DATA_fn. kp_go. Qed.
Lemma REQ_BODY_CHUNKED_DATA_END_loop_kp n : forall c, kp P c -> kp P (snd (REQ_BODY_CHUNKED_DATA_END_loop n c)).
Proof. induction n as [|n IH]; intros c H; cbn [REQ_BODY_CHUNKED_DATA_END_loop]; kp_go. Qed.
Lemma REQ_BODY_CHUNKED_DATA_END_fn_kp c : kp P c -> kp P (snd (REQ_BODY_CHUNKED_DATA_END_fn c)).
Proof. intros H. apply REQ_BODY_CHUNKED_DATA_END_loop_kp. exact H. Qed.
Lemma REQ_IGNORE_fn_kp c : kp P c -> kp P (snd (REQ_IGNORE_DATA_AFTER_HTTP_0_9_fn c)).
Proof. intros H. unfold REQ_IGNORE_DATA_AFTER_HTTP_0_9_fn. kp_go. Qed.
End ReqFrame.
#[export] Hint Resolve rq_read_byte_kp rq_slice_kp rq_peek_next_kp rq_copy_byte_kp rq_next_byte_kp rq_tx_upd_kp rq_process_header_kp
  req_receiver_set_kp req_handle_state_change_kp rq_request_complete_kp rq_to_headers_kp REQ_PROTOCOL_fn_kp
  REQ_CONNECT_CHECK_fn_kp REQ_CONNECT_WAIT_RESPONSE_fn_kp rq_peek_copy_until_kp REQ_BODY_DETERMINE_fn_kp rq_consume_body_kp
  REQ_BODY_IDENTITY_fn_kp REQ_BODY_CHUNKED_DATA_fn_kp REQ_BODY_CHUNKED_DATA_END_fn_kp REQ_IGNORE_fn_kp : kp.

(* ---- how the invariant moves with the components of the key ---- *)
Lemma lim_key_in g a a' b n : side_ok (g_field_limit_hard g) a' -> lim_key g (a, b, n) -> lim_key g (a', b, n).
Proof. unfold lim_key. cbn. tauto. Qed.
Lemma lim_key_out g a b b' n : side_ok (g_field_limit_hard g) b' -> lim_key g (a, b, n) -> lim_key g (a, b', n).
Proof. unfold lim_key. cbn. tauto. Qed.
Lemma lim_key_tx g a b n n' : (0 < g_max_tx g -> n' <= S (g_max_tx g)) -> lim_key g (a, b, n) -> lim_key g (a, b, n').
Proof. unfold lim_key. cbn. tauto. Qed.
Lemma side_ok_none hard h : side_ok hard (None, h).
Proof. exact I. Qed.
Lemma side_ok_drop_header hard b h : side_ok hard (b, h) -> side_ok hard (b, None).
Proof. unfold side_ok. cbn. destruct b; [lia|auto]. Qed.

(* a state that differs from one satisfying the invariant only in the request-side buffers, and has no request buffer *)
Definition key_ot (k : lkey_t) : lside * nat := (snd (fst k), snd k).
Lemma lim_clear_in g c c' : lim_inv g c -> key_ot (lkey c') = key_ot (lkey c) -> k_buf (c_in c') = None -> lim_inv g c'.
Proof.
  unfold kp, lkey, key_ot. cbn. intros H E N. inversion E as [[E1 E2 E3]]. rewrite N, E1, E2, E3.
  eapply lim_key_in; [|exact H]. apply side_ok_none.
Qed.

Section ReqLim.
Variable cb : cb_oracle.
Variable g : cfg.

Lemma lm_rq_slice_len c from to : length (snd (rq_slice c from to)) <= to - from.
Proof.
  unfold rq_slice. destruct (k_data (c_in c)) as [d|].
  - destruct (to <=? length d); cbn; rewrite firstn_length; lia.
  - destruct (to <=? from); cbn; lia.
Qed.

(* htp_connp_tx_create: the one place where conn->transactions grows *)
Lemma connp_tx_create_lim c : lim_inv g c -> lim_inv g (snd (connp_tx_create g c)).
Proof.
  intros H. unfold connp_tx_create.
  set (c1 := if (c_out_next_tx_index c <? length (c_txs c)) then _ else c).
  assert (K : lkey c1 = lkey c) by (subst c1; destruct (c_out_next_tx_index c <? length (c_txs c)); reflexivity).
  assert (T : c_txs c1 = c_txs c) by (subst c1; destruct (c_out_next_tx_index c <? length (c_txs c)); reflexivity).
  destruct ((0 <? g_max_tx g) && (g_max_tx g <? length (c_txs c)))%bool eqn:E; cbn [snd].
  - eapply kp_eq; eauto.
  - unfold kp, lkey in *. cbn. injection K as K1 K2 K3 K4 _. rewrite K1, K2, K3, K4, T, app_length. cbn [length].
    eapply lim_key_tx; [|exact H]. intros Hm.
    apply andb_false_iff in E. destruct E as [E|E]; [apply Nat.ltb_ge in E|apply Nat.ltb_ge in E]; lia.
Qed.

(* htp_connp_req_buffer *)
Lemma req_buffer_lim c : lim_inv g c -> lim_inv g (snd (req_buffer g c)).
Proof.
  intros H. unfold req_buffer.
  destruct (k_data (c_in c)) as [d|] eqn:Ed; [|exact H].
  set (c1 := if (k_read (c_in c) <? k_consume (c_in c)) then rq_fault c else c).
  assert (K1 : c_in c1 = c_in c /\ c_out c1 = c_out c /\ c_txs c1 = c_txs c)
    by (subst c1; destruct (k_read (c_in c) <? k_consume (c_in c)); repeat split; reflexivity).
  destruct K1 as (I1 & O1 & T1).
  destruct (k_read (c_in c) - k_consume (c_in c) =? 0) eqn:E0; cbn [snd].
  { unfold kp, lkey. rewrite I1, O1, T1. exact H. }
  set (c2 := match c_in_tx c1 with Some _ => c1 | None => rq_fault c1 end).
  assert (K2 : c_in c2 = c_in c /\ c_out c2 = c_out c /\ c_txs c2 = c_txs c)
    by (subst c2; destruct (c_in_tx c1); cbn; repeat split; assumption).
  destruct K2 as (I2 & O2 & T2).
  destruct (g_field_limit_hard g <? rq_buf_size c1 + (k_read (c_in c) - k_consume (c_in c)) + rq_header_len c1) eqn:El; cbn [snd].
  { unfold kp, lkey. rewrite I2, O2, T2. exact H. }
  apply Nat.ltb_ge in El.
  pose proof (lm_rq_slice_len c2 (k_consume (c_in c2)) (k_read (c_in c2))) as Hp.
  assert (K3 : c_in (fst (rq_slice c2 (k_consume (c_in c2)) (k_read (c_in c2)))) = c_in c /\
               c_out (fst (rq_slice c2 (k_consume (c_in c2)) (k_read (c_in c2)))) = c_out c /\
               c_txs (fst (rq_slice c2 (k_consume (c_in c2)) (k_read (c_in c2)))) = c_txs c).
  { unfold rq_slice. rewrite I2, Ed. destruct (k_read (c_in c) <=? length d); cbn; repeat split; assumption. }
  destruct (rq_slice c2 (k_consume (c_in c2)) (k_read (c_in c2))) as [c3 piece]. cbn [fst snd] in *.
  destruct K3 as (I3 & O3 & T3).
  unfold kp, lkey, rq_set_in. cbn. rewrite I3, O3, T3.
  eapply lim_key_in; [|exact H].
  unfold side_ok, rq_buf_size, rq_header_len in *. cbn. rewrite I1 in El. rewrite I2 in Hp.
  rewrite app_length. destruct (k_buf (c_in c)); destruct (k_header (c_in c)); cbn in *; lia.
Qed.
Hint Resolve connp_tx_create_lim req_buffer_lim : kp.

Lemma req_consolidate_data_lim c : lim_inv g c -> lim_inv g (snd (fst (req_consolidate_data g c))).
Proof. intros H. unfold req_consolidate_data. kp_go. Qed.
Hint Resolve req_consolidate_data_lim : kp.

Lemma req_clear_buffer_lim c : lim_inv g c -> lim_inv g (req_clear_buffer c).
Proof. intros H. apply (lim_clear_in g c); [exact H|reflexivity|reflexivity]. Qed.
Hint Resolve req_clear_buffer_lim : kp.

Lemma rq_flush_header_lim c : lim_inv g c -> lim_inv g (rq_flush_header c).
Proof.
  intros H. unfold rq_flush_header. destruct (k_header (c_in c)) as [h|] eqn:E; [|exact H].
  assert (H1 : lim_inv g (rq_process_header h c)) by kp_solve.
  assert (K : lkey (rq_process_header h c) = lkey c).
  { apply (rq_process_header_kp (fun k => k = lkey c)). reflexivity. }
  unfold kp, lkey, rq_set_in in *. cbn. injection K as K1 K2 K3 K4 K5. rewrite K1, K3, K4, K5.
  eapply lim_key_in; [|exact H]. eapply side_ok_drop_header. destruct H as (H & _). exact H.
Qed.
Hint Resolve rq_flush_header_lim : kp.

Lemma REQ_IDLE_fn_lim c : lim_inv g c -> lim_inv g (snd (REQ_IDLE_fn cb g c)).
Proof. intros H. unfold REQ_IDLE_fn. kp_go. Qed.
Lemma REQ_LINE_complete_lim c : lim_inv g c -> lim_inv g (snd (REQ_LINE_complete cb g c)).
Proof. intros H. unfold REQ_LINE_complete. kp_go. Qed.
Hint Resolve REQ_LINE_complete_lim : kp.
Lemma REQ_LINE_loop_lim n : forall c, lim_inv g c -> lim_inv g (snd (REQ_LINE_loop cb g n c)).
Proof. induction n as [|n IH]; intros c H; cbn [REQ_LINE_loop]; kp_go. Qed.
Lemma REQ_LINE_fn_lim c : lim_inv g c -> lim_inv g (snd (REQ_LINE_fn cb g c)).
Proof. apply REQ_LINE_loop_lim. Qed.

(* one complete header line. The pending header may GROW here (folding) or be replaced by the line just read -- but the
   buffer is released right after, so the sum is only ever constrained when htp_connp_req_buffer accepts new bytes *)
Lemma rq_flush_header_ot c0 c :
  kp (fun k => key_ot k = key_ot (lkey c0)) c -> kp (fun k => key_ot k = key_ot (lkey c0)) (rq_flush_header c).
Proof. intros H. unfold rq_flush_header. kp_go. Qed.
Hint Resolve rq_flush_header_ot : kp.

Lemma rq_header_line_lim c : lim_inv g c ->
  lim_inv g (snd (rq_header_line cb g c)) /\
  match fst (rq_header_line cb g c) with Some r => lim_inv g (snd r) | None => True end.
Proof.
  intros H. unfold rq_header_line.
  pose proof (req_consolidate_data_lim c H) as Hk.
  destruct (req_consolidate_data g c) as [[rc c0] l]. cbn [fst snd] in Hk.
  destruct rc; cbn [fst snd]; try (split; assumption).
  destruct (htp_is_line_terminator (g_personality g) l false); cbn [fst snd].
  - split; kp_solve.
  - split; [|exact I].
    apply (lim_clear_in g c0); [exact Hk| |reflexivity].
    change (kp (fun k => key_ot k = key_ot (lkey c0)) (req_clear_buffer
      (if (htp_is_line_folded (htp_chomp l) =? 0)%Z
       then let c1 := rq_peek_next (rq_flush_header c0) in
            match k_next_byte (c_in c1) with
            | Some b => if negb (htp_is_folding_char b) then rq_process_header (htp_chomp l) c1
                        else rq_set_in (fun k => k <| k_header := Some (htp_chomp l) |>) c1
            | None => rq_set_in (fun k => k <| k_header := Some (htp_chomp l) |>) c1
            end
       else match k_header (c_in c0) with
            | None => let c1 := rq_tx_upd (tx_set_flag c_HTP_INVALID_FOLDING) c0 in
                      rq_set_in (fun k => k <| k_header := Some (drop_while htp_is_folding_char (htp_chomp l)) |>) c1
            | Some h => if (Z.of_nat (length h) <? c_HTP_MAX_HEADER_FOLDED)%Z
                        then rq_set_in (fun k => k <| k_header := Some (h ++ htp_chomp l) |>) c0 else c0
            end))).
    assert (H0 : kp (fun k => key_ot k = key_ot (lkey c0)) c0) by reflexivity.
    unfold req_clear_buffer. cbv zeta. kp_go.
Qed.

Lemma REQ_HEADERS_loop_lim n : forall c, lim_inv g c -> lim_inv g (snd (REQ_HEADERS_loop cb g n c)).
Proof.
  induction n as [|n IH]; intros c H; cbn [REQ_HEADERS_loop].
  - destruct (c_in_status c =? c_HTP_STREAM_CLOSED)%Z; [kp_go|].
    pose proof (rq_copy_byte_kp (lim_key g) c H) as Hk. destruct (rq_copy_byte c) as [c0|]; cbn [okp] in Hk; [|exact H].
    destruct (rq_next_is c0 LF).
    + pose proof (rq_header_line_lim c0 Hk) as [H1 H2]. destruct (rq_header_line cb g c0) as [[r|] c2]; cbn [fst snd] in *; [exact H2|kp_go].
    + kp_go.
  - destruct (c_in_status c =? c_HTP_STREAM_CLOSED)%Z; [kp_go|].
    pose proof (rq_copy_byte_kp (lim_key g) c H) as Hk. destruct (rq_copy_byte c) as [c0|]; cbn [okp] in Hk; [|exact H].
    destruct (rq_next_is c0 LF).
    + pose proof (rq_header_line_lim c0 Hk) as [H1 H2]. destruct (rq_header_line cb g c0) as [[r|] c2]; cbn [fst snd] in *; [exact H2|apply IH; exact H1].
    + apply IH. exact Hk.
Qed.
Lemma REQ_HEADERS_fn_lim c : lim_inv g c -> lim_inv g (snd (REQ_HEADERS_fn cb g c)).
Proof. apply REQ_HEADERS_loop_lim. Qed.

Lemma REQ_CONNECT_PROBE_DATA_fn_lim c : lim_inv g c -> lim_inv g (snd (REQ_CONNECT_PROBE_DATA_fn cb g c)).
Proof. intros H. unfold REQ_CONNECT_PROBE_DATA_fn. kp_go. Qed.

Lemma REQ_BODY_CHUNKED_LENGTH_loop_lim n : forall c, lim_inv g c -> lim_inv g (snd (REQ_BODY_CHUNKED_LENGTH_loop g n c)).
Proof. induction n as [|n IH]; intros c H; cbn [REQ_BODY_CHUNKED_LENGTH_loop]; kp_go. Qed.
Lemma REQ_BODY_CHUNKED_LENGTH_fn_lim c : lim_inv g c -> lim_inv g (snd (REQ_BODY_CHUNKED_LENGTH_fn g c)).
Proof. apply REQ_BODY_CHUNKED_LENGTH_loop_lim. Qed.

(* htp_connp_REQ_FINALIZE *)
Definition fkp (P : lkey_t -> Prop) (r : rq_fin_scan) : Prop :=
  match r with RF_complete c | RF_buffer c | RF_probe c => kp P c end.
Lemma rq_finalize_scan_kp P c : kp P c -> fkp P (rq_finalize_scan c).
Proof.
  intros H. unfold rq_finalize_scan.
  destruct (c_in_status c =? c_HTP_STREAM_CLOSED)%Z; [exact H|]. cbv zeta.
  assert (H1 : kp P (rq_peek_next c)) by kp_solve.
  destruct (k_next_byte (c_in (rq_peek_next c))) as [b|]; [|exact H1].
  destruct (negb (b =? LF)%N || (k_read (c_in (rq_peek_next c)) <=? k_consume (c_in (rq_peek_next c)))); [|exact H1].
  match goal with |- context [rq_peek_copy_until ?s ?n ?x] =>
    pose proof (rq_peek_copy_until_kp P s n x H1) as H2; destruct (rq_peek_copy_until s n x) as [[|] c2] end; exact H2.
Qed.
Lemma REQ_FINALIZE_fn_lim c : lim_inv g c -> lim_inv g (snd (REQ_FINALIZE_fn cb g c)).
Proof.
  intros H. unfold REQ_FINALIZE_fn.
  pose proof (rq_finalize_scan_kp (lim_key g) c H) as H1.
  destruct (rq_finalize_scan c) as [c1|c1|c1]; cbn [fkp] in H1; kp_go.
Qed.

(* connp->in_state(connp) *)
Lemma rq_state_fn_lim s c : lim_inv g c -> lim_inv g (snd (rq_state_fn cb g s c)).
Proof.
  intros H. destruct s; cbn [rq_state_fn];
    auto using REQ_IDLE_fn_lim, REQ_LINE_fn_lim, REQ_HEADERS_fn_lim, REQ_CONNECT_PROBE_DATA_fn_lim,
               REQ_BODY_CHUNKED_LENGTH_fn_lim, REQ_FINALIZE_fn_lim with kp.
Qed.
Hint Resolve rq_state_fn_lim : kp.

(* ---- htp_connp_req_data ---- *)
Lemma rq_exit_lim rc c : lim_inv g c -> lim_inv g (fst (rq_exit cb g rc c)).
Proof. intros H. unfold rq_exit. kp_go. Qed.
Hint Resolve rq_exit_lim : kp.

Lemma rq_iter_lim gap c : lim_inv g c ->
  match rq_iter cb g gap c with inl r => lim_inv g (fst r) | inr c' => lim_inv g c' end.
Proof.
  intros H. unfold rq_iter.
  set (d := if gap then _ else _).
  assert (Hd : match d with Some r => lim_inv g (snd r) | None => True end).
  { subst d. destruct gap; [|kp_solve].
    destruct (_ || _)%bool; [kp_solve|]. destruct (req_state_eqb _ _); [kp_solve|exact I]. }
  destruct d as [[rc c1]|]; cbn [snd] in Hd; [|exact H].
  destruct rc; try (apply rq_exit_lim; exact Hd).
  destruct (c_in_status c1 =? c_HTP_STREAM_TUNNEL)%Z; [exact Hd|].
  pose proof (req_handle_state_change_kp cb (lim_key g) c1 Hd) as H2.
  destruct (req_handle_state_change cb c1) as [rc2 c2]. cbn [snd] in H2.
  destruct rc2; try (apply rq_exit_lim; exact H2). exact H2.
Qed.

Lemma rq_loop_lim fuel gap : forall c, lim_inv g c -> lim_inv g (fst (rq_loop cb g fuel gap c)).
Proof.
  induction fuel as [|f IH]; intros c H; cbn [rq_loop].
  - kp_go.
  - pose proof (rq_iter_lim gap c H) as H1. destruct (rq_iter cb g gap c) as [r|c1]; [exact H1|apply IH; exact H1].
Qed.

Theorem connp_req_data_lim data len c : lim_inv g c -> lim_inv g (fst (connp_req_data cb g data len c)).
Proof.
  intros H. unfold connp_req_data.
  destruct (c_in_status c =? c_HTP_STREAM_STOP)%Z; [exact H|].
  destruct (c_in_status c =? c_HTP_STREAM_ERROR)%Z; [exact H|].
  destruct (match c_in_tx c with None => negb (req_state_eqb (c_in_state c) REQ_IDLE) && negb (c_in_status c =? c_HTP_STREAM_TUNNEL)%Z | Some _ => false end); [kp_go|].
  destruct ((len =? 0) && negb (c_in_status c =? c_HTP_STREAM_CLOSED)%Z)%bool; [exact H|].
  cbv zeta.
  match goal with |- context [if ?b then (?x, c_HTP_STREAM_TUNNEL) else _] =>
    assert (H1 : lim_inv g x) by kp_go; destruct b; [exact H1|] end.
  apply rq_loop_lim. kp_go.
Qed.
End ReqLim.
#[export] Hint Resolve connp_tx_create_lim req_buffer_lim req_consolidate_data_lim req_clear_buffer_lim rq_flush_header_lim
  rq_state_fn_lim rq_exit_lim connp_req_data_lim : kp.

Print Assumptions connp_req_data_lim.
