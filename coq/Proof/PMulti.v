(* Non-interference (C19): in any interleaving, every connection observes exactly what it observes
   when it runs alone, and ends in the same state. *)
Require Import Htp.Model.MConnTypes Htp.Model.MConnp Htp.Model.MMulti.

Section P.
Variable g : cfg.
Variable cbs : nat -> cb_oracle.

Lemma nth_upd_same (cs : list connp) i c d : i < length cs -> nth i (upd cs i c) d = c.
Proof. revert i; induction cs as [|h t IH]; intros [|i] H; cbn in *; try lia; auto. apply IH; lia. Qed.
Lemma nth_upd_other (cs : list connp) i j c d : i <> j -> nth j (upd cs i c) d = nth j cs d.
Proof. revert i j; induction cs as [|h t IH]; intros [|i] [|j] H; cbn; auto; try lia. Qed.
Lemma length_upd (cs : list connp) i c : length (upd cs i c) = length cs.
Proof. revert i; induction cs as [|h t IH]; intros [|i]; cbn; auto. Qed.

Definition sched_ok (n : nat) (sched : list (nat * cp_op)) : Prop := Forall (fun io => fst io < n) sched.

Theorem noninterference_gen : forall sched cs i,
  sched_ok (length cs) sched -> i < length cs ->
  nth i (fst (ms_run g cbs cs sched)) connp_new = fst (cp_run (cbs i) g (nth i cs connp_new) (ops_of i sched)) /\
  results_of i (snd (ms_run g cbs cs sched)) = snd (cp_run (cbs i) g (nth i cs connp_new) (ops_of i sched)) /\
  length (fst (ms_run g cbs cs sched)) = length cs.
Proof.
  induction sched as [|[j o] sched IH]; intros cs i Hs Hi.
  - cbn. auto.
  - inversion Hs as [|x l Hj Hs']; subst. cbn [fst] in Hj.
    cbn [ms_run ms_step].
    destruct (cp_step (cbs j) g (nth j cs connp_new) o) as [c' r] eqn:E.
    specialize (IH (upd cs j c') i). rewrite length_upd in IH. specialize (IH Hs' Hi).
    destruct (ms_run g cbs (upd cs j c') sched) as [cs2 xs] eqn:E2.
    cbn [fst snd] in *.
    unfold ops_of, results_of in *. cbn [filter fst snd map].
    destruct (Nat.eqb j i) eqn:Eji.
    + apply Nat.eqb_eq in Eji. subst j. cbn [map cp_run snd]. rewrite E.
      rewrite nth_upd_same in IH by exact Hi.
      destruct (cp_run (cbs i) g c' (map snd (filter (fun io => Nat.eqb (fst io) i) sched))) as [ci ri] eqn:E3.
      cbn [fst snd] in *. destruct IH as (H1 & H2 & H3). rewrite H2. auto.
    + apply Nat.eqb_neq in Eji. rewrite nth_upd_other in IH by exact Eji. exact IH.
Qed.

(* n fresh parsers sharing one configuration *)
Theorem noninterference : forall n sched i, sched_ok n sched -> i < n ->
  results_of i (snd (ms_run g cbs (repeat connp_new n) sched)) = snd (cp_run (cbs i) g connp_new (ops_of i sched)).
Proof.
  intros n sched i Hs Hi.
  pose proof (noninterference_gen sched (repeat connp_new n) i) as H. rewrite repeat_length in H.
  specialize (H Hs Hi). rewrite nth_repeat in H. tauto.
Qed.

End P.
