(* C16: PSegHdr.v (REQ_HEADERS, end of the header block, completion of a request without body) over the generalised world of PTunSeg.v. *)
Require Import Htp.Model.Base Htp.Model.MBstr Htp.Model.MConnTypes Htp.Model.MTxCommon Htp.Model.MReqLine Htp.Model.MReqUri Htp.Model.MTxReq.
Require Import Htp.Model.MReq Htp.Model.MRes Htp.Model.MConnp.
Require Import Htp.Spec.SWire Htp.Proof.PWire Htp.Proof.PWireHdr Htp.Proof.PWireBlock Htp.Proof.PWireConn Htp.Proof.PWireExch.
Require Import Htp.Proof.PWireRun Htp.Proof.PWirePres Htp.Proof.PWireGlue Htp.Proof.PSeg Htp.Proof.PSegLine Htp.Proof.PSegHdr Htp.Proof.PSegGen Htp.Proof.PSegRun.
Require Import Htp.Proof.PSegFold Htp.Proof.PSegPipe Htp.Proof.PTunBase Htp.Proof.PTunSeg Htp.Proof.PTunSegLine.

Section Hdr.
Variable cb : cb_oracle.
Variable g : cfg.
Hypothesis Hcb : wr_all_ok cb.
Context {w : tg_world}.
Notation tg_cin := (tg_cinw w).
Notation tg_mid := (tg_midw w).

(* ---- REQ_HEADERS: scanning for the LF ---- *)
Lemma tg_hdr_scan_nolf d hdr prev rh t : forall u c rd p n,
  tg_cin c d rd p hdr REQ_HEADERS prev rh t -> skipn rd d = u -> sg_no_lf u = true -> (length u <= n)%nat ->
  exists c', REQ_HEADERS_loop cb g n c = (ST_DATA_BUFFER, c') /\ tg_cin c' d (length d) (p ++ u) hdr REQ_HEADERS prev rh t.
Proof.
  induction u as [|b u IH]; intros c rd p n H Hu Hnl Hn.
  - pose proof (sg_skipn_nil d rd Hu) as L. pose proof H as [A1 A2 A3 A4 A5 A6 A7 A8 A9 A10 A11 A12 A13 A14 A15 A16 A17].
    assert (E : rd = length d) by lia.
    rewrite wr_headers_loop_eq, (tg_live_closed _ A1).
    unfold rq_copy_byte, rq_at_end. rewrite A5, A6, E, Nat.leb_refl. exists c. split; [reflexivity|]. rewrite app_nil_r, <- E. exact H.
  - destruct (sg_skipn_cons d rd b u Hu) as (Hnth & Hu' & Hlt). pose proof H as [A1 A2 A3 A4 A5 A6 A7 A8 A9 A10 A11 A12 A13 A14 A15 A16 A17].
    cbn [sg_no_lf forallb] in Hnl. apply andb_prop in Hnl. destruct Hnl as [Hb Hnl]. apply negb_true_iff in Hb.
    cbn [length] in Hn. destruct n as [|n]; [lia|].
    rewrite wr_headers_loop_eq, (tg_live_closed _ A1).
    assert (Hnth0 : nth_error d (k_read (c_in c)) = Some b) by (rewrite A6; exact Hnth).
    rewrite (wr_copy_byte c d b A4 A5 Hnth0).
    assert (Hnl' : rq_next_is (rq_set_in (wr_kadv b) c) LF = false) by (unfold rq_next_is; cbn; exact Hb). rewrite Hnl'.
    destruct (IH (rq_set_in (wr_kadv b) c) (S rd) (p ++ [b]) n (tg_cin_adv _ _ _ _ _ _ _ _ _ b H Hnth) Hu' Hnl ltac:(lia)) as (c' & E & H').
    exists c'. split; [exact E|]. rewrite <- app_assoc in H'. exact H'.
Qed.

Lemma tg_hdr_scan_lf d hdr prev rh t u2 : forall u1 c rd p n,
  tg_cin c d rd p hdr REQ_HEADERS prev rh t -> skipn rd d = u1 ++ LF :: u2 -> sg_no_lf u1 = true ->
  exists c', REQ_HEADERS_loop cb g (length u1 + S n) c =
               (let '(ret, c2) := rq_header_line cb g c' in match ret with Some r => r | None => REQ_HEADERS_loop cb g n c2 end) /\
             tg_cin c' d (rd + length u1 + 1) (p ++ u1 ++ [LF]) hdr REQ_HEADERS prev rh t /\ skipn (rd + length u1 + 1) d = u2.
Proof.
  induction u1 as [|b u1 IH]; intros c rd p n H Hu Hnl.
  - cbn [app] in Hu. destruct (sg_skipn_cons d rd LF u2 Hu) as (Hnth & Hu' & Hlt). pose proof H as [A1 A2 A3 A4 A5 A6 A7 A8 A9 A10 A11 A12 A13 A14 A15 A16 A17].
    cbn [length Nat.add]. rewrite wr_headers_loop_eq, (tg_live_closed _ A1).
    assert (Hnth0 : nth_error d (k_read (c_in c)) = Some LF) by (rewrite A6; exact Hnth).
    rewrite (wr_copy_byte c d LF A4 A5 Hnth0).
    assert (Hnl' : rq_next_is (rq_set_in (wr_kadv LF) c) LF = true) by reflexivity. rewrite Hnl'.
    eexists. split; [reflexivity|]. cbn [length app]. replace (rd + 0 + 1)%nat with (S rd) by lia.
    split; [apply tg_cin_adv; assumption|exact Hu'].
  - cbn [app] in Hu. destruct (sg_skipn_cons d rd b _ Hu) as (Hnth & Hu' & Hlt). pose proof H as [A1 A2 A3 A4 A5 A6 A7 A8 A9 A10 A11 A12 A13 A14 A15 A16 A17].
    cbn [sg_no_lf forallb] in Hnl. apply andb_prop in Hnl. destruct Hnl as [Hb Hnl]. apply negb_true_iff in Hb.
    cbn [length Nat.add]. rewrite wr_headers_loop_eq, (tg_live_closed _ A1).
    assert (Hnth0 : nth_error d (k_read (c_in c)) = Some b) by (rewrite A6; exact Hnth).
    rewrite (wr_copy_byte c d b A4 A5 Hnth0).
    assert (Hnl' : rq_next_is (rq_set_in (wr_kadv b) c) LF = false) by (unfold rq_next_is; cbn; exact Hb). rewrite Hnl'.
    destruct (IH (rq_set_in (wr_kadv b) c) (S rd) (p ++ [b]) n (tg_cin_adv _ _ _ _ _ _ _ _ _ b H Hnth) Hu' Hnl) as (c' & E & H' & Hr').
    exists c'. split; [exact E|]. replace (rd + S (length u1) + 1)%nat with (S rd + length u1 + 1)%nat by lia.
    split; [|exact Hr']. rewrite <- app_assoc in H'. exact H'.
Qed.

(* ---- one complete header line (not a continuation, not the terminator) ---- *)
Lemma tg_header_line_field c d rd hdr prev rh t f : wr_field_ok f = true ->
  tg_cin c d rd (wr_field_line f ++ [CR; LF]) hdr REQ_HEADERS prev rh t ->
  (length (wr_field_line f) + 2 + length (sg_olist hdr) <= g_field_limit_hard g)%nat ->
  match nth_error d rd with Some b => htp_is_folding_char b = false | None => True end ->
  exists c' hdr' t', rq_header_line cb g c = (None, c') /\ tg_cin c' d rd [] hdr' REQ_HEADERS prev rh t' /\
    sg_flush hdr' t' = htp_process_request_header_generic (wr_field_line f) (sg_flush hdr t) /\
    (length (sg_olist hdr') <= length (wr_field_line f))%nat.
Proof.
  intros Wf H Hlim Hnext. set (line := wr_field_line f) in *.
  unfold rq_header_line.
  destruct (tg_consolidate g c d rd _ hdr _ _ _ t H) as (c1 & E1 & H1); [rewrite app_length; cbn [length]; lia|]. rewrite E1.
  destruct (wr_field_line_shape f Wf) as (n0 & y & l & Esh & T0). fold line in Esh.
  destruct (wr_token_facts n0 T0) as (_ & Sp0 & _).
  rewrite Esh. cbn [app]. rewrite (wr_line_not_terminator _ n0 y l Sp0).
  change (n0 :: y :: l ++ [CR; LF]) with ((n0 :: y :: l) ++ [CR; LF]). rewrite <- Esh.
  assert (Pl : wr_last_plain line).
  { unfold line, wr_field_line. unfold wr_field_ok in Wf. apply andb_prop in Wf. destruct Wf as [Wf' L2]. apply andb_prop in Wf'. destruct Wf' as [W L1'].
    apply wr_header_line_plain; assumption. }
  rewrite (wr_chomp_line line [CR; LF] eq_refl Pl).
  assert (Fo : htp_is_line_folded line = 0%Z). { rewrite Esh. cbn [htp_is_line_folded]. rewrite (wr_token_not_folding n0 T0). reflexivity. }
  rewrite Fo. cbn [Z.eqb].
  (* "Parse previous header, if any." *)
  assert (HF : exists cF, rq_flush_header c1 = cF /\ tg_cin cF d rd (line ++ [CR; LF]) None REQ_HEADERS prev rh (sg_flush hdr t)).
  { unfold rq_flush_header. rewrite (gi_hdr _ _ _ _ _ _ _ _ _ H1). destruct hdr as [h|].
    - eexists. split; [reflexivity|]. unfold rq_process_header. rewrite (tg_tx_upd c1 d rd _ _ _ _ _ t _ H1).
      eapply tg_cin_header. eapply tg_cin_txs. exact H1.
    - exists c1. split; [reflexivity|exact H1]. }
  destruct HF as (cF & EF & HF). rewrite EF.
  rewrite (sg_peek cF d (gi_data _ _ _ _ _ _ _ _ _ HF) (gi_len _ _ _ _ _ _ _ _ _ HF)), (gi_read _ _ _ _ _ _ _ _ _ HF).
  set (cP := rq_set_in (fun k => k <| k_next_byte := nth_error d rd |>) cF).
  assert (HP : tg_cin cP d rd (line ++ [CR; LF]) None REQ_HEADERS prev rh (sg_flush hdr t)) by (apply tg_cin_next; exact HF).
  change (k_next_byte (c_in cP)) with (nth_error d rd).
  destruct (nth_error d rd) as [b|].
  - rewrite Hnext. cbn [negb]. unfold rq_process_header. rewrite (tg_tx_upd cP d rd _ _ _ _ _ _ _ HP).
    eexists _, None, _. split; [reflexivity|]. split; [eapply tg_cin_clear; eapply tg_cin_txs; exact HP|]. split; [reflexivity|cbn; lia].
  - eexists _, (Some line), _. split; [reflexivity|]. split; [eapply tg_cin_clear; eapply tg_cin_header; exact HP|]. split; [reflexivity|cbn; lia].
Qed.

(* ---- the empty line that ends the block ---- *)
Lemma tg_header_line_term c d rd hdr prev rh t :
  tg_cin c d rd [CR; LF] hdr REQ_HEADERS prev rh t -> (2 + length (sg_olist hdr) <= g_field_limit_hard g)%nat ->
  exists c', rq_header_line cb g c = (Some (rq_with_tx (tx_state_request_headers cb) c'), c') /\
             tg_cin c' d rd [] None REQ_HEADERS prev rh (sg_flush hdr t).
Proof.
  intros H Hlim. unfold rq_header_line.
  destruct (tg_consolidate g c d rd _ hdr _ _ _ t H) as (c1 & E1 & H1); [cbn [length]; lia|]. rewrite E1.
  assert (T : htp_is_line_terminator (g_personality g) [CR; LF] false = true).
  { unfold htp_is_line_terminator. destruct ((g_personality g =? c_HTP_SERVER_IIS_5_1)%Z && htp_is_line_whitespace [CR; LF]); reflexivity. }
  rewrite T.
  assert (HF : exists cF, rq_flush_header c1 = cF /\ tg_cin cF d rd [CR; LF] None REQ_HEADERS prev rh (sg_flush hdr t)).
  { unfold rq_flush_header. rewrite (gi_hdr _ _ _ _ _ _ _ _ _ H1). destruct hdr as [h|].
    - eexists. split; [reflexivity|]. unfold rq_process_header. rewrite (tg_tx_upd c1 d rd _ _ _ _ _ t _ H1).
      eapply tg_cin_header. eapply tg_cin_txs. exact H1.
    - exists c1. split; [reflexivity|exact H1]. }
  destruct HF as (cF & EF & HF). rewrite EF.
  eexists. split; [reflexivity|]. eapply tg_cin_clear. exact HF.
Qed.

(* ---- htp_tx_state_request_headers at the end of the header block ---- *)
Lemma tg_state_request_headers c d rd prev t nu :
  tg_cin c d rd [] None REQ_HEADERS prev (Some H_REQUEST_HEADER_DATA) t ->
  t_request_progress t = c_HTP_REQUEST_HEADERS -> t_parsed_uri t = Some nu ->
  exists c' (fl : bool), tx_state_request_headers cb (length (gw_done w)) c = (ST_OK, c') /\
    tg_cin c' d rd [] None REQ_CONNECT_CHECK prev None (sg_hdr_end (if fl then tx_set_flag c_HTP_MULTI_PACKET_HEAD t else t)).
Proof.
  intros H Hprog Hpu. pose proof (tg_cin_slot _ _ _ _ _ _ _ _ _ H) as Hsl. pose proof H as [A1 A2 A3 A4 A5 A6 A7 A8 A9 A10 A11 A12 A13 A14 A15 A16 A17].
  unfold tx_state_request_headers, tx_get. rewrite Hsl, Hprog.
  change ((c_HTP_REQUEST_HEADERS <? c_HTP_REQUEST_HEADERS)%Z) with false. change ((c_HTP_REQUEST_LINE <=? c_HTP_REQUEST_HEADERS)%Z) with true. cbv iota.
  set (fl := negb (c_in_chunk_count c =? c_in_chunk_request_index c)%nat).
  set (t5 := if fl then tx_set_flag c_HTP_MULTI_PACKET_HEAD t else t).
  assert (E5 : (if fl then tx_upd c (length (gw_done w)) (tx_set_flag c_HTP_MULTI_PACKET_HEAD) else c) = tg_settx w t5 c).
  { unfold t5. destruct fl.
    - apply (tg_tx_upd_at c d rd _ _ _ _ _ t _ H).
    - unfold tg_settx. rewrite <- A14. destruct c; reflexivity. }
  rewrite E5. set (c5 := tg_settx w t5 c).
  assert (H5 : tg_cin c5 d rd [] None REQ_HEADERS prev (Some H_REQUEST_HEADER_DATA) t5) by (eapply tg_cin_txs; exact H).
  assert (P5 : t_parsed_uri t5 = Some nu) by (unfold t5; destruct fl; exact Hpu).
  unfold tx_process_request_headers, tx_get. rewrite (tg_cin_slot _ _ _ _ _ _ _ _ _ H5).
  rewrite (sg_parsed_uri_te_cl t5), P5.
  set (t8 := rq_content_type (rq_host nu (rq_te_cl t5))).
  assert (E8 : sg_hdr_end t5 = t8) by (unfold sg_hdr_end; cbv zeta; rewrite (sg_parsed_uri_te_cl t5), P5; reflexivity).
  rewrite (tg_tx_put c5 d rd _ _ _ _ _ t5 t8 H5).
  set (c6 := tg_settx w t8 c5).
  assert (H6 : tg_cin c6 d rd [] None REQ_HEADERS prev (Some H_REQUEST_HEADER_DATA) t8) by (eapply tg_cin_txs; exact H5).
  unfold req_receiver_finalize_clear. rewrite (gi_rh _ _ _ _ _ _ _ _ _ H6).
  destruct (tg_send_data cb Hcb c6 d rd _ _ _ _ _ t8 true H6) as (c7 & E7 & H7). rewrite E7.
  rewrite (wr_run_hook cb Hcb).
  eexists _, fl. split; [reflexivity|]. fold t5. rewrite E8.
  destruct H7 as [B1 B2 B3 B4 B5 B6 B7 B8 B9 B10 B11 B12 B13 B14 B15 B16 B17].
  constructor; try assumption; try reflexivity.
Qed.

(* ---- REQ_CONNECT_CHECK (not CONNECT), REQ_BODY_DETERMINE (no body) ---- *)
Lemma tg_pass_connect_check c d rd p hdr rh t : tg_cin c d rd p hdr REQ_CONNECT_CHECK (Some REQ_CONNECT_CHECK) rh t ->
  (t_request_method_number t =? c_HTP_M_CONNECT)%Z = false ->
  exists c', rq_iter cb g false c = inr c' /\ tg_cin c' d rd p hdr REQ_BODY_DETERMINE (Some REQ_BODY_DETERMINE) rh t.
Proof.
  intros H Hm. pose proof (tg_cin_slot _ _ _ _ _ _ _ _ _ H) as Hsl.
  apply (tg_iter_ok cb g c (c <| c_in_state := REQ_BODY_DETERMINE |>) d rd p hdr _ (Some REQ_CONNECT_CHECK) rh t); [|eapply tg_cin_state; exact H|discriminate].
  rewrite (gi_state _ _ _ _ _ _ _ _ _ H). cbn [rq_state_fn]. unfold REQ_CONNECT_CHECK_fn, rq_tx, in_txi, tx_get.
  rewrite (gi_tx _ _ _ _ _ _ _ _ _ H), Hsl, Hm. reflexivity.
Qed.
Lemma tg_pass_body_determine c d rd p hdr rh t : tg_cin c d rd p hdr REQ_BODY_DETERMINE (Some REQ_BODY_DETERMINE) rh t ->
  t_request_transfer_coding t = c_HTP_CODING_NO_BODY ->
  exists c', rq_iter cb g false c = inr c' /\ tg_cin c' d rd p hdr REQ_FINALIZE (Some REQ_FINALIZE) rh t.
Proof.
  intros H Htc. pose proof (tg_cin_slot _ _ _ _ _ _ _ _ _ H) as Hsl.
  apply (tg_iter_ok cb g c (c <| c_in_state := REQ_FINALIZE |>) d rd p hdr _ (Some REQ_BODY_DETERMINE) rh t); [|eapply tg_cin_state; exact H|discriminate].
  rewrite (gi_state _ _ _ _ _ _ _ _ _ H). cbn [rq_state_fn]. unfold REQ_BODY_DETERMINE_fn, rq_tx, in_txi, tx_get.
  rewrite (gi_tx _ _ _ _ _ _ _ _ _ H), Hsl, Htc. reflexivity.
Qed.

(* ---- htp_tx_state_request_complete on a request without body: the request side is between two requests again ---- *)
Lemma tg_request_complete c d rd p prev t : tg_cin c d rd p None REQ_FINALIZE prev None t ->
  t_request_transfer_coding t = c_HTP_CODING_NO_BODY -> t_request_progress t = c_HTP_REQUEST_HEADERS ->
  (t_response_progress t =? c_HTP_RESPONSE_COMPLETE)%Z = false -> t_is_protocol_0_9 t = false ->
  exists c', rq_request_complete cb g c = (ST_OK, c') /\
    tg_idl c' d rd p (gw_done w ++ [Some (t <| t_request_progress := c_HTP_REQUEST_COMPLETE |>)]) (gw_aux w) prev.
Proof.
  intros H Htc Hprog Hresp H09. pose proof (tg_cin_slot _ _ _ _ _ _ _ _ _ H) as Hsl. pose proof H as [A1 A2 A3 A4 A5 A6 A7 A8 A9 A10 A11 A12 A13 A14 A15 A16 A17].
  unfold rq_request_complete, rq_with_tx. rewrite A13.
  unfold tx_state_request_complete. rewrite Hsl, Hprog.
  change ((c_HTP_REQUEST_HEADERS =? c_HTP_REQUEST_COMPLETE)%Z) with false. cbn [negb].
  unfold tx_state_request_complete_partial, tx_get. rewrite Hsl.
  unfold tx_req_has_body. rewrite Htc.
  change ((c_HTP_CODING_NO_BODY =? c_HTP_CODING_IDENTITY)%Z) with false. change ((c_HTP_CODING_NO_BODY =? c_HTP_CODING_CHUNKED)%Z) with false. cbn [orb].
  rewrite (tg_tx_upd_at c d rd _ _ _ _ _ t _ H).
  rewrite (wr_run_hook cb Hcb). unfold req_receiver_finalize_clear.
  set (t' := t <| t_request_progress := c_HTP_REQUEST_COMPLETE |>).
  match goal with |- context [wr_hook_ev H_REQUEST_COMPLETE ?i None false ?x] => set (c2 := wr_hook_ev H_REQUEST_COMPLETE i None false x) end.
  change (k_receiver_hook (c_in c2)) with (k_receiver_hook (c_in c)). rewrite A11.
  assert (X2 : c_txs c2 = gw_done w ++ [Some t']) by reflexivity. assert (Y2 : c_txs_shifted c2 = 0%nat) by exact A15.
  rewrite (sg_slot_at c2 _ _ X2 Y2). change (t_is_protocol_0_9 t') with (t_is_protocol_0_9 t). rewrite H09.
  unfold tx_finalize.
  assert (X3 : c_txs (c2 <| c_in_state := REQ_IDLE |>) = gw_done w ++ [Some t']) by reflexivity.
  assert (Y3 : c_txs_shifted (c2 <| c_in_state := REQ_IDLE |>) = 0%nat) by exact A15.
  rewrite (sg_slot_at _ _ _ X3 Y3).
  unfold tx_is_complete. change (t_response_progress t') with (t_response_progress t). rewrite Hresp, andb_false_r. cbn [negb].
  eexists. split; [reflexivity|].
  constructor; try assumption; try reflexivity.
Qed.

Lemma tg_idl_prev c d rd p done fl prev pv : tg_idl c d rd p done fl prev -> tg_idl (c <| c_in_state_previous := pv |>) d rd p done fl pv.
Proof. intros [A1 A2 A3 A4 A5 A6 A7 A8 A9 A10 A11 A12 A13 A14 A15 A16 A17]. constructor; try assumption; reflexivity. Qed.
Lemma tg_idl_next c d rd p done fl prev nb : tg_idl c d rd p done fl prev -> tg_idl (rq_set_in (fun k => k <| k_next_byte := nb |>) c) d rd p done fl prev.
Proof. intros [A1 A2 A3 A4 A5 A6 A7 A8 A9 A10 A11 A12 A13 A14 A15 A16 A17]. constructor; try assumption; reflexivity. Qed.
Lemma tg_cin_bdl c d rd p hdr st prev rh t v : tg_cin c d rd p hdr st prev rh t -> tg_cin (c <| c_in_body_data_left := v |>) d rd p hdr st prev rh t.
Proof. intros H. apply (tg_cin_ext c); try reflexivity. exact H. Qed.

(* the state change after a pass that ended in REQ_IDLE *)
Lemma tg_iter_idle c c1 d rd p done fl prev :
  rq_state_fn cb g (c_in_state c) c = (ST_OK, c1) -> tg_idl c1 d rd p done fl prev ->
  exists c', rq_iter cb g false c = inr c' /\ tg_idl c' d rd p done fl (Some REQ_IDLE).
Proof.
  intros E H. unfold rq_iter. rewrite E. rewrite (tg_live_tunnel _ (gl_status _ _ _ _ _ _ _ H)).
  unfold req_handle_state_change. rewrite (gl_prev _ _ _ _ _ _ _ H), (gl_state _ _ _ _ _ _ _ H).
  destruct (match prev with Some s => req_state_eqb s REQ_IDLE | None => false end) eqn:Ep.
  - eexists. split; [reflexivity|]. destruct prev as [s|]; [|discriminate]. destruct s; try discriminate. exact H.
  - cbn [req_state_eqb]. rewrite (gl_state _ _ _ _ _ _ _ H). eexists. split; [reflexivity|]. apply tg_idl_prev with (prev := prev). exact H.
Qed.

(* ---- REQ_FINALIZE at the end of the chunk completes the request; REQ_IDLE with nothing left returns HTP_STREAM_DATA ---- *)
Lemma tg_pass_finalize c d p t : tg_cin c d (length d) p None REQ_FINALIZE (Some REQ_FINALIZE) None t ->
  t_request_transfer_coding t = c_HTP_CODING_NO_BODY -> t_request_progress t = c_HTP_REQUEST_HEADERS ->
  (t_response_progress t =? c_HTP_RESPONSE_COMPLETE)%Z = false -> t_is_protocol_0_9 t = false ->
  exists c', rq_iter cb g false c = inr c' /\
    tg_idl c' d (length d) p (gw_done w ++ [Some (t <| t_request_progress := c_HTP_REQUEST_COMPLETE |>)]) (gw_aux w) (Some REQ_IDLE).
Proof.
  intros H Htc Hprog Hresp H09. pose proof H as [A1 A2 A3 A4 A5 A6 A7 A8 A9 A10 A11 A12 A13 A14 A15 A16 A17].
  assert (Ef : rq_state_fn cb g (c_in_state c) c = rq_request_complete cb g (rq_set_in (fun k => k <| k_next_byte := None |>) c)).
  { rewrite A2. cbn [rq_state_fn]. unfold REQ_FINALIZE_fn, rq_finalize_scan. rewrite (tg_live_closed _ A1).
    unfold rq_peek_next, rq_at_end. rewrite A5, A6, Nat.leb_refl. reflexivity. }
  destruct (tg_request_complete _ d _ p _ t (tg_cin_next _ _ _ _ _ _ _ _ _ None H) Htc Hprog Hresp H09) as (c1 & E1 & H1).
  eapply (tg_iter_idle c c1 d _ p); [rewrite Ef; exact E1|exact H1].
Qed.

Lemma tg_pass_idle_end c d p done fl prev : tg_idl c d (length d) p done fl prev ->
  rq_iter cb g false c = inl (c <| c_in_status := c_HTP_STREAM_DATA |>, c_HTP_STREAM_DATA).
Proof.
  intros [A1 A2 A3 A4 A5 A6 A7 A8 A9 A10 A11 A12 A13 A14 A15 A16 A17]. unfold rq_iter. rewrite A2. cbn [rq_state_fn]. unfold REQ_IDLE_fn, rq_at_end. rewrite A5, A6, Nat.leb_refl.
  unfold rq_exit, req_receiver_send_data. rewrite A11. reflexivity.
Qed.

Notation sg_hlog := (Htp.Proof.PSegHdr.sg_hlog g).
(* ---- REQ_HEADERS over the rest of the chunk ---- *)
Lemma tg_hdrs_loop d th0 rw' : forall fs_rem fs_done c rd p q hdr t n,
  tg_cin c d rd p hdr REQ_HEADERS (Some REQ_HEADERS) (Some H_REQUEST_HEADER_DATA) t ->
  forallb wr_field_ok fs_rem = true ->
  sg_flush hdr t = wr_block_tx fs_done th0 ->
  p ++ q = sg_next fs_rem -> q <> [] ->
  skipn rd d ++ rw' = q ++ sg_after fs_rem ->
  sg_fit (g_field_limit_hard g) (length (sg_olist hdr)) fs_rem = true ->
  (length d - rd <= n)%nat ->
  (exists c' p' hdr' t', REQ_HEADERS_loop cb g n c = (ST_DATA_BUFFER, c') /\
     tg_cin c' d (length d) p' hdr' REQ_HEADERS (Some REQ_HEADERS) (Some H_REQUEST_HEADER_DATA) t' /\
     sg_hlog th0 (fs_done ++ fs_rem) hdr' t' p' rw' /\ rw' <> []) \/
  (exists c', REQ_HEADERS_loop cb g n c = rq_with_tx (tx_state_request_headers cb) c' /\
     tg_cin c' d (length d) [] None REQ_HEADERS (Some REQ_HEADERS) (Some H_REQUEST_HEADER_DATA) (wr_block_tx (fs_done ++ fs_rem) th0) /\ rw' = []).
Proof.
  induction fs_rem as [|f fs' IH]; intros fs_done c rd p q hdr t n H Ok Hfl Hpq Hq Hw Hfit Hn.
  all: pose proof (gi_rd _ _ _ _ _ _ _ _ _ H) as Hrd.
  all: assert (Lu : length (skipn rd d) = (length d - rd)%nat) by apply skipn_length.
  all: destruct (sg_next_body _ Ok) as (body & Eb & Nb).
  all: destruct (sg_app_cases (skipn rd d) rw' q _ Hw) as [Clt Cge].
  all: destruct (Nat.lt_ge_cases (length (skipn rd d)) (length q)) as [Llt|Lge].
  (* the chunk ends inside the current line: terminator line *)
  - destruct (Clt Llt) as (q2 & Eq & Hq2 & Erw).
    assert (Nu : sg_no_lf (skipn rd d) = true).
    { rewrite Eq, Eb, app_assoc in Hpq. destruct (sg_app_last _ _ _ _ Hpq Hq2) as (q3 & _ & E3). rewrite <- E3, <- app_assoc, !sg_no_lf_app in Nb.
      apply andb_prop in Nb. destruct Nb as [_ Nb]. apply andb_prop in Nb. apply Nb. }
    destruct (tg_hdr_scan_nolf d hdr _ _ t (skipn rd d) c rd p n H eq_refl Nu ltac:(lia)) as (c' & E & H').
    left. exists c', (p ++ skipn rd d), hdr, t. split; [exact E|]. split; [exact H'|]. split.
    + exists fs_done, [], q2. split; [reflexivity|]. split; [exact Hfl|]. split; [rewrite <- app_assoc, <- Eq; exact Hpq|]. split; [exact Hq2|]. split; [exact Erw|exact Hfit].
    + rewrite Erw. destruct q2; [contradiction|discriminate].
  (* the terminator is complete in this chunk *)
  - destruct (Cge Lge) as (u2 & Eu & Eaft). cbn [sg_after] in Eaft. symmetry in Eaft. apply app_eq_nil in Eaft. destruct Eaft as [Eu2 Erw]. subst u2.
    rewrite app_nil_r in Eu.
    rewrite Eb in Hpq. destruct (sg_app_last _ _ _ _ Hpq Hq) as (q1 & Eq1 & Ep1).
    assert (Nq1 : sg_no_lf q1 = true) by (rewrite <- Ep1, sg_no_lf_app in Nb; apply andb_prop in Nb; apply Nb).
    assert (Eskip : skipn rd d = q1 ++ LF :: []) by (rewrite Eu, Eq1; reflexivity).
    assert (Ln : n = (length q1 + S (n - length q1 - 1))%nat) by (rewrite Eu, Eq1, app_length in Lu; cbn [length] in Lu; lia).
    rewrite Ln.
    destruct (tg_hdr_scan_lf d hdr _ _ t [] q1 c rd p (n - length q1 - 1)%nat H Eskip Nq1) as (c1 & E1 & H1 & Hr1). rewrite E1.
    assert (Es : p ++ q1 ++ [LF] = [CR; LF]) by (rewrite app_assoc, Ep1; symmetry; exact Eb). rewrite Es in H1.
    pose proof (sg_fit_next _ _ _ Hfit) as Hl. cbn [sg_next length] in Hl.
    destruct (tg_header_line_term c1 d _ hdr _ _ t H1 ltac:(lia)) as (c2 & E2 & H2). rewrite E2.
    assert (Erd : (rd + length q1 + 1)%nat = length d) by (pose proof (sg_skipn_nil _ _ Hr1); pose proof (gi_rd _ _ _ _ _ _ _ _ _ H1); lia).
    right. exists c2. split; [reflexivity|]. rewrite app_nil_r, <- Hfl, <- Erd. split; [exact H2|exact Erw].
  (* the chunk ends inside the current line: field line *)
  - destruct (Clt Llt) as (q2 & Eq & Hq2 & Erw).
    assert (Nu : sg_no_lf (skipn rd d) = true).
    { rewrite Eq, Eb, app_assoc in Hpq. destruct (sg_app_last _ _ _ _ Hpq Hq2) as (q3 & _ & E3). rewrite <- E3, <- app_assoc, !sg_no_lf_app in Nb.
      apply andb_prop in Nb. destruct Nb as [_ Nb]. apply andb_prop in Nb. apply Nb. }
    destruct (tg_hdr_scan_nolf d hdr _ _ t (skipn rd d) c rd p n H eq_refl Nu ltac:(lia)) as (c' & E & H').
    left. exists c', (p ++ skipn rd d), hdr, t. split; [exact E|]. split; [exact H'|]. split.
    + exists fs_done, (f :: fs'), q2. split; [reflexivity|]. split; [exact Hfl|]. split; [rewrite <- app_assoc, <- Eq; exact Hpq|]. split; [exact Hq2|]. split; [exact Erw|exact Hfit].
    + rewrite Erw. destruct q2; [contradiction|discriminate].
  (* a field line is complete in this chunk *)
  - destruct (Cge Lge) as (u2 & Eu & Eaft).
    cbn [forallb] in Ok. apply andb_prop in Ok. destruct Ok as [Okf Ok'].
    rewrite Eb in Hpq. destruct (sg_app_last _ _ _ _ Hpq Hq) as (q1 & Eq1 & Ep1).
    assert (Nq1 : sg_no_lf q1 = true) by (rewrite <- Ep1, sg_no_lf_app in Nb; apply andb_prop in Nb; apply Nb).
    assert (Eskip : skipn rd d = q1 ++ LF :: u2) by (rewrite Eu, Eq1, <- app_assoc; reflexivity).
    assert (Ln : n = (length q1 + S (n - length q1 - 1))%nat) by (rewrite Eu, Eq1, !app_length in Lu; cbn [length] in Lu; lia).
    rewrite Ln.
    destruct (tg_hdr_scan_lf d hdr _ _ t u2 q1 c rd p (n - length q1 - 1) H Eskip Nq1) as (c1 & E1 & H1 & Hr1). rewrite E1.
    assert (Es : p ++ q1 ++ [LF] = wr_field_line f ++ [CR; LF]) by (rewrite app_assoc, Ep1; symmetry; exact Eb). rewrite Es in H1.
    pose proof (sg_fit_next _ _ _ Hfit) as Hl. cbn [sg_next] in Hl. rewrite app_length in Hl. cbn [length] in Hl.
    (* the byte after the line, if the chunk has one, starts the next wire line *)
    cbn [sg_after] in Eaft. rewrite sg_wire_split in Eaft.
    assert (Hnext : match nth_error d (rd + length q1 + 1) with Some b => htp_is_folding_char b = false | None => True end).
    { destruct u2 as [|b u2'].
      - pose proof (sg_skipn_nil _ _ Hr1) as L. assert (N : nth_error d (rd + length q1 + 1) = None) by (apply nth_error_None; exact L). rewrite N. exact I.
      - destruct (sg_skipn_cons _ _ _ _ Hr1) as (N & _ & _). rewrite N.
        destruct (sg_next_head fs' Ok') as (b0 & r0 & E0 & F0). rewrite E0 in Eaft. cbn [app] in Eaft. inversion Eaft. subst b0. exact F0. }
    destruct (tg_header_line_field c1 d _ hdr _ _ t f Okf H1 ltac:(lia) Hnext) as (c2 & hdr' & t' & E2 & H2 & Hfl' & Lh'). rewrite E2.
    assert (Hfl2 : sg_flush hdr' t' = wr_block_tx (fs_done ++ [f]) th0) by (rewrite Hfl', Hfl, sg_block_tx_snoc; reflexivity).
    assert (Hfit2 : sg_fit (g_field_limit_hard g) (length (sg_olist hdr')) fs' = true).
    { apply (sg_fit_mono _ _ (length (wr_field_line f))); [exact Lh'|]. apply (sg_fit_tail _ _ _ _ Hfit). }
    pose proof (sg_next_ne fs') as Hne'.
    assert (Hw2 : skipn (rd + length q1 + 1) d ++ rw' = sg_next fs' ++ sg_after fs') by (rewrite Hr1; symmetry; exact Eaft).
    destruct (IH (fs_done ++ [f]) c2 _ [] (sg_next fs') hdr' t' (n - length q1 - 1)%nat H2 Ok' Hfl2 eq_refl Hne' Hw2 Hfit2) as [HA|HB].
    { rewrite Eu, Eq1, !app_length in Lu. cbn [length] in Lu. lia. }
    + left. destruct HA as (c' & p' & h' & t'' & EA & HA1 & HA2 & HA3). exists c', p', h', t''. split; [exact EA|]. split; [exact HA1|].
      split; [|exact HA3]. rewrite <- app_assoc in HA2. exact HA2.
    + right. destruct HB as (c' & EB & HB1 & HB2). exists c'. split; [exact EB|]. rewrite <- app_assoc in HB1. split; [exact HB1|exact HB2].
Qed.
End Hdr.
