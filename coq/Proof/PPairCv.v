(* C04, Stage C: the joint invariant once more, now with the histories in which response i is parsed while request i is still in
   htp_connp_REQ_FINALIZE (every byte of it offered, a part of the next request line buffered): pk_gap.  There the response side
   works on a transaction whose request is not marked complete; when the request side completes it afterwards the slot is the one
   the other order gives (PPairCt.v). *)
Require Import Htp.Model.Base Htp.Model.MBstr Htp.Model.MConnTypes Htp.Model.MTxCommon Htp.Model.MReqLine Htp.Model.MReqUri Htp.Model.MTxReq Htp.Model.MResLine Htp.Model.MTxRes.
Require Import Htp.Model.MReq Htp.Model.MRes Htp.Model.MConnp.
Require Import Htp.Spec.SWire Htp.Proof.PWire Htp.Proof.PWireHdr Htp.Proof.PWireBlock Htp.Proof.PWireConn Htp.Proof.PWireExch.
Require Import Htp.Proof.PWireRun Htp.Proof.PWirePres Htp.Proof.PWireGlue Htp.Proof.PSeg Htp.Proof.PSegLine Htp.Proof.PSegHdr Htp.Proof.PSegGen Htp.Proof.PSegRun.
Require Import Htp.Proof.PSegFold Htp.Proof.PSegPipe Htp.Proof.PSegRes Htp.Proof.PSegResLine Htp.Proof.PSegResHdr Htp.Proof.PSegResGen Htp.Proof.PSegResRun Htp.Proof.PSegResReq Htp.Proof.PSegResThm Htp.Proof.PSegResCanon.
Require Import Htp.Proof.PPairA Htp.Proof.PPairB Htp.Proof.PPairReq Htp.Proof.PPairThm Htp.Proof.PPairThmB Htp.Proof.PPairCq Htp.Proof.PPairCr Htp.Proof.PPairCs Htp.Proof.PPairCt.
Require Import Htp.Proof.PPairC1 Htp.Proof.PPairC2 Htp.Proof.PPairC3 Htp.Proof.PPairC4 Htp.Proof.PPairC5 Htp.Proof.PPairC6 Htp.Proof.PPairC7 Htp.Proof.PPairC8 Htp.Proof.PPairC9.
Require Import Htp.Proof.PPairCa Htp.Proof.PPairCu.

(* ================= the requests whose last byte has been offered ================= *)
Lemma pk_offered_le xk xf n : pk_offered xf n = 0%nat -> (pk_offered (xk ++ xf) n <= length xk)%nat.
Proof.
  intros H. induction xk as [|x xk IH]; [cbn [app length]; lia|]. cbn [app length pk_offered].
  destruct (_ <=? _)%nat; [apply le_n_S; exact IH|lia].
Qed.
Lemma pk_offered_0 x xf n : (length (pp_ex_qwire xf) < n)%nat -> pk_offered (x :: xf) n = 0%nat.
Proof. intros L. cbn [pk_offered]. assert (E : (n <=? length (pp_ex_qwire xf))%nat = false) by (apply Nat.leb_gt; exact L). rewrite E. reflexivity. Qed.
Lemma pk_offered_le1 x xf n : pk_offered xf n = 0%nat -> (pk_offered (x :: xf) n <= 1)%nat.
Proof. intros H. cbn [pk_offered]. destruct (_ <=? _)%nat; [rewrite H|]; lia. Qed.

Lemma pg_swire_app l1 l2 : pp_ex_swire (l1 ++ l2) = pp_ex_swire l1 ++ pp_ex_swire l2.
Proof. unfold pp_ex_swire. rewrite map_app, concat_app. reflexivity. Qed.
Lemma pg_skipn_split {A} (m a : nat) (l : list A) : (m <= a)%nat -> skipn m l = firstn (a - m) (skipn m l) ++ skipn a l.
Proof.
  intros L. rewrite <- (firstn_skipn (a - m) (skipn m l)) at 1. f_equal.
  revert l a L. induction m as [|m IH]; intros l a L.
  - cbn [skipn]. rewrite Nat.sub_0_r. reflexivity.
  - destruct l as [|b l]; [cbn [skipn]; rewrite !skipn_nil; reflexivity|]. destruct a as [|a]; [lia|]. cbn [skipn Nat.sub]. apply IH. lia.
Qed.
Lemma pg_stail_mono (xl : list pp_xc) m a : (m <= a)%nat -> (length (pp_ex_swire (skipn a xl)) <= length (pp_ex_swire (skipn m xl)))%nat.
Proof. intros L. rewrite (pg_skipn_split m a xl L), pg_swire_app, app_length. lia. Qed.

(* the request side between two calls: the request in progress has not been offered completely, or it is in REQ_FINALIZE *)
Lemma pk_vb_off g done rsd rs c rw : pv_between g done rsd rs c rw ->
  match rs with [] => True | r :: rs' => (length (sg_pwires rs') < length rw)%nat end \/
  exists r r' rs'' fl, rs = r :: r' :: rs'' /\ pv_gfin done rsd r r' rs'' (sg_tpre_r g (length done) r fl) c rw.
Proof.
  intros [Hm R Erw|r rs' p q Ers R Hm Hpq Hq Erw|r rs' p hdr t Ers R Hm Hl|r r' rs'' p q fl Ers R Hm Hpq Hq Hp Erw].
  - left. destruct rs as [|r rs']; [exact I|]. rewrite Erw, sg_pwires_cons. unfold sg_bwt. rewrite !app_length. cbn [length]. lia.
  - left. subst rs. assert (0 < length q)%nat by (destruct q; [contradiction|cbn [length]; lia]).
    rewrite Erw. unfold sg_bwt. rewrite !app_length. cbn [length]. lia.
  - left. subst rs. destruct Hl as (pend & tl & rem & q & _ & _ & _ & _ & _ & Hq & Erw & _).
    assert (0 < length q)%nat by (destruct q; [contradiction|cbn [length]; lia]).
    pose proof (sg_fafter_len (sg_pwires rs') rem) as L. rewrite Erw, app_length. lia.
  - right. exists r, r', rs'', fl. split; [exact Ers|]. apply (pv_gfin_of g done rsd rs c rw r r' rs'' p q fl Ers R Hm Hpq Hq Hp Erw).
Qed.
Lemma pv_gfin_len done rsd r r' rs'' t c rw : pv_gfin done rsd r r' rs'' t c rw -> (length (sg_pwires rs'') < length rw)%nat.
Proof.
  intros (_ & p & q & _ & _ & Hq & _ & Erw). assert (0 < length q)%nat by (destruct q; [contradiction|cbn [length]; lia]).
  rewrite Erw. unfold sg_bwt. rewrite !app_length. cbn [length]. lia.
Qed.

Lemma pg_F2_single {A B} (R : A -> B -> Prop) l e : Forall2 R l [e] -> exists t, l = [t] /\ R t e.
Proof. intros H. inversion H as [|t e1 l1 el Hr H1 E1 E2]. inversion H1. exists t. split; [reflexivity|exact Hr]. Qed.
(* ================= the response part of an exchange ================= *)
Definition pk_resp (e : pp_ex) (x : pp_xc) : Prop := px_res e = xs x /\ px_cuts e = xcuts x /\ px_body e = xbody x.
Lemma pk_resp_wires : forall ek xk, Forall2 pk_resp ek xk -> qp_wires ek = pp_ex_swire xk.
Proof.
  induction 1 as [|e x ek xk (E1 & E2 & E3) F IH]; [reflexivity|]. unfold qp_wires, pp_ex_swire in *. cbn [map concat]. rewrite IH.
  unfold pp_wire, pp_xwire. rewrite E1, E2, E3. reflexivity.
Qed.
Lemma pk_f1_transfer2 xf d rwr : forall ek xk, Forall2 pk_resp ek xk -> pp_f1_ex (xk ++ xf) d (rwr ++ pp_ex_swire xf) = true -> qp_f1 ek d rwr.
Proof.
  induction 1 as [|e x ek xk (E1 & E2 & E3) F IH]; intros H esd e0 es' E.
  - destruct esd; discriminate.
  - cbn [app pp_f1_ex] in H. apply andb_prop in H. destruct H as [H1 H2]. destruct esd as [|e1 esd].
    + cbn [app] in E. inversion E. subst e0 es'. rewrite (pk_resp_wires ek xk F). unfold px_hh, px_ls. rewrite E1, E2, E3.
      rewrite map_app, concat_app, app_assoc in H1. apply (pk_f1b_cut _ _ _ _ _ H1).
    + cbn [app] in E. inversion E. apply (IH H2 esd e0 es'). assumption.
Qed.

(* an exchange is fit for the response side as soon as it is with its request marked complete *)
Lemma pg_ok_of_V g e : qp_ok g (pg_Vex e) -> t_is_protocol_0_9 (px_t0 e) = false -> qp_ok g e.
Proof.
  intros ((_ & A2 & A3 & A4 & A5) & B) H09. split.
  - split; [exact H09|]. split; [exact A2|]. split; [exact A3|]. split; [|exact A5].
    cbn [px_t0 px_res px_cuts px_body pg_Vex] in A4. unfold sr_tend in *. rewrite pg_V_th0, pg_V_lrun, pg_V_frame_ok in A4. exact A4.
  - rewrite pg_Vex_tend in B. exact B.
Qed.

(* ================= one call of htp_connp_req_data from REQ_FINALIZE, on the real state ================= *)
Section GQ.
Variable cb : cb_oracle.
Variable g : cfg.
Hypothesis Hcb : wr_all_ok cb.
Hypothesis Hspace : g_allow_space_uri g = false.
Hypothesis Had : g_tx_auto_destroy g = false.
Variable all : list wr_request.
Hypothesis Hok : Forall (fun r => sg_req_ok g r = true) all.
Hypothesis Hmax : (g_max_tx g = 0 \/ length all < g_max_tx g)%nat.

Lemma gc_qstep done rsd r r' rs'' t c (rw x rw' : bytes) fl0 : all = rsd ++ r :: r' :: rs'' -> pg_fin_ok t ->
  pv_gfin done rsd r r' rs'' t (pc_E fl0 c) rw -> x <> [] -> rw = x ++ rw' -> sg_live (c_out_status c) ->
  let c' := fst (connp_req_data cb g (Some x) (length x) c) in
  ((exists fl', pv_gfin done rsd r r' rs'' t (pc_E fl' c') rw') \/
   (exists fins newr rs', pv_fins g fins newr /\ all = ((rsd ++ [r]) ++ newr) ++ rs' /\
                          pc_qinv g ((done ++ [Some (pg_V t)]) ++ map Some fins) ((rsd ++ [r]) ++ newr) rs' c' rw')) /\
  pq_D c' = pq_D c /\ c_out_status c' = c_out_status c /\ c_out_tx c' = c_out_tx c /\ c_txs_shifted c' = c_txs_shifted c.
Proof.
  intros Eall Hfo B Hne Ex So. cbv zeta.
  destruct (gv_step cb g Hcb Hspace Had all Hok Hmax done rsd r r' rs'' t (pc_E fl0 c) rw x rw' Eall Hfo B Hne Ex) as (c0' & rc & E0 & Hres).
  destruct (pq_req_data_S cb g x (pc_D0 c) fl0 c) as (fl' & ES). fold (pc_E fl0 c) in ES. rewrite E0 in ES.
  pose proof (pq_req_dead cb g x c) as Hd.
  set (c' := fst (connp_req_data cb g (Some x) (length x) c)) in *.
  assert (Ec : c0' = pc_E fl' c').
  { unfold pq_S1 in ES. inversion ES as [[E1 E2]]. unfold pc_E. rewrite (pc_D0_of _ _ Hd). reflexivity. }
  rewrite Ec in Hres.
  destruct (fk_req_data_keep cb g Hcb Had x c So) as [K1 K2]. fold c' in K1, K2.
  assert (Hlive : sg_live (c_in_status c')).
  { destruct Hres as [(_ & p & q & Hm & _)|(fins & newr & rs' & _ & _ & B')]; [exact (mi_status _ _ _ _ _ _ Hm)|exact (pv_between_live g _ _ _ _ _ B')]. }
  split.
  - destruct Hres as [G|(fins & newr & rs' & F & Ea & B')]; [left; exists fl'; exact G|].
    right. exists fins, newr, rs'. split; [exact F|]. split; [exact Ea|exists fl'; exact B'].
  - split; [exact Hd|]. unfold pq_frw in K1.
    destruct K2 as [K2|K2]; [|exfalso; pose proof (sg_live_tunnel _ Hlive) as L; rewrite K2 in L; discriminate].
    split; [exact K2|]. split; congruence.
Qed.
End GQ.

(* ================= the joint invariant with a request in REQ_FINALIZE known to the response side ================= *)
Section Joint2.
Variable cb : cb_oracle.
Variable g : cfg.
Hypothesis Hcb : wr_all_ok cb.
Hypothesis Hsp : g_allow_space_uri g = false.
Hypothesis Had : g_tx_auto_destroy g = false.
Variable xl : list pp_xc.
Hypothesis Hokx : forallb (pp_xc_ok g) xl = true.
Hypothesis Hnoexp : forallb pk_noexp xl = true.
Hypothesis Hmax : (g_max_tx g = 0 \/ length xl < g_max_tx g)%nat.

(* the exchange of a request in REQ_FINALIZE: its transaction is the one of the complete request without the mark *)
Definition pg_eg (k : nat) (fl : bool) (x : pp_xc) : pp_ex := mk_pp_ex (sg_tpre_r g k (xq x) fl) (xs x) (xcuts x) (xbody x).
Lemma pg_tpre_ok k r fl : sg_req_ok g r = true -> pg_fin_ok (sg_tpre_r g k r fl).
Proof.
  intros H. destruct (sg_req_ok_parts g r H) as (Wr & _ & Wl & Wb & Wnf & Wc & _).
  destruct (sg_tpre_facts g Hsp k _ _ _ _ Wl Wb Wnf fl Wc) as (_ & TC & Pg & Rp & Z9). split; [exact TC|]. split; [exact Pg|exact Z9].
Qed.
Lemma pg_x_ok x : In x xl -> pp_xc_ok g x = true /\ pk_noexp x = true /\ sg_req_ok g (xq x) = true.
Proof.
  intros Hin. pose proof Hokx as H1. pose proof Hnoexp as H2. rewrite forallb_forall in H1, H2.
  split; [exact (H1 x Hin)|]. split; [exact (H2 x Hin)|].
  pose proof (H1 x Hin) as H. unfold pp_xc_ok in H. do 4 (apply andb_prop in H; destruct H as [H _]). exact H.
Qed.
Lemma pg_known_complete ek xk : pk_known g ek xk -> Forall (fun e => t_request_progress (px_t0 e) = c_HTP_REQUEST_COMPLETE) ek.
Proof. induction 1 as [|e x ek xk (k & fl & Ee) F IH]; constructor; [rewrite Ee; reflexivity|exact IH]. Qed.
Lemma pg_known_V ek xk : pk_known g ek xk -> map pg_Vex ek = ek.
Proof. induction 1 as [|e x ek xk (k & fl & Ee) F IH]; [reflexivity|]. cbn [map]. rewrite IH. f_equal. apply pg_Vex_id. rewrite Ee. reflexivity. Qed.
Lemma pg_known_resp ek xk : pk_known g ek xk -> Forall2 pk_resp ek xk.
Proof. induction 1 as [|e x ek xk (k & fl & Ee) F IH]; constructor; [rewrite Ee; split; [reflexivity|split; reflexivity]|exact IH]. Qed.

Inductive pk_gap (a : nat) (c : connp) (qrw srw : bytes) : Prop :=
| PK_gap xk x x' xf ek eg esd es done t srr k fl fl0 :
    xl = xk ++ x :: x' :: xf -> length xk = a -> pk_known g ek xk -> eg = pg_eg k fl x -> ek ++ [eg] = esd ++ es ->
    pv_gfin done (map xq xk) (xq x) (xq x') (map xq xf) t (pc_E fl0 c) qrw ->
    qp_between g [] (pj_qin c) esd es c srr -> srw = srr ++ pp_ex_swire (x' :: xf) ->
    c_txs c = done ++ [Some t] -> length done = length xk -> forget_one (c_out c) = c_out c -> pk_gap a c qrw srw.

(* the exchanges the response side may work on, in the two situations *)
Lemma pg_all_ok xk x xr ek k fl : xl = xk ++ x :: xr -> pk_known g ek xk -> Forall (qp_ok g) (ek ++ [pg_eg k fl x]).
Proof.
  intros Exl Hk. assert (Hin : In x xl) by (rewrite Exl; apply in_or_app; right; left; reflexivity).
  destruct (pg_x_ok x Hin) as (Okx & Nex & Rqx).
  apply Forall_app. split; [apply (pk_known_ok g Hsp xl Hokx Hnoexp xk (x :: xr) ek Exl Hk)|]. constructor; [|constructor].
  apply pg_ok_of_V.
  - change (pg_Vex (pg_eg k fl x)) with (pp_ex_of g k fl x). split; [apply qp_ex_ok_of, pp_ex_of_ok; assumption|apply pk_noexp_get; assumption].
  - exact (proj2 (proj2 (pg_tpre_ok k (xq x) fl Rqx))).
Qed.

(* ---- a request in REQ_FINALIZE becomes known to the response side ---- *)
Lemma pk_norm_cases a c qrw srw : pk_inv g xl a c qrw srw -> (pk_offered xl (length qrw) <= a)%nat \/ pk_gap a c qrw srw.
Proof.
  intros [xk xf ek esd es done junk srr Exl La Hk Eek (fl & B) Hs Esrw Etx Ld Hfo].
  destruct (pk_vb_off g _ _ _ _ _ B) as [Hn|(r & r' & rs'' & flr & Ers & G)].
  - left. rewrite Exl, <- La. apply pk_offered_le. destruct xf as [|x xf']; [reflexivity|]. cbn [map] in Hn. apply pk_offered_0. rewrite pk_qwire_pw. exact Hn.
  - right. destruct xf as [|x [|x' xf'']]; try discriminate. cbn [map] in Ers. inversion Ers as [[E1 E2 E3]]. clear Ers. subst r r' rs''.
    set (eg := pg_eg (length done) flr x).
    pose proof G as (R & p & q & Hm & Gr).
    assert (Ej : junk = [Some (sg_tpre_r g (length done) (xq x) flr)]).
    { pose proof (mi_txs _ _ _ _ _ _ Hm) as E. change (c_txs (pc_E fl c)) with (c_txs c) in E. cbn [w_done sg_pw] in E. rewrite Etx in E. apply app_inv_head in E. exact E. }
    assert (So : pk_same_out c c) by (constructor; reflexivity).
    assert (Ht : forall X, c_txs c = X ++ junk -> c_txs c = X ++ qp_pend [eg] ++ []) by (intros X EX; rewrite EX, Ej; reflexivity).
    assert (Hlive : (c_in_status c =? c_HTP_STREAM_DATA_OTHER)%Z = false) by (apply pk_live_other; exact (mi_status _ _ _ _ _ _ Hm)).
    pose proof (pk_rbetween_re g junk [] (pj_qin c) c c [eg] So Ht Hlive esd es srr Hs) as Hs'.
    apply (PK_gap a c qrw srw xk x x' xf'' ek eg esd (es ++ [eg]) done (sg_tpre_r g (length done) (xq x) flr) (srr ++ qp_wires [eg]) (length done) flr fl Exl La Hk eq_refl).
    + rewrite Eek, app_assoc. reflexivity.
    + exact G.
    + exact Hs'.
    + rewrite Esrw. unfold qp_wires, pp_ex_swire. cbn [map concat]. rewrite app_nil_r, <- app_assoc. reflexivity.
    + rewrite Etx, Ej. reflexivity.
    + exact Ld.
    + exact Hfo.
Qed.
Lemma pk_gap_off a c qrw srw : pk_gap a c qrw srw -> (pk_offered xl (length qrw) <= a + 1)%nat.
Proof.
  intros [xk x x' xf ek eg esd es done t srr k fl fl0 Exl La Hk Eeg Eall G Hs Esrw Etx Ld Hfo].
  pose proof (pv_gfin_len _ _ _ _ _ _ _ _ G) as L. rewrite <- pk_qwire_pw in L.
  rewrite Exl, <- La. pose proof (pk_offered_le xk (x :: x' :: xf) (length qrw)) as X.
  change (xk ++ x :: x' :: xf) with (xk ++ [x] ++ x' :: xf). rewrite app_assoc.
  pose proof (pk_offered_le (xk ++ [x]) (x' :: xf) (length qrw) (pk_offered_0 x' xf _ L)) as Y. rewrite app_length in Y. exact Y.
Qed.
Lemma pk_gap_end a c srw : pk_gap a c [] srw -> False.
Proof.
  intros [xk x x' xf ek eg esd es done t srr k fl fl0 Exl La Hk Eeg Eall G Hs Esrw Etx Ld Hfo].
  destruct G as (_ & p & q & _ & _ & Hq & _ & Erw). destruct q; [contradiction|discriminate].
Qed.

(* ================= a call of htp_connp_res_data while the last known request is in REQ_FINALIZE ================= *)
Lemma pk_gap_sstep a c qrw (srw y srw' : bytes) : pk_gap a c qrw srw -> y <> [] -> srw = y ++ srw' ->
  (length (pp_ex_swire (skipn (a + 1) xl)) <= length srw')%nat -> pp_f1_ex xl y srw' = true ->
  pk_gap a (forget_chunks (fst (connp_res_data cb g (Some y) (length y) c)) <| c_events := [] |>) qrw srw'.
Proof.
  intros [xk x x' xf ek eg esd es done t srr k fl fl0 Exl La Hk Eeg Eall G Hs Esrw Etx Ld Hfo] Hne Ey Hlen Hf1.
  assert (Exl' : xl = (xk ++ [x]) ++ x' :: xf) by (rewrite <- app_assoc; exact Exl).
  assert (Esk : skipn (a + 1) xl = x' :: xf).
  { rewrite Exl', <- La. replace (length xk + 1)%nat with (length (xk ++ [x])) by (rewrite app_length; reflexivity). rewrite skipn_app, skipn_all, Nat.sub_diag. reflexivity. }
  rewrite Esk in Hlen. rewrite Esrw in Ey. destruct (pk_app_cut g xl Hmax _ _ _ _ Ey Hlen) as (srr' & Er & Ew).
  subst eg. pose proof (pg_all_ok xk x (x' :: xf) ek k fl Exl Hk) as Hokall.
  destruct G as (R & p & q & Hm & Gr).
  assert (Hfree : (pj_instat (pj_qin c) =? c_HTP_STREAM_DATA_OTHER)%Z = false) by (apply pk_live_other; exact (mi_status _ _ _ _ _ _ Hm)).
  assert (Hres : Forall2 pk_resp (ek ++ [pg_eg k fl x]) (xk ++ [x])).
  { apply Forall2_app; [apply (pg_known_resp ek xk Hk)|]. constructor; [split; [reflexivity|split; reflexivity]|constructor]. }
  assert (Hf1' : qp_f1 (ek ++ [pg_eg k fl x]) y srr') by (apply (pk_f1_transfer2 (x' :: xf) y srr' _ _ Hres); rewrite <- Exl', <- Ew; exact Hf1).
  destruct (qp_pstep cb g Hcb Had (ek ++ [pg_eg k fl x]) Hokall [] (pj_qin c) Hfree esd es c srr y srr' Eall Hs Hne Er Hf1') as (c1 & rc & E & esd' & es' & Eall' & Hs1).
  unfold bytes in *. rewrite E. cbn [fst]. set (c' := forget_chunks c1 <| c_events := [] |>).
  pose proof (qp_between_finish _ _ _ _ _ _ _ Hs1) as Hs2. fold c' in Hs2.
  destruct (pk_rb_facts _ _ _ _ _ _ _ Hs2) as (Hin' & _ & Hsh' & _).
  destruct (pk_rb_facts _ _ _ _ _ _ _ Hs) as (_ & _ & Hsh & _).
  destruct (qb_aligned _ _ _ _ _ _ _ Hs2) as (txl & Etxl & Fal). rewrite app_nil_r in Etxl. rewrite <- Eall' in Fal.
  apply Forall2_app_inv_r in Fal. destruct Fal as (txk & tl1 & Fk & F1 & Etx1).
  destruct (pg_F2_single _ _ _ F1) as (t' & El & Hal). rewrite El in Etx1. clear F1 El. rewrite Etx1 in Etxl. clear Etx1.
  assert (Lk : length txk = length xk) by (rewrite (pk_F2_len _ _ _ Fk); exact (pk_F2_len _ _ _ Hk)).
  rewrite <- Hin' in Hs2.
  apply (PK_gap a c' qrw srw' xk x x' xf ek (pg_eg k fl x) esd' es' (map Some txk) t' srr' k fl fl0 Exl La Hk eq_refl Eall').
  - split; [rewrite !map_length; exact Lk|]. exists p, q. split; [|exact Gr].
    apply (pk_midw_re2 done (map Some txk) (pc_E fl0 c) (pc_E fl0 c') _ _ _ _ t t' Hm).
    + rewrite map_length, Lk, Ld. reflexivity.
    + apply pk_same_in_E; [exact Hin'|exact (eq_trans Hsh' (eq_sym Hsh))].
    + change (c_txs (pc_E fl0 c')) with (c_txs c'). unfold c'. rewrite Etxl, map_app. reflexivity.
  - exact Hs2.
  - exact Ew.
  - unfold c'. rewrite Etxl, map_app. reflexivity.
  - rewrite map_length. exact Lk.
  - unfold c'. cbn [forget_chunks c_out set]. cbn. apply pj_forget_idem.
Qed.

(* ================= a call of htp_connp_req_data while the last known request is in REQ_FINALIZE ================= *)
Lemma pk_gap_qstep a c (qrw x qrw' : bytes) srw : pk_gap a c qrw srw -> x <> [] -> qrw = x ++ qrw' ->
  let c' := forget_chunks (fst (connp_req_data cb g (Some x) (length x) c)) <| c_events := [] |> in
  exists a', (a <= a')%nat /\ (pk_inv g xl a' c' qrw' srw \/ pk_gap a' c' qrw' srw).
Proof.
  intros [xk x0 x' xf ek eg esd es done t srr k fl fl0 Exl La Hk Eeg Eall G Hs Esrw Etx Ld Hfo] Hne Ex. cbv zeta. subst eg.
  assert (Hin : In x0 xl) by (rewrite Exl; apply in_or_app; right; left; reflexivity).
  destruct (pg_x_ok x0 Hin) as (Okx & Nex & Rqx).
  destruct (pk_rb_facts _ _ _ _ _ _ _ Hs) as (Hin0 & Hlive & Hsh & _).
  (* the transaction list as the response side sees it *)
  destruct (qb_aligned _ _ _ _ _ _ _ Hs) as (txl & Etxl & Fal). rewrite app_nil_r in Etxl. rewrite <- Eall in Fal.
  apply Forall2_app_inv_r in Fal. destruct Fal as (txk & tl1 & Fk & F1 & Etx1).
  destruct (pg_F2_single _ _ _ F1) as (t1 & El & Hal). rewrite El in Etx1. clear F1 El. rewrite Etx1, map_app in Etxl. clear Etx1. cbn [map] in Etxl.
  rewrite Etx in Etxl. apply app_inj_tail in Etxl. destruct Etxl as [Edone Et]. inversion Et. subst t1. clear Et.
  assert (Hfo' : pg_fin_ok t) by (apply (pg_k3_fin_ok _ _ Hal); apply pg_tpre_ok; exact Rqx).
  assert (Vdone : pg_Vtxs done = done) by (rewrite Edone; apply (pg_Vtxs_id txk ek Fk (pg_known_complete ek xk Hk))).
  assert (Eallq : map xq xl = map xq xk ++ xq x0 :: xq x' :: map xq xf) by (rewrite Exl, map_app; reflexivity).
  destruct (gc_qstep cb g Hcb Hsp Had (map xq xl) (pk_okq g xl Hokx) (pk_maxq g xl Hmax) done (map xq xk) (xq x0) (xq x') (map xq xf) t c qrw x qrw' fl0 Eallq Hfo' G Hne Ex Hlive)
    as (Hres & Hd & Hst & Hotx & Hshift).
  set (c1 := fst (connp_req_data cb g (Some x) (length x) c)) in *.
  set (c' := forget_chunks c1 <| c_events := [] |>).
  assert (So : pk_same_out c c').
  { constructor; [exact Hst|apply pk_D_finish; assumption|exact Hotx|exact Hshift]. }
  assert (Hfo2 : forget_one (c_out c') = c_out c') by (unfold c'; cbn [forget_chunks c_out set]; cbn; apply pj_forget_idem).
  destruct Hres as [(fl' & G')|(fins & newr & rs' & F & Ea & Hq')].
  - (* the call ends in REQ_FINALIZE again *)
    exists a. split; [lia|right].
    assert (G'' : pv_gfin done (map xq xk) (xq x0) (xq x') (map xq xf) t (pc_E fl' c') qrw') by (unfold c'; rewrite pc_E_finish; apply pv_gfin_finish; exact G').
    pose proof G'' as (_ & p & q & Hm & _).
    assert (Etx' : c_txs c' = done ++ [Some t]) by (exact (mi_txs _ _ _ _ _ _ Hm)).
    assert (Hlive2 : (c_in_status c' =? c_HTP_STREAM_DATA_OTHER)%Z = false) by (apply pk_live_other; exact (mi_status _ _ _ _ _ _ Hm)).
    assert (Ht : forall X, c_txs c = X ++ [] -> c_txs c' = X ++ qp_pend [] ++ []) by (intros X EX; rewrite app_nil_r in EX; cbn [qp_pend map app]; rewrite app_nil_r, Etx', <- Etx; exact EX).
    pose proof (pk_rbetween_re g [] [] (pj_qin c) c c' [] So Ht Hlive2 esd es srr Hs) as Hs'. rewrite !app_nil_r in Hs'.
    apply (PK_gap a c' qrw' srw xk x0 x' xf ek (pg_eg k fl x0) esd es done t srr k fl fl' Exl La Hk eq_refl Eall G'' Hs' Esrw Etx' Ld Hfo2).
  - (* the request is complete: its slot is marked, the transactions of the requests completed by the call follow *)
    assert (En : newr ++ rs' = map xq (x' :: xf)).
    { rewrite Eallq in Ea. change (map xq xk ++ xq x0 :: xq x' :: map xq xf) with (map xq xk ++ [xq x0] ++ map xq (x' :: xf)) in Ea.
      rewrite app_assoc, <- (app_assoc (map xq xk ++ [xq x0])) in Ea. apply app_inv_head in Ea. symmetry. exact Ea. }
    symmetry in En. apply map_eq_app in En. destruct En as (xnew & xf' & Exf & En1 & En2). subst newr rs'.
    destruct (pk_build_new g xnew fins F) as (newes & Epend & Hknew).
    assert (Lf : length fins = length xnew) by (rewrite (pk_F2_len _ _ _ F), map_length; reflexivity).
    assert (Hq'' : pc_qinv g ((done ++ [Some (pg_V t)]) ++ map Some fins) (map xq ((xk ++ [x0]) ++ xnew)) (map xq xf') c' qrw').
    { destruct Hq' as (fl' & B'). exists fl'. unfold c'. rewrite pc_E_finish, !map_app. apply pv_between_finish. exact B'. }
    destruct (pk_q_txs g _ _ _ _ _ Hq'') as (junk' & Etx' & _).
    pose proof (pk_q_live g _ _ _ _ _ Hq'') as Hlive2.
    (* the response side: every request it knows is marked complete now *)
    pose proof (qb_Vall _ _ _ _ _ _ _ Hs) as HsV. cbn [pg_Vtxs map] in HsV.
    assert (SoV : pk_same_out (pg_Vc c) c') by (destruct So as [O1 O2 O3 O4]; constructor; assumption).
    assert (Ht : forall X, c_txs (pg_Vc c) = X ++ [] -> c_txs c' = X ++ qp_pend newes ++ junk').
    { intros X EX. rewrite app_nil_r in EX. rewrite Etx', Epend. subst X. change (c_txs (pg_Vc c)) with (pg_Vtxs (c_txs c)).
      rewrite Etx, pg_Vtxs_app, Vdone. cbn [pg_Vtxs map option_map]. rewrite <- app_assoc. reflexivity. }
    pose proof (pk_rbetween_re g [] junk' (pj_qin c) (pg_Vc c) c' newes SoV Ht Hlive2 (map pg_Vex esd) (map pg_Vex es) srr HsV) as Hs'.
    assert (EV : map pg_Vex esd ++ map pg_Vex es = ek ++ [pp_ex_of g k fl x0]).
    { rewrite <- map_app, <- Eall, map_app, (pg_known_V ek xk Hk). reflexivity. }
    exists (length ((xk ++ [x0]) ++ xnew)). split; [rewrite !app_length; lia|left].
    apply (PK_inv g xl _ c' qrw' srw ((xk ++ [x0]) ++ xnew) xf' ((ek ++ [pp_ex_of g k fl x0]) ++ newes) (map pg_Vex esd) (map pg_Vex es ++ newes)
             ((done ++ [Some (pg_V t)]) ++ map Some fins) junk' (srr ++ qp_wires newes)).
    + rewrite Exl. change (xk ++ x0 :: x' :: xf) with (xk ++ [x0] ++ x' :: xf). rewrite Exf, !app_assoc. reflexivity.
    + reflexivity.
    + apply Forall2_app; [apply Forall2_app; [exact Hk|constructor; [exists k, fl; reflexivity|constructor]]|exact Hknew].
    + rewrite <- EV, <- app_assoc. reflexivity.
    + exact Hq''.
    + exact Hs'.
    + rewrite Esrw, Exf, pg_swire_app, <- (pk_known_wires g newes xnew Hknew), app_assoc. reflexivity.
    + exact Etx'.
    + rewrite !app_length, map_length. cbn [length]. lia.
    + exact Hfo2.
Qed.

(* ================= the two steps on either form of the invariant ================= *)
Definition pk_inv2 (a : nat) (c : connp) (qrw srw : bytes) : Prop := pk_inv g xl a c qrw srw \/ pk_gap a c qrw srw.

Lemma pk_qstep2 a c (qrw x qrw' : bytes) srw : pk_inv2 a c qrw srw -> x <> [] -> qrw = x ++ qrw' ->
  exists a', (a <= a')%nat /\ pk_inv2 a' (forget_chunks (fst (connp_req_data cb g (Some x) (length x) c)) <| c_events := [] |>) qrw' srw.
Proof.
  intros [Hn|Hg] Hne Ex.
  - destruct (pk_qstep cb g Hcb Hsp Had xl Hokx Hmax a c qrw x qrw' srw Hn Hne Ex) as (a' & La & Hn'). exists a'. split; [exact La|left; exact Hn'].
  - exact (pk_gap_qstep a c qrw x qrw' srw Hg Hne Ex).
Qed.

(* a response chunk that lies within the responses to the requests offered completely *)
Lemma pk_sstep2 a c qrw (srw y srw' : bytes) : pk_inv2 a c qrw srw -> y <> [] -> srw = y ++ srw' ->
  (length (pp_ex_swire (skipn (pk_offered xl (length qrw)) xl)) <= length srw')%nat -> pp_f1_ex xl y srw' = true ->
  pk_inv2 a (forget_chunks (fst (connp_res_data cb g (Some y) (length y) c)) <| c_events := [] |>) qrw srw'.
Proof.
  intros H Hne Ey Hlen Hf1.
  assert (Hg : forall (Hgap : pk_gap a c qrw srw), pk_inv2 a (forget_chunks (fst (connp_res_data cb g (Some y) (length y) c)) <| c_events := [] |>) qrw srw').
  { intros Hgap. right. apply (pk_gap_sstep a c qrw srw y srw' Hgap Hne Ey); [|exact Hf1].
    pose proof (pk_gap_off a c qrw srw Hgap) as Lo. pose proof (pg_stail_mono xl _ _ Lo). lia. }
  destruct H as [Hn|Hgap]; [|exact (Hg Hgap)].
  destruct (pk_norm_cases a c qrw srw Hn) as [Lo|Hgap]; [|exact (Hg Hgap)].
  left. apply (pk_sstep cb g Hcb Hsp Had xl Hokx Hnoexp Hmax a c qrw srw y srw' Hn Hne Ey); [|exact Hf1].
  pose proof (pg_stail_mono xl _ _ Lo). lia.
Qed.

Lemma pk_inv2_end a c : pk_inv2 a c [] [] -> Forall2 (fun slot x => exists k fl, slot = Some (pp_tfin (pp_ex_of g k fl x))) (c_txs c) xl.
Proof. intros [Hn|Hg]; [exact (pk_inv_end g xl a c Hn)|exfalso; exact (pk_gap_end a c [] Hg)]. Qed.
End Joint2.
