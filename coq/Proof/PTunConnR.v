(* C16, response side of a CONNECT exchange answered with 2xx: the response (status line, header fields, empty line; no body
   whatever the header fields say) delivered in ANY chunking while the request side waits in REQ_CONNECT_WAIT_RESPONSE; request
   data offered before the LF of the status line has arrived is turned away (HTP_STREAM_DATA_OTHER, nothing consumed, no
   callback, no change).  At the end the response is complete, the response side idle, the request side as it was. *)
Require Import Htp.Model.Base Htp.Model.MBstr Htp.Model.MConnTypes Htp.Model.MTxCommon Htp.Model.MResLine Htp.Model.MTxRes.
Require Import Htp.Model.MReq Htp.Model.MRes Htp.Model.MConnp.
Require Import Htp.Spec.SWire Htp.Proof.PWire Htp.Proof.PWireHdr Htp.Proof.PWireBlock Htp.Proof.PWireConn Htp.Proof.PWireExch.
Require Import Htp.Proof.PWireRun Htp.Proof.PWirePres Htp.Proof.PWireGlue Htp.Proof.PSeg Htp.Proof.PSegLine Htp.Proof.PSegHdr Htp.Proof.PSegGen Htp.Proof.PSegRun.
Require Import Htp.Proof.PSegFold Htp.Proof.PSegRes Htp.Proof.PSegResLine Htp.Proof.PSegResHdr Htp.Proof.PSegResGen Htp.Proof.PSegResRun Htp.Proof.PPairThm.
Require Import Htp.Proof.PTunBase Htp.Proof.PTunSegMid Htp.Proof.PTunRes Htp.Proof.PTunResLine Htp.Proof.PTunResHdr Htp.Proof.PTunResRun Htp.Proof.PTunResTail Htp.Proof.PTunResFin.
Require Import Htp.Proof.PTunReq.
Local Open Scope Z_scope.

(* the request side as the response side sees it while the answer to CONNECT is awaited *)
Record tc_wfr (rq : connp) : Prop := mk_tc_wfr {
  wf_state : c_in_state rq = REQ_CONNECT_WAIT_RESPONSE;
  wf_tx : c_in_tx rq = Some 0%nat;
  wf_status : c_in_status rq = c_HTP_STREAM_DATA \/ c_in_status rq = c_HTP_STREAM_DATA_OTHER;
  wf_stable : tn_stable (c_in rq);
  wf_prev : c_in_state_previous rq = Some REQ_CONNECT_CHECK;
  wf_buf : sg_olist (k_buf (c_in rq)) = [];
  wf_hdr : k_header (c_in rq) = None;
  wf_rh : k_receiver_hook (c_in rq) = None }.
(* one transaction, its response being parsed; only the request-side frame varies *)
Definition tc_w (rq : connp) : tr_world := mk_tr_world [] [] rq false.

(* ---- a refused request call between two response calls ---- *)
Lemma tn_rq_p c : c_in (tn_rq c) = c_in c /\ c_in_state (tn_rq c) = c_in_state c /\ c_in_tx (tn_rq c) = c_in_tx c /\
  c_in_state_previous (tn_rq c) = c_in_state_previous c /\ c_in_status (tn_rq c) = c_in_status c.
Proof. repeat split. Qed.
Lemma tn_fin_p c : c_in_state (tn_fin c) = c_in_state c /\ c_in_tx (tn_fin c) = c_in_tx c /\
  c_in_state_previous (tn_fin c) = c_in_state_previous c /\ c_in_status (tn_fin c) = c_in_status c.
Proof. repeat split. Qed.
Lemma tc_refused_frame (x : bytes) c : tc_wfr (tn_rq c) -> tc_wfr (tn_rq (tn_fin (tn_refused_st x c))).
Proof.
  intros [A1 A2 A3 A4 A5 A6 A7 A8]. destruct (tg_forget_fields (tn_refused_st x c)) as (F1 & F2 & F3).
  destruct (tn_rq_p c) as (P1 & P2 & P3 & P4 & P5). rewrite P1 in A6, A7, A8. rewrite P2 in A1. rewrite P3 in A2. rewrite P4 in A5.
  assert (G : k_buf (c_in (tn_refused_st x c)) = k_buf (c_in c) /\ k_header (c_in (tn_refused_st x c)) = k_header (c_in c) /\
              k_receiver_hook (c_in (tn_refused_st x c)) = k_receiver_hook (c_in c) /\ c_in_state (tn_refused_st x c) = c_in_state c /\
              c_in_tx (tn_refused_st x c) = c_in_tx c /\ c_in_state_previous (tn_refused_st x c) = c_in_state_previous c).
  { unfold tn_refused_st. destruct (c_out_status (tn_req_reg x c) =? c_HTP_STREAM_DATA_OTHER); repeat split. }
  destruct G as (G1 & G2 & G3 & G4 & G5 & G6).
  assert (G7 : c_in_status (tn_refused_st x c) = c_HTP_STREAM_DATA_OTHER) by reflexivity.
  set (c' := tn_refused_st x c) in *. clearbody c'.
  destruct (tn_rq_p (tn_fin c')) as (R1 & R2 & R3 & R4 & R5). destruct (tn_fin_p c') as (T1 & T2 & T3 & T4).
  constructor; rewrite ?R1, ?R2, ?R3, ?R4, ?R5, ?T1, ?T2, ?T3, ?T4.
  - rewrite G4. exact A1.
  - rewrite G5. exact A2.
  - right. exact G7.
  - apply tn_stable_forget.
  - rewrite G6. exact A5.
  - rewrite F1, G1. exact A6.
  - rewrite F2, G2. exact A7.
  - rewrite F3, G3. exact A8.
Qed.
Lemma tc_refused_eq (x : bytes) c : sg_live (c_out_status c) -> tn_refused_st x c = (tn_req_reg x c) <| c_in_status := c_HTP_STREAM_DATA_OTHER |>.
Proof.
  intros L. unfold tn_refused_st. change (c_out_status (tn_req_reg x c)) with (c_out_status c).
  assert (E : (c_out_status c =? c_HTP_STREAM_DATA_OTHER) = false) by (destruct L as [H|H]; rewrite H; reflexivity). rewrite E. reflexivity.
Qed.
Lemma tc_refused_mid (x : bytes) c p hdr st rh t rq : tr_midw (tc_w rq) c p hdr st rh t ->
  tr_midw (tc_w (tn_rq (tn_fin (tn_refused_st x c)))) (tn_fin (tn_refused_st x c)) p hdr st rh t.
Proof.
  intros [A1 A2 A3 A4 A5 A6 A7 A8 A9 A10 A11 A12]. rewrite (tc_refused_eq x c A1).
  match goal with |- tr_midw _ (tn_fin ?y) _ _ _ _ _ => destruct (tr_forget_out y) as (F1 & F2 & F3) end.
  constructor; rewrite ?F1, ?F2, ?F3; try assumption; try reflexivity.
Qed.
Lemma tc_refused_rest (x : bytes) c t rq : tr_rest (tc_w rq) c t ->
  tr_rest (tc_w (tn_rq (tn_fin (tn_refused_st x c)))) (tn_fin (tn_refused_st x c)) t.
Proof.
  intros [A1 A2 A3 A4 A5 A6 A7 A8 A9 A10]. rewrite (tc_refused_eq x c A1).
  match goal with |- tr_rest _ (tn_fin ?y) _ => destruct (tr_forget_out y) as (F1 & F2 & F3) end.
  constructor; rewrite ?F1, ?F2, ?F3; try assumption; try reflexivity.
Qed.

Lemma tc_rq_proj a b : pp_rq a = pp_rq b -> t_request_method_number a = t_request_method_number b /\ t_request_progress a = t_request_progress b /\
  t_request_method a = t_request_method b /\ t_request_uri a = t_request_uri b /\ t_request_protocol a = t_request_protocol b /\
  t_request_protocol_number a = t_request_protocol_number b /\ t_is_protocol_0_9 a = t_is_protocol_0_9 b /\ t_request_headers a = t_request_headers b.
Proof. unfold pp_rq. intros H. inversion H. repeat split; reflexivity. Qed.
Lemma tc_rl_proj a b : pp_rl a = pp_rl b -> t_response_status_number a = t_response_status_number b.
Proof. unfold pp_rl. intros H. inversion H. reflexivity. Qed.

Section ConnR.
Variable cb : cb_oracle.
Variable g : cfg.
Hypothesis Hcb : wr_all_ok cb.
Variable t0 : tx.                                          (* the transaction the CONNECT request left *)
Hypothesis H09 : t_is_protocol_0_9 t0 = false.
Hypothesis Hm : (t_request_method_number t0 =? c_HTP_M_CONNECT) = true.
Hypothesis Hrp : t_response_progress t0 <= c_HTP_RESPONSE_LINE.
Hypothesis Hrq : (t_request_progress t0 =? c_HTP_REQUEST_COMPLETE) = false.
Variables ps s r : bytes.
Variable ls : list sg_fl.
Hypothesis Wl : sr_status_ok ps s r = true.
Hypothesis Okl : forallb sg_fl_ok ls = true.
Hypothesis Hnp0 : sg_needs_pending ls = false.
Hypothesis H2a : (200 <=? wr_status_value s) = true.
Hypothesis H2b : (wr_status_value s <=? 299) = true.
Let line0 := wr_ser_status_line ps s r.
Let th0 := sr_th0 t0 line0.
Let Tend := sr_lrun ls (None, th0).
Hypothesis Hlim0 : (length line0 + 2 <= g_field_limit_hard g)%nat.
Hypothesis Hfit : sr_ffit (g_field_limit_hard g) (sr_p11 th0) None ls = true.
Variable body : bytes.                                     (* what follows the empty line (T1: nothing) *)
Let bwt := sg_fwire ls ++ [CR; LF] ++ body.
Definition tc_wire : bytes := (line0 ++ [CR; LF]) ++ bwt.
(* the transaction when the response is complete *)
Definition tc_tdone : tx := tn_tcomplete (Tend <| t_res_cep := c_HTP_COMPRESSION_NONE |>).

Hypothesis Hb0 : body = [].                                (* a 2xx answer to CONNECT has no body *)

Lemma tc_Tend_facts : (t_request_method_number Tend =? c_HTP_M_CONNECT) = true /\ t_response_status_number Tend = wr_status_value s /\
  (t_request_progress Tend =? c_HTP_REQUEST_COMPLETE) = false /\ t_response_progress Tend = c_HTP_RESPONSE_HEADERS.
Proof.
  destruct (prq_lrun ls (None, th0)) as [A B]. cbn [snd] in A, B. destruct (prq_th0 t0 line0) as [C _].
  assert (Wl' : wr_wf_status_line ps s r = true) by (unfold sr_status_ok in Wl; apply andb_prop in Wl; apply Wl).
  pose proof (pp_th0_line t0 ps s r Wl') as S4.
  destruct (sr_lrun_keep ls (None, th0)) as [_ P]. cbn [snd] in P. destruct (sr_th0_keep t0 line0) as [_ P'].
  destruct (tc_rq_proj _ _ A) as (A2 & A8 & _). destruct (tc_rq_proj _ _ C) as (C2 & C8 & _). pose proof (tc_rl_proj _ _ B) as B4.
  destruct S4 as (_ & _ & _ & S4 & _).
  split; [unfold Tend; rewrite A2; unfold th0; rewrite C2; exact Hm|]. split; [unfold Tend; rewrite B4; exact S4|].
  split; [unfold Tend; rewrite A8; unfold th0; rewrite C8; exact Hrq|unfold Tend; rewrite P; exact P'].
Qed.

Lemma tn_tcomplete_facts t : pp_rq (tn_tcomplete t) = pp_rq t /\ t_response_status_number (tn_tcomplete t) = t_response_status_number t /\
  t_response_progress (tn_tcomplete t) = c_HTP_RESPONSE_COMPLETE.
Proof. unfold tn_tcomplete. destruct (t_response_transfer_coding t =? c_HTP_CODING_NO_BODY); repeat split; reflexivity. Qed.
Lemma tc_tdone_facts : pp_rq tc_tdone = pp_rq t0 /\ t_response_status_number tc_tdone = wr_status_value s /\ t_response_progress tc_tdone = c_HTP_RESPONSE_COMPLETE.
Proof.
  unfold tc_tdone. destruct (tn_tcomplete_facts (Tend <| t_res_cep := c_HTP_COMPRESSION_NONE |>)) as (A & B & C).
  destruct tc_Tend_facts as (_ & S4 & _). destruct (prq_lrun ls (None, th0)) as [P _]. cbn [snd] in P. destruct (prq_th0 t0 line0) as [Q _].
  split; [rewrite A; change (pp_rq (Tend <| t_res_cep := c_HTP_COMPRESSION_NONE |>)) with (pp_rq Tend); unfold Tend; rewrite P; exact Q|].
  split; [rewrite B; exact S4|exact C].
Qed.

Notation tc_tt rq := (tt_betw g (w := tc_w rq) ps s r ls t0 body).

(* the states between two calls of the response phase *)
Inductive tc_betw (c : connp) (rw : bytes) : Prop :=
| CB_idle : tc_wfr (tn_rq c) -> tr_rest (tc_w (tn_rq c)) c t0 -> rw = tc_wire -> tc_betw c rw
| CB_in : tc_wfr (tn_rq c) -> tc_tt (tn_rq c) c rw -> tc_betw c rw.

(* what one response call establishes: it returns HTP_STREAM_DATA having consumed the chunk; the head is complete or not *)
Definition tc_post (cF : connp) (rw' : bytes) : Prop :=
  (rw' <> [] /\ tc_tt (tn_rq cF) cF rw') \/ (rw' = [] /\ tr_after (tc_w (tn_rq cF)) cF (Some tc_tdone)).
Definition tc_goal (rq : connp) (d : bytes) (c : connp) (fuel : nat) (rw' : bytes) : Prop :=
  exists cF, rs_res_loop cb g fuel false c = (cF, c_HTP_STREAM_DATA) /\ k_read (c_out cF) = length d /\ tn_rq cF = rq /\ tc_post cF rw'.

Lemma tc_tt_rq rq c rw : tc_tt rq c rw -> tn_rq c = rq.
Proof. intros [p q Hm' _ _ _|p hdr t Hm' _ _]; exact (tm_intx _ _ _ _ _ _ Hm'). Qed.

Lemma tc_Hstep rq d c c' fuel rw' : sr_iter cb g c = inr c' -> tc_goal rq d c' fuel rw' -> tc_goal rq d c (S fuel) rw'.
Proof. intros E (cF & EF & X). exists cF. split; [rewrite (sr_loop_inr cb g _ _ _ E); exact EF|exact X]. Qed.
Lemma tc_Hexit rq (d : bytes) c cF fuel rw' : sr_iter cb g c = inl (cF, c_HTP_STREAM_DATA) -> tc_tt rq cF rw' -> rw' <> [] ->
  k_read (c_out cF) = length d -> tc_goal rq d c (S fuel) rw'.
Proof.
  intros E B Hne Hk. exists cF. split; [apply (sr_loop_inl cb g _ _ _ E)|]. split; [exact Hk|]. pose proof (tc_tt_rq _ _ _ B) as Er. split; [exact Er|].
  left. split; [exact Hne|]. rewrite Er. exact B.
Qed.
Lemma tc_Ktail rq c c1 d rd1 (rw' : bytes) fuel : True -> c_out_state c = RES_HEADERS -> rs_state_fn cb g RES_HEADERS c = (ST_OK, c1) ->
  tr_cinw (tc_w rq) c1 d rd1 [] None RES_BODY_DETERMINE (Some RES_HEADERS) (Some H_RESPONSE_HEADER_DATA) Tend -> skipn rd1 d ++ rw' = body ->
  (8 * (length d - rd1) + 16 <= fuel)%nat -> tc_goal rq d c fuel rw'.
Proof.
  intros _ Es Ef H1 Hw Hf. rewrite Hb0 in Hw. apply app_eq_nil in Hw. destruct Hw as [Hs Hrw].
  assert (Erd : rd1 = length d) by (pose proof (sg_skipn_nil _ _ Hs); pose proof (ti_rd _ _ _ _ _ _ _ _ _ H1); lia). subst rd1.
  destruct tc_Tend_facts as (M & S4 & Rq & Rp).
  rewrite <- Es in Ef. destruct (tr_iter_ok cb g c c1 d _ _ _ _ _ _ _ Ef H1) as (c2 & E2 & H2); [discriminate|].
  destruct (tr_pass_determine_connect cb g Hcb c2 d _ Tend H2 M ltac:(rewrite S4; exact H2a) ltac:(rewrite S4; exact H2b)) as (c3 & E3 & H3).
  assert (Fu : exists f, fuel = S (S (2 + f))) by (exists (fuel - 4)%nat; lia). destruct Fu as (f & Fu). subst fuel.
  destruct (tr_finalize_end cb g Hcb c3 d _ f H3 eq_refl) as (cF & EF & HA & Hk & _).
  { change (t_response_progress (Tend <| t_res_cep := c_HTP_COMPRESSION_NONE |>)) with (t_response_progress Tend). rewrite Rp. reflexivity. }
  { exact Rq. }
  { apply andb_false_r. }
  exists cF. split; [rewrite (sr_loop_inr cb g _ _ _ E2), (sr_loop_inr cb g _ _ _ E3); exact EF|]. split; [exact Hk|].
  pose proof (tf_rq _ _ _ HA) as Er. split; [exact Er|]. right. split; [exact Hrw|]. rewrite Er. exact HA.
Qed.

(* ---- one response call ---- *)
Lemma tc_step c (rw x rw' : bytes) : tc_betw c rw -> x <> [] -> rw = x ++ rw' ->
  exists cF, connp_res_data cb g (Some x) (length x) c = (cF, c_HTP_STREAM_DATA) /\ k_read (c_out cF) = length x /\ tn_rq cF = tn_rq c /\ tc_post cF rw'.
Proof.
  intros B Hne Ex.
  assert (Hokd : forall d0 rw0 : bytes, True -> sr_f1_local body (negb (sr_is_nil ls)) d0 rw0) by (intros; rewrite Hb0; exact I).
  destruct B as [Wf Hr Erw|Wf Hb].
  - destruct (tr_enter_ready cb g _ c t0 x Hr Hne) as (c1 & E1 & H1 & _). rewrite E1.
    assert (Lx : (0 < length x)%nat) by (destruct x; [contradiction|cbn; lia]).
    apply (tt_run_idle cb g Hcb ps s r ls t0 body Wl Okl Hnp0 H09 Hlim0 Hfit (fun _ _ => True) Hokd (tc_goal (tn_rq c))
             (tc_Hstep (tn_rq c)) (tc_Hexit (tn_rq c)) (tc_Ktail (tn_rq c)) c1 x 0%nat [] (line0 ++ [CR; LF]) _ rw' _ I H1 Lx eq_refl).
    + intro E. apply app_eq_nil in E. destruct E as [_ E]. discriminate.
    + cbn [skipn]. rewrite <- Ex. exact Erw.
    + unfold rs_res_fuel. lia.
  - destruct (tt_step cb g Hcb ps s r ls t0 body Wl Okl Hnp0 Hlim0 Hfit (fun _ _ => True) Hokd (tc_goal (tn_rq c))
               (tc_Hstep (tn_rq c)) (tc_Hexit (tn_rq c)) (tc_Ktail (tn_rq c)) c rw x rw' Hb Hne Ex I) as (c1 & E1 & G1).
    rewrite E1. exact G1.
Qed.

Lemma tc_post_finish cF rw' : tc_wfr (tn_rq cF) -> tc_post cF rw' -> rw' <> [] -> tc_betw (tn_fin cF) rw'.
Proof.
  intros Wf [[_ B]|[E _]] Hne; [|contradiction].
  pose proof (tn_rq_fin_stable cF _ eq_refl (wf_stable _ Wf)) as Er.
  apply CB_in; rewrite Er; [exact Wf|]. apply tt_betw_finish; [exact B|exact (wf_stable _ Wf)].
Qed.

(* ---- a request call while the status line is incomplete ---- *)
Lemma tc_refused_step c rw (x : bytes) : tc_betw c rw -> (length bwt < length rw)%nat -> x <> [] ->
  connp_req_data cb g (Some x) (length x) c = (tn_refused_st x c, c_HTP_STREAM_DATA_OTHER) /\ tc_betw (tn_fin (tn_refused_st x c)) rw /\
  c_in_status (tn_refused_st x c) = c_HTP_STREAM_DATA_OTHER /\ k_read (c_in (tn_refused_st x c)) = 0%nat /\
  c_in_content_length (tn_fin (tn_refused_st x c)) = c_in_content_length c.
Proof.
  intros B Hlen Hne.
  assert (Hc : forall y, c_in_content_length (tn_fin (tn_refused_st x y)) = c_in_content_length y) by (intros y; unfold tn_refused_st; destruct (c_out_status (tn_req_reg x y) =? c_HTP_STREAM_DATA_OTHER); reflexivity).
  assert (Hk : forall y, k_read (c_in (tn_refused_st x y)) = 0%nat) by (intros y; unfold tn_refused_st; destruct (c_out_status (tn_req_reg x y) =? c_HTP_STREAM_DATA_OTHER); reflexivity).
  assert (Hs : forall y, c_in_status (tn_refused_st x y) = c_HTP_STREAM_DATA_OTHER) by (intros y; reflexivity).
  destruct B as [Wf Hr Erw|Wf Hb].
  - destruct (tn_rq_proj _ _ (eq_refl (tn_rq c))) as (Q1 & Q2 & _ & _ & Q5 & _). destruct Wf as [A1 A2 A3 A4 A5 A6 A7 A8]. rewrite <- Q2 in A1. rewrite <- Q5 in A2. rewrite <- Q1 in A3.
    assert (Tg : tx_get c 0 = t0) by (unfold tx_get, tx_slot; rewrite (ty_shift _ _ _ Hr), (ty_txs _ _ _ Hr); reflexivity).
    split; [apply (tn_refused cb g x c 0 A1 A2); [rewrite Tg; exact Hrp|exact A3|exact Hne]|]. split; [|split; [apply Hs|split; [apply Hk|apply Hc]]].
    apply CB_idle; [apply tc_refused_frame; constructor; assumption|apply (tc_refused_rest x c t0 (tn_rq c) Hr)|exact Erw].
  - destruct (tn_rq_proj _ _ (eq_refl (tn_rq c))) as (Q1 & Q2 & _ & _ & Q5 & _). pose proof Wf as [A1 A2 A3 A4 A5 A6 A7 A8]. rewrite <- Q2 in A1. rewrite <- Q5 in A2. rewrite <- Q1 in A3.
    destruct Hb as [p q Hm' Hpq Hq Erw|p hdr t Hm' Hl Hbd]; [|unfold bwt in Hlen; lia].
    assert (Tg : tx_get c 0 = sr_tx_start t0) by (unfold tx_get, tx_slot; rewrite (tm_shift _ _ _ _ _ _ Hm'), (tm_txs _ _ _ _ _ _ Hm'); reflexivity).
    split; [apply (tn_refused cb g x c 0 A1 A2); [rewrite Tg; cbn; lia|exact A3|exact Hne]|]. split; [|split; [apply Hs|split; [apply Hk|apply Hc]]].
    apply CB_in; [apply tc_refused_frame; exact Wf|]. apply (TW_line _ _ _ _ _ _ _ _ _ p q); [apply (tc_refused_mid x c _ _ _ _ _ (tn_rq c) Hm')|exact Hpq|exact Hq|exact Erw].
Qed.

(* ---- the response phase: response chunks, each possibly preceded by request data calls that are turned away ---- *)
Definition tc_ops (items : list (list bytes * bytes)) : list cp_op :=
  flat_map (fun it => map OpReqData (fst it) ++ [OpResData (snd it)]) items.
Definition tc_expect (items : list (list bytes * bytes)) : list (Z * nat) :=
  flat_map (fun it => map (fun _ : bytes => (c_HTP_STREAM_DATA_OTHER, 0%nat)) (fst it) ++ [(c_HTP_STREAM_DATA, length (snd it))]) items.
(* request data may be offered only while the LF of the status line has not been delivered *)
Fixpoint tc_refs_ok (items : list (list bytes * bytes)) : Prop :=
  match items with
  | [] => True
  | it :: rest => (fst it = [] \/ (length bwt < length (concat (map snd items)))%nat) /\ tc_refs_ok rest
  end.
Definition tc_items_ne (items : list (list bytes * bytes)) : Prop :=
  Forall (fun it => Forall (fun x : bytes => x <> []) (fst it) /\ snd it <> []) items.

Lemma tc_betw_wfr c rw : tc_betw c rw -> tc_wfr (tn_rq c).
Proof. intros [W _ _|W _]; exact W. Qed.
Lemma tc_wfr_quiet rq : tc_wfr rq -> c_in_status rq <> c_HTP_STREAM_TUNNEL.
Proof. intros [_ _ [E|E] _ _ _ _ _]; rewrite E; intro X; vm_compute in X; discriminate. Qed.

Lemma tc_refs : forall (refs : list bytes) c rw, tc_betw c rw -> (refs = [] \/ (length bwt < length rw)%nat) -> Forall (fun x : bytes => x <> []) refs ->
  tc_betw (fst (cp_run cb g c (map OpReqData refs))) rw /\
  map tn_o (snd (cp_run cb g c (map OpReqData refs))) = map (fun _ : bytes => (c_HTP_STREAM_DATA_OTHER, 0%nat)) refs /\
  Forall tn_rquiet (snd (cp_run cb g c (map OpReqData refs))) /\
  c_in_content_length (fst (cp_run cb g c (map OpReqData refs))) = c_in_content_length c.
Proof.
  induction refs as [|x refs IH]; intros c rw B Hl Hall; [cbn [map cp_run fst snd]; split; [exact B|split; [reflexivity|split; [constructor|reflexivity]]]|].
  destruct Hl as [Hl|Hl]; [discriminate|]. pose proof (Forall_inv Hall) as Hx. pose proof (Forall_inv_tail Hall) as Hall'.
  cbn [map]. rewrite tn_run_cons. cbn [fst snd]. rewrite tn_step_req.
  destruct (tc_refused_step c rw x B Hl Hx) as (E & B' & Hs & Hk & Hc). unfold bytes in E |- *. rewrite E. cbn [fst snd].
  destruct (IH _ rw B' (or_intror Hl) Hall') as (B2 & O2 & Q2 & C2).
  split; [exact B2|]. split; [|split; [|exact (eq_trans C2 Hc)]].
  - cbn [map]. f_equal; [|exact O2]. unfold tn_o, tn_res, finish_call. cbn [snd r_rc r_consumed]. rewrite Hk. reflexivity.
  - constructor; [|exact Q2]. unfold tn_rquiet, tn_res, finish_call. cbn [snd r_in_status]. rewrite Hs. intro X; vm_compute in X; discriminate.
Qed.

Lemma tc_concat_nil (items : list (list bytes * bytes)) : tc_items_ne items -> concat (map snd items) = [] -> items = [].
Proof.
  destruct items as [|it rest]; [reflexivity|]. intros F E. cbn [map concat] in E. apply app_eq_nil in E. destruct E as [E _].
  pose proof (Forall_inv F) as [_ X]. contradiction.
Qed.

Theorem tc_phase : forall (items : list (list bytes * bytes)) c rw, tc_betw c rw -> rw <> [] -> concat (map snd items) = rw ->
  tc_items_ne items -> tc_refs_ok items ->
  let cF := fst (cp_run cb g c (tc_ops items)) in
  tc_wfr (tn_rq cF) /\ tr_after (tc_w (tn_rq cF)) cF (Some tc_tdone) /\ c_events cF = [] /\
  map tn_o (snd (cp_run cb g c (tc_ops items))) = tc_expect items /\ Forall tn_rquiet (snd (cp_run cb g c (tc_ops items))).
Proof.
  induction items as [|[refs x] rest IH]; intros c rw B Hne Hc Hall Hr cF; unfold cF; clear cF.
  - cbn [map concat] in Hc. congruence.
  - cbn [map concat snd] in Hc. destruct Hr as [Hr1 Hr2]. cbn [fst snd map concat] in Hr1. rewrite Hc in Hr1.
    pose proof (Forall_inv Hall) as [Hrefs Hx]. cbn [fst snd] in Hrefs, Hx. pose proof (Forall_inv_tail Hall) as Hall'.
    change (tc_ops ((refs, x) :: rest)) with ((map OpReqData refs ++ [OpResData x]) ++ tc_ops rest).
    change (tc_expect ((refs, x) :: rest)) with ((map (fun _ : bytes => (c_HTP_STREAM_DATA_OTHER, 0%nat)) refs ++ [(c_HTP_STREAM_DATA, length x)]) ++ tc_expect rest).
    rewrite tn_run_app. cbn [fst snd]. rewrite (tn_run_app cb g (map OpReqData refs)). cbn [fst snd].
    destruct (tc_refs refs c rw B Hr1 Hrefs) as (B1 & O1 & Q1 & _).
    set (c1 := fst (cp_run cb g c (map OpReqData refs))) in *.
    rewrite tn_run_cons. cbn [cp_run fst snd]. rewrite tn_step_res.
    destruct (tc_step c1 rw x (concat (map snd rest)) B1 Hx (eq_sym Hc)) as (c2 & E2 & K2 & R2 & P2).
    unfold bytes in E2 |- *. rewrite E2. cbn [fst snd].
    pose proof (tc_betw_wfr _ _ B1) as W1. assert (W2 : tc_wfr (tn_rq c2)) by (rewrite R2; exact W1).
    assert (Q2 : tn_rquiet (tn_res c2 c_HTP_STREAM_DATA (k_read (c_out c2)))).
    { unfold tn_rquiet, tn_res, finish_call. cbn [snd r_in_status]. destruct (tn_rq_proj _ _ (eq_refl (tn_rq c2))) as (X & _). rewrite X. apply tc_wfr_quiet. exact W2. }
    assert (O2 : tn_o (tn_res c2 c_HTP_STREAM_DATA (k_read (c_out c2))) = (c_HTP_STREAM_DATA, length x)).
    { unfold tn_o, tn_res, finish_call. cbn [snd r_rc r_consumed]. rewrite K2. reflexivity. }
    assert (Hcase : concat (map snd rest) = [] \/ concat (map snd rest) <> []) by (destruct (concat (map snd rest)); [left; reflexivity|right; discriminate]).
    destruct Hcase as [Erest|Hne'].
    + (* the response is complete *)
      rewrite Erest in P2. rewrite (tc_concat_nil rest Hall' Erest). cbn [tc_ops tc_expect flat_map cp_run fst snd]. rewrite !app_nil_r.
      destruct P2 as [[X _]|[_ A2]]; [contradiction|].
      pose proof (tn_rq_fin_stable c2 _ eq_refl (wf_stable _ W2)) as Er.
      split; [rewrite Er; exact W2|]. split; [rewrite Er; apply tr_after_finish; [exact A2|exact (wf_stable _ W2)]|]. split; [reflexivity|].
      split; [rewrite map_app; apply f_equal2; [exact O1|cbn [map]; f_equal; exact O2]|]. apply Forall_app. split; [exact Q1|constructor; [exact Q2|constructor]].
    + pose proof (tc_post_finish c2 _ W2 P2 Hne') as B3.
      destruct (IH (tn_fin c2) _ B3 Hne' eq_refl Hall' Hr2) as (W4 & A4 & E4 & O4 & Q4).
      split; [exact W4|]. split; [exact A4|]. split; [exact E4|]. split.
      * rewrite !map_app. apply f_equal2; [apply f_equal2; [exact O1|cbn [map]; f_equal; exact O2]|exact O4].
      * apply Forall_app. split; [apply Forall_app; split; [exact Q1|constructor; [exact Q2|constructor]]|exact Q4].
Qed.
End ConnR.
