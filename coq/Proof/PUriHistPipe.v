(* C13 / C12 at history level, n pipelined requests: PSegPipe.sg_pipeline_fidelity keeps of every finished transaction only
   wr_reported; here the SAME induction (the text of PSegPipe's section PipeRun, mechanically renamed sg_ -> up_) is run with
   an invariant that remembers which transaction it is (a member of the family sg_tfin), so that PUriHistTx.uh_tfin applies
   to every transaction of the pipeline. *)
Require Import Htp.Model.Base Htp.Model.MBstr Htp.Model.MConnTypes Htp.Model.MTxCommon Htp.Model.MReqLine Htp.Model.MReqUri Htp.Model.MTxReq.
Require Import Htp.Model.MReq Htp.Model.MRes Htp.Model.MConnp.
Require Import Htp.Spec.SWire Htp.Proof.PWire Htp.Proof.PWireHdr Htp.Proof.PWireBlock Htp.Proof.PWireConn Htp.Proof.PWireExch.
Require Import Htp.Proof.PWireRun Htp.Proof.PWirePres Htp.Proof.PWireGlue Htp.Proof.PSeg Htp.Proof.PSegLine Htp.Proof.PSegHdr Htp.Proof.PSegGen Htp.Proof.PSegRun.
Require Import Htp.Proof.PSegFold Htp.Proof.PSegPipe.

(* every finished transaction is the reference transaction of its request (for some number k and some value of
   HTP_MULTI_PACKET_HEAD) *)
Inductive up_rep (g : cfg) (done : list (option tx)) (rsd : list wr_request) : Prop :=
| UpRep : Forall2 (fun slot r => exists k fl, slot = Some (sg_tfin g k (wq_method r) (wq_uri r) (wq_protocol r) (wq_fields r) fl)) done rsd ->
          up_rep g done rsd.
Lemma up_rep_len g done rsd : up_rep g done rsd -> length done = length rsd.
Proof. intros [R]. apply (sg_Forall2_length _ _ _ R). Qed.
Lemma up_rep_nil g : up_rep g [] []. Proof. constructor. constructor. Qed.

Section UPipeRun.
Variable cb : cb_oracle.
Variable g : cfg.
Hypothesis Hcb : wr_all_ok cb.
Hypothesis Hspace : g_allow_space_uri g = false.
Variable all : list wr_request.
Hypothesis Hok : Forall (fun r => sg_req_ok g r = true) all.
Hypothesis Hmax : (g_max_tx g = 0 \/ length all < g_max_tx g)%nat.

Definition up_tend (k : nat) (r : wr_request) : tx := wr_block_tx (wq_fields r) (sg_th0 g k (wq_method r) (wq_uri r) (wq_protocol r)).
Definition up_tpre_r (k : nat) (r : wr_request) (fl : bool) : tx := sg_tpre g k (wq_method r) (wq_uri r) (wq_protocol r) (wq_fields r) fl.
Definition up_tfin_r (k : nat) (r : wr_request) (fl : bool) : tx := sg_tfin g k (wq_method r) (wq_uri r) (wq_protocol r) (wq_fields r) fl.

(* the states between two calls: rsd = the requests that are complete, rs = the others (the first one may be in progress) *)
Inductive up_pbetween (rsd rs : list wr_request) (c : connp) (rw : bytes) : Prop :=
| UPB_idle done : sg_imid c done (sg_pflags (length done)) -> up_rep g done rsd -> rw = sg_pwires rs -> up_pbetween rsd rs c rw
| UPB_line done r rs' p q : rs = r :: rs' -> up_rep g done rsd ->
    sg_midw (sg_pw done) c p None REQ_LINE None (sg_t1 (length done)) -> p ++ q = sg_line0 r ++ [CR; LF] -> q <> [] -> rw = q ++ sg_bwt r rs' ->
    up_pbetween rsd rs c rw
| UPB_hdrs done r rs' p hdr t : rs = r :: rs' -> up_rep g done rsd ->
    sg_midw (sg_pw done) c p hdr REQ_HEADERS (Some H_REQUEST_HEADER_DATA) t -> sg_fhlog g (up_tend (length done) r) (sg_pwires rs') hdr t p rw ->
    up_pbetween rsd rs c rw
| UPB_fin done r r' rs'' p q fl : rs = r :: r' :: rs'' -> up_rep g done rsd ->
    sg_midw (sg_pw done) c p None REQ_FINALIZE None (up_tpre_r (length done) r fl) -> p ++ q = sg_line0 r' ++ [CR; LF] -> q <> [] -> rw = q ++ sg_bwt r' rs'' ->
    up_pbetween rsd rs c rw.

Definition up_pgoal (c : connp) (fuel : nat) (rw' : bytes) : Prop :=
  exists cF rc, rq_loop cb g fuel false c = (cF, rc) /\ exists rsd' rs', all = rsd' ++ rs' /\ up_pbetween rsd' rs' cF rw'.

Lemma up_all_in rsd r rs' : all = rsd ++ r :: rs' -> sg_req_ok g r = true.
Proof. intros E. rewrite Forall_forall in Hok. apply Hok. rewrite E. apply in_or_app. right. left. reflexivity. Qed.
Lemma up_all_in2 rsd r r' rs'' : all = rsd ++ r :: r' :: rs'' -> sg_req_ok g r' = true.
Proof. intros E. rewrite Forall_forall in Hok. apply Hok. rewrite E. apply in_or_app. right. right. left. reflexivity. Qed.
Lemma up_max_ok rsd r rs' done : all = rsd ++ r :: rs' -> up_rep g done rsd -> (g_max_tx g = 0 \/ length done <= g_max_tx g)%nat.
Proof.
  intros E R. pose proof (up_rep_len _ _ _ R) as L. destruct Hmax as [H|H]; [left; exact H|right]. rewrite E, app_length in H. cbn [length] in H. lia.
Qed.
Lemma up_rep_snoc done rsd r k fl : up_rep g done rsd -> wr_request_ok r = true -> up_rep g (done ++ [Some (up_tfin_r k r fl)]) (rsd ++ [r]).
Proof.
  intros [R] Wr. constructor. apply Forall2_app; [exact R|]. constructor; [|constructor]. exists k, fl. reflexivity.
Qed.

(* what REQ_IDLE with data has to establish when the request r comes next and rs'' follow *)
Definition up_Pidle (r : wr_request) (rs'' : list wr_request) : Prop :=
  forall rsd done c d rd p q (rw' : bytes) fuel prev,
    all = rsd ++ r :: rs'' -> up_rep g done rsd -> sg_idl c d rd p done (sg_pflags (length done)) prev -> (rd < length d)%nat ->
    p ++ q = sg_line0 r ++ [CR; LF] -> q <> [] -> skipn rd d ++ rw' = q ++ sg_bwt r rs'' ->
    (16 * (length d - rd) + 8 <= fuel)%nat -> up_pgoal c fuel rw'.
Definition up_Pnext (rs' : list wr_request) : Prop := match rs' with [] => True | r' :: rs'' => up_Pidle r' rs'' end.

(* ---- the idle state after a call ---- *)
Lemma up_imid_of_idl c d p done fl prev : sg_idl c d (length d) p done fl prev -> p = [] ->
  sg_imid (c <| c_in_status := c_HTP_STREAM_DATA |>) done fl.
Proof.
  intros [A1 A2 A3 A4 A5 A6 A7 A8 A9 A10 A11 A12 A13 A14 A15 A16 A17] Ep. rewrite Ep in A9. apply app_eq_nil in A9. destruct A9 as [B _].
  constructor; try assumption; try (right; reflexivity).
Qed.

(* ---- REQ_FINALIZE of the last request: the wire ends here ---- *)
Lemma up_run_fin_last rsd r done c d fl (rw' : bytes) fuel :
  all = rsd ++ [r] -> up_rep g done rsd ->
  sg_cinw (sg_pw done) c d (length d) [] None REQ_FINALIZE (Some REQ_FINALIZE) None (up_tpre_r (length done) r fl) -> rw' = [] ->
  (2 <= fuel)%nat -> up_pgoal c fuel rw'.
Proof.
  intros Eall R H Erw Hf. destruct (sg_req_ok_parts g r (up_all_in rsd r [] Eall)) as (Wr & _ & Wl & Wb & Wnf & Wc & _).
  destruct (sg_tpre_facts g Hspace (length done) _ _ _ _ Wl Wb Wnf fl Wc) as (_ & TC & Pg & Rp & Z9).
  destruct (sg_pass_finalize cb g Hcb c d _ _ H TC Pg Rp Z9) as (c6 & E6 & H6).
  destruct fuel as [|[|f]]; [lia|lia|].
  eexists _, _. split; [rewrite (sg_rq_loop_inr cb g _ _ _ E6), (sg_rq_loop_inl cb g _ _ _ (sg_pass_idle_end cb g c6 d _ _ _ _ H6)); reflexivity|]. exists (rsd ++ [r]), []. split; [rewrite app_nil_r; exact Eall|].
  apply (UPB_idle _ _ _ _ (done ++ [Some (up_tfin_r (length done) r fl)])).
  - cbn [w_done w_flags sg_pw] in H6. rewrite app_length. cbn [length]. rewrite Nat.add_1_r. apply (up_imid_of_idl _ d [] _ _ _ H6 eq_refl).
  - apply up_rep_snoc; assumption.
  - rewrite Erw. reflexivity.
Qed.

(* ---- REQ_FINALIZE when another request follows ---- *)
Lemma up_run_fin_next rsd r r' rs'' done c d rd1 p q fl (rw' : bytes) fuel :
  up_Pidle r' rs'' ->
  all = rsd ++ r :: r' :: rs'' -> up_rep g done rsd ->
  sg_cinw (sg_pw done) c d rd1 p None REQ_FINALIZE (Some REQ_FINALIZE) None (up_tpre_r (length done) r fl) -> k_consume (c_in c) = rd1 ->
  p ++ q = sg_line0 r' ++ [CR; LF] -> q <> [] -> skipn rd1 d ++ rw' = q ++ sg_bwt r' rs'' -> (skipn rd1 d = [] -> p = []) ->
  (16 * (length d - rd1) + 9 <= fuel)%nat -> up_pgoal c fuel rw'.
Proof.
  intros IH Eall R H Hc Hpq Hq Hw Hp0 Hf.
  destruct (sg_req_ok_parts g r (up_all_in rsd r _ Eall)) as (Wr & _ & Wl & Wb & Wnf & Wc & _).
  destruct (sg_req_ok_parts g r' (up_all_in2 rsd r r' rs'' Eall)) as (Wr' & Hk' & Wl' & _ & _ & _ & Hl0' & _).
  destruct (sg_tpre_facts g Hspace (length done) _ _ _ _ Wl Wb Wnf fl Wc) as (_ & TC & Pg & Rp & Z9).
  pose proof (ci_rd _ _ _ _ _ _ _ _ _ H) as Hrd.
  assert (Eall' : all = (rsd ++ [r]) ++ r' :: rs'') by (rewrite <- app_assoc; exact Eall).
  assert (R' : forall fl0, up_rep g (done ++ [Some (up_tfin_r (length done) r fl0)]) (rsd ++ [r])) by (intros fl0; apply up_rep_snoc; assumption).
  assert (Lf : length (done ++ [Some (up_tfin_r (length done) r fl)]) = S (length done)) by (rewrite app_length; cbn [length]; lia).
  destruct (wr_reqline_bytes _ _ _ Wl') as (Hnolf & _). fold (sg_line0 r') in Hnolf.
  assert (Eb : sg_line0 r' ++ [CR; LF] = (sg_line0 r' ++ [CR]) ++ [LF]) by (rewrite <- app_assoc; reflexivity).
  destruct (Nat.eq_dec rd1 (length d)) as [Erd|Nrd].
  - (* the chunk ends with the request *)
    assert (Eu : skipn rd1 d = []) by (apply skipn_all2; lia). rewrite Eu in Hw. rewrite Erd in H. rewrite (Hp0 Eu) in *. cbn [app] in Hw, Hpq.
    destruct (sg_pass_finalize cb g Hcb c d _ _ H TC Pg Rp Z9) as (c6 & E6 & H6).
    destruct fuel as [|[|f]]; [lia|lia|].
    eexists _, _. split; [rewrite (sg_rq_loop_inr cb g _ _ _ E6), (sg_rq_loop_inl cb g _ _ _ (sg_pass_idle_end cb g c6 d _ _ _ _ H6)); reflexivity|]. exists (rsd ++ [r]), (r' :: rs''). split; [exact Eall'|].
    apply (UPB_idle _ _ _ _ (done ++ [Some (up_tfin_r (length done) r fl)])).
    + cbn [w_done w_flags sg_pw] in H6. rewrite Lf. apply (up_imid_of_idl _ d [] _ _ _ H6 eq_refl).
    + apply R'.
    + rewrite Hw, sg_pwires_cons, Hpq, <- app_assoc. reflexivity.
  - assert (Hlt : (rd1 < length d)%nat) by lia.
    destruct (sg_app_cases (skipn rd1 d) rw' q _ Hw) as [Clt Cge].
    destruct (Nat.lt_ge_cases (length (skipn rd1 d)) (length q)) as [Llt|Lge].
    + (* no LF in the rest of the chunk *)
      destruct (Clt Llt) as (q2 & Eq & Hq2 & Erw).
      assert (Nu : sg_no_lf (skipn rd1 d) = true).
      { rewrite Eq, Eb, app_assoc in Hpq. destruct (sg_app_last _ _ _ _ Hpq Hq2) as (q3 & _ & E3). unfold sg_no_lf. rewrite <- E3, <- app_assoc, !forallb_app in Hnolf.
        apply andb_prop in Hnolf. destruct Hnolf as [_ Nb]. apply andb_prop in Nb. apply Nb. }
      assert (Lim : (length (p ++ skipn rd1 d) <= g_field_limit_hard g)%nat).
      { assert (L : length (p ++ q) = (length (sg_line0 r') + 2)%nat) by (rewrite Hpq, app_length; reflexivity). rewrite app_length in L. rewrite app_length. lia. }
      destruct (sg_fin_buffer cb g Hcb c d rd1 p _ H Hc Hlt Nu Lim) as (cF & EF & HF).
      destruct fuel as [|f]; [lia|].
      eexists _, _. split; [rewrite (sg_rq_loop_inl cb g _ _ _ EF); reflexivity|]. exists rsd, (r :: r' :: rs''). split; [exact Eall|].
      apply (UPB_fin _ _ _ _ done r r' rs'' (p ++ skipn rd1 d) q2 fl eq_refl R HF); [rewrite <- app_assoc, <- Eq; exact Hpq|exact Hq2|exact Erw].
    + (* the LF of the next request line is in the chunk *)
      destruct (Cge Lge) as (d2 & Ed & Eaft).
      rewrite Eb in Hpq. destruct (sg_app_last _ _ _ _ Hpq Hq) as (q1 & Eq1 & Ep1).
      assert (Nq1 : sg_no_lf q1 = true) by (unfold sg_no_lf in *; rewrite <- Ep1, forallb_app in Hnolf; apply andb_prop in Hnolf; apply Hnolf).
      assert (Ed' : skipn rd1 d = q1 ++ LF :: d2) by (rewrite Ed, Eq1, <- app_assoc; reflexivity).
      destruct (sg_line0_shape r') as (rest' & Esh). rewrite <- Ep1 in Esh.
      assert (Wm' : wr_token (wq_method r') = true).
      { unfold wr_wf_request_line in Wl'. apply andb_prop in Wl'. destruct Wl' as [Wl' _]. apply andb_prop in Wl'. apply Wl'. }
      assert (Lim : (length (p ++ q1) <= g_field_limit_hard g)%nat) by (rewrite Ep1, app_length; cbn [length]; lia).
      destruct (sg_fin_probe cb g Hcb c d rd1 p _ q1 d2 _ rest' H Hc Ed' Nq1 Esh Wm' Hk' Lim TC Pg Rp Z9) as (c6 & E6 & H6).
      destruct fuel as [|f]; [lia|].
      cbn [w_done w_flags sg_pw] in H6. rewrite <- Lf in H6.
      assert (Hgoal : up_pgoal c6 f rw' -> up_pgoal c (S f) rw').
      { intros (cF & rc & E & X). exists cF, rc. split; [rewrite (sg_rq_loop_inr cb g _ _ _ E6); exact E|exact X]. }
      apply Hgoal.
      assert (Lq : (rd1 + length q1 < length d)%nat).
      { assert (L : length (skipn rd1 d) = length (q1 ++ LF :: d2)) by (rewrite Ed'; reflexivity). rewrite skipn_length, app_length in L. cbn [length] in L. lia. }
      apply (IH (rsd ++ [r]) _ c6 d (rd1 + length q1)%nat (p ++ q1) [LF] rw' f (Some REQ_IDLE) Eall' (R' fl) H6 Lq).
      * rewrite Ep1. symmetry. exact Eb.
      * discriminate.
      * rewrite <- sg_skipn_add, Ed', skipn_app, Nat.sub_diag, skipn_all. cbn [app skipn]. rewrite <- Eaft. reflexivity.
      * lia.
Qed.

Lemma up_pgoal_steps n c c' fuel (rw' : bytes) : (forall f, rq_loop cb g (n + f) false c = rq_loop cb g f false c') -> (n <= fuel)%nat ->
  up_pgoal c' (fuel - n) rw' -> up_pgoal c fuel rw'.
Proof.
  intros St L (cF & rc & E & X). exists cF, rc. split; [|exact X]. replace fuel with (n + (fuel - n))%nat by lia. rewrite St. exact E.
Qed.
Lemma up_pgoal_exit c cF fuel (rw' : bytes) rsd' rs' : rq_iter cb g false c = inl (cF, c_HTP_STREAM_DATA) -> (1 <= fuel)%nat ->
  all = rsd' ++ rs' -> up_pbetween rsd' rs' cF rw' -> up_pgoal c fuel rw'.
Proof.
  intros E L Ea B. destruct fuel as [|f]; [lia|]. exists cF, c_HTP_STREAM_DATA. split; [apply (sg_rq_loop_inl cb g _ _ _ E)|]. exists rsd', rs'. split; assumption.
Qed.

(* ---- a call that is in REQ_HEADERS of request r ---- *)
Lemma up_run_hdrs rsd r rs' done c d rd p hdr t (rw' : bytes) fuel :
  up_Pnext rs' -> all = rsd ++ r :: rs' -> up_rep g done rsd ->
  sg_cinw (sg_pw done) c d rd p hdr REQ_HEADERS (Some REQ_HEADERS) (Some H_REQUEST_HEADER_DATA) t ->
  sg_fhlog g (up_tend (length done) r) (sg_pwires rs') hdr t p (skipn rd d ++ rw') ->
  (16 * (length d - rd) + 1 <= fuel)%nat -> up_pgoal c fuel rw'.
Proof.
  intros IH Eall R H Hlog Hf.
  destruct (sg_req_ok_parts g r (up_all_in rsd r _ Eall)) as (Wr & _ & Wl & Wb & Wnf & Wc & _).
  destruct (sg_pipe_hdrs cb g Hcb Hspace c d rd p hdr t rw' _ _ _ _ _ Wl Wb Wnf Wc H Hlog) as [(cF & p' & hdr' & t' & E & HF & Hl' & Hne)|(c5 & rd1 & fl & St & H5 & Hw & Hlt)].
  - apply (up_pgoal_exit c cF fuel rw' rsd (r :: rs') E ltac:(lia) Eall). apply (UPB_hdrs _ _ _ _ done r rs' p' hdr' t' eq_refl R HF Hl').
  - pose proof (ci_rd _ _ _ _ _ _ _ _ _ H5) as L1. pose proof (sg_cin_cons_nil _ _ _ _ _ _ _ _ H5) as Hc5.
    apply (up_pgoal_steps 3 c c5 fuel rw' St ltac:(lia)).
    destruct rs' as [|r' rs''].
    + cbn [sg_pwires map concat] in Hw. apply app_eq_nil in Hw. destruct Hw as [Hs Hrw].
      assert (Erd : rd1 = length d) by (pose proof (sg_skipn_nil _ _ Hs); lia). rewrite Erd in H5.
      apply (up_run_fin_last rsd r done c5 d fl rw' _ Eall R H5 Hrw). lia.
    + rewrite sg_pwires_cons, app_assoc in Hw.
      apply (up_run_fin_next rsd r r' rs'' done c5 d rd1 [] (sg_line0 r' ++ [CR; LF]) fl rw' _ IH Eall R H5 Hc5 eq_refl); [|exact Hw|reflexivity|lia].
      intro E. apply app_eq_nil in E. destruct E as [_ E]. discriminate.
Qed.

(* ---- a call that is in REQ_LINE of request r ---- *)
Lemma up_run_line rsd r rs' done c d rd p q (rw' : bytes) fuel :
  up_Pnext rs' -> all = rsd ++ r :: rs' -> up_rep g done rsd ->
  sg_cinw (sg_pw done) c d rd p None REQ_LINE (Some REQ_LINE) None (sg_t1 (length done)) ->
  p ++ q = sg_line0 r ++ [CR; LF] -> q <> [] -> skipn rd d ++ rw' = q ++ sg_bwt r rs' ->
  (16 * (length d - rd) + 1 <= fuel)%nat -> up_pgoal c fuel rw'.
Proof.
  intros IH Eall R H Hpq Hq Hw Hf.
  destruct (sg_req_ok_parts g r (up_all_in rsd r _ Eall)) as (Wr & _ & Wl & Wb & Wnf & Wc & Hl0 & Hfit).
  destruct (sg_pipe_line cb g Hcb Hspace c d rd p q rw' (sg_bwt r rs') _ _ _ Wl Hl0 H Hpq Hq Hw) as [(cF & q2 & E & HF & Hq2 & Hpq2 & Erw)|(c3 & rd2 & St & H3 & Hw3 & Hlt)].
  - apply (up_pgoal_exit c cF fuel rw' rsd (r :: rs') E ltac:(lia) Eall). apply (UPB_line _ _ _ _ done r rs' _ q2 eq_refl R HF Hpq2 Hq2 Erw).
  - pose proof (ci_rd _ _ _ _ _ _ _ _ _ H3) as L3.
    apply (up_pgoal_steps 2 c c3 fuel rw' St ltac:(lia)).
    apply (up_run_hdrs rsd r rs' done c3 d rd2 [] None _ rw' _ IH Eall R H3); [|lia].
    rewrite Hw3. apply sg_flat_start; assumption.
Qed.

(* ---- REQ_IDLE with the beginning of request r ---- *)
Lemma up_run_idle r rs' : up_Pnext rs' -> up_Pidle r rs'.
Proof.
  intros IH rsd done c d rd p q rw' fuel prev Eall R H Hlt Hpq Hq Hw Hf.
  destruct (sg_pass_idle cb g Hcb c d rd p done _ prev H Hlt (up_max_ok rsd r rs' done Eall R)) as (c1 & E1 & H1).
  rewrite sg_next_pflags in H1. fold (sg_pw done) in H1.
  apply (up_pgoal_steps 1 c c1 fuel rw' (sg_steps_inr cb g c c1 E1) ltac:(lia)).
  apply (up_run_line rsd r rs' done c1 d rd p q rw' _ IH Eall R H1 Hpq Hq Hw). lia.
Qed.
Lemma up_Pidle_all : forall rs' r, up_Pidle r rs'.
Proof. induction rs' as [|r' rs'' IH]; intros r; apply up_run_idle; [exact I|apply IH]. Qed.
Lemma up_Pnext_all rs' : up_Pnext rs'.
Proof. destruct rs' as [|r' rs'']; [exact I|apply up_Pidle_all]. Qed.

(* ---- entering htp_connp_req_data between two requests ---- *)
Lemma up_enter_idle c done fl (x : bytes) : sg_imid c done fl -> x <> [] ->
  exists c1, connp_req_data cb g (Some x) (length x) c = rq_loop cb g (rq_fuel (length x)) false c1 /\
             sg_idl c1 x 0 [] done fl (c_in_state_previous c).
Proof.
  intros [A1 A2 A3 A4 A5 A6 A7 A8 A9 A10] Hne. unfold connp_req_data.
  rewrite (sg_live_stop _ A1), (sg_live_error _ A1), A6, A2. cbn [req_state_eqb negb].
  assert (L0 : (length x =? 0)%nat = false) by (destruct x; [contradiction|reflexivity]). rewrite L0. cbn [andb].
  match goal with |- context [(c_in_status ?y =? c_HTP_STREAM_TUNNEL)%Z] => change (c_in_status y) with (c_in_status c) end.
  rewrite (sg_live_tunnel _ A1).
  eexists. split; [reflexivity|].
  match goal with |- sg_idl (if ?b then _ else _) _ _ _ _ _ _ => destruct b end.
  all: constructor; try assumption; try reflexivity; cbn; try lia.
  all: rewrite app_nil_r; exact A3.
Qed.

(* ---- one call of htp_connp_req_data ---- *)
Lemma up_pstep rsd rs c (rw x rw' : bytes) : all = rsd ++ rs -> up_pbetween rsd rs c rw -> x <> [] -> rw = x ++ rw' ->
  exists c' rc, connp_req_data cb g (Some x) (length x) c = (c', rc) /\ exists rsd' rs', all = rsd' ++ rs' /\ up_pbetween rsd' rs' c' rw'.
Proof.
  intros Eall B Hne Ex. destruct (sg_fuel_8 x) as (f & Ef).
  assert (Lx : (0 < length x)%nat) by (destruct x; [contradiction|cbn; lia]).
  assert (Fu : (16 * (length x - 0) + 9 <= rq_fuel (length x))%nat) by (unfold rq_fuel; lia).
  destruct B as [done Hm R Erw|done r rs' p q Ers R Hm Hpq Hq Erw|done r rs' p hdr t Ers R Hm Hl|done r r' rs'' p q fl Ers R Hm Hpq Hq Erw].
  - destruct (up_enter_idle c done _ x Hm Hne) as (c1 & E1 & H1). unfold bytes in *. rewrite E1.
    destruct rs as [|r rs'].
    + exfalso. cbn [sg_pwires map concat] in Erw. rewrite Erw in Ex. destruct x; [contradiction|discriminate].
    + rewrite sg_pwires_cons, app_assoc in Erw.
      apply (up_Pidle_all rs' r rsd done c1 x 0 [] (sg_line0 r ++ [CR; LF]) rw' _ _ Eall R H1 Lx eq_refl).
      * intro E. apply app_eq_nil in E. destruct E as [_ E]. discriminate.
      * cbn [skipn]. rewrite <- Ex. exact Erw.
      * lia.
  - subst rs. destruct (sg_enter cb g c p None _ _ _ x Hm Hne) as (c1 & E1 & H1). unfold bytes in *. rewrite E1.
    apply (up_run_line rsd r rs' done c1 x 0 p q rw' _ (up_Pnext_all rs') Eall R H1 Hpq Hq); [cbn [skipn]; rewrite <- Ex; exact Erw|lia].
  - subst rs. destruct (sg_enter cb g c p hdr _ _ t x Hm Hne) as (c1 & E1 & H1). unfold bytes in *. rewrite E1.
    apply (up_run_hdrs rsd r rs' done c1 x 0 p hdr t rw' _ (up_Pnext_all rs') Eall R H1); [cbn [skipn]; rewrite <- Ex; exact Hl|lia].
  - subst rs. destruct (sg_enter cb g c p None _ _ _ x Hm Hne) as (c1 & E1 & H1). unfold bytes in *. rewrite E1.
    assert (Hc1 : k_consume (c_in c1) = 0%nat) by (pose proof (ci_cons _ _ _ _ _ _ _ _ _ H1); lia).
    apply (up_run_fin_next rsd r r' rs'' done c1 x 0 p q fl rw' _ (up_Pidle_all rs'' r') Eall R H1 Hc1 Hpq Hq); [cbn [skipn]; rewrite <- Ex; exact Erw| |lia].
    cbn [skipn]. intros E. contradiction.
Qed.

(* ---- finish_call between two calls ---- *)
Lemma up_forget_fields c :
  k_buf (c_in (forget_chunks c <| c_events := [] |>)) = k_buf (c_in c) /\ k_header (c_in (forget_chunks c <| c_events := [] |>)) = k_header (c_in c) /\
  k_receiver_hook (c_in (forget_chunks c <| c_events := [] |>)) = k_receiver_hook (c_in c).
Proof. cbn [forget_chunks c_in set]. cbn. unfold forget_one. destruct (k_data (c_in c)); repeat split. Qed.
Lemma up_midw_finish w c p hdr st rh t : sg_midw w c p hdr st rh t -> sg_midw w (forget_chunks c <| c_events := [] |>) p hdr st rh t.
Proof.
  intros [A1 A2 A3 A4 A5 A6 A7 A8 A9 A10 A11]. destruct (up_forget_fields c) as (F1 & F2 & F3).
  constructor; rewrite ?F1, ?F2, ?F3; assumption.
Qed.
Lemma up_imid_finish c done fl : sg_imid c done fl -> sg_imid (forget_chunks c <| c_events := [] |>) done fl.
Proof.
  intros [A1 A2 A3 A4 A5 A6 A7 A8 A9 A10]. destruct (up_forget_fields c) as (F1 & F2 & F3).
  constructor; rewrite ?F1, ?F2, ?F3; assumption.
Qed.
Lemma up_pbetween_finish rsd rs c rw : up_pbetween rsd rs c rw -> up_pbetween rsd rs (forget_chunks c <| c_events := [] |>) rw.
Proof.
  intros [done Hm R Erw|done r rs' p q Ers R Hm Hpq Hq Erw|done r rs' p hdr t Ers R Hm Hl|done r r' rs'' p q fl Ers R Hm Hpq Hq Erw].
  - apply (UPB_idle _ _ _ _ done (up_imid_finish _ _ _ Hm) R Erw).
  - apply (UPB_line _ _ _ _ done r rs' p q Ers R (up_midw_finish _ _ _ _ _ _ _ Hm) Hpq Hq Erw).
  - apply (UPB_hdrs _ _ _ _ done r rs' p hdr t Ers R (up_midw_finish _ _ _ _ _ _ _ Hm) Hl).
  - apply (UPB_fin _ _ _ _ done r r' rs'' p q fl Ers R (up_midw_finish _ _ _ _ _ _ _ Hm) Hpq Hq Erw).
Qed.

(* when no wire is left, every request is complete *)
Lemma up_pbetween_end rsd rs c : all = rsd ++ rs -> up_pbetween rsd rs c [] ->
  up_rep g (c_txs c) all /\ c_conn_flags c = sg_pflags (length all).
Proof.
  intros Eall [done Hm R Erw|done r rs' p q Ers R Hm Hpq Hq Erw|done r rs' p hdr t Ers R Hm Hl|done r r' rs'' p q fl Ers R Hm Hpq Hq Erw].
  - destruct rs as [|r rs']; [|rewrite sg_pwires_cons in Erw; symmetry in Erw; apply app_eq_nil in Erw; destruct Erw as [_ E]; discriminate].
    rewrite app_nil_r in Eall. subst rsd. rewrite (im_txs _ _ _ Hm), (im_flags _ _ _ Hm). split; [exact R|].
    rewrite (up_rep_len _ _ _ R). reflexivity.
  - exfalso. destruct q; [contradiction|discriminate].
  - exfalso. destruct Hl as (pend & tl & rem & q & _ & _ & _ & _ & _ & Hq & E & _). destruct q; [contradiction|discriminate].
  - exfalso. destruct q; [contradiction|discriminate].
Qed.

(* ---- every chunk ---- *)
Lemma up_pchunks : forall (chunks : list bytes) c rsd rs rw, all = rsd ++ rs -> up_pbetween rsd rs c rw ->
  Forall (fun x => x <> []) chunks -> concat chunks = rw ->
  up_rep g (c_txs (fst (cp_run cb g c (map OpReqData chunks)))) all /\
  c_conn_flags (fst (cp_run cb g c (map OpReqData chunks))) = sg_pflags (length all).
Proof.
  induction chunks as [|x rest IH]; intros c rsd rs rw Eall B Hall Hc.
  - cbn [concat] in Hc. subst rw. cbn [map cp_run fst]. apply (up_pbetween_end rsd rs c Eall B).
  - cbn [concat] in Hc. cbn [map]. rewrite sg_cp_run_cons.
    destruct (up_pstep rsd rs c rw x (concat rest) Eall B (Forall_inv Hall) (eq_sym Hc)) as (c' & rc & E & rsd' & rs' & Eall' & B').
    unfold bytes in *. rewrite E. cbn [fst].
    apply (IH _ rsd' rs' (concat rest) Eall' (up_pbetween_finish _ _ _ _ B') (Forall_inv_tail Hall) eq_refl).
Qed.
End UPipeRun.
