(* C12 -- the dot-segment normaliser computes the RFC 3986 5.2.4 relation (with the pinned deviation). *)
Require Import Htp.Model.Base Htp.Model.MPath Htp.Spec.SPath Htp.Proof.PPathDot.
Local Open Scope N_scope.

Definition inbuf (c : option N) (rest : bytes) : bytes := match c with None => rest | Some ch => ch :: rest end.

(* what remains to be shown of a loop state: the RFC relation from the input buffer (pending character + unread
   suffix) and the output so far; a pending character with nothing left to read is dropped by the loop exit *)
Definition target (c : option N) (rest o res : bytes) : Prop :=
  match c, rest with
  | Some _, [] => res = rev o
  | _, _ => rds (inbuf c rest) (rev o) res
  end.

Lemma drop_seg_pop o : rev (dot_drop_seg o) = dot_pop_seg (rev o).
Proof.
  unfold dot_pop_seg. rewrite rev_involutive. f_equal.
  induction o as [|x o IH]; cbn; [reflexivity|].
  destruct (x =? SL); cbn; [reflexivity|exact IH].
Qed.

Lemma copy_first_seg rest o : dot_copy_seg rest o = (snd (dot_first_seg rest), rev (fst (dot_first_seg rest)) ++ o).
Proof.
  revert o; induction rest as [|x r IH]; intros o; cbn; [reflexivity|].
  destruct (x =? SL); [reflexivity|].
  rewrite IH. destruct (dot_first_seg r) as [a b]. cbn. rewrite <- app_assoc. reflexivity.
Qed.

(* rule E, given that none of A-D applies *)
Lemma stepE_target ch rest0 o res :
  ~ (exists r', ch :: rest0 = DOT :: DOT :: SL :: r') -> ~ (exists r', ch :: rest0 = DOT :: SL :: r') ->
  ~ (exists r', ch :: rest0 = SL :: DOT :: SL :: r') -> ch :: rest0 <> [SL; DOT] ->
  ~ (exists r', ch :: rest0 = SL :: DOT :: DOT :: SL :: r') -> ch :: rest0 <> [SL; DOT; DOT] ->
  ch :: rest0 <> [DOT] -> ch :: rest0 <> [DOT; DOT] ->
  match dot_stepE ch rest0 o with
  | Dot_exit => res = rev o -> rds (ch :: rest0) (rev o) res
  | Dot_cont c' r' o' => target c' r' o' res -> rds (ch :: rest0) (rev o) res
  end.
Proof.
  intros N1 N2 N3 N4 N5 N6 N7 N8. unfold dot_stepE. rewrite copy_first_seg.
  destruct (dot_first_seg rest0) as [a b] eqn:Ef. cbn [fst snd].
  unfold target, inbuf. intros H.
  eapply R_E; eauto.
  replace (rev o ++ ch :: a) with (rev (rev a ++ ch :: o)); [destruct b; exact H|].
  rewrite rev_app_distr. cbn [rev]. rewrite rev_involutive, <- app_assoc. reflexivity.
Qed.

Ltac noteq := intros Hq; match type of Hq with ex _ => destruct Hq as [? Hq] | _ => idtac end; inversion Hq; subst; cbn in *;
              first [discriminate | congruence | (unfold pth_DOT, pth_SL in *; first [discriminate | congruence])].

Lemma iter_target c rest o res :
  match dot_iter c rest o with
  | Dot_exit => res = rev o -> target c rest o res
  | Dot_cont c' r' o' => target c' r' o' res -> target c rest o res
  end.
Proof.
  unfold dot_iter. destruct rest as [|x r].
  { intros ->. destruct c; cbn; [reflexivity|constructor]. }
  unfold bytes in *.
  assert (Hf : exists ch rest0, (match c with None => (x, r) | Some c => (c, x :: r) end) = (ch, rest0) /\
                                 target c (x :: r) o res = rds (ch :: rest0) (rev o) res).
  { destruct c as [c|]; [exists c, (x :: r)|exists x, r]; split; reflexivity. }
  destruct Hf as (ch & rest0 & -> & ->).
  pose proof (dot_view_spec rest0) as Hv.
  destruct (ch =? DOT) eqn:Ed.
  - apply N.eqb_eq in Ed; subst ch.
    destruct (dot_view rest0) eqn:Ev; try subst rest0.
    + intros ->. constructor.
    + unfold target, inbuf. intros H. apply R_A2. exact H.
    + intros ->. constructor.
    + unfold target, inbuf. intros H. apply R_A1. exact H.
    + apply stepE_target; noteq.
    + apply stepE_target; noteq.
    + apply stepE_target; noteq.
  - destruct (ch =? SL) eqn:Es.
    + apply N.eqb_eq in Es; subst ch.
      destruct (dot_view rest0) eqn:Ev; try subst rest0.
      * apply stepE_target; noteq.
      * apply stepE_target; noteq.
      * unfold target, inbuf. intros ->. apply R_B2.
      * unfold target, inbuf. destruct r0 as [|y r0]; [intros ->; apply R_B1e|].
        intros H. apply R_B1; [discriminate|exact H].
      * unfold target, inbuf. intros ->. rewrite drop_seg_pop. apply R_C2.
      * unfold target, inbuf. destruct r0 as [|y r0]; [intros ->; rewrite drop_seg_pop; apply R_C1e|].
        intros H. rewrite drop_seg_pop in H. apply R_C1; [discriminate|exact H].
      * apply stepE_target; noteq.
    + apply stepE_target; noteq.
Qed.

Lemma run_target fuel : forall c rest o out, dot_run fuel c rest o = Some out -> target c rest o (rev out).
Proof.
  induction fuel as [|f IH]; cbn; intros c rest o out H; [discriminate|].
  pose proof (iter_target c rest o (rev out)) as Hs. destruct (dot_iter c rest o) as [|c' r' o'].
  - inversion H; subst. apply Hs. reflexivity.
  - apply Hs. apply IH. exact H.
Qed.

Theorem dot_normalize_rfc s : rds s [] (dot_normalize s).
Proof.
  destruct (dot_normalize_run s) as (o & Hr & ->).
  apply run_target in Hr. exact Hr.
Qed.
