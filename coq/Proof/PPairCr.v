(* C04, Stage C, request side: PSegPipe.v's Section PipeRun once more, now with the list `done` of the transactions that precede the
   one being parsed as an explicit parameter about which nothing is assumed but its length (under interleaving the response side
   rewrites those slots), and with the growth of the transaction list made explicit: a call appends the transactions of the
   requests it completes (each one a PSegRun.sg_tfin) and touches nothing else. *)
Require Import Htp.Model.Base Htp.Model.MBstr Htp.Model.MConnTypes Htp.Model.MTxCommon Htp.Model.MReqLine Htp.Model.MReqUri Htp.Model.MTxReq.
Require Import Htp.Model.MReq Htp.Model.MRes Htp.Model.MConnp.
Require Import Htp.Spec.SWire Htp.Proof.PWire Htp.Proof.PWireHdr Htp.Proof.PWireBlock Htp.Proof.PWireConn Htp.Proof.PWireExch.
Require Import Htp.Proof.PWireRun Htp.Proof.PWirePres Htp.Proof.PWireGlue Htp.Proof.PSeg Htp.Proof.PSegLine Htp.Proof.PSegHdr Htp.Proof.PSegGen Htp.Proof.PSegRun.
Require Import Htp.Proof.PSegFold Htp.Proof.PSegPipe Htp.Proof.PSegResReq Htp.Proof.PPairReq.

Section PipeRunV.
Variable cb : cb_oracle.
Variable g : cfg.
Hypothesis Hcb : wr_all_ok cb.
Hypothesis Hspace : g_allow_space_uri g = false.
Variable all : list wr_request.
Hypothesis Hok : Forall (fun r => sg_req_ok g r = true) all.
Hypothesis Hmax : (g_max_tx g = 0 \/ length all < g_max_tx g)%nat.

(* the states between two calls: done = the transaction list without the transaction being parsed, rsd = the requests that are
   complete (as many as there are slots in done), rs = the others (the first one may be in progress) *)
Inductive pv_between (done : list (option tx)) (rsd rs : list wr_request) (c : connp) (rw : bytes) : Prop :=
| VB_idle : sg_imid c done (sg_pflags (length done)) -> length done = length rsd -> rw = sg_pwires rs -> pv_between done rsd rs c rw
| VB_line r rs' p q : rs = r :: rs' -> length done = length rsd ->
    sg_midw (sg_pw done) c p None REQ_LINE None (sg_t1 (length done)) -> p ++ q = sg_line0 r ++ [CR; LF] -> q <> [] -> rw = q ++ sg_bwt r rs' ->
    pv_between done rsd rs c rw
| VB_hdrs r rs' p hdr t : rs = r :: rs' -> length done = length rsd ->
    sg_midw (sg_pw done) c p hdr REQ_HEADERS (Some H_REQUEST_HEADER_DATA) t -> sg_fhlog g (sg_tend g (length done) r) (sg_pwires rs') hdr t p rw ->
    pv_between done rsd rs c rw
| VB_fin r r' rs'' p q fl : rs = r :: r' :: rs'' -> length done = length rsd ->
    sg_midw (sg_pw done) c p None REQ_FINALIZE None (sg_tpre_r g (length done) r fl) -> p ++ q = sg_line0 r' ++ [CR; LF] -> q <> [] -> p <> [] -> rw = q ++ sg_bwt r' rs'' ->
    pv_between done rsd rs c rw.

(* the transactions a call appends: those of the requests it completes *)
Definition pv_fins (fins : list tx) (newr : list wr_request) : Prop := Forall2 (fun t r => exists k fl, t = sg_tfin_r g k r fl) fins newr.
Definition pv_goal (done : list (option tx)) (rsd : list wr_request) (c : connp) (fuel : nat) (rw' : bytes) : Prop :=
  exists cF rc, rq_loop cb g fuel false c = (cF, rc) /\
    exists fins newr rs', pv_fins fins newr /\ all = (rsd ++ newr) ++ rs' /\ pv_between (done ++ map Some fins) (rsd ++ newr) rs' cF rw'.

Lemma pv_all_in rsd r rs' : all = rsd ++ r :: rs' -> sg_req_ok g r = true.
Proof. intros E. rewrite Forall_forall in Hok. apply Hok. rewrite E. apply in_or_app. right. left. reflexivity. Qed.
Lemma pv_all_in2 rsd r r' rs'' : all = rsd ++ r :: r' :: rs'' -> sg_req_ok g r' = true.
Proof. intros E. rewrite Forall_forall in Hok. apply Hok. rewrite E. apply in_or_app. right. right. left. reflexivity. Qed.
Lemma pv_max_ok rsd r rs' (done : list (option tx)) : all = rsd ++ r :: rs' -> length done = length rsd -> (g_max_tx g = 0 \/ length done <= g_max_tx g)%nat.
Proof. intros E L. destruct Hmax as [H|H]; [left; exact H|right]. rewrite E, app_length in H. cbn [length] in H. lia. Qed.
Lemma pv_len_snoc (done : list (option tx)) (rsd : list wr_request) x r : length done = length rsd -> length (done ++ [x]) = length (rsd ++ [r]).
Proof. intros L. rewrite !app_length. cbn [length]. lia. Qed.

(* the goal after one more request has been completed *)
Lemma pv_goal_snoc done rsd k r fl c fuel (rw' : bytes) :
  pv_goal (done ++ [Some (sg_tfin_r g k r fl)]) (rsd ++ [r]) c fuel rw' -> pv_goal done rsd c fuel rw'.
Proof.
  intros (cF & rc & E & fins & newr & rs' & F & Ea & B). exists cF, rc. split; [exact E|].
  exists (sg_tfin_r g k r fl :: fins), (r :: newr), rs'. split; [constructor; [exists k, fl; reflexivity|exact F]|].
  rewrite <- !app_assoc in Ea, B. cbn [app map] in *. split; [rewrite <- app_assoc; exact Ea|exact B].
Qed.
Lemma pv_goal_here done rsd rs' c cF rc fuel (rw' : bytes) : rq_loop cb g fuel false c = (cF, rc) -> all = rsd ++ rs' -> pv_between done rsd rs' cF rw' ->
  pv_goal done rsd c fuel rw'.
Proof.
  intros E Ea B. exists cF, rc. split; [exact E|]. exists [], [], rs'. split; [constructor|]. cbn [map]. rewrite !app_nil_r. split; assumption.
Qed.
Lemma pv_goal_steps n done rsd c c' fuel (rw' : bytes) : (forall f, rq_loop cb g (n + f) false c = rq_loop cb g f false c') -> (n <= fuel)%nat ->
  pv_goal done rsd c' (fuel - n) rw' -> pv_goal done rsd c fuel rw'.
Proof.
  intros St L (cF & rc & E & X). exists cF, rc. split; [|exact X]. replace fuel with (n + (fuel - n))%nat by lia. rewrite St. exact E.
Qed.
Lemma pv_goal_exit done rsd rs' c cF fuel (rw' : bytes) : rq_iter cb g false c = inl (cF, c_HTP_STREAM_DATA) -> (1 <= fuel)%nat ->
  all = rsd ++ rs' -> pv_between done rsd rs' cF rw' -> pv_goal done rsd c fuel rw'.
Proof.
  intros E L Ea B. destruct fuel as [|f]; [lia|]. apply (pv_goal_here done rsd rs' c cF c_HTP_STREAM_DATA _ rw' (sg_rq_loop_inl cb g _ _ _ E) Ea B).
Qed.

(* what REQ_IDLE with data has to establish when the request r comes next and rs'' follow *)
Definition pv_Pidle (r : wr_request) (rs'' : list wr_request) : Prop :=
  forall rsd done c d rd p q (rw' : bytes) fuel prev,
    all = rsd ++ r :: rs'' -> length done = length rsd -> sg_idl c d rd p done (sg_pflags (length done)) prev -> (rd < length d)%nat ->
    p ++ q = sg_line0 r ++ [CR; LF] -> q <> [] -> skipn rd d ++ rw' = q ++ sg_bwt r rs'' ->
    (16 * (length d - rd) + 8 <= fuel)%nat -> pv_goal done rsd c fuel rw'.
Definition pv_Pnext (rs' : list wr_request) : Prop := match rs' with [] => True | r' :: rs'' => pv_Pidle r' rs'' end.

(* the request r is complete, the chunk ends *)
Lemma pv_fin_end rsd r rs' done c d fl (rw' : bytes) fuel :
  all = rsd ++ r :: rs' -> length done = length rsd ->
  sg_cinw (sg_pw done) c d (length d) [] None REQ_FINALIZE (Some REQ_FINALIZE) None (sg_tpre_r g (length done) r fl) -> rw' = sg_pwires rs' ->
  (2 <= fuel)%nat -> pv_goal done rsd c fuel rw'.
Proof.
  intros Eall R H Erw Hf. destruct (sg_req_ok_parts g r (pv_all_in rsd r rs' Eall)) as (Wr & _ & Wl & Wb & Wnf & Wc & _).
  destruct (sg_tpre_facts g Hspace (length done) _ _ _ _ Wl Wb Wnf fl Wc) as (_ & TC & Pg & Rp & Z9).
  destruct (sg_pass_finalize cb g Hcb c d _ _ H TC Pg Rp Z9) as (c6 & E6 & H6).
  destruct fuel as [|[|f]]; [lia|lia|].
  apply (pv_goal_snoc done rsd (length done) r fl).
  assert (Eall' : all = (rsd ++ [r]) ++ rs') by (rewrite <- app_assoc; exact Eall).
  eapply (pv_goal_here _ _ rs' c _ c_HTP_STREAM_DATA _ rw'); [rewrite (sg_rq_loop_inr cb g _ _ _ E6), (sg_rq_loop_inl cb g _ _ _ (sg_pass_idle_end cb g c6 d _ _ _ _ H6)); reflexivity|exact Eall'|].
  apply VB_idle; [|apply pv_len_snoc; exact R|exact Erw].
  cbn [w_done w_flags sg_pw] in H6. rewrite app_length. cbn [length]. rewrite Nat.add_1_r. apply (pq_imid_of_idl _ d [] _ _ _ H6 eq_refl).
Qed.

(* ---- REQ_FINALIZE when another request follows ---- *)
Lemma pv_run_fin_next rsd r r' rs'' done c d rd1 p q fl (rw' : bytes) fuel :
  pv_Pidle r' rs'' ->
  all = rsd ++ r :: r' :: rs'' -> length done = length rsd ->
  sg_cinw (sg_pw done) c d rd1 p None REQ_FINALIZE (Some REQ_FINALIZE) None (sg_tpre_r g (length done) r fl) -> k_consume (c_in c) = rd1 ->
  p ++ q = sg_line0 r' ++ [CR; LF] -> q <> [] -> skipn rd1 d ++ rw' = q ++ sg_bwt r' rs'' -> (skipn rd1 d = [] -> p = []) ->
  (16 * (length d - rd1) + 9 <= fuel)%nat -> pv_goal done rsd c fuel rw'.
Proof.
  intros IH Eall R H Hc Hpq Hq Hw Hp0 Hf.
  destruct (sg_req_ok_parts g r (pv_all_in rsd r _ Eall)) as (Wr & _ & Wl & Wb & Wnf & Wc & _).
  destruct (sg_req_ok_parts g r' (pv_all_in2 rsd r r' rs'' Eall)) as (Wr' & Hk' & Wl' & _ & _ & _ & Hl0' & _).
  destruct (sg_tpre_facts g Hspace (length done) _ _ _ _ Wl Wb Wnf fl Wc) as (_ & TC & Pg & Rp & Z9).
  pose proof (ci_rd _ _ _ _ _ _ _ _ _ H) as Hrd.
  assert (Eall' : all = (rsd ++ [r]) ++ r' :: rs'') by (rewrite <- app_assoc; exact Eall).
  assert (Lf : length (done ++ [Some (sg_tfin_r g (length done) r fl)]) = S (length done)) by (rewrite app_length; cbn [length]; lia).
  destruct (wr_reqline_bytes _ _ _ Wl') as (Hnolf & _). fold (sg_line0 r') in Hnolf.
  assert (Eb : sg_line0 r' ++ [CR; LF] = (sg_line0 r' ++ [CR]) ++ [LF]) by (rewrite <- app_assoc; reflexivity).
  destruct (Nat.eq_dec rd1 (length d)) as [Erd|Nrd].
  - (* the chunk ends with the request *)
    assert (Eu : skipn rd1 d = []) by (apply skipn_all2; lia). rewrite Eu in Hw. rewrite Erd in H. rewrite (Hp0 Eu) in *. cbn [app] in Hw, Hpq.
    apply (pv_fin_end rsd r (r' :: rs'') done c d fl rw' fuel Eall R H); [|lia].
    rewrite Hw, sg_pwires_cons, Hpq, <- app_assoc. reflexivity.
  - assert (Hlt : (rd1 < length d)%nat) by lia.
    destruct (sg_app_cases (skipn rd1 d) rw' q _ Hw) as [Clt Cge].
    destruct (Nat.lt_ge_cases (length (skipn rd1 d)) (length q)) as [Llt|Lge].
    + (* no LF in the rest of the chunk *)
      destruct (Clt Llt) as (q2 & Eq & Hq2 & Erw).
      assert (Nu : sg_no_lf (skipn rd1 d) = true).
      { rewrite Eq, Eb, app_assoc in Hpq. destruct (sg_app_last _ _ _ _ Hpq Hq2) as (q3 & _ & E3). unfold sg_no_lf. rewrite <- E3, <- app_assoc, !forallb_app in Hnolf.
        apply andb_prop in Hnolf. destruct Hnolf as [_ Nb]. apply andb_prop in Nb. apply Nb. }
      assert (Lim : (length (p ++ skipn rd1 d) <= g_field_limit_hard g)%nat).
      { assert (L : length (p ++ q) = (length (sg_line0 r') + 2)%nat) by (rewrite Hpq, app_length; reflexivity). rewrite app_length in L. rewrite app_length. lia. }
      destruct (sg_fin_buffer cb g Hcb c d rd1 p _ H Hc Hlt Nu Lim) as (cF & EF & HF).
      apply (pv_goal_exit done rsd (r :: r' :: rs'') c cF fuel rw' EF ltac:(lia) Eall).
      apply (VB_fin _ _ _ _ _ r r' rs'' (p ++ skipn rd1 d) q2 fl eq_refl R HF); [rewrite <- app_assoc, <- Eq; exact Hpq|exact Hq2| |exact Erw].
      intro E. apply app_eq_nil in E. destruct E as [_ E]. apply (f_equal (@length N)) in E. rewrite skipn_length in E. cbn [length] in E. lia.
    + (* the LF of the next request line is in the chunk *)
      destruct (Cge Lge) as (d2 & Ed & Eaft).
      rewrite Eb in Hpq. destruct (sg_app_last _ _ _ _ Hpq Hq) as (q1 & Eq1 & Ep1).
      assert (Nq1 : sg_no_lf q1 = true) by (unfold sg_no_lf in *; rewrite <- Ep1, forallb_app in Hnolf; apply andb_prop in Hnolf; apply Hnolf).
      assert (Ed' : skipn rd1 d = q1 ++ LF :: d2) by (rewrite Ed, Eq1, <- app_assoc; reflexivity).
      destruct (sg_line0_shape r') as (rest' & Esh). rewrite <- Ep1 in Esh.
      assert (Wm' : wr_token (wq_method r') = true).
      { unfold wr_wf_request_line in Wl'. apply andb_prop in Wl'. destruct Wl' as [Wl' _]. apply andb_prop in Wl'. apply Wl'. }
      assert (Lim : (length (p ++ q1) <= g_field_limit_hard g)%nat) by (rewrite Ep1, app_length; cbn [length]; lia).
      destruct (sg_fin_probe cb g Hcb c d rd1 p _ q1 d2 _ rest' H Hc Ed' Nq1 Esh Wm' Hk' Lim TC Pg Rp Z9) as (c6 & E6 & H6).
      destruct fuel as [|f]; [lia|].
      cbn [w_done w_flags sg_pw] in H6. rewrite <- Lf in H6.
      apply (pv_goal_steps 1 done rsd c c6 (S f) rw' (sg_steps_inr cb g c c6 E6) ltac:(lia)).
      apply (pv_goal_snoc done rsd (length done) r fl).
      assert (Lq : (rd1 + length q1 < length d)%nat).
      { assert (L : length (skipn rd1 d) = length (q1 ++ LF :: d2)) by (rewrite Ed'; reflexivity). rewrite skipn_length, app_length in L. cbn [length] in L. lia. }
      apply (IH (rsd ++ [r]) _ c6 d (rd1 + length q1)%nat (p ++ q1) [LF] rw' _ (Some REQ_IDLE) Eall' (pv_len_snoc _ _ _ _ R) H6 Lq).
      * rewrite Ep1. symmetry. exact Eb.
      * discriminate.
      * rewrite <- sg_skipn_add, Ed', skipn_app, Nat.sub_diag, skipn_all. cbn [app skipn]. rewrite <- Eaft. reflexivity.
      * cbn [Nat.sub]. lia.
Qed.

(* ---- a call that is in REQ_HEADERS of request r ---- *)
Lemma pv_run_hdrs rsd r rs' done c d rd p hdr t (rw' : bytes) fuel :
  pv_Pnext rs' -> all = rsd ++ r :: rs' -> length done = length rsd ->
  sg_cinw (sg_pw done) c d rd p hdr REQ_HEADERS (Some REQ_HEADERS) (Some H_REQUEST_HEADER_DATA) t ->
  sg_fhlog g (sg_tend g (length done) r) (sg_pwires rs') hdr t p (skipn rd d ++ rw') ->
  (16 * (length d - rd) + 1 <= fuel)%nat -> pv_goal done rsd c fuel rw'.
Proof.
  intros IH Eall R H Hlog Hf.
  destruct (sg_req_ok_parts g r (pv_all_in rsd r _ Eall)) as (Wr & _ & Wl & Wb & Wnf & Wc & _).
  destruct (sg_pipe_hdrs cb g Hcb Hspace c d rd p hdr t rw' _ _ _ _ _ Wl Wb Wnf Wc H Hlog) as [(cF & p' & hdr' & t' & E & HF & Hl' & Hne)|(c5 & rd1 & fl & St & H5 & Hw & Hlt)].
  - apply (pv_goal_exit done rsd (r :: rs') c cF fuel rw' E ltac:(lia) Eall). apply (VB_hdrs _ _ _ _ _ r rs' p' hdr' t' eq_refl R HF Hl').
  - pose proof (ci_rd _ _ _ _ _ _ _ _ _ H5) as L1. pose proof (sg_cin_cons_nil _ _ _ _ _ _ _ _ H5) as Hc5.
    apply (pv_goal_steps 3 done rsd c c5 fuel rw' St ltac:(lia)).
    destruct rs' as [|r' rs''].
    + cbn [sg_pwires map concat] in Hw. apply app_eq_nil in Hw. destruct Hw as [Hs Hrw].
      assert (Erd : rd1 = length d) by (pose proof (sg_skipn_nil _ _ Hs); lia). rewrite Erd in H5.
      apply (pv_fin_end rsd r [] done c5 d fl rw' _ Eall R H5); [rewrite Hrw; reflexivity|lia].
    + rewrite sg_pwires_cons, app_assoc in Hw.
      apply (pv_run_fin_next rsd r r' rs'' done c5 d rd1 [] (sg_line0 r' ++ [CR; LF]) fl rw' _ IH Eall R H5 Hc5 eq_refl); [|exact Hw|reflexivity|lia].
      intro E. apply app_eq_nil in E. destruct E as [_ E]. discriminate.
Qed.

(* ---- a call that is in REQ_LINE of request r ---- *)
Lemma pv_run_line rsd r rs' done c d rd p q (rw' : bytes) fuel :
  pv_Pnext rs' -> all = rsd ++ r :: rs' -> length done = length rsd ->
  sg_cinw (sg_pw done) c d rd p None REQ_LINE (Some REQ_LINE) None (sg_t1 (length done)) ->
  p ++ q = sg_line0 r ++ [CR; LF] -> q <> [] -> skipn rd d ++ rw' = q ++ sg_bwt r rs' ->
  (16 * (length d - rd) + 1 <= fuel)%nat -> pv_goal done rsd c fuel rw'.
Proof.
  intros IH Eall R H Hpq Hq Hw Hf.
  destruct (sg_req_ok_parts g r (pv_all_in rsd r _ Eall)) as (Wr & _ & Wl & Wb & Wnf & Wc & Hl0 & Hfit).
  destruct (sg_pipe_line cb g Hcb Hspace c d rd p q rw' (sg_bwt r rs') _ _ _ Wl Hl0 H Hpq Hq Hw) as [(cF & q2 & E & HF & Hq2 & Hpq2 & Erw)|(c3 & rd2 & St & H3 & Hw3 & Hlt)].
  - apply (pv_goal_exit done rsd (r :: rs') c cF fuel rw' E ltac:(lia) Eall). apply (VB_line _ _ _ _ _ r rs' _ q2 eq_refl R HF Hpq2 Hq2 Erw).
  - pose proof (ci_rd _ _ _ _ _ _ _ _ _ H3) as L3.
    apply (pv_goal_steps 2 done rsd c c3 fuel rw' St ltac:(lia)).
    apply (pv_run_hdrs rsd r rs' done c3 d rd2 [] None _ rw' _ IH Eall R H3); [|lia].
    rewrite Hw3. apply sg_flat_start; assumption.
Qed.

(* ---- REQ_IDLE with the beginning of request r ---- *)
Lemma pv_run_idle r rs' : pv_Pnext rs' -> pv_Pidle r rs'.
Proof.
  intros IH rsd done c d rd p q rw' fuel prev Eall R H Hlt Hpq Hq Hw Hf.
  destruct (sg_pass_idle cb g Hcb c d rd p done _ prev H Hlt (pv_max_ok rsd r rs' done Eall R)) as (c1 & E1 & H1).
  rewrite sg_next_pflags in H1. fold (sg_pw done) in H1.
  apply (pv_goal_steps 1 done rsd c c1 fuel rw' (sg_steps_inr cb g c c1 E1) ltac:(lia)).
  apply (pv_run_line rsd r rs' done c1 d rd p q rw' _ IH Eall R H1 Hpq Hq Hw). lia.
Qed.
Lemma pv_Pidle_all : forall rs' r, pv_Pidle r rs'.
Proof. induction rs' as [|r' rs'' IH]; intros r; apply pv_run_idle; [exact I|apply IH]. Qed.
Lemma pv_Pnext_all rs' : pv_Pnext rs'.
Proof. destruct rs' as [|r' rs'']; [exact I|apply pv_Pidle_all]. Qed.

(* ---- one call of htp_connp_req_data ---- *)
Lemma pv_step done rsd rs c (rw x rw' : bytes) : all = rsd ++ rs -> pv_between done rsd rs c rw -> x <> [] -> rw = x ++ rw' ->
  exists c' rc, connp_req_data cb g (Some x) (length x) c = (c', rc) /\
    exists fins newr rs', pv_fins fins newr /\ all = (rsd ++ newr) ++ rs' /\ pv_between (done ++ map Some fins) (rsd ++ newr) rs' c' rw'.
Proof.
  intros Eall B Hne Ex.
  assert (Lx : (0 < length x)%nat) by (destruct x; [contradiction|cbn; lia]).
  assert (Fu : (16 * (length x - 0) + 9 <= rq_fuel (length x))%nat) by (unfold rq_fuel; lia).
  destruct B as [Hm R Erw|r rs' p q Ers R Hm Hpq Hq Erw|r rs' p hdr t Ers R Hm Hl|r r' rs'' p q fl Ers R Hm Hpq Hq Hp Erw].
  - destruct (pq_enter_idle cb g all Hmax c done _ x Hm Hne) as (c1 & E1 & H1). unfold bytes in *. rewrite E1.
    destruct rs as [|r rs'].
    + exfalso. cbn [sg_pwires map concat] in Erw. rewrite Erw in Ex. destruct x; [contradiction|discriminate].
    + rewrite sg_pwires_cons, app_assoc in Erw.
      apply (pv_Pidle_all rs' r rsd done c1 x 0 [] (sg_line0 r ++ [CR; LF]) rw' _ _ Eall R H1 Lx eq_refl).
      * intro E. apply app_eq_nil in E. destruct E as [_ E]. discriminate.
      * cbn [skipn]. rewrite <- Ex. exact Erw.
      * lia.
  - subst rs. destruct (sg_enter cb g c p None _ _ _ x Hm Hne) as (c1 & E1 & H1). unfold bytes in *. rewrite E1.
    apply (pv_run_line rsd r rs' done c1 x 0 p q rw' _ (pv_Pnext_all rs') Eall R H1 Hpq Hq); [cbn [skipn]; rewrite <- Ex; exact Erw|lia].
  - subst rs. destruct (sg_enter cb g c p hdr _ _ t x Hm Hne) as (c1 & E1 & H1). unfold bytes in *. rewrite E1.
    apply (pv_run_hdrs rsd r rs' done c1 x 0 p hdr t rw' _ (pv_Pnext_all rs') Eall R H1); [cbn [skipn]; rewrite <- Ex; exact Hl|lia].
  - subst rs. destruct (sg_enter cb g c p None _ _ _ x Hm Hne) as (c1 & E1 & H1). unfold bytes in *. rewrite E1.
    assert (Hc1 : k_consume (c_in c1) = 0%nat) by (pose proof (ci_cons _ _ _ _ _ _ _ _ _ H1); lia).
    apply (pv_run_fin_next rsd r r' rs'' done c1 x 0 p q fl rw' _ (pv_Pidle_all rs'' r') Eall R H1 Hc1 Hpq Hq); [cbn [skipn]; rewrite <- Ex; exact Erw| |lia].
    cbn [skipn]. intros E. contradiction.
Qed.

(* ---- finish_call between two calls ---- *)
Lemma pv_between_finish done rsd rs c rw : pv_between done rsd rs c rw -> pv_between done rsd rs (forget_chunks c <| c_events := [] |>) rw.
Proof.
  intros [Hm R Erw|r rs' p q Ers R Hm Hpq Hq Erw|r rs' p hdr t Ers R Hm Hl|r r' rs'' p q fl Ers R Hm Hpq Hq Hp Erw].
  - apply (VB_idle _ _ _ _ _ (pq_imid_finish _ _ _ Hm) R Erw).
  - apply (VB_line _ _ _ _ _ r rs' p q Ers R (pq_midw_finish _ _ _ _ _ _ _ Hm) Hpq Hq Erw).
  - apply (VB_hdrs _ _ _ _ _ r rs' p hdr t Ers R (pq_midw_finish _ _ _ _ _ _ _ Hm) Hl).
  - apply (VB_fin _ _ _ _ _ r r' rs'' p q fl Ers R (pq_midw_finish _ _ _ _ _ _ _ Hm) Hpq Hq Hp Erw).
Qed.
Lemma pv_between_live done rsd rs c rw : pv_between done rsd rs c rw -> sg_live (c_in_status c).
Proof.
  intros [Hm R Erw|r rs' p q Ers R Hm Hpq Hq Erw|r rs' p hdr t Ers R Hm Hl|r r' rs'' p q fl Ers R Hm Hpq Hq Hp Erw].
  - exact (im_status _ _ _ Hm).
  - exact (mi_status _ _ _ _ _ _ Hm).
  - exact (mi_status _ _ _ _ _ _ Hm).
  - exact (mi_status _ _ _ _ _ _ Hm).
Qed.
(* the transaction list in a between-calls state: done, followed by the transaction in progress if there is one *)
Lemma pv_between_txs done rsd rs c rw : pv_between done rsd rs c rw ->
  (c_txs c = done /\ c_in_tx c = None) \/ (exists t, c_txs c = done ++ [Some t] /\ c_in_tx c = Some (length done)).
Proof.
  intros [Hm R Erw|r rs' p q Ers R Hm Hpq Hq Erw|r rs' p hdr t Ers R Hm Hl|r r' rs'' p q fl Ers R Hm Hpq Hq Hp Erw].
  - left. split; [exact (im_txs _ _ _ Hm)|exact (im_tx _ _ _ Hm)].
  - right. eexists. split; [exact (mi_txs _ _ _ _ _ _ Hm)|exact (mi_tx _ _ _ _ _ _ Hm)].
  - right. eexists. split; [exact (mi_txs _ _ _ _ _ _ Hm)|exact (mi_tx _ _ _ _ _ _ Hm)].
  - right. eexists. split; [exact (mi_txs _ _ _ _ _ _ Hm)|exact (mi_tx _ _ _ _ _ _ Hm)].
Qed.
End PipeRunV.
