(* C06, part E (request side): end-of-chunk-data line, the segments of a chunked body composed:
   chunked decode(encode) = id for every TCP chunking, with the exact accounting. *)
Require Import Htp.Model.MConnTypes Htp.Model.MBstr Htp.Model.MTxCommon Htp.Model.MReqLine Htp.Model.MTxReq Htp.Model.MReq.
Require Import Htp.Spec.SBody Htp.Proof.PBody Htp.Proof.PBodyReq Htp.Proof.PBodyReqRun Htp.Proof.PBodyReqLine.
Local Open Scope Z_scope.

Section Req.
Variable cb : cb_oracle.
Variable g : cfg.
Hypothesis cb_ok : forall n, cb H_REQUEST_BODY_DATA n = CB_OK.

Lemma bd_tx_msg_set t f :
  t_request_message_len (t <| t_request_message_len ::= f |>) = f (t_request_message_len t) /\
  t_request_entity_len (t <| t_request_message_len ::= f |>) = t_request_entity_len t /\
  t_hook_request_body (t <| t_request_message_len ::= f |>) = t_hook_request_body t.
Proof. repeat split. Qed.

(* ---- REQ_BODY_CHUNKED_DATA_END inside one TCP chunk ---- *)
Lemma bd_rq_data_end_loop i : forall pre c n tl t,
  bd_rq_inv i c -> tx_slot c i = Some t ->
  bd_rq_rest c = pre ++ tl -> bd_no_lf pre = true -> (length (bd_rq_rest c) <= n)%nat ->
  match tl with [] => True | b :: _ => b = LF end ->
  let k := (length pre + match tl with [] => 0 | _ => 1 end)%nat in
  exists c',
    REQ_BODY_CHUNKED_DATA_END_loop n c = (match tl with [] => ST_DATA | _ => ST_OK end, c') /\
    c_in_tx c' = Some i /\ c_in_status c' = c_in_status c /\ c_events c' = c_events c /\
    c_in_body_data_left c' = c_in_body_data_left c /\ c_in_chunked_length c' = c_in_chunked_length c /\
    c_in_state c' = match tl with [] => c_in_state c | _ => REQ_BODY_CHUNKED_LENGTH end /\
    k_data (c_in c') = k_data (c_in c) /\ k_len (c_in c') = k_len (c_in c) /\
    k_read (c_in c') = (k_read (c_in c) + k)%nat /\ k_consume (c_in c') = (k_consume (c_in c) + k)%nat /\
    k_buf (c_in c') = k_buf (c_in c) /\ k_header (c_in c') = k_header (c_in c) /\ k_receiver_hook (c_in c') = k_receiver_hook (c_in c) /\
    exists t', tx_slot c' i = Some t' /\ t_hook_request_body t' = t_hook_request_body t /\
               t_request_entity_len t' = t_request_entity_len t /\
               t_request_message_len t' = t_request_message_len t + Z.of_nat k.
Proof.
  induction pre as [|a pre IH]; intros c n tl t Inv Hl Hr Hnl Hn Htl k.
  - cbn [app] in Hr. destruct tl as [|b tl].
    + exists c. split.
      { destruct n; cbn [REQ_BODY_CHUNKED_DATA_END_loop]; unfold rq_next_byte; rewrite (bd_rest_nil c Hr (bq_data _ _ Inv)); reflexivity. }
      subst k. cbn [length]. rewrite !Nat.add_0_r. bd_splits; auto; try apply (bq_tx _ _ Inv).
      exists t. bd_splits; auto. cbn. lia.
    + subst b.
      assert (Hd' : exists d, k_data (c_in c) = Some d /\ k_len (c_in c) = length d) by (destruct (bq_data _ _ Inv) as (d & A & B & _); eauto).
      set (c1 := bd_rq_taken 1 (Some LF) c).
      assert (Hl1 : tx_slot c1 i = Some t) by (rewrite <- Hl; apply bd_slot_ext; reflexivity).
      assert (Hup : rq_tx_upd (fun t => t <| t_request_message_len ::= Z.add 1 |>) c1 = bd_set_tx i (t <| t_request_message_len ::= Z.add 1 |>) c1).
      { unfold rq_tx_upd. change (c_in_tx c1) with (c_in_tx c). rewrite (bq_tx _ _ Inv). apply bd_tx_upd_eq. exact Hl1. }
      eexists. split.
      { destruct n; cbn [REQ_BODY_CHUNKED_DATA_END_loop]; rewrite (bd_rq_next_byte c LF tl Hr Hd'); fold c1; rewrite Hup;
          unfold rq_next_is; cbn; reflexivity. }
      subst k. cbn [length Nat.add]. bd_splits; try reflexivity; try apply (bq_tx _ _ Inv).
      eexists. split; [apply (bd_slot_set _ _ _ _ Hl1)|]. destruct (bd_tx_msg_set t (Z.add 1)) as (Q1 & Q2 & Q3). rewrite Q1, Q2, Q3. bd_splits; auto. change (Z.of_nat 1) with 1. lia.
  - cbn [app] in Hr. cbn [bd_no_lf forallb] in Hnl. apply andb_true_iff in Hnl. destruct Hnl as (Ha & Hnl).
    assert (Hd' : exists d, k_data (c_in c) = Some d /\ k_len (c_in c) = length d) by (destruct (bq_data _ _ Inv) as (d & A & B & _); eauto).
    rewrite Hr in Hn. cbn [length] in Hn. destruct n as [|n]; [lia|].
    set (c1 := bd_rq_taken 1 (Some a) c).
    assert (Hl1 : tx_slot c1 i = Some t) by (rewrite <- Hl; apply bd_slot_ext; reflexivity).
    set (t1 := t <| t_request_message_len ::= Z.add 1 |>).
    assert (Hup : rq_tx_upd (fun t => t <| t_request_message_len ::= Z.add 1 |>) c1 = bd_set_tx i t1 c1).
    { unfold rq_tx_upd. change (c_in_tx c1) with (c_in_tx c). rewrite (bq_tx _ _ Inv). apply bd_tx_upd_eq. exact Hl1. }
    set (c2 := bd_set_tx i t1 c1).
    assert (Hl2 : tx_slot c2 i = Some t1) by (apply (bd_slot_set _ _ _ _ Hl1)).
    assert (Hr2 : bd_rq_rest c2 = pre ++ tl).
    { change (bd_rq_rest c2) with (bd_rq_rest c1). apply (bd_rq_rest_taken 1 _ c _ [a]); [exact Hr|reflexivity]. }
    assert (Inv2 : bd_rq_inv i c2).
    { destruct Inv as [A (t0 & B1 & B2) C D E (d & F1 & F2 & F3)]. rewrite Hl in B1. inversion B1; subst t0.
      constructor; try assumption.
      - exists t1. split; [exact Hl2|exact B2].
      - exists d. cbn. bd_splits; auto.
        unfold bd_rq_rest in Hr. rewrite F1 in Hr.
        assert (length (skipn (k_read (c_in c)) d) = length (a :: pre ++ tl)) by (rewrite Hr; reflexivity).
        rewrite skipn_length in H. cbn in H. lia. }
    destruct (IH c2 n tl t1 Inv2 Hl2 Hr2 Hnl) as (c' & Hloop & A1 & A2 & A3 & A4 & A5 & A6 & A7 & A8 & A9 & A10 & A11 & A12 & A13 & t' & T1 & T2 & T3 & T4);
      [rewrite Hr2; lia|exact Htl|].
    exists c'. split.
    { cbn [REQ_BODY_CHUNKED_DATA_END_loop]. rewrite (bd_rq_next_byte c a _ Hr Hd'). fold c1. rewrite Hup. fold c2.
      assert (Hna : rq_next_is c2 LF = false) by (unfold rq_next_is; cbn; apply negb_true_iff in Ha; exact Ha).
      rewrite Hna. exact Hloop. }
    subst k. cbn [length]. bd_splits; auto.
    + rewrite A9. cbn. lia.
    + rewrite A10. cbn. lia.
    + destruct (bd_tx_msg_set t (Z.add 1)) as (Q1 & Q2 & Q3). fold t1 in Q1, Q2, Q3.
      exists t'. bd_splits; try congruence. rewrite T4, Q1. lia.
Qed.
End Req.
