(* C06, part E (request side): end-of-chunk-data line, the segments of a chunked body composed:
   chunked decode(encode) = id for every TCP chunking, with the exact accounting. *)
Require Import Htp.Model.MConnTypes Htp.Model.MBstr Htp.Model.MTxCommon Htp.Model.MReqLine Htp.Model.MTxReq Htp.Model.MReq.
Require Import Htp.Spec.SBody Htp.Proof.PBody Htp.Proof.PBodyReq Htp.Proof.PBodyReqRun Htp.Proof.PBodyReqLine.
Local Open Scope Z_scope.

Section Req.
Variable cb : cb_oracle.
Variable g : cfg.
Hypothesis cb_ok : forall n, cb H_REQUEST_BODY_DATA n = CB_OK.

Lemma bd_tx_msg_set t f :
  t_request_message_len (t <| t_request_message_len ::= f |>) = f (t_request_message_len t) /\
  t_request_entity_len (t <| t_request_message_len ::= f |>) = t_request_entity_len t /\
  t_hook_request_body (t <| t_request_message_len ::= f |>) = t_hook_request_body t.
Proof. repeat split. Qed.

(* ---- REQ_BODY_CHUNKED_DATA_END inside one TCP chunk ---- *)
Lemma bd_rq_data_end_loop i : forall pre c n tl t,
  bd_rq_inv i c -> tx_slot c i = Some t ->
  bd_rq_rest c = pre ++ tl -> bd_no_lf pre = true -> (length (bd_rq_rest c) <= n)%nat ->
  match tl with [] => True | b :: _ => b = LF end ->
  let k := (length pre + match tl with [] => 0 | _ => 1 end)%nat in
  exists c',
    REQ_BODY_CHUNKED_DATA_END_loop n c = (match tl with [] => ST_DATA | _ => ST_OK end, c') /\
    c_in_tx c' = Some i /\ c_in_status c' = c_in_status c /\ c_events c' = c_events c /\
    c_in_body_data_left c' = c_in_body_data_left c /\ c_in_chunked_length c' = c_in_chunked_length c /\
    c_in_state c' = match tl with [] => c_in_state c | _ => REQ_BODY_CHUNKED_LENGTH end /\
    k_data (c_in c') = k_data (c_in c) /\ k_len (c_in c') = k_len (c_in c) /\
    k_read (c_in c') = (k_read (c_in c) + k)%nat /\ k_consume (c_in c') = (k_consume (c_in c) + k)%nat /\
    k_buf (c_in c') = k_buf (c_in c) /\ k_header (c_in c') = k_header (c_in c) /\ k_receiver_hook (c_in c') = k_receiver_hook (c_in c) /\
    exists t', tx_slot c' i = Some t' /\ t_hook_request_body t' = t_hook_request_body t /\
               t_request_entity_len t' = t_request_entity_len t /\
               t_request_message_len t' = t_request_message_len t + Z.of_nat k.
Proof.
  induction pre as [|a pre IH]; intros c n tl t Inv Hl Hr Hnl Hn Htl k.
  - cbn [app] in Hr. destruct tl as [|b tl].
    + exists c. split.
      { destruct n; cbn [REQ_BODY_CHUNKED_DATA_END_loop]; unfold rq_next_byte; rewrite (bd_rest_nil c Hr (bq_data _ _ Inv)); reflexivity. }
      subst k. cbn [length]. rewrite !Nat.add_0_r. bd_splits; auto; try apply (bq_tx _ _ Inv).
      exists t. bd_splits; auto. cbn. lia.
    + subst b.
      assert (Hd' : exists d, k_data (c_in c) = Some d /\ k_len (c_in c) = length d) by (destruct (bq_data _ _ Inv) as (d & A & B & _); eauto).
      set (c1 := bd_rq_taken 1 (Some LF) c).
      assert (Hl1 : tx_slot c1 i = Some t) by (rewrite <- Hl; apply bd_slot_ext; reflexivity).
      assert (Hup : rq_tx_upd (fun t => t <| t_request_message_len ::= Z.add 1 |>) c1 = bd_set_tx i (t <| t_request_message_len ::= Z.add 1 |>) c1).
      { unfold rq_tx_upd. change (c_in_tx c1) with (c_in_tx c). rewrite (bq_tx _ _ Inv). apply bd_tx_upd_eq. exact Hl1. }
      eexists. split.
      { destruct n; cbn [REQ_BODY_CHUNKED_DATA_END_loop]; rewrite (bd_rq_next_byte c LF tl Hr Hd'); fold c1; rewrite Hup;
          unfold rq_next_is; cbn; reflexivity. }
      subst k. cbn [length Nat.add]. bd_splits; try reflexivity; try apply (bq_tx _ _ Inv).
      eexists. split; [apply (bd_slot_set _ _ _ _ Hl1)|]. destruct (bd_tx_msg_set t (Z.add 1)) as (Q1 & Q2 & Q3). rewrite Q1, Q2, Q3. bd_splits; auto. change (Z.of_nat 1) with 1. lia.
  - cbn [app] in Hr. cbn [bd_no_lf forallb] in Hnl. apply andb_true_iff in Hnl. destruct Hnl as (Ha & Hnl).
    assert (Hd' : exists d, k_data (c_in c) = Some d /\ k_len (c_in c) = length d) by (destruct (bq_data _ _ Inv) as (d & A & B & _); eauto).
    rewrite Hr in Hn. cbn [length] in Hn. destruct n as [|n]; [lia|].
    set (c1 := bd_rq_taken 1 (Some a) c).
    assert (Hl1 : tx_slot c1 i = Some t) by (rewrite <- Hl; apply bd_slot_ext; reflexivity).
    set (t1 := t <| t_request_message_len ::= Z.add 1 |>).
    assert (Hup : rq_tx_upd (fun t => t <| t_request_message_len ::= Z.add 1 |>) c1 = bd_set_tx i t1 c1).
    { unfold rq_tx_upd. change (c_in_tx c1) with (c_in_tx c). rewrite (bq_tx _ _ Inv). apply bd_tx_upd_eq. exact Hl1. }
    set (c2 := bd_set_tx i t1 c1).
    assert (Hl2 : tx_slot c2 i = Some t1) by (apply (bd_slot_set _ _ _ _ Hl1)).
    assert (Hr2 : bd_rq_rest c2 = pre ++ tl).
    { change (bd_rq_rest c2) with (bd_rq_rest c1). apply (bd_rq_rest_taken 1 _ c _ [a]); [exact Hr|reflexivity]. }
    assert (Inv2 : bd_rq_inv i c2).
    { destruct Inv as [A (t0 & B1 & B2) C D E (d & F1 & F2 & F3)]. rewrite Hl in B1. inversion B1; subst t0.
      constructor; try assumption.
      - exists t1. split; [exact Hl2|exact B2].
      - exists d. cbn. bd_splits; auto.
        unfold bd_rq_rest in Hr. rewrite F1 in Hr.
        assert (length (skipn (k_read (c_in c)) d) = length (a :: pre ++ tl)) by (rewrite Hr; reflexivity).
        rewrite skipn_length in H. cbn in H. lia. }
    destruct (IH c2 n tl t1 Inv2 Hl2 Hr2 Hnl) as (c' & Hloop & A1 & A2 & A3 & A4 & A5 & A6 & A7 & A8 & A9 & A10 & A11 & A12 & A13 & t' & T1 & T2 & T3 & T4);
      [rewrite Hr2; lia|exact Htl|].
    exists c'. split.
    { cbn [REQ_BODY_CHUNKED_DATA_END_loop]. rewrite (bd_rq_next_byte c a _ Hr Hd'). fold c1. rewrite Hup. fold c2.
      assert (Hna : rq_next_is c2 LF = false) by (unfold rq_next_is; cbn; apply negb_true_iff in Ha; exact Ha).
      rewrite Hna. exact Hloop. }
    subst k. cbn [length]. bd_splits; auto.
    + rewrite A9. cbn. lia.
    + rewrite A10. cbn. lia.
    + destruct (bd_tx_msg_set t (Z.add 1)) as (Q1 & Q2 & Q3). fold t1 in Q1, Q2, Q3.
      exists t'. bd_splits; try congruence. rewrite T4, Q1. lia.
Qed.

Lemma bd_inv_from_facts i c c' t' :
  bd_rq_inv i c -> c_in_tx c' = Some i -> c_in_status c' = c_in_status c ->
  k_data (c_in c') = k_data (c_in c) -> k_len (c_in c') = k_len (c_in c) ->
  (forall d, k_data (c_in c) = Some d -> (k_read (c_in c') <= length d)%nat) ->
  k_header (c_in c') = k_header (c_in c) -> k_receiver_hook (c_in c') = k_receiver_hook (c_in c) ->
  tx_slot c' i = Some t' -> t_hook_request_body t' = 0%nat -> bd_rq_inv i c'.
Proof.
  intros [A B C D E (d & F1 & F2 & F3)] H1 H2 H3 H4 H5 H6 H7 H8 H9. constructor; try congruence.
  - exists t'. auto.
  - exists d. bd_splits; try congruence. apply H5. exact F1.
Qed.
Lemma bd_rest_len c d : k_data (c_in c) = Some d -> (k_read (c_in c) <= length d)%nat ->
  length (bd_rq_rest c) = (length d - k_read (c_in c))%nat.
Proof. intros H _. unfold bd_rq_rest. rewrite H. apply skipn_length. Qed.
Lemma bd_rest_moved c c' k pre tl : k_data (c_in c') = k_data (c_in c) -> k_read (c_in c') = (k_read (c_in c) + k)%nat ->
  bd_rq_rest c = pre ++ tl -> length pre = k -> bd_rq_rest c' = tl.
Proof.
  intros H1 H2 H3 H4. unfold bd_rq_rest in *. rewrite H1, H2. destruct (k_data (c_in c)) as [d|].
  - rewrite <- bd_skipn_skipn, H3, skipn_app, <- H4, Nat.sub_diag, skipn_all. reflexivity.
  - destruct pre; [cbn in H3; subst; reflexivity|discriminate].
Qed.

(* ================= end of chunk data: REQ_BODY_CHUNKED_DATA_END fed any chunking of  e ++ LF :: rest ================= *)
Lemma bd_rq_data_end_seg i : forall rem c e rest,
  bd_rq_inv i c -> bd_rq_clean c -> c_in_state c = REQ_BODY_CHUNKED_DATA_END ->
  bd_rq_rest c ++ concat rem = e ++ LF :: rest -> bd_no_lf e = true ->
  Forall (fun d => d <> []) rem ->
  exists c' rem',
    bd_rq_seg cb g i c rem c' rem' [] (Z.of_nat (length e + 1)) /\
    c_in_state c' = REQ_BODY_CHUNKED_LENGTH /\ bd_rq_rest c' ++ concat rem' = rest /\
    c_in_body_data_left c' = c_in_body_data_left c /\ c_in_chunked_length c' = c_in_chunked_length c.
Proof.
  induction rem as [|d' rem IH]; intros c e rest Inv Cl Hs Hw Hnl Hrem.
  all: destruct (bq_live _ _ Inv) as (t & Hl & Hh).
  all: destruct (bq_data _ _ Inv) as (d & Hd & Hlen & Hrd).
  all: assert (Hfn : rq_state_fn cb g (c_in_state c) c = REQ_BODY_CHUNKED_DATA_END_fn c) by (rewrite Hs; reflexivity).
  all: assert (Hn : (length (bd_rq_rest c) <= k_len (c_in c) - k_read (c_in c))%nat) by (rewrite (bd_rest_len c d Hd Hrd), Hlen; lia).
  all: assert (Hfinish : forall tl rem1, bd_rq_rest c = e ++ LF :: tl -> Forall (fun d => d <> []) rem1 -> tl ++ concat rem1 = rest ->
         exists c' rem', bd_rq_seg cb g i c rem1 c' rem' [] (Z.of_nat (length e + 1)) /\
           c_in_state c' = REQ_BODY_CHUNKED_LENGTH /\ bd_rq_rest c' ++ concat rem' = rest /\
           c_in_body_data_left c' = c_in_body_data_left c /\ c_in_chunked_length c' = c_in_chunked_length c).
  1,3: intros tl rem1 Hr Hrem1 Hw1;
    destruct (bd_rq_data_end_loop i e c _ (LF :: tl) t Inv Hl Hr Hnl Hn eq_refl)
      as (c' & Hloop & A1 & A2 & A3 & A4 & A5 & A6 & A7 & A8 & A9 & A10 & A11 & A12 & A13 & t' & T1 & T2 & T3 & T4);
    assert (Inv' : bd_rq_inv i c') by
      (apply (bd_inv_from_facts i c c' t' Inv A1 A2 A7 A8); auto; [|congruence];
       intros d0 Hd0; rewrite Hd in Hd0; inversion Hd0; subst d0; rewrite A9;
       pose proof (bd_rest_len c d Hd Hrd) as HL; rewrite Hr, app_length in HL; cbn [length] in HL; lia);
    destruct (bd_hsc_misc c') as (M1 & M2 & M3);
    exists (bd_hsc c'), rem1; bd_splits;
    [ constructor;
      [ eapply bd_rr_iter; [|apply bd_rr_refl]; apply bd_rq_iter_ok; [rewrite Hfn; exact Hloop|rewrite A2; apply (bq_status _ _ Inv)|rewrite A6; reflexivity]
      | eapply bd_eqv_inv; [apply bd_eqv_hsc|exact Inv']
      | eapply bd_eqv_clean; [apply bd_eqv_hsc|]; destruct Cl as (Cl1 & Cl2); split; [rewrite A9, A10; lia|rewrite A11; exact Cl2]
      | exact Hrem1
      | exists []; rewrite (bd_eqv_events _ _ (bd_eqv_hsc c')), A3; bd_splits; reflexivity
      | intros t0 Ht0; rewrite Hl in Ht0; inversion Ht0; subst t0; exists t'; rewrite (bd_eqv_slot _ _ i (bd_eqv_hsc c'));
        bd_splits; [exact T1|rewrite T3; cbn; lia|rewrite T4; reflexivity] ]
    | rewrite M1; exact A6
    | rewrite (bd_eqv_rest _ _ (bd_eqv_hsc c')), (bd_rest_moved c c' _ (e ++ [LF]) tl A7 A9); [exact Hw1| |rewrite app_length; reflexivity];
      rewrite Hr, <- app_assoc; reflexivity
    | rewrite M2; exact A4
    | rewrite M3; exact A5 ].
  - cbn [concat] in Hw. rewrite app_nil_r in Hw. apply (Hfinish rest []); auto. apply app_nil_r.
  - destruct (Nat.lt_ge_cases (length e) (length (bd_rq_rest c))) as [Hlt|Hge].
    + assert (exists tl, bd_rq_rest c = e ++ LF :: tl /\ tl ++ concat (d' :: rem) = rest) as (tl & E1 & E2).
      { destruct (bd_app_prefix e (bd_rq_rest c) (LF :: rest) (concat (d' :: rem))) as (x & X1 & X2); [symmetry; exact Hw|lia|].
        destruct x as [|x0 x]; [rewrite app_nil_r in X1; rewrite X1 in Hlt; lia|].
        cbn in X2. inversion X2; subst x0. exists x. split; [exact X1|reflexivity]. }
      apply (Hfinish tl (d' :: rem)); auto.
    + destruct (bd_app_prefix (bd_rq_rest c) e (concat (d' :: rem)) (LF :: rest) Hw Hge) as (e' & Hb & Hw').
      pose proof (Forall_inv Hrem) as Hd'. pose proof (Forall_inv_tail Hrem) as Hrem'. cbn beta in Hd'.
      assert (Hnl2 : bd_no_lf (bd_rq_rest c) = true /\ bd_no_lf e' = true).
      { rewrite Hb, bd_no_lf_app in Hnl. apply andb_true_iff in Hnl. exact Hnl. }
      destruct Hnl2 as (Hnl1 & Hnl2).
      assert (Hr0 : bd_rq_rest c = bd_rq_rest c ++ []) by (symmetry; apply app_nil_r).
      destruct (bd_rq_data_end_loop i (bd_rq_rest c) c _ [] t Inv Hl Hr0 Hnl1 Hn I)
        as (c1 & Hloop & A1 & A2 & A3 & A4 & A5 & A6 & A7 & A8 & A9 & A10 & A11 & A12 & A13 & t' & T1 & T2 & T3 & T4).
      rewrite Nat.add_0_r in *.
      assert (Inv1 : bd_rq_inv i c1).
      { apply (bd_inv_from_facts i c c1 t' Inv A1 A2 A7 A8); auto; [|congruence].
        intros d0 Hd0. rewrite Hd in Hd0. inversion Hd0; subst d0. rewrite A9. rewrite (bd_rest_len c d Hd Hrd). lia. }
      set (c3 := bd_req_begin d' (c1 <| c_in_status := c_HTP_STREAM_DATA |>)).
      destruct (bd_begin_misc d' (c1 <| c_in_status := c_HTP_STREAM_DATA |>)) as (Ev & St & L1 & L2 & Bf & Sl).
      destruct (IH c3 e' rest) as (c' & rem' & Seg & S' & W' & F' & O'); auto.
      { apply bd_inv_begin. apply bd_inv_status. exact Inv1. }
      { apply bd_begin_clean. cbn [c_in set]. rewrite A11. apply Cl. }
      { unfold c3. rewrite St. cbn. rewrite A6. exact Hs. }
      { unfold c3. rewrite bd_begin_rest. exact Hw'. }
      exists c', rem'. bd_splits; auto.
      * destruct Seg as [A B C D (evs & E1 & E2 & E3) H]. constructor; auto.
        { eapply bd_rr_next; [|exact A]. apply bd_rq_iter_data; [rewrite Hfn; exact Hloop|rewrite A13; apply (bq_rcv _ _ Inv)]. }
        { exists evs. split; [rewrite E1; unfold c3; rewrite Ev; cbn; rewrite A3; reflexivity|split; assumption]. }
        { intros t0 Ht0. rewrite Hl in Ht0. inversion Ht0; subst t0.
          assert (Hs3 : tx_slot c3 i = Some t') by (unfold c3; rewrite Sl; rewrite <- T1; apply bd_slot_ext; reflexivity).
          destruct (H _ Hs3) as (t'' & U1 & U2 & U3). exists t''. bd_splits; [exact U1|rewrite U2, T3; reflexivity|].
          rewrite U3, T4. assert (HL : length e = (length (bd_rq_rest c) + length e')%nat) by (rewrite Hb at 1; apply app_length).
          rewrite HL. lia. }
      * rewrite F'. unfold c3. rewrite L1. cbn. exact A4.
      * rewrite O'. unfold c3. rewrite L2. cbn. exact A5.
Qed.

(* ================= a chunk-size line with a positive value ================= *)
Lemma bd_rq_line_seg i rem c lrest rest :
  bd_rq_inv i c -> bd_rq_clean c -> c_in_state c = REQ_BODY_CHUNKED_LENGTH ->
  bd_rq_rest c ++ concat rem = lrest ++ LF :: rest -> bd_no_lf lrest = true ->
  (length lrest + 1 <= g_field_limit_hard g)%nat -> Forall (fun d => d <> []) rem ->
  0 < bd_rq_line_value (lrest ++ [LF]) ->
  exists c' rem',
    bd_rq_seg cb g i c rem c' rem' [] (Z.of_nat (length lrest + 1)) /\
    c_in_state c' = REQ_BODY_CHUNKED_DATA /\ c_in_chunked_length c' = bd_rq_line_value (lrest ++ [LF]) /\
    bd_rq_rest c' ++ concat rem' = rest /\ c_in_body_data_left c' = c_in_body_data_left c.
Proof.
  intros Inv (Cl1 & Cl2) Hs Hw Hnl Hhard Hrem Hv.
  destruct (bq_live _ _ Inv) as (t & Hl & Hh).
  assert (Hhard' : (length (bd_olist (k_buf (c_in c))) + length lrest + 1 <= g_field_limit_hard g)%nat) by (rewrite Cl2; cbn; lia).
  destruct (bd_rq_line_assembly cb g i rem c lrest rest t Inv Hs Cl1 Hw Hnl Hhard' Hrem Hl)
    as (c2 & rem2 & c' & R2 & Hfn & A1 & A2 & A3 & A4 & A5 & A6 & A7 & A8 & I2 & A9 & A10 & A11 & A12 & (d & D1 & D2 & D3) & t' & T1 & T2 & T3 & T4 & T5).
  rewrite Cl2 in *. cbn [bd_olist app] in *.
  set (v := bd_rq_line_value (lrest ++ [LF])) in *.
  assert (Erc : bd_rq_line_rc v = ST_OK) by (unfold bd_rq_line_rc; apply Z.ltb_lt in Hv; rewrite Hv; reflexivity).
  assert (Est : bd_rq_line_state v = REQ_BODY_CHUNKED_DATA) by (unfold bd_rq_line_state; apply Z.ltb_lt in Hv; rewrite Hv; reflexivity).
  rewrite Erc in Hfn. rewrite Est in A2.
  assert (Inv' : bd_rq_inv i c').
  { constructor; auto.
    - exists t'. split; [exact T1|congruence].
    - rewrite A8. apply (bq_status _ _ I2).
    - exists d. auto. }
  destruct (bd_hsc_misc c') as (M1 & M2 & M3).
  exists (bd_hsc c'), rem2. bd_splits.
  - constructor.
    + eapply bd_rq_reach_trans; [exact R2|]. eapply bd_rr_iter; [|apply bd_rr_refl].
      apply bd_rq_iter_ok; [exact Hfn|apply (bq_status _ _ Inv')|rewrite A2; reflexivity].
    + eapply bd_eqv_inv; [apply bd_eqv_hsc|exact Inv'].
    + eapply bd_eqv_clean; [apply bd_eqv_hsc|]. split; assumption.
    + exact A4.
    + exists []. rewrite (bd_eqv_events _ _ (bd_eqv_hsc c')), A5. bd_splits; reflexivity.
    + intros t0 Ht0. rewrite Hl in Ht0. inversion Ht0; subst t0. exists t'. rewrite (bd_eqv_slot _ _ i (bd_eqv_hsc c')).
      bd_splits; [exact T1|rewrite T3; cbn; lia|rewrite T4, app_length; reflexivity].
  - rewrite M1. exact A2.
  - rewrite M3. exact A1.
  - rewrite (bd_eqv_rest _ _ (bd_eqv_hsc c')). exact A3.
  - rewrite M2. exact A6.
Qed.

(* htp_req_handle_state_change after the last-chunk line (new state REQ_HEADERS): only the raw-data receiver is armed *)
Lemma bd_hsc_headers c i :
  k_receiver_hook (c_in c) = None -> c_in_tx c = Some i ->
  exists c'', req_handle_state_change cb c = (ST_OK, c'') /\ c_in_state c'' = c_in_state c /\ c_events c'' = c_events c /\
    (forall j, tx_slot c'' j = tx_slot c j) /\ bd_rq_rest c'' = bd_rq_rest c /\ c_in_tx c'' = c_in_tx c /\
    c_in_chunked_length c'' = c_in_chunked_length c.
Proof.
  intros Hr Hi. unfold req_handle_state_change.
  destruct (match c_in_state_previous c with Some s => req_state_eqb s (c_in_state c) | None => false end).
  { exists c. bd_splits; auto. }
  destruct (req_state_eqb (c_in_state c) REQ_HEADERS).
  2:{ eexists. split; [reflexivity|]. bd_splits; try reflexivity; try (intros j; apply bd_slot_ext; reflexivity). }
  rewrite Hi.
  assert (Hset : forall h, req_receiver_set cb h c = (ST_OK, rq_set_in (fun k => k <| k_receiver_hook := Some h |> <| k_receiver := k_read k |>) c)).
  { intros h. unfold req_receiver_set, req_receiver_finalize_clear. rewrite Hr. reflexivity. }
  destruct (t_request_progress (rq_tx c) =? c_HTP_REQUEST_HEADERS); [|destruct (t_request_progress (rq_tx c) =? c_HTP_REQUEST_TRAILER)];
    rewrite ?Hset; (eexists; split; [reflexivity|]; bd_splits; try reflexivity; try exact Hi; try (intros j; apply bd_slot_ext; reflexivity)).
Qed.

(* ================= the last-chunk line (value 0) ================= *)
Lemma bd_rq_last_line i rem c lrest rest t :
  bd_rq_inv i c -> bd_rq_clean c -> c_in_state c = REQ_BODY_CHUNKED_LENGTH ->
  bd_rq_rest c ++ concat rem = lrest ++ LF :: rest -> bd_no_lf lrest = true ->
  (length lrest + 1 <= g_field_limit_hard g)%nat -> Forall (fun d => d <> []) rem ->
  bd_rq_line_value (lrest ++ [LF]) = 0 -> tx_slot c i = Some t ->
  exists c' rem' t',
    bd_rq_reach cb g c rem c' rem' /\ c_in_state c' = REQ_HEADERS /\ c_in_chunked_length c' = 0 /\
    bd_rq_rest c' ++ concat rem' = rest /\ Forall (fun d => d <> []) rem' /\
    c_events c' = c_events c /\ c_in_tx c' = Some i /\
    tx_slot c' i = Some t' /\ t_request_progress t' = c_HTP_REQUEST_TRAILER /\
    t_request_entity_len t' = t_request_entity_len t /\
    t_request_message_len t' = t_request_message_len t + Z.of_nat (length lrest + 1).
Proof.
  intros Inv (Cl1 & Cl2) Hs Hw Hnl Hhard Hrem Hv Hl.
  assert (Hhard' : (length (bd_olist (k_buf (c_in c))) + length lrest + 1 <= g_field_limit_hard g)%nat) by (rewrite Cl2; cbn; lia).
  destruct (bd_rq_line_assembly cb g i rem c lrest rest t Inv Hs Cl1 Hw Hnl Hhard' Hrem Hl)
    as (c2 & rem2 & c' & R2 & Hfn & A1 & A2 & A3 & A4 & A5 & A6 & A7 & A8 & I2 & A9 & A10 & A11 & A12 & (d & D1 & D2 & D3) & t' & T1 & T2 & T3 & T4 & T5).
  rewrite Cl2 in *. cbn [bd_olist app] in *. rewrite Hv in *.
  change (bd_rq_line_rc 0) with ST_OK in Hfn. change (bd_rq_line_state 0) with REQ_HEADERS in A2.
  destruct (bd_hsc_headers c' i A12 A7) as (c'' & Hh & B1 & B2 & B3 & B4 & B5 & B6).
  exists c'', rem2, t'. bd_splits; auto.
  - eapply bd_rq_reach_trans; [exact R2|]. eapply bd_rr_iter; [|apply bd_rr_refl].
    unfold rq_iter. rewrite Hfn. rewrite A8, (bq_status _ _ I2), Hh. reflexivity.
  - rewrite B1. exact A2.
  - rewrite B6. exact A1.
  - rewrite B4. exact A3.
  - rewrite B2. exact A5.
  - rewrite B5. exact A7.
  - rewrite B3. exact T1.
  - rewrite T4, app_length. reflexivity.
Qed.

Lemma bd_no_lf_rev r : bd_no_lf (rev r) = bd_no_lf r.
Proof.
  unfold bd_no_lf. induction r as [|a r IH]; [reflexivity|]. cbn [rev]. rewrite forallb_app, IH. cbn. rewrite andb_true_r. apply andb_comm.
Qed.
Lemma bd_is_line_split l : bd_is_line l = true -> exists p, l = p ++ [LF] /\ bd_no_lf p = true.
Proof.
  unfold bd_is_line. destruct (rev l) as [|x r] eqn:E; [discriminate|]. intros H. apply andb_true_iff in H. destruct H as (H1 & H2).
  apply N.eqb_eq in H1. subst x. exists (rev r). split; [|rewrite bd_no_lf_rev; exact H2].
  rewrite <- (rev_involutive l), E. reflexivity.
Qed.

(* ================= (3) chunked decode(encode), request side ================= *)
Theorem bd_rq_chunked_body i : forall ks rem c last rest t,
  bd_rq_inv i c -> bd_rq_clean c -> c_in_state c = REQ_BODY_CHUNKED_LENGTH ->
  Forall (fun k => bd_chunk_ok bd_rq_line_value k = true) ks -> bd_last_ok bd_rq_line_value last = true ->
  bd_lines_fit (g_field_limit_hard g) ks last = true ->
  bd_rq_rest c ++ concat rem = bd_chunks_wire ks ++ last ++ rest ->
  Forall (fun d => d <> []) rem -> tx_slot c i = Some t ->
  exists c' rem' t' evs,
    bd_rq_reach cb g c rem c' rem' /\ c_in_state c' = REQ_HEADERS /\
    bd_rq_rest c' ++ concat rem' = rest /\ Forall (fun d => d <> []) rem' /\
    c_events c' = evs ++ c_events c /\ bd_delivered H_REQUEST_BODY_DATA evs = bd_chunks_data ks /\
    bd_evs H_REQUEST_BODY_DATA evs = evs /\
    tx_slot c' i = Some t' /\ t_request_progress t' = c_HTP_REQUEST_TRAILER /\
    t_request_entity_len t' = t_request_entity_len t + Z.of_nat (length (bd_chunks_data ks)) /\
    t_request_message_len t' = t_request_message_len t + Z.of_nat (length (bd_chunks_wire ks) + length last).
Proof.
  induction ks as [|k ks IH]; intros rem c last rest t Inv Cl Hs Hks Hlast Hfit Hw Hrem Hl.
  - (* only the last-chunk line *)
    unfold bd_last_ok in Hlast. apply andb_true_iff in Hlast. destruct Hlast as (L1 & L2). apply Z.eqb_eq in L2.
    destruct (bd_is_line_split last L1) as (p & Ep & Np). subst last.
    unfold bd_lines_fit in Hfit. cbn [forallb andb] in Hfit. apply Nat.leb_le in Hfit. rewrite app_length in Hfit. cbn [length] in Hfit.
    cbn [bd_chunks_wire map concat app] in Hw. rewrite <- app_assoc in Hw. cbn [app] in Hw.
    destruct (bd_rq_last_line i rem c p rest t Inv Cl Hs Hw Np Hfit Hrem L2 Hl)
      as (c' & rem' & t' & R & S & _ & W & F & E & _ & T1 & T2 & T3 & T4).
    exists c', rem', t', []. bd_splits; auto.
    + cbn. lia.
    + rewrite T4. cbn [bd_chunks_wire map concat length]. rewrite app_length. cbn [length]. lia.
  - pose proof (Forall_inv Hks) as Hk. pose proof (Forall_inv_tail Hks) as Hks'. cbn beta in Hk.
    unfold bd_chunk_ok in Hk. apply andb_true_iff in Hk. destruct Hk as (Hk & K4). apply andb_true_iff in Hk. destruct Hk as (Hk & K3).
    apply andb_true_iff in Hk. destruct Hk as (K1 & K2). apply Z.eqb_eq in K4. apply negb_true_iff in K3. apply Nat.eqb_neq in K3.
    destruct (bd_is_line_split _ K1) as (p & Ep & Np). destruct (bd_is_line_split _ K2) as (e & Ee & Ne).
    unfold bd_lines_fit in Hfit. cbn [forallb] in Hfit. apply andb_true_iff in Hfit. destruct Hfit as (Hfit & Hfl).
    apply andb_true_iff in Hfit. destruct Hfit as (Hf1 & Hf2). apply Nat.leb_le in Hf1.
    assert (Hfit' : bd_lines_fit (g_field_limit_hard g) ks last = true) by (unfold bd_lines_fit; rewrite Hf2, Hfl; reflexivity).
    assert (Hwire : bd_chunks_wire (k :: ks) ++ last ++ rest =
                    p ++ LF :: (bc_data k ++ (e ++ LF :: (bd_chunks_wire ks ++ last ++ rest)))).
    { unfold bd_chunks_wire. cbn [map concat]. unfold bd_chunk_wire. rewrite Ep, Ee. rewrite <- !app_assoc. cbn [app]. reflexivity. }
    rewrite Hwire in Hw. rewrite Ep, app_length in Hf1. cbn [length] in Hf1.
    assert (Hv : 0 < bd_rq_line_value (p ++ [LF])) by (rewrite <- Ep, K4; destruct (bc_data k); [exfalso; apply K3; reflexivity|cbn; lia]).
    (* the size line *)
    destruct (bd_rq_line_seg i rem c p _ Inv Cl Hs Hw Np Hf1 Hrem Hv) as (c1 & rem1 & Seg1 & S1 & V1 & W1 & B1).
    (* the data *)
    assert (Hdne : bc_data k <> []) by (intros E0; rewrite E0 in K3; apply K3; reflexivity).
    rewrite <- Ep, K4 in V1.
    destruct (bd_rq_chunkdata_seg cb g cb_ok i rem1 c1 (bc_data k) _ (sg_inv _ _ _ _ _ _ _ _ _ Seg1) (sg_clean _ _ _ _ _ _ _ _ _ Seg1) S1 V1 Hdne (sg_rem _ _ _ _ _ _ _ _ _ Seg1) W1)
      as (c2 & rem2 & Seg2 & S2 & V2 & W2 & B2).
    (* the line that ends the data *)
    destruct (bd_rq_data_end_seg i rem2 c2 e _ (sg_inv _ _ _ _ _ _ _ _ _ Seg2) (sg_clean _ _ _ _ _ _ _ _ _ Seg2) S2 W2 Ne (sg_rem _ _ _ _ _ _ _ _ _ Seg2))
      as (c3 & rem3 & Seg3 & S3 & W3 & B3 & V3).
    pose proof (bd_rq_seg_trans cb g i _ _ _ _ _ _ _ _ _ _ Inv Seg1 Seg2) as Seg12.
    pose proof (bd_rq_seg_trans cb g i _ _ _ _ _ _ _ _ _ _ Inv Seg12 Seg3) as Seg123.
    destruct Seg123 as [R123 I3 C3 F3 (evs3 & E31 & E32 & E33) L3].
    destruct (L3 _ Hl) as (t3 & T31 & T32 & T33).
    destruct (IH rem3 c3 last rest t3 I3 C3 S3 Hks' Hlast Hfit' W3 F3 T31)
      as (c' & rem' & t' & evs & R & S & W & F & E & Dl & Ev & T1 & T2 & T3 & T4).
    exists c', rem', t', (evs ++ evs3). bd_splits; auto.
    + eapply bd_rq_reach_trans; eauto.
    + rewrite E, E31. apply app_assoc.
    + rewrite bd_delivered_app, Dl, E32. unfold bd_chunks_data. cbn [map concat]. rewrite app_nil_r. reflexivity.
    + rewrite bd_evs_app, Ev, E33. reflexivity.
    + rewrite T3, T32. unfold bd_chunks_data. cbn [map concat]. rewrite !app_length. cbn [length]. rewrite Nat.add_0_r. lia.
    + rewrite T4, T33. unfold bd_chunks_wire. cbn [map concat]. unfold bd_chunk_wire. rewrite Ep, Ee, !app_length. cbn [length]. lia.
Qed.
End Req.
