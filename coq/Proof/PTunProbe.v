(* C16, request side after the answer to CONNECT: REQ_CONNECT_WAIT_RESPONSE sees a 2xx status and hands over to
   REQ_CONNECT_PROBE_DATA, which looks at the client's bytes up to the first LF or NUL (buffering them over as many calls as it
   takes: each of these calls returns HTP_STREAM_DATA) and, when they do not begin with a method htp_convert_method_to_number
   knows, puts BOTH directions into tunnel mode: the call returns HTP_STREAM_TUNNEL with the LF / NUL left unconsumed. *)
Require Import Htp.Model.Base Htp.Model.MBstr Htp.Model.MConnTypes Htp.Model.MTxCommon Htp.Model.MReqLine Htp.Model.MReqUri Htp.Model.MTxReq.
Require Import Htp.Model.MReq Htp.Model.MRes Htp.Model.MConnp.
Require Import Htp.Spec.SWire Htp.Proof.PWire Htp.Proof.PWireHdr Htp.Proof.PWireBlock Htp.Proof.PWireConn Htp.Proof.PWireExch.
Require Import Htp.Proof.PWireRun Htp.Proof.PWirePres Htp.Proof.PWireGlue Htp.Proof.PSeg Htp.Proof.PSegLine Htp.Proof.PSegHdr Htp.Proof.PSegGen Htp.Proof.PSegRun.
Require Import Htp.Proof.PSegFold Htp.Proof.PSegPipe Htp.Proof.PReq Htp.Proof.PConnp.
Require Import Htp.Proof.PTunBase Htp.Proof.PTunSeg Htp.Proof.PTunSegLine Htp.Proof.PTunSegHdr Htp.Proof.PTunSegFold Htp.Proof.PTunSegRun Htp.Proof.PTunSegPipe Htp.Proof.PTunSegMid Htp.Proof.PTunReq.

(* the bytes at which REQ_CONNECT_PROBE_DATA stops looking *)
Definition tn_stopb (b : N) : bool := (b =? LF)%N || (b =? 0)%N.
Definition tn_nostop (s : bytes) : bool := forallb (fun b => negb (tn_stopb b)) s.
(* the model's own decision on the bytes before the first LF / NUL: do they begin (after white space) with a known method? *)
Definition tn_probe_http (data : bytes) : bool :=
  let '(mstart, pos) := rq_probe_method data in negb (htp_convert_method_to_number (rq_sub data mstart pos) =? c_HTP_M_UNKNOWN)%Z.
(* on bytes: a line that begins with a token followed by a space looks like HTTP iff the token is a method the library knows *)
Lemma tn_probe_http_token m rest : wr_token m = true ->
  tn_probe_http (m ++ SP :: rest) = negb (htp_convert_method_to_number m =? c_HTP_M_UNKNOWN)%Z.
Proof. intros Wm. unfold tn_probe_http. destruct (sg_probe_method m rest Wm) as [Pm Ps]. rewrite Pm, Ps. reflexivity. Qed.

Section Probe.
Variable cb : cb_oracle.
Variable g : cfg.
Hypothesis Hcb : wr_all_ok cb.
Context {w : tg_world}.
Notation tg_cin := (tg_cinw w).
Notation tg_mid := (tg_midw w).

(* ---- for (;;) { IN_PEEK_NEXT; if (next == LF || next == 0) break; IN_COPY_BYTE_OR_RETURN; } ---- *)
Lemma tn_peek_copy_nostop d hdr st prev rh t : forall u c rd p n,
  tg_cin c d rd p hdr st prev rh t -> skipn rd d = u -> tn_nostop u = true -> (length u <= n)%nat ->
  exists c', rq_peek_copy_until tn_stopb n c = (false, c') /\ tg_cin c' d (length d) (p ++ u) hdr st prev rh t.
Proof.
  induction u as [|b u IH]; intros c rd p n H Hu Hnl Hn.
  - pose proof (sg_skipn_nil d rd Hu) as L. pose proof H as [A1 A2 A3 A4 A5 A6 A7 A8 A9 A10 A11 A12 A13 A14 A15 A16 A17].
    assert (E : rd = length d) by lia.
    assert (Nn : nth_error d rd = None) by (apply nth_error_None; lia).
    destruct n; cbn [rq_peek_copy_until]; rewrite (sg_peek c d A4 A5), A6, Nn; cbn [c_in rq_set_in set k_next_byte]; cbn;
      unfold rq_copy_byte, rq_at_end; cbn; rewrite A5, A6, E, Nat.leb_refl;
      (eexists; split; [reflexivity|]; rewrite app_nil_r; apply tg_cin_next; rewrite <- E; exact H).
  - destruct (sg_skipn_cons d rd b u Hu) as (Hnth & Hu' & Hlt). pose proof H as [A1 A2 A3 A4 A5 A6 A7 A8 A9 A10 A11 A12 A13 A14 A15 A16 A17].
    cbn [tn_nostop forallb] in Hnl. apply andb_prop in Hnl. destruct Hnl as [Hb Hnl]. apply negb_true_iff in Hb.
    cbn [length] in Hn. destruct n as [|n]; [lia|].
    cbn [rq_peek_copy_until]. rewrite (sg_peek c d A4 A5), A6, Hnth.
    set (c0 := rq_set_in (fun k => k <| k_next_byte := Some b |>) c).
    change (k_next_byte (c_in c0)) with (Some b). cbv beta iota. rewrite Hb.
    assert (Hnth0 : nth_error d (k_read (c_in c0)) = Some b) by (change (k_read (c_in c0)) with (k_read (c_in c)); rewrite A6; exact Hnth).
    rewrite (wr_copy_byte c0 d b A4 A5 Hnth0).
    assert (H0 : tg_cin c0 d rd p hdr st prev rh t) by (unfold c0; apply tg_cin_next; exact H).
    destruct (IH (rq_set_in (wr_kadv b) c0) (S rd) (p ++ [b]) n (tg_cin_adv _ _ _ _ _ _ _ _ _ b H0 Hnth) Hu' Hnl ltac:(lia)) as (c' & E & H').
    exists c'. split; [exact E|]. rewrite <- app_assoc in H'. exact H'.
Qed.
Lemma tn_peek_copy_stop d hdr st prev rh t b u2 : tn_stopb b = true -> forall u1 c rd p n,
  tg_cin c d rd p hdr st prev rh t -> skipn rd d = u1 ++ b :: u2 -> tn_nostop u1 = true -> (length u1 <= n)%nat ->
  exists c', rq_peek_copy_until tn_stopb n c = (true, c') /\ tg_cin c' d (rd + length u1) (p ++ u1) hdr st prev rh t.
Proof.
  intros Hsb. induction u1 as [|b1 u1 IH]; intros c rd p n H Hu Hnl Hn.
  - cbn [app] in Hu. destruct (sg_skipn_cons d rd b u2 Hu) as (Hnth & Hu' & Hlt). pose proof H as [A1 A2 A3 A4 A5 A6 A7 A8 A9 A10 A11 A12 A13 A14 A15 A16 A17].
    destruct n; cbn [rq_peek_copy_until]; rewrite (sg_peek c d A4 A5), A6, Hnth; cbn [c_in rq_set_in set k_next_byte]; cbv beta iota; rewrite Hsb;
      (eexists; split; [reflexivity|]; cbn [length]; rewrite Nat.add_0_r, app_nil_r; apply tg_cin_next; exact H).
  - cbn [app] in Hu. destruct (sg_skipn_cons d rd b1 _ Hu) as (Hnth & Hu' & Hlt). pose proof H as [A1 A2 A3 A4 A5 A6 A7 A8 A9 A10 A11 A12 A13 A14 A15 A16 A17].
    cbn [tn_nostop forallb] in Hnl. apply andb_prop in Hnl. destruct Hnl as [Hb Hnl]. apply negb_true_iff in Hb.
    cbn [length] in Hn. destruct n as [|n]; [lia|].
    cbn [rq_peek_copy_until]. rewrite (sg_peek c d A4 A5), A6, Hnth.
    set (c0 := rq_set_in (fun k => k <| k_next_byte := Some b1 |>) c).
    change (k_next_byte (c_in c0)) with (Some b1). cbv beta iota. rewrite Hb.
    assert (Hnth0 : nth_error d (k_read (c_in c0)) = Some b1) by (change (k_read (c_in c0)) with (k_read (c_in c)); rewrite A6; exact Hnth).
    rewrite (wr_copy_byte c0 d b1 A4 A5 Hnth0).
    assert (H0 : tg_cin c0 d rd p hdr st prev rh t) by (unfold c0; apply tg_cin_next; exact H).
    destruct (IH (rq_set_in (wr_kadv b1) c0) (S rd) (p ++ [b1]) n (tg_cin_adv _ _ _ _ _ _ _ _ _ b1 H0 Hnth) Hu' Hnl ltac:(lia)) as (c' & E & H').
    exists c'. split; [exact E|]. cbn [length]. replace (rd + S (length u1))%nat with (S rd + length u1)%nat by lia.
    rewrite <- app_assoc in H'. exact H'.
Qed.

(* ---- REQ_CONNECT_WAIT_RESPONSE once a 2xx status line has been seen ---- *)
Lemma tn_pass_wait c d rd p prev t : tg_cin c d rd p None REQ_CONNECT_WAIT_RESPONSE prev None t ->
  (c_HTP_RESPONSE_LINE < t_response_progress t)%Z -> (200 <=? t_response_status_number t)%Z = true -> (t_response_status_number t <=? 299)%Z = true ->
  exists c', rq_iter cb g false c = inr c' /\ tg_cin c' d rd p None REQ_CONNECT_PROBE_DATA (Some REQ_CONNECT_PROBE_DATA) None t.
Proof.
  intros H Hp H1 H2. pose proof (tg_cin_slot _ _ _ _ _ _ _ _ _ H) as Hsl.
  apply (tg_iter_ok cb g c (c <| c_in_state := REQ_CONNECT_PROBE_DATA |>) d rd p None _ prev None t); [|eapply tg_cin_state; exact H|discriminate].
  rewrite (gi_state _ _ _ _ _ _ _ _ _ H). cbn [rq_state_fn]. unfold REQ_CONNECT_WAIT_RESPONSE_fn, rq_tx, in_txi, tx_get.
  rewrite (gi_tx _ _ _ _ _ _ _ _ _ H), Hsl. apply Z.leb_gt in Hp. rewrite Hp, H1, H2. reflexivity.
Qed.

(* ---- REQ_CONNECT_PROBE_DATA: no LF / NUL in the rest of the chunk: everything is buffered ---- *)
Lemma tn_probe_buffer c d rd p t : tg_cin c d rd p None REQ_CONNECT_PROBE_DATA (Some REQ_CONNECT_PROBE_DATA) None t ->
  tn_nostop (skipn rd d) = true -> (length (p ++ skipn rd d) <= g_field_limit_hard g)%nat ->
  exists cF, rq_iter cb g false c = inl (cF, c_HTP_STREAM_DATA) /\ tg_mid cF (p ++ skipn rd d) None REQ_CONNECT_PROBE_DATA None t.
Proof.
  intros H Hnl Hlim. pose proof (gi_rd _ _ _ _ _ _ _ _ _ H) as Hrd.
  assert (Es : c_in_state c = REQ_CONNECT_PROBE_DATA) by apply (gi_state _ _ _ _ _ _ _ _ _ H).
  destruct (tn_peek_copy_nostop d None _ _ _ t (skipn rd d) c rd p (length d - rd) H eq_refl Hnl) as (c1 & E1 & H1); [rewrite skipn_length; lia|].
  destruct (tg_exit_buffer cb g Hcb c1 d _ None _ _ t H1) as (cF & EF & HF); [cbn [sg_olist length]; lia|].
  exists cF. split; [|exact HF].
  unfold rq_iter. rewrite Es. cbn [rq_state_fn]. unfold REQ_CONNECT_PROBE_DATA_fn.
  rewrite (gi_len _ _ _ _ _ _ _ _ _ H), (gi_read _ _ _ _ _ _ _ _ _ H). change (fun b => (b =? LF)%N || (b =? 0)%N) with tn_stopb. rewrite E1, EF. reflexivity.
Qed.

(* ---- REQ_CONNECT_PROBE_DATA: the LF / NUL is in the chunk, the bytes before it are not HTTP: tunnel mode ---- *)
Definition tn_to_tunnel (c : connp) : connp := c <| c_in_status := c_HTP_STREAM_TUNNEL |> <| c_out_status := c_HTP_STREAM_TUNNEL |>.
Lemma tn_probe_tunnel c d rd p t u1 b u2 : tg_cin c d rd p None REQ_CONNECT_PROBE_DATA (Some REQ_CONNECT_PROBE_DATA) None t ->
  skipn rd d = u1 ++ b :: u2 -> tn_nostop u1 = true -> tn_stopb b = true -> tn_probe_http (p ++ u1) = false ->
  (length (p ++ u1) <= g_field_limit_hard g)%nat ->
  exists c2, rq_iter cb g false c = inl (tn_to_tunnel c2, c_HTP_STREAM_TUNNEL) /\
    tg_cin c2 d (rd + length u1) (p ++ u1) None REQ_CONNECT_PROBE_DATA (Some REQ_CONNECT_PROBE_DATA) None t.
Proof.
  intros H Hu Hnl Hsb Hpr Hlim. pose proof (gi_rd _ _ _ _ _ _ _ _ _ H) as Hrd.
  assert (Es : c_in_state c = REQ_CONNECT_PROBE_DATA) by apply (gi_state _ _ _ _ _ _ _ _ _ H).
  assert (Ln : (length u1 <= length d - rd)%nat).
  { assert (L : length (skipn rd d) = length (u1 ++ b :: u2)) by (rewrite Hu; reflexivity). rewrite skipn_length, app_length in L. cbn [length] in L. lia. }
  destruct (tn_peek_copy_stop d None _ _ _ t b u2 Hsb u1 c rd p (length d - rd) H Hu Hnl Ln) as (c1 & E1 & H1).
  destruct (tg_consolidate g c1 d _ _ None _ _ _ t H1) as (c2 & E2 & H2); [cbn [sg_olist length]; lia|].
  exists c2. split; [|exact H2].
  unfold rq_iter. rewrite Es. cbn [rq_state_fn]. unfold REQ_CONNECT_PROBE_DATA_fn.
  rewrite (gi_len _ _ _ _ _ _ _ _ _ H), (gi_read _ _ _ _ _ _ _ _ _ H). change (fun b => (b =? LF)%N || (b =? 0)%N) with tn_stopb. rewrite E1, E2.
  unfold tn_probe_http in Hpr. destruct (rq_probe_method (p ++ u1)) as [mstart pos]. rewrite Hpr.
  cbn [c_in_status set]. rewrite Z.eqb_refl. reflexivity.
Qed.

(* ---- entering htp_connp_req_data while the answer to CONNECT is awaited ---- *)
Lemma tn_enter_wait c t (x : bytes) : tn_waitw w c t -> x <> [] ->
  exists c1, connp_req_data cb g (Some x) (length x) c = rq_loop cb g (rq_fuel (length x)) false c1 /\
             tg_cin c1 x 0 [] None REQ_CONNECT_WAIT_RESPONSE (Some REQ_CONNECT_CHECK) None t /\ c_events c1 = c_events c.
Proof.
  intros [A1 A2 A3 A4 A5 A6 A7 A8 A9 A10 A11] Hne.
  assert (L1 : tg_live (c_in_status c)) by (destruct A1 as [E|E]; rewrite E; [right|left; right]; reflexivity).
  unfold connp_req_data. rewrite (tg_live_stop _ L1), (tg_live_error _ L1), A7.
  assert (L0 : (length x =? 0)%nat = false) by (destruct x; [contradiction|reflexivity]). rewrite L0. cbn [andb].
  match goal with |- context [(c_in_status ?y =? c_HTP_STREAM_TUNNEL)%Z] => change (c_in_status y) with (c_in_status c) end.
  rewrite (tg_live_tunnel _ L1).
  eexists. split; [reflexivity|].
  match goal with |- context [if ?b then _ else _] => destruct b end.
  all: split; [|reflexivity]; constructor; try assumption; try reflexivity; cbn; try lia.
  all: rewrite app_nil_r; exact A4.
Qed.
End Probe.

(* ================= the client's first bytes inside the tunnel, any chunking ================= *)
Section ProbeRun.
Variable cb : cb_oracle.
Variable g : cfg.
Hypothesis Hcb : wr_all_ok cb.
Variable w : tg_world.
Variable t : tx.
Hypothesis Hp : (c_HTP_RESPONSE_LINE < t_response_progress t)%Z.
Hypothesis H2a : (200 <=? t_response_status_number t)%Z = true.
Hypothesis H2b : (t_response_status_number t <=? 299)%Z = true.
Variable u : bytes.                                     (* the client's bytes before the first LF / NUL *)
Variable b : N.
Hypothesis Hnu : tn_nostop u = true.
Hypothesis Hsb : tn_stopb b = true.
Hypothesis Hpr : tn_probe_http u = false.
Hypothesis Hlim : (length u <= g_field_limit_hard g)%nat.
Hypothesis Hst : tn_stable (c_out (ax_rs (gw_aux w))).
Hypothesis Hidle : c_out_state (ax_rs (gw_aux w)) = RES_IDLE.

Inductive tp_betw (c : connp) (p : bytes) : Prop :=
| PB_wait : tn_waitw w c t -> p = [] -> tp_betw c p
| PB_mid : tg_midw w c p None REQ_CONNECT_PROBE_DATA None t -> tp_betw c p.

Lemma tn_nostop_app a c : tn_nostop (a ++ c) = tn_nostop a && tn_nostop c. Proof. apply forallb_app. Qed.

(* a call whose chunk lies before the LF / NUL *)
Lemma tp_step_buffer c p (x : bytes) q : tp_betw c p -> x <> [] -> p ++ x ++ q = u ->
  exists c', connp_req_data cb g (Some x) (length x) c = (c', c_HTP_STREAM_DATA) /\ tg_midw w c' (p ++ x) None REQ_CONNECT_PROBE_DATA None t /\ rq_inv c.
Proof.
  intros B Hne Eu.
  assert (Nx : tn_nostop x = true) by (rewrite <- Eu, !tn_nostop_app in Hnu; apply andb_prop in Hnu; destruct Hnu as [_ X]; apply andb_prop in X; apply X).
  assert (Lx : (length (p ++ x) <= g_field_limit_hard g)%nat) by (rewrite <- Eu, !app_length in Hlim; rewrite app_length; lia).
  assert (Fu : exists f, rq_fuel (length x) = S (S f)) by (exists (16 * length x + 14)%nat; unfold rq_fuel; lia). destruct Fu as (f & Fu).
  destruct B as [W Ep|M].
  - subst p. destruct (tn_enter_wait cb g c t x W Hne) as (c1 & E1 & H1 & _). unfold bytes in *. rewrite E1, Fu.
    destruct (tn_pass_wait cb g c1 x 0 [] _ t H1 Hp H2a H2b) as (c2 & E2 & H2).
    destruct (tn_probe_buffer cb g Hcb c2 x 0 [] t H2 Nx Lx) as (cF & EF & HF).
    exists cF. rewrite (sg_rq_loop_inr cb g _ _ _ E2), (sg_rq_loop_inl cb g _ _ _ EF). split; [reflexivity|]. split; [exact HF|].
    apply rq_inv_plain. rewrite (ww_state _ _ _ W). split; discriminate.
  - destruct (tg_enter_ev cb g c p None _ _ _ x M Hne) as (c1 & E1 & H1 & _). unfold bytes in *. rewrite E1, Fu.
    destruct (tn_probe_buffer cb g Hcb c1 x 0 p t H1 Nx Lx) as (cF & EF & HF).
    exists cF. rewrite (sg_rq_loop_inl cb g _ _ _ EF). split; [reflexivity|]. split; [exact HF|].
    apply rq_inv_plain. rewrite (gm_state _ _ _ _ _ _ M). split; discriminate.
Qed.

(* the call whose chunk brings the LF / NUL *)
Lemma tp_step_tunnel c p (u1 u2 : bytes) : tp_betw c p -> p ++ u1 = u ->
  exists c2, connp_req_data cb g (Some (u1 ++ b :: u2)) (length (u1 ++ b :: u2)) c = (tn_to_tunnel c2, c_HTP_STREAM_TUNNEL) /\
    tg_cinw w c2 (u1 ++ b :: u2) (length u1) u None REQ_CONNECT_PROBE_DATA (Some REQ_CONNECT_PROBE_DATA) None t.
Proof.
  intros B Eu. set (x := u1 ++ b :: u2).
  assert (Hne : x <> []) by (unfold x; destruct u1; discriminate).
  assert (N1 : tn_nostop u1 = true) by (rewrite <- Eu, tn_nostop_app in Hnu; apply andb_prop in Hnu; apply Hnu).
  assert (Fu : exists f, rq_fuel (length x) = S (S f)) by (exists (16 * length x + 14)%nat; unfold rq_fuel; lia). destruct Fu as (f & Fu).
  destruct B as [W Ep|M].
  - subst p. cbn [app] in Eu. destruct (tn_enter_wait cb g c t x W Hne) as (c1 & E1 & H1 & _). unfold bytes in *. rewrite E1, Fu.
    destruct (tn_pass_wait cb g c1 x 0 [] _ t H1 Hp H2a H2b) as (c2 & E2 & H2).
    destruct (tn_probe_tunnel cb g c2 x 0 [] t u1 b u2 H2 eq_refl N1 Hsb ltac:(cbn [app]; rewrite Eu; exact Hpr) ltac:(cbn [app]; rewrite Eu; exact Hlim)) as (c3 & E3 & H3).
    exists c3. rewrite (sg_rq_loop_inr cb g _ _ _ E2), (sg_rq_loop_inl cb g _ _ _ E3). split; [reflexivity|]. cbn [app Nat.add] in H3. rewrite <- Eu. exact H3.
  - destruct (tg_enter_ev cb g c p None _ _ _ x M Hne) as (c1 & E1 & H1 & _). unfold bytes in *. rewrite E1, Fu.
    destruct (tn_probe_tunnel cb g c1 x 0 p t u1 b u2 H1 eq_refl N1 Hsb ltac:(rewrite Eu; exact Hpr) ltac:(rewrite Eu; exact Hlim)) as (c3 & E3 & H3).
    exists c3. rewrite (sg_rq_loop_inl cb g _ _ _ E3). split; [reflexivity|]. cbn [Nat.add] in H3. rewrite <- Eu. exact H3.
Qed.

(* what the deciding call leaves: both directions in tunnel mode *)
Lemma tp_tunnel_state c2 d rd p : tg_cinw w c2 d rd p None REQ_CONNECT_PROBE_DATA (Some REQ_CONNECT_PROBE_DATA) None t ->
  tn_tun (tn_fin (tn_to_tunnel c2)) /\ c_txs (tn_fin (tn_to_tunnel c2)) = gw_done w ++ [Some t] /\ k_read (c_in (tn_to_tunnel c2)) = rd.
Proof.
  intros [A1 A2 A3 A4 A5 A6 A7 A8 A9 A10 A11 A12 A13 A14 A15 A16 A17]. destruct A17 as (A17 & A18 & A19).
  split; [|split; [exact A14|exact A6]].
  constructor; try reflexivity.
  - left. change (c_in_tx (tn_fin (tn_to_tunnel c2))) with (c_in_tx c2). rewrite A13. discriminate.
  - right. change (c_out_state (tn_fin (tn_to_tunnel c2))) with (c_out_state c2). destruct (tn_rs_proj _ _ A18) as (X & _). rewrite X. exact Hidle.
Qed.

Theorem tp_chunks : forall (pre : list bytes) c p (u1 u2 : bytes), tp_betw c p ->
  Forall (fun x => x <> []) pre -> p ++ concat pre ++ u1 = u ->
  let ops := map OpReqData (pre ++ [u1 ++ b :: u2]) in
  exists rs r, snd (cp_run cb g c ops) = rs ++ [r] /\
    tn_tun (fst (cp_run cb g c ops)) /\ c_txs (fst (cp_run cb g c ops)) = gw_done w ++ [Some t] /\
    map tn_o rs = map (fun x => (c_HTP_STREAM_DATA, length x)) pre /\ Forall tn_rquiet rs /\
    tn_o r = (c_HTP_STREAM_TUNNEL, length u1) /\ r_in_status r = c_HTP_STREAM_TUNNEL /\ r_out_status r = c_HTP_STREAM_TUNNEL /\
    r_ntx r = S (length (gw_done w)).
Proof.
  induction pre as [|x pre IH]; intros c p u1 u2 B Hall Eu ops; unfold ops; clear ops.
  - cbn [concat app] in Eu. cbn [app map]. rewrite tn_run_cons. cbn [cp_run fst snd]. rewrite tn_step_req.
    destruct (tp_step_tunnel c p u1 u2 B Eu) as (c2 & E2 & H2). unfold bytes in *. rewrite E2. cbn [fst snd].
    destruct (tp_tunnel_state c2 _ _ _ H2) as (T & X & K).
    exists [], (tn_res (tn_to_tunnel c2) c_HTP_STREAM_TUNNEL (k_read (c_in (tn_to_tunnel c2)))). split; [reflexivity|].
    split; [exact T|]. split; [exact X|]. split; [reflexivity|]. split; [constructor|].
    unfold tn_o, tn_res, finish_call. cbn [snd r_rc r_consumed r_in_status r_out_status r_ntx]. rewrite K.
    split; [reflexivity|]. split; [reflexivity|]. split; [reflexivity|].
    change (c_txs (tn_to_tunnel c2)) with (c_txs c2). rewrite (gi_txs _ _ _ _ _ _ _ _ _ H2), app_length. cbn [length]. lia.
  - pose proof (Forall_inv Hall) as Hx. pose proof (Forall_inv_tail Hall) as Hall'. cbn [concat] in Eu. rewrite <- app_assoc in Eu.
    change (map OpReqData ((x :: pre) ++ [u1 ++ b :: u2])) with (OpReqData x :: map OpReqData (pre ++ [u1 ++ b :: u2])). rewrite tn_run_cons. cbn [fst snd]. rewrite tn_step_req.
    destruct (tp_step_buffer c p x (concat pre ++ u1) B Hx Eu) as (c' & E & M & Hi).
    pose proof (req_data_data_means_all cb g (Some x) (length x) c c' Hi ltac:(intros d0 Ed; inversion Ed; lia) E) as Hk.
    unfold bytes in *. rewrite E. cbn [fst snd].
    destruct (IH (tn_fin c') (p ++ x) u1 u2 (PB_mid _ _ (tg_midw_finish _ _ _ _ _ _ _ M Hst)) Hall' ltac:(rewrite <- app_assoc; exact Eu)) as (rs & r & Er & T & X & Ho & Hq & R).
    cbv zeta in Er, T, X. exists (tn_res c' c_HTP_STREAM_DATA (k_read (c_in c')) :: rs), r. split; [rewrite Er; reflexivity|].
    split; [exact T|]. split; [exact X|]. split; [cbn [map]; f_equal; [unfold tn_o, tn_res, finish_call; cbn [snd r_rc r_consumed]; rewrite Hk; reflexivity|exact Ho]|].
    split; [|exact R]. constructor; [|exact Hq]. unfold tn_rquiet, tn_res, finish_call. cbn [snd r_in_status]. apply tn_live_quiet. exact (gm_status _ _ _ _ _ _ M).
Qed.
End ProbeRun.
