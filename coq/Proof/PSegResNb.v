(* C03 / C04, response direction: the responses WITHOUT a body and the interim response -- base layer.
   (1) RES_LINE with a raw-data receiver still installed (after an interim 100 response htp_connp_RES_BODY_DETERMINE goes back
       to RES_LINE without htp_tx_state_response_headers: the RESPONSE_HEADER_DATA receiver of the interim header block stays
       until the state change into RES_HEADERS replaces it): PPairLine.pr_line_complete / pr_iter_to_headers / pr_pass_line for
       any receiver.
   (2) htp_tx_state_response_complete_ex for a transaction whose coding is HTP_CODING_NO_BODY (no final RESPONSE_BODY_DATA
       call), and RES_FINALIZE at the end of the chunk / with the next status line in the chunk (PPairRun / PPairOne / PPairFin
       for the NO_BODY case).
   (3) one response from any read offset in continuation-passing style (PPairOne.v, Section One) with what follows the empty
       line (RES_BODY_DETERMINE and after) as a parameter Ktail. *)
Require Import Htp.Model.Base Htp.Model.MBstr Htp.Model.MConnTypes Htp.Model.MTxCommon Htp.Model.MResLine Htp.Model.MTxRes.
Require Import Htp.Model.MReq Htp.Model.MRes Htp.Model.MConnp.
Require Import Htp.Spec.SWire Htp.Proof.PWire Htp.Proof.PWireHdr Htp.Proof.PWireBlock Htp.Proof.PWireConn Htp.Proof.PWireExch.
Require Import Htp.Proof.PWireRun Htp.Proof.PWirePres Htp.Proof.PWireGlue Htp.Proof.PSeg Htp.Proof.PSegLine Htp.Proof.PSegHdr Htp.Proof.PSegGen Htp.Proof.PSegRun.
Require Import Htp.Proof.PSegFold Htp.Proof.PSegRes Htp.Proof.PSegResLine Htp.Proof.PSegResHdr Htp.Proof.PSegResGen Htp.Proof.PSegResRun.
Require Import Htp.Proof.PPair Htp.Proof.PPairLine Htp.Proof.PPairHdr Htp.Proof.PPairRun Htp.Proof.PPairOne Htp.Proof.PPairFin.

Section NbLine.
Variable cb : cb_oracle.
Variable g : cfg.
Hypothesis Hcb : wr_all_ok cb.
Context {w : pr_world}.
Notation pr_cin := (pr_cinw w).
Notation pr_mid := (pr_midw w).
Local Notation pr_line_loop_lf := (PPairLine.pr_line_loop_lf cb g).
Local Notation pr_line_scan_plain := (PPairLine.pr_line_scan_plain cb g).
Local Notation pr_line_loop_crlf := (PPairLine.pr_line_loop_crlf cb g).
Local Notation pr_line_loop_end := (PPairLine.pr_line_loop_end cb g).
Local Notation pr_line_loop_cr_end := (PPairLine.pr_line_loop_cr_end cb g).
Local Notation pr_fin_head := (PPairFin.pr_fin_head cb g).
Local Notation pr_iter_ok := (PPair.pr_iter_ok cb g).
Local Notation pr_consolidate := (PPair.pr_consolidate g).
Local Notation pr_res_buffer := (PPair.pr_res_buffer g).
Local Notation pr_res_buffer_rcv := (PPairFin.pr_res_buffer_rcv g).
Local Notation pr_send_data := (PPair.pr_send_data cb Hcb).
Local Notation pr_exit_buffer := (PPair.pr_exit_buffer cb g Hcb).

(* ---- the status line is complete: htp_connp_RES_LINE's tail on the assembled line ---- *)
Lemma nb_line_complete c d rd prev rh t ps s r : sr_status_ok ps s r = true ->
  pr_cin c d rd (wr_ser_status_line ps s r ++ [CR; LF]) None RES_LINE prev rh t ->
  (length (wr_ser_status_line ps s r) + 2 <= g_field_limit_hard g)%nat ->
  exists c', rs_line_complete cb g c = (ST_OK, c') /\
             pr_cin c' d rd [] None RES_HEADERS prev rh ((sr_tx_line t (wr_ser_status_line ps s r)) <| t_response_progress := c_HTP_RESPONSE_HEADERS |>).
Proof.
  intros W H Hlim. set (line := wr_ser_status_line ps s r) in *.
  destruct (sr_status_line_shape ps s r W) as (Pl & l & Esh). fold line in Pl, Esh.
  unfold rs_line_complete, sr_tx_line.
  destruct (pr_consolidate c d rd _ None _ _ rh t H) as (c1 & E1 & H1); [rewrite app_length; cbn [length sg_olist]; lia|]. rewrite E1.
  cbn [rs_dbytes].
  assert (Ig : rs_is_line_ignorable (g_personality g) (line ++ [CR; LF]) = false).
  { unfold rs_is_line_ignorable. rewrite Esh. cbn [app]. destruct l as [|y l'].
    - reflexivity || (unfold rs_is_line_terminator, rs_is_line_whitespace; cbn [forallb app]; rewrite andb_false_r; reflexivity).
    - change (72%N :: 84%N :: 84%N :: 80%N :: (y :: l') ++ [CR; LF]) with (72%N :: 84%N :: ((84%N :: 80%N :: y :: l') ++ [CR; LF])).
      apply sr_line_not_terminator. reflexivity. }
  rewrite Ig.
  assert (Lp : wr_last_plain line) by (apply wr_plain_last; [rewrite Esh; discriminate|exact Pl]).
  pose proof (wr_rs_chomp_line line [CR; LF] eq_refl Lp) as Ech.
  destruct (rs_chomp (line ++ [CR; LF])) as [dc chr] eqn:Ec. cbn [fst] in Ech. subst dc.
  assert (Nb : rs_treat_response_line_as_body (Some line) = false) by (rewrite Esh; apply sr_line_not_body). rewrite Nb.
  rewrite (pr_otx c1 d rd _ _ _ _ _ t _ H1).
  set (tr := t <| t_response_line := None |> <| t_response_protocol := None |> <| t_response_status := None |> <| t_response_message := None |>).
  set (c2 := c1 <| c_txs := (pr_txs w tr) |>).
  assert (H2 : pr_cin c2 d rd (line ++ [CR; LF]) None RES_LINE prev rh tr) by (eapply pr_cin_txs; exact H1).
  rewrite (pr_otx c2 d rd _ _ _ _ _ tr _ H2).
  set (tp := rs_apply_response_line (rs_parse_response_line line) (tr <| t_response_line := Some line |>)).
  clearbody tp. set (c3 := c2 <| c_txs := (pr_txs w tp) |>).
  assert (H3 : pr_cin c3 d rd (line ++ [CR; LF]) None RES_LINE prev rh tp) by (eapply pr_cin_txs; exact H2).
  assert (O3 : out_txi c3 = pr_k w) by (unfold out_txi; rewrite (pi_tx _ _ _ _ _ _ _ _ _ H3); reflexivity). rewrite O3.
  unfold tx_state_response_line. rewrite (pr_tx_upd0 c3 d rd _ _ _ _ _ tp _ H3). rewrite (wr_run_hook cb Hcb).
  fold (sr_line_fix tp).
  set (c4 := c3 <| c_txs := (pr_txs w (sr_line_fix tp)) |>).
  assert (H4 : pr_cin c4 d rd (line ++ [CR; LF]) None RES_LINE prev rh (sr_line_fix tp)) by (eapply pr_cin_txs; exact H3).
  set (c5 := rs_set_state RES_HEADERS (rs_clear_buffer (wr_hook_ev H_RESPONSE_LINE (pr_k w) None false c4))).
  assert (H5 : pr_cin c5 d rd [] None RES_HEADERS prev rh (sr_line_fix tp)).
  { unfold c5. eapply pr_cin_state. eapply pr_cin_clear. apply pr_cin_hook. exact H4. }
  rewrite (pr_otx c5 d rd _ _ _ _ _ _ _ H5).
  eexists. split; [reflexivity|]. eapply pr_cin_txs. exact H5.
Qed.


(* ---- the state change into RES_HEADERS: the raw-header receiver is installed; one that is still there (interim response)
        gets its last call first ---- *)
Lemma nb_iter_to_headers c c1 d rd rh t :
  rs_state_fn cb g (c_out_state c) c = (ST_OK, c1) -> pr_cin c1 d rd [] None RES_HEADERS (Some RES_LINE) rh t ->
  t_response_progress t = c_HTP_RESPONSE_HEADERS ->
  exists c', sr_iter cb g c = inr c' /\ pr_cin c' d rd [] None RES_HEADERS (Some RES_HEADERS) (Some H_RESPONSE_HEADER_DATA) t.
Proof.
  intros E H Hp. destruct rh as [h0|]; [|eapply pr_iter_to_headers; eassumption].
  pose proof H as [A1 A2 A3 A4 A5 A6 A7 A8 A9 A10 A11 A12 A13 A14 A15 A16 A17 A18].
  unfold sr_iter. rewrite E. rewrite (sg_live_tunnel _ A1).
  unfold rs_handle_state_change. rewrite A3, A2. cbn [res_state_eqb].
  rewrite (pr_rs_tx c1 d rd _ _ _ _ _ t H), Hp, A13.
  change ((c_HTP_RESPONSE_HEADERS =? c_HTP_RESPONSE_HEADERS)%Z) with true. cbv iota.
  unfold res_receiver_set, res_receiver_finalize_clear. rewrite A11.
  destruct (pr_send_data c1 d rd _ _ _ _ _ t true H) as (c2 & E2 & H2 & _). rewrite E2.
  eexists. split; [reflexivity|].
  destruct H2 as [B1 B2 B3 B4 B5 B6 B7 B8 B9 B10 B11 B12 B13 B14 B15 B16 B17 B18].
  constructor; try assumption; try reflexivity; cbn; rewrite ?B2, ?B6; try reflexivity; try assumption; lia.
Qed.

(* ---- the pass through RES_LINE that sees the end of the status line ---- *)
Lemma nb_pass_line c d rd p q u2 rh t ps s r : sr_status_ok ps s r = true ->
  pr_cin c d rd p None RES_LINE (Some RES_LINE) rh t -> skipn rd d = q ++ u2 -> q <> [] ->
  p ++ q = wr_ser_status_line ps s r ++ [CR; LF] ->
  (length (wr_ser_status_line ps s r) + 2 <= g_field_limit_hard g)%nat ->
  exists c', sr_iter cb g c = inr c' /\
    pr_cin c' d (rd + length q) [] None RES_HEADERS (Some RES_HEADERS) (Some H_RESPONSE_HEADER_DATA)
           ((sr_tx_line t (wr_ser_status_line ps s r)) <| t_response_progress := c_HTP_RESPONSE_HEADERS |>) /\
    skipn (rd + length q) d = u2.
Proof.
  intros W H Ed Hq Ep Hlim. set (line := wr_ser_status_line ps s r) in *.
  destruct (sr_status_line_shape ps s r W) as (Pl & _). fold line in Pl.
  assert (Es : c_out_state c = RES_LINE) by apply (pi_state _ _ _ _ _ _ _ _ _ H).
  pose proof (pi_rd _ _ _ _ _ _ _ _ _ H) as Hrd.
  assert (Lsk : length (skipn rd d) = (length d - rd)%nat) by apply skipn_length. rewrite Ed, app_length in Lsk.
  assert (Ef : rs_state_fn cb g (c_out_state c) c = rs_line_loop cb g (S (S (length d - rd))) c).
  { rewrite Es. cbn [rs_state_fn]. unfold rs_RES_LINE, rs_bytes_fuel. rewrite (pi_len _ _ _ _ _ _ _ _ _ H), (pi_read _ _ _ _ _ _ _ _ _ H). reflexivity. }
  (* q = q0 ++ [LF] with q0 = a plain part followed by CR, or empty *)
  assert (Eb : line ++ [CR; LF] = (line ++ [CR]) ++ [LF]) by (rewrite <- app_assoc; reflexivity).
  rewrite Eb in Ep. destruct (sg_app_last _ _ _ _ Ep Hq) as (q0 & Eq0 & Ep0).
  assert (Hcomp : exists c1, rs_line_loop cb g (S (S (length d - rd))) c = rs_line_complete cb g c1 /\
                    pr_cin c1 d (rd + length q) (line ++ [CR; LF]) None RES_LINE (Some RES_LINE) rh t /\ skipn (rd + length q) d = u2).
  { destruct q0 as [|z q0'] using rev_ind.
    - (* the CR came with an earlier chunk *)
      rewrite app_nil_r in Ep0. cbn [app] in Eq0. subst q.
      destruct (pr_line_loop_lf c d rd p None _ rh t (S (length d - rd)) u2 H) as (c1 & E1 & H1 & R1); [exact Ed|].
      exists c1. split; [exact E1|]. cbn [length]. rewrite Nat.add_1_r. rewrite Ep0, <- app_assoc in H1. split; assumption.
    - clear IHq0'. rewrite app_assoc in Ep0. apply app_inj_tail in Ep0. destruct Ep0 as [Ep1 Ez]. subst z.
      assert (Pq : sr_plain q0' = true) by (rewrite <- Ep1, sr_plain_app in Pl; apply andb_prop in Pl; apply Pl).
      assert (Ed' : skipn rd d = q0' ++ CR :: LF :: u2) by (rewrite Ed, Eq0, <- !app_assoc; reflexivity).
      assert (Lq : length q = (length q0' + 2)%nat) by (rewrite Eq0, !app_length; cbn [length]; lia).
      replace (S (S (length d - rd))) with (length q0' + S (S (length d - rd - length q0')))%nat by lia.
      destruct (pr_line_scan_plain d None _ rh t q0' c rd p (S (S (length d - rd - length q0'))) _ H Ed' Pq) as (c1 & E1 & H1 & R1). rewrite E1.
      destruct (pr_line_loop_crlf c1 d _ _ None _ rh t (length d - rd - length q0') u2 H1 R1) as (c2 & E2 & H2 & R2).
      exists c2. split; [exact E2|]. rewrite Lq. replace (rd + (length q0' + 2))%nat with (S (S (rd + length q0'))) by lia.
      split; [|exact R2]. rewrite <- Ep1, <- !app_assoc. rewrite <- app_assoc in H2. exact H2. }
  destruct Hcomp as (c1 & E1 & H1 & R1). rewrite E1 in Ef.
  destruct (nb_line_complete c1 d _ _ rh t ps s r W H1 Hlim) as (c2 & E2 & H2). rewrite E2 in Ef.
  destruct (nb_iter_to_headers c c2 d _ rh _ Ef H2 eq_refl) as (c3 & E3 & H3).
  exists c3. split; [exact E3|]. split; [exact H3|exact R1].
Qed.

(* ================= completion of a response whose coding is HTP_CODING_NO_BODY ================= *)
Definition nb_tcomplete (t : tx) : tx := t <| t_response_progress := c_HTP_RESPONSE_COMPLETE |>.
Lemma nb_response_complete c d rd p prev t : pr_cin c d rd p None RES_FINALIZE prev None t ->
  (t_response_transfer_coding t =? c_HTP_CODING_NO_BODY)%Z = true ->
  (t_response_progress t =? c_HTP_RESPONSE_COMPLETE)%Z = false -> t_request_progress t = c_HTP_REQUEST_COMPLETE ->
  exists c', rs_response_complete cb g c = (ST_OK, c') /\ pr_comp (w := w) c c' (pr_slot g (nb_tcomplete t)).
Proof.
  intros H0 Hcod Hprog Hreq. rename c into c0.
  unfold rs_response_complete. rewrite (pi_tx _ _ _ _ _ _ _ _ _ H0). unfold tx_state_response_complete_ex.
  rewrite (pr_tx_get c0 d _ _ _ _ _ _ _ H0), Hprog. cbn [negb].
  rewrite (pr_tx_upd0 c0 d _ _ _ _ _ _ t _ H0).
  set (t1 := t <| t_response_progress := c_HTP_RESPONSE_COMPLETE |>). set (c1 := c0 <| c_txs := pr_txs w t1 |>).
  assert (H1 : pr_cin c1 d rd p None RES_FINALIZE prev None t1) by (eapply pr_cin_txs; exact H0).
  rewrite (pr_tx_get c1 d _ _ _ _ _ _ _ H1). change (t_response_transfer_coding t1) with (t_response_transfer_coding t). rewrite Hcod. cbn [negb].
  rewrite (wr_run_hook cb Hcb). unfold res_receiver_finalize_clear.
  fold (nb_tcomplete t) in t1, c1, H1. set (c3 := wr_hook_ev H_RESPONSE_COMPLETE (pr_k w) None false c1).
  assert (H3 : pr_cin c3 d rd p None RES_FINALIZE prev None (nb_tcomplete t)) by (apply pr_cin_hook; exact H1).
  rewrite (pi_rh _ _ _ _ _ _ _ _ _ H3). rewrite (pi_intx _ _ _ _ _ _ _ _ _ H3), (pi_tx _ _ _ _ _ _ _ _ _ H3), andb_false_r. cbn [negb andb].
  rewrite (pi_other _ _ _ _ _ _ _ _ _ H3).
  unfold tx_finalize. rewrite (pr_cin_slot _ _ _ _ _ _ _ _ _ H3).
  assert (Ec : tx_is_complete (nb_tcomplete t) = true).
  { unfold tx_is_complete. change (t_request_progress (nb_tcomplete t)) with (t_request_progress t). rewrite Hreq. reflexivity. }
  rewrite Ec. cbn [negb]. unfold run_hook_ex. rewrite Hcb.
  set (c4 := emit (bump_hook c3 H_TRANSACTION_COMPLETE) (mkev H_TRANSACTION_COMPLETE (pr_k w) None false (Some (nb_tcomplete t)))).
  assert (H4 : pr_cin c4 d rd p None RES_FINALIZE prev None (nb_tcomplete t)) by (apply (pr_cin_ext c3); try reflexivity; exact H3).
  rewrite (pr_cin_slot _ _ _ _ _ _ _ _ _ H4).
  (* c4 differs from c0 in the transaction list, the event log and the call counters only *)
  assert (F4 : c_out c4 = c_out c0 /\ c_out_status c4 = c_out_status c0 /\ c_out_state_previous c4 = c_out_state_previous c0) by (repeat split).
  destruct F4 as (O4 & S4 & P4).
  set (c5 := if g_tx_auto_destroy g then tx_destroy c4 (pr_k w) else c4).
  assert (H5 : c_txs c5 = pw_pre w ++ pr_slot g (nb_tcomplete t) :: pw_post w /\ c_out_status c5 = c_out_status c4 /\ c_out c5 = c_out c4 /\
               c_out_state_previous c5 = c_out_state_previous c4 /\ c_out_next_tx_index c5 = S (pr_k w) /\ c_txs_shifted c5 = 0%nat /\
               c_in_tx c5 = None /\ c_out_data_other_at_tx_end c5 = false).
  { unfold c5, pr_slot. destruct (g_tx_auto_destroy g).
    - unfold tx_destroy. rewrite (pr_cin_slot _ _ _ _ _ _ _ _ _ H4), Ec. unfold tx_destroy_incomplete.
      rewrite (pi_shift _ _ _ _ _ _ _ _ _ H4). assert (E0 : (pr_k w <? 0)%nat = false) by reflexivity. rewrite E0, Nat.sub_0_r.
      match goal with |- context [c_in_tx ?x] => change (c_in_tx x) with (c_in_tx c4) end. rewrite (pi_intx _ _ _ _ _ _ _ _ _ H4).
      match goal with |- context [c_out_tx ?x] => change (c_out_tx x) with (c_out_tx c4) end. rewrite (pi_tx _ _ _ _ _ _ _ _ _ H4), Nat.eqb_refl.
      cbn [c_txs c_out_status c_out c_out_state_previous c_out_next_tx_index c_txs_shifted c_in_tx c_out_data_other_at_tx_end set].
      rewrite (pi_txs _ _ _ _ _ _ _ _ _ H4). unfold pr_txs, pr_k. rewrite wr_upd_app_exact.
      split; [reflexivity|]. split; [reflexivity|]. split; [reflexivity|]. split; [reflexivity|].
      split; [exact (pi_next _ _ _ _ _ _ _ _ _ H4)|]. split; [exact (pi_shift _ _ _ _ _ _ _ _ _ H4)|]. split; [exact (pi_intx _ _ _ _ _ _ _ _ _ H4)|exact (pi_other _ _ _ _ _ _ _ _ _ H4)].
    - split; [exact (pi_txs _ _ _ _ _ _ _ _ _ H4)|]. split; [reflexivity|]. split; [reflexivity|]. split; [reflexivity|].
      split; [exact (pi_next _ _ _ _ _ _ _ _ _ H4)|]. split; [exact (pi_shift _ _ _ _ _ _ _ _ _ H4)|]. split; [exact (pi_intx _ _ _ _ _ _ _ _ _ H4)|exact (pi_other _ _ _ _ _ _ _ _ _ H4)]. }
  destruct H5 as (T5 & S5 & O5 & P5 & N5 & Sh5 & I5 & Ot5). clearbody c5.
  eexists. split; [reflexivity|].
  constructor; cbn [c_txs c_out c_out_status c_out_state_previous c_out_state c_out_tx c_out_next_tx_index c_txs_shifted c_in_tx c_out_data_other_at_tx_end set]; try assumption; try reflexivity.
Qed.

(* htp_tx_state_response_complete_ex as the body of a pass of the loop *)
Lemma nb_complete_iter c0 c3 d rd p t : rs_state_fn cb g (c_out_state c0) c0 = rs_response_complete cb g c3 ->
  pr_cin c3 d rd p None RES_FINALIZE (Some RES_FINALIZE) None t ->
  (t_response_transfer_coding t =? c_HTP_CODING_NO_BODY)%Z = true ->
  (t_response_progress t =? c_HTP_RESPONSE_COMPLETE)%Z = false -> t_request_progress t = c_HTP_REQUEST_COMPLETE ->
  exists c', sr_iter cb g c0 = inr c' /\ pr_done w c' d rd p (pr_slot g (nb_tcomplete t)).
Proof.
  intros Ef H3 Hcod Hprog Hreq.
  destruct (nb_response_complete c3 d _ _ _ t H3 Hcod Hprog Hreq) as (c4 & E4 & [B1 B2 B3 B4 B5 B6 B7 B8 B9 B10]).
  unfold sr_iter. rewrite Ef, E4.
  destruct H3 as [C1 C2 C3 C4 C5 C6 C7 C8 C9 C10 C11 C12 C13 C14 C15 C16 C17 C18].
  rewrite B3, (sg_live_tunnel _ C1).
  unfold rs_handle_state_change. rewrite B4, C3, B5. cbn [res_state_eqb].
  eexists. split; [reflexivity|].
  constructor; cbn [c_out_status c_out_state c_out_state_previous c_out c_out_next_tx_index c_txs c_txs_shifted c_in_tx c_out_data_other_at_tx_end set];
    rewrite ?B2, ?B3, ?B5; try assumption; try reflexivity.
Qed.


(* RES_FINALIZE at the end of the chunk: the response is complete *)
Lemma nb_finalize_end c d t : pr_cinw w c d (length d) [] None RES_FINALIZE (Some RES_FINALIZE) None t ->
  (t_response_transfer_coding t =? c_HTP_CODING_NO_BODY)%Z = true ->
  (t_response_progress t =? c_HTP_RESPONSE_COMPLETE)%Z = false -> t_request_progress t = c_HTP_REQUEST_COMPLETE ->
  exists c', sr_iter cb g c = inr c' /\ pr_done w c' d (length d) [] (pr_slot g (nb_tcomplete t)).
Proof.
  intros H Hcod Hprog Hreq. pose proof H as [A1 A2 A3 A4 A5 A6 A7 A8 A9 A10 A11 A12 A13 A14 A15 A16 A17 A18].
  unfold sr_iter. rewrite A2. cbn [rs_state_fn]. unfold rs_RES_FINALIZE, rs_closed. rewrite (sg_live_closed _ A1). cbn [negb].
  rewrite (sr_peek c d A4 A5), A6.
  assert (Nn : nth_error d (length d) = None) by (apply nth_error_None; lia). rewrite Nn.
  set (c0 := rs_set_out (fun k => k <| k_next_byte := None |>) c).
  assert (H0 : pr_cinw w c0 d (length d) [] None RES_FINALIZE (Some RES_FINALIZE) None t) by (apply pr_cin_next; exact H).
  change (rs_nb c0) with (@None N). cbv iota.
  destruct (nb_response_complete c0 d _ _ _ t H0 Hcod Hprog Hreq) as (c1 & E1 & [B1 B2 B3 B4 B5 B6 B7 B8 B9 B10]). rewrite E1.
  destruct H0 as [C1 C2 C3 C4 C5 C6 C7 C8 C9 C10 C11 C12 C13 C14 C15 C16 C17 C18].
  rewrite B3, (sg_live_tunnel _ C1).
  unfold rs_handle_state_change. rewrite B4, C3, B5. cbn [res_state_eqb].
  eexists. split; [reflexivity|].
  constructor; cbn [c_out_status c_out_state c_out_state_previous c_out c_out_next_tx_index c_txs c_txs_shifted c_in_tx c_out_data_other_at_tx_end set];
    rewrite ?B2, ?B3, ?B5; try assumption; try reflexivity.
Qed.

(* the next line is complete in the chunk and begins like a status line: it is un-read, the response is complete *)
Lemma nb_finalize_next c d rd p t u1 u2 l : pr_cin c d rd p None RES_FINALIZE (Some RES_FINALIZE) None t -> k_consume (c_out c) = rd ->
  (rd = 0%nat \/ p = []) -> skipn rd d = u1 ++ LF :: u2 -> sg_no_lf u1 = true -> p ++ u1 ++ [LF] = 72%N :: 84%N :: 84%N :: 80%N :: l ->
  (length (p ++ u1 ++ [LF]) <= g_field_limit_hard g)%nat ->
  (t_response_transfer_coding t =? c_HTP_CODING_NO_BODY)%Z = true ->
  (t_response_progress t =? c_HTP_RESPONSE_COMPLETE)%Z = false -> t_request_progress t = c_HTP_REQUEST_COMPLETE ->
  exists c', sr_iter cb g c = inr c' /\ pr_done w c' d rd p (pr_slot g (nb_tcomplete t)).
Proof.
  intros H Hc Htop Hu Hnl Hsh Hlim Hcod Hprog Hreq.
  assert (Hlt : (rd < length d)%nat).
  { destruct (Nat.lt_ge_cases rd (length d)) as [L|L]; [exact L|]. rewrite skipn_all2 in Hu by lia. destruct u1; discriminate. }
  destruct (nth_error d rd) as [b|] eqn:Nb; [|apply nth_error_None in Nb; lia].
  assert (Es : c_out_state c = RES_FINALIZE) by apply (pi_state _ _ _ _ _ _ _ _ _ H).
  assert (Ln : (length u1 < S (S (length d - rd)))%nat).
  { assert (L : length (skipn rd d) = length (u1 ++ LF :: u2)) by (rewrite Hu; reflexivity). rewrite skipn_length, app_length in L. cbn [length] in L. lia. }
  set (c0 := rs_set_out (fun k => k <| k_next_byte := Some b |>) c).
  destruct (pr_fin_scan_lf d None _ _ _ t u2 u1 c0 rd p (S (S (length d - rd))) (pr_cin_next _ _ _ _ _ _ _ _ _ (Some b) H) Hu Hnl Ln) as (c1 & E1 & H1).
  destruct (pr_fin_scan_frame _ _ _ _ E1) as (F1 & F2 & F3).
  change (k_buf (c_out c0)) with (k_buf (c_out c)) in F1. change (k_consume (c_out c0)) with (k_consume (c_out c)) in F2. change (k_receiver (c_out c0)) with (k_receiver (c_out c)) in F3.
  rewrite Hc in F2.
  set (p1 := p ++ u1 ++ [LF]) in *. set (rd1 := (rd + length u1 + 1)%nat) in *.
  assert (Hbuf : sg_olist (k_buf (c_out c)) = p).
  { pose proof (pi_seen _ _ _ _ _ _ _ _ _ H) as S. rewrite Hc, Nat.sub_diag in S. cbn [firstn] in S. rewrite app_nil_r in S. exact S. }
  assert (Lim1 : (length p1 + length (sg_olist None) <= g_field_limit_hard g)%nat) by (cbn [sg_olist length]; lia).
  (* htp_connp_res_consolidate_data *)
  assert (Hcons : exists c2, rs_consolidate g c1 = (Some (Some p1), c2) /\ pr_cin c2 d rd1 p1 None RES_FINALIZE (Some RES_FINALIZE) None t /\
            k_receiver (c_out c2) = k_receiver (c_out c) /\
            ((k_buf (c_out c) = None /\ k_buf (c_out c2) = None /\ k_consume (c_out c2) = rd) \/
             (exists b0, k_buf (c_out c) = Some b0 /\ k_buf (c_out c2) = Some p1 /\ k_consume (c_out c2) = rd1))).
  { unfold rs_consolidate. destruct (k_buf (c_out c)) as [b0|] eqn:Eb; rewrite F1.
    - destruct (pr_res_buffer c1 d rd1 p1 None _ _ _ t H1 Lim1) as (c2 & E2 & H2 & B2 & C2). rewrite E2.
      exists c2. split; [rewrite B2; reflexivity|]. split; [exact H2|]. split; [rewrite (pr_res_buffer_rcv _ _ _ E2); exact F3|].
      right. exists b0. repeat split; assumption.
    - pose proof H1 as [A1 A2 A3 A4 A5 A6 A7 A8 A9 A10 A11 A12 A13 A14 A15 A16 A17 A18].
      rewrite A4, A6. assert (E0 : (rd1 <? k_consume (c_out c1))%nat = false) by (apply Nat.ltb_ge; lia). rewrite E0.
      exists c1. split; [|split; [exact H1|split; [exact F3|left; repeat split; assumption]]].
      rewrite F1 in A9. cbn [sg_olist app] in A9. unfold rs_sub. rewrite A9. reflexivity. }
  destruct Hcons as (c2 & E2 & H2 & Fr & Hcase).
  assert (Lp1 : length p1 = (length p + length u1 + 1)%nat) by (unfold p1; rewrite !app_length; cbn [length]; lia).
  assert (Nb1 : rs_treat_response_line_as_body (Some p1) = false) by (rewrite Hsh; apply sr_line_not_body).
  assert (Erd : (if (rd1 <? length p1)%nat then 0%nat else (rd1 - length p1)%nat) = rd).
  { destruct Htop as [E0|Ep].
    - destruct (rd1 <? length p1)%nat eqn:El; [symmetry; exact E0|]. apply Nat.ltb_ge in El. unfold rd1 in *. lia.
    - rewrite Ep in Lp1. cbn [length] in Lp1. assert (El : (rd1 <? length p1)%nat = false) by (apply Nat.ltb_ge; unfold rd1; lia). rewrite El. unfold rd1. lia. }
  (* the parser after the un-read *)
  set (c3 := rs_set_out (pr_unread_k (length p1) (length p)) c2).
  assert (H3 : pr_cin c3 d rd p None RES_FINALIZE (Some RES_FINALIZE) None t).
  { pose proof H2 as [A1 A2 A3 A4 A5 A6 A7 A8 A9 A10 A11 A12 A13 A14 A15 A16 A17 A18].
    pose proof (pr_unread_fields (length p1) (length p) (c_out c2)) as U. cbv zeta in U. rewrite A6, Erd in U. destruct U as (U1 & U2 & U3 & U4 & U5 & U6 & U7 & U8).
    assert (Uc : k_consume (pr_unread_k (length p1) (length p) (c_out c2)) = rd /\ sg_olist (k_buf (pr_unread_k (length p1) (length p) (c_out c2))) = p).
    { rewrite U4, U5. destruct Hcase as [(Bn & Bn2 & Cn2)|(b0 & Bs & Bs2 & Cs2)].
      - rewrite Bn2, Cn2, Nat.ltb_irrefl. rewrite Bn in Hbuf. cbn [sg_olist] in Hbuf. split; [reflexivity|exact Hbuf].
      - rewrite Bs2, Cs2. cbn [option_map sg_olist]. split.
        + destruct (rd <? rd1)%nat eqn:X; [reflexivity|]. apply Nat.ltb_ge in X. unfold rd1 in X. lia.
        + unfold p1. rewrite firstn_app, Nat.sub_diag, firstn_all. cbn [firstn]. apply app_nil_r. }
    destruct Uc as [Uc Ub].
    constructor; try assumption; unfold c3; cbn [rs_set_out c_out set]; cbn [c_out]; rewrite ?U1, ?U2, ?U3, ?U6, ?U7, ?U8, ?Uc, ?Ub; try assumption; try reflexivity; try lia.
    - rewrite Nat.sub_diag. cbn [firstn]. apply app_nil_r.
    - rewrite Fr. exact (pi_rcv _ _ _ _ _ _ _ _ _ H). }
  apply (nb_complete_iter c c3 d rd p t); try assumption.
  rewrite Es. cbn [rs_state_fn]. rewrite (pr_fin_head c d rd p t b H Hc Nb). fold c0. rewrite E1.
  unfold rs_finalize_tail. rewrite F1. rewrite E2. cbn [rs_dbytes]. fold (length p1).
  assert (Ez : (length p1 =? 0)%nat = false) by (apply Nat.eqb_neq; lia). rewrite Ez, Nb1.
  assert (Ebb : match k_buf (c_out c) with Some b0 => length b0 | None => 0%nat end = length p) by (rewrite <- Hbuf; destruct (k_buf (c_out c)); reflexivity).
  rewrite Ebb. reflexivity.
Qed.
End NbLine.

(* ================= one response, from any read offset; what follows the empty line is a parameter ================= *)
Section NbOne.
Variable cb : cb_oracle.
Variable g : cfg.
Hypothesis Hcb : wr_all_ok cb.
Context {w : pr_world}.
Notation pr_cin := (pr_cinw w).
Notation pr_mid := (pr_midw w).
Local Notation pr_line_scan_plain := (PPairLine.pr_line_scan_plain cb g).
Local Notation pr_line_loop_end := (PPairLine.pr_line_loop_end cb g).
Local Notation pr_line_loop_cr_end := (PPairLine.pr_line_loop_cr_end cb g).
Local Notation pr_iter_ok := (PPair.pr_iter_ok cb g).
Local Notation pr_exit_buffer := (PPair.pr_exit_buffer cb g Hcb).
Local Notation pr_hdrs_loop := (PPairHdr.pr_hdrs_loop cb g).
Local Notation pr_enter := (PPair.pr_enter cb g).
Local Notation pr_pass_idle := (PPairLine.pr_pass_idle cb g Hcb).
Variables ps s r : bytes.
Variable ls : list sg_fl.
Variable tl0 : tx.                                         (* the transaction when RES_LINE is entered *)
Variable rh0 : option nat.                                 (* the raw-data receiver in RES_LINE: none, or the one an interim response left *)
Variable btw : bytes.                                      (* the wire after the empty line of this response *)
Hypothesis Wl : sr_status_ok ps s r = true.
Hypothesis Okl : forallb sg_fl_ok ls = true.
Hypothesis Hnp0 : sg_needs_pending ls = false.
Let line0 := wr_ser_status_line ps s r.
Let th0 := (sr_tx_line tl0 line0) <| t_response_progress := c_HTP_RESPONSE_HEADERS |>.
Let Tend := sr_lrun ls (None, th0).
Let has_hdr := negb (sr_is_nil ls).
Hypothesis Hlim0 : (length line0 + 2 <= g_field_limit_hard g)%nat.
Hypothesis Hfit : sr_ffit (g_field_limit_hard g) (sr_p11 th0) None ls = true.
Let bwt := sg_fwire ls ++ [CR; LF] ++ btw.                 (* what follows the status line *)
Let hlog := sr_hlog g Tend btw has_hdr.
Variable okd : bytes -> bytes -> Prop.
Hypothesis Hokd : forall d rw', okd d rw' -> sr_f1_local btw has_hdr d rw'.

(* the states in which a call may end inside the status line / the header block of this response *)
Inductive nb_betw (c : connp) (rw : bytes) : Prop :=
| NW_line p q : pr_mid c p None RES_LINE rh0 tl0 -> p ++ q = line0 ++ [CR; LF] -> q <> [] -> rw = q ++ bwt -> nb_betw c rw
| NW_hdrs p hdr t : pr_mid c p hdr RES_HEADERS (Some H_RESPONSE_HEADER_DATA) t -> hlog hdr t p rw -> nb_betw c rw.

Variable goal : connp -> nat -> bytes -> Prop.
Hypothesis Hstep : forall c c' fuel rw', sr_iter cb g c = inr c' -> goal c' fuel rw' -> goal c (S fuel) rw'.
Hypothesis Hexit : forall c cF fuel rw', sr_iter cb g c = inl (cF, c_HTP_STREAM_DATA) -> nb_betw cF rw' -> rw' <> [] -> goal c (S fuel) rw'.
(* RES_BODY_DETERMINE is reached, with the transaction the header block made *)
Hypothesis Ktail : forall c d rd rw' fuel, okd d rw' ->
  pr_cin c d rd [] None RES_BODY_DETERMINE (Some RES_BODY_DETERMINE) (Some H_RESPONSE_HEADER_DATA) Tend ->
  skipn rd d ++ rw' = btw -> (8 * (length d - rd) + 15 <= fuel)%nat -> goal c fuel rw'.

(* ---- a call that is (or gets) in RES_HEADERS ---- *)
Lemma nb_hdrs_finish c d (rw' : bytes) fuel nn : okd d rw' ->
  c_out_state c = RES_HEADERS -> rs_state_fn cb g RES_HEADERS c = rs_headers_loop cb g nn false c ->
  ((exists c' p' hdr' t', rs_headers_loop cb g nn false c = (ST_DATA_BUFFER, c') /\
      pr_cin c' d (length d) p' hdr' RES_HEADERS (Some RES_HEADERS) (Some H_RESPONSE_HEADER_DATA) t' /\
      hlog hdr' t' p' rw' /\ rw' <> []) \/
   (exists c' rd1, rs_headers_loop cb g nn false c = (ST_OK, c') /\
      pr_cin c' d rd1 [] None RES_BODY_DETERMINE (Some RES_HEADERS) (Some H_RESPONSE_HEADER_DATA) Tend /\ skipn rd1 d ++ rw' = btw /\
      (8 * (length d - rd1) + 16 <= fuel)%nat)) ->
  (1 <= fuel)%nat -> goal c fuel rw'.
Proof.
  intros Hok Es Ef [HA|HB] Hf.
  - destruct HA as (c' & p' & hdr' & t' & EA & HA1 & HA2 & HA3).
    assert (Lim : (length p' + length (sg_olist hdr') <= g_field_limit_hard g)%nat).
    { destruct HA2 as (pe & te & re & q' & ea & Hr' & _ & _ & _ & _ & Hne & Hea & _ & Fit & _). pose proof (sr_ffit_next _ _ _ _ Fit) as L.
      pose proof (sr_rel_len _ _ _ _ _ Hr'). destruct ea.
      - destruct (Hea eq_refl) as (Er & Ep & _). subst re p'. cbn [sg_fnext length] in L |- *. lia.
      - destruct (Hne eq_refl) as (Epq & _). rewrite <- Epq, app_length in L. lia. }
    destruct (pr_exit_buffer c' d p' hdr' _ _ t' HA1 Lim) as (cF & EF & HF).
    destruct fuel as [|f]; [lia|].
    apply (Hexit c cF f rw'); [unfold sr_iter; rewrite Es, Ef, EA, EF; reflexivity| |exact HA3].
    apply (NW_hdrs _ _ p' hdr' t' HF HA2).
  - destruct HB as (c' & rd1 & EB & HB1 & HB2 & HB3). rewrite <- Ef in EB.
    rewrite <- Es in EB. destruct (pr_iter_ok c c' d rd1 _ _ _ _ _ _ EB HB1) as (c2 & E2 & H2); [discriminate|].
    destruct fuel as [|f]; [lia|]. apply (Hstep c c2 _ rw' E2). apply (Ktail c2 d rd1 rw' f Hok H2 HB2). lia.
Qed.

Lemma nb_hdr_fuel (d : bytes) rd rd1 fuel : (rd1 <= length d)%nat -> (rd <= rd1)%nat -> (8 * (length d - rd) + 16 <= fuel)%nat -> (8 * (length d - rd1) + 16 <= fuel)%nat.
Proof. lia. Qed.

(* the read offset does not go back in RES_HEADERS *)
Lemma nb_call_hdrs c d p hdr t (rw' : bytes) fuel : okd d rw' ->
  pr_cin c d 0 p hdr RES_HEADERS (Some RES_HEADERS) (Some H_RESPONSE_HEADER_DATA) t -> hlog hdr t p (d ++ rw') ->
  (8 * length d + 16 <= fuel)%nat -> goal c fuel rw'.
Proof.
  intros Hok H (pend & tl & rem & q & eaten & Hrel & Ok & Hnp & Hrun & Hprog & Hne & Hea & Hw & Hfit' & Hhh) Hf.
  assert (Es : c_out_state c = RES_HEADERS) by apply (pi_state _ _ _ _ _ _ _ _ _ H).
  assert (Ef : rs_state_fn cb g RES_HEADERS c = rs_headers_loop cb g (S (S (length d))) false c).
  { cbn [rs_state_fn]. unfold rs_RES_HEADERS, rs_bytes_fuel. rewrite (pi_len _ _ _ _ _ _ _ _ _ H), (pi_read _ _ _ _ _ _ _ _ _ H), Nat.sub_0_r. reflexivity. }
  apply (nb_hdrs_finish c d rw' fuel _ Hok Es Ef); [|lia].
  destruct (pr_hdrs_loop d rw' Tend btw has_hdr (Hokd _ _ Hok) rem c 0 p q hdr t pend tl (S (S (length d))) false eaten H Hrel Ok Hnp Hrun Hprog Hne Hea Hw Hfit' Hhh) as [HA|HB];
    [discriminate|left; reflexivity|intros _; left; reflexivity|lia| |].
  - left. exact HA.
  - right. destruct HB as (c' & rd1 & EB & HB1 & HB2). exists c', rd1. split; [exact EB|]. split; [exact HB1|]. split; [exact HB2|]. lia.
Qed.
Lemma nb_call_start c d rd (rw' : bytes) fuel : okd d rw' ->
  pr_cin c d rd [] None RES_HEADERS (Some RES_HEADERS) (Some H_RESPONSE_HEADER_DATA) th0 -> skipn rd d ++ rw' = bwt ->
  (8 * (length d - rd) + 16 <= fuel)%nat -> goal c fuel rw'.
Proof.
  intros Hok H Hw Hf. pose proof (pi_rd _ _ _ _ _ _ _ _ _ H) as Hrd.
  assert (Es : c_out_state c = RES_HEADERS) by apply (pi_state _ _ _ _ _ _ _ _ _ H).
  assert (Ef : rs_state_fn cb g RES_HEADERS c = rs_headers_loop cb g (S (S (length d - rd))) false c).
  { cbn [rs_state_fn]. unfold rs_RES_HEADERS, rs_bytes_fuel. rewrite (pi_len _ _ _ _ _ _ _ _ _ H), (pi_read _ _ _ _ _ _ _ _ _ H). reflexivity. }
  apply (nb_hdrs_finish c d rw' fuel _ Hok Es Ef); [|lia].
  destruct (pr_hdrs_loop d rw' Tend btw has_hdr (Hokd _ _ Hok) ls c rd [] (sg_fnext ls) None th0 None th0 (S (S (length d - rd))) false false H) as [HA|HB].
  - left. split; reflexivity.
  - exact Okl.
  - rewrite Hnp0. discriminate.
  - reflexivity.
  - reflexivity.
  - intros _. split; [reflexivity|apply sg_fnext_ne].
  - discriminate.
  - rewrite Hw. unfold bwt. apply sg_fwire_split.
  - exact Hfit.
  - apply sr_is_nil_false.
  - discriminate.
  - right. reflexivity.
  - discriminate.
  - lia.
  - left. exact HA.
  - right. destruct HB as (c' & rd1 & EB & HB1 & HB2). exists c', rd1. split; [exact EB|]. split; [exact HB1|]. split; [exact HB2|].
    (* rd <= rd1: the wire that remains after the header block is not longer than the one before it *)
    pose proof (pi_rd _ _ _ _ _ _ _ _ _ HB1) as Hrd1.
    assert (La : length (skipn rd d ++ rw') = length bwt) by (rewrite Hw; reflexivity).
    assert (Lb : length (skipn rd1 d ++ rw') = length btw) by (rewrite HB2; reflexivity).
    unfold bwt in La. rewrite !app_length, !skipn_length in *. lia.
Qed.

(* ---- RES_LINE: the rest of the chunk lies inside the status line ---- *)
Lemma nb_line_partial c d rd p hdr prev rh t u0 r0 nn : pr_cin c d rd p hdr RES_LINE prev rh t ->
  skipn rd d = u0 ++ r0 -> sr_plain u0 = true -> r0 = [] \/ r0 = [CR] -> (length d - rd < nn)%nat ->
  exists c', rs_line_loop cb g nn c = (ST_DATA_BUFFER, c') /\ pr_cin c' d (length d) (p ++ skipn rd d) hdr RES_LINE prev rh t.
Proof.
  intros H Hu Ps Hr0 Hn. pose proof (pi_rd _ _ _ _ _ _ _ _ _ H) as Hrd.
  assert (Lu : length (skipn rd d) = (length d - rd)%nat) by apply skipn_length. rewrite Hu, app_length in Lu.
  replace nn with (length u0 + S (nn - length u0 - 1))%nat by lia.
  destruct (pr_line_scan_plain d hdr prev rh t u0 c rd p (S (nn - length u0 - 1)) r0 H Hu Ps) as (c1 & E1 & H1 & R1). rewrite E1, Hu.
  destruct Hr0 as [E|E]; subst r0.
  - cbn [length] in Lu. assert (Erd : (rd + length u0)%nat = length d) by lia. rewrite Erd in H1. rewrite app_nil_r.
    exists c1. split; [apply (pr_line_loop_end c1 d _ hdr _ _ t _ H1)|exact H1].
  - destruct (pr_line_loop_cr_end c1 d _ _ hdr _ _ t (nn - length u0 - 1) H1 R1) as (c2 & E2 & H2).
    exists c2. split; [exact E2|]. rewrite <- app_assoc in H2. exact H2.
Qed.

(* ---- a call that is in RES_LINE ---- *)
Lemma nb_run_line c d rd p q (rw' : bytes) fuel : okd d rw' ->
  pr_cin c d rd p None RES_LINE (Some RES_LINE) rh0 tl0 ->
  p ++ q = line0 ++ [CR; LF] -> q <> [] -> skipn rd d ++ rw' = q ++ bwt ->
  (8 * (length d - rd) + 9 <= fuel)%nat -> goal c fuel rw'.
Proof.
  intros Hok H Hpq Hq Hw Hf. pose proof (pi_rd _ _ _ _ _ _ _ _ _ H) as Hrd.
  destruct (sr_status_line_shape ps s r Wl) as (Pl & _). fold line0 in Pl.
  destruct (sg_app_cases (skipn rd d) rw' q _ Hw) as [Clt Cge].
  assert (Es : c_out_state c = RES_LINE) by apply (pi_state _ _ _ _ _ _ _ _ _ H).
  assert (Lsk : length (skipn rd d) = (length d - rd)%nat) by apply skipn_length.
  destruct fuel as [|f]; [lia|].
  destruct (Nat.lt_ge_cases (length (skipn rd d)) (length q)) as [Llt|Lge].
  - (* the chunk ends inside the status line *)
    destruct (Clt Llt) as (q2 & Eq & Hq2 & Erw).
    assert (Hpq' : p ++ skipn rd d ++ q2 = line0 ++ [CR; LF]) by (rewrite <- Eq; exact Hpq).
    destruct (sr_prefix_shape line0 p (skipn rd d) q2 Pl Hpq' Hq2) as (u0 & r0 & Eu & Ps & Hr0).
    destruct (nb_line_partial c d rd p None _ rh0 _ u0 r0 (S (S (length d - rd))) H Eu Ps Hr0 ltac:(lia)) as (c' & E & H').
    assert (Lim : (length (p ++ skipn rd d) + length (sg_olist None) <= g_field_limit_hard g)%nat).
    { assert (L : length (p ++ skipn rd d ++ q2) = (length line0 + 2)%nat) by (rewrite Hpq', app_length; reflexivity). rewrite !app_length in L. rewrite app_length.
      cbn [sg_olist length]. lia. }
    destruct (pr_exit_buffer c' d _ None _ _ _ H' Lim) as (cF & EF & HF).
    apply (Hexit c cF f rw').
    + unfold sr_iter. rewrite Es. cbn [rs_state_fn]. unfold rs_RES_LINE, rs_bytes_fuel.
      rewrite (pi_len _ _ _ _ _ _ _ _ _ H), (pi_read _ _ _ _ _ _ _ _ _ H), E, EF. reflexivity.
    + apply (NW_line _ _ (p ++ skipn rd d) q2 HF); [rewrite <- app_assoc; exact Hpq'|exact Hq2|exact Erw].
    + rewrite Erw. destruct q2; [contradiction|discriminate].
  - (* the status line is complete in this chunk *)
    destruct (Cge Lge) as (d2 & Ed & Eaft).
    destruct (nb_pass_line cb g Hcb c d rd p q d2 rh0 _ ps s r Wl H Ed Hq Hpq Hlim0) as (c2 & E2 & H2 & Hr2).
    apply (Hstep c c2 f rw' E2).
    assert (Lq : (0 < length q)%nat) by (destruct q; [contradiction|cbn [length]; lia]).
    pose proof (pi_rd _ _ _ _ _ _ _ _ _ H2) as Hrd2.
    apply (nb_call_start c2 d _ rw' f Hok H2); [rewrite Hr2; symmetry; exact Eaft|lia].
Qed.

(* ---- RES_IDLE with the beginning of this response (the first response to its transaction) ---- *)
Lemma nb_run_idle t0 c d rd p q prev (rw' : bytes) fuel : tl0 = sr_tx_start t0 -> rh0 = None -> t_is_protocol_0_9 t0 = false -> okd d rw' ->
  pr_idle (w := w) c d rd p prev t0 -> (rd < length d)%nat ->
  p ++ q = line0 ++ [CR; LF] -> q <> [] -> skipn rd d ++ rw' = q ++ bwt ->
  (8 * (length d - rd) + 10 <= fuel)%nat -> goal c fuel rw'.
Proof.
  intros Et Er H09 Hok H Hlt Hpq Hq Hw Hf.
  destruct (pr_pass_idle c d rd p prev t0 H Hlt H09) as (c1 & E1 & H1).
  destruct fuel as [|f]; [lia|].
  apply (Hstep c c1 f rw' E1).
  apply (nb_run_line c1 d rd p q rw' f Hok); [rewrite Et, Er; exact H1|exact Hpq|exact Hq|exact Hw|lia].
Qed.

(* ---- one call of htp_connp_res_data that starts inside the status line / header block of this response ---- *)
Lemma nb_betw_finish c rw : nb_betw c rw -> nb_betw (forget_chunks c <| c_events := [] |>) rw.
Proof.
  intros [p q Hm Hpq Hq Erw|p hdr t Hm Hl].
  - apply (NW_line _ _ p q (pr_mid_finish _ _ _ _ _ _ _ Hm) Hpq Hq Erw).
  - apply (NW_hdrs _ _ p hdr t (pr_mid_finish _ _ _ _ _ _ _ Hm) Hl).
Qed.
Lemma nb_step c (rw x rw' : bytes) : nb_betw c rw -> x <> [] -> rw = x ++ rw' -> okd x rw' ->
  exists c1, connp_res_data cb g (Some x) (length x) c = rs_res_loop cb g (rs_res_fuel (length x)) false c1 /\
             goal c1 (rs_res_fuel (length x)) rw'.
Proof.
  intros [p q Hm Hpq Hq Erw|p hdr t Hm Hl] Hne Ex Hok.
  - destruct (pr_enter c p None _ _ _ x Hm Hne) as (c1 & E1 & H1). exists c1. split; [exact E1|].
    apply (nb_run_line c1 x 0 p q rw' _ Hok H1 Hpq Hq); [cbn [skipn]; rewrite <- Ex; exact Erw|unfold rs_res_fuel; lia].
  - destruct (pr_enter c p hdr _ _ t x Hm Hne) as (c1 & E1 & H1). exists c1. split; [exact E1|].
    apply (nb_call_hdrs c1 x p hdr t rw' _ Hok H1); [rewrite <- Ex; exact Hl|unfold rs_res_fuel; lia].
Qed.
(* a state between two calls inside this response has wire left *)
Lemma nb_betw_ne c rw : nb_betw c rw -> rw <> [].
Proof.
  intros [p q _ _ Hq Erw|p hdr t _ Hl].
  - rewrite Erw. destruct q; [contradiction|discriminate].
  - destruct Hl as (pend & tl & rem & q & ea & _ & _ & _ & _ & _ & Hne & Hea & E & _). rewrite E. destruct ea.
    + destruct (Hea eq_refl) as (_ & _ & Eq & _). subst q. discriminate.
    + destruct (Hne eq_refl) as (_ & Hq). destruct q; [contradiction|discriminate].
Qed.
End NbOne.
