(* C06, history level, response direction, close-delimited bodies: request in one chunk, then a grammar response without
   Content-Length and Transfer-Encoding, its body being every byte up to htp_connp_close, head and body delivered in ANY
   non-empty chunking (outside the F1 hazard), then OpClose: the RESPONSE_BODY_DATA / RESPONSE_COMPLETE events of the
   response calls and of the close are data events with non-empty payloads that concatenate to exactly the body, in order,
   then ONE end-of-body marker -- delivered by htp_connp_close --, then RESPONSE_COMPLETE (dv_response_close_delivery).
   The request half of htp_connp_close runs the request-side raw-data receiver if one is installed: none is (PDelivResIn.v). *)
Require Import Htp.Model.Base Htp.Model.MBstr Htp.Model.MConnTypes Htp.Model.MTxCommon Htp.Model.MResLine Htp.Model.MTxRes.
Require Import Htp.Model.MReq Htp.Model.MRes Htp.Model.MConnp.
Require Import Htp.Spec.SWire Htp.Spec.SBody Htp.Proof.PBody Htp.Proof.PWire Htp.Proof.PWireHdr Htp.Proof.PWireBlock Htp.Proof.PWireConn Htp.Proof.PWireExch.
Require Import Htp.Proof.PWireRun Htp.Proof.PWirePres Htp.Proof.PWireGlue Htp.Proof.PSeg Htp.Proof.PSegLine Htp.Proof.PSegHdr Htp.Proof.PSegGen Htp.Proof.PSegRun.
Require Import Htp.Proof.PSegFold Htp.Proof.PSegRes Htp.Proof.PSegResLine Htp.Proof.PSegResHdr Htp.Proof.PSegResGen Htp.Proof.PSegResRun Htp.Proof.PSegResReq Htp.Proof.PSegResThm.
Require Import Htp.Proof.PSegResChGen Htp.Proof.PSegResClose Htp.Proof.PBodyRes.
Require Import Htp.Proof.PDeliv Htp.Proof.PDelivReqBody Htp.Proof.PDelivRes Htp.Proof.PDelivResBody Htp.Proof.PDelivResF Htp.Proof.PDelivResIn.

(* ================= no request-side receiver after the request ================= *)
Lemma dv_after_req_qin : forall cb g r, wr_all_ok cb -> g_allow_space_uri g = false -> wr_request_ok r = true ->
  dv_qin (dv_after_req cb g (wr_request_wire r)).
Proof.
  intros cb g [m u p fs] Hcb Hsp Wr. unfold dv_after_req.
  set (c0 := forget_chunks (connp_open connp_new) <| c_events := [] |>).
  assert (Ecp : fst (cp_run cb g connp_new [OpOpen; OpReqData (wr_request_wire (mk_wr_request m u p fs))]) =
                forget_chunks (fst (connp_req_data cb g (Some (wr_request_wire (mk_wr_request m u p fs))) (length (wr_request_wire (mk_wr_request m u p fs))) c0)) <| c_events := [] |>).
  { unfold cp_run, cp_step, finish_call. fold c0. destruct (connp_req_data cb g _ _ c0) as [c rc]. reflexivity. }
  rewrite Ecp. clear Ecp.
  unfold wr_request_ok in Wr. cbn [wq_method wq_uri wq_protocol wq_fields] in Wr.
  apply andb_prop in Wr. destruct Wr as [Wr Wc]. apply andb_prop in Wr. destruct Wr as [Wr Wnf]. apply andb_prop in Wr. destruct Wr as [Wl Wb].
  apply negb_true_iff in Wnf. apply negb_true_iff in Wc.
  unfold wr_request_wire. cbn [wq_method wq_uri wq_protocol wq_fields].
  set (d := wr_ser_request m u p fs).
  assert (Ed : d = wr_ser_request_line m u p ++ [CR; LF] ++ (wr_block_wire fs ++ [CR; LF])) by reflexivity.
  assert (Hne : d <> []).
  { rewrite Ed. destruct (wr_reqline_bytes m u p Wl) as (_ & _ & (m0 & y & l & E & _)). rewrite E. discriminate. }
  assert (Hlen0 : (length d =? 0)%nat = false) by (destruct d; [contradiction|reflexivity]).
  unfold connp_req_data. change (c_in_status c0) with c_HTP_STREAM_OPEN.
  change ((c_HTP_STREAM_OPEN =? c_HTP_STREAM_STOP)%Z) with false. change ((c_HTP_STREAM_OPEN =? c_HTP_STREAM_ERROR)%Z) with false. cbv iota.
  change (c_in_tx c0) with (@None nat). change (c_in_state c0) with REQ_IDLE. cbn [req_state_eqb negb]. rewrite Hlen0. cbn [andb].
  match goal with |- context [rq_loop cb g _ _ ?x] => set (c1 := x) end.
  assert (St1 : (c_in_status (rq_set_in (fun k => k <| k_data := Some d |> <| k_len := length d |> <| k_read := 0%nat |> <| k_consume := 0%nat |> <| k_receiver := 0%nat |>) c0
                   <| c_in_chunk_count ::= S |> <| c_in_data_counter ::= Z.add (Z.of_nat (length d)) |>) =? c_HTP_STREAM_TUNNEL)%Z = false) by reflexivity.
  rewrite St1 in *. clear St1.
  assert (Idle1 : wr_idle c1 d) by (unfold c1; constructor; reflexivity).
  clearbody c1.
  replace (rq_fuel (length d)) with (S (S (S (S (S (S (S (S (16 * length d + 8))))))))) by (unfold rq_fuel; lia).
  destruct (wr_pass_idle cb g Hcb c1 d Idle1 Hne) as (c2 & E1 & Inv2). rewrite wr_rq_loop_S, E1.
  destruct (wr_pass_line cb g Hcb Hsp c2 d wr_t1 m u p (wr_block_wire fs ++ [CR; LF]) Inv2 eq_refl Wl Ed) as (c3 & t3 & E2 & Inv3 & F3 & Hh3 & Hr3 & Pg3 & Rp3 & (nu & Pu3)).
  rewrite wr_rq_loop_S, E2.
  set (r1 := (length (wr_ser_request_line m u p) + 2)%nat) in *.
  assert (Z3 : t_is_protocol_0_9 t3 = false) by (unfold wr_line_fields in F3; decompose [and] F3; assumption).
  destruct (wr_pass_protocol cb g c3 d r1 t3 Inv3 Z3) as (c4 & E3 & Inv4). rewrite wr_rq_loop_S, E3.
  set (t4 := t3 <| t_request_progress := c_HTP_REQUEST_HEADERS |>) in *.
  assert (Hseg : wr_seg_at d r1 (wr_block_wire fs ++ [CR; LF])).
  { exists (wr_ser_request_line m u p ++ [CR; LF]), []. split; [rewrite app_nil_r, Ed, <- !app_assoc; reflexivity|unfold r1; rewrite app_length; reflexivity]. }
  assert (Hlen : length d = (r1 + length (wr_block_wire fs) + 2)%nat) by (rewrite Ed, !app_length; unfold r1; cbn [length]; lia).
  destruct (wr_pass_headers cb g Hcb c4 d r1 t4 fs nu Inv4 eq_refl Hh3 Hr3 Pu3 Wb Wnf Hseg Hlen) as (c5 & t5 & E4 & Inv5 & Hd5 & K5 & Tc5).
  rewrite wr_rq_loop_S, E4.
  unfold wr_keep_l in K5. destruct K5 as (K51 & K52 & K53 & K54 & K55 & K56 & K57 & K58 & K59).
  unfold wr_line_fields in F3. destruct F3 as (F31 & F32 & F33 & F34 & F35 & F36).
  assert (M5 : (t_request_method_number t5 =? c_HTP_M_CONNECT)%Z = false).
  { rewrite K52. change (t_request_method_number t4) with (t_request_method_number t3). rewrite F32. apply wr_not_connect. exact Wc. }
  destruct (wr_pass_connect_check cb g c5 d _ _ _ t5 Inv5 M5) as (c6 & E5 & Inv6). rewrite wr_rq_loop_S, E5.
  destruct (wr_pass_body_determine cb g c6 d _ _ _ t5 Inv6 Tc5) as (c7 & E6 & Inv7). rewrite wr_rq_loop_S, E6.
  assert (Pg5 : t_request_progress t5 = c_HTP_REQUEST_HEADERS) by (rewrite K57; reflexivity).
  assert (Rp5 : (t_response_progress t5 =? c_HTP_RESPONSE_COMPLETE)%Z = false).
  { rewrite K58. change (t_response_progress t4) with (t_response_progress t3). rewrite Rp3. reflexivity. }
  assert (Z5 : t_is_protocol_0_9 t5 = false) by (rewrite K56; exact Z3).
  destruct (wr_pass_finalize cb g Hcb c7 d t5 Inv7 Tc5 Pg5 Rp5 Z5) as (c8 & E7 & Dn8 & St8 & Ln8 & Rd8 & Rh8). rewrite wr_rq_loop_S, E7.
  rewrite wr_rq_loop_S, (wr_pass_idle_end cb g c8 _ (length d) Dn8 St8 Ln8 Rd8 Rh8). cbn [fst].
  unfold dv_qin. cbn. unfold forget_one. destruct (k_data (c_in c8)); cbn; exact Rh8.
Qed.

Section CloseE.
Variable cb : cb_oracle.
Variable g : cfg.
Hypothesis Hcb : wr_all_ok cb.

(* one pass of RES_BODY_IDENTITY_STREAM_CLOSE: the event it appends *)
Lemma dv_sclose_events c d rd t k : sr_cin c d rd [] None RES_BODY_IDENTITY_STREAM_CLOSE (Some RES_BODY_IDENTITY_STREAM_CLOSE) None (sr_body_add' k t) ->
  t_res_cep t = c_HTP_COMPRESSION_NONE ->
  forall c' rc, sr_iter cb g c = inl (c', rc) ->
  dv_sb c' = match (length d - rd)%nat with O => dv_sb c | S _ => dv_data SB 0 (skipn rd d) :: dv_sb c end.
Proof.
  intros H Hcep c' rc Ei. pose proof H as [A1 A2 A3 A4 A5 A6 A7 A8 A9 A10 A11 A12 A13 A14 A15 A16 A17].
  assert (Ef : rs_state_fn cb g (c_out_state c) c = rs_RES_BODY_IDENTITY_STREAM_CLOSE cb c) by (rewrite A2; reflexivity).
  unfold rs_RES_BODY_IDENTITY_STREAM_CLOSE in Ef. rewrite A5, A6 in Ef.
  assert (E1 : (length d <? rd)%nat = false) by (apply Nat.ltb_ge; lia). rewrite E1 in Ef.
  assert (Rk : dv_sok c) by (eapply dv_scin_sok; [exact H|apply dv_sneqN]).
  destruct (length d - rd)%nat as [|j'] eqn:Ej.
  - cbn [Nat.eqb] in Ef. unfold rs_closed in Ef. rewrite (sg_live_closed _ A1) in Ef.
    apply (dv_siter_after_inl cb g Hcb c _ c c' rc Ef Ei Rk).
  - rewrite <- Ej in *. set (j := (length d - rd)%nat) in *.
    assert (Ej0 : (j =? 0)%nat = false) by (apply Nat.eqb_neq; lia). rewrite Ej0 in Ef.
    unfold rs_body_slice in Ef. rewrite A4, A6 in Ef.
    assert (Esl : firstn j (skipn rd d) = skipn rd d) by (apply firstn_all2; rewrite skipn_length; unfold j; lia). rewrite Esl in Ef.
    assert (Hcep' : t_res_cep (sr_body_add' k t) = c_HTP_COMPRESSION_NONE) by (destruct (sr_body_add'_facts k t) as (X & _); rewrite X; exact Hcep).
    destruct (dv_sprocess_body cb Hcb c d rd [] None _ _ None _ (Some (skipn rd d)) j H Hcep' ltac:(cbv beta iota; lia)) as (c1 & E1' & H1 & _ & V1).
    rewrite E1' in Ef.
    assert (R1 : dv_sok (rs_advance j c1)).
    { unfold dv_sok. change (k_receiver_hook (c_out (rs_advance j c1))) with (k_receiver_hook (c_out c1)). rewrite (ri_rh _ _ _ _ _ _ _ _ _ H1). apply dv_sneqN. }
    match type of Ef with _ = (let '(rc0, c0) := (ST_OK, ?x) in _) => idtac | _ => idtac end.
    cbv beta iota in Ef. unfold rs_closed in Ef.
    change (c_out_status (rs_advance j c1)) with (c_out_status c1) in Ef. rewrite (sg_live_closed _ (ri_status _ _ _ _ _ _ _ _ _ H1)) in Ef.
    rewrite (proj1 (dv_siter_after_inl cb g Hcb c _ _ c' rc Ef Ei R1)). exact V1.
Qed.

(* ---- the request half of htp_connp_close: no event when no request-side receiver is installed ---- *)
Lemma dv_req_close_events c : c_in_tx c = None -> (c_out_status c =? c_HTP_STREAM_DATA_OTHER)%Z = false -> dv_qin c ->
  c_events (fst (connp_req_data cb g None 0 c)) = c_events c.
Proof.
  intros Hin Ho Q. unfold connp_req_data.
  destruct (c_in_status c =? c_HTP_STREAM_STOP)%Z; [reflexivity|]. destruct (c_in_status c =? c_HTP_STREAM_ERROR)%Z; [reflexivity|].
  rewrite Hin. destruct (req_state_eqb (c_in_state c) REQ_IDLE) eqn:Es; cbn [negb andb].
  2: { destruct (c_in_status c =? c_HTP_STREAM_TUNNEL)%Z eqn:Et; cbn [negb]; [|reflexivity].
       cbn [Nat.eqb andb]. destruct (negb (c_in_status c =? c_HTP_STREAM_CLOSED)%Z); [reflexivity|]. cbv zeta.
       match goal with |- context [(c_in_status ?y =? c_HTP_STREAM_TUNNEL)%Z] => change (c_in_status y) with (c_in_status c) end.
       rewrite Et. reflexivity. }
  assert (Est : c_in_state c = REQ_IDLE) by (destruct (c_in_state c); try discriminate; reflexivity).
  cbn [Nat.eqb andb]. destruct (negb (c_in_status c =? c_HTP_STREAM_CLOSED)%Z); [reflexivity|].
  match goal with |- context [rq_loop cb g _ _ ?x] => set (c2 := x) end.
  match goal with |- context [(c_in_status ?y =? c_HTP_STREAM_TUNNEL)%Z] => destruct (c_in_status y =? c_HTP_STREAM_TUNNEL)%Z; [reflexivity|] end.
  assert (E2 : c2 = rq_set_in (fun k => k <| k_data := None |> <| k_len := 0%nat |> <| k_read := 0%nat |> <| k_consume := 0%nat |> <| k_receiver := 0%nat |>) c
                      <| c_in_chunk_count ::= S |> <| c_in_data_counter ::= Z.add (Z.of_nat 0) |>).
  { unfold c2. match goal with |- context [(c_out_status ?y =? c_HTP_STREAM_DATA_OTHER)%Z] => change (c_out_status y) with (c_out_status c) end. rewrite Ho. reflexivity. }
  assert (F2 : c_events c2 = c_events c) by (rewrite E2; reflexivity).
  assert (S2 : c_in_state c2 = REQ_IDLE) by (rewrite E2; exact Est).
  assert (L2 : rq_at_end c2 = true) by (rewrite E2; reflexivity).
  assert (Q2 : k_receiver_hook (c_in c2) = None) by (rewrite E2; exact Q).
  clearbody c2. change (rq_fuel 0) with 16%nat. change (0 <? 0)%nat with false. rewrite wr_rq_loop_S.
  unfold rq_iter. cbv zeta. rewrite S2. cbn [rq_state_fn]. unfold REQ_IDLE_fn. rewrite L2.
  unfold rq_exit, req_receiver_send_data. rewrite Q2. cbn [fst]. exact F2.
Qed.

(* ---- htp_tx_state_response_complete_ex on the transaction being answered: the end-of-body marker, then RESPONSE_COMPLETE ---- *)
Lemma dv_txi_end_marker c t : sr_txi c t -> t_res_cep t = c_HTP_COMPRESSION_NONE ->
  exists c', tx_res_process_body_data_ex cb 0 None 0 c = (ST_OK, c') /\ sr_txi c' (sr_body_add 0 t) /\ sr_ofc c' = sr_ofc c /\ c_out_state c' = c_out_state c /\
             dv_sb c' = dv_marker SB 0 false :: dv_sb c.
Proof.
  intros H Hcep. unfold tx_res_process_body_data_ex.
  rewrite (sr_txi_upd0 c t _ H).
  set (t1 := t <| t_response_message_len ::= Z.add (Z.of_nat 0) |>). set (c1 := c <| c_txs := [Some t1] |>).
  assert (H1 : sr_txi c1 t1) by (eapply sr_txi_txs; exact H).
  rewrite (sr_txi_get c1 _ H1). change (t_res_cep t1) with (t_res_cep t). rewrite Hcep, Z.eqb_refl.
  rewrite (sr_txi_upd0 c1 t1 _ H1).
  set (c2 := c1 <| c_txs := [Some (t1 <| t_response_entity_len ::= Z.add (Z.of_nat 0) |>)] |>).
  assert (H2 : sr_txi c2 (sr_body_add 0 t)) by (eapply sr_txi_txs; exact H1).
  unfold res_run_hook_body_data. rewrite (xi_tx _ _ H2).
  destruct (sr_txi_tx_hooks (t_hook_response_body (tx_get c2 0)) H_TX_RESPONSE_BODY_DATA 0 None false c2 _ H2) as (H3 & B1 & B2 & B3 & B4 & B5).
  destruct (dv_run_tx_hooks_sb (t_hook_response_body (tx_get c2 0)) H_TX_RESPONSE_BODY_DATA 0 None false c2 eq_refl) as [V3 _].
  unfold run_data_hook. rewrite (wr_run_hook_ex cb Hcb).
  eexists. split; [reflexivity|]. split; [apply sr_txi_hook; exact H3|]. split; [|split].
  - unfold sr_ofc. cbn [wr_hook_ev emit bump_hook c_out c_out_status c_out_state_previous c_in_status set]. cbn. rewrite B1, B2, B4, B5. reflexivity.
  - cbn. rewrite B3. reflexivity.
  - match goal with |- dv_sb (wr_hook_ev _ _ _ _ ?x) = _ => change (dv_sb (wr_hook_ev SB 0 None false x)) with (dv_marker SB 0 false :: dv_sb x) end.
    rewrite V3. reflexivity.
Qed.
Lemma dv_response_complete_at c t : sr_txi c t ->
  t_res_cep t = c_HTP_COMPRESSION_NONE -> (t_response_transfer_coding t =? c_HTP_CODING_NO_BODY)%Z = false ->
  (t_response_progress t =? c_HTP_RESPONSE_COMPLETE)%Z = false -> t_request_progress t = c_HTP_REQUEST_COMPLETE ->
  dv_sb (snd (rs_response_complete cb g c)) = dv_done SC 0 :: dv_marker SB 0 false :: dv_sb c.
Proof.
  intros H Hcep Hcod Hprog Hreq.
  unfold rs_response_complete. rewrite (xi_tx _ _ H). unfold tx_state_response_complete_ex.
  rewrite (sr_txi_get c t H), Hprog. cbn [negb].
  rewrite (sr_txi_upd0 c t _ H).
  set (t1 := t <| t_response_progress := c_HTP_RESPONSE_COMPLETE |>). set (c1 := c <| c_txs := [Some t1] |>).
  assert (H1 : sr_txi c1 t1) by (eapply sr_txi_txs; exact H).
  rewrite (sr_txi_get c1 _ H1). change (t_response_transfer_coding t1) with (t_response_transfer_coding t). rewrite Hcod. cbn [negb].
  destruct (dv_txi_end_marker c1 t1 H1 Hcep) as (c2 & E2 & H2 & F2 & S2 & V2). rewrite E2. cbn [snd].
  fold (sr_tcomplete t) in H2.
  rewrite (wr_run_hook cb Hcb). unfold res_receiver_finalize_clear.
  set (c3 := wr_hook_ev H_RESPONSE_COMPLETE 0 None false c2).
  assert (H3 : sr_txi c3 (sr_tcomplete t)) by (apply sr_txi_hook; exact H2).
  assert (V3 : dv_sb c3 = dv_done SC 0 :: dv_marker SB 0 false :: dv_sb c) by (change (dv_sb c3) with (dv_done SC 0 :: dv_sb c2); rewrite V2; reflexivity).
  rewrite (xi_rh _ _ H3). cbv zeta. rewrite (xi_intx _ _ H3), (xi_tx _ _ H3), andb_false_r. cbn [negb andb].
  rewrite (xi_other _ _ H3).
  pose proof (bd_tx_finalize_ext cb g 0 c3) as (X & EX & FX).
  assert (VX : dv_sb (snd (tx_finalize cb g 0 c3)) = dv_sb c3).
  { unfold dv_sb. rewrite EX, dv_selp_app. assert (Z0 : dv_selp dv_rs_hook X = []).
    { clear - FX. induction FX as [|e l He F IH]; [reflexivity|]. unfold dv_selp in *. cbn [filter]. rewrite He. exact IH. }
    rewrite Z0. reflexivity. }
  destruct (tx_finalize cb g 0 c3) as [rf cf]. cbn [snd] in VX.
  destruct rf; cbn [snd]; first [rewrite VX; exact V3 | change (dv_sb (cf <| c_out_tx := None |> <| c_out_state := RES_IDLE |>)) with (dv_sb cf); rewrite VX; exact V3].
Qed.

(* ---- htp_connp_close when the whole response wire has been delivered: its events ---- *)
Lemma dv_connp_close_events c t : sr_mid c [] None RES_BODY_IDENTITY_STREAM_CLOSE None t -> c_events c = [] -> dv_qin c ->
  t_res_cep t = c_HTP_COMPRESSION_NONE -> (t_response_transfer_coding t =? c_HTP_CODING_NO_BODY)%Z = false ->
  (t_response_progress t =? c_HTP_RESPONSE_COMPLETE)%Z = false -> t_request_progress t = c_HTP_REQUEST_COMPLETE ->
  dv_sb (connp_close cb g c) = [dv_done SC 0; dv_marker SB 0 false].
Proof.
  intros [A1 A2 A3 A4 A5 A6 A7 A8 A9 A10 A11] Hev Q Hcep Hcod Hprog Hreq. unfold connp_close.
  set (ca := if negb (c_in_status c =? c_HTP_STREAM_ERROR)%Z then c <| c_in_status := c_HTP_STREAM_CLOSED |> else c).
  assert (Fa : sr_ofr ca = sr_ofr c) by (unfold ca; destruct (negb _); reflexivity).
  assert (Ea : c_out_status ca = c_out_status c) by (unfold ca; destruct (negb _); reflexivity).
  assert (Va : c_events ca = [] /\ dv_qin ca) by (unfold ca; destruct (negb _); split; assumption).
  rewrite Ea, (sg_live_error _ A1). cbn [negb].
  set (cc := ca <| c_out_status := c_HTP_STREAM_CLOSED |>).
  destruct (sr_ofr_split _ _ Fa) as (_ & G2 & G3 & G4 & G5 & G6 & G7 & G8 & G9).
  assert (Icc : c_in_tx cc = None) by (unfold cc; cbn [c_in_tx set]; rewrite G8; exact A10).
  destruct (sr_ofr_split _ _ (sr_req_close_frame cb g Hcb cc Icc eq_refl)) as (R1 & R2 & R3 & R4 & R5 & R6 & R7 & R8 & R9).
  assert (Vr : c_events (fst (connp_req_data cb g None 0 cc)) = []).
  { rewrite (dv_req_close_events cc Icc eq_refl); [exact (proj1 Va)|exact (proj2 Va)]. }
  set (cr := fst (connp_req_data cb g None 0 cc)) in *. clearbody cr.
  change (c_out_status cc) with c_HTP_STREAM_CLOSED in R1. change (c_out_state cc) with (c_out_state ca) in R2. change (c_out_state_previous cc) with (c_out_state_previous ca) in R3.
  change (c_out cc) with (c_out ca) in R4. change (c_out_tx cc) with (c_out_tx ca) in R5. change (c_txs cc) with (c_txs ca) in R6.
  change (c_txs_shifted cc) with (c_txs_shifted ca) in R7. change (c_in_tx cc) with (c_in_tx ca) in R8. change (c_out_data_other_at_tx_end cc) with (c_out_data_other_at_tx_end ca) in R9.
  rewrite G2 in R2. rewrite G3 in R3. rewrite G4 in R4. rewrite G5 in R5. rewrite G6 in R6. rewrite G7 in R7. rewrite G8 in R8. rewrite G9 in R9.
  clear Fa Ea Icc G2 G3 G4 G5 G6 G7 G8 G9 Va. clearbody cc. clear ca.
  unfold connp_res_data. rewrite R1, R5, A7.
  change ((c_HTP_STREAM_CLOSED =? c_HTP_STREAM_STOP)%Z) with false. change ((c_HTP_STREAM_CLOSED =? c_HTP_STREAM_ERROR)%Z) with false. cbv iota.
  unfold rs_closed. rewrite R1. change ((c_HTP_STREAM_CLOSED =? c_HTP_STREAM_CLOSED)%Z) with true. cbn [Nat.eqb negb andb].
  match goal with |- context [rs_res_loop cb g _ _ ?y] => set (c1 := y) end.
  match goal with |- context [(c_out_status ?y =? c_HTP_STREAM_TUNNEL)%Z] => change (c_out_status y) with (c_out_status cr) end.
  rewrite R1. change ((c_HTP_STREAM_CLOSED =? c_HTP_STREAM_TUNNEL)%Z) with false. cbv iota.
  assert (H1 : sr_cl c1 RES_BODY_IDENTITY_STREAM_CLOSE (Some RES_BODY_IDENTITY_STREAM_CLOSE) t /\ c_events c1 = []).
  { unfold c1. split; [|exact Vr]. constructor; cbn [c_out_status c_out_state c_out_state_previous c_out set rs_set_out k_data k_len k_read k_consume k_buf]; try reflexivity.
    - exact R1.
    - rewrite R2. exact A2.
    - rewrite R3. exact A3.
    - cbn. rewrite R4. exact A4.
    - constructor; cbn; rewrite ?R4, ?R5, ?R6, ?R7, ?R8, ?R9; assumption. }
  clearbody c1. destruct H1 as [H1 V1]. change (rs_res_fuel 0) with (S (S (S 61))). change (0 <? 0)%nat with false.
  assert (Sok : forall x tt st pv, sr_cl x st pv tt -> dv_sok x) by (intros x tt st pv Hx; unfold dv_sok; rewrite (xi_rh _ _ (cl_txi _ _ _ _ Hx)); apply dv_sneqN).
  (* pass 1: RES_BODY_IDENTITY_STREAM_CLOSE -> RES_FINALIZE, no event *)
  destruct (sr_cl_pass1 cb g c1 t H1) as (c2 & E2 & H2). rewrite (sr_loop_inr cb g _ _ _ E2).
  assert (V2 : dv_sb c2 = []).
  { assert (Ef : rs_state_fn cb g (c_out_state c1) c1 = (ST_OK, rs_set_state RES_FINALIZE c1)).
    { rewrite (cl_state _ _ _ _ H1). cbn [rs_state_fn]. apply (bd_rs_stream_close_at_close cb); [rewrite (cl_status _ _ _ _ H1); reflexivity|rewrite (cl_len _ _ _ _ H1), (cl_read _ _ _ _ H1); reflexivity]. }
    rewrite (proj1 (dv_siter_after_inr cb g Hcb c1 _ _ c2 Ef E2 (Sok _ _ _ _ H1))). unfold dv_sb. change (c_events (rs_set_state RES_FINALIZE c1)) with (c_events c1). rewrite V1. reflexivity. }
  (* pass 2: RES_FINALIZE -> htp_tx_state_response_complete_ex *)
  destruct (sr_cl_pass2 cb g Hcb c2 t H2 Hcep Hcod Hprog Hreq) as (c3 & E3 & T3 & S3 & L3 & D3 & Rh3). rewrite (sr_loop_inr cb g _ _ _ E3).
  assert (V3 : dv_sb c3 = [dv_done SC 0; dv_marker SB 0 false]).
  { pose proof H2 as [B1 B2 B3 B4 B5 B6 B7 B8 B9].
    assert (Etail : rs_finalize_tail cb g c2 = rs_response_complete cb g c2).
    { unfold rs_finalize_tail, rs_consolidate, rs_res_buffer. destruct (k_buf (c_out c2)) as [[|b0 bb]|] eqn:Eb; [| cbn [sg_olist] in B8; discriminate |].
      - rewrite B4. rewrite Eb. reflexivity.
      - rewrite B4, B6, B7. reflexivity. }
    assert (Ef : rs_state_fn cb g (c_out_state c2) c2 = rs_response_complete cb g c2).
    { rewrite B2. cbn [rs_state_fn]. unfold rs_RES_FINALIZE, rs_closed. rewrite B1. change ((c_HTP_STREAM_CLOSED =? c_HTP_STREAM_CLOSED)%Z) with true. cbn [negb]. exact Etail. }
    pose proof (dv_response_complete_at c2 t B9 Hcep Hcod Hprog Hreq) as VR.
    destruct (sr_response_complete_at cb g Hcb c2 t B9 Hcep Hcod Hprog Hreq) as (cR & ER & _ & _ & OR & _ & _).
    rewrite ER in Ef, VR. cbn [snd] in VR.
    assert (RR : dv_sok cR) by (unfold dv_sok; rewrite OR, (xi_rh _ _ B9); apply dv_sneqN).
    rewrite (proj1 (dv_siter_after_inr cb g Hcb c2 _ cR c3 Ef E3 RR)), VR, V2. reflexivity. }
  (* pass 3: RES_IDLE with nothing to read *)
  rewrite sr_loop_S. unfold sr_iter. rewrite S3. cbn [rs_state_fn]. unfold rs_RES_IDLE, rs_has_byte. rewrite L3, D3. cbn [Nat.ltb Nat.leb negb].
  unfold rs_res_exit, res_receiver_send_data. rewrite Rh3. cbn [snd fst]. exact V3.
Qed.
End CloseE.

(* ================= the body phase, up to the last data call ================= *)
Section CloseRunE.
Variable cb : cb_oracle.
Variable g : cfg.
Hypothesis Hcb : wr_all_ok cb.
Variables ps s r : bytes.
Variable ls : list sg_fl.
Variable body : bytes.
Variable t0 : tx.
Let line0 := wr_ser_status_line ps s r.
Let th0 := sr_th0 t0 line0.
Let Tend := sr_lrun ls (None, th0).
Let n := length body.
Let TH := sr_hdrs_tx_close Tend.
Hypothesis Hframe : sr_frame_close_ok Tend = true.
Variable bwt : bytes.
Variable hlog : option bytes -> tx -> bytes -> bytes -> Prop.

Definition dv_sclfin (L : list event) (c : connp) : Prop := sr_clfin ps s r ls body t0 c /\ dv_pieces SB 0 L body.
Definition dv_sclext (L : list event) (c : connp) (rw : bytes) : Prop :=
  exists k, (k < n)%nat /\ sr_mid c [] None RES_BODY_IDENTITY_STREAM_CLOSE None (sr_body_add' k TH) /\ rw = skipn k body /\ dv_pieces SB 0 L (firstn k body).
Let post := dv_spostF ps s r t0 bwt hlog dv_sclfin dv_sclext.

Lemma dv_sclose_run c d rd k (rw' : bytes) F L :
  sr_cin c d rd [] None RES_BODY_IDENTITY_STREAM_CLOSE (Some RES_BODY_IDENTITY_STREAM_CLOSE) None (sr_body_add' k TH) ->
  (k <= n)%nat -> skipn rd d ++ rw' = skipn k body -> (1 <= F)%nat -> dv_sb c = [] -> dv_pieces SB 0 L (firstn k body) ->
  exists cF rc, rs_res_loop cb g F false c = (cF, rc) /\ post (L ++ rev (dv_sb cF)) cF rw'.
Proof.
  intros H Hk Hw HF Hev HL. pose proof (ri_rd _ _ _ _ _ _ _ _ _ H) as Hrd.
  assert (Lw : (length d - rd + length rw' = n - k)%nat).
  { assert (L0 : length (skipn rd d ++ rw') = length (skipn k body)) by (rewrite Hw; reflexivity). rewrite app_length, !skipn_length in L0. fold n in L0. exact L0. }
  destruct (sr_close_pass cb g Hcb c d rd TH k H eq_refl) as (c1 & E1 & M1).
  pose proof (dv_sclose_events cb g Hcb c d rd TH k H eq_refl _ _ E1) as V1. rewrite Hev in V1.
  destruct F as [|F1]; [lia|]. rewrite (sr_loop_inl cb g _ _ _ E1). eexists _, _. split; [reflexivity|].
  set (j := (length d - rd)%nat) in *.
  assert (Lj : length (skipn rd d) = j) by (rewrite skipn_length; reflexivity).
  assert (Erw : rw' = skipn (k + j) body).
  { assert (E : skipn j (skipn rd d ++ rw') = rw') by (rewrite skipn_app, skipn_all2 by (rewrite skipn_length; unfold j; lia); rewrite skipn_length; fold j; rewrite Nat.sub_diag; reflexivity).
    rewrite Hw, sr_skipn_skipn in E. rewrite <- E. reflexivity. }
  assert (Epc : firstn (k + j) body = firstn k body ++ skipn rd d).
  { rewrite dv_firstn_add, <- Hw, firstn_app, Lj, Nat.sub_diag. cbn [firstn]. rewrite app_nil_r. rewrite <- Lj at 1. rewrite firstn_all. reflexivity. }
  assert (HL' : dv_pieces SB 0 (L ++ rev (dv_sb (rs_set_out_status c_HTP_STREAM_DATA c1))) (firstn (k + j) body)).
  { rewrite V1. destruct j as [|j'] eqn:Ej.
    - cbn [rev]. rewrite app_nil_r, Nat.add_0_r. exact HL.
    - cbn [rev app]. rewrite Epc. apply dv_pieces_snoc; [exact HL|]. intro E0. rewrite E0 in Lj. cbn in Lj. lia. }
  destruct rw' as [|b0 rw0].
  - right. split; [reflexivity|]. cbn [length] in Lw. split.
    + unfold sr_clfin. fold line0 th0 Tend TH n. replace n with (k + j)%nat by lia. exact M1.
    + replace (k + j)%nat with n in HL' by lia. unfold n in HL'. rewrite firstn_all in HL'. exact HL'.
  - left. split; [discriminate|]. right. right. exists (k + j)%nat. cbn [length] in Lw. split; [lia|]. split; [exact M1|]. split; [exact Erw|exact HL'].
Qed.

Lemma dv_sclext_step (okc : bytes -> bytes -> Prop) L c (rw x rw' : bytes) : dv_sclext L c rw -> c_events c = [] -> x <> [] -> rw = x ++ rw' -> okc x rw' ->
  exists c' rc, connp_res_data cb g (Some x) (length x) c = (c', rc) /\ post (L ++ rev (dv_sb c')) c' rw'.
Proof.
  intros (k & Hk & Hm & Erw & HL) Hev Hne Ex _.
  destruct (dv_senter cb g c [] None _ _ _ x Hm Hne) as (c1 & E1 & H1 & V1 & _). unfold bytes in *. rewrite E1.
  apply (dv_sclose_run c1 x 0 k rw' _ L H1); [lia|cbn [skipn]; rewrite <- Ex; exact Erw|unfold rs_res_fuel; lia|unfold dv_sb; rewrite V1, Hev; reflexivity|exact HL].
Qed.
Lemma dv_sclext_finish L c rw : dv_sclext L c rw -> dv_sclext L (forget_chunks c <| c_events := [] |>) rw.
Proof. intros (k & Hk & Hm & Erw & HL). exists k. split; [exact Hk|]. split; [apply sr_mid_finish; exact Hm|]. split; [exact Erw|exact HL]. Qed.
Lemma dv_sclfin_finish L c : dv_sclfin L c -> dv_sclfin L (forget_chunks c <| c_events := [] |>).
Proof. intros [H1 H2]. split; [apply sr_mid_finish; exact H1|exact H2]. Qed.

Lemma dv_scltail c c1 d rd1 (rw' : bytes) F : c_out_state c = RES_HEADERS -> rs_state_fn cb g RES_HEADERS c = (ST_OK, c1) ->
  sr_cin c1 d rd1 [] None RES_BODY_DETERMINE (Some RES_HEADERS) (Some H_RESPONSE_HEADER_DATA) Tend -> skipn rd1 d ++ rw' = body ->
  dv_sb c = [] -> dv_sok c -> (sr_need d rd1 <= F)%nat ->
  exists cF rc, rs_res_loop cb g F false c = (cF, rc) /\ post (rev (dv_sb cF)) cF rw'.
Proof.
  intros Es Ef H1 Hw Hev Rk HF. rewrite <- Es in Ef.
  destruct (sr_iter_ok cb g c c1 d rd1 _ _ _ _ _ _ Ef H1) as (c2 & E2 & H2); [discriminate|].
  assert (V2 : dv_sb c2 = []) by (rewrite <- Hev; apply (dv_siter_quiet_inr cb g Hcb c c2); [rewrite Es; reflexivity|exact E2|exact Rk]).
  unfold sr_need in HF. destruct F as [|F1]; [lia|]. destruct F1 as [|F2]; [lia|].
  rewrite (sr_loop_inr cb g _ _ _ E2).
  destruct (sr_pass_determine_close cb g Hcb c2 d rd1 Tend H2 Hframe) as (c3 & E3 & H3). rewrite (sr_loop_inr cb g _ _ _ E3).
  pose proof (dv_scin_inr cb g Hcb c2 d _ _ _ _ _ _ _ c3 H2 eq_refl dv_sneq12 E3) as V3. rewrite V2 in V3.
  assert (G := dv_sclose_run c3 d rd1 0 rw' F2 [] H3). cbn [app] in G. apply G; [lia|exact Hw|lia|exact V3|cbn [firstn]; apply dv_pieces_nil].
Qed.
End CloseRunE.

(* ================= the theorem, response direction, close-delimited body ================= *)
Require Import Htp.Proof.PSegResCloseThm.
Theorem dv_response_close_delivery : forall cb g rq r (cuts : list (list bytes)) (body : bytes) (chunks : list bytes),
  wr_all_ok cb -> g_allow_space_uri g = false -> wr_request_ok rq = true ->
  sr_response_ok r = true -> sr_cuts_ok r cuts = true -> sr_framed_close cb g rq r cuts = true -> sr_fits g r cuts = true ->
  Forall (fun x => x <> []) chunks -> concat chunks = sr_wire r cuts body ->
  sr_f1_free body (negb (sr_is_nil (sr_lines r cuts))) chunks = true ->
  dv_delivered_k H_RESPONSE_BODY_DATA H_RESPONSE_COMPLETE 0 1 body
    (dv_selp dv_rs_hook (dv_res_log cb g (wr_request_wire rq) (map OpResData chunks ++ [OpClose]))).
Proof.
  intros cb g rq r cuts body chunks Hcb Hsp Wq Wr Wc Hfr Hfit Hall Hc Hf1.
  destruct (sr_after_request cb g rq Hcb Hsp Wq) as (t0 & Hr & Rep).
  pose proof (dv_after_req_qin cb g rq Hcb Hsp Wq) as Q0.
  assert (Et : sr_treq cb g rq = t0) by (unfold sr_treq; rewrite (ry_txs _ _ Hr); reflexivity).
  unfold sr_framed_close in Hfr. rewrite Et in *.
  unfold sr_response_ok in Wr. apply andb_prop in Wr. destruct Wr as [Wl Wf].
  unfold sr_cuts_ok in Wc. apply andb_prop in Wc. destruct Wc as [_ Wc].
  destruct (sg_block_flat_ok (combine (wp_fields r) cuts) (sr_forallb_combine_fst wr_field_ok _ cuts Wf) Wc) as [Okl Hnp].
  unfold sr_fits in Hfit. apply andb_prop in Hfit. destruct Hfit as [Hl0 Hfit]. apply Nat.leb_le in Hl0.
  unfold wr_reported in Rep. destruct Rep as (_ & _ & _ & _ & _ & H09 & _ & Hreq).
  rewrite <- (sr_p11_th0 t0 (sr_line0 r)) in Hfit.
  fold (sr_lines r cuts) in Okl, Hnp. set (ls := sr_lines r cuts) in *.
  set (bwt := sg_fwire ls ++ [CR; LF] ++ body).
  set (Tend := sr_lrun ls (None, sr_th0 t0 (sr_line0 r))).
  set (hlog := sr_hlog g Tend body (negb (sr_is_nil ls))).
  set (fin := dv_sclfin (wp_protocol r) (wp_status r) (wp_reason r) ls body t0).
  set (ext := dv_sclext (wp_protocol r) (wp_status r) (wp_reason r) ls body t0).
  assert (Htail : forall c c1 d rd1 (rw' : bytes) F, c_out_state c = RES_HEADERS -> rs_state_fn cb g RES_HEADERS c = (ST_OK, c1) ->
            sr_cin c1 d rd1 [] None RES_BODY_DETERMINE (Some RES_HEADERS) (Some H_RESPONSE_HEADER_DATA) Tend -> skipn rd1 d ++ rw' = body ->
            dv_sb c = [] -> dv_sok c -> (sr_need d rd1 <= F)%nat ->
            exists cF rc, rs_res_loop cb g F false c = (cF, rc) /\ dv_spostF (wp_protocol r) (wp_status r) (wp_reason r) t0 bwt hlog fin ext (rev (dv_sb cF)) cF rw').
  { intros c c1 d rd1 rw' F. apply (dv_scltail cb g Hcb (wp_protocol r) (wp_status r) (wp_reason r) ls body t0 Hfr bwt hlog). }
  unfold dv_res_log. generalize (dv_after_req_events cb g (wr_request_wire rq)). revert Q0. unfold dv_after_req.
  revert Hr. generalize (fst (cp_run cb g connp_new [OpOpen; OpReqData (wr_request_wire rq)])). intros c0 Hr Q0 Hev.
  pose proof (dv_sall_chunksF cb g Hcb (wp_protocol r) (wp_status r) (wp_reason r) Wl Hl0 t0 H09 bwt hlog fin ext (sr_f1_local body (negb (sr_is_nil ls)))
                (dv_sclfin_finish _ _ _ ls body t0)
                (dv_sclext_finish _ _ _ ls body t0)
                (dv_sclext_step cb g Hcb _ _ _ ls body t0 bwt hlog (sr_f1_local body (negb (sr_is_nil ls))))
                (dv_scall_hdrsF cb g Hcb _ _ _ t0 ls body fin ext Htail)
                (dv_scall_startF cb g Hcb _ _ _ t0 ls body Okl Hnp Hfit fin ext Htail)
                c0 chunks Hr Hev Hall Hc (sr_f1_free_oks _ _ _ Hf1)) as [T HL].
  (* the close *)
  pose proof (dv_qin_res_run cb g Hcb chunks c0 Q0) as Q1.
  assert (Hne : map OpResData chunks <> []).
  { destruct chunks as [|x rest]; [|discriminate]. cbn [concat] in Hc. exfalso. apply (sr_wire_ne r cuts body). symmetry. exact Hc. }
  pose proof (dv_run_events_nil cb g (map OpResData chunks) c0 Hne) as V1.
  rewrite dv_run_app_snd, map_app, concat_app, dv_selp_app.
  unfold dv_slog in HL.
  set (cN := fst (cp_run cb g c0 (map OpResData chunks))) in *.
  assert (Ecl : dv_selp dv_rs_hook (concat (map r_events (snd (cp_run cb g cN [OpClose])))) = rev (dv_sb (connp_close cb g cN))).
  { cbn [cp_run cp_step finish_call snd map concat r_events]. rewrite app_nil_r, dv_selp_rev. reflexivity. }
  rewrite Ecl.
  destruct (sr_hdrs_tx_close_facts Tend) as (F1 & F2 & F3 & F4).
  destruct (sr_body_add'_facts (length body) (sr_hdrs_tx_close Tend)) as (B1 & B2 & B3 & B4).
  assert (Rq : t_request_progress Tend = c_HTP_REQUEST_COMPLETE).
  { unfold Tend. destruct (sr_lrun_keep ls (None, sr_th0 t0 (sr_line0 r))) as [A _]. cbn [snd] in A. rewrite A.
    destruct (sr_th0_keep t0 (sr_line0 r)) as [C _]. rewrite C. exact Hreq. }
  assert (G1 : t_res_cep (sr_body_add' (length body) (sr_hdrs_tx_close Tend)) = c_HTP_COMPRESSION_NONE) by (rewrite B1; exact F1).
  assert (G2 : (t_response_transfer_coding (sr_body_add' (length body) (sr_hdrs_tx_close Tend)) =? c_HTP_CODING_NO_BODY)%Z = false) by (rewrite B2; exact F2).
  assert (G3 : (t_response_progress (sr_body_add' (length body) (sr_hdrs_tx_close Tend)) =? c_HTP_RESPONSE_COMPLETE)%Z = false) by (rewrite B3; exact F3).
  assert (G4 : t_request_progress (sr_body_add' (length body) (sr_hdrs_tx_close Tend)) = c_HTP_REQUEST_COMPLETE) by (rewrite B4, F4; exact Rq).
  unfold sr_clfin in T.
  rewrite (dv_connp_close_events cb g Hcb cN _ T V1 Q1 G1 G2 G3 G4). cbn [rev app].
  apply (dv_pieces_done_k SB SC 0 1 _ body HL).
Qed.
(* hook by hook, with the transaction list of PSegResClose.sr_response_close_chunking *)
Theorem dv_response_close_delivery_sel : forall cb g rq r (cuts : list (list bytes)) (body : bytes) (chunks : list bytes),
  wr_all_ok cb -> g_allow_space_uri g = false -> wr_request_ok rq = true ->
  sr_response_ok r = true -> sr_cuts_ok r cuts = true -> sr_framed_close cb g rq r cuts = true -> sr_fits g r cuts = true ->
  Forall (fun x => x <> []) chunks -> concat chunks = sr_wire r cuts body ->
  sr_f1_free body (negb (sr_is_nil (sr_lines r cuts))) chunks = true ->
  let log := dv_res_log cb g (wr_request_wire rq) (map OpResData chunks ++ [OpClose]) in
  c_txs (fst (cp_run cb g connp_new (OpOpen :: OpReqData (wr_request_wire rq) :: map OpResData chunks ++ [OpClose]))) =
    sr_final g (sr_tclose (sr_treq cb g rq) r cuts (length body)) /\
  (exists ds, dv_sel H_RESPONSE_BODY_DATA log = map (dv_data H_RESPONSE_BODY_DATA 0) ds ++ [dv_marker H_RESPONSE_BODY_DATA 0 false] /\
              concat ds = body /\ Forall (fun d => d <> []) ds) /\
  concat (map bd_ev_bytes (dv_sel H_RESPONSE_BODY_DATA log)) = body /\
  dv_sel H_RESPONSE_COMPLETE log = [dv_done H_RESPONSE_COMPLETE 0] /\
  bd_marker_ok H_RESPONSE_BODY_DATA H_RESPONSE_COMPLETE (dv_selp dv_rs_hook log) false = true.
Proof.
  intros cb g rq r cuts body chunks Hcb Hsp Wq Wr Wc Hfr Hfit Hall Hc Hf1 log.
  split; [apply (sr_response_close_chunking cb g rq r cuts body chunks Hcb Hsp Wq Wr Wc Hfr Hfit Hall Hc Hf1)|].
  pose proof (dv_response_close_delivery cb g rq r cuts body chunks Hcb Hsp Wq Wr Wc Hfr Hfit Hall Hc Hf1) as Dl. fold log in Dl.
  destruct (dv_delivered_k_sel H_RESPONSE_BODY_DATA H_RESPONSE_COMPLETE 0 1 _ _ ltac:(discriminate) (le_n 1) Dl) as (D1 & D2 & D3 & D4).
  rewrite (dv_sel_selp dv_rs_hook H_RESPONSE_BODY_DATA log eq_refl) in D1, D2. rewrite (dv_sel_selp dv_rs_hook H_RESPONSE_COMPLETE log eq_refl) in D3.
  split; [exact D1|]. split; [exact D2|]. split; [exact D3|exact D4].
Qed.

(* ================= non-vacuity and the vm_compute harness ================= *)
(* PSegResCloseThm.sr_ex_clwire: HTTP/1.1 200 OK | X-A: b || LF "HTTP/1.1 200 OK" CR LF CR   (a body that looks like a response) *)
Example dv_ex_res_close_cuts :
  dv_rs (sg_ex_cfg 18000) [sr_ex_clwire] true = (sr_ex_clbody, 1%nat, 1%nat, true) /\
  dv_rs (sg_ex_cfg 18000) (sg_bytewise sr_ex_clwire) true = (sr_ex_clbody, length sr_ex_clbody, 1%nat, true) /\
  forallb (fun ch => sr_f1_free sr_ex_clbody true ch &&
                     (let '(b, k, mk, lst) := dv_rs (sg_ex_cfg 18000) ch true in
                      (if list_eq_dec N.eq_dec b sr_ex_clbody then true else false) && Nat.leb 1 k && Nat.eqb mk 1 && lst)) (sg_cuts1 sr_ex_clwire) = true.
Proof. split; [vm_compute; reflexivity|]. split; vm_compute; reflexivity. Qed.

(* ================= THEOREMS FOR RE-EXPORT (Properties_C06.v), response direction, close-delimited body =================
   dv_response_close_delivery      dv_delivered_k ... 1 body: RESPONSE_BODY_DATA / RESPONSE_COMPLETE events of the response calls and of OpClose =
                                   data* ++ [marker] ++ [RESPONSE_COMPLETE]; the marker and RESPONSE_COMPLETE come from htp_connp_close
   dv_response_close_delivery_sel  hook by hook + the transaction list of PSegResClose.sr_response_close_chunking
   premises (those of sr_response_close_chunking): wr_all_ok cb, g_allow_space_uri g = false, wr_request_ok rq, sr_response_ok r, sr_cuts_ok r cuts,
     sr_framed_close cb g rq r cuts, sr_fits g r cuts, Forall non-empty chunks, concat chunks = sr_wire r cuts body, sr_f1_free body has_hdr chunks *)
Print Assumptions dv_response_close_delivery.
Print Assumptions dv_response_close_delivery_sel.
