(* C03, request direction, chunked request bodies -- Stage 1: the exact one-pass lemmas.
   Every lemma is an invariant-preservation statement on PSeg.sg_cinw (which fixes the WHOLE transaction list
   w_done ++ [Some t], the cursor, the state and the connection flags): REQ_BODY_CHUNKED_LENGTH over a size line that is
   cut anywhere (scan + "line complete"), REQ_BODY_CHUNKED_DATA (C06's exact PBodyReq.bd_rq_chunked_data_step),
   REQ_BODY_CHUNKED_DATA_END, the last-chunk line with the state change into REQ_HEADERS (trailer mode: the raw-trailer
   receiver is installed), htp_tx_state_request_headers at the end of the trailer block, and REQ_FINALIZE /
   htp_tx_state_request_complete for a request that has a body.  The transaction is tracked as
   sg_cbody e m pg t0 = t0 with e added to request_entity_len, m added to request_message_len, progress pg. *)
Require Import Htp.Model.Base Htp.Model.MBstr Htp.Model.MConnTypes Htp.Model.MTxCommon Htp.Model.MReqLine Htp.Model.MReqUri Htp.Model.MTxReq.
Require Import Htp.Model.MReq Htp.Model.MRes Htp.Model.MConnp.
Require Import Htp.Spec.SWire Htp.Spec.SBody Htp.Proof.PWire Htp.Proof.PWireHdr Htp.Proof.PWireBlock Htp.Proof.PWireConn Htp.Proof.PWireExch.
Require Import Htp.Proof.PWireRun Htp.Proof.PWirePres Htp.Proof.PWireGlue Htp.Proof.PSeg Htp.Proof.PSegLine Htp.Proof.PSegHdr Htp.Proof.PSegGen Htp.Proof.PSegRun.
Require Import Htp.Proof.PSegFold Htp.Proof.PBody Htp.Proof.PBodyReq Htp.Proof.PSegBody.

(* ---- the transaction inside a chunk-coded body ---- *)
Definition sg_cbody (e m pg : Z) (t0 : tx) : tx :=
  t0 <| t_request_entity_len ::= Z.add e |> <| t_request_message_len ::= Z.add m |> <| t_request_progress := pg |>.
Definition sg_msg_add (k : Z) (t : tx) : tx := t <| t_request_message_len ::= Z.add k |>.

Lemma sg_tx_ext3 (a b : tx) :
  a <| t_request_entity_len := 0%Z |> <| t_request_message_len := 0%Z |> <| t_request_progress := 0%Z |> =
  b <| t_request_entity_len := 0%Z |> <| t_request_message_len := 0%Z |> <| t_request_progress := 0%Z |> ->
  t_request_entity_len a = t_request_entity_len b -> t_request_message_len a = t_request_message_len b ->
  t_request_progress a = t_request_progress b -> a = b.
Proof. destruct a, b. cbn. intros H1 H2 H3 H4. inversion H1. subst. reflexivity. Qed.

Lemma sg_cbody_msg k e m pg t0 : sg_msg_add k (sg_cbody e m pg t0) = sg_cbody e (m + k) pg t0.
Proof. apply sg_tx_ext3; [reflexivity|reflexivity|unfold sg_msg_add, sg_cbody; cbn; lia|reflexivity]. Qed.
Lemma sg_cbody_deliver k e m pg t0 : sg_body_add k (sg_cbody e m pg t0) = sg_cbody (e + k) (m + k) pg t0.
Proof. apply sg_tx_ext3; [reflexivity|unfold sg_body_add, sg_cbody; cbn; lia|unfold sg_body_add, sg_cbody; cbn; lia|reflexivity]. Qed.
Lemma sg_cbody_progress e m pg pg' t0 : (sg_cbody e m pg t0) <| t_request_progress := pg' |> = sg_cbody e m pg' t0.
Proof. reflexivity. Qed.
Lemma sg_cbody_start t0 : t0 <| t_request_progress := c_HTP_REQUEST_BODY |> = sg_cbody 0 0 c_HTP_REQUEST_BODY t0.
Proof. apply sg_tx_ext3; reflexivity. Qed.
Lemma sg_cbody_frame e m pg t0 :
  t_request_transfer_coding (sg_cbody e m pg t0) = t_request_transfer_coding t0 /\ t_request_progress (sg_cbody e m pg t0) = pg /\
  t_response_progress (sg_cbody e m pg t0) = t_response_progress t0 /\ t_is_protocol_0_9 (sg_cbody e m pg t0) = t_is_protocol_0_9 t0 /\
  t_hook_request_body (sg_cbody e m pg t0) = t_hook_request_body t0.
Proof. repeat split. Qed.
Lemma sg_mask_cbody e m pg t0 : sg_mask (sg_cbody e m pg t0) = sg_cbody e m pg (sg_mask t0).
Proof. reflexivity. Qed.

(* ---- the continuation of REQ_BODY_CHUNKED_LENGTH once the LF has been copied ---- *)
Definition sg_cline_done (g : cfg) (c : connp) : st * connp :=
  match req_consolidate_data g c with
  | (ST_OK, c, data) =>
    let c := rq_tx_upd (fun t => t <| t_request_message_len ::= Z.add (Z.of_nat (length data)) |>) c in
    let '(v, _) := parse_chunked_length (htp_chomp data) in
    let c := req_clear_buffer (c <| c_in_chunked_length := v |>) in
    if (0 <? v)%Z then (ST_OK, c <| c_in_state := REQ_BODY_CHUNKED_DATA |>)
    else if (v =? 0)%Z then
      (ST_OK, rq_tx_upd (fun t => t <| t_request_progress := c_HTP_REQUEST_TRAILER |>) (c <| c_in_state := REQ_HEADERS |>))
    else (ST_ERROR, c)
  | (_, c, _) => (ST_ERROR, c)
  end.
Lemma sg_clen_loop_eq g n c :
  REQ_BODY_CHUNKED_LENGTH_loop g n c =
  match rq_copy_byte c with
  | None => (ST_DATA_BUFFER, c)
  | Some c => if rq_next_is c LF then sg_cline_done g c
              else match n with O => (ST_DATA_BUFFER, rq_fault c) | S n' => REQ_BODY_CHUNKED_LENGTH_loop g n' c end
  end.
Proof. destruct n; reflexivity. Qed.
Lemma sg_cend_loop_eq n c :
  REQ_BODY_CHUNKED_DATA_END_loop n c =
  match rq_next_byte c with
  | None => (ST_DATA, c)
  | Some c =>
    let c := rq_tx_upd (fun t => t <| t_request_message_len ::= Z.add 1 |>) c in
    if rq_next_is c LF then (ST_OK, c <| c_in_state := REQ_BODY_CHUNKED_LENGTH |>)
    else match n with O => (ST_DATA, rq_fault c) | S n' => REQ_BODY_CHUNKED_DATA_END_loop n' c end
  end.
Proof. destruct n; reflexivity. Qed.

(* IN_NEXT_BYTE: the byte is read and consumed *)
Definition sg_ktake (b : N) (k : cursor) : cursor := k <| k_next_byte := Some b |> <| k_read ::= S |> <| k_consume ::= S |>.
Lemma sg_next_byte c d b : k_data (c_in c) = Some d -> k_len (c_in c) = length d -> nth_error d (k_read (c_in c)) = Some b ->
  rq_next_byte c = Some (rq_set_in (sg_ktake b) c).
Proof.
  intros Hd Hl Hn. unfold rq_next_byte, rq_at_end, rq_read_byte. rewrite Hd, Hn, Hl.
  assert (L : (length d <=? k_read (c_in c))%nat = false).
  { apply Nat.leb_gt. apply nth_error_Some. rewrite Hn. discriminate. }
  rewrite L. reflexivity.
Qed.

Section ChunkedW.
Context {w : sg_world}.
Notation sg_cin := (sg_cinw w).
Notation sg_mid := (sg_midw w).

Lemma sg_cin_take c d rd hdr st prev rh t b : sg_cin c d rd [] hdr st prev rh t -> nth_error d rd = Some b ->
  sg_cin (rq_set_in (sg_ktake b) c) d (S rd) [] hdr st prev rh t.
Proof.
  intros H Hn. destruct (sg_cin_nil _ _ _ _ _ _ _ _ H) as [Ecs Ebuf].
  destruct H as [A1 A2 A3 A4 A5 A6 A7 A8 A9 A10 A11 A12 A13 A14 A15 A16 A17].
  assert (L : (rd < length d)%nat) by (apply nth_error_Some; rewrite Hn; discriminate).
  constructor; try assumption; try reflexivity.
  - cbn. rewrite A6. reflexivity.
  - cbn. rewrite Ecs. lia.
  - cbn [rq_set_in c_in set sg_ktake k_buf k_consume]. cbn. rewrite Ecs, Ebuf, Nat.sub_diag. reflexivity.
  - change (k_receiver (c_in (rq_set_in (sg_ktake b) c))) with (k_receiver (c_in c)). lia.
Qed.
Lemma sg_cin_clen c d rd p hdr st prev rh t v : sg_cin c d rd p hdr st prev rh t -> sg_cin (c <| c_in_chunked_length := v |>) d rd p hdr st prev rh t.
Proof. intros H. apply (sg_cin_ext c); try reflexivity. exact H. Qed.
Lemma sg_cin_clen_upd c d rd p hdr st prev rh t f : sg_cin c d rd p hdr st prev rh t -> sg_cin (c <| c_in_chunked_length ::= f |>) d rd p hdr st prev rh t.
Proof. intros H. apply (sg_cin_ext c); try reflexivity. exact H. Qed.
End ChunkedW.

Section Chunked.
Variable cb : cb_oracle.
Variable g : cfg.
Hypothesis Hcb : wr_all_ok cb.
Context {w : sg_world}.
Notation sg_cin := (sg_cinw w).
Notation sg_mid := (sg_midw w).

(* ---- REQ_BODY_CHUNKED_LENGTH: scanning for the LF ---- *)
Lemma sg_clen_scan_nolf d hdr st prev rh t : forall u c rd p n,
  sg_cin c d rd p hdr st prev rh t -> skipn rd d = u -> sg_no_lf u = true -> (length u <= n)%nat ->
  exists c', REQ_BODY_CHUNKED_LENGTH_loop g n c = (ST_DATA_BUFFER, c') /\ sg_cin c' d (length d) (p ++ u) hdr st prev rh t.
Proof.
  induction u as [|b u IH]; intros c rd p n H Hu Hnl Hn.
  - pose proof (sg_skipn_nil d rd Hu) as L. pose proof H as [A1 A2 A3 A4 A5 A6 A7 A8 A9 A10 A11 A12 A13 A14 A15 A16 A17].
    assert (E : rd = length d) by lia.
    rewrite sg_clen_loop_eq. unfold rq_copy_byte, rq_at_end. rewrite A5, A6, E, Nat.leb_refl. exists c. split; [reflexivity|]. rewrite app_nil_r, <- E. exact H.
  - destruct (sg_skipn_cons d rd b u Hu) as (Hnth & Hu' & Hlt). pose proof H as [A1 A2 A3 A4 A5 A6 A7 A8 A9 A10 A11 A12 A13 A14 A15 A16 A17].
    cbn [sg_no_lf forallb] in Hnl. apply andb_prop in Hnl. destruct Hnl as [Hb Hnl]. apply negb_true_iff in Hb.
    cbn [length] in Hn. destruct n as [|n]; [lia|].
    rewrite sg_clen_loop_eq.
    assert (Hnth0 : nth_error d (k_read (c_in c)) = Some b) by (rewrite A6; exact Hnth).
    rewrite (wr_copy_byte c d b A4 A5 Hnth0).
    assert (Hnl' : rq_next_is (rq_set_in (wr_kadv b) c) LF = false) by (unfold rq_next_is; cbn; exact Hb). rewrite Hnl'.
    destruct (IH (rq_set_in (wr_kadv b) c) (S rd) (p ++ [b]) n (sg_cin_adv _ _ _ _ _ _ _ _ _ b H Hnth) Hu' Hnl ltac:(lia)) as (c' & E & H').
    exists c'. split; [exact E|]. rewrite <- app_assoc in H'. exact H'.
Qed.

Lemma sg_clen_scan_lf d hdr st prev rh t u2 : forall u1 c rd p n,
  sg_cin c d rd p hdr st prev rh t -> skipn rd d = u1 ++ LF :: u2 -> sg_no_lf u1 = true -> (length u1 <= n)%nat ->
  exists c', REQ_BODY_CHUNKED_LENGTH_loop g n c = sg_cline_done g c' /\
             sg_cin c' d (rd + length u1 + 1) (p ++ u1 ++ [LF]) hdr st prev rh t /\ skipn (rd + length u1 + 1) d = u2.
Proof.
  induction u1 as [|b u1 IH]; intros c rd p n H Hu Hnl Hn.
  - cbn [app] in Hu. destruct (sg_skipn_cons d rd LF u2 Hu) as (Hnth & Hu' & Hlt). pose proof H as [A1 A2 A3 A4 A5 A6 A7 A8 A9 A10 A11 A12 A13 A14 A15 A16 A17].
    rewrite sg_clen_loop_eq.
    assert (Hnth0 : nth_error d (k_read (c_in c)) = Some LF) by (rewrite A6; exact Hnth).
    rewrite (wr_copy_byte c d LF A4 A5 Hnth0).
    assert (Hnl' : rq_next_is (rq_set_in (wr_kadv LF) c) LF = true) by reflexivity. rewrite Hnl'.
    eexists. split; [reflexivity|]. cbn [length app]. replace (rd + 0 + 1)%nat with (S rd) by lia.
    split; [apply sg_cin_adv; assumption|exact Hu'].
  - cbn [app] in Hu. destruct (sg_skipn_cons d rd b _ Hu) as (Hnth & Hu' & Hlt). pose proof H as [A1 A2 A3 A4 A5 A6 A7 A8 A9 A10 A11 A12 A13 A14 A15 A16 A17].
    cbn [sg_no_lf forallb] in Hnl. apply andb_prop in Hnl. destruct Hnl as [Hb Hnl]. apply negb_true_iff in Hb.
    cbn [length] in Hn. destruct n as [|n]; [lia|].
    rewrite sg_clen_loop_eq.
    assert (Hnth0 : nth_error d (k_read (c_in c)) = Some b) by (rewrite A6; exact Hnth).
    rewrite (wr_copy_byte c d b A4 A5 Hnth0).
    assert (Hnl' : rq_next_is (rq_set_in (wr_kadv b) c) LF = false) by (unfold rq_next_is; cbn; exact Hb). rewrite Hnl'.
    destruct (IH (rq_set_in (wr_kadv b) c) (S rd) (p ++ [b]) n (sg_cin_adv _ _ _ _ _ _ _ _ _ b H Hnth) Hu' Hnl ltac:(lia)) as (c' & E & H' & Hr').
    exists c'. split; [exact E|]. cbn [length]. replace (rd + S (length u1) + 1)%nat with (S rd + length u1 + 1)%nat by lia.
    split; [|exact Hr']. rewrite <- app_assoc in H'. exact H'.
Qed.

(* ---- the size line is complete: a data chunk follows ---- *)
Lemma sg_cline_data c d rd prev t line : sg_cin c d rd line None REQ_BODY_CHUNKED_LENGTH prev None t ->
  (length line <= g_field_limit_hard g)%nat -> (0 < bd_rq_line_value line)%Z ->
  exists c', sg_cline_done g c = (ST_OK, c') /\
    sg_cin c' d rd [] None REQ_BODY_CHUNKED_DATA prev None (sg_msg_add (Z.of_nat (length line)) t) /\
    c_in_chunked_length c' = bd_rq_line_value line.
Proof.
  intros H Hlim Hv. unfold sg_cline_done.
  destruct (sg_consolidate g c d rd _ None _ _ _ t H) as (c1 & E1 & H1); [cbn [sg_olist length]; lia|]. rewrite E1.
  rewrite (sg_tx_upd c1 d rd _ _ _ _ _ t _ H1).
  unfold bd_rq_line_value in Hv. destruct (parse_chunked_length (htp_chomp line)) as [v ext] eqn:Ep. cbn [fst] in Hv.
  unfold bd_rq_line_value. rewrite Ep. cbn [fst].
  assert (Ev : (0 <? v)%Z = true) by (apply Z.ltb_lt; exact Hv). rewrite Ev.
  eexists. split; [reflexivity|]. split; [|reflexivity].
  eapply sg_cin_state. eapply sg_cin_clear. eapply sg_cin_clen. eapply sg_cin_txs. exact H1.
Qed.

(* ---- the last-chunk line is complete: REQ_HEADERS follows, progress TRAILER ---- *)
Lemma sg_cline_last c d rd prev t line : sg_cin c d rd line None REQ_BODY_CHUNKED_LENGTH prev None t ->
  (length line <= g_field_limit_hard g)%nat -> bd_rq_line_value line = 0%Z ->
  exists c', sg_cline_done g c = (ST_OK, c') /\
    sg_cin c' d rd [] None REQ_HEADERS prev None ((sg_msg_add (Z.of_nat (length line)) t) <| t_request_progress := c_HTP_REQUEST_TRAILER |>).
Proof.
  intros H Hlim Hv. unfold sg_cline_done.
  destruct (sg_consolidate g c d rd _ None _ _ _ t H) as (c1 & E1 & H1); [cbn [sg_olist length]; lia|]. rewrite E1.
  rewrite (sg_tx_upd c1 d rd _ _ _ _ _ t _ H1).
  unfold bd_rq_line_value in Hv. destruct (parse_chunked_length (htp_chomp line)) as [v ext] eqn:Ep. cbn [fst] in Hv. subst v.
  change ((0 <? 0)%Z) with false. change ((0 =? 0)%Z) with true. cbv iota.
  match goal with |- context [rq_tx_upd ?f ?x] => set (c2 := x) end.
  assert (H2 : sg_cin c2 d rd [] None REQ_HEADERS prev None (sg_msg_add (Z.of_nat (length line)) t)).
  { unfold c2. eapply sg_cin_state. eapply sg_cin_clear. eapply sg_cin_clen. eapply sg_cin_txs. exact H1. }
  rewrite (sg_tx_upd c2 d rd _ _ _ _ _ _ _ H2).
  eexists. split; [reflexivity|]. eapply sg_cin_txs. exact H2.
Qed.

(* ---- the pass through REQ_BODY_CHUNKED_LENGTH that sees the LF of a size line ---- *)
Lemma sg_pass_cline c d rd p u1 u2 t line : sg_cin c d rd p None REQ_BODY_CHUNKED_LENGTH (Some REQ_BODY_CHUNKED_LENGTH) None t ->
  skipn rd d = u1 ++ LF :: u2 -> sg_no_lf u1 = true -> p ++ u1 ++ [LF] = line ->
  (length line <= g_field_limit_hard g)%nat -> (0 < bd_rq_line_value line)%Z ->
  exists c', rq_iter cb g false c = inr c' /\
    sg_cin c' d (rd + length u1 + 1) [] None REQ_BODY_CHUNKED_DATA (Some REQ_BODY_CHUNKED_DATA) None (sg_msg_add (Z.of_nat (length line)) t) /\
    c_in_chunked_length c' = bd_rq_line_value line /\ skipn (rd + length u1 + 1) d = u2.
Proof.
  intros H Hs Hnl Ep Hlim Hv.
  assert (Es : c_in_state c = REQ_BODY_CHUNKED_LENGTH) by apply (ci_state _ _ _ _ _ _ _ _ _ H).
  assert (Ef : rq_state_fn cb g (c_in_state c) c = REQ_BODY_CHUNKED_LENGTH_fn g c) by (rewrite Es; reflexivity).
  unfold REQ_BODY_CHUNKED_LENGTH_fn in Ef. rewrite (ci_len _ _ _ _ _ _ _ _ _ H), (ci_read _ _ _ _ _ _ _ _ _ H) in Ef.
  pose proof (ci_rd _ _ _ _ _ _ _ _ _ H) as Hrd.
  assert (Ln : (length u1 <= length d - rd)%nat).
  { assert (L : length (skipn rd d) = length (u1 ++ LF :: u2)) by (rewrite Hs; reflexivity). rewrite skipn_length, app_length in L. lia. }
  destruct (sg_clen_scan_lf d None _ _ None t u2 u1 c rd p _ H Hs Hnl Ln) as (c1 & E1 & H1 & Hr1).
  rewrite E1 in Ef. rewrite Ep in H1.
  destruct (sg_cline_data c1 d _ _ t line H1 Hlim Hv) as (c2 & E2 & H2 & L2). rewrite E2 in Ef.
  unfold rq_iter. rewrite Ef. rewrite (sg_live_tunnel _ (ci_status _ _ _ _ _ _ _ _ _ H2)).
  destruct (sg_state_change cb c2 d _ _ _ _ _ _ _ H2 ltac:(discriminate)) as [E3|[E3 Ep3]]; [|discriminate].
  rewrite E3. eexists. split; [reflexivity|]. split; [eapply sg_cin_prev; exact H2|]. split; [exact L2|exact Hr1].
Qed.

(* ---- ... of the last-chunk line: the state change into REQ_HEADERS installs the raw-trailer receiver ---- *)
Lemma sg_pass_clast c d rd p u1 u2 t line : sg_cin c d rd p None REQ_BODY_CHUNKED_LENGTH (Some REQ_BODY_CHUNKED_LENGTH) None t ->
  skipn rd d = u1 ++ LF :: u2 -> sg_no_lf u1 = true -> p ++ u1 ++ [LF] = line ->
  (length line <= g_field_limit_hard g)%nat -> bd_rq_line_value line = 0%Z ->
  exists c', rq_iter cb g false c = inr c' /\
    sg_cin c' d (rd + length u1 + 1) [] None REQ_HEADERS (Some REQ_HEADERS) (Some H_REQUEST_TRAILER_DATA)
           ((sg_msg_add (Z.of_nat (length line)) t) <| t_request_progress := c_HTP_REQUEST_TRAILER |>) /\
    skipn (rd + length u1 + 1) d = u2.
Proof.
  intros H Hs Hnl Ep Hlim Hv.
  assert (Es : c_in_state c = REQ_BODY_CHUNKED_LENGTH) by apply (ci_state _ _ _ _ _ _ _ _ _ H).
  assert (Ef : rq_state_fn cb g (c_in_state c) c = REQ_BODY_CHUNKED_LENGTH_fn g c) by (rewrite Es; reflexivity).
  unfold REQ_BODY_CHUNKED_LENGTH_fn in Ef. rewrite (ci_len _ _ _ _ _ _ _ _ _ H), (ci_read _ _ _ _ _ _ _ _ _ H) in Ef.
  pose proof (ci_rd _ _ _ _ _ _ _ _ _ H) as Hrd.
  assert (Ln : (length u1 <= length d - rd)%nat).
  { assert (L : length (skipn rd d) = length (u1 ++ LF :: u2)) by (rewrite Hs; reflexivity). rewrite skipn_length, app_length in L. lia. }
  destruct (sg_clen_scan_lf d None _ _ None t u2 u1 c rd p _ H Hs Hnl Ln) as (c1 & E1 & H1 & Hr1).
  rewrite E1 in Ef. rewrite Ep in H1.
  destruct (sg_cline_last c1 d _ _ t line H1 Hlim Hv) as (c2 & E2 & H2). rewrite E2 in Ef.
  set (t' := (sg_msg_add (Z.of_nat (length line)) t) <| t_request_progress := c_HTP_REQUEST_TRAILER |>) in *.
  set (rd' := (rd + length u1 + 1)%nat) in *.
  unfold rq_iter. rewrite Ef. rewrite (sg_live_tunnel _ (ci_status _ _ _ _ _ _ _ _ _ H2)).
  pose proof H2 as [A1 A2 A3 A4 A5 A6 A7 A8 A9 A10 A11 A12 A13 A14 A15 A16 A17].
  unfold req_handle_state_change. rewrite A3, A2. cbn [req_state_eqb]. rewrite A13.
  unfold rq_tx, in_txi, tx_get. rewrite A13, (sg_cin_slot _ _ _ _ _ _ _ _ _ H2).
  change (t_request_progress t') with c_HTP_REQUEST_TRAILER.
  change ((c_HTP_REQUEST_TRAILER =? c_HTP_REQUEST_HEADERS)%Z) with false. change ((c_HTP_REQUEST_TRAILER =? c_HTP_REQUEST_TRAILER)%Z) with true. cbv iota.
  unfold req_receiver_set, req_receiver_finalize_clear. rewrite A11.
  eexists. split; [reflexivity|]. split; [|exact Hr1].
  constructor; try assumption; try reflexivity; cbn; rewrite ?A2, ?A6; try reflexivity; lia.
Qed.

(* ---- REQ_BODY_CHUNKED_DATA: one pass (PBodyReq.bd_rq_chunked_data_step is exact) ---- *)
Lemma sg_cdata_pass c d rd t (left : nat) dd rest : sg_cin c d rd [] None REQ_BODY_CHUNKED_DATA (Some REQ_BODY_CHUNKED_DATA) None t ->
  t_hook_request_body t = 0%nat -> c_in_chunked_length c = Z.of_nat left -> (0 < left)%nat ->
  skipn rd d = dd ++ rest -> length dd = Nat.min left (length d - rd) ->
  match dd with
  | [] => rq_iter cb g false c = inl (c <| c_in_status := c_HTP_STREAM_DATA |>, c_HTP_STREAM_DATA)
  | _ :: _ =>
    if (length dd <? left)%nat then
      exists c', rq_iter cb g false c = inl (c' <| c_in_status := c_HTP_STREAM_DATA |>, c_HTP_STREAM_DATA) /\
                 sg_cin c' d (rd + length dd) [] None REQ_BODY_CHUNKED_DATA (Some REQ_BODY_CHUNKED_DATA) None (sg_body_add (Z.of_nat (length dd)) t) /\
                 c_in_chunked_length c' = Z.of_nat (left - length dd)
    else
      exists c', rq_iter cb g false c = inr c' /\
                 sg_cin c' d (rd + length dd) [] None REQ_BODY_CHUNKED_DATA_END (Some REQ_BODY_CHUNKED_DATA_END) None (sg_body_add (Z.of_nat (length dd)) t)
  end.
Proof.
  intros H Hh Hl Hpos Hs Hlen. pose proof (sg_cin_slot _ _ _ _ _ _ _ _ _ H) as Hsl.
  pose proof (sg_bd_inv c d rd [] _ _ t H Hh) as Inv.
  assert (Lp : (0 < c_in_chunked_length c)%Z) by (rewrite Hl; lia).
  pose proof (bd_rq_chunked_data_step cb (sg_cb_body_ok cb Hcb) _ t c Inv Hsl Lp) as Est. cbv zeta in Est.
  assert (Erest : bd_rq_rest c = skipn rd d) by (unfold bd_rq_rest; rewrite (ci_data _ _ _ _ _ _ _ _ _ H), (ci_read _ _ _ _ _ _ _ _ _ H); reflexivity).
  assert (Edd : firstn (Z.to_nat (c_in_chunked_length c)) (bd_rq_rest c) = dd).
  { rewrite Erest, Hl, Nat2Z.id, Hs.
    assert (L : length (skipn rd d) = length (dd ++ rest)) by (rewrite Hs; reflexivity). rewrite skipn_length, app_length in L.
    destruct (Nat.le_ge_cases left (length d - rd)) as [Q|Q].
    - rewrite Nat.min_l in Hlen by exact Q. rewrite <- Hlen. rewrite firstn_app, Nat.sub_diag, firstn_all. cbn [firstn]. apply app_nil_r.
    - rewrite Nat.min_r in Hlen by exact Q. assert (Er : rest = []) by (apply length_zero_iff_nil; lia). subst rest. rewrite app_nil_r. apply firstn_all2. lia. }
  rewrite Edd in Est.
  assert (Es : c_in_state c = REQ_BODY_CHUNKED_DATA) by apply (ci_state _ _ _ _ _ _ _ _ _ H).
  assert (Ef : rq_state_fn cb g (c_in_state c) c = REQ_BODY_CHUNKED_DATA_fn cb c) by (rewrite Es; reflexivity).
  destruct dd as [|b0 dd0] eqn:Edd0.
  - cbn [length Nat.eqb] in Est. unfold rq_iter. rewrite Ef, Est. unfold rq_exit, req_receiver_send_data. rewrite (ci_rh _ _ _ _ _ _ _ _ _ H). reflexivity.
  - rewrite <- Edd0 in *. assert (E0 : (length dd =? 0)%nat = false) by (rewrite Edd0; reflexivity). rewrite E0 in Est.
    pose proof (sg_cin_deliver c d rd _ _ t dd rest H Hs) as Hd.
    set (c1 := bd_rq_deliver (length (w_done w)) t dd c <| c_in_chunked_length ::= (fun l => (l - Z.of_nat (length dd))%Z) |>) in *.
    assert (H1 : sg_cin c1 d (rd + length dd) [] None REQ_BODY_CHUNKED_DATA (Some REQ_BODY_CHUNKED_DATA) None (sg_body_add (Z.of_nat (length dd)) t)).
    { unfold c1. apply sg_cin_clen_upd. exact Hd. }
    assert (Lle : (length dd <= left)%nat) by (rewrite Hlen; apply Nat.le_min_l).
    destruct (length dd <? left)%nat eqn:Elt.
    + apply Nat.ltb_lt in Elt. assert (Nz : (c_in_chunked_length c - Z.of_nat (length dd) =? 0)%Z = false) by (apply Z.eqb_neq; rewrite Hl; lia). rewrite Nz in Est.
      exists c1. split; [|split; [exact H1|]].
      * unfold rq_iter. rewrite Ef, Est. unfold rq_exit, req_receiver_send_data. rewrite (ci_rh _ _ _ _ _ _ _ _ _ H1). reflexivity.
      * unfold c1. cbn [c_in_chunked_length set]. change (c_in_chunked_length (bd_rq_deliver (length (w_done w)) t dd c)) with (c_in_chunked_length c). rewrite Hl. lia.
    + apply Nat.ltb_ge in Elt. assert (Ez : (c_in_chunked_length c - Z.of_nat (length dd) =? 0)%Z = true) by (apply Z.eqb_eq; rewrite Hl; lia). rewrite Ez in Est.
      rewrite <- Ef in Est.
      apply (sg_iter_ok (w:=w) cb g c (c1 <| c_in_state := REQ_BODY_CHUNKED_DATA_END |>) d _ [] None REQ_BODY_CHUNKED_DATA_END (Some REQ_BODY_CHUNKED_DATA) None _ Est); [eapply sg_cin_state; exact H1|discriminate].
Qed.

(* ---- REQ_BODY_CHUNKED_DATA_END: every byte up to the LF is consumed and counted ---- *)
Lemma sg_cend_scan_nolf d st prev : forall u c rd n t,
  sg_cin c d rd [] None st prev None t -> skipn rd d = u -> sg_no_lf u = true -> (length u <= n)%nat ->
  exists c', REQ_BODY_CHUNKED_DATA_END_loop n c = (ST_DATA, c') /\
             sg_cin c' d (length d) [] None st prev None (sg_msg_add (Z.of_nat (length u)) t).
Proof.
  induction u as [|b u IH]; intros c rd n t H Hu Hnl Hn.
  - pose proof (sg_skipn_nil d rd Hu) as L. pose proof H as [A1 A2 A3 A4 A5 A6 A7 A8 A9 A10 A11 A12 A13 A14 A15 A16 A17].
    assert (E : rd = length d) by lia.
    rewrite sg_cend_loop_eq. unfold rq_next_byte, rq_at_end. rewrite A5, A6, E, Nat.leb_refl. exists c. split; [reflexivity|].
    assert (Et : sg_msg_add (Z.of_nat (length (@nil N))) t = t) by (destruct t; reflexivity). rewrite Et, <- E. exact H.
  - destruct (sg_skipn_cons d rd b u Hu) as (Hnth & Hu' & Hlt). pose proof H as [A1 A2 A3 A4 A5 A6 A7 A8 A9 A10 A11 A12 A13 A14 A15 A16 A17].
    cbn [sg_no_lf forallb] in Hnl. apply andb_prop in Hnl. destruct Hnl as [Hb Hnl]. apply negb_true_iff in Hb.
    cbn [length] in Hn. destruct n as [|n]; [lia|].
    rewrite sg_cend_loop_eq.
    assert (Hnth0 : nth_error d (k_read (c_in c)) = Some b) by (rewrite A6; exact Hnth).
    rewrite (sg_next_byte c d b A4 A5 Hnth0). cbv zeta.
    pose proof (sg_cin_take _ _ _ _ _ _ _ _ b H Hnth) as H1.
    rewrite (sg_tx_upd _ d _ _ _ _ _ _ t _ H1).
    match goal with |- context [rq_next_is ?x LF] => set (c2 := x) end.
    assert (Hnl' : rq_next_is c2 LF = false) by (unfold rq_next_is; cbn; exact Hb). rewrite Hnl'.
    assert (H2 : sg_cin c2 d (S rd) [] None st prev None (sg_msg_add 1 t)) by (unfold c2; eapply sg_cin_txs; exact H1).
    destruct (IH c2 (S rd) n _ H2 Hu' Hnl ltac:(lia)) as (c' & E & H').
    exists c'. split; [exact E|].
    assert (Et : sg_msg_add (Z.of_nat (length u)) (sg_msg_add 1 t) = sg_msg_add (Z.of_nat (length (b :: u))) t).
    { apply sg_tx_ext3; [reflexivity|reflexivity|unfold sg_msg_add; cbn [t_request_message_len set length]; lia|reflexivity]. }
    rewrite <- Et. exact H'.
Qed.

Lemma sg_cend_scan_lf d prev u2 : forall u1 c rd n t,
  sg_cin c d rd [] None REQ_BODY_CHUNKED_DATA_END prev None t -> skipn rd d = u1 ++ LF :: u2 -> sg_no_lf u1 = true -> (length u1 <= n)%nat ->
  exists c', REQ_BODY_CHUNKED_DATA_END_loop n c = (ST_OK, c') /\
             sg_cin c' d (rd + length u1 + 1) [] None REQ_BODY_CHUNKED_LENGTH prev None (sg_msg_add (Z.of_nat (length u1 + 1)) t) /\
             skipn (rd + length u1 + 1) d = u2.
Proof.
  induction u1 as [|b u1 IH]; intros c rd n t H Hu Hnl Hn.
  - cbn [app] in Hu. destruct (sg_skipn_cons d rd LF u2 Hu) as (Hnth & Hu' & Hlt). pose proof H as [A1 A2 A3 A4 A5 A6 A7 A8 A9 A10 A11 A12 A13 A14 A15 A16 A17].
    rewrite sg_cend_loop_eq.
    assert (Hnth0 : nth_error d (k_read (c_in c)) = Some LF) by (rewrite A6; exact Hnth).
    rewrite (sg_next_byte c d LF A4 A5 Hnth0). cbv zeta.
    pose proof (sg_cin_take _ _ _ _ _ _ _ _ LF H Hnth) as H1.
    rewrite (sg_tx_upd _ d _ _ _ _ _ _ t _ H1).
    match goal with |- context [rq_next_is ?x LF] => set (c2 := x) end.
    assert (Hnl' : rq_next_is c2 LF = true) by reflexivity. rewrite Hnl'.
    eexists. split; [reflexivity|]. cbn [length]. replace (rd + 0 + 1)%nat with (S rd) by lia.
    split; [|exact Hu']. eapply sg_cin_state. unfold c2. eapply sg_cin_txs. exact H1.
  - cbn [app] in Hu. destruct (sg_skipn_cons d rd b _ Hu) as (Hnth & Hu' & Hlt). pose proof H as [A1 A2 A3 A4 A5 A6 A7 A8 A9 A10 A11 A12 A13 A14 A15 A16 A17].
    cbn [sg_no_lf forallb] in Hnl. apply andb_prop in Hnl. destruct Hnl as [Hb Hnl]. apply negb_true_iff in Hb.
    cbn [length] in Hn. destruct n as [|n]; [lia|].
    rewrite sg_cend_loop_eq.
    assert (Hnth0 : nth_error d (k_read (c_in c)) = Some b) by (rewrite A6; exact Hnth).
    rewrite (sg_next_byte c d b A4 A5 Hnth0). cbv zeta.
    pose proof (sg_cin_take _ _ _ _ _ _ _ _ b H Hnth) as H1.
    rewrite (sg_tx_upd _ d _ _ _ _ _ _ t _ H1).
    match goal with |- context [rq_next_is ?x LF] => set (c2 := x) end.
    assert (Hnl' : rq_next_is c2 LF = false) by (unfold rq_next_is; cbn; exact Hb). rewrite Hnl'.
    assert (H2 : sg_cin c2 d (S rd) [] None REQ_BODY_CHUNKED_DATA_END prev None (sg_msg_add 1 t)) by (unfold c2; eapply sg_cin_txs; exact H1).
    destruct (IH c2 (S rd) n _ H2 Hu' Hnl ltac:(lia)) as (c' & E & H' & Hr').
    exists c'. split; [exact E|]. cbn [length]. replace (rd + S (length u1) + 1)%nat with (S rd + length u1 + 1)%nat by lia.
    split; [|exact Hr'].
    assert (Et : sg_msg_add (Z.of_nat (length u1 + 1)) (sg_msg_add 1 t) = sg_msg_add (Z.of_nat (S (length u1) + 1)) t).
    { apply sg_tx_ext3; [reflexivity|reflexivity|unfold sg_msg_add; cbn [t_request_message_len set]; lia|reflexivity]. }
    rewrite <- Et. exact H'.
Qed.

(* the pass through REQ_BODY_CHUNKED_DATA_END that sees the LF *)
Lemma sg_pass_cend c d rd u1 u2 t : sg_cin c d rd [] None REQ_BODY_CHUNKED_DATA_END (Some REQ_BODY_CHUNKED_DATA_END) None t ->
  skipn rd d = u1 ++ LF :: u2 -> sg_no_lf u1 = true ->
  exists c', rq_iter cb g false c = inr c' /\
    sg_cin c' d (rd + length u1 + 1) [] None REQ_BODY_CHUNKED_LENGTH (Some REQ_BODY_CHUNKED_LENGTH) None (sg_msg_add (Z.of_nat (length u1 + 1)) t) /\
    skipn (rd + length u1 + 1) d = u2.
Proof.
  intros H Hs Hnl.
  assert (Es : c_in_state c = REQ_BODY_CHUNKED_DATA_END) by apply (ci_state _ _ _ _ _ _ _ _ _ H).
  assert (Ef : rq_state_fn cb g (c_in_state c) c = REQ_BODY_CHUNKED_DATA_END_fn c) by (rewrite Es; reflexivity).
  unfold REQ_BODY_CHUNKED_DATA_END_fn in Ef. rewrite (ci_len _ _ _ _ _ _ _ _ _ H), (ci_read _ _ _ _ _ _ _ _ _ H) in Ef.
  pose proof (ci_rd _ _ _ _ _ _ _ _ _ H) as Hrd.
  assert (Ln : (length u1 <= length d - rd)%nat).
  { assert (L : length (skipn rd d) = length (u1 ++ LF :: u2)) by (rewrite Hs; reflexivity). rewrite skipn_length, app_length in L. lia. }
  destruct (sg_cend_scan_lf d _ u2 u1 c rd _ t H Hs Hnl Ln) as (c1 & E1 & H1 & Hr1). rewrite E1 in Ef.
  destruct (sg_iter_ok cb g c c1 d _ _ _ _ _ _ _ Ef H1) as (c2 & E2 & H2); [discriminate|].
  exists c2. split; [exact E2|]. split; [exact H2|exact Hr1].
Qed.

(* ---- htp_tx_state_request_headers at the end of the trailer block ---- *)
Lemma sg_state_request_trailer c d rd prev t :
  sg_cin c d rd [] None REQ_HEADERS prev (Some H_REQUEST_TRAILER_DATA) t -> t_request_progress t = c_HTP_REQUEST_TRAILER ->
  exists c', tx_state_request_headers cb (length (w_done w)) c = (ST_OK, c') /\ sg_cin c' d rd [] None REQ_FINALIZE prev None t.
Proof.
  intros H Hprog. pose proof (sg_cin_slot _ _ _ _ _ _ _ _ _ H) as Hsl.
  unfold tx_state_request_headers, tx_get. rewrite Hsl, Hprog.
  change ((c_HTP_REQUEST_HEADERS <? c_HTP_REQUEST_TRAILER)%Z) with true. cbv iota.
  rewrite (wr_run_hook cb Hcb).
  set (c1 := wr_hook_ev H_REQUEST_TRAILER (length (w_done w)) None false c).
  assert (H1 : sg_cin c1 d rd [] None REQ_HEADERS prev (Some H_REQUEST_TRAILER_DATA) t) by (unfold c1; apply sg_cin_hook; exact H).
  unfold req_receiver_finalize_clear. rewrite (ci_rh _ _ _ _ _ _ _ _ _ H1).
  destruct (sg_send_data cb Hcb c1 d rd _ _ _ _ _ t true H1) as (c2 & E2 & H2). rewrite E2.
  eexists. split; [reflexivity|].
  destruct H2 as [B1 B2 B3 B4 B5 B6 B7 B8 B9 B10 B11 B12 B13 B14 B15 B16 B17].
  constructor; try assumption; try reflexivity.
Qed.

(* ---- htp_tx_state_request_complete on a request that has a body (identity or chunked) ---- *)
Lemma sg_idl_of_cin c d rd p prev t : sg_cin c d rd p None REQ_IDLE prev None t ->
  sg_idl (c <| c_in_tx := None |>) d rd p (w_done w ++ [Some t]) (w_flags w) prev.
Proof. intros [B1 B2 B3 B4 B5 B6 B7 B8 B9 B10 B11 B12 B13 B14 B15 B16 B17]. constructor; try assumption; try reflexivity. Qed.
Lemma sg_request_complete_hasbody c d rd p prev t : sg_cin c d rd p None REQ_FINALIZE prev None t ->
  tx_req_has_body t = true -> (t_request_progress t =? c_HTP_REQUEST_COMPLETE)%Z = false ->
  (t_response_progress t =? c_HTP_RESPONSE_COMPLETE)%Z = false -> t_is_protocol_0_9 t = false -> t_hook_request_body t = 0%nat ->
  exists c', rq_request_complete cb g c = (ST_OK, c') /\ sg_idl c' d rd p (w_done w ++ [Some (sg_tcomplete t)]) (w_flags w) prev.
Proof.
  intros H Htc Hprog Hresp H09 Hh. pose proof (sg_cin_slot _ _ _ _ _ _ _ _ _ H) as Hsl. pose proof H as [A1 A2 A3 A4 A5 A6 A7 A8 A9 A10 A11 A12 A13 A14 A15 A16 A17].
  unfold rq_request_complete, rq_with_tx. rewrite A13.
  unfold tx_state_request_complete. rewrite Hsl, Hprog. cbn [negb].
  unfold tx_state_request_complete_partial, tx_get. rewrite Hsl, Htc.
  unfold tx_req_process_body_data_ex.
  rewrite (sg_tx_upd_at c d rd _ _ _ _ _ t _ H).
  set (t1 := t <| t_request_entity_len ::= Z.add (Z.of_nat 0) |>).
  set (c2 := sg_settx w t1 c).
  assert (H2 : sg_cin c2 d rd p None REQ_FINALIZE prev None t1) by (eapply sg_cin_txs; exact H).
  unfold req_run_hook_body_data. rewrite (ci_tx _ _ _ _ _ _ _ _ _ H2).
  unfold tx_get. rewrite (sg_cin_slot _ _ _ _ _ _ _ _ _ H2). change (t_hook_request_body t1) with (t_hook_request_body t). rewrite Hh. cbn [run_tx_hooks].
  unfold run_data_hook. rewrite (wr_run_hook_ex cb Hcb).
  match goal with |- context [tx_upd ?x _ ?f] => set (c3 := x) end.
  assert (H3 : sg_cin c3 d rd p None REQ_FINALIZE prev None t1) by (unfold c3; apply sg_cin_hook; exact H2).
  rewrite (sg_tx_upd_at c3 d rd _ _ _ _ _ t1 _ H3).
  rewrite (wr_run_hook cb Hcb). unfold req_receiver_finalize_clear.
  set (t' := t1 <| t_request_progress := c_HTP_REQUEST_COMPLETE |>).
  match goal with |- context [wr_hook_ev H_REQUEST_COMPLETE ?i None false ?x] => set (c4 := wr_hook_ev H_REQUEST_COMPLETE i None false x) end.
  assert (H4 : sg_cin c4 d rd p None REQ_FINALIZE prev None t') by (unfold c4; apply sg_cin_hook; eapply sg_cin_txs; exact H3).
  rewrite (ci_rh _ _ _ _ _ _ _ _ _ H4).
  rewrite (sg_cin_slot _ _ _ _ _ _ _ _ _ H4). change (t_is_protocol_0_9 t') with (t_is_protocol_0_9 t). rewrite H09.
  unfold tx_finalize.
  assert (H5 : sg_cin (c4 <| c_in_state := REQ_IDLE |>) d rd p None REQ_IDLE prev None t') by (eapply sg_cin_state; exact H4).
  rewrite (sg_cin_slot _ _ _ _ _ _ _ _ _ H5).
  unfold tx_is_complete. change (t_response_progress t') with (t_response_progress t). rewrite Hresp, andb_false_r. cbn [negb].
  eexists. split; [reflexivity|]. apply sg_idl_of_cin. exact H5.
Qed.

Lemma sg_pass_finalize_hasbody c d p t : sg_cin c d (length d) p None REQ_FINALIZE (Some REQ_FINALIZE) None t ->
  tx_req_has_body t = true -> (t_request_progress t =? c_HTP_REQUEST_COMPLETE)%Z = false ->
  (t_response_progress t =? c_HTP_RESPONSE_COMPLETE)%Z = false -> t_is_protocol_0_9 t = false -> t_hook_request_body t = 0%nat ->
  exists c', rq_iter cb g false c = inr c' /\ sg_idl c' d (length d) p (w_done w ++ [Some (sg_tcomplete t)]) (w_flags w) (Some REQ_IDLE).
Proof.
  intros H Htc Hprog Hresp H09 Hh. pose proof H as [A1 A2 A3 A4 A5 A6 A7 A8 A9 A10 A11 A12 A13 A14 A15 A16 A17].
  assert (Ef : rq_state_fn cb g (c_in_state c) c = rq_request_complete cb g (rq_set_in (fun k => k <| k_next_byte := None |>) c)).
  { rewrite A2. cbn [rq_state_fn]. unfold REQ_FINALIZE_fn, rq_finalize_scan. rewrite (sg_live_closed _ A1).
    unfold rq_peek_next, rq_at_end. rewrite A5, A6, Nat.leb_refl. reflexivity. }
  destruct (sg_request_complete_hasbody _ d _ p _ t (sg_cin_next _ _ _ _ _ _ _ _ _ None H) Htc Hprog Hresp H09 Hh) as (c1 & E1 & H1).
  eapply (sg_iter_idle cb g c c1 d _ p); [rewrite Ef; exact E1|exact H1].
Qed.

(* ---- REQ_BODY_DETERMINE with a chunked body ---- *)
Lemma sg_pass_body_determine_chunked c d rd t : sg_cin c d rd [] None REQ_BODY_DETERMINE (Some REQ_BODY_DETERMINE) None t ->
  t_request_transfer_coding t = c_HTP_CODING_CHUNKED ->
  exists c', rq_iter cb g false c = inr c' /\
    sg_cin c' d rd [] None REQ_BODY_CHUNKED_LENGTH (Some REQ_BODY_CHUNKED_LENGTH) None (t <| t_request_progress := c_HTP_REQUEST_BODY |>).
Proof.
  intros H Htc. pose proof (sg_cin_slot _ _ _ _ _ _ _ _ _ H) as Hsl.
  assert (Ef : rq_state_fn cb g (c_in_state c) c = REQ_BODY_DETERMINE_fn c) by (rewrite (ci_state _ _ _ _ _ _ _ _ _ H); reflexivity).
  unfold REQ_BODY_DETERMINE_fn, rq_tx, in_txi, tx_get in Ef. rewrite (ci_tx _ _ _ _ _ _ _ _ _ H), Hsl, Htc in Ef.
  change ((c_HTP_CODING_CHUNKED =? c_HTP_CODING_CHUNKED)%Z) with true in Ef. cbv iota in Ef.
  assert (H1 : sg_cin (c <| c_in_state := REQ_BODY_CHUNKED_LENGTH |>) d rd [] None REQ_BODY_CHUNKED_LENGTH (Some REQ_BODY_DETERMINE) None t) by (eapply sg_cin_state; exact H).
  rewrite (sg_tx_upd _ d rd _ _ _ _ _ t _ H1) in Ef.
  apply (sg_iter_ok (w:=w) cb g c _ d rd [] None REQ_BODY_CHUNKED_LENGTH (Some REQ_BODY_DETERMINE) None _ Ef); [eapply sg_cin_txs; exact H1|discriminate].
Qed.
End Chunked.
