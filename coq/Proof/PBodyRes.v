(* C06, part F (response side): one step of RES_BODY_IDENTITY_CL_KNOWN / RES_BODY_IDENTITY_STREAM_CLOSE, the loop body
   of htp_connp_res_data iterated over the TCP chunks (bd_rs_reach), identity body and close-delimited body under
   every chunking. *)
Require Import Htp.Model.MConnTypes Htp.Model.MBstr Htp.Model.MTxCommon Htp.Model.MResLine Htp.Model.MTxRes Htp.Model.MRes.
Require Import Htp.Spec.SBody Htp.Proof.PBody.
Local Open Scope Z_scope.

Ltac bd_rsplits := repeat match goal with |- _ /\ _ => split end.

(* the unread part of the current chunk *)
Definition bd_rs_rest (c : connp) : bytes :=
  match k_data (c_out c) with Some d => skipn (k_read (c_out c)) d | None => [] end.

Record bd_rs_inv (o : nat) (c : connp) : Prop := mk_bd_rs_inv {
  bs_tx : c_out_tx c = Some o;
  bs_live : exists t, tx_slot c o = Some t /\ t_hook_response_body t = 0%nat /\ t_res_cep t = c_HTP_COMPRESSION_NONE;
  bs_rcv : k_receiver_hook (c_out c) = None;
  bs_hdr : k_header (c_out c) = None;
  bs_status : (c_out_status c =? c_HTP_STREAM_TUNNEL) = false /\ (c_out_status c =? c_HTP_STREAM_CLOSED) = false;
  bs_data : exists d, k_data (c_out c) = Some d /\ k_len (c_out c) = length d /\ (k_read (c_out c) <= length d)%nat
}.

Lemma bd_skipn_skipn' {B} a b (l : list B) : skipn a (skipn b l) = skipn (b + a) l.
Proof. revert l; induction b as [|b IH]; intros l; [reflexivity|]. destruct l; [destruct a; reflexivity|]. cbn. apply IH. Qed.

Lemma bd_firstn_len {B} m (S : list B) : firstn (length (firstn m S)) S = firstn m S.
Proof.
  rewrite firstn_length. destruct (Nat.min_spec m (length S)) as [[A E]|[A E]]; rewrite E; [reflexivity|].
  rewrite firstn_all, firstn_all2 by lia. reflexivity.
Qed.

(* htp_tx_res_process_body_data_ex(tx, data, len) when the callbacks answer OK: the parser afterwards *)
Definition bd_rs_deliver (i : nat) (t : tx) (data : option bytes) (len : nat) (c : connp) : connp :=
  let t1 := t <| t_response_message_len ::= Z.add (Z.of_nat len) |> in
  let c1 := bd_set_tx i t1 c in
  let c2 := bd_set_tx i (t1 <| t_response_entity_len ::= Z.add (Z.of_nat len) |>) c1 in
  emit (bump_hook c2 H_RESPONSE_BODY_DATA) (mkev H_RESPONSE_BODY_DATA i data false None).

Section Res.
Variable cb : cb_oracle.
Variable g : cfg.
Hypothesis cb_ok : forall n, cb H_RESPONSE_BODY_DATA n = CB_OK.

Lemma bd_rs_process_body i t c data len :
  c_out_tx c = Some i -> tx_slot c i = Some t -> t_hook_response_body t = 0%nat -> t_res_cep t = c_HTP_COMPRESSION_NONE ->
  match data with Some _ => len <> 0%nat | None => True end ->
  rs_process_body cb data len c = (ST_OK, bd_rs_deliver i t data len c).
Proof.
  intros Hi Hl Hh Hc Hne. unfold rs_process_body. rewrite Hi. unfold tx_res_process_body_data_ex.
  rewrite (bd_tx_upd_eq _ _ _ _ Hl).
  set (t1 := t <| t_response_message_len ::= _ |>). set (c1 := bd_set_tx i t1 c).
  assert (Hl1 : tx_slot c1 i = Some t1) by (apply (bd_slot_set _ _ _ _ Hl)).
  rewrite (bd_tx_get_live _ _ _ Hl1). change (t_res_cep t1) with (t_res_cep t). rewrite Hc, Z.eqb_refl.
  rewrite (bd_tx_upd_eq _ _ _ _ Hl1).
  set (t2 := t1 <| t_response_entity_len ::= _ |>). set (c2 := bd_set_tx i t2 c1).
  assert (Hl2 : tx_slot c2 i = Some t2) by (apply (bd_slot_set _ _ _ _ Hl1)).
  unfold res_run_hook_body_data. change (c_out_tx c2) with (c_out_tx c). rewrite Hi.
  rewrite (bd_tx_get_live _ _ _ Hl2). change (t_hook_response_body t2) with (t_hook_response_body t). rewrite Hh.
  cbn [run_tx_hooks]. unfold run_data_hook, run_hook_ex. rewrite cb_ok.
  destruct data as [d|]; [destruct len; [congruence|]|]; reflexivity.
Qed.

Lemma bd_rs_deliver_facts i t data len c :
  tx_slot c i = Some t ->
  c_events (bd_rs_deliver i t data len c) = mkev H_RESPONSE_BODY_DATA i data false None :: c_events c /\
  c_out (bd_rs_deliver i t data len c) = c_out c /\ c_out_tx (bd_rs_deliver i t data len c) = c_out_tx c /\
  c_out_status (bd_rs_deliver i t data len c) = c_out_status c /\ c_out_state (bd_rs_deliver i t data len c) = c_out_state c /\
  c_out_body_data_left (bd_rs_deliver i t data len c) = c_out_body_data_left c /\
  c_out_chunked_length (bd_rs_deliver i t data len c) = c_out_chunked_length c /\
  tx_slot (bd_rs_deliver i t data len c) i =
    Some (t <| t_response_message_len ::= Z.add (Z.of_nat len) |> <| t_response_entity_len ::= Z.add (Z.of_nat len) |>).
Proof.
  intros Hl. bd_rsplits; try reflexivity.
  unfold bd_rs_deliver. cbv zeta. set (t1 := t <| t_response_message_len ::= _ |>).
  erewrite bd_slot_ext; [|reflexivity|reflexivity].
  eapply bd_slot_set. apply (bd_slot_set _ _ _ t1 Hl).
Qed.

Lemma bd_rs_bytes_to_consume c n :
  (exists d, k_data (c_out c) = Some d /\ k_len (c_out c) = length d /\ (k_read (c_out c) <= length d)%nat) -> 0 < n ->
  rs_bytes_to_consume c n = length (firstn (Z.to_nat n) (bd_rs_rest c)).
Proof.
  intros (d & Hd & Hl & Hr) Hn. unfold rs_bytes_to_consume, bd_rs_rest. rewrite Hd, Hl.
  rewrite firstn_length, skipn_length.
  destruct (n <? 0) eqn:E1; [apply Z.ltb_lt in E1; lia|].
  destruct (n <=? Z.of_nat (length d - k_read (c_out c))) eqn:E2;
    [apply Z.leb_le in E2|apply Z.leb_gt in E2];
    destruct (Nat.min_spec (Z.to_nat n) (length d - k_read (c_out c))) as [[A B]|[A B]]; rewrite B; lia.
Qed.

(* ================= (1) one step of RES_BODY_IDENTITY_CL_KNOWN ================= *)
Theorem bd_rs_cl_known_step o t c :
  bd_rs_inv o c -> tx_slot c o = Some t -> 0 < c_out_body_data_left c ->
  let n := c_out_body_data_left c in
  let dd := firstn (Z.to_nat n) (bd_rs_rest c) in
  rs_RES_BODY_IDENTITY_CL_KNOWN cb c =
    if (length dd =? 0)%nat then (ST_DATA, c)
    else let c1 := rs_advance (length dd) (bd_rs_deliver o t (Some dd) (length dd) c) in
         let c2 := c1 <| c_out_body_data_left := c_out_body_data_left c1 - Z.of_nat (length dd) |> in
         if n - Z.of_nat (length dd) =? 0
         then (ST_OK, bd_rs_deliver o (t <| t_response_message_len ::= Z.add (Z.of_nat (length dd)) |>
                                        <| t_response_entity_len ::= Z.add (Z.of_nat (length dd)) |>) None 0
                                    (rs_set_state RES_FINALIZE c2))
         else (ST_DATA, c2).
Proof.
  intros Inv Hl Hn n dd. subst n dd. destruct Inv as [Hi (t0 & Hl0 & Hh & Hc) Hr Hhd (Hst1 & Hst2) Hdat].
  rewrite Hl in Hl0. inversion Hl0; subst t0.
  unfold rs_RES_BODY_IDENTITY_CL_KNOWN. rewrite (bd_rs_bytes_to_consume c _ Hdat Hn).
  unfold rs_closed. rewrite Hst2.
  set (n := c_out_body_data_left c) in *. set (dd := firstn (Z.to_nat n) (bd_rs_rest c)).
  destruct (length dd =? 0)%nat eqn:E0; [reflexivity|]. apply Nat.eqb_neq in E0.
  destruct Hdat as (d & Hd & Hlen & Hrd).
  unfold rs_body_slice. rewrite Hd.
  assert (Hdd : firstn (length dd) (skipn (k_read (c_out c)) d) = dd).
  { subst dd. unfold bd_rs_rest. rewrite Hd. apply bd_firstn_len. }
  rewrite Hdd.
  rewrite (bd_rs_process_body o t c (Some dd) (length dd) Hi Hl Hh Hc E0).
  set (c1 := rs_advance (length dd) (bd_rs_deliver o t (Some dd) (length dd) c)).
  destruct (bd_rs_deliver_facts o t (Some dd) (length dd) c Hl) as (F1 & F2 & F3 & F4 & F5 & F6 & F7 & F8).
  assert (G : c_out_body_data_left c1 = n) by (unfold c1; exact F6).
  cbv zeta. cbn [c_out_body_data_left set]. rewrite G.
  destruct (n - Z.of_nat (length dd) =? 0); [|reflexivity].
  set (c2 := c1 <| c_out_body_data_left := _ |>).
  rewrite (bd_rs_process_body o (t <| t_response_message_len ::= Z.add (Z.of_nat (length dd)) |>
                                   <| t_response_entity_len ::= Z.add (Z.of_nat (length dd)) |>) (rs_set_state RES_FINALIZE c2) None 0); auto;
    try (rewrite <- F8; apply bd_slot_ext; reflexivity).
Qed.

Lemma bd_rs_advance_facts n X :
  c_out (rs_advance n X) = (c_out X) <| k_read := (k_read (c_out X) + n)%nat |> <| k_consume := (k_consume (c_out X) + n)%nat |> /\
  c_out_tx (rs_advance n X) = c_out_tx X /\ c_out_status (rs_advance n X) = c_out_status X /\ c_events (rs_advance n X) = c_events X /\
  c_out_body_data_left (rs_advance n X) = c_out_body_data_left X /\ c_out_chunked_length (rs_advance n X) = c_out_chunked_length X /\
  c_out_state (rs_advance n X) = c_out_state X /\ (forall i, tx_slot (rs_advance n X) i = tx_slot X i).
Proof. bd_rsplits; try reflexivity; try (intros i; apply bd_slot_ext; reflexivity). Qed.


(* ================= (4) one step of RES_BODY_IDENTITY_STREAM_CLOSE: everything that is left in the chunk is delivered ================= *)
Theorem bd_rs_stream_close_step o t c :
  bd_rs_inv o c -> tx_slot c o = Some t ->
  let dd := bd_rs_rest c in
  rs_RES_BODY_IDENTITY_STREAM_CLOSE cb c =
    if (length dd =? 0)%nat then (ST_DATA, c)
    else (ST_DATA, rs_advance (length dd) (bd_rs_deliver o t (Some dd) (length dd) c)).
Proof.
  intros Inv Hl dd. subst dd. destruct Inv as [Hi (t0 & Hl0 & Hh & Hc) Hr Hhd (Hst1 & Hst2) (d & Hd & Hlen & Hrd)].
  rewrite Hl in Hl0. inversion Hl0; subst t0.
  unfold rs_RES_BODY_IDENTITY_STREAM_CLOSE.
  assert (E1 : (k_len (c_out c) <? k_read (c_out c))%nat = false) by (apply Nat.ltb_ge; lia). rewrite E1.
  assert (E2 : length (bd_rs_rest c) = (k_len (c_out c) - k_read (c_out c))%nat) by (unfold bd_rs_rest; rewrite Hd, skipn_length, Hlen; reflexivity).
  rewrite <- E2. destruct (length (bd_rs_rest c) =? 0)%nat eqn:E0.
  - unfold rs_closed. rewrite Hst2. reflexivity.
  - apply Nat.eqb_neq in E0. unfold rs_body_slice. rewrite Hd.
    assert (Hdd : firstn (length (bd_rs_rest c)) (skipn (k_read (c_out c)) d) = bd_rs_rest c) by (unfold bd_rs_rest; rewrite Hd; apply firstn_all).
    rewrite Hdd. cbv beta iota zeta. pose proof (bd_rs_process_body o t c (Some (bd_rs_rest c)) _ Hi Hl Hh Hc E0) as Hp.
    unfold bytes in Hp |- *. rewrite Hp.
    unfold rs_closed. destruct (bd_rs_deliver_facts o t (Some (bd_rs_rest c)) (length (bd_rs_rest c)) c Hl) as (F1 & F2 & F3 & F4 & _).
    match goal with |- context [rs_advance ?n ?X] =>
      destruct (bd_rs_advance_facts n X) as (_ & _ & A3 & _); rewrite A3 end.
    unfold bytes in *. rewrite F4, Hst2. reflexivity.
Qed.
(* at close (no data, stream closed) the state only moves on: nothing is delivered, nothing is lost *)
Lemma bd_rs_stream_close_at_close c :
  (c_out_status c =? c_HTP_STREAM_CLOSED) = true -> k_len (c_out c) = k_read (c_out c) ->
  rs_RES_BODY_IDENTITY_STREAM_CLOSE cb c = (ST_OK, rs_set_state RES_FINALIZE c).
Proof.
  intros Hc He. unfold rs_RES_BODY_IDENTITY_STREAM_CLOSE. rewrite He, Nat.ltb_irrefl, Nat.sub_diag. cbn [Nat.eqb].
  unfold rs_closed. rewrite Hc. reflexivity.
Qed.

(* ---- abstract form of the two steps ---- *)
Definition bd_rs_pending (c : connp) : bytes := match k_buf (c_out c) with Some b => b | None => [] end.
(* between two segments of a body: nothing scanned but not consumed, nothing buffered (out_buf NULL or of length 0) *)
Definition bd_rs_clean (c : connp) : Prop := k_consume (c_out c) = k_read (c_out c) /\ bd_rs_pending c = [].
Definition bd_rs_eqv (a b : connp) : Prop :=
  c_out a = c_out b /\ c_out_tx a = c_out_tx b /\ c_txs a = c_txs b /\ c_txs_shifted a = c_txs_shifted b /\
  c_out_status a = c_out_status b /\ c_events a = c_events b.
Lemma bd_rs_eqv_slot a b i : bd_rs_eqv a b -> tx_slot b i = tx_slot a i.
Proof. intros (_ & _ & A & B & _). symmetry. apply bd_slot_ext; assumption. Qed.
Lemma bd_rs_eqv_inv a b o : bd_rs_eqv a b -> bd_rs_inv o a -> bd_rs_inv o b.
Proof.
  intros E [A (t & B1 & B2) C D F G]. pose proof (bd_rs_eqv_slot a b o E) as Hs. destruct E as (E1 & E2 & E3 & E4 & E5 & E6).
  constructor; rewrite <- ?E1, <- ?E2, <- ?E5; try assumption. exists t. rewrite Hs. auto.
Qed.
Lemma bd_rs_eqv_rest a b : bd_rs_eqv a b -> bd_rs_rest b = bd_rs_rest a.
Proof. intros (E1 & _). unfold bd_rs_rest. rewrite E1. reflexivity. Qed.
Lemma bd_rs_eqv_clean a b : bd_rs_eqv a b -> bd_rs_clean a -> bd_rs_clean b.
Proof. intros (E1 & _). unfold bd_rs_clean, bd_rs_pending. rewrite E1. auto. Qed.
Lemma bd_rs_eqv_events a b : bd_rs_eqv a b -> c_events b = c_events a.
Proof. intros (_ & _ & _ & _ & _ & E). auto. Qed.
Lemma bd_rs_eqv_trans a b c : bd_rs_eqv a b -> bd_rs_eqv b c -> bd_rs_eqv a c.
Proof. unfold bd_rs_eqv. intuition congruence. Qed.

(* the parser after dd went to RESPONSE_BODY_DATA and the offsets moved *)
Record bd_rs_stepped (o : nat) (t : tx) (dd : bytes) (c c' : connp) : Prop := mk_bd_rs_stepped {
  rp_inv : bd_rs_inv o c';
  rp_rest : forall rest, bd_rs_rest c = dd ++ rest -> bd_rs_rest c' = rest;
  rp_clean : bd_rs_clean c -> bd_rs_clean c';
  rp_events : c_events c' = mkev H_RESPONSE_BODY_DATA o (Some dd) false None :: c_events c;
  rp_slot : tx_slot c' o = Some (t <| t_response_message_len ::= Z.add (Z.of_nat (length dd)) |>
                                   <| t_response_entity_len ::= Z.add (Z.of_nat (length dd)) |>);
  rp_state : c_out_state c' = c_out_state c
}.
Lemma bd_rs_advance_stepped o t dd rest c :
  bd_rs_inv o c -> tx_slot c o = Some t -> bd_rs_rest c = dd ++ rest ->
  let c' := rs_advance (length dd) (bd_rs_deliver o t (Some dd) (length dd) c) in
  bd_rs_stepped o t dd c c' /\ c_out_body_data_left c' = c_out_body_data_left c /\ c_out_chunked_length c' = c_out_chunked_length c.
Proof.
  intros [Hi (t0 & Hl0 & Hh & Hc) Hr Hhd Hst (d & Hd & Hlen & Hrd)] Hl Hrest.
  rewrite Hl in Hl0. inversion Hl0; subst t0.
  destruct (bd_rs_deliver_facts o t (Some dd) (length dd) c Hl) as (F1 & F2 & F3 & F4 & F5 & F6 & F7 & F8).
  set (X := bd_rs_deliver o t (Some dd) (length dd) c) in *. clearbody X.
  destruct (bd_rs_advance_facts (length dd) X) as (A1 & A2 & A3 & A4 & A5 & A6 & A7 & A8).
  set (Y := rs_advance (length dd) X) in *. clearbody Y.
  rewrite F2 in A1.
  assert (Hle : (k_read (c_out c) + length dd <= length d)%nat).
  { unfold bd_rs_rest in Hrest. rewrite Hd in Hrest. assert (length (skipn (k_read (c_out c)) d) = length (dd ++ rest)) by (rewrite Hrest; reflexivity).
    rewrite skipn_length, app_length in H. lia. }
  cbv zeta. split; [|split; [rewrite A5; exact F6|rewrite A6; exact F7]].
  constructor.
  - constructor; rewrite ?A1, ?A2, ?A3, ?F3, ?F4; try assumption.
    + eexists. split; [rewrite A8; exact F8|]. split; [exact Hh|exact Hc].
    + exists d. cbn. bd_rsplits; auto.
  - intros rest' H. rewrite Hrest in H. apply app_inv_head in H. subst rest'.
    unfold bd_rs_rest. rewrite A1. cbn. rewrite Hd. unfold bd_rs_rest in Hrest. rewrite Hd in Hrest.
    rewrite <- bd_skipn_skipn', Hrest, skipn_app, Nat.sub_diag, skipn_all. reflexivity.
  - intros (A & B). unfold bd_rs_clean, bd_rs_pending in *. rewrite A1. cbn. split; [lia|exact B].
  - rewrite A4. exact F1.
  - rewrite A8. exact F8.
  - rewrite A7. exact F5.
Qed.
End Res.

Lemma bd_rs_invb_sound o c : bd_rs_invb o c = true -> bd_rs_inv o c.
Proof.
  unfold bd_rs_invb. intros H. repeat (apply andb_true_iff in H; destruct H as (H & ?)).
  destruct (c_out_tx c) as [j|] eqn:E1; [|discriminate]. apply Nat.eqb_eq in H. subst j.
  destruct (tx_slot c o) as [t|] eqn:E2; [|discriminate]. apply andb_true_iff in H5. destruct H5 as (H5 & H6).
  apply Nat.eqb_eq in H5. apply Z.eqb_eq in H6.
  destruct (k_receiver_hook (c_out c)) eqn:E3; [discriminate|].
  destruct (k_header (c_out c)) eqn:E4; [discriminate|].
  destruct (k_data (c_out c)) as [d|] eqn:E5; [|discriminate].
  apply andb_true_iff in H0. destruct H0 as (A & B). apply Nat.eqb_eq in A. apply Nat.leb_le in B.
  apply negb_true_iff in H1. apply negb_true_iff in H2.
  constructor; auto. exists t; auto. exists d; auto.
Qed.
Lemma bd_rs_cleanb_sound c : bd_rs_cleanb c = true -> bd_rs_clean c.
Proof.
  unfold bd_rs_cleanb, bd_rs_clean, bd_rs_pending. intros H. apply andb_true_iff in H. destruct H as (A & B). apply Nat.eqb_eq in A.
  destruct (k_buf (c_out c)) as [[|]|]; try discriminate; auto.
Qed.
