(* C05, history level, stage S3: the response-side parser states (MRes) and htp_connp_res_data keep the relation,
   under the guards of Spec/SLife.v (lc_res_loop). *)
Require Import Htp.Model.MConnTypes Htp.Model.MBstr Htp.Model.MTxCommon Htp.Model.MResLine Htp.Model.MTxRes Htp.Model.MRes
               Htp.Spec.SConnp Htp.Spec.SLife Htp.Proof.PLife Htp.Proof.PLifeTx Htp.Proof.PLifeTxRes Htp.Proof.PLifeResComplete Htp.Proof.PLifeReq.
Local Open Scope nat_scope.

(* ------------------------------------------------------------------------------------------------ *)
(* 1. the byte-level helpers do not touch the lifecycle view *)
Lemma sameV_set_out f c : (forall k, k_receiver_hook (f k) = k_receiver_hook k) -> sameV c (rs_set_out f c).
Proof. intros Hf. split; [|reflexivity]. unfold lview, rs_set_out. cbn. rewrite Hf. reflexivity. Qed.
Lemma sameV_rs_fault c : sameV c (rs_fault c). Proof. split; reflexivity. Qed.
Lemma sameV_load_next c : sameV c (rs_load_next c).
Proof.
  unfold rs_load_next. destruct (rs_cur_byte c _); [apply sameV_set_out; intros; reflexivity|].
  apply (sameV_trans _ (rs_set_out (fun k => k <| k_next_byte := None |>) c)); [apply sameV_set_out; intros; reflexivity|apply sameV_rs_fault].
Qed.
Lemma sameV_rs_peek_next c : sameV c (rs_peek_next c).
Proof. unfold rs_peek_next. destruct (rs_has_byte c); [apply sameV_load_next|apply sameV_set_out; intros; reflexivity]. Qed.
Lemma sameV_rs_copy_byte c c' : rs_copy_byte c = Some c' -> sameV c c'.
Proof.
  unfold rs_copy_byte. destruct (rs_has_byte c); [|discriminate]. intros X; injection X as <-.
  apply (sameV_trans _ _ _ (sameV_load_next c)). apply sameV_set_out. intros; reflexivity.
Qed.
Lemma sameV_rs_next_byte c c' : rs_next_byte c = Some c' -> sameV c c'.
Proof.
  unfold rs_next_byte. destruct (rs_has_byte c); [|discriminate]. intros X; injection X as <-.
  apply (sameV_trans _ _ _ (sameV_load_next c)). apply sameV_set_out. intros; reflexivity.
Qed.
Lemma sameV_rs_otx f c : (forall t, txv (f t) = txv t) -> sameV c (rs_otx f c).
Proof. intros Hf. unfold rs_otx. destruct (c_out_tx c); [exact (lview_tx_upd_same c _ f Hf)|split; reflexivity]. Qed.
Lemma sameV_copy_or_fault c : sameV c (match rs_copy_byte c with Some c' => c' | None => rs_fault c end).
Proof. destruct (rs_copy_byte c) eqn:E; [exact (sameV_rs_copy_byte c _ E)|apply sameV_rs_fault]. Qed.

Section Res.
Variable cb : cb_oracle.
Variable g : cfg.
Variable H : list evp.

Lemma sameV_res_buffer c : sameV c (snd (rs_res_buffer g c)).
Proof.
  unfold rs_res_buffer. destruct (k_data (c_out c)); [|apply sameV_refl]. cbv zeta.
  match goal with |- context [if ?b then rs_fault c else c] => set (c1 := if b then rs_fault c else c);
    assert (S1 : sameV c c1) by (subst c1; destruct b; [apply sameV_rs_fault|apply sameV_refl]) end.
  set (c2 := match c_out_tx c1 with None => rs_fault c1 | Some _ => c1 end).
  assert (S2 : sameV c c2) by (subst c2; destruct (c_out_tx c1); [exact S1|exact (sameV_trans _ _ _ S1 (sameV_rs_fault c1))]).
  match goal with |- sameV c (snd (if ?b then _ else _)) => destruct b end; [exact S2|]. cbn [snd].
  apply (sameV_trans _ _ _ S2). apply sameV_set_out. intros; reflexivity.
Qed.
Lemma sameV_rs_consolidate c : sameV c (snd (rs_consolidate g c)).
Proof.
  unfold rs_consolidate. destruct (k_buf (c_out c)).
  - pose proof (sameV_res_buffer c) as S. destruct (rs_res_buffer g c) as [rc c1]. cbn [snd] in S. destruct rc; exact S.
  - destruct (k_data (c_out c)); cbn [snd]; match goal with |- sameV c (if ?b then _ else _) => destruct b end; first [apply sameV_rs_fault|apply sameV_refl].
Qed.
Lemma sameV_rs_clear_buffer c : sameV c (rs_clear_buffer c).
Proof. apply sameV_set_out. intros; reflexivity. Qed.
Lemma sameV_rs_process_header l c : sameV c (rs_process_header l c).
Proof. apply sameV_rs_otx. intros t. apply txv_process_response_header. Qed.
Lemma sameV_rs_flush_header c : sameV c (rs_flush_header c).
Proof.
  unfold rs_flush_header. destruct (k_header (c_out c)) as [b|]; [|apply sameV_refl].
  apply (sameV_trans _ _ _ (sameV_rs_process_header b c)). apply sameV_set_out. intros; reflexivity.
Qed.
Lemma sameV_rs_set_header h c : sameV c (rs_set_header h c).
Proof. apply sameV_set_out. intros; reflexivity. Qed.
Lemma sameV_rs_flag c : sameV c (rs_flag_invalid_folding c).
Proof. apply sameV_rs_otx. intros; reflexivity. Qed.
Lemma sameV_body_slice c n : sameV c (snd (rs_body_slice c n)).
Proof. unfold rs_body_slice. destruct (k_data (c_out c)); cbn [snd]; [apply sameV_refl|]. destruct (_ <? _); [apply sameV_rs_fault|apply sameV_refl]. Qed.
Lemma sameV_advance n c : sameV c (rs_advance n c).
Proof. apply sameV_set_out. intros; reflexivity. Qed.

(* ------------------------------------------------------------------------------------------------ *)
(* 2. generic steps *)
Lemma SJ_same c c' m : sameV c c' -> SJ H c m -> SJ H c' m.
Proof. intros [V L]. exact (SJ_view H c c' m V L). Qed.
Lemma SPost_same c c' m rc : sameV c c' -> SJ H c m -> SPost H c m rc c'.
Proof.
  intros [V L] (HM & HC & HR). exists m. rewrite V, L. split; [exact HM|]. split; [exact HC|]. split; [tauto|].
  split; [change (alive (lv_is (lview c)) -> alive (lv_is (lview c'))); rewrite V; tauto|intros _; exact HR].
Qed.
Lemma SPost_pre c c0 c' m rc : sameV c c0 -> SPost H c0 m rc c' -> SPost H c m rc c'.
Proof.
  intros [V L] (m' & A & B & C & D & E). exists m'. split; [exact A|]. split; [exact B|]. rewrite <- V. split; [exact C|].
  split; [|exact E]. change (alive (lv_is (lview c)) -> alive (c_in_status c')). rewrite <- V. exact D.
Qed.
Lemma SPost_post c c1 c' m rc : SPost H c m rc c1 -> sameV c1 c' -> SPost H c m rc c'.
Proof.
  intros (m' & A & B & C & D & E) [V L]. exists m'. rewrite V, L. split; [exact A|]. split; [exact B|]. split; [exact C|].
  split; [|exact E]. change (alive (c_in_status c) -> alive (lv_is (lview c'))). rewrite V. exact D.
Qed.
Lemma SPostF_pre c c0 c' m rc : sameV c c0 -> SPostF H c0 m rc c' -> SPostF H c m rc c'.
Proof. intros S [F|P]; [left; exact F|right; exact (SPost_pre c c0 c' m rc S P)]. Qed.
Lemma SPost_intro c c' m m' rc :
  SJ H c' m' -> (RQ (lview c) m -> RQ (lview c') m') -> lv_is (lview c') = lv_is (lview c) -> SPost H c m rc c'.
Proof.
  intros (A & B & R) F E. exists m'. split; [exact A|]. split; [exact B|]. split; [exact F|].
  split; [change (alive (lv_is (lview c)) -> alive (lv_is (lview c'))); rewrite E; tauto|intros _; exact R].
Qed.
Lemma SPost_mk c c' m m' rc :
  MS (levs c' ++ H) m' -> Core None None (lview c') m' -> (RQ (lview c) m -> RQ (lview c') m') -> lv_is (lview c') = lv_is (lview c) ->
  (okrc rc -> RS (lview c') m') -> SPost H c m rc c'.
Proof.
  intros A B F E R. exists m'. split; [exact A|]. split; [exact B|]. split; [exact F|].
  split; [change (alive (lv_is (lview c)) -> alive (lv_is (lview c'))); rewrite E; tauto|exact R].
Qed.
Lemma SPost_comp c c1 c' m m1 rc :
  (RQ (lview c) m -> RQ (lview c1) m1) -> (alive (c_in_status c) -> alive (c_in_status c1)) -> SPost H c1 m1 rc c' -> SPost H c m rc c'.
Proof. intros F1 F2 (m' & A & B & C & D & E). exists m'. split; [exact A|]. split; [exact B|]. split; [tauto|]. split; [tauto|exact E]. Qed.

Lemma rs_facts c m j : SJ H c m -> c_out_tx c = Some j ->
  exists p ps ce, vslot (lview c) j = Some (p, ps, ce) /\ ps <> c_HTP_RESPONSE_COMPLETE /\ sst (c_out_state c) ps ce (lc_rs (m j)) /\
                  j < lv_sh (lview c) + lv_on (lview c) /\ j < vnid (lview c) /\ lc_fin (m j) = false.
Proof.
  intros (_ & HC & HR) Hj. destruct (rs_txc _ _ HR j Hj) as (p & ps & ce & Hs & Hp & Hq). exists p, ps, ce.
  destruct (co_otx _ _ _ _ HC j Hj) as [_ Ho]. destruct (vslot_lt _ _ _ Hs) as [_ Hn]. destruct (nofin_s _ _ _ _ _ _ _ _ HC Hs Hp) as [Hf _]. auto 10.
Qed.

(* the current response moves to state st' and its (progress, cep) to F; no callback *)
Lemma SPost_trans c c' m rc j p ps ce st' F :
  SJ H c m -> c_out_tx c = Some j -> vslot (lview c) j = Some (p, ps, ce) ->
  lview c' = v_map j F ((lview c) <| lv_ost := st' |>) -> levs c' = levs c ->
  qp (F (p, ps, ce)) = p -> fst (sp (F (p, ps, ce))) <> c_HTP_RESPONSE_COMPLETE ->
  sst st' (fst (sp (F (p, ps, ce)))) (snd (sp (F (p, ps, ce)))) (lc_rs (m j)) ->
  SPost H c m rc c'.
Proof.
  intros (HM & HC & HR) Hj Hs V L Fq Fs Hq.
  set (v0 := (lview c) <| lv_ost := st' |>) in *.
  destruct (v_map_fields j F v0) as (X1 & _ & X3 & X4 & X5 & X6 & X7 & X8 & X9 & _).
  destruct (rs_txc _ _ HR j Hj) as (p1 & ps1 & ce1 & Hs1 & Hp1 & _). rewrite Hs in Hs1. injection Hs1 as <- <- <-.
  destruct (nofin_s _ _ _ _ _ _ _ _ HC Hs Hp1) as [_ Hlt].
  assert (Hs0 : vslot v0 j = Some (p, ps, ce)) by exact Hs.
  assert (Vm : v_map j F v0 = v_put j (Some (F (p, ps, ce))) v0) by (unfold v_map; rewrite Hs0; reflexivity).
  apply (SPost_mk c c' m m rc); [rewrite L; exact HM| | |rewrite V, X1; reflexivity|].
  - rewrite V, Vm.
    assert (C0 : Core None None v0 m) by (apply (Core_ext None None (lview c)); try reflexivity; exact HC).
    refine (Core_put None None None None v0 m j (p, ps, ce) _ C0 Hs0 _ _ _ _ _ _).
    + rewrite Fq. exact (co_q6 _ _ _ _ HC j p ps ce Hs).
    + rewrite Fq. exact (co_qc _ _ _ _ HC j p ps ce Hs).
    + intros X. lia.
    + intros _ X. contradiction.
    + tauto.
    + tauto.
  - intros R. rewrite V. apply (RQ_ext (lview c) _ m m X3 X5 X7 X9); [|reflexivity|exact R].
    intros k _. rewrite vslot_map. destruct (k =? j) eqn:E; b2p; [subst k|reflexivity]. rewrite Hs0, Hs. cbn. rewrite Fq. reflexivity.
  - intros _. rewrite V. destruct HR as [H1 H2 H3]. constructor.
    + intros k Hk. rewrite X6 in Hk. change (lv_otx (lview c) = Some k) in Hk. assert (k = j) by (change (lv_otx (lview c)) with (c_out_tx c) in Hk; congruence). subst k.
      exists (qp (F (p, ps, ce))), (fst (sp (F (p, ps, ce)))), (snd (sp (F (p, ps, ce)))).
      split; [rewrite vslot_map, Nat.eqb_refl, Hs0; cbn [option_map]; destruct (F (p, ps, ce)) as [[a b] d]; reflexivity|].
      split; [exact Fs|]. rewrite X4. exact Hq.
    + intros h Hh. rewrite X8 in Hh. rewrite X6. exact (H2 h Hh).
    + intros Hn. rewrite X6 in Hn. change (lv_otx (lview c) = None) in Hn. change (lv_otx (lview c)) with (c_out_tx c) in Hn. congruence.
Qed.
Lemma lv_ost_id v : v <| lv_ost := lv_ost v |> = v.
Proof. destruct v; reflexivity. Qed.
Lemma v_map_id j v : v_map j (fun x => x) v = v.
Proof. unfold v_map. destruct (vslot v j) eqn:E; [apply v_put_same; exact E|reflexivity]. Qed.
(* only out_state moves *)
Lemma SPost_goto c c' m rc st' :
  SJ H c m -> lview c' = (lview c) <| lv_ost := st' |> -> levs c' = levs c ->
  (forall j p ps ce, c_out_tx c = Some j -> vslot (lview c) j = Some (p, ps, ce) -> sst (c_out_state c) ps ce (lc_rs (m j)) -> sst st' ps ce (lc_rs (m j))) ->
  (c_out_tx c = None -> st' = RES_IDLE) ->
  SPost H c m rc c'.
Proof.
  intros Q V L Hq Hn. destruct (c_out_tx c) as [j|] eqn:Hj.
  - destruct (rs_facts c m j Q Hj) as (p & ps & ce & Hs & Hp & Hq0 & _).
    apply (SPost_trans c c' m rc j p ps ce st' (fun x => x) Q Hj Hs); [rewrite v_map_id; exact V|exact L|reflexivity|exact Hp|exact (Hq j p ps ce eq_refl Hs Hq0)].
  - destruct Q as (HM & HC & HR). apply (SPost_mk c c' m m rc); [rewrite L; exact HM| | |rewrite V; reflexivity|].
    + rewrite V. apply (Core_ext None None (lview c)); try reflexivity. exact HC.
    + intros R. rewrite V. apply (RQ_same_in (lview c)); try reflexivity. exact R.
    + intros _. rewrite V. apply RS_idle; [exact Hj| |exact (Hn eq_refl)].
      change (lv_oh (lview c) = None). destruct (lv_oh (lview c)) as [h|] eqn:Eh; [|reflexivity].
      destruct (rs_arm _ _ HR h Eh) as (_ & k & Hk & _). change (lv_otx (lview c)) with (c_out_tx c) in Hk. congruence.
Qed.

Lemma sst_rng st ps ce s : sst st ps ce s -> 1 <= s <= 5.
Proof. destruct st; cbn; intros X; try contradiction; try lia; try (destruct X as [[_ X]|[_ X]]; lia); destruct X; lia. Qed.
(* the states whose clause is a range lo .. 5 (whatever the progress and cep) *)
Definition sup (st : res_state) : bool :=
  match st with RES_IDLE | RES_LINE | RES_HEADERS | RES_BODY_DETERMINE => false | _ => true end.
Lemma sst_up st ps ce s s' : sup st = true -> sst st ps ce s -> s <= s' <= 5 -> sst st ps ce s'.
Proof. destruct st; cbn; intros X Y Z; try discriminate X; lia. Qed.

(* body data is handed to the callbacks *)
Lemma process_body_spec data len c rc c' m :
  rs_process_body cb data len c = (rc, c') -> SJ H c m ->
  (forall j p ps ce s', c_out_tx c = Some j -> vslot (lview c) j = Some (p, ps, ce) -> lc_rs (m j) <= s' <= 5 -> sst (c_out_state c) ps ce s') ->
  exists m', SJ H c' m' /\ lview c' = lview c /\ (rc = ST_OK \/ rc = ST_ERROR) /\ (RQ (lview c) m -> RQ (lview c') m').
Proof.
  intros E Q Hup. unfold rs_process_body in E. destruct (c_out_tx c) as [j|] eqn:Hj.
  2:{ injection E as <- <-. exists m. split; [exact Q|]. split; [reflexivity|]. split; tauto. }
  pose proof Q as (HM & HC & HR).
  destruct (rs_facts c m j Q Hj) as (p & ps & ce & Hs & Hp & Hq & Ho & Hn & Hf).
  destruct (res_body_ex cb H None j data len c rc c' m E HM HC Hn Ho Hf (sst_rng _ _ _ _ Hq)) as (m' & A & B & R & V & S & F & G).
  { intros p0 ps0 ce0 Hs0 _. rewrite Hs in Hs0. injection Hs0 as <- <- <-. exact Hp. }
  assert (V' : lview c' = lview c) by (apply (vmoved_inc j _ _ _ V Hs); intros [_ X]; cbn in X; contradiction).
  exists m'. split; [|split; [exact V'|split; [exact R|rewrite V'; exact (RQ_smv j _ m m' S)]]].
  split; [exact A|]. split; [exact B|]. rewrite V'. apply (RS_smv j (lview c) m m' S Hj); [| |exact HR].
  - intros h Hh. destruct (rs_arm _ _ HR h Hh) as (_ & k & Hk & Hnd). assert (k = j) by (change (lv_otx (lview c)) with (c_out_tx c) in Hk; congruence). subst k. lia.
  - intros p0 ps0 ce0 Hs0 _. apply (Hup j p0 ps0 ce0 _ eq_refl Hs0). lia.
Qed.

Lemma not_okrc_error_r : ~ okrc ST_ERROR. Proof. intros [X|[X|[X|X]]]; discriminate X. Qed.
Lemma not_okrc_stop_r : ~ okrc ST_STOP. Proof. intros [X|[X|[X|X]]]; discriminate X. Qed.

(* htp_connp_RES_BODY_CHUNKED_DATA_END *)
Lemma rs_chunked_data_end_shape fuel : forall c, exists c1, sameV c c1 /\
  (rs_chunked_data_end_loop fuel c = (ST_ERROR, c1) \/ rs_chunked_data_end_loop fuel c = (ST_DATA, c1) \/
   rs_chunked_data_end_loop fuel c = (ST_OK, rs_set_state RES_BODY_CHUNKED_LENGTH c1)).
Proof.
  induction fuel as [|f IH]; intros c; cbn [rs_chunked_data_end_loop].
  - exists (rs_fault c). split; [apply sameV_rs_fault|left; reflexivity].
  - destruct (rs_next_byte c) as [c0|] eqn:E0; [|exists c; split; [apply sameV_refl|right; left; reflexivity]].
    pose proof (sameV_rs_next_byte c c0 E0) as S0.
    match goal with |- context [rs_otx ?f c0] => pose proof (sameV_trans _ _ _ S0 (sameV_rs_otx f c0 (fun t => eq_refl))) as S1; set (c1 := rs_otx f c0) in * end.
    destruct (rs_nb_is c1 LF); [exists c1; split; [exact S1|right; right; reflexivity]|].
    destruct (IH c1) as (c2 & S2 & R2). exists c2. split; [exact (sameV_trans _ _ _ S1 S2)|exact R2].
Qed.
Lemma RES_BODY_CHUNKED_DATA_END_spec c rc c' m :
  rs_RES_BODY_CHUNKED_DATA_END c = (rc, c') -> SJ H c m -> c_out_state c = RES_BODY_CHUNKED_DATA_END -> SPost H c m rc c'.
Proof.
  intros E Q Hst. unfold rs_RES_BODY_CHUNKED_DATA_END in E.
  destruct (rs_chunked_data_end_shape (rs_bytes_fuel c) c) as (c1 & S1 & [R|[R|R]]); rewrite R in E; injection E as <- <-.
  - exact (SPost_same c c1 m _ S1 Q).
  - exact (SPost_same c c1 m _ S1 Q).
  - apply (SPost_pre c c1 _ m _ S1). pose proof (SJ_same c c1 m S1 Q) as Q1.
    assert (St1 : c_out_state c1 = RES_BODY_CHUNKED_DATA_END) by (change (lv_ost (lview c1) = RES_BODY_CHUNKED_DATA_END); rewrite (proj1 S1); exact Hst).
    apply (SPost_goto c1 _ m _ RES_BODY_CHUNKED_LENGTH Q1); [reflexivity|reflexivity| |].
    + intros j p ps ce _ _. rewrite St1. cbn [sst]. tauto.
    + intros Hn. exfalso. destruct Q1 as (_ & _ & HR). pose proof (rs_st _ _ HR Hn) as X. change (lv_ost (lview c1)) with (c_out_state c1) in X. rewrite St1 in X. discriminate X.
Qed.

Lemma process_body_sup data len c rc c' m :
  rs_process_body cb data len c = (rc, c') -> SJ H c m -> sup (c_out_state c) = true ->
  exists m', SJ H c' m' /\ lview c' = lview c /\ (rc = ST_OK \/ rc = ST_ERROR) /\ (RQ (lview c) m -> RQ (lview c') m').
Proof.
  intros E Q Hs. apply (process_body_spec data len c rc c' m E Q).
  intros j p ps ce s' Hj Hsl Hr. destruct (rs_facts c m j Q Hj) as (p0 & ps0 & ce0 & Hs0 & _ & Hq & _). rewrite Hsl in Hs0. injection Hs0 as <- <- <-.
  exact (sst_up _ _ _ _ s' Hs Hq Hr).
Qed.
Lemma out_state_some c m st : SJ H c m -> c_out_state c = st -> st <> RES_IDLE -> c_out_tx c <> None.
Proof. intros (_ & _ & HR) Hst Hn Ho. pose proof (rs_st _ _ HR Ho) as X. change (lv_ost (lview c)) with (c_out_state c) in X. congruence. Qed.

(* the end of a body: deliver the end-of-body call from state RES_FINALIZE *)
Lemma body_end_spec c rc c' m :
  rs_process_body cb None 0 (rs_set_state RES_FINALIZE c) = (rc, c') -> SJ H c m -> sup (c_out_state c) = true -> SPost H c m rc c'.
Proof.
  intros E Q Hs.
  assert (Q1 : SPost H c m ST_OK (rs_set_state RES_FINALIZE c)).
  { apply (SPost_goto c _ m _ RES_FINALIZE Q); [reflexivity|reflexivity| |].
    - intros j p ps ce _ _ Hq. cbn [sst]. exact (sst_rng _ _ _ _ Hq).
    - intros Hn. exfalso. apply (out_state_some c m (c_out_state c) Q eq_refl); [|exact Hn]. intros X. rewrite X in Hs. discriminate Hs. }
  destruct Q1 as (m1 & A1 & B1 & F1 & G1 & R1). pose proof (R1 ltac:(unfold okrc; tauto)) as RS1.
  destruct (process_body_sup None 0 _ rc c' m1 E (conj A1 (conj B1 RS1)) eq_refl) as (m2 & Q2 & V2 & R2 & F2).
  apply (SPost_comp c (rs_set_state RES_FINALIZE c) c' m m1 rc F1 G1).
  apply (SPost_intro _ c' m1 m2 rc Q2 F2). rewrite V2. reflexivity.
Qed.

(* htp_connp_RES_BODY_CHUNKED_DATA *)
Lemma RES_BODY_CHUNKED_DATA_spec c rc c' m :
  rs_RES_BODY_CHUNKED_DATA cb c = (rc, c') -> SJ H c m -> c_out_state c = RES_BODY_CHUNKED_DATA -> SPost H c m rc c'.
Proof.
  intros E Q Hst. unfold rs_RES_BODY_CHUNKED_DATA in E. cbv zeta in E.
  destruct (_ =? 0); [injection E as <- <-; exact (SPost_same c c m _ (sameV_refl c) Q)|].
  match type of E with context [rs_body_slice c ?n] => pose proof (sameV_body_slice c n) as S1; destruct (rs_body_slice c n) as [data c1]; cbn [snd] in S1 end.
  apply (SPost_pre c c1 _ m _ S1). pose proof (SJ_same c c1 m S1 Q) as Q1.
  assert (St1 : c_out_state c1 = RES_BODY_CHUNKED_DATA) by (change (lv_ost (lview c1) = RES_BODY_CHUNKED_DATA); rewrite (proj1 S1); exact Hst).
  match type of E with context [rs_process_body cb data ?n c1] => destruct (rs_process_body cb data n c1) as [rc2 c2] eqn:E2;
    destruct (process_body_sup data n c1 rc2 c2 m E2 Q1 ltac:(rewrite St1; reflexivity)) as (m2 & Q2 & V2 & R2 & F2) end.
  assert (Is2 : lv_is (lview c2) = lv_is (lview c1)) by (rewrite V2; reflexivity).
  destruct R2 as [-> | ->]; [|injection E as <- <-; exact (SPost_intro c1 c2 m m2 _ Q2 F2 Is2)].
  match type of E with context [rs_advance ?n c2] => set (c3 := (rs_advance n c2) <| c_out_chunked_length := (c_out_chunked_length (rs_advance n c2) - Z.of_nat n)%Z |>) in *;
    assert (S3 : sameV c2 c3) by (apply (sameV_trans _ _ _ (sameV_advance n c2)); split; reflexivity) end.
  pose proof (SJ_same c2 c3 m2 S3 Q2) as Q3.
  assert (F3 : RQ (lview c1) m -> RQ (lview c3) m2) by (rewrite (proj1 S3); exact F2).
  assert (Is3 : lv_is (lview c3) = lv_is (lview c1)) by (rewrite (proj1 S3); exact Is2).
  destruct (Z.eqb (c_out_chunked_length c3) 0); injection E as <- <-; [|exact (SPost_intro c1 c3 m m2 _ Q3 F3 Is3)].
  apply (SPost_comp c1 c3 _ m m2 ST_OK F3); [change (alive (lv_is (lview c1)) -> alive (lv_is (lview c3))); rewrite Is3; tauto|].
  assert (St3 : c_out_state c3 = RES_BODY_CHUNKED_DATA) by (change (lv_ost (lview c3) = RES_BODY_CHUNKED_DATA); rewrite (proj1 S3), V2; exact St1).
  apply (SPost_goto c3 _ m2 _ RES_BODY_CHUNKED_DATA_END Q3); [reflexivity|reflexivity| |].
  - intros j p ps ce _ _. rewrite St3. cbn [sst]. tauto.
  - intros Hn. exfalso. apply (out_state_some c3 m2 _ Q3 St3); [discriminate|exact Hn].
Qed.

(* htp_connp_RES_BODY_IDENTITY_CL_KNOWN *)
Lemma RES_BODY_IDENTITY_CL_KNOWN_spec c rc c' m :
  rs_RES_BODY_IDENTITY_CL_KNOWN cb c = (rc, c') -> SJ H c m -> c_out_state c = RES_BODY_IDENTITY_CL_KNOWN -> SPost H c m rc c'.
Proof.
  intros E Q Hst. unfold rs_RES_BODY_IDENTITY_CL_KNOWN in E. cbv zeta in E.
  destruct (rs_closed c); [apply (body_end_spec c rc c' m E Q); rewrite Hst; reflexivity|].
  destruct (_ =? 0); [injection E as <- <-; exact (SPost_same c c m _ (sameV_refl c) Q)|].
  match type of E with context [rs_body_slice c ?n] => pose proof (sameV_body_slice c n) as S1; destruct (rs_body_slice c n) as [data c1]; cbn [snd] in S1 end.
  apply (SPost_pre c c1 _ m _ S1). pose proof (SJ_same c c1 m S1 Q) as Q1.
  assert (St1 : c_out_state c1 = RES_BODY_IDENTITY_CL_KNOWN) by (change (lv_ost (lview c1) = RES_BODY_IDENTITY_CL_KNOWN); rewrite (proj1 S1); exact Hst).
  match type of E with context [rs_process_body cb data ?n c1] => destruct (rs_process_body cb data n c1) as [rc2 c2] eqn:E2;
    destruct (process_body_sup data n c1 rc2 c2 m E2 Q1 ltac:(rewrite St1; reflexivity)) as (m2 & Q2 & V2 & R2 & F2) end.
  assert (Is2 : lv_is (lview c2) = lv_is (lview c1)) by (rewrite V2; reflexivity).
  destruct R2 as [-> | ->]; [|injection E as <- <-; exact (SPost_intro c1 c2 m m2 _ Q2 F2 Is2)].
  match type of E with context [rs_advance ?n c2] => set (c3 := (rs_advance n c2) <| c_out_body_data_left := (c_out_body_data_left (rs_advance n c2) - Z.of_nat n)%Z |>) in *;
    assert (S3 : sameV c2 c3) by (apply (sameV_trans _ _ _ (sameV_advance n c2)); split; reflexivity) end.
  pose proof (SJ_same c2 c3 m2 S3 Q2) as Q3.
  assert (F3 : RQ (lview c1) m -> RQ (lview c3) m2) by (rewrite (proj1 S3); exact F2).
  assert (Is3 : lv_is (lview c3) = lv_is (lview c1)) by (rewrite (proj1 S3); exact Is2).
  destruct (Z.eqb (c_out_body_data_left c3) 0); [|injection E as <- <-; exact (SPost_intro c1 c3 m m2 _ Q3 F3 Is3)].
  apply (SPost_comp c1 c3 _ m m2 rc F3); [change (alive (lv_is (lview c1)) -> alive (lv_is (lview c3))); rewrite Is3; tauto|].
  apply (body_end_spec c3 rc c' m2 E Q3). change (c_out_state c3) with (lv_ost (lview c3)). rewrite (proj1 S3), V2. change (sup (c_out_state c1) = true). rewrite St1. reflexivity.
Qed.

(* htp_connp_RES_BODY_IDENTITY_STREAM_CLOSE *)
Lemma RES_BODY_IDENTITY_STREAM_CLOSE_spec c rc c' m :
  rs_RES_BODY_IDENTITY_STREAM_CLOSE cb c = (rc, c') -> SJ H c m -> c_out_state c = RES_BODY_IDENTITY_STREAM_CLOSE -> SPost H c m rc c'.
Proof.
  intros E Q Hst. unfold rs_RES_BODY_IDENTITY_STREAM_CLOSE in E. cbv zeta in E.
  match type of E with context [if ?b then rs_fault c else c] => set (c0 := if b then rs_fault c else c) in E;
    assert (S0 : sameV c c0) by (subst c0; destruct b; [apply sameV_rs_fault|apply sameV_refl]) end.
  apply (SPost_pre c c0 _ m _ S0). pose proof (SJ_same c c0 m S0 Q) as Q0.
  assert (St0 : c_out_state c0 = RES_BODY_IDENTITY_STREAM_CLOSE) by (change (lv_ost (lview c0) = RES_BODY_IDENTITY_STREAM_CLOSE); rewrite (proj1 S0); exact Hst).
  assert (Tail : forall c3 m3, SJ H c3 m3 -> (RQ (lview c0) m -> RQ (lview c3) m3) -> lview c3 = lview c0 ->
            (if rs_closed c3 then (ST_OK, rs_set_state RES_FINALIZE c3) else (ST_DATA, c3)) = (rc, c') -> SPost H c0 m rc c').
  { intros c3 m3 Q3 F3 V3 E3. assert (Is3 : lv_is (lview c3) = lv_is (lview c0)) by (rewrite V3; reflexivity).
    destruct (rs_closed c3); injection E3 as <- <-; [|exact (SPost_intro c0 c3 m m3 _ Q3 F3 Is3)].
    apply (SPost_comp c0 c3 _ m m3 ST_OK F3); [change (alive (lv_is (lview c0)) -> alive (lv_is (lview c3))); rewrite Is3; tauto|].
    assert (St3 : c_out_state c3 = RES_BODY_IDENTITY_STREAM_CLOSE) by (change (lv_ost (lview c3) = RES_BODY_IDENTITY_STREAM_CLOSE); rewrite V3; exact St0).
    apply (SPost_goto c3 _ m3 _ RES_FINALIZE Q3); [reflexivity|reflexivity| |].
    - intros j p ps ce _ _. rewrite St3. cbn [sst]. tauto.
    - intros Hn. exfalso. apply (out_state_some c3 m3 _ Q3 St3); [discriminate|exact Hn]. }
  destruct (_ =? 0); [exact (Tail c0 m Q0 (fun x => x) eq_refl E)|].
  match type of E with context [rs_body_slice c0 ?n] => pose proof (sameV_body_slice c0 n) as S1; destruct (rs_body_slice c0 n) as [data c1]; cbn [snd] in S1 end.
  pose proof (SJ_same c0 c1 m S1 Q0) as Q1.
  assert (St1 : c_out_state c1 = RES_BODY_IDENTITY_STREAM_CLOSE) by (change (lv_ost (lview c1) = RES_BODY_IDENTITY_STREAM_CLOSE); rewrite (proj1 S1); exact St0).
  match type of E with context [rs_process_body cb data ?n c1] => destruct (rs_process_body cb data n c1) as [rc2 c2] eqn:E2;
    destruct (process_body_sup data n c1 rc2 c2 m E2 Q1 ltac:(rewrite St1; reflexivity)) as (m2 & Q2 & V2 & R2 & F2) end.
  rewrite (proj1 S1) in F2, V2.
  destruct R2 as [-> | ->].
  - match type of E with context [rs_advance ?n c2] => pose proof (sameV_advance n c2) as S3; set (c3 := rs_advance n c2) in * end.
    apply (Tail c3 m2 (SJ_same c2 c3 m2 S3 Q2)); [rewrite (proj1 S3); exact F2|rewrite (proj1 S3); exact V2|exact E].
  - injection E as <- <-. apply (SPost_intro c0 c2 m m2 _ Q2 F2). rewrite V2. reflexivity.
Qed.

(* htp_connp_RES_BODY_CHUNKED_LENGTH *)
Inductive rcl_out (c1 : connp) : st * connp -> Prop :=
  | RCL_err : rcl_out c1 (ST_ERROR, c1)
  | RCL_buf : rcl_out c1 (ST_DATA_BUFFER, c1)
  | RCL_ident : rcl_out c1 (ST_OK, rs_otx (fun t => t <| t_response_transfer_coding := c_HTP_CODING_IDENTITY |>) (rs_set_state RES_BODY_IDENTITY_STREAM_CLOSE c1))
  | RCL_data : rcl_out c1 (ST_OK, rs_set_state RES_BODY_CHUNKED_DATA c1)
  | RCL_trailer : rcl_out c1 (ST_OK, rs_otx (fun t => t <| t_response_progress := c_HTP_RESPONSE_TRAILER |>) (rs_set_state RES_HEADERS c1)).

Lemma rs_chunked_length_shape fuel : forall c, exists c1, sameV c c1 /\ rcl_out c1 (rs_chunked_length_loop g fuel c).
Proof.
  induction fuel as [|f IH]; intros c; cbn [rs_chunked_length_loop].
  - exists (rs_fault c). split; [apply sameV_rs_fault|apply RCL_err].
  - destruct (rs_copy_byte c) as [c0|] eqn:E0; [|exists c; split; [apply sameV_refl|apply RCL_buf]].
    pose proof (sameV_rs_copy_byte c c0 E0) as S0. cbv zeta.
    match goal with |- context [if ?b then _ else rs_chunked_length_loop g f c0] => destruct b end.
    2:{ destruct (IH c0) as (c2 & S2 & R2). exists c2. split; [exact (sameV_trans _ _ _ S0 S2)|exact R2]. }
    pose proof (sameV_rs_consolidate c0) as S1. destruct (rs_consolidate g c0) as [[data|] c1]; cbn [snd] in S1;
      [|exists c1; split; [exact (sameV_trans _ _ _ S0 S1)|apply RCL_err]].
    pose proof (sameV_trans _ _ _ S0 S1) as S01.
    match goal with |- context [rs_otx ?f c1] => pose proof (sameV_trans _ _ _ S01 (sameV_rs_otx f c1 (fun t => eq_refl))) as S2; set (c2 := rs_otx f c1) in * end.
    match goal with |- context [rs_clear_buffer ?cc] => assert (S3 : sameV c cc) by (apply (sameV_trans _ _ _ S2); split; reflexivity); set (c3 := cc) in * end.
    match goal with |- context [if ?b then rs_chunked_length_loop g f _ else _] => destruct b end.
    { destruct (IH (rs_clear_buffer c3)) as (c4 & S4 & R4). exists c4. split; [exact (sameV_trans _ _ _ (sameV_trans _ _ _ S3 (sameV_rs_clear_buffer c3)) S4)|exact R4]. }
    match goal with |- context [if ?b then _ else _] => destruct b end.
    { match goal with |- context [rs_set_state RES_BODY_IDENTITY_STREAM_CLOSE (rs_set_out ?h c3)] => exists (rs_set_out h c3); split; [|apply RCL_ident] end.
      apply (sameV_trans _ _ _ S3). apply sameV_set_out. intros; reflexivity. }
    pose proof (sameV_trans _ _ _ S3 (sameV_rs_clear_buffer c3)) as S4.
    match goal with |- context [if ?b then _ else _] => destruct b end; exists (rs_clear_buffer c3); (split; [exact S4|]); [apply RCL_data|apply RCL_trailer].
Qed.

Lemma lview_rs_otx_map c j f F : c_out_tx c = Some j -> (forall t, txv (f t) = F (txv t)) ->
  lview (rs_otx f c) = v_map j F (lview c) /\ levs (rs_otx f c) = levs c.
Proof. intros Hj Hf. unfold rs_otx. rewrite Hj. exact (lview_tx_upd_map c j f F Hf). Qed.

Lemma RES_BODY_CHUNKED_LENGTH_spec c rc c' m :
  rs_RES_BODY_CHUNKED_LENGTH g c = (rc, c') -> SJ H c m -> c_out_state c = RES_BODY_CHUNKED_LENGTH -> SPost H c m rc c'.
Proof.
  intros E Q Hst. unfold rs_RES_BODY_CHUNKED_LENGTH in E.
  destruct (rs_chunked_length_shape (rs_bytes_fuel c) c) as (c1 & S1 & R). rewrite E in R.
  pose proof (SJ_same c c1 m S1 Q) as Q1.
  assert (St1 : c_out_state c1 = RES_BODY_CHUNKED_LENGTH) by (change (lv_ost (lview c1) = RES_BODY_CHUNKED_LENGTH); rewrite (proj1 S1); exact Hst).
  assert (So : c_out_tx c1 <> None) by (apply (out_state_some c1 m _ Q1 St1); discriminate).
  destruct (c_out_tx c1) as [j|] eqn:Hj; [clear So|congruence].
  destruct (rs_facts c1 m j Q1 Hj) as (p & ps & ce & Hs & Hp & Hq & _). rewrite St1 in Hq. cbn [sst] in Hq.
  apply (SPost_pre c c1 _ m _ S1). remember (rc, c') as r eqn:Er. destruct R; injection Er as <- <-.
  - exact (SPost_same c1 c1 m _ (sameV_refl c1) Q1).
  - exact (SPost_same c1 c1 m _ (sameV_refl c1) Q1).
  - match goal with |- SPost _ _ _ _ (rs_otx ?f ?cc) => destruct (lview_rs_otx_map cc j f (fun x => x) Hj (fun t => eq_refl)) as [A B] end.
    apply (SPost_trans c1 _ m _ j p ps ce RES_BODY_IDENTITY_STREAM_CLOSE (fun x => x) Q1 Hj Hs); [exact A|exact B|reflexivity|exact Hp|]. cbn. lia.
  - apply (SPost_goto c1 _ m _ RES_BODY_CHUNKED_DATA Q1); [reflexivity|reflexivity| |congruence].
    intros k p0 ps0 ce0 _ _. rewrite St1. cbn [sst]. tauto.
  - match goal with |- SPost _ _ _ _ (rs_otx ?f ?cc) => destruct (lview_rs_otx_map cc j f (xsetps c_HTP_RESPONSE_TRAILER) Hj (fun t => eq_refl)) as [A B] end.
    apply (SPost_trans c1 _ m _ j p ps ce RES_HEADERS (xsetps c_HTP_RESPONSE_TRAILER) Q1 Hj Hs); [exact A|exact B|reflexivity|discriminate|].
    cbn. right. split; [reflexivity|exact Hq].
Qed.

(* htp_connp_RES_FINALIZE *)
Lemma rs_complete_spec c rc c' m :
  rs_response_complete cb g c = (rc, c') -> SJ H c m -> c_out_state c = RES_FINALIZE -> SPostF H c m rc c'.
Proof.
  intros E Q Hst. unfold rs_response_complete in E. destruct (c_out_tx c) as [i|] eqn:Hi.
  2:{ injection E as <- <-. right. exact (SPost_same c c m _ (sameV_refl c) Q). }
  destruct (rs_facts c m i Q Hi) as (p & ps & ce & Hs & Hp & Hq & _). rewrite Hst in Hq. cbn [sst] in Hq.
  exact (response_complete_spec cb g H i c rc c' m E Q Hi Hq).
Qed.

Lemma sameV_finalize_scan fuel : forall c, sameV c (snd (rs_finalize_scan fuel c)).
Proof.
  induction fuel as [|f IH]; intros c; cbn [rs_finalize_scan]; [apply sameV_rs_fault|].
  destruct (rs_copy_byte c) as [c0|] eqn:E0; [|apply sameV_refl]. pose proof (sameV_rs_copy_byte c c0 E0) as S0.
  destruct (rs_nb_is c0 LF); [exact S0|exact (sameV_trans _ _ _ S0 (IH c0))].
Qed.

Lemma rs_finalize_tail_spec c rc c' m :
  rs_finalize_tail cb g c = (rc, c') -> SJ H c m -> c_out_state c = RES_FINALIZE -> SPostF H c m rc c'.
Proof.
  intros E Q Hst. unfold rs_finalize_tail in E. cbv zeta in E.
  pose proof (sameV_rs_consolidate c) as S1. destruct (rs_consolidate g c) as [[data|] c1]; cbn [snd] in S1;
    [|injection E as <- <-; right; exact (SPost_same c c1 m _ S1 Q)].
  pose proof (SJ_same c c1 m S1 Q) as Q1.
  assert (St1 : c_out_state c1 = RES_FINALIZE) by (change (lv_ost (lview c1) = RES_FINALIZE); rewrite (proj1 S1); exact Hst).
  apply (SPostF_pre c c1 _ m _ S1).
  destruct (_ =? 0); [exact (rs_complete_spec c1 rc c' m E Q1 St1)|].
  destruct (rs_treat_response_line_as_body data).
  - match type of E with context [rs_process_body cb data ?n c1] => destruct (rs_process_body cb data n c1) as [rc2 c2] eqn:E2;
      destruct (process_body_sup data n c1 rc2 c2 m E2 Q1 ltac:(rewrite St1; reflexivity)) as (m2 & Q2 & V2 & R2 & F2) end.
    injection E as <- <-. right. pose proof (sameV_rs_clear_buffer c2) as S3.
    apply (SPost_intro c1 _ m m2 rc2 (SJ_same c2 _ m2 S3 Q2)); [rewrite (proj1 S3); exact F2|rewrite (proj1 S3), V2; reflexivity].
  - match type of E with rs_response_complete cb g ?cc = _ => assert (S2 : sameV c1 cc);
      [|apply (SPostF_pre c1 cc _ m _ S2); apply (rs_complete_spec cc rc c' m E (SJ_same c1 cc m S2 Q1));
        change (lv_ost (lview cc) = RES_FINALIZE); rewrite (proj1 S2); exact St1] end.
    repeat match goal with |- sameV c1 (rs_set_out ?f ?x) => apply (sameV_trans _ x); [|apply sameV_set_out; intros k; try reflexivity] end.
    + apply sameV_refl.
    + destruct (_ <? _); reflexivity.
    + destruct (k_buf k); reflexivity.
Qed.

Lemma RES_FINALIZE_spec c rc c' m : rs_RES_FINALIZE cb g c = (rc, c') -> SJ H c m -> c_out_state c = RES_FINALIZE -> SPostF H c m rc c'.
Proof.
  intros E Q Hst. unfold rs_RES_FINALIZE in E.
  destruct (negb (rs_closed c)); [|exact (rs_finalize_tail_spec c rc c' m E Q Hst)].
  pose proof (sameV_rs_peek_next c) as S0. set (c0 := rs_peek_next c) in *.
  pose proof (SJ_same c c0 m S0 Q) as Q0.
  assert (St0 : c_out_state c0 = RES_FINALIZE) by (change (lv_ost (lview c0) = RES_FINALIZE); rewrite (proj1 S0); exact Hst).
  apply (SPostF_pre c c0 _ m _ S0).
  destruct (rs_nb c0) as [b|]; [|exact (rs_complete_spec c0 rc c' m E Q0 St0)].
  destruct (_ || _)%bool; [|exact (rs_finalize_tail_spec c0 rc c' m E Q0 St0)].
  pose proof (sameV_finalize_scan (rs_bytes_fuel c0) c0) as S1. destruct (rs_finalize_scan (rs_bytes_fuel c0) c0) as [[|] c1]; cbn [snd] in S1.
  - apply (SPostF_pre c0 c1 _ m _ S1). apply (rs_finalize_tail_spec c1 rc c' m E (SJ_same c0 c1 m S1 Q0)).
    change (lv_ost (lview c1) = RES_FINALIZE). rewrite (proj1 S1). exact St0.
  - injection E as <- <-. right. exact (SPost_same c0 c1 m _ S1 Q0).
Qed.

(* htp_connp_RES_HEADERS *)
Lemma rs_trailer_end_spec c rc c' m : rs_trailer_end cb c = (rc, c') -> SJ H c m -> c_out_state c = RES_HEADERS -> SPost H c m rc c'.
Proof.
  intros E Q Hst. unfold rs_trailer_end in E.
  assert (So : c_out_tx c <> None) by (apply (out_state_some c m _ Q Hst); discriminate).
  destruct (c_out_tx c) as [j|] eqn:Hj; [clear So|congruence].
  destruct (rs_facts c m j Q Hj) as (p & ps & ce & Hs & Hp & Hq & Ho & Hn & Hf). rewrite Hst in Hq. cbn [sst] in Hq.
  assert (Hq2 : 2 <= lc_rs (m j) <= 5) by (destruct Hq as [[_ X]|[_ X]]; lia).
  destruct (res_receiver_finalize_clear cb c) as [rc1 c1] eqn:E1.
  destruct (res_fin_clear cb H c rc1 c1 m E1 Q) as (Q1 & V1 & R1).
  assert (Is1 : lv_is (lview c1) = lv_is (lview c)) by (rewrite V1; reflexivity).
  assert (F1 : RQ (lview c) m -> RQ (lview c1) m) by (intros R; rewrite V1; apply (RQ_same_in (lview c)); try reflexivity; exact R).
  destruct R1 as [-> | [-> | ->]].
  2,3: injection E as <- <-; destruct Q1 as (A1 & B1 & _); apply (SPost_mk c c1 m m _ A1 B1 F1 Is1); intros [X|[X|[X|X]]]; discriminate X.
  assert (Hj1 : c_out_tx c1 = Some j) by (change (lv_otx (lview c1) = Some j); rewrite V1; exact Hj).
  assert (Et : out_txi c1 = j) by (unfold out_txi; rewrite Hj1; reflexivity). rewrite Et in E.
  destruct Q1 as (A1 & B1 & RS1).
  assert (Hs1 : vslot (lview c1) j = Some (p, ps, ce)) by (rewrite V1; exact Hs).
  assert (Ho1 : j < lv_sh (lview c1) + lv_on (lview c1)) by (rewrite V1; exact Ho).
  pose proof (lc_h16 (m j) Hf Hq2) as Hst16. unfold run_hook in E.
  destruct (run_hook_ex cb H_RESPONSE_TRAILER j None false None c1) as [rc2 c2] eqn:E2.
  destruct (shook cb H H_RESPONSE_TRAILER j None false None c1 rc2 c2 m 5 p ps ce E2 A1 B1 Hs1 Hp Ho1 Hst16 ltac:(lia)) as (A2 & B2 & R2 & V2).
  set (m2 := mupd m j (lcs (m j) 5)) in *.
  assert (F2 : RQ (lview c) m -> RQ (lview c2) m2) by (intros R; rewrite V2; exact (RQ_smv j _ m m2 (smv_upd j m 5) (F1 R))).
  assert (Is2 : lv_is (lview c2) = lv_is (lview c)) by (rewrite V2; exact Is1).
  destruct R2 as [-> | [-> | ->]]; injection E as <- <-.
  2,3: apply (SPost_mk c c2 m m2 _ A2 B2 F2 Is2); intros [X|[X|[X|X]]]; discriminate X.
  assert (V3 : lview (rs_set_state RES_FINALIZE c2) = (lview c) <| lv_oh := None |> <| lv_ost := RES_FINALIZE |>) by (rewrite <- V1, <- V2; reflexivity).
  apply (SPost_mk c _ m m2 ST_OK); [exact A2|apply (Core_ext None None (lview c2)); try reflexivity; exact B2| |rewrite V3; reflexivity|].
  - intros R. apply (RQ_same_in (lview c2)); try reflexivity. exact (F2 R).
  - intros _. rewrite V3. constructor.
    + intros k Hk. change (lv_otx (lview c) = Some k) in Hk. assert (k = j) by (change (lv_otx (lview c)) with (c_out_tx c) in Hk; congruence). subst k.
      exists p, ps, ce. split; [exact Hs|]. split; [exact Hp|]. cbn [lv_ost set]. subst m2. rewrite mupd_same. cbn. lia.
    + intros h Hh. discriminate Hh.
    + intros Hn'. change (lv_otx (lview c) = None) in Hn'. change (lv_otx (lview c)) with (c_out_tx c) in Hn'. congruence.
Qed.

Inductive hl_out (c1 : connp) : st * connp -> Prop :=
  | HL_err : hl_out c1 (ST_ERROR, c1)
  | HL_buf : hl_out c1 (ST_DATA_BUFFER, c1)
  | HL_trailer : hl_out c1 (rs_trailer_end cb c1)
  | HL_body : Z.eqb (t_response_progress (rs_tx c1)) c_HTP_RESPONSE_HEADERS = true -> hl_out c1 (ST_OK, rs_set_state RES_BODY_DETERMINE c1).

Lemma rs_headers_line_shape d c : exists c1, sameV c c1 /\
  (fst (rs_headers_line cb g d c) = None /\ snd (rs_headers_line cb g d c) = c1 \/
   exists r, fst (rs_headers_line cb g d c) = Some r /\ hl_out c1 r).
Proof.
  unfold rs_headers_line. cbv zeta.
  match goal with |- context [rs_is_line_terminator _ d ?x] => generalize x; intros nn end.
  match goal with |- context [rs_clear_buffer (rs_flush_header ?cc)] => assert (S0 : sameV c cc);
    [|set (c0 := cc) in *] end.
  { destruct (rs_has_byte c); [|apply sameV_refl]. destruct (rs_cur_byte c _); [apply sameV_refl|apply sameV_rs_fault]. }
  destruct (rs_is_line_terminator _ d nn).
  - set (c1 := rs_clear_buffer (rs_flush_header c0)).
    assert (S1 : sameV c c1) by exact (sameV_trans _ _ _ S0 (sameV_trans _ _ _ (sameV_rs_flush_header c0) (sameV_rs_clear_buffer _))).
    exists c1. split; [exact S1|right].
    destruct (Z.eqb (t_response_progress (rs_tx c1)) c_HTP_RESPONSE_HEADERS) eqn:Ep; eexists; (split; [reflexivity|]); [apply HL_body; exact Ep|apply HL_trailer].
  - match goal with |- exists c1, sameV c c1 /\ (fst (None, rs_clear_buffer ?x) = None /\ _ \/ _) =>
      exists (rs_clear_buffer x); split; [|left; split; reflexivity];
      apply (sameV_trans _ _ _ S0); apply (sameV_trans _ x); [|apply sameV_rs_clear_buffer] end.
    destruct (Z.eqb _ 0).
    + pose proof (sameV_trans _ _ _ (sameV_rs_flush_header c0) (sameV_rs_peek_next (rs_flush_header c0))) as S2. set (c2 := rs_peek_next (rs_flush_header c0)) in *.
      destruct (rs_nb c2) as [b|]; [destruct (negb _)|];
        first [exact (sameV_trans _ _ _ S2 (sameV_rs_process_header _ c2)) | exact (sameV_trans _ _ _ S2 (sameV_rs_set_header _ c2))].
    + destruct (k_header (c_out c0)) as [h|].
      * match goal with |- sameV c0 (if ?b then _ else _) => destruct b end.
        -- apply (sameV_trans _ (rs_process_header h (rs_flag_invalid_folding c0))); [|apply sameV_rs_set_header].
           exact (sameV_trans _ _ _ (sameV_rs_flag c0) (sameV_rs_process_header h _)).
        -- destruct (Z.ltb _ _); [apply sameV_rs_set_header|apply sameV_refl].
      * exact (sameV_trans _ _ _ (sameV_rs_flag c0) (sameV_rs_set_header _ _)).
Qed.

(* the line-end scan of htp_connp_RES_HEADERS (copied from MRes.rs_headers_loop): it only moves the cursor *)
Definition hd_scan (lfcrending : bool) (c : connp) : nat * connp :=
            if rs_nb_is c CR then
              let c := rs_peek_next c in
              match rs_nb c with
              | None => (0%nat, c)
              | Some b =>
                if (b =? LF)%N then
                  let c := match rs_copy_byte c with Some c => c | None => rs_fault c end in
                  let c :=
                    if lfcrending then
                      let c := rs_peek_next c in
                      if rs_nb_is c CR then
                        let c := match rs_copy_byte c with Some c => c | None => rs_fault c end in
                        let c := rs_set_out (fun k => k <| k_consume ::= S |>) c in
                        let c := rs_peek_next c in
                        if rs_nb_is c LF then
                          let c := match rs_copy_byte c with Some c => c | None => rs_fault c end in
                          rs_set_out (fun k => k <| k_consume ::= S |>) c
                        else c
                      else c
                    else c in
                  (2%nat, c)
                else if (b =? CR)%N then (1%nat, c)
                else (2%nat, c)
              end
            else
              let c := rs_peek_next c in
              if rs_nb_is c CR then
                let c := match rs_copy_byte c with Some c => c | None => rs_fault c end in
                (4%nat, c)
              else (3%nat, c).

Lemma sameV_consume_S c : sameV c (rs_set_out (fun k => k <| k_consume ::= S |>) c).
Proof. apply sameV_set_out. intros; reflexivity. Qed.
Lemma sameV_hd_scan lf c : sameV c (snd (hd_scan lf c)).
Proof.
  unfold hd_scan. destruct (rs_nb_is c CR).
  - pose proof (sameV_rs_peek_next c) as S1. set (c1 := rs_peek_next c) in *.
    destruct (rs_nb c1) as [b|]; [|exact S1]. destruct (b =? LF)%N; [|destruct (b =? CR)%N; exact S1]. cbn [snd].
    pose proof (sameV_trans _ _ _ S1 (sameV_copy_or_fault c1)) as S2. set (c2 := match rs_copy_byte c1 with Some c => c | None => rs_fault c1 end) in *.
    destruct lf; [|exact S2].
    pose proof (sameV_trans _ _ _ S2 (sameV_rs_peek_next c2)) as S3. set (c3 := rs_peek_next c2) in *.
    destruct (rs_nb_is c3 CR); [|exact S3].
    pose proof (sameV_trans _ _ _ S3 (sameV_copy_or_fault c3)) as S4. set (c4 := match rs_copy_byte c3 with Some c => c | None => rs_fault c3 end) in *.
    pose proof (sameV_trans _ _ _ S4 (sameV_consume_S c4)) as S5. set (c5 := rs_set_out _ c4) in *.
    pose proof (sameV_trans _ _ _ S5 (sameV_rs_peek_next c5)) as S6. set (c6 := rs_peek_next c5) in *.
    destruct (rs_nb_is c6 LF); [|exact S6].
    exact (sameV_trans _ _ _ (sameV_trans _ _ _ S6 (sameV_copy_or_fault c6)) (sameV_consume_S _)).
  - pose proof (sameV_rs_peek_next c) as S1. set (c1 := rs_peek_next c) in *.
    destruct (rs_nb_is c1 CR); [exact (sameV_trans _ _ _ S1 (sameV_copy_or_fault c1))|exact S1].
Qed.

Lemma rs_headers_loop_unfold f lf c :
  rs_headers_loop cb g (S f) lf c =
    if rs_closed c then rs_trailer_end cb c
    else match rs_copy_byte c with
         | None => (ST_DATA_BUFFER, c)
         | Some c =>
           if negb (rs_nb_is c LF) && negb (rs_nb_is c CR) then rs_headers_loop cb g f false c
           else
             let '(scan, c) := hd_scan lf c in
             match scan with
             | 0%nat => (ST_DATA_BUFFER, c)
             | 1%nat => rs_headers_loop cb g f lf c
             | _ =>
               let endwithcr := (scan =? 2)%nat in
               let lfcr' := (scan =? 4)%nat in
               match rs_consolidate g c with
               | (None, c) => (ST_ERROR, c)
               | (Some data, c) =>
                 let d := rs_dbytes data in
                 if endwithcr && (length d <? 2)%nat then rs_headers_loop cb g f lfcr' c
                 else match rs_headers_line cb g d c with
                      | (Some r, _) => r
                      | (None, c) => rs_headers_loop cb g f lfcr' c
                      end
               end
             end
         end.
Proof. reflexivity. Qed.

Lemma rs_headers_shape fuel : forall lf c, exists c1, sameV c c1 /\ hl_out c1 (rs_headers_loop cb g fuel lf c).
Proof.
  induction fuel as [|f IH]; intros lf c.
  - cbn [rs_headers_loop]. exists (rs_fault c). split; [apply sameV_rs_fault|apply HL_err].
  - rewrite rs_headers_loop_unfold.
    destruct (rs_closed c); [exists c; split; [apply sameV_refl|apply HL_trailer]|].
    destruct (rs_copy_byte c) as [c0|] eqn:E0; [|exists c; split; [apply sameV_refl|apply HL_buf]].
    pose proof (sameV_rs_copy_byte c c0 E0) as S0.
    assert (Rec : forall lf' x, sameV c x -> exists c1, sameV c c1 /\ hl_out c1 (rs_headers_loop cb g f lf' x)).
    { intros lf' x Sx. destruct (IH lf' x) as (c1 & S1 & R1). exists c1. split; [exact (sameV_trans _ _ _ Sx S1)|exact R1]. }
    destruct (_ && _)%bool; [exact (Rec false c0 S0)|].
    pose proof (sameV_trans _ _ _ S0 (sameV_hd_scan lf c0)) as S1. destruct (hd_scan lf c0) as [scan c1]. cbn [snd] in S1.
    destruct scan as [|[|scan]]; [exists c1; split; [exact S1|apply HL_buf]|exact (Rec lf c1 S1)|].
    cbv zeta.
    pose proof (sameV_trans _ _ _ S1 (sameV_rs_consolidate c1)) as S2. destruct (rs_consolidate g c1) as [[data|] c2]; cbn [snd] in S2;
      [|exists c2; split; [exact S2|apply HL_err]].
    destruct (_ && _)%bool; [exact (Rec _ c2 S2)|].
    destruct (rs_headers_line_shape (rs_dbytes data) c2) as (c3 & S3 & [[R1 R2]|(r & R1 & R2)]);
      destruct (rs_headers_line cb g (rs_dbytes data) c2) as [ret c4]; cbn [fst snd] in *; subst.
    + exact (Rec _ c3 (sameV_trans _ _ _ S2 S3)).
    + exists c3. split; [exact (sameV_trans _ _ _ S2 S3)|exact R2].
Qed.

Lemma RES_HEADERS_spec c rc c' m : rs_RES_HEADERS cb g c = (rc, c') -> SJ H c m -> c_out_state c = RES_HEADERS -> SPost H c m rc c'.
Proof.
  intros E Q Hst. unfold rs_RES_HEADERS in E.
  destruct (rs_headers_shape (rs_bytes_fuel c) false c) as (c1 & S1 & R). rewrite E in R.
  pose proof (SJ_same c c1 m S1 Q) as Q1.
  assert (St1 : c_out_state c1 = RES_HEADERS) by (change (lv_ost (lview c1) = RES_HEADERS); rewrite (proj1 S1); exact Hst).
  apply (SPost_pre c c1 _ m _ S1). remember (rc, c') as r eqn:Er. destruct R as [ | | |Hb].
  - injection Er as <- <-. exact (SPost_same c1 c1 m _ (sameV_refl c1) Q1).
  - injection Er as <- <-. exact (SPost_same c1 c1 m _ (sameV_refl c1) Q1).
  - exact (rs_trailer_end_spec c1 rc c' m Er Q1 St1).
  - injection Er as <- <-. apply (SPost_goto c1 _ m _ RES_BODY_DETERMINE Q1); [reflexivity|reflexivity| |].
    + intros j p ps ce Hj Hs. rewrite St1. cbn [sst]. intros [X|[X Y]]; [exact X|].
      exfalso. destruct (vslot_tx c1 j _ Hs) as (t0 & Ht0 & Hv0). unfold rs_tx in Hb. rewrite Hj, (tx_get_live c1 j t0 Ht0) in Hb.
      apply Z.eqb_eq in Hb. unfold txv in Hv0. assert (Eps : ps = t_response_progress t0) by congruence. rewrite Eps, Hb in X. discriminate X.
    + intros Hn. exfalso. apply (out_state_some c1 m _ Q1 St1); [discriminate|exact Hn].
Qed.

(* htp_connp_RES_LINE; the guard: no line of this response has been delivered as body data yet (cep is not NONE) *)
Definition cep_clean (c : connp) : Prop :=
  forall j p ps ce, c_out_tx c = Some j -> vslot (lview c) j = Some (p, ps, ce) -> ce <> c_HTP_COMPRESSION_NONE.
Lemma cep_clean_same c c' : sameV c c' -> cep_clean c -> cep_clean c'.
Proof. intros [V _] Hc j p ps ce Hj Hs. rewrite V in Hs. change (lv_otx (lview c') = Some j) in Hj. rewrite V in Hj. exact (Hc j p ps ce Hj Hs). Qed.

Lemma rs_line_complete_spec c rc c' m :
  rs_line_complete cb g c = (rc, c') -> SJ H c m -> c_out_state c = RES_LINE -> cep_clean c -> SPost H c m rc c'.
Proof.
  intros E Q Hst Hcl. unfold rs_line_complete in E.
  pose proof (sameV_rs_consolidate c) as S1. destruct (rs_consolidate g c) as [[data|] c1]; cbn [snd] in S1;
    [|injection E as <- <-; exact (SPost_same c c1 m _ S1 Q)].
  apply (SPost_pre c c1 _ m _ S1). pose proof (SJ_same c c1 m S1 Q) as Q1. pose proof (cep_clean_same c c1 S1 Hcl) as Hcl1.
  assert (St1 : c_out_state c1 = RES_LINE) by (change (lv_ost (lview c1) = RES_LINE); rewrite (proj1 S1); exact Hst).
  assert (So : c_out_tx c1 <> None) by (apply (out_state_some c1 m _ Q1 St1); discriminate).
  destruct (c_out_tx c1) as [j|] eqn:Hj; [clear So|congruence].
  destruct (rs_facts c1 m j Q1 Hj) as (p & ps & ce & Hs & Hp & Hq & Ho & Hn & Hf). rewrite St1 in Hq. cbn [sst] in Hq.
  pose proof (Hcl1 j p ps ce Hj Hs) as Hce. destruct Hq as [Hq1 Hq3]. specialize (Hq3 Hce).
  cbv zeta in E.
  destruct (rs_is_line_ignorable _ _).
  { injection E as <- <-.
    match goal with |- SPost _ _ _ _ (rs_clear_buffer (rs_otx ?f ?cc)) =>
      assert (S2 : sameV cc (rs_clear_buffer (rs_otx f cc))) by exact (sameV_trans _ _ _ (sameV_rs_otx f cc (fun t => eq_refl)) (sameV_rs_clear_buffer _));
      set (c2 := cc) in * end.
    assert (P2 : SPost H c1 m ST_OK c2).
    { subst c2. destruct (rs_closed c1); [|exact (SPost_same c1 c1 m _ (sameV_refl c1) Q1)].
      apply (SPost_goto c1 _ m _ RES_FINALIZE Q1); [reflexivity|reflexivity| |congruence].
      intros k p0 ps0 ce0 _ _. rewrite St1. cbn [sst]. tauto. }
    exact (SPost_post c1 c2 _ m _ P2 S2). }
  match type of E with context [rs_chomp] => idtac end.
  match type of E with context [let '(dc, chomp_result) := rs_chomp ?d in _] => destruct (rs_chomp d) as [dc chomp_result] end.
  match type of E with context [rs_otx ?f c1] => pose proof (sameV_rs_otx f c1 (fun t => eq_refl)) as S2; set (c2 := rs_otx f c1) in * end.
  apply (SPost_pre c1 c2 _ m _ S2). pose proof (SJ_same c1 c2 m S2 Q1) as Q2.
  assert (St2 : c_out_state c2 = RES_LINE) by (change (lv_ost (lview c2) = RES_LINE); rewrite (proj1 S2); exact St1).
  assert (Hj2 : c_out_tx c2 = Some j) by (change (lv_otx (lview c2) = Some j); rewrite (proj1 S2); exact Hj).
  assert (Hs2 : vslot (lview c2) j = Some (p, ps, ce)) by (rewrite (proj1 S2); exact Hs).
  destruct (rs_treat_response_line_as_body _).
  - (* the line is body data *)
    match type of E with (if ?b then _ else _) = _ => destruct b end.
    { injection E as <- <-. apply (SPost_same c2 _ m _); [|exact Q2].
      match goal with |- sameV c2 (rs_clear_buffer (rs_otx ?f ?cc)) =>
        assert (S3 : sameV c2 cc) by (match goal with |- sameV c2 (if ?b then _ else _) => destruct b end; [destruct (rs_cur_byte c2 _); [apply sameV_refl|apply sameV_rs_fault]|apply sameV_refl]);
        exact (sameV_trans _ _ _ S3 (sameV_trans _ _ _ (sameV_rs_otx f cc (fun t => eq_refl)) (sameV_rs_clear_buffer _))) end. }
    match type of E with context [rs_otx ?f (if ?b then ?x else c2)] => set (c3 := if b then x else c2) in E;
      assert (S3 : sameV c2 c3) by (subst c3; destruct b; [destruct (rs_cur_byte c2 _); [apply sameV_refl|apply sameV_rs_fault]|apply sameV_refl]) end.
    apply (SPost_pre c2 c3 _ m _ S3). pose proof (SJ_same c2 c3 m S3 Q2) as Q3.
    assert (Hj3 : c_out_tx c3 = Some j) by (change (lv_otx (lview c3) = Some j); rewrite (proj1 S3); exact Hj2).
    assert (Hs3 : vslot (lview c3) j = Some (p, ps, ce)) by (rewrite (proj1 S3); exact Hs2).
    assert (St3 : c_out_state c3 = RES_LINE) by (change (lv_ost (lview c3) = RES_LINE); rewrite (proj1 S3); exact St2).
    match type of E with context [rs_otx ?f c3] => destruct (lview_rs_otx_map c3 j f (xsetce c_HTP_COMPRESSION_NONE) Hj3 (fun t => eq_refl)) as [A4 B4]; set (c4 := rs_otx f c3) in * end.
    assert (P4 : SPost H c3 m ST_OK c4).
    { apply (SPost_trans c3 c4 m _ j p ps ce RES_LINE (xsetce c_HTP_COMPRESSION_NONE) Q3 Hj3 Hs3); [|exact B4|reflexivity|exact Hp|].
      - rewrite A4. f_equal. rewrite <- St3. symmetry. exact (lv_ost_id (lview c3)).
      - cbn. split; [exact Hq1|intros X; contradiction]. }
    destruct P4 as (m4 & A4' & B4' & F4 & G4 & R4). pose proof (R4 ltac:(unfold okrc; tauto)) as RS4.
    apply (SPost_comp c3 c4 _ m m4 rc F4 G4).
    match type of E with context [rs_set_out ?f c4] => pose proof (sameV_set_out f c4 ltac:(intros; reflexivity)) as S5; set (c5 := rs_set_out f c4) in * end.
    apply (SPost_pre c4 c5 _ m4 _ S5). pose proof (SJ_same c4 c5 m4 S5 (conj A4' (conj B4' RS4))) as Q5.
    assert (V5 : lview c5 = v_map j (xsetce c_HTP_COMPRESSION_NONE) (lview c3)) by (rewrite (proj1 S5); exact A4).
    assert (Hj5 : c_out_tx c5 = Some j).
    { change (lv_otx (lview c5) = Some j). rewrite V5. destruct (v_map_fields j (xsetce c_HTP_COMPRESSION_NONE) (lview c3)) as (_ & _ & _ & _ & _ & X & _). rewrite X. exact Hj3. }
    assert (St5 : c_out_state c5 = RES_LINE).
    { change (lv_ost (lview c5) = RES_LINE). rewrite V5. destruct (v_map_fields j (xsetce c_HTP_COMPRESSION_NONE) (lview c3)) as (_ & _ & _ & X & _). rewrite X. exact St3. }
    assert (Hs5 : vslot (lview c5) j = Some (p, ps, c_HTP_COMPRESSION_NONE)) by (rewrite V5, vslot_map, Nat.eqb_refl, Hs3; reflexivity).
    match type of E with context [rs_process_body cb ?bd ?bl c5] => destruct (rs_process_body cb bd bl c5) as [rc6 c6] eqn:E6;
      destruct (process_body_spec bd bl c5 rc6 c6 m4 E6 Q5) as (m6 & Q6 & V6 & R6 & F6) end.
    { intros k p0 ps0 ce0 s' Hk Hsk Hr. assert (k = j) by congruence. subst k. rewrite Hs5 in Hsk. injection Hsk as <- <- <-.
      rewrite St5. cbn [sst]. destruct Q5 as (_ & _ & HR5). destruct (rs_txc _ _ HR5 j Hj5) as (p1 & ps1 & ce1 & X1 & _ & X3).
      change (lv_ost (lview c5)) with (c_out_state c5) in X3. rewrite St5 in X3. cbn [sst] in X3. split; [lia|intros X; contradiction]. }
    pose proof (sameV_rs_clear_buffer c6) as S7. set (c7 := rs_clear_buffer c6) in *.
    pose proof (SJ_same c6 c7 m6 S7 Q6) as Q7.
    assert (V7 : lview c7 = lview c5) by (rewrite (proj1 S7); exact V6).
    assert (F7 : RQ (lview c5) m4 -> RQ (lview c7) m6) by (rewrite (proj1 S7); exact F6).
    assert (Is7 : lv_is (lview c7) = lv_is (lview c5)) by (rewrite V7; reflexivity).
    destruct R6 as [-> | ->]; [|injection E as <- <-; exact (SPost_intro c5 c7 m4 m6 _ Q7 F7 Is7)].
    destruct (_ <=? _); injection E as <- <-; [|exact (SPost_intro c5 c7 m4 m6 _ Q7 F7 Is7)].
    apply (SPost_comp c5 c7 _ m4 m6 ST_OK F7); [change (alive (lv_is (lview c5)) -> alive (lv_is (lview c7))); rewrite Is7; tauto|].
    assert (Hj7 : c_out_tx c7 = Some j) by (change (lv_otx (lview c7) = Some j); rewrite V7; exact Hj5).
    assert (Hs7 : vslot (lview c7) j = Some (p, ps, c_HTP_COMPRESSION_NONE)) by (rewrite V7; exact Hs5).
    destruct (rs_facts c7 m6 j Q7 Hj7) as (p7 & ps7 & ce7 & Hs7' & _ & Hq7 & _). rewrite Hs7 in Hs7'. injection Hs7' as <- <- <-.
    match goal with |- SPost _ _ _ _ (rs_set_state RES_FINALIZE (?cc <| c_out_body_data_left := _ |>)) =>
      match cc with rs_otx ?f c7 => destruct (lview_rs_otx_map c7 j f (xsetps c_HTP_RESPONSE_BODY) Hj7 (fun t => eq_refl)) as [A8 B8] end end.
    apply (SPost_trans c7 _ m6 _ j p ps c_HTP_COMPRESSION_NONE RES_FINALIZE (xsetps c_HTP_RESPONSE_BODY) Q7 Hj7 Hs7); [|exact B8|reflexivity|discriminate|].
    + match goal with |- lview (rs_set_state RES_FINALIZE (?cc <| c_out_body_data_left := _ |>)) = _ => transitivity ((lview cc) <| lv_ost := RES_FINALIZE |>); [reflexivity|] end.
      rewrite A8. unfold v_map. change (vslot ((lview c7) <| lv_ost := RES_FINALIZE |>) j) with (vslot (lview c7) j). destruct (vslot (lview c7) j); reflexivity.
    + cbn. exact (sst_rng _ _ _ _ Hq7).
  - (* a status line *)
    match type of E with context [rs_otx ?f c2] =>
      assert (Hfx : forall t, txv (f t) = txv t) by (intros t; cbv beta; rewrite txv_apply_response_line; reflexivity);
      pose proof (sameV_rs_otx f c2 Hfx) as S3; set (c3 := rs_otx f c2) in * end.
    apply (SPost_pre c2 c3 _ m _ S3). pose proof (SJ_same c2 c3 m S3 Q2) as Q3. pose proof Q3 as (HM3 & HC3 & HR3).
    assert (Hj3 : c_out_tx c3 = Some j) by (change (lv_otx (lview c3) = Some j); rewrite (proj1 S3); exact Hj2).
    assert (Hs3 : vslot (lview c3) j = Some (p, ps, ce)) by (rewrite (proj1 S3); exact Hs2).
    assert (Ho3 : j < lv_sh (lview c3) + lv_on (lview c3)) by (rewrite (proj1 S3), (proj1 S2); exact Ho).
    assert (St3 : c_out_state c3 = RES_LINE) by (change (lv_ost (lview c3) = RES_LINE); rewrite (proj1 S3); exact St2).
    assert (Et : out_txi c3 = j) by (unfold out_txi; rewrite Hj3; reflexivity). rewrite Et in E.
    destruct (tx_state_response_line cb j c3) as [rc4 c4] eqn:E4.
    destruct (response_line_spec cb H j c3 rc4 c4 m p ps ce E4 HM3 HC3 Hs3 Hp Ho3 ltac:(lia)) as (A4 & B4 & R4 & V4).
    set (m4 := mupd m j (lcs (m j) 2)) in *.
    assert (S4 : smv j m m4) by apply smv_upd.
    assert (F4 : RQ (lview c3) m -> RQ (lview c4) m4) by (rewrite V4; exact (RQ_smv j _ m m4 S4)).
    assert (Is4 : lv_is (lview c4) = lv_is (lview c3)) by (rewrite V4; reflexivity).
    destruct R4 as [-> | [-> | ->]].
    2,3: injection E as <- <-; apply (SPost_mk c3 c4 m m4 _ A4 B4 F4 Is4); intros [X|[X|[X|X]]]; discriminate X.
    injection E as <- <-.
    assert (Hj4 : c_out_tx c4 = Some j) by (change (lv_otx (lview c4) = Some j); rewrite V4; exact Hj3).
    match goal with |- SPost _ _ _ _ (rs_otx ?f ?cc) => destruct (lview_rs_otx_map cc j f (xsetps c_HTP_RESPONSE_HEADERS) Hj4 (fun t => eq_refl)) as [A5 B5]; set (c5 := rs_otx f cc) in * end.
    assert (V5 : lview c5 = v_map j (xsetps c_HTP_RESPONSE_HEADERS) ((lview c3) <| lv_ost := RES_HEADERS |>)) by (rewrite A5, <- V4; reflexivity).
    destruct (v_map_fields j (xsetps c_HTP_RESPONSE_HEADERS) ((lview c3) <| lv_ost := RES_HEADERS |>)) as (X1 & _ & X3 & X4 & X5 & X6 & X7 & X8 & X9 & _).
    apply (SPost_mk c3 c5 m m4 ST_OK); [rewrite B5; exact A4| | |rewrite V5, X1; reflexivity|].
    + rewrite V5. apply Core_sp; [|reflexivity|discriminate|subst m4; rewrite mupd_same; cbn; lia].
      apply (Core_ext None None (lview c4)); try (rewrite V4; reflexivity). exact B4.
    + intros R. rewrite V5. apply RQ_sp; [reflexivity|]. apply (RQ_same_in (lview c3)); try reflexivity. exact (RQ_smv j _ m m4 S4 R).
    + intros _. rewrite V5. constructor.
      * intros k Hk. rewrite X6 in Hk. change (lv_otx (lview c3) = Some k) in Hk. assert (k = j) by (change (lv_otx (lview c3)) with (c_out_tx c3) in Hk; congruence). subst k.
        exists p, c_HTP_RESPONSE_HEADERS, ce. rewrite vslot_map, Nat.eqb_refl. change (vslot ((lview c3) <| lv_ost := RES_HEADERS |>) j) with (vslot (lview c3) j). rewrite Hs3.
        split; [reflexivity|]. split; [discriminate|]. rewrite X4. cbn [lv_ost set sst]. left. split; [reflexivity|]. subst m4. rewrite mupd_same. reflexivity.
      * intros h Hh. rewrite X8 in Hh. change (lv_oh (lview c3) = Some h) in Hh. destruct (rs_arm _ _ HR3 h Hh) as (Ha & k & Hk & Hnd). split; [exact Ha|].
        exists k. rewrite X6. split; [exact Hk|]. assert (k = j) by (change (lv_otx (lview c3)) with (c_out_tx c3) in Hk; congruence). subst k.
        subst m4. rewrite mupd_same. cbn [lcs lc_rs]. unfold need_s in *. destruct (h =? 15) eqn:E15; [|lia].
        (* a trailer receiver cannot be armed while the status line is read *) exfalso. lia.
      * intros Hn'. rewrite X6 in Hn'. change (c_out_tx c3 = None) in Hn'. congruence.
Qed.

Lemma rs_line_shape fuel : forall c, exists c1, sameV c c1 /\
  (rs_line_loop cb g fuel c = (ST_ERROR, c1) \/ rs_line_loop cb g fuel c = (ST_DATA_BUFFER, c1) \/ rs_line_loop cb g fuel c = rs_line_complete cb g c1).
Proof.
  induction fuel as [|f IH]; intros c; cbn [rs_line_loop].
  - exists (rs_fault c). split; [apply sameV_rs_fault|left; reflexivity].
  - assert (S0 : match (if negb (rs_closed c) then rs_copy_byte c else Some c) with Some x => sameV c x | None => True end).
    { destruct (negb (rs_closed c)); [|apply sameV_refl]. destruct (rs_copy_byte c) eqn:E; [exact (sameV_rs_copy_byte c _ E)|exact I]. }
    destruct (if negb (rs_closed c) then rs_copy_byte c else Some c) as [c0|]; [|exists c; split; [apply sameV_refl|right; left; reflexivity]].
    assert (Rec : forall x, sameV c x -> exists c1, sameV c c1 /\
              (rs_line_loop cb g f x = (ST_ERROR, c1) \/ rs_line_loop cb g f x = (ST_DATA_BUFFER, c1) \/ rs_line_loop cb g f x = rs_line_complete cb g c1)).
    { intros x Sx. destruct (IH x) as (c1 & S1 & R1). exists c1. split; [exact (sameV_trans _ _ _ Sx S1)|exact R1]. }
    assert (Fin : forall x, sameV c x -> exists c1, sameV c c1 /\
              ((if rs_nb_is x LF || rs_closed x then rs_line_complete cb g x else rs_line_loop cb g f x) = (ST_ERROR, c1) \/
               (if rs_nb_is x LF || rs_closed x then rs_line_complete cb g x else rs_line_loop cb g f x) = (ST_DATA_BUFFER, c1) \/
               (if rs_nb_is x LF || rs_closed x then rs_line_complete cb g x else rs_line_loop cb g f x) = rs_line_complete cb g c1)).
    { intros x Sx. destruct (_ || _)%bool; [exists x; split; [exact Sx|right; right; reflexivity]|exact (Rec x Sx)]. }
    destruct (rs_nb_is c0 CR); [|exact (Fin c0 S0)].
    pose proof (sameV_trans _ _ _ S0 (sameV_rs_peek_next c0)) as S1. set (c1 := rs_peek_next c0) in *.
    destruct (rs_nb c1) as [b|]; [|exists c1; split; [exact S1|right; left; reflexivity]].
    destruct (b =? LF)%N; [exact (Rec c1 S1)|].
    apply Fin. apply (sameV_trans _ _ _ S1). apply sameV_set_out. intros; reflexivity.
Qed.
Lemma RES_LINE_spec c rc c' m : rs_RES_LINE cb g c = (rc, c') -> SJ H c m -> c_out_state c = RES_LINE -> cep_clean c -> SPost H c m rc c'.
Proof.
  intros E Q Hst Hcl. unfold rs_RES_LINE in E.
  destruct (rs_line_shape (rs_bytes_fuel c) c) as (c1 & S1 & [R|[R|R]]); rewrite R in E.
  - injection E as <- <-. exact (SPost_same c c1 m _ S1 Q).
  - injection E as <- <-. exact (SPost_same c c1 m _ S1 Q).
  - apply (SPost_pre c c1 _ m _ S1). apply (rs_line_complete_spec c1 rc c' m E (SJ_same c c1 m S1 Q)); [|exact (cep_clean_same c c1 S1 Hcl)].
    change (lv_ost (lview c1) = RES_LINE). rewrite (proj1 S1). exact Hst.
Qed.

(* ------------------------------------------------------------------------------------------------ *)
(* htp_connp_RES_BODY_DETERMINE: no callback runs before htp_tx_state_response_headers; until then only in_status /
   in_state (request side) and out_state / out_status / the progress of out_tx move *)
Section BD.
Variable c0 : connp.
Variable m : nat -> lc.
Variable j : nat.
Hypothesis Hrs : lc_rs (m j) = 2.

Definition BDI (x : connp) : Prop :=
  MS (levs x ++ H) m /\ Core None None (lview x) m /\ RSw (lview x) m /\ c_out_tx x = Some j /\
  (RQ (lview c0) m -> RQ (lview x) m) /\ (alive (c_in_status c0) -> alive (c_in_status x)).

Lemma BDI_view x y :
  levs y = levs x -> lv_sh (lview y) = lv_sh (lview x) -> lv_on (lview y) = lv_on (lview x) -> lv_txs (lview y) = lv_txs (lview x) ->
  lv_itx (lview y) = lv_itx (lview x) -> lv_otx (lview y) = lv_otx (lview x) -> lv_oh (lview y) = lv_oh (lview x) ->
  lv_ist (lview y) = lv_ist (lview x) -> lv_ih (lview y) = lv_ih (lview x) -> lv_icl (lview y) = lv_icl (lview x) ->
  (alive (c_in_status x) -> alive (c_in_status y)) ->
  BDI x -> BDI y.
Proof.
  intros L E1 E2 E3 E4 E5 E6 E7 E8 E9 Al (A & B & C & D & F & G).
  split; [rewrite L; exact A|]. split; [apply (Core_ext None None (lview x)); assumption|]. split.
  - apply (RSw_view (lview x)); try assumption. intros k _. unfold vslot. rewrite E1, E3. reflexivity.
  - split; [change (lv_otx (lview y) = Some j); rewrite E5; exact D|]. split; [|tauto].
    intros R. apply (RQ_same_in (lview x)); try assumption. exact (F R).
Qed.
Lemma BDI_state st x : BDI x -> BDI (rs_set_state st x).
Proof. apply BDI_view; try reflexivity. tauto. Qed.
Lemma alive_data : alive c_HTP_STREAM_DATA. Proof. reflexivity. Qed.
Lemma BDI_unblock s x : alive s -> BDI x -> BDI (rs_unblock_request s x).
Proof. intros As. unfold rs_unblock_request. destruct (negb _); [|tauto]. apply BDI_view; try reflexivity. intros _. exact As. Qed.
Lemma RSw_sp v k F : RSw v m -> lv_otx v = Some k -> 1 <= lc_rs (m k) <= 5 -> (forall x, fst (sp (F x)) <> c_HTP_RESPONSE_COMPLETE) -> RSw (v_map k F v) m.
Proof.
  intros (st0 & [R1 R2 R3]) Hk Hr Fs. exists RES_FINALIZE.
  destruct (v_map_fields k F v) as (_ & _ & _ & _ & _ & X6 & _ & X8 & _).
  constructor.
  - intros i Hi. cbn in Hi. rewrite X6 in Hi. assert (i = k) by congruence. subst i.
    destruct (R1 k Hk) as (p & ps & ce & Hs & _). change (vslot v k = Some (p, ps, ce)) in Hs.
    exists (qp (F (p, ps, ce))), (fst (sp (F (p, ps, ce)))), (snd (sp (F (p, ps, ce)))).
    assert (Vs : vslot ((v_map k F v) <| lv_ost := RES_FINALIZE |>) k = option_map F (vslot v k))
      by (change (vslot (v_map k F v) k = option_map F (vslot v k)); rewrite vslot_map, Nat.eqb_refl; reflexivity).
    rewrite Vs, Hs. cbn [option_map].
    split; [destruct (F (p, ps, ce)) as [[a b] d]; reflexivity|]. split; [apply Fs|]. cbn. exact Hr.
  - intros h Hh. cbn in Hh. rewrite X8 in Hh. destruct (R2 h Hh) as (Ha & i & Hi & Hn). split; [exact Ha|]. exists i. cbn. rewrite X6. split; [exact Hi|exact Hn].
  - intros Hn. cbn in Hn. rewrite X6 in Hn. congruence.
Qed.
Lemma BDI_otx f F x : (forall t, txv (f t) = F (txv t)) -> (forall y, qp (F y) = qp y) -> (forall y, fst (sp (F y)) <> c_HTP_RESPONSE_COMPLETE) ->
  BDI x -> BDI (rs_otx f x).
Proof.
  intros Hf Fq Fs (A & B & C & D & G & I).
  destruct (lview_rs_otx_map x j f F D Hf) as [V L].
  destruct (v_map_fields j F (lview x)) as (X1 & _ & _ & _ & _ & X6 & _).
  split; [rewrite L; exact A|]. rewrite V. split; [apply Core_sp; [exact B|exact Fq|exact Fs|rewrite Hrs; lia]|]. split.
  - apply RSw_sp; [exact C|exact D|rewrite Hrs; lia|exact Fs].
  - split; [change (lv_otx (lview (rs_otx f x)) = Some j); rewrite V, X6; exact D|]. split.
    + intros R. apply RQ_sp; [exact Fq|exact (G R)].
    + intros Al. change (alive (lv_is (lview (rs_otx f x)))). rewrite V, X1. exact (I Al).
Qed.
Lemma BDI_otx_same f x : (forall t, txv (f t) = txv t) -> BDI x -> BDI (rs_otx f x).
Proof. intros Hf. apply (BDI_view x); try (rewrite (proj1 (sameV_rs_otx f x Hf)); reflexivity); [exact (proj2 (sameV_rs_otx f x Hf))|].
  change (alive (lv_is (lview x)) -> alive (lv_is (lview (rs_otx f x)))). rewrite (proj1 (sameV_rs_otx f x Hf)). tauto. Qed.

(* Expect: 100-continue refused: the request side is sent to REQ_FINALIZE *)
Lemma RQ_expect v : RQ v m -> (0 <? lv_icl v)%Z = true -> RQ (v <| lv_ist := REQ_FINALIZE |>) m.
Proof.
  intros [R1 R2 R3] Hi.
  assert (Hq : lv_itx v <> None -> q_expect (lv_ist v) = true).
  { intros Hn. destruct (lv_itx v) as [i|] eqn:E; [|congruence]. destruct (R1 i eq_refl) as (p & ps & ce & _ & _ & _ & Hx).
    destruct (q_expect (lv_ist v)); [reflexivity|]. rewrite (Hx eq_refl) in Hi. discriminate Hi. }
  constructor.
  - intros i Hj. change (lv_itx v = Some i) in Hj. destruct (R1 i Hj) as (p & ps & ce & Hs & Hp & Hst & Hx). exists p, ps, ce. split; [exact Hs|]. split; [exact Hp|]. split.
    + assert (X : q_expect (lv_ist v) = true) by (apply Hq; congruence).
      cbn [lv_ist set qst]. destruct (lv_ist v); try discriminate X; cbn [qst] in Hst; lia.
    + intros X. discriminate X.
  - intros h Hh. exfalso. change (lv_ih v = Some h) in Hh. destruct (R2 h Hh) as (_ & Hst & i & Hj & _). assert (X : q_expect (lv_ist v) = true) by (apply Hq; congruence).
    rewrite Hst in X. discriminate X.
  - intros _. reflexivity.
Qed.
Lemma BDI_expect x : (0 <? c_in_content_length x)%Z = true -> BDI x -> BDI (x <| c_in_state := REQ_FINALIZE |>).
Proof.
  intros Hi (A & B & C & D & G & I).
  split; [exact A|]. split; [apply (Core_ext None None (lview x)); try reflexivity; exact B|]. split.
  - apply (RSw_view (lview x)); try reflexivity. exact C.
  - split; [exact D|]. split; [|exact I]. intros R. exact (RQ_expect _ (G R) Hi).
Qed.

(* the end: htp_tx_state_response_headers on the state reached *)
Lemma bd_finish x rc c' :
  rs_response_headers cb x = (rc, c') -> BDI x -> sup (c_out_state x) = true -> SPost H c0 m rc c'.
Proof.
  intros E (A & B & C & D & G & I) Hsup. unfold rs_response_headers in E. rewrite D in E.
  destruct (response_headers_spec cb H j x rc c' m E A B C D ltac:(rewrite Hrs; lia)) as (m' & A' & B' & R' & S' & V' & Hq' & Hok).
  set (v1 := v_map j (xsetce c_HTP_COMPRESSION_NONE) (lview x)) in *.
  destruct (v_map_fields j (xsetce c_HTP_COMPRESSION_NONE) (lview x)) as (X1 & _ & X3 & X4 & X5 & X6 & X7 & _ & X9 & _). fold v1 in X1, X3, X4, X5, X6, X7, X9.
  exists m'. split; [exact A'|]. split; [exact B'|]. split; [|split].
  - intros R. rewrite V'. apply (RQ_smv j _ m m' S'). apply (RQ_same_in v1); try reflexivity. unfold v1. apply RQ_sp; [reflexivity|exact (G R)].
  - intros Al. change (alive (lv_is (lview c'))). rewrite V'. change (alive (lv_is v1)). rewrite X1. exact (I Al).
  - intros Ok. assert (rc = ST_OK) by (destruct R' as [X|[X|X]]; [exact X|subst rc; destruct (not_okrc_stop_r Ok)|subst rc; destruct (not_okrc_error_r Ok)]). subst rc.
    rewrite V'. destruct (RSw_tx _ _ j C D) as (p & ps & ce & Hs & Hp).
    constructor.
    + intros k Hk. change (lv_otx v1 = Some k) in Hk. rewrite X6 in Hk. assert (k = j) by (change (lv_otx (lview x)) with (c_out_tx x) in Hk; congruence). subst k.
      exists p, ps, c_HTP_COMPRESSION_NONE.
      assert (Vs : vslot (v1 <| lv_oh := None |>) j = option_map (xsetce c_HTP_COMPRESSION_NONE) (vslot (lview x) j))
        by (change (vslot v1 j = option_map (xsetce c_HTP_COMPRESSION_NONE) (vslot (lview x) j)); unfold v1; rewrite vslot_map, Nat.eqb_refl; reflexivity).
      rewrite Vs, Hs. split; [reflexivity|]. split; [exact Hp|].
      change (sst (lv_ost v1) ps c_HTP_COMPRESSION_NONE (lc_rs (m' j))). rewrite X4, (Hok eq_refl).
      change (lv_ost (lview x)) with (c_out_state x). destruct (c_out_state x); try discriminate Hsup; cbn; lia.
    + intros h Hh. discriminate Hh.
    + intros Hn. change (lv_otx v1 = None) in Hn. rewrite X6 in Hn. change (c_out_tx x = None) in Hn. congruence.
Qed.
End BD.

Lemma state_unblock s x : c_out_state (rs_unblock_request s x) = c_out_state x.
Proof. unfold rs_unblock_request. destruct (negb _); reflexivity. Qed.
Lemma state_rs_otx f x : c_out_state (rs_otx f x) = c_out_state x.
Proof.
  unfold rs_otx. destruct (c_out_tx x) as [i|]; [|reflexivity]. unfold tx_upd. destruct (tx_slot x i); [|reflexivity].
  unfold tx_put. destruct (_ <? _); [reflexivity|]. destruct (_ <? _); reflexivity.
Qed.
Lemma RS_of_RSw v m j : RSw v m -> lv_otx v = Some j ->
  (forall p ps ce, vslot v j = Some (p, ps, ce) -> sst (lv_ost v) ps ce (lc_rs (m j))) -> RS v m.
Proof.
  intros (st0 & [R1 R2 R3]) Hj Hq. constructor.
  - intros k Hk. assert (k = j) by congruence. subst k. destruct (R1 j Hj) as (p & ps & ce & Hs & Hp & _). exists p, ps, ce.
    split; [exact Hs|]. split; [exact Hp|exact (Hq p ps ce Hs)].
  - intros h Hh. exact (R2 h Hh).
  - intros Hn. congruence.
Qed.
Lemma SPost_of_BDI c0 m j x rc : BDI c0 m j x -> (okrc rc -> RS (lview x) m) -> SPost H c0 m rc x.
Proof. intros (A & B & C & D & G & I) R. exists m. split; [exact A|]. split; [exact B|]. split; [exact G|]. split; [exact I|exact R]. Qed.

Ltac bdi Hrs :=
  repeat first
    [ assumption
    | match goal with |- BDI _ _ _ (rs_set_state _ _) => apply BDI_state end
    | match goal with |- BDI _ _ _ (rs_unblock_request _ _) => apply BDI_unblock; [reflexivity|] end
    | match goal with |- BDI _ _ _ (rs_otx _ _) =>
        first [ apply (BDI_otx _ _ _ Hrs _ (xsetps c_HTP_RESPONSE_BODY));
                  [intros t; cbv beta zeta; repeat match goal with |- context [if ?b then _ else _] => destruct b end; reflexivity|intros; reflexivity|intros; cbn; discriminate|]
              | apply (BDI_otx _ _ _ Hrs _ (xsetps c_HTP_RESPONSE_LINE));
                  [intros t; cbv beta zeta; repeat match goal with |- context [if ?b then _ else _] => destruct b end; reflexivity|intros; reflexivity|intros; cbn; discriminate|]
              | apply BDI_otx_same; [intros t; cbv beta zeta; repeat match goal with |- context [if ?b then _ else _] => destruct b end; reflexivity|] ] end
    | match goal with |- BDI _ _ _ (if ?b then _ else _) => destruct b end
    | match goal with |- BDI _ _ _ (match ?o with Some _ => _ | None => _ end) => destruct o end
    | match goal with |- BDI _ _ _ (set ?fld ?fn ?y) => apply (BDI_view _ _ _ y); [reflexivity|reflexivity|reflexivity|reflexivity|reflexivity|reflexivity|reflexivity|reflexivity|reflexivity|reflexivity|tauto|] end ].

Lemma RES_BODY_DETERMINE_spec c rc c' m :
  rs_RES_BODY_DETERMINE cb c = (rc, c') -> SJ H c m -> c_out_state c = RES_BODY_DETERMINE -> SPost H c m rc c'.
Proof.
  intros E Q Hst.
  assert (So : c_out_tx c <> None) by (apply (out_state_some c m _ Q Hst); discriminate).
  destruct (c_out_tx c) as [j|] eqn:Hj; [clear So|congruence].
  destruct (rs_facts c m j Q Hj) as (p & ps & ce & Hs & Hp & Hq & Ho & Hn & Hf). rewrite Hst in Hq. cbn [sst] in Hq. destruct Hq as [Hps Hrs].
  assert (B0 : BDI c m j c).
  { destruct Q as (A & B & R). split; [exact A|]. split; [exact B|]. split; [exact (RS_RSw _ _ R)|]. split; [exact Hj|]. tauto. }
  unfold rs_RES_BODY_DETERMINE in E. cbv zeta in E.
  match type of E with (if ?b then _ else _) = _ => destruct b end.
  { apply (bd_finish c m j Hrs _ rc c' E); [bdi Hrs|reflexivity]. }
  match type of E with context [if ?b then ?y else c] => set (c1 := if b then y else c) in E; assert (B1 : BDI c m j c1) by (subst c1; bdi Hrs) end.
  match type of E with (if ?b then _ else _) = _ => destruct b end.
  { apply (bd_finish c m j Hrs _ rc c' E); [bdi Hrs|]. cbn [c_out_state set]. rewrite state_unblock. reflexivity. }
  match type of E with (if ?b then _ else _) = _ => destruct b end.
  { injection E as <- <-. match goal with |- SPost _ _ _ _ ?x => assert (Bx : BDI c m j x) by (bdi Hrs) end.
    apply (SPost_of_BDI c m j _ _ Bx). intros _. destruct Bx as (_ & _ & Cx & Dx & _).
    apply (RS_of_RSw _ m j Cx Dx). intros p0 ps0 ce0 _. cbn [lview lv_ost c_out_state rs_set_state set]. rewrite Hrs. cbn. split; [lia|intros _; lia]. }
  (* Expect: 100-continue *)
  match type of E with context [if ?b then ?y else c1] => set (c2 := if b then y else c1) in E; assert (B2 : BDI c m j c2) end.
  { subst c2. match goal with |- BDI _ _ _ (if ?b then _ else _) => destruct b eqn:Eb end; [|exact B1].
    apply andb_prop in Eb. destruct Eb as [Eb _]. apply andb_prop in Eb. destruct Eb as [_ Eb].
    destruct (rs_hdr_get_c _ _); [|exact B1]. destruct (Z.eqb _ 0); [|exact B1]. exact (BDI_expect c m j Hrs c1 Eb B1). }
  match type of E with context [res_state_eqb (c_out_state ?y) RES_FINALIZE] => set (c3 := y) in E; assert (B3 : BDI c m j c3) by (subst c3; bdi Hrs) end.
  destruct (res_state_eqb (c_out_state c3) RES_FINALIZE) eqn:Ef; cbn [negb] in E.
  { apply (bd_finish c m j Hrs c3 rc c' E B3). destruct (c_out_state c3); try discriminate Ef; reflexivity. }
  assert (Err : forall x, BDI c m j x -> SPost H c m ST_ERROR x).
  { intros x Bx. apply (SPost_of_BDI c m j x _ Bx). intros X. destruct (not_okrc_error_r X). }
  assert (Rest : forall c4 (byteranges : bool), BDI c m j c4 ->
    (let '(rc, c) :=
       (let te_chunked := match rs_hdr_get_c (t_response_headers (rs_tx c)) rs_str_transfer_encoding with
                          | Some h => negb (Z.eqb (index_of_mem_nocasenorzero (h_value h) rs_str_chunked) (-1))
                          | None => false
                          end in
        if te_chunked then
          let c := rs_otx (fun t =>
                     let t := t <| t_response_transfer_coding := c_HTP_CODING_CHUNKED |> in
                     let t := if match rs_hdr_get_c (t_response_headers (rs_tx c)) rs_str_content_length with None => true | Some _ => false end
                              then t else t <| t_flags := flag_set (t_flags t) c_HTP_REQUEST_SMUGGLING |> in
                     t <| t_response_progress := c_HTP_RESPONSE_BODY |>) c4 in
          (ST_OK, rs_set_state RES_BODY_CHUNKED_LENGTH c)
        else
          match rs_hdr_get_c (t_response_headers (rs_tx c)) rs_str_content_length with
          | Some h =>
            let v := parse_content_length (h_value h) in
            let c := rs_otx (fun t =>
                       let t := t <| t_response_transfer_coding := c_HTP_CODING_IDENTITY |> in
                       let t := if flag_has (h_flags h) c_HTP_FIELD_REPEATED
                                then t <| t_flags := flag_set (t_flags t) c_HTP_REQUEST_SMUGGLING |> else t in
                       t <| t_response_content_length := v |>) c4 in
            if Z.ltb v 0 then (ST_ERROR, c)
            else
              let c := c <| c_out_content_length := v |> <| c_out_body_data_left := v |> in
              if negb (Z.eqb v 0) then
                (ST_OK, rs_set_state RES_BODY_IDENTITY_CL_KNOWN
                          (rs_otx (fun t => t <| t_response_progress := c_HTP_RESPONSE_BODY |>) c))
              else (ST_OK, rs_set_state RES_FINALIZE c)
          | None =>
            if byteranges then (ST_ERROR, c4)
            else
              let c := rs_set_state RES_BODY_IDENTITY_STREAM_CLOSE c4 in
              let c := rs_otx (fun t => t <| t_response_transfer_coding := c_HTP_CODING_IDENTITY |>
                                          <| t_response_progress := c_HTP_RESPONSE_BODY |>) c in
              (ST_OK, c <| c_out_body_data_left := (-1)%Z |>)
          end) in
     match rc with
     | ST_OK => rs_response_headers cb c
     | _ => (rc, c)
     end) = (rc, c') -> SPost H c m rc c').
  { intros c4 byteranges B4 E4. cbv zeta in E4.
    match type of E4 with context [if ?b then _ else match ?cl with Some _ => _ | None => _ end] => destruct b; [|destruct cl as [hcl|]] end.
    - apply (bd_finish c m j Hrs _ rc c' E4); [bdi Hrs|reflexivity].
    - match type of E4 with context [Z.ltb ?v 0] => destruct (Z.ltb v 0) end.
      { injection E4 as <- <-. apply Err. bdi Hrs. }
      match type of E4 with context [if ?b then _ else _] => destruct b end.
      + apply (bd_finish c m j Hrs _ rc c' E4); [bdi Hrs|reflexivity].
      + apply (bd_finish c m j Hrs _ rc c' E4); [bdi Hrs|reflexivity].
    - destruct byteranges.
      { injection E4 as <- <-. apply Err. exact B4. }
      apply (bd_finish c m j Hrs _ rc c' E4); [bdi Hrs|]. cbn [c_out_state set]. rewrite state_rs_otx. reflexivity. }
  destruct (rs_hdr_get_c (t_response_headers (rs_tx c)) rs_str_content_type) as [hct|].
  - refine (Rest _ _ _ E). bdi Hrs.
  - refine (Rest c3 false B3 E).
Qed.

(* htp_connp_RES_IDLE; the guard: a request is pending *)
Definition idle_ok (c : connp) : Prop :=
  rs_has_byte c = true -> exists t, nth_error (c_txs c) (c_out_next_tx_index c) = Some (Some t).
Lemma Core_pick v m j : Core None None v m -> vslot v j <> None -> j = lv_sh v + lv_on v ->
  Core None None (v <| lv_otx := Some j |> <| lv_on := S (lv_on v) |>) m.
Proof.
  intros [H1 H2 H3 H4 H5 H6 H7 H8 H9] L E. constructor; try assumption.
  - intros i Hi. apply H7. cbn in Hi. lia.
  - intros k Hk. cbn in Hk. injection Hk as <-. split; [exact L|]. cbn. lia.
Qed.
Lemma RES_IDLE_spec c rc c' m : rs_RES_IDLE cb g c = (rc, c') -> SJ H c m -> c_out_state c = RES_IDLE -> idle_ok c -> SPost H c m rc c'.
Proof.
  intros E Q Hst Hok. pose proof Q as (HM & HC & HR). unfold rs_RES_IDLE in E.
  destruct (rs_has_byte c) eqn:Eb; cbn [negb] in E; [|injection E as <- <-; exact (SPost_same c c m _ (sameV_refl c) Q)].
  destruct (Hok Eb) as (t & Ht). cbv zeta in E. rewrite Ht in E.
  assert (Hno : c_out_tx c = None).
  { destruct (c_out_tx c) as [k|] eqn:Hk; [|reflexivity]. destruct (rs_txc _ _ HR k Hk) as (p & ps & ce & _ & _ & X).
    change (lv_ost (lview c)) with (c_out_state c) in X. rewrite Hst in X. destruct X. }
  assert (Hu : lv_oh (lview c) = None).
  { destruct (lv_oh (lview c)) as [h|] eqn:Eh; [|reflexivity]. destruct (rs_arm _ _ HR h Eh) as (_ & k & Hk & _). change (lv_otx (lview c)) with (c_out_tx c) in Hk. congruence. }
  set (j := c_txs_shifted c + c_out_next_tx_index c) in *.
  assert (Hsl : tx_slot c j = Some t).
  { unfold tx_slot, j. assert (X : (c_txs_shifted c + c_out_next_tx_index c <? c_txs_shifted c) = false) by (apply Nat.ltb_ge; lia). rewrite X.
    replace (c_txs_shifted c + c_out_next_tx_index c - c_txs_shifted c) with (c_out_next_tx_index c) by lia. rewrite Ht. reflexivity. }
  assert (Hs : vslot (lview c) j = Some (txv t)) by (rewrite vslot_lview, Hsl; reflexivity).
  match type of E with tx_state_response_start cb (out_txi ?cc) ?cc = _ => set (c1 := cc) in * end.
  assert (V1 : lview c1 = (lview c) <| lv_otx := Some j |> <| lv_on := S (lv_on (lview c)) |>) by reflexivity.
  assert (Et : out_txi c1 = j) by reflexivity. rewrite Et in E.
  assert (HC1 : Core None None (lview c1) m) by (rewrite V1; apply Core_pick; [exact HC|congruence|reflexivity]).
  assert (Hr0 : lc_rs (m j) = 0) by (apply (co_on _ _ _ _ HC); unfold j; cbn; lia).
  assert (P1 : SPost H c1 m rc c').
  { refine (response_start_spec cb H j c1 rc c' m (txv t) E HM HC1 _ Hr0 _ _); [exact Hs|rewrite V1; unfold j; cbn; lia|rewrite V1; exact Hu]. }
  apply (SPost_comp c c1 c' m m rc); [|tauto|exact P1].
  intros R. rewrite V1. apply (RQ_same_in (lview c)); try reflexivity. exact R.
Qed.

(* ------------------------------------------------------------------------------------------------ *)
(* 3. the dispatcher, the state-change hook, the exit path *)
Lemma SPostF_of c m rc c' : SPost H c m rc c' -> SPostF H c m rc c'. Proof. intros X. right. exact X. Qed.

Lemma rs_state_fn_spec s c rc c' m :
  rs_state_fn cb g s c = (rc, c') -> SJ H c m -> c_out_state c = s -> (s = RES_LINE -> cep_clean c) -> (s = RES_IDLE -> idle_ok c) ->
  SPostF H c m rc c'.
Proof.
  intros E Q Hst Hl Hi. destruct s; cbn [rs_state_fn] in E.
  - apply SPostF_of. exact (RES_IDLE_spec c rc c' m E Q Hst (Hi eq_refl)).
  - apply SPostF_of. exact (RES_LINE_spec c rc c' m E Q Hst (Hl eq_refl)).
  - apply SPostF_of. exact (RES_HEADERS_spec c rc c' m E Q Hst).
  - apply SPostF_of. exact (RES_BODY_DETERMINE_spec c rc c' m E Q Hst).
  - apply SPostF_of. exact (RES_BODY_IDENTITY_CL_KNOWN_spec c rc c' m E Q Hst).
  - apply SPostF_of. exact (RES_BODY_IDENTITY_STREAM_CLOSE_spec c rc c' m E Q Hst).
  - apply SPostF_of. exact (RES_BODY_CHUNKED_LENGTH_spec c rc c' m E Q Hst).
  - apply SPostF_of. exact (RES_BODY_CHUNKED_DATA_spec c rc c' m E Q Hst).
  - apply SPostF_of. exact (RES_BODY_CHUNKED_DATA_END_spec c rc c' m E Q Hst).
  - exact (RES_FINALIZE_spec c rc c' m E Q Hst).
Qed.

(* htp_res_handle_state_change *)
Lemma rs_handle_state_change_spec c rc c' m :
  rs_handle_state_change cb c = (rc, c') -> SJ H c m ->
  SJ H c' m /\ rc3 rc /\ exists ho, lview c' = (lview c) <| lv_oh := ho |>.
Proof.
  intros E Q. unfold rs_handle_state_change in E. cbv zeta in E.
  assert (Same : exists ho, lview c = (lview c) <| lv_oh := ho |>) by (exists (lv_oh (lview c)); destruct (lview c); reflexivity).
  match type of E with (if ?b then _ else _) = _ => destruct b end.
  { injection E as <- <-. split; [exact Q|]. split; [left; reflexivity|exact Same]. }
  assert (Fin : forall rc1 c1, SJ H c1 m -> rc3 rc1 -> (exists ho, lview c1 = (lview c) <| lv_oh := ho |>) ->
            (match rc1 with ST_OK => (ST_OK, c1 <| c_out_state_previous := Some (c_out_state c1) |>) | _ => (rc1, c1) end) = (rc, c') ->
            SJ H c' m /\ rc3 rc /\ exists ho, lview c' = (lview c) <| lv_oh := ho |>).
  { intros rc1 c1 Q1 R1 V1 E1.
    assert (X : c' = c1 \/ sameV c1 c') by (destruct rc1; injection E1 as <- <-; [right; split; reflexivity|left; reflexivity..]).
    assert (Rr : rc = rc1) by (destruct rc1; injection E1 as <- <-; reflexivity). subst rc.
    destruct X as [->|X]; [auto|]. split; [exact (SJ_same c1 c' m X Q1)|]. split; [exact R1|]. rewrite (proj1 X). exact V1. }
  destruct (res_state_eqb (c_out_state c) RES_HEADERS) eqn:Eh.
  2:{ exact (Fin ST_OK c Q ltac:(left; reflexivity) Same E). }
  assert (Hst : c_out_state c = RES_HEADERS) by (destruct (c_out_state c); try discriminate Eh; reflexivity).
  assert (So : c_out_tx c <> None) by (apply (out_state_some c m _ Q Hst); discriminate).
  destruct (c_out_tx c) as [j|] eqn:Hj; [clear So|congruence].
  destruct (rs_facts c m j Q Hj) as (p & ps & ce & Hs & Hp & Hq & _). rewrite Hst in Hq. cbn [sst] in Hq.
  destruct (vslot_tx c j _ Hs) as (t0 & Ht0 & Hv0).
  assert (Ep : t_response_progress (rs_tx c) = ps) by (unfold rs_tx; rewrite Hj, (tx_get_live c j t0 Ht0); unfold txv in Hv0; congruence).
  rewrite Ep in E.
  destruct (Z.eqb ps c_HTP_RESPONSE_HEADERS) eqn:E1.
  - apply Z.eqb_eq in E1. subst ps.
    destruct (res_receiver_set cb H_RESPONSE_HEADER_DATA c) as [rc1 c1] eqn:E2.
    destruct (res_receiver_set_spec cb H H_RESPONSE_HEADER_DATA c rc1 c1 m j E2 Q (or_introl eq_refl) Hj) as (Q1 & V1 & R1).
    { destruct Hq as [[_ X]|[X _]]; [unfold need_s; cbn; lia|discriminate X]. }
    apply (Fin rc1 c1 Q1 R1); [eexists; exact V1|exact E].
  - destruct (Z.eqb ps c_HTP_RESPONSE_TRAILER) eqn:E2'.
    + apply Z.eqb_eq in E2'. subst ps.
      destruct (res_receiver_set cb H_RESPONSE_TRAILER_DATA c) as [rc1 c1] eqn:E2.
      destruct (res_receiver_set_spec cb H H_RESPONSE_TRAILER_DATA c rc1 c1 m j E2 Q (or_intror eq_refl) Hj) as (Q1 & V1 & R1).
      { destruct Hq as [[X _]|[_ X]]; [discriminate X|unfold need_s; cbn; lia]. }
      apply (Fin rc1 c1 Q1 R1); [eexists; exact V1|exact E].
    + exact (Fin ST_OK c Q ltac:(left; reflexivity) Same E).
Qed.

(* the loop invariant (a: the request stream was alive when the call started) and what holds when the call returns *)
Definition SL (a : Prop) (c : connp) (m : nat -> lc) : Prop := SJ H c m /\ (a -> alive (c_in_status c) /\ RQ (lview c) m).
Definition SEnd (a : Prop) (c : connp) : Prop :=
  exists m, MS (levs c ++ H) m /\ Core None None (lview c) m /\ (alive (c_out_status c) -> RS (lview c) m) /\ (a -> alive (c_in_status c) /\ RQ (lview c) m).

Lemma SEnd_status (a : Prop) c m s :
  MS (levs c ++ H) m -> Core None None (lview c) m -> (alive s -> RS (lview c) m) -> (a -> alive (c_in_status c) /\ RQ (lview c) m) ->
  SEnd a (rs_set_out_status s c).
Proof.
  intros HM HC HR HS. exists m. split; [exact HM|]. split; [apply (Core_ext None None (lview c)); try reflexivity; exact HC|]. split.
  - intros A. apply (RS_same_out (lview c)); try reflexivity. exact (HR A).
  - intros X. destruct (HS X) as [A R]. split; [exact A|]. apply (RQ_same_in (lview c)); try reflexivity. exact R.
Qed.
Lemma SEnd_of_SL (a : Prop) c m : SL a c m -> SEnd a c.
Proof. intros ((HM & HC & HR) & HS). exists m. split; [exact HM|]. split; [exact HC|]. split; [intros _; exact HR|exact HS]. Qed.

Lemma rs_res_exit_spec (a : Prop) rc c m :
  MS (levs c ++ H) m -> Core None None (lview c) m -> (okrc rc -> RS (lview c) m) -> (a -> alive (c_in_status c) /\ RQ (lview c) m) ->
  SEnd a (fst (rs_res_exit cb g rc c)).
Proof.
  intros HM HC HR HS. unfold rs_res_exit.
  assert (Dead : forall s, ~ alive s -> SEnd a (rs_set_out_status s c)).
  { intros s D. apply (SEnd_status a c m s HM HC); [intros X; contradiction|exact HS]. }
  assert (Buf : forall (withbuf : bool), okrc rc ->
            SEnd a (fst (let c := snd (res_receiver_send_data cb false c) in
                         let '(brc, c) := (if withbuf then rs_res_buffer g c else (ST_OK, c)) in
                         match brc with
                         | ST_OK => (rs_set_out_status c_HTP_STREAM_DATA c, c_HTP_STREAM_DATA)
                         | _ => (rs_set_out_status c_HTP_STREAM_ERROR c, c_HTP_STREAM_ERROR)
                         end))).
  { intros withbuf Ok. destruct (res_receiver_send_data cb false c) as [rc1 c1] eqn:E1. cbn [snd].
    destruct (res_send cb H false c rc1 c1 m E1 (conj HM (conj HC (HR Ok)))) as ((A1 & B1 & R1) & V1 & _).
    assert (S2 : exists brc c2, (if withbuf then rs_res_buffer g c1 else (ST_OK, c1)) = (brc, c2) /\ sameV c1 c2).
    { destruct withbuf; [|exists ST_OK, c1; split; [reflexivity|apply sameV_refl]].
      pose proof (sameV_res_buffer c1) as S. destruct (rs_res_buffer g c1) as [brc c2]. exists brc, c2. split; [reflexivity|exact S]. }
    destruct S2 as (brc & c2 & -> & S2).
    assert (HS2 : a -> alive (c_in_status c2) /\ RQ (lview c2) m).
    { intros X. change (alive (lv_is (lview c2)) /\ RQ (lview c2) m). rewrite (proj1 S2), V1. exact (HS X). }
    assert (HM2 : MS (levs c2 ++ H) m) by (rewrite (proj2 S2); exact A1).
    assert (HC2 : Core None None (lview c2) m) by (rewrite (proj1 S2); exact B1).
    assert (HR2 : RS (lview c2) m) by (rewrite (proj1 S2); exact R1).
    destruct brc; cbn [fst]; apply (SEnd_status a c2 m _ HM2 HC2); try exact HS2; intros _; exact HR2. }
  destruct rc; cbn [fst].
  - apply Dead. intros X; discriminate X.
  - apply Dead. intros X; discriminate X.
  - apply Dead. intros X; discriminate X.
  - exact (Buf false ltac:(unfold okrc; tauto)).
  - destruct (_ <=? _); cbn [fst]; apply (SEnd_status a c m _ HM HC); try exact HS; intros _; apply HR; unfold okrc; tauto.
  - apply Dead. intros X; discriminate X.
  - exact (Buf true ltac:(unfold okrc; tauto)).
Qed.

(* the guards of Spec/SLife.lc_res_pre, as facts about the view *)
Lemma pre_line c m : SJ H c m -> c_out_state c = RES_LINE -> lc_res_pre c = true -> cep_clean c.
Proof.
  intros Q Hst Hp j p ps ce Hj Hs. unfold lc_res_pre in Hp. rewrite Hst in Hp.
  destruct (vslot_tx c j _ Hs) as (t0 & Ht0 & Hv0). unfold rs_tx in Hp. rewrite Hj, (tx_get_live c j t0 Ht0) in Hp.
  unfold txv in Hv0. assert (t_res_cep t0 = ce) by congruence. subst ce. intros X. rewrite X in Hp. discriminate Hp.
Qed.
Lemma pre_idle c : c_out_state c = RES_IDLE -> lc_res_pre c = true -> idle_ok c.
Proof.
  intros Hst Hp Hb. unfold lc_res_pre in Hp. rewrite Hst, Hb in Hp.
  destruct (nth_error (c_txs c) (c_out_next_tx_index c)) as [[t|]|]; try discriminate Hp. exists t. reflexivity.
Qed.

(* the for (;;) loop under the guards *)
Lemma rs_res_loop_spec (a : Prop) fuel gap : forall c m,
  SL a c m -> lc_res_loop cb g fuel gap c = true -> SEnd a (fst (rs_res_loop cb g fuel gap c)).
Proof.
  induction fuel as [|f IH]; intros c m (Q & HS) Hg; cbn [rs_res_loop lc_res_loop] in *.
  - destruct Q as (HM & HC & HR). apply (SEnd_status a (rs_fault c) m); try assumption. intros X; discriminate X.
  - cbv zeta in Hg. cbv zeta.
    set (s := c_out_state c) in *.
    set (gap_ok := (res_state_eqb s RES_BODY_IDENTITY_CL_KNOWN || res_state_eqb s RES_BODY_IDENTITY_STREAM_CLOSE)%bool) in *.
    destruct (gap && negb gap_ok && negb (res_state_eqb s RES_FINALIZE))%bool eqn:Eg; [cbn [fst]; exact (SEnd_of_SL a c m (conj Q HS))|].
    apply andb_prop in Hg. destruct Hg as [Hpre Hg].
    assert (Step : exists rc c1, (if (gap && negb gap_ok)%bool then rs_response_complete cb g c else rs_state_fn cb g s c) = (rc, c1) /\ SPostF H c m rc c1).
    { destruct (if (gap && negb gap_ok)%bool then rs_response_complete cb g c else rs_state_fn cb g s c) as [rc c1] eqn:E1. exists rc, c1. split; [reflexivity|].
      destruct (gap && negb gap_ok)%bool eqn:Ed.
      - assert (Hst : c_out_state c = RES_FINALIZE).
        { cbn [andb] in Eg. fold s. destruct s; try discriminate Eg; reflexivity. }
        exact (rs_complete_spec c rc c1 m E1 Q Hst).
      - cbn [orb] in Hpre. apply (rs_state_fn_spec s c rc c1 m E1 Q eq_refl).
        + intros X. apply (pre_line c m Q); [fold s; exact X|exact Hpre].
        + intros X. apply pre_idle; [fold s; exact X|exact Hpre]. }
    destruct Step as (rc & c1 & E1 & P1). rewrite E1 in Hg |- *.
    apply andb_prop in Hg. destruct Hg as [Hfl Hg]. apply negb_true_iff in Hfl.
    destruct P1 as [F1|(m1 & A1 & B1 & F1 & G1 & R1)]; [congruence|].
    assert (HS1 : a -> alive (c_in_status c1) /\ RQ (lview c1) m1) by (intros X; destruct (HS X) as [Y Z]; split; [exact (G1 Y)|exact (F1 Z)]).
    destruct rc; try exact (rs_res_exit_spec a _ c1 m1 A1 B1 R1 HS1).
    pose proof (R1 ltac:(unfold okrc; tauto)) as RS1.
    destruct (Z.eqb (c_out_status c1) c_HTP_STREAM_TUNNEL); [cbn [fst]; exact (SEnd_of_SL a c1 m1 (conj (conj A1 (conj B1 RS1)) HS1))|].
    destruct (rs_handle_state_change cb c1) as [rc2 c2] eqn:E2.
    destruct (rs_handle_state_change_spec c1 rc2 c2 m1 E2 (conj A1 (conj B1 RS1))) as (Q2 & R2 & (ho & V2)).
    assert (HS2 : a -> alive (c_in_status c2) /\ RQ (lview c2) m1).
    { intros X. destruct (HS1 X) as [Y Z]. split; [change (alive (lv_is (lview c2))); rewrite V2; exact Y|]. rewrite V2. apply (RQ_same_in (lview c1)); try reflexivity. exact Z. }
    destruct Q2 as (A2 & B2 & RS2).
    destruct R2 as [-> | [-> | ->]].
    + exact (IH c2 m1 (conj (conj A2 (conj B2 RS2)) HS2) Hg).
    + apply (rs_res_exit_spec a ST_STOP c2 m1 A2 B2); [intros _; exact RS2|exact HS2].
    + apply (rs_res_exit_spec a ST_ERROR c2 m1 A2 B2); [intros _; exact RS2|exact HS2].
Qed.

(* ---- htp_connp_res_data ---- *)
Lemma connp_res_data_spec data len c :
  OI H c -> lc_res_ok cb g data len c = true -> OI H (fst (connp_res_data cb g data len c)).
Proof.
  intros (m & HM & HC & HR & HS) Hok. unfold lc_res_ok in Hok. apply andb_prop in Hok. destruct Hok as [Hrev Hloop].
  assert (Fin : forall c', SEnd (alive (c_in_status c)) c' -> c' = fst (connp_res_data cb g data len c) -> OI H c').
  { intros c' (m' & A & B & R & S) Ec. exists m'. split; [exact A|]. split; [exact B|]. split; [|exact R].
    intros Al. destruct (alive_dec (c_in_status c)) as [Y|Y]; [exact (proj2 (S Y))|].
    rewrite Y in Hrev. cbn [negb orb] in Hrev. rewrite <- Ec in Hrev. unfold alive in Al. congruence. }
  unfold connp_res_data, lc_res_data in *.
  destruct (Z.eqb (c_out_status c) c_HTP_STREAM_STOP) eqn:E1; [exists m; auto|].
  destruct (Z.eqb (c_out_status c) c_HTP_STREAM_ERROR) eqn:E2; [exists m; auto|].
  assert (Al : alive (c_out_status c)) by (unfold alive, lc_dead; rewrite E1, E2; reflexivity). specialize (HS Al).
  match goal with |- context [if ?b then (rs_set_out_status c_HTP_STREAM_ERROR c, _) else _] => destruct b end.
  { cbn [fst]. exists m. split; [exact HM|]. split; [apply (Core_ext None None (lview c)); try reflexivity; exact HC|]. split.
    - intros X. apply (RQ_same_in (lview c)); try reflexivity. exact (HR X).
    - intros X. discriminate X. }
  match goal with |- context [if ?b then (c, c_HTP_STREAM_CLOSED) else _] => destruct b end; [exists m; auto|].
  cbv zeta in Hloop |- *.
  match goal with |- context [rs_set_out ?f c] => pose proof (sameV_set_out f c ltac:(intros; reflexivity)) as S1; set (c1 := rs_set_out f c) in * end.
  match goal with |- context [Z.eqb (c_out_status ?cc) c_HTP_STREAM_TUNNEL] => assert (S2 : sameV c cc) by (apply (sameV_trans _ _ _ S1); split; reflexivity); set (c2 := cc) in * end.
  destruct (Z.eqb (c_out_status c2) c_HTP_STREAM_TUNNEL).
  { cbn [fst]. exists m. rewrite (proj1 S2), (proj2 S2). change (c_in_status c2) with (lv_is (lview c2)). change (c_out_status c2) with (lv_os (lview c2)).
    rewrite (proj1 S2). auto. }
  match goal with |- OI H (fst (rs_res_loop cb g ?fu ?gp c2)) => apply (Fin (fst (rs_res_loop cb g fu gp c2))); [|reflexivity];
    apply (rs_res_loop_spec (alive (c_in_status c)) fu gp c2 m); [|exact Hloop] end.
  split; [split; [rewrite (proj2 S2); exact HM|split; rewrite (proj1 S2); assumption]|].
  intros X. split; [change (alive (lv_is (lview c2))); rewrite (proj1 S2); exact X|]. rewrite (proj1 S2). exact (HR X).
Qed.
End Res.
