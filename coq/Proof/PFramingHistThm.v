(* C11 at history level, request direction (part 3): the theorems in the form of C11's oracles (fr_check / fr_check_host /
   fr_check_table and the property text's fr_check_text / fr_check_host_text) on the transaction the caller sees --
   after the header part of a grammar request delivered in any chunking and folding (PFramingHist.fh_run_all), and at
   REQUEST_COMPLETE of a whole request with an identity or a chunked body (through the segmentation theorems of C03, whose
   premises sg_body_ok / sg_chunked_ok are "the model's decision is IDENTITY / CHUNKED" and therefore include the ambiguous
   framings: several Content-Length fields, Content-Length next to a chunked Transfer-Encoding, chunked below HTTP/1.1). *)
Require Import Htp.Model.Base Htp.Model.MBstr Htp.Model.MUri Htp.Model.MPath Htp.Model.MUrlenc Htp.Model.MConnTypes Htp.Model.MTxCommon Htp.Model.MReqLine Htp.Model.MReqUri Htp.Model.MTxReq.
Require Import Htp.Model.MReq Htp.Model.MRes Htp.Model.MConnp.
Require Import Htp.Spec.SWire Htp.Spec.SBody Htp.Spec.SFraming Htp.Proof.PWire Htp.Proof.PWireHdr Htp.Proof.PWireBlock Htp.Proof.PWireConn Htp.Proof.PWireExch.
Require Import Htp.Proof.PWireRun Htp.Proof.PWirePres Htp.Proof.PWireGlue Htp.Proof.PSeg Htp.Proof.PSegLine Htp.Proof.PSegHdr Htp.Proof.PSegGen Htp.Proof.PSegRun.
Require Import Htp.Proof.PSegFold Htp.Proof.PSegPipe Htp.Proof.PBody Htp.Proof.PBodyReq Htp.Proof.PSegBody Htp.Proof.PSegChunked Htp.Proof.PSegChunkedGen Htp.Proof.PSegChunkedRun.
Require Import Htp.Proof.PFraming Htp.Proof.PFramingHist Htp.Proof.PFramingHistLine.

(* ================================================================ (1) from the flag word to the oracles *)
(* every indicator bit of the property, read off a flag word *)
Record fh_ind := mk_fh_ind { fi_smuggling : bool; fi_invalid_te : bool; fi_invalid_cl : bool; fi_req_invalid : bool;
                             fi_host_missing : bool; fi_host_ambiguous : bool; fi_hosth_invalid : bool }.
Definition fh_ind_of (f : N) : fh_ind :=
  mk_fh_ind (fr_has f c_HTP_REQUEST_SMUGGLING) (fr_has f c_HTP_REQUEST_INVALID_T_E) (fr_has f c_HTP_REQUEST_INVALID_C_L) (fr_has f c_HTP_REQUEST_INVALID)
            (fr_has f c_HTP_HOST_MISSING) (fr_has f c_HTP_HOST_AMBIGUOUS) (fr_has f c_HTP_HOSTH_INVALID).
Definition fh_ind_tables (v : fr_verdict_t) (hv : fr_host_verdict_t) : fh_ind :=
  mk_fh_ind (frv_smuggling v) (frv_invalid_te v) (frv_invalid_cl v) (frv_req_invalid v) (frh_missing hv) (frh_ambiguous hv) (frh_hosth_invalid hv).

Lemma fh_flags_ind f0 mph v hv : fr_clean f0 -> mph = 0%N \/ mph = c_HTP_MULTI_PACKET_HEAD ->
  fh_ind_of (N.lor (N.lor (N.lor f0 mph) (fr_verdict_bits v)) (fr_host_bits hv)) = fh_ind_tables v hv.
Proof.
  intros (A & B & C & D & E & F & G) Hm.
  destruct (fr_verdict_bits_has v) as (VA & VB & VC & VD & VE & VF & VG & _). destruct (fr_host_bits_has hv) as (HA & HB & HC & HD & HE & HF & HG).
  unfold fh_ind_of, fh_ind_tables. rewrite !fr_has_lor, A, B, C, D, E, F, G, VA, VB, VC, VD, VE, VF, VG, HA, HB, HC, HD, HE, HF, HG.
  destruct Hm as [-> | ->]; cbn [orb]; rewrite ?orb_false_r; reflexivity.
Qed.
Lemma fh_ind_check proto hs f coding hv :
  fh_ind_of f = fh_ind_tables (fr_verdict proto hs) hv -> coding = fr_coding_num (frv_coding (fr_verdict proto hs)) ->
  fr_check proto hs f coding = true.
Proof.
  unfold fh_ind_of, fh_ind_tables. intros E Ec. inversion E as [[E1 E2 E3 E4 E5 E6 E7]]. unfold fr_check. cbv zeta.
  rewrite E1, E2, E3, E4, Ec, Z.eqb_refl, !Bool.eqb_reflx. reflexivity.
Qed.
Lemma fh_ind_check_host proto uhost uport hs f v :
  fh_ind_of f = fh_ind_tables v (fr_host_verdict proto uhost uport (fr_host_value hs)) ->
  (forall uh, uhost = Some uh -> fr_valid_hostnameb uh = false -> fr_has f c_HTP_HOSTU_INVALID = true) ->
  fr_check_host proto uhost uport hs f = true.
Proof.
  unfold fh_ind_of, fh_ind_tables. intros E Hu. inversion E as [[E1 E2 E3 E4 E5 E6 E7]]. unfold fr_check_host. cbv zeta.
  rewrite E5, E6, E7, !Bool.eqb_reflx. cbn [andb]. destruct uhost as [uh|]; [|reflexivity].
  destruct (fr_valid_hostnameb uh) eqn:Ev; [reflexivity|]. apply (Hu uh eq_refl Ev).
Qed.

(* ================================================================ (2) frames of the end of the header block *)
Lemma fh_hdr_end_puri t : t_parsed_uri (sg_hdr_end t) = t_parsed_uri t.
Proof.
  unfold sg_hdr_end. cbv zeta. rewrite <- (sg_parsed_uri_te_cl t). set (t1 := rq_te_cl t).
  assert (Hc : forall x, t_parsed_uri (rq_content_type x) = t_parsed_uri x) by (intro x; unfold rq_content_type; destruct (rq_hdr_get_c _ _); reflexivity).
  rewrite Hc. destruct (t_parsed_uri t1) as [nu|] eqn:Ep; [|exact Ep].
  rewrite <- Ep. unfold rq_host, tx_set_flag. wr_split_ifs; reflexivity.
Qed.
Lemma fh_hdr_end_headers t : t_request_headers (sg_hdr_end t) = t_request_headers t.
Proof. destruct (sg_hdr_end_facts t) as [K _]. unfold wr_keep in K. decompose [and] K. assumption. Qed.

(* what the oracles need of a transaction: it agrees with the end of the header block on flags (up to the multi-packet-head
   indicator), coding and parsed_uri *)
Definition fh_agrees (t te : tx) : Prop :=
  N.ldiff (t_flags t) c_HTP_MULTI_PACKET_HEAD = N.ldiff (t_flags te) c_HTP_MULTI_PACKET_HEAD /\
  t_request_transfer_coding t = t_request_transfer_coding te /\ t_parsed_uri t = t_parsed_uri te.
Lemma fh_ldiff_has f m b : N.land m b = 0%N -> fr_has (N.ldiff f m) b = fr_has f b.
Proof.
  intros H. unfold fr_has. f_equal. f_equal. apply N.bits_inj. intros n. rewrite !N.land_spec, N.ldiff_spec.
  assert (Hn : N.testbit m n && N.testbit b n = false) by (rewrite <- N.land_spec, H; apply N.bits_0).
  destruct (N.testbit f n), (N.testbit m n), (N.testbit b n); try reflexivity; discriminate Hn.
Qed.
Lemma fh_agrees_ind t te : fh_agrees t te -> fh_ind_of (t_flags t) = fh_ind_of (t_flags te) /\
  fr_has (t_flags t) c_HTP_HOSTU_INVALID = fr_has (t_flags te) c_HTP_HOSTU_INVALID.
Proof.
  intros (E & _ & _). unfold fh_ind_of.
  assert (G : forall b, N.land c_HTP_MULTI_PACKET_HEAD b = 0%N -> fr_has (t_flags t) b = fr_has (t_flags te) b).
  { intros b Hb. rewrite <- (fh_ldiff_has (t_flags t) _ b Hb), E. apply fh_ldiff_has. exact Hb. }
  rewrite !G by reflexivity. split; reflexivity.
Qed.

(* ================================================================ (3) the oracles accept every transaction that agrees *)
Section Oracles.
Variable g : cfg.
Hypothesis Hspace : g_allow_space_uri g = false.
Variable r : wr_request.
Hypothesis Wr : fh_req_ok r = true.
Let te := sg_hdr_end (wr_block_tx (wq_fields r) (fh_t0 g r)).

Lemma fh_te_facts : exists nu, t_parsed_uri te = Some nu /\
  fh_ind_of (t_flags te) = fh_ind_tables (fh_verdict r) (fr_host_verdict (fh_proto r) (u_host nu) (u_port_number nu) (fr_host_value (fh_fields_of r))) /\
  t_request_transfer_coding te = fr_coding_num (frv_coding (fh_verdict r)) /\
  (forall uh, u_host nu = Some uh -> fr_valid_hostnameb uh = false -> fr_has (t_flags te) c_HTP_HOSTU_INVALID = true).
Proof.
  destruct (fh_tend_flags g r false Hspace Wr) as [Ff Fc]. cbv zeta in Ff, Fc.
  change (fh_tend g (wq_method r) (wq_uri r) (wq_protocol r) (wq_fields r) false) with te in Ff, Fc.
  pose proof Wr as Wr'. unfold fh_req_ok in Wr'. apply andb_prop in Wr'. destruct Wr' as [Wl Ok].
  destruct (fh_th0_facts g Hspace 0 _ _ _ Wl) as (_ & _ & _ & _ & _ & _ & _ & _ & _ & (nu & Pu & Hu)).
  pose proof (fh_th0_clean g 0 _ _ _ Hspace Wl) as Cl.
  pose proof (wr_keep_h_block (wq_fields r) (fh_t0 g r)) as K. unfold wr_keep_h in K. destruct K as (_ & _ & _ & _ & _ & _ & _ & _ & _ & K10).
  exists nu. split; [unfold te; rewrite fh_hdr_end_puri, K10; exact Pu|].
  assert (Ehv : fh_host_verdict g r = fr_host_verdict (fh_proto r) (u_host nu) (u_port_number nu) (fr_host_value (fh_fields_of r))).
  { unfold fh_host_verdict, fh_t0. rewrite Pu. reflexivity. }
  rewrite <- Ehv. split; [rewrite Ff; apply fh_flags_ind; [exact Cl|left; reflexivity]|]. split; [exact Fc|].
  intros uh E1 E2. rewrite Ff, !fr_has_lor. change fr_has with flag_has. unfold fh_t0. rewrite (Hu uh E1 E2). reflexivity.
Qed.

(* the oracles of C11 on a transaction that agrees with the end of the header block *)
Lemma fh_oracles t : fh_agrees t te ->
  exists nu, t_parsed_uri t = Some nu /\
    fh_ind_of (t_flags t) = fh_ind_tables (fh_verdict r) (fr_host_verdict (fh_proto r) (u_host nu) (u_port_number nu) (fr_host_value (fh_fields_of r))) /\
    t_request_transfer_coding t = fr_coding_num (frv_coding (fh_verdict r)) /\
    fr_check (fh_proto r) (fh_fields_of r) (t_flags t) (t_request_transfer_coding t) = true /\
    fr_check_host (fh_proto r) (u_host nu) (u_port_number nu) (fh_fields_of r) (t_flags t) = true.
Proof.
  intros Ha. destruct (fh_agrees_ind t te Ha) as [Ei Eu]. destruct Ha as (_ & Ec & Ep).
  destruct fh_te_facts as (nu & Pu & Fi & Fc & Hu).
  exists nu. split; [rewrite Ep; exact Pu|]. split; [rewrite Ei; exact Fi|]. split; [rewrite Ec; exact Fc|]. split.
  - apply (fh_ind_check _ _ _ _ (fr_host_verdict (fh_proto r) (u_host nu) (u_port_number nu) (fr_host_value (fh_fields_of r)))); [rewrite Ei; exact Fi|rewrite Ec; exact Fc].
  - apply (fh_ind_check_host _ _ _ _ _ (fh_verdict r)); [rewrite Ei; exact Fi|]. intros uh E1 E2. rewrite Eu. apply (Hu uh E1 E2).
Qed.
End Oracles.

(* ================================================================ (4) H1 + H2: the header part in any chunking and folding *)
Lemma fh_tend_agrees g m u pr fs fl : fh_agrees (fh_tend g m u pr fs fl) (sg_hdr_end (wr_block_tx fs (sg_th0 g 0 m u pr))) /\
  t_request_headers (fh_tend g m u pr fs fl) = t_request_headers (wr_block_tx fs (sg_th0 g 0 m u pr)).
Proof.
  unfold fh_tend. destruct fl.
  - rewrite sg_hdr_end_flag. split; [|apply fh_hdr_end_headers]. split; [|split; reflexivity].
    unfold tx_set_flag, flag_set. cbn [t_flags set]. cbn. apply sg_ldiff_lor.
  - split; [repeat split|apply fh_hdr_end_headers].
Qed.

(* was the Content-Length field written on several lines? (the property text's "folded Content-Length") *)
Definition fh_cl_folded (r : wr_request) (cuts : list (list bytes)) : bool :=
  existsb (fun fp => fr_eq_nocase (wf_name (fst fp)) fr_CL && (2 <=? length (snd fp))%nat) (combine (wq_fields r) cuts).

Theorem fh_request_indicators : forall cb g r (cuts : list (list bytes)) (chunks : list bytes),
  wr_all_ok cb -> g_allow_space_uri g = false -> fh_req_ok r = true -> sg_cuts_ok r cuts = true -> sg_fold_fits g r cuts = true ->
  Forall (fun x => x <> []) chunks -> concat chunks = sg_fold_wire r cuts ->
  exists t nu, c_txs (fst (cp_run cb g connp_new (OpOpen :: map OpReqData chunks))) = [Some t] /\ t_parsed_uri t = Some nu /\
    fh_ind_of (t_flags t) = fh_ind_tables (fh_verdict r) (fr_host_verdict (fh_proto r) (u_host nu) (u_port_number nu) (fr_host_value (fh_fields_of r))) /\
    t_request_transfer_coding t = fr_coding_num (frv_coding (fh_verdict r)) /\
    fr_check (fh_proto r) (fh_fields_of r) (t_flags t) (t_request_transfer_coding t) = true /\
    fr_check_host (fh_proto r) (u_host nu) (u_port_number nu) (fh_fields_of r) (t_flags t) = true /\
    fr_check_table (fh_fields_of r) (map fr_hdr3 (t_request_headers t)) = true.
Proof.
  intros cb g r cuts chunks Hcb Hsp Wr Hcuts Hf Hall Hc.
  destruct (fh_run_all cb g Hcb Hsp r cuts chunks Wr Hcuts Hf Hall Hc) as (fl & t & Et & En).
  destruct (fh_tend_agrees g (wq_method r) (wq_uri r) (wq_protocol r) (wq_fields r) fl) as [(A1 & A2 & A3) Ah].
  set (T := fh_tend g (wq_method r) (wq_uri r) (wq_protocol r) (wq_fields r) fl) in *.
  assert (E1 : t_flags t = t_flags T) by (change (t_flags (fh_norm t) = t_flags (fh_norm T)); rewrite En; reflexivity).
  assert (E2 : t_request_transfer_coding t = t_request_transfer_coding T) by (change (t_request_transfer_coding (fh_norm t) = t_request_transfer_coding (fh_norm T)); rewrite En; reflexivity).
  assert (E3 : t_parsed_uri t = t_parsed_uri T) by (change (t_parsed_uri (fh_norm t) = t_parsed_uri (fh_norm T)); rewrite En; reflexivity).
  assert (E4 : t_request_headers t = t_request_headers T) by (change (t_request_headers (fh_norm t) = t_request_headers (fh_norm T)); rewrite En; reflexivity).
  assert (Ha : fh_agrees t (sg_hdr_end (wr_block_tx (wq_fields r) (fh_t0 g r)))) by (split; [rewrite E1; exact A1|split; [rewrite E2; exact A2|rewrite E3; exact A3]]).
  destruct (fh_oracles g Hsp r Wr t Ha) as (nu & Pu & Fi & Fc & C1 & C2).
  exists t, nu. split; [exact Et|]. split; [exact Pu|]. split; [exact Fi|]. split; [exact Fc|]. split; [exact C1|]. split; [exact C2|].
  rewrite E4, Ah. pose proof Wr as Wr'. unfold fh_req_ok in Wr'. apply andb_prop in Wr'. destruct Wr' as [Wl Ok].
  destruct (fh_th0_facts g Hsp 0 _ _ _ Wl) as (H1 & H2 & _).
  unfold fh_fields_of, fh_hs. rewrite <- (fh_fields _ Ok). rewrite fh_block_is_process. apply fr_check_table_holds; assumption.
Qed.

(* the property text's reading, inside its two premises (C11: fr_text_premise -- within the cap, no folded Content-Length, not
   [several Content-Length fields next to a Transfer-Encoding without the chunked token]; fr_host_text_premise -- the target's
   host is not a bracketed host whose last byte is not ']'): every trigger is flagged on the transaction the caller sees *)
Theorem fh_request_text : forall cb g r (cuts : list (list bytes)) (chunks : list bytes),
  wr_all_ok cb -> g_allow_space_uri g = false -> fh_req_ok r = true -> sg_cuts_ok r cuts = true -> sg_fold_fits g r cuts = true ->
  Forall (fun x => x <> []) chunks -> concat chunks = sg_fold_wire r cuts ->
  exists t nu, c_txs (fst (cp_run cb g connp_new (OpOpen :: map OpReqData chunks))) = [Some t] /\ t_parsed_uri t = Some nu /\
    (fr_text_premise (fh_fields_of r) (fh_cl_folded r cuts) = true ->
     fr_check_text (fh_proto r) (fh_fields_of r) (fh_cl_folded r cuts) (t_flags t) (t_request_transfer_coding t) = true) /\
    (fr_host_text_premise (u_host nu) = true -> fr_check_host_text (u_host nu) (t_flags t) = true).
Proof.
  intros cb g r cuts chunks Hcb Hsp Wr Hcuts Hf Hall Hc.
  destruct (fh_request_indicators cb g r cuts chunks Hcb Hsp Wr Hcuts Hf Hall Hc) as (t & nu & Et & Pu & _ & _ & C1 & C2 & _).
  exists t, nu. split; [exact Et|]. split; [exact Pu|]. split.
  - intros P. apply fr_text_partial; assumption.
  - intros P. apply (fr_host_text_partial _ _ _ _ _ P C2).
Qed.

(* ================================================================ (5) whole requests: the indicators at REQUEST_COMPLETE *)
Lemma fh_mask_agrees t T te : sg_mask t = sg_mask T -> t_flags T = t_flags te -> t_request_transfer_coding T = t_request_transfer_coding te ->
  t_parsed_uri T = t_parsed_uri te -> fh_agrees t te.
Proof.
  intros M F C P. split; [|split].
  - change (t_flags (sg_mask t) = N.ldiff (t_flags te) c_HTP_MULTI_PACKET_HEAD). rewrite M, <- F. reflexivity.
  - change (t_request_transfer_coding (sg_mask t) = t_request_transfer_coding te). rewrite M, <- C. reflexivity.
  - change (t_parsed_uri (sg_mask t) = t_parsed_uri te). rewrite M, <- P. reflexivity.
Qed.

(* a request with an identity body (Content-Length fields: one or several, equal or different -- the first one counts) *)
Theorem fh_request_body_indicators : forall cb g r (cuts : list (list bytes)) (body : bytes) (chunks : list bytes),
  wr_all_ok cb -> g_allow_space_uri g = false -> sg_body_ok g r body = true -> sg_cuts_ok r cuts = true -> sg_fold_fits g r cuts = true ->
  Forall (fun x => x <> []) chunks -> concat chunks = sg_fold_wire r cuts ++ body ->
  exists t nu, c_txs (fst (cp_run cb g connp_new (OpOpen :: map OpReqData chunks))) = [Some t] /\ t_parsed_uri t = Some nu /\
    t_request_progress t = c_HTP_REQUEST_COMPLETE /\
    fh_ind_of (t_flags t) = fh_ind_tables (fh_verdict r) (fr_host_verdict (fh_proto r) (u_host nu) (u_port_number nu) (fr_host_value (fh_fields_of r))) /\
    t_request_transfer_coding t = c_HTP_CODING_IDENTITY /\
    fr_check (fh_proto r) (fh_fields_of r) (t_flags t) (t_request_transfer_coding t) = true /\
    fr_check_host (fh_proto r) (u_host nu) (u_port_number nu) (fh_fields_of r) (t_flags t) = true.
Proof.
  intros cb g r cuts body chunks Hcb Hsp Wb Hcuts Hf Hall Hc.
  destruct (sg_request_body_chunking cb g r cuts body chunks Hcb Hsp Wb Hcuts Hf Hall Hc) as (t & Et & M).
  unfold sg_body_ok in Wb. cbv zeta in Wb. apply andb_prop in Wb. destruct Wb as [Wb _]. apply andb_prop in Wb. destruct Wb as [Wb Hco]. apply andb_prop in Wb. destruct Wb as [Wb _].
  apply andb_prop in Wb. destruct Wb as [Wl Wbk]. apply Z.eqb_eq in Hco.
  assert (Wr : fh_req_ok r = true) by (unfold fh_req_ok; rewrite Wl; exact (sg_okf _ Wbk)).
  set (te := sg_hdr_end (wr_block_tx (wq_fields r) (fh_t0 g r))).
  assert (Ha : fh_agrees t te) by (apply (fh_mask_agrees t _ te M); unfold sg_tbody, sg_after_hdr; destruct (length body); reflexivity).
  destruct (fh_oracles g Hsp r Wr t Ha) as (nu & Pu & Fi & Fc & C1 & C2).
  exists t, nu. split; [exact Et|]. split; [exact Pu|].
  split; [change (t_request_progress (sg_mask t) = c_HTP_REQUEST_COMPLETE); rewrite M; unfold sg_tbody, sg_after_hdr; destruct (length body); reflexivity|].
  split; [exact Fi|]. split; [destruct Ha as (_ & Ec & _); rewrite Ec; exact Hco|]. split; [exact C1|exact C2].
Qed.

Lemma fh_process_coding line t : t_request_transfer_coding (htp_process_request_header_generic line t) = t_request_transfer_coding t.
Proof.
  unfold htp_process_request_header_generic. destruct (htp_parse_request_header_generic line) as [h fl].
  cbn [t_request_headers t_req_header_repetitions set].
  repeat match goal with |- context [match ?x with _ => _ end] => destruct x end; reflexivity.
Qed.
Lemma fh_block_coding : forall fs t, t_request_transfer_coding (wr_block_tx fs t) = t_request_transfer_coding t.
Proof.
  induction fs as [|f fs IH]; intros t; [reflexivity|]. unfold wr_block_tx. cbn [map fold_left].
  fold (wr_block_tx fs (htp_process_request_header_generic (wr_field_line f) t)). rewrite IH. apply fh_process_coding.
Qed.

(* a request with a chunked body and trailer fields (Transfer-Encoding with the chunked token: alone, next to Content-Length
   fields, below HTTP/1.1) *)
Theorem fh_request_chunked_indicators : forall cb g r (cuts : list (list bytes)) (ks : list bd_chunk) (last : bytes) (tr : list wr_field)
    (tcuts : list (list bytes)) (chunks : list bytes),
  wr_all_ok cb -> g_allow_space_uri g = false -> sg_chunked_ok g r = true -> sg_cuts_ok r cuts = true -> sg_fold_fits g r cuts = true ->
  sg_cfbody_ok g ks last tr tcuts = true ->
  Forall (fun x => x <> []) chunks -> concat chunks = sg_fold_wire r cuts ++ sg_cfbody_wire ks last tr tcuts ->
  exists t nu, c_txs (fst (cp_run cb g connp_new (OpOpen :: map OpReqData chunks))) = [Some t] /\ t_parsed_uri t = Some nu /\
    t_request_progress t = c_HTP_REQUEST_COMPLETE /\
    fh_ind_of (t_flags t) = fh_ind_tables (fh_verdict r) (fr_host_verdict (fh_proto r) (u_host nu) (u_port_number nu) (fr_host_value (fh_fields_of r))) /\
    t_request_transfer_coding t = c_HTP_CODING_CHUNKED /\
    fr_check (fh_proto r) (fh_fields_of r) (t_flags t) (t_request_transfer_coding t) = true /\
    fr_check_host (fh_proto r) (u_host nu) (u_port_number nu) (fh_fields_of r) (t_flags t) = true.
Proof.
  intros cb g r cuts ks last tr tcuts chunks Hcb Hsp Wc Hcuts Hf Hbody Hall Hc.
  destruct (sg_request_chunked_fold_trailer_chunking cb g r cuts ks last tr tcuts chunks Hcb Hsp Wc Hcuts Hf Hbody Hall Hc) as (t & Et & M).
  unfold sg_chunked_ok in Wc. cbv zeta in Wc. apply andb_prop in Wc. destruct Wc as [Wc Hco]. apply andb_prop in Wc. destruct Wc as [Wc _].
  apply andb_prop in Wc. destruct Wc as [Wl Wbk]. apply Z.eqb_eq in Hco.
  assert (Wr : fh_req_ok r = true) by (unfold fh_req_ok; rewrite Wl; exact (sg_okf _ Wbk)).
  assert (Otr : forallb wr_field_ok tr = true).
  { unfold sg_cfbody_ok in Hbody. apply andb_prop in Hbody. destruct Hbody as [Hbody _]. apply andb_prop in Hbody. destruct Hbody as [Hbody _].
    apply andb_prop in Hbody. destruct Hbody as [Hbody _]. apply andb_prop in Hbody. destruct Hbody as [_ O]. exact O. }
  set (te := sg_hdr_end (wr_block_tx (wq_fields r) (fh_t0 g r))).
  assert (Ha : fh_agrees t te).
  { apply (fh_mask_agrees t _ te M); unfold sg_tchunked, sg_tcomplete.
    - cbn [t_flags set]. rewrite (fh_block_flags tr _ Otr). reflexivity.
    - cbn [t_request_transfer_coding set]. rewrite fh_block_coding. reflexivity.
    - cbn [t_parsed_uri set]. pose proof (wr_keep_h_block tr (sg_cbody (Z.of_nat (length (bd_chunks_data ks))) (Z.of_nat (length (bd_chunks_wire ks) + length last)) c_HTP_REQUEST_TRAILER te)) as K.
      unfold wr_keep_h in K. destruct K as (_ & _ & _ & _ & _ & _ & _ & _ & _ & K10). exact K10. }
  destruct (fh_oracles g Hsp r Wr t Ha) as (nu & Pu & Fi & Fc & C1 & C2).
  exists t, nu. split; [exact Et|]. split; [exact Pu|].
  split; [change (t_request_progress (sg_mask t) = c_HTP_REQUEST_COMPLETE); rewrite M; reflexivity|].
  split; [exact Fi|]. split; [destruct Ha as (_ & Ec & _); rewrite Ec; exact Hco|]. split; [exact C1|exact C2].
Qed.

(* ================================================================ (6) evaluation (done BEFORE the proofs), kept as Examples *)
Require Coq.Strings.String.
Import Coq.Strings.String.StringSyntax.
Local Open Scope string_scope.
Definition fh_ex_fld (n v : String.string) : wr_field := mk_wr_field (bd_str n) [SP] (bd_str v) [].
Definition fh_ex_rq (m u p : String.string) (fs : list wr_field) : wr_request := mk_wr_request (bd_str m) (bd_str u) (bd_str p) fs.
Definition fh_ex_view (t : tx) : fh_ind * bool * Z := (fh_ind_of (t_flags t), fr_has (t_flags t) c_HTP_HOSTU_INVALID, t_request_transfer_coding t).
Definition fh_ex_run (chunks : list bytes) : list (option (fh_ind * bool * Z)) :=
  map (option_map fh_ex_view) (c_txs (fst (cp_run sg_ex_ok (sg_ex_cfg 18000) connp_new (OpOpen :: map OpReqData chunks)))).
(*  0 Content-Length + Transfer-Encoding: chunked      1 Content-Length twice, equal      2 Content-Length twice, different
    3 Transfer-Encoding: chunked on HTTP/1.0           4 "Transfer-Encoding: chunked, identity"   5 Transfer-Encoding: gzip
    6 Content-Length: x        7 target host b, Host: a     8 no Host on HTTP/1.1      9 no Host on HTTP/1.0
   10 target a:80, Host: a:81  11 Host: "a b"   12 target and Host a..b   13 CONNECT with Content-Length + chunked, Host differs *)
Definition fh_ex_reqs : list wr_request := [
  fh_ex_rq "POST" "/" "HTTP/1.1" [fh_ex_fld "Host" "a"; fh_ex_fld "Content-Length" "5"; fh_ex_fld "Transfer-Encoding" "chunked"];
  fh_ex_rq "POST" "/" "HTTP/1.1" [fh_ex_fld "Host" "a"; fh_ex_fld "Content-Length" "5"; fh_ex_fld "Content-Length" "5"];
  fh_ex_rq "POST" "/" "HTTP/1.1" [fh_ex_fld "Host" "a"; fh_ex_fld "Content-Length" "5"; fh_ex_fld "content-length" "6"];
  fh_ex_rq "POST" "/" "HTTP/1.0" [fh_ex_fld "Host" "a"; fh_ex_fld "Transfer-Encoding" "chunked"];
  fh_ex_rq "POST" "/" "HTTP/1.1" [fh_ex_fld "Host" "a"; fh_ex_fld "Transfer-Encoding" "chunked, identity"];
  fh_ex_rq "POST" "/" "HTTP/1.1" [fh_ex_fld "Host" "a"; fh_ex_fld "Transfer-Encoding" "gzip"];
  fh_ex_rq "POST" "/" "HTTP/1.1" [fh_ex_fld "Host" "a"; fh_ex_fld "Content-Length" "x"];
  fh_ex_rq "GET" "http://b/" "HTTP/1.1" [fh_ex_fld "Host" "a"];
  fh_ex_rq "GET" "/" "HTTP/1.1" [fh_ex_fld "X" "a"];
  fh_ex_rq "GET" "/" "HTTP/1.0" [fh_ex_fld "X" "a"];
  fh_ex_rq "GET" "http://a:80/" "HTTP/1.1" [fh_ex_fld "Host" "a:81"];
  fh_ex_rq "GET" "/" "HTTP/1.1" [fh_ex_fld "Host" "a b"];
  fh_ex_rq "GET" "http://a..b/" "HTTP/1.1" [fh_ex_fld "Host" "a..b"];
  fh_ex_rq "CONNECT" "a:443" "HTTP/1.1" [fh_ex_fld "Host" "b"; fh_ex_fld "Content-Length" "5"; fh_ex_fld "Transfer-Encoding" "chunked"]].
Definition fh_ex_i (s te cl ri hm ha hh : bool) : fh_ind := mk_fh_ind s te cl ri hm ha hh.
Definition fh_ex_expected : list (fh_ind * bool * Z) :=
  let T := true in let F := false in [
  (fh_ex_i T F F F F F F, F, c_HTP_CODING_CHUNKED); (fh_ex_i T F F F F F F, F, c_HTP_CODING_IDENTITY); (fh_ex_i T F F F F F F, F, c_HTP_CODING_IDENTITY);
  (fh_ex_i T T F F F F F, F, c_HTP_CODING_CHUNKED); (fh_ex_i F F F F F F F, F, c_HTP_CODING_CHUNKED); (fh_ex_i F T F T F F F, F, c_HTP_CODING_INVALID);
  (fh_ex_i F F T T F F F, F, c_HTP_CODING_INVALID); (fh_ex_i F F F F F T F, F, c_HTP_CODING_NO_BODY); (fh_ex_i F F F F T F F, F, c_HTP_CODING_NO_BODY);
  (fh_ex_i F F F F F F F, F, c_HTP_CODING_NO_BODY); (fh_ex_i F F F F F T F, F, c_HTP_CODING_NO_BODY); (fh_ex_i F F F F F F T, F, c_HTP_CODING_NO_BODY);
  (fh_ex_i F F F F F F T, T, c_HTP_CODING_NO_BODY); (fh_ex_i T F F F F T F, F, c_HTP_CODING_CHUNKED)].
(* the premises of the theorems hold for all fourteen (unfolded: one piece per field) ... *)
Example fh_ex_premises :
  forallb (fun r => fh_req_ok r && sg_cuts_ok r (sg_cuts_whole r) && sg_fold_fits (sg_ex_cfg 18000) r (sg_cuts_whole r)) fh_ex_reqs = true /\
  map (fun r => wr_eqb (sg_fold_wire r (sg_cuts_whole r)) (wr_request_wire r)) fh_ex_reqs = repeat true 14.
Proof. split; vm_compute; reflexivity. Qed.
(* ... the model reports, for the header part delivered whole and byte by byte, the same indicators: those of the tables *)
Example fh_ex_whole : map (fun r => fh_ex_run [wr_request_wire r]) fh_ex_reqs = map (fun v => [Some v]) fh_ex_expected.
Proof. vm_compute. reflexivity. Qed.
Example fh_ex_bytewise : map (fun r => fh_ex_run (sg_bytewise (wr_request_wire r))) fh_ex_reqs = map (fun v => [Some v]) fh_ex_expected.
Proof. vm_compute. reflexivity. Qed.
Example fh_ex_tables :
  map (fun r => (fh_ind_tables (fh_verdict r) (fh_host_verdict (sg_ex_cfg 18000) r), fr_coding_num (frv_coding (fh_verdict r)))) fh_ex_reqs =
  map (fun v => (fst (fst v), snd v)) fh_ex_expected.
Proof. vm_compute. reflexivity. Qed.
(* every single cut of the Content-Length + chunked request and of the Host-mismatch request *)
Example fh_ex_single_cuts :
  map fh_ex_run (sg_cuts1 (wr_request_wire (nth 0 fh_ex_reqs wr_ex_req))) = repeat [Some (nth 0 fh_ex_expected (fh_ex_i false false false false false false false, false, 0%Z))] 74 /\
  map fh_ex_run (sg_cuts1 (wr_request_wire (nth 7 fh_ex_reqs wr_ex_req))) = repeat [Some (nth 7 fh_ex_expected (fh_ex_i false false false false false false false, false, 0%Z))] 34.
Proof. split; vm_compute; reflexivity. Qed.
(* whole requests with their bodies: the indicators are still there at REQUEST_COMPLETE, whole and byte by byte *)
Definition fh_ex_cbody : bytes := bd_lines ["5"; "abcde"; "0"; ""].
Example fh_ex_with_body :
  let w0 := wr_request_wire (nth 0 fh_ex_reqs wr_ex_req) ++ fh_ex_cbody in
  let w2 := wr_request_wire (nth 2 fh_ex_reqs wr_ex_req) ++ bd_str "abcde" in
  let run := fun chunks => map (option_map (fun t => (fh_ex_view t, t_request_progress t, t_request_entity_len t)))
                               (c_txs (fst (cp_run sg_ex_ok (sg_ex_cfg 18000) connp_new (OpOpen :: map OpReqData chunks)))) in
  run [w0] = [Some (nth 0 fh_ex_expected (fh_ex_i false false false false false false false, false, 0%Z), c_HTP_REQUEST_COMPLETE, 5%Z)] /\ run (sg_bytewise w0) = run [w0] /\
  run [w2] = [Some (nth 2 fh_ex_expected (fh_ex_i false false false false false false false, false, 0%Z), c_HTP_REQUEST_COMPLETE, 5%Z)] /\ run (sg_bytewise w2) = run [w2] /\
  sg_chunked_ok (sg_ex_cfg 18000) (nth 0 fh_ex_reqs wr_ex_req) = true /\ sg_body_ok (sg_ex_cfg 18000) (nth 2 fh_ex_reqs wr_ex_req) (bd_str "abcde") = true.
Proof. vm_compute. repeat split; reflexivity. Qed.
(* the folded Content-Length (known finding K1 of C11) at history level: "Content-Length:" CRLF SP "5" is inside the premises of
   fh_request_indicators, so in EVERY chunking the flags are the table's -- no SMUGGLING; the text's premise excludes it *)
Definition fh_ex_folded_req : wr_request := fh_ex_rq "POST" "/" "HTTP/1.1" [fh_ex_fld "Host" "a"; fh_ex_fld "Content-Length" "5"].
Definition fh_ex_folded_cuts : list (list bytes) := [[bd_str " a"]; [[]; bd_str " 5"]].
Example fh_ex_folded_cl :
  fh_req_ok fh_ex_folded_req = true /\ sg_cuts_ok fh_ex_folded_req fh_ex_folded_cuts = true /\ sg_fold_fits (sg_ex_cfg 18000) fh_ex_folded_req fh_ex_folded_cuts = true /\
  sg_fold_wire fh_ex_folded_req fh_ex_folded_cuts = bd_lines ["POST / HTTP/1.1"; "Host: a"; "Content-Length:"; " 5"; ""] /\
  fh_cl_folded fh_ex_folded_req fh_ex_folded_cuts = true /\ fr_text_premise (fh_fields_of fh_ex_folded_req) true = false /\
  frv_smuggling (fh_verdict fh_ex_folded_req) = false /\
  fh_ex_run (sg_bytewise (sg_fold_wire fh_ex_folded_req fh_ex_folded_cuts)) = [Some (fh_ex_i false false false false false false false, false, c_HTP_CODING_IDENTITY)].
Proof. vm_compute. repeat split; reflexivity. Qed.

(* ================= THEOREMS FOR RE-EXPORT (Properties_C11.v): C11 at history level, request direction =================
   common premises: wr_all_ok cb (every callback answers OK), g_allow_space_uri g = false, fresh connection
     (cp_run cb g connp_new (OpOpen :: map OpReqData chunks)), Forall (fun x => x <> []) chunks,
     sg_cuts_ok r cuts (any folding of the field values; PSegFold.sg_cuts_whole r = no folding), sg_fold_fits g r cuts (line limits).
   fh_req_ok r = wr_wf_request_line && forallb wr_field_ok: ANY Content-Length / Transfer-Encoding / Host fields, repeated or not,
     any method (CONNECT included), no premise on the repetition cap (the tables count fr_kept).
   The header-part theorems speak of the FINAL STATE after the call that delivers the empty line (concat chunks = sg_fold_wire r cuts:
   request line, fields, empty line; events carry no snapshot at REQUEST_HEADERS time).  fh_verdict r = fr_verdict (protocol) (fields),
   the host verdict is taken on the transaction's own normalised target (t_parsed_uri t = Some nu).

   PFramingHist.fh_request_flags         exists t mph, txs = [Some t] /\ (mph = 0 \/ mph = HTP_MULTI_PACKET_HEAD) /\
                                         t_flags t = flags after the request line | mph | fr_verdict_bits (fh_verdict r) | fr_host_bits (fh_host_verdict g r)
                                         /\ t_request_transfer_coding t = fr_coding_num (frv_coding (fh_verdict r))                 (exact flag word)
   PFramingHistLine.fh_th0_clean         the request-line stage raises none of the seven indicator bits (for every grammar request line)
   fh_request_indicators                 exists t nu, txs = [Some t] /\ t_parsed_uri t = Some nu /\
                                         fh_ind_of (t_flags t) = fh_ind_tables (fh_verdict r) (fr_host_verdict proto (u_host nu) (u_port_number nu) (Host value))
                                           (SMUGGLING, INVALID_T_E, INVALID_C_L, REQUEST_INVALID, HOST_MISSING, HOST_AMBIGUOUS, HOSTH_INVALID: each bit set
                                            EXACTLY when the table says so) /\ coding = the table's /\
                                         fr_check .. = true /\ fr_check_host .. = true (incl. HOSTU_INVALID for an invalid target host) /\ fr_check_table .. = true
   fh_request_text                       inside fr_text_premise (fields) (fh_cl_folded r cuts) / fr_host_text_premise (u_host nu): fr_check_text / fr_check_host_text
   fh_request_body_indicators            whole request with an identity body (sg_body_ok g r body: the model's decision is IDENTITY with |body|; several
                                         Content-Length fields included), wire sg_fold_wire r cuts ++ body: at REQUEST_COMPLETE the same indicators
   fh_request_chunked_indicators         whole request with a chunked body and trailers (sg_chunked_ok g r: decision CHUNKED; Content-Length next to it and
                                         HTTP/1.0 included; sg_cfbody_ok), wire sg_fold_wire r cuts ++ sg_cfbody_wire ks last tr tcuts: the same
   Examples: fh_ex_whole / fh_ex_bytewise / fh_ex_single_cuts / fh_ex_tables (14 requests evaluated before the proofs), fh_ex_with_body, fh_ex_premises
   (non-vacuity), fh_ex_folded_cl (known finding K1 at history level: a folded Content-Length is inside the premises, never SMUGGLING in any chunking).
   Nothing refuted: no chunking or folding changes an indicator.
   RESPONSE direction (H3): PFramingHistRes.v (imports this file) ends with its own block: fhr_response_cl_repeated, fhr_response_chunked_cl. *)
Print Assumptions fh_request_flags.
Print Assumptions fh_th0_clean.
Print Assumptions fh_request_indicators.
Print Assumptions fh_request_text.
Print Assumptions fh_request_body_indicators.
Print Assumptions fh_request_chunked_indicators.
