(* C16, response side of a CONNECT / Upgrade exchange: the response side between two responses (tr_rest), one call of
   htp_connp_res_data through the status line and the header block of ONE response from any read offset (Section TOne: PPairOne.v's
   Section One without its body part -- what RES_BODY_DETERMINE does is a parameter, Ktail), and the decisions of
   RES_BODY_DETERMINE that matter here: CONNECT answered 2xx (no body, RES_FINALIZE), 101 without framing headers (both directions
   go into tunnel mode), CONNECT refused (the request side is unblocked, the response side yields at the end of the transaction). *)
Require Import Htp.Model.Base Htp.Model.MBstr Htp.Model.MConnTypes Htp.Model.MTxCommon Htp.Model.MResLine Htp.Model.MTxRes.
Require Import Htp.Model.MReq Htp.Model.MRes Htp.Model.MConnp.
Require Import Htp.Spec.SWire Htp.Proof.PWire Htp.Proof.PWireHdr Htp.Proof.PWireBlock Htp.Proof.PWireConn Htp.Proof.PWireExch.
Require Import Htp.Proof.PWireRun Htp.Proof.PWirePres Htp.Proof.PWireGlue Htp.Proof.PSeg Htp.Proof.PSegLine Htp.Proof.PSegHdr Htp.Proof.PSegGen Htp.Proof.PSegRun.
Require Import Htp.Proof.PSegFold Htp.Proof.PSegRes Htp.Proof.PSegResLine Htp.Proof.PSegResHdr Htp.Proof.PSegResGen Htp.Proof.PSegResRun.
Require Import Htp.Proof.PTunBase Htp.Proof.PTunSegMid Htp.Proof.PTunRes Htp.Proof.PTunResLine Htp.Proof.PTunResHdr Htp.Proof.PTunResRun.

(* ---- between two calls, before the response to transaction number tr_k w: the response side is idle ---- *)
Record tr_rest (w : tr_world) (c : connp) (t : tx) : Prop := mk_tr_rest {
  ty_status : sg_live (c_out_status c);
  ty_state : c_out_state c = RES_IDLE;
  ty_buf : sg_olist (k_buf (c_out c)) = [];
  ty_hdr : k_header (c_out c) = None;
  ty_rh : k_receiver_hook (c_out c) = None;
  ty_next : c_out_next_tx_index c = tr_k w;
  ty_txs : c_txs c = tr_txs w t;
  ty_shift : c_txs_shifted c = 0%nat;
  ty_intx : tn_rq c = tw_rq w;
  ty_other : c_out_data_other_at_tx_end c = tw_other w }.

Lemma tr_forget_out c :
  k_buf (c_out (tn_fin c)) = k_buf (c_out c) /\ k_header (c_out (tn_fin c)) = k_header (c_out c) /\
  k_receiver_hook (c_out (tn_fin c)) = k_receiver_hook (c_out c).
Proof. unfold tn_fin. cbn [forget_chunks c_out set]. cbn. unfold forget_one. destruct (k_data (c_out c)); repeat split. Qed.
Lemma tn_rq_fin c : tn_rq (tn_fin c) = (tn_rq c) <| c_in := forget_one (c_in c) |>.
Proof. reflexivity. Qed.
Lemma tn_rq_fin_stable c r : tn_rq c = r -> tn_stable (c_in r) -> tn_rq (tn_fin c) = r.
Proof. intros <- S. rewrite tn_rq_fin. unfold tn_stable in S. cbn [c_in tn_rq] in S. rewrite S. reflexivity. Qed.
Lemma tr_rest_finish w c t : tr_rest w c t -> tn_stable (c_in (tw_rq w)) -> tr_rest w (tn_fin c) t.
Proof.
  intros [A1 A2 A3 A4 A5 A6 A7 A8 A9 A10] S. destruct (tr_forget_out c) as (F1 & F2 & F3).
  constructor; rewrite ?F1, ?F2, ?F3; try assumption. apply tn_rq_fin_stable; assumption.
Qed.
Lemma tr_mid_finish w c p hdr st rh t : tr_midw w c p hdr st rh t -> tn_stable (c_in (tw_rq w)) -> tr_midw w (tn_fin c) p hdr st rh t.
Proof.
  intros [A1 A2 A3 A4 A5 A6 A7 A8 A9 A10 A11 A12] S. destruct (tr_forget_out c) as (F1 & F2 & F3).
  constructor; rewrite ?F1, ?F2, ?F3; try assumption. apply tn_rq_fin_stable; assumption.
Qed.

Section Ready.
Variable cb : cb_oracle.
Variable g : cfg.
(* entering htp_connp_res_data between two responses *)
Lemma tr_enter_ready w c t (x : bytes) : tr_rest w c t -> x <> [] ->
  exists c1, connp_res_data cb g (Some x) (length x) c = rs_res_loop cb g (rs_res_fuel (length x)) false c1 /\
             tr_idle (w := w) c1 x 0 [] (c_out_state_previous c) t /\ c_events c1 = c_events c.
Proof.
  intros [A1 A2 A3 A4 A5 A6 A7 A8 A9 A10] Hne. unfold connp_res_data.
  rewrite (sg_live_stop _ A1), (sg_live_error _ A1), A2.
  assert (E0 : match c_out_tx c with Some _ => false | None => negb (res_state_eqb RES_IDLE RES_IDLE) end = false) by (destruct (c_out_tx c); reflexivity).
  rewrite E0.
  assert (L0 : (length x =? 0)%nat = false) by (destruct x; [contradiction|reflexivity]). rewrite L0. cbn [andb].
  match goal with |- context [(c_out_status ?y =? c_HTP_STREAM_TUNNEL)%Z] => change (c_out_status y) with (c_out_status c) end.
  rewrite (sg_live_tunnel _ A1).
  eexists. split; [reflexivity|]. split; [|reflexivity].
  constructor; try assumption; try reflexivity; cbn; try lia.
  rewrite app_nil_r. exact A3.
Qed.
End Ready.

(* ---- the exit of the loop of htp_connp_res_data keeps the read offset ---- *)
Section ExitCur.
Variable cb : cb_oracle.
Variable g : cfg.
Hypothesis Hcb : wr_all_ok cb.
Lemma tn_send_cur last c : k_read (c_out (snd (res_receiver_send_data cb last c))) = k_read (c_out c) /\ k_len (c_out (snd (res_receiver_send_data cb last c))) = k_len (c_out c).
Proof.
  unfold res_receiver_send_data. destruct (k_receiver_hook (c_out c)); [|split; reflexivity]. cbv zeta. unfold run_data_hook. rewrite (wr_run_hook_ex cb Hcb). cbn [snd].
  destruct (k_read (c_out c) <? k_receiver (c_out c))%nat;
  destruct (match cur_slice (c_out c) (k_receiver (c_out c)) (k_read (c_out c)) with Some s => length s | None => 0%nat end <? k_read (c_out c) - k_receiver (c_out c))%nat;
  destruct (k_data (c_out c)); try destruct (0 <? k_receiver (c_out c))%nat;
  repeat match goal with |- context [c_out_tx ?x] => progress change (c_out_tx x) with (c_out_tx c) end;
  destruct (c_out_tx c); split; reflexivity.
Qed.
Lemma tn_buffer_cur c : k_read (c_out (snd (rs_res_buffer g c))) = k_read (c_out c) /\ k_len (c_out (snd (rs_res_buffer g c))) = k_len (c_out c).
Proof.
  unfold rs_res_buffer. cbv zeta. destruct (k_data (c_out c)); [|split; reflexivity].
  destruct (k_read (c_out c) <? k_consume (c_out c))%nat; destruct (c_out_tx _);
    match goal with |- context [if ?b then _ else _] => destruct b end; split; reflexivity.
Qed.
Lemma tn_res_exit_cur rc c : k_read (c_out (fst (rs_res_exit cb g rc c))) = k_read (c_out c) /\ k_len (c_out (fst (rs_res_exit cb g rc c))) = k_len (c_out c).
Proof.
  unfold rs_res_exit. destruct rc; try (split; reflexivity).
  - destruct (tn_send_cur false c) as [A B]. split; assumption.
  - destruct (k_len (c_out c) <=? k_read (c_out c))%nat; split; reflexivity.
  - destruct (tn_send_cur false c) as [A B]. destruct (tn_buffer_cur (snd (res_receiver_send_data cb false c))) as [A' B'].
    destruct (rs_res_buffer g (snd (res_receiver_send_data cb false c))) as [brc c2]. cbn [snd] in A', B'. destruct brc; cbn [fst rs_set_out_status c_out set]; rewrite ?A', ?B'; split; assumption.
Qed.
End ExitCur.

(* ================= status line and header block of one response, from any read offset ================= *)
Section TOne.
Variable cb : cb_oracle.
Variable g : cfg.
Hypothesis Hcb : wr_all_ok cb.
Context {w : tr_world}.
Notation tr_cin := (tr_cinw w).
Notation tr_mid := (tr_midw w).
Variables ps s r : bytes.
Variable ls : list sg_fl.
Variable t0 : tx.
Variable btw : bytes.                                      (* the wire after the empty line *)
Hypothesis Wl : sr_status_ok ps s r = true.
Hypothesis Okl : forallb sg_fl_ok ls = true.
Hypothesis Hnp0 : sg_needs_pending ls = false.
Hypothesis H09 : t_is_protocol_0_9 t0 = false.
Let line0 := wr_ser_status_line ps s r.
Let th0 := sr_th0 t0 line0.
Let Tend := sr_lrun ls (None, th0).
Let has_hdr := negb (sr_is_nil ls).
Hypothesis Hlim0 : (length line0 + 2 <= g_field_limit_hard g)%nat.
Hypothesis Hfit : sr_ffit (g_field_limit_hard g) (sr_p11 th0) None ls = true.
Let bwt := sg_fwire ls ++ [CR; LF] ++ btw.                 (* what follows the status line *)
Let hlog := sr_hlog g Tend btw has_hdr.
Variable okd : bytes -> bytes -> Prop.
Hypothesis Hokd : forall d rw', okd d rw' -> sr_f1_local btw has_hdr d rw'.

(* the states in which a call may end inside the head of this response *)
Inductive tt_betw (c : connp) (rw : bytes) : Prop :=
| TW_line p q : tr_mid c p None RES_LINE None (sr_tx_start t0) -> p ++ q = line0 ++ [CR; LF] -> q <> [] -> rw = q ++ bwt -> tt_betw c rw
| TW_hdrs p hdr t : tr_mid c p hdr RES_HEADERS (Some H_RESPONSE_HEADER_DATA) t -> hlog hdr t p rw -> (length rw <= length bwt)%nat -> tt_betw c rw.

Variable goal : bytes -> connp -> nat -> bytes -> Prop.      (* the chunk, the parser, fuel, the wire after the chunk *)
Hypothesis Hstep : forall d c c' fuel rw', sr_iter cb g c = inr c' -> goal d c' fuel rw' -> goal d c (S fuel) rw'.
Hypothesis Hexit : forall d c cF fuel rw', sr_iter cb g c = inl (cF, c_HTP_STREAM_DATA) -> tt_betw cF rw' -> rw' <> [] ->
  k_read (c_out cF) = length d -> goal d c (S fuel) rw'.
(* what follows the empty line: RES_HEADERS has returned HTP_OK in state RES_BODY_DETERMINE *)
Hypothesis Ktail : forall c c1 d rd1 rw' fuel, okd d rw' -> c_out_state c = RES_HEADERS -> rs_state_fn cb g RES_HEADERS c = (ST_OK, c1) ->
  tr_cin c1 d rd1 [] None RES_BODY_DETERMINE (Some RES_HEADERS) (Some H_RESPONSE_HEADER_DATA) Tend -> skipn rd1 d ++ rw' = btw ->
  (8 * (length d - rd1) + 16 <= fuel)%nat -> goal d c fuel rw'.

Lemma tt_hdrs_finish c d (rw' : bytes) fuel nn : okd d rw' ->
  c_out_state c = RES_HEADERS -> rs_state_fn cb g RES_HEADERS c = rs_headers_loop cb g nn false c ->
  ((exists c' p' hdr' t', rs_headers_loop cb g nn false c = (ST_DATA_BUFFER, c') /\
      tr_cin c' d (length d) p' hdr' RES_HEADERS (Some RES_HEADERS) (Some H_RESPONSE_HEADER_DATA) t' /\
      hlog hdr' t' p' rw' /\ rw' <> []) \/
   (exists c' rd1, rs_headers_loop cb g nn false c = (ST_OK, c') /\
      tr_cin c' d rd1 [] None RES_BODY_DETERMINE (Some RES_HEADERS) (Some H_RESPONSE_HEADER_DATA) Tend /\ skipn rd1 d ++ rw' = btw /\
      (8 * (length d - rd1) + 16 <= fuel)%nat)) ->
  (1 <= fuel)%nat -> (length rw' <= length bwt)%nat -> goal d c fuel rw'.
Proof.
  intros Hok Es Ef [HA|HB] Hf Hbd.
  - destruct HA as (c' & p' & hdr' & t' & EA & HA1 & HA2 & HA3).
    assert (Lim : (length p' + length (sg_olist hdr') <= g_field_limit_hard g)%nat).
    { destruct HA2 as (pe & te & re & q' & ea & Hr' & _ & _ & _ & _ & Hne & Hea & _ & Fit & _). pose proof (sr_ffit_next _ _ _ _ Fit) as L.
      pose proof (sr_rel_len _ _ _ _ _ Hr'). destruct ea.
      - destruct (Hea eq_refl) as (Er & Ep & _). subst re p'. cbn [sg_fnext length] in L |- *. lia.
      - destruct (Hne eq_refl) as (Epq & _). rewrite <- Epq, app_length in L. lia. }
    destruct (tr_exit_buffer cb g Hcb c' d p' hdr' _ _ t' HA1 Lim) as (cF & EF & HF).
    destruct fuel as [|f]; [lia|].
    apply (Hexit d c cF f rw'); [unfold sr_iter; rewrite Es, Ef, EA, EF; reflexivity| |exact HA3|].
    + apply (TW_hdrs _ _ p' hdr' t' HF HA2 Hbd).
    + destruct (tn_res_exit_cur cb g Hcb ST_DATA_BUFFER c') as [X1 X2]. rewrite EF in X1, X2. cbn [fst] in X1, X2.
      rewrite X1. exact (ti_read _ _ _ _ _ _ _ _ _ HA1).
  - destruct HB as (c' & rd1 & EB & HB1 & HB2 & HB3). rewrite <- Ef in EB.
    apply (Ktail c c' d rd1 rw' fuel Hok Es EB HB1 HB2 HB3).
Qed.

Lemma tt_call_hdrs c d p hdr t (rw' : bytes) fuel : okd d rw' ->
  tr_cin c d 0 p hdr RES_HEADERS (Some RES_HEADERS) (Some H_RESPONSE_HEADER_DATA) t -> hlog hdr t p (d ++ rw') ->
  (length (d ++ rw') <= length bwt)%nat -> (8 * length d + 16 <= fuel)%nat -> goal d c fuel rw'.
Proof.
  intros Hok H (pend & tl & rem & q & eaten & Hrel & Ok & Hnp & Hrun & Hprog & Hne & Hea & Hw & Hfit' & Hhh) Hbd Hf.
  assert (Es : c_out_state c = RES_HEADERS) by apply (ti_state _ _ _ _ _ _ _ _ _ H).
  assert (Ef : rs_state_fn cb g RES_HEADERS c = rs_headers_loop cb g (S (S (length d))) false c).
  { cbn [rs_state_fn]. unfold rs_RES_HEADERS, rs_bytes_fuel. rewrite (ti_len _ _ _ _ _ _ _ _ _ H), (ti_read _ _ _ _ _ _ _ _ _ H), Nat.sub_0_r. reflexivity. }
  apply (tt_hdrs_finish c d rw' fuel _ Hok Es Ef); [|lia|rewrite app_length in Hbd; lia].
  destruct (tr_hdrs_loop cb g d rw' Tend btw has_hdr (Hokd _ _ Hok) rem c 0 p q hdr t pend tl (S (S (length d))) false eaten H Hrel Ok Hnp Hrun Hprog Hne Hea Hw Hfit' Hhh) as [HA|HB];
    [discriminate|left; reflexivity|intros _; left; reflexivity|lia| |].
  - left. exact HA.
  - right. destruct HB as (c' & rd1 & EB & HB1 & HB2). exists c', rd1. split; [exact EB|]. split; [exact HB1|]. split; [exact HB2|]. lia.
Qed.
Lemma tt_call_start c d rd (rw' : bytes) fuel : okd d rw' ->
  tr_cin c d rd [] None RES_HEADERS (Some RES_HEADERS) (Some H_RESPONSE_HEADER_DATA) th0 -> skipn rd d ++ rw' = bwt ->
  (8 * (length d - rd) + 16 <= fuel)%nat -> goal d c fuel rw'.
Proof.
  intros Hok H Hw Hf. pose proof (ti_rd _ _ _ _ _ _ _ _ _ H) as Hrd.
  assert (Es : c_out_state c = RES_HEADERS) by apply (ti_state _ _ _ _ _ _ _ _ _ H).
  assert (Ef : rs_state_fn cb g RES_HEADERS c = rs_headers_loop cb g (S (S (length d - rd))) false c).
  { cbn [rs_state_fn]. unfold rs_RES_HEADERS, rs_bytes_fuel. rewrite (ti_len _ _ _ _ _ _ _ _ _ H), (ti_read _ _ _ _ _ _ _ _ _ H). reflexivity. }
  apply (tt_hdrs_finish c d rw' fuel _ Hok Es Ef); [|lia|rewrite <- Hw, app_length; lia].
  destruct (tr_hdrs_loop cb g d rw' Tend btw has_hdr (Hokd _ _ Hok) ls c rd [] (sg_fnext ls) None th0 None th0 (S (S (length d - rd))) false false H) as [HA|HB].
  - left. split; reflexivity.
  - exact Okl.
  - rewrite Hnp0. discriminate.
  - reflexivity.
  - apply (sr_th0_keep t0 line0).
  - intros _. split; [reflexivity|apply sg_fnext_ne].
  - discriminate.
  - rewrite Hw. unfold bwt. apply sg_fwire_split.
  - exact Hfit.
  - apply sr_is_nil_false.
  - discriminate.
  - right. reflexivity.
  - discriminate.
  - lia.
  - left. exact HA.
  - right. destruct HB as (c' & rd1 & EB & HB1 & HB2). exists c', rd1. split; [exact EB|]. split; [exact HB1|]. split; [exact HB2|].
    pose proof (ti_rd _ _ _ _ _ _ _ _ _ HB1) as Hrd1.
    assert (La : length (skipn rd d ++ rw') = length bwt) by (rewrite Hw; reflexivity).
    assert (Lb : length (skipn rd1 d ++ rw') = length btw) by (rewrite HB2; reflexivity).
    unfold bwt in La. rewrite !app_length, !skipn_length in *. lia.
Qed.

Lemma tr_line_partial c d rd p hdr prev rh t u0 r0 nn : tr_cin c d rd p hdr RES_LINE prev rh t ->
  skipn rd d = u0 ++ r0 -> sr_plain u0 = true -> r0 = [] \/ r0 = [CR] -> (length d - rd < nn)%nat ->
  exists c', rs_line_loop cb g nn c = (ST_DATA_BUFFER, c') /\ tr_cin c' d (length d) (p ++ skipn rd d) hdr RES_LINE prev rh t.
Proof.
  intros H Hu Ps Hr0 Hn. pose proof (ti_rd _ _ _ _ _ _ _ _ _ H) as Hrd.
  assert (Lu : length (skipn rd d) = (length d - rd)%nat) by apply skipn_length. rewrite Hu, app_length in Lu.
  replace nn with (length u0 + S (nn - length u0 - 1))%nat by lia.
  destruct (tr_line_scan_plain cb g d hdr prev rh t u0 c rd p (S (nn - length u0 - 1)) r0 H Hu Ps) as (c1 & E1 & H1 & R1). rewrite E1, Hu.
  destruct Hr0 as [E|E]; subst r0.
  - cbn [length] in Lu. assert (Erd : (rd + length u0)%nat = length d) by lia. rewrite Erd in H1. rewrite app_nil_r.
    exists c1. split; [apply (tr_line_loop_end cb g c1 d _ hdr _ _ t _ H1)|exact H1].
  - destruct (tr_line_loop_cr_end cb g c1 d _ _ hdr _ _ t (nn - length u0 - 1) H1 R1) as (c2 & E2 & H2).
    exists c2. split; [exact E2|]. rewrite <- app_assoc in H2. exact H2.
Qed.

Lemma tt_run_line c d rd p q (rw' : bytes) fuel : okd d rw' ->
  tr_cin c d rd p None RES_LINE (Some RES_LINE) None (sr_tx_start t0) ->
  p ++ q = line0 ++ [CR; LF] -> q <> [] -> skipn rd d ++ rw' = q ++ bwt ->
  (8 * (length d - rd) + 18 <= fuel)%nat -> goal d c fuel rw'.
Proof.
  intros Hok H Hpq Hq Hw Hf. pose proof (ti_rd _ _ _ _ _ _ _ _ _ H) as Hrd.
  destruct (sr_status_line_shape ps s r Wl) as (Pl & _). fold line0 in Pl.
  destruct (sg_app_cases (skipn rd d) rw' q _ Hw) as [Clt Cge].
  assert (Es : c_out_state c = RES_LINE) by apply (ti_state _ _ _ _ _ _ _ _ _ H).
  assert (Lsk : length (skipn rd d) = (length d - rd)%nat) by apply skipn_length.
  destruct fuel as [|f]; [lia|].
  destruct (Nat.lt_ge_cases (length (skipn rd d)) (length q)) as [Llt|Lge].
  - destruct (Clt Llt) as (q2 & Eq & Hq2 & Erw).
    assert (Hpq' : p ++ skipn rd d ++ q2 = line0 ++ [CR; LF]) by (rewrite <- Eq; exact Hpq).
    destruct (sr_prefix_shape line0 p (skipn rd d) q2 Pl Hpq' Hq2) as (u0 & r0 & Eu & Ps & Hr0).
    destruct (tr_line_partial c d rd p None _ None _ u0 r0 (S (S (length d - rd))) H Eu Ps Hr0 ltac:(lia)) as (c' & E & H').
    assert (Lim : (length (p ++ skipn rd d) + length (sg_olist None) <= g_field_limit_hard g)%nat).
    { assert (L : length (p ++ skipn rd d ++ q2) = (length line0 + 2)%nat) by (rewrite Hpq', app_length; reflexivity). rewrite !app_length in L. rewrite app_length.
      cbn [sg_olist length]. lia. }
    destruct (tr_exit_buffer cb g Hcb c' d _ None _ _ _ H' Lim) as (cF & EF & HF).
    apply (Hexit d c cF f rw').
    + unfold sr_iter. rewrite Es. cbn [rs_state_fn]. unfold rs_RES_LINE, rs_bytes_fuel.
      rewrite (ti_len _ _ _ _ _ _ _ _ _ H), (ti_read _ _ _ _ _ _ _ _ _ H), E, EF. reflexivity.
    + apply (TW_line _ _ (p ++ skipn rd d) q2 HF); [rewrite <- app_assoc; exact Hpq'|exact Hq2|exact Erw].
    + rewrite Erw. destruct q2; [contradiction|discriminate].
    + destruct (tn_res_exit_cur cb g Hcb ST_DATA_BUFFER c') as [X1 X2]. rewrite EF in X1, X2. cbn [fst] in X1, X2.
      rewrite X1. exact (ti_read _ _ _ _ _ _ _ _ _ H').
  - destruct (Cge Lge) as (d2 & Ed & Eaft).
    destruct (tr_pass_line cb g Hcb c d rd p q d2 _ ps s r Wl H Ed Hq Hpq Hlim0) as (c2 & E2 & H2 & Hr2).
    apply (Hstep d c c2 f rw' E2).
    assert (Lq : (0 < length q)%nat) by (destruct q; [contradiction|cbn [length]; lia]).
    pose proof (ti_rd _ _ _ _ _ _ _ _ _ H2) as Hrd2.
    apply (tt_call_start c2 d _ rw' f Hok H2); [rewrite Hr2; symmetry; exact Eaft|lia].
Qed.

Lemma tt_run_idle c d rd p q prev (rw' : bytes) fuel : okd d rw' ->
  tr_idle (w := w) c d rd p prev t0 -> (rd < length d)%nat ->
  p ++ q = line0 ++ [CR; LF] -> q <> [] -> skipn rd d ++ rw' = q ++ bwt ->
  (8 * (length d - rd) + 19 <= fuel)%nat -> goal d c fuel rw'.
Proof.
  intros Hok H Hlt Hpq Hq Hw Hf.
  destruct (tr_pass_idle cb g Hcb c d rd p prev t0 H Hlt H09) as (c1 & E1 & H1).
  destruct fuel as [|f]; [lia|].
  apply (Hstep d c c1 f rw' E1).
  apply (tt_run_line c1 d rd p q rw' f Hok H1 Hpq Hq Hw). lia.
Qed.

Lemma tt_betw_finish c rw : tt_betw c rw -> tn_stable (c_in (tw_rq w)) -> tt_betw (tn_fin c) rw.
Proof.
  intros [p q Hm Hpq Hq Erw|p hdr t Hm Hl Hb] S.
  - apply (TW_line _ _ p q (tr_mid_finish _ _ _ _ _ _ _ Hm S) Hpq Hq Erw).
  - apply (TW_hdrs _ _ p hdr t (tr_mid_finish _ _ _ _ _ _ _ Hm S) Hl Hb).
Qed.
Lemma tt_step c (rw x rw' : bytes) : tt_betw c rw -> x <> [] -> rw = x ++ rw' -> okd x rw' ->
  exists c1, connp_res_data cb g (Some x) (length x) c = rs_res_loop cb g (rs_res_fuel (length x)) false c1 /\
             goal x c1 (rs_res_fuel (length x)) rw'.
Proof.
  intros [p q Hm Hpq Hq Erw|p hdr t Hm Hl Hb] Hne Ex Hok.
  - destruct (tr_enter cb g c p None _ _ _ x Hm Hne) as (c1 & E1 & H1). exists c1. split; [exact E1|].
    apply (tt_run_line c1 x 0 p q rw' _ Hok H1 Hpq Hq); [cbn [skipn]; rewrite <- Ex; exact Erw|unfold rs_res_fuel; lia].
  - destruct (tr_enter cb g c p hdr _ _ t x Hm Hne) as (c1 & E1 & H1). exists c1. split; [exact E1|].
    apply (tt_call_hdrs c1 x p hdr t rw' _ Hok H1); [rewrite <- Ex; exact Hl|rewrite <- Ex; exact Hb|unfold rs_res_fuel; lia].
Qed.
End TOne.

(* ================= RES_BODY_DETERMINE ================= *)
(* htp_tx_state_response_headers neither reads nor writes the two stream states *)
Definition tn_st (so si : Z) (c : connp) : connp := c <| c_out_status := so |> <| c_in_status := si |>.
Ltac tn_brk := repeat match goal with
  | |- context [match ?x with _ => _ end] => destruct x
  | |- context [if ?b then _ else _] => destruct b
  end.
Lemma tn_st_tx_upd so si c i f : tx_upd (tn_st so si c) i f = tn_st so si (tx_upd c i f).
Proof.
  unfold tx_upd, tx_slot, tx_put. change (c_txs_shifted (tn_st so si c)) with (c_txs_shifted c). change (c_txs (tn_st so si c)) with (c_txs c).
  tn_brk; reflexivity.
Qed.
Lemma tn_st_hook_ev so si h i data last c : wr_hook_ev h i data last (tn_st so si c) = tn_st so si (wr_hook_ev h i data last c).
Proof. reflexivity. Qed.
Section StatusFrame.
Variable cb : cb_oracle.
Hypothesis Hcb : wr_all_ok cb.
Lemma tn_st_send so si last c : res_receiver_send_data cb last (tn_st so si c) = (fst (res_receiver_send_data cb last c), tn_st so si (snd (res_receiver_send_data cb last c))).
Proof.
  unfold res_receiver_send_data. change (c_out (tn_st so si c)) with (c_out c).
  destruct (k_receiver_hook (c_out c)); [|reflexivity]. cbv zeta. unfold run_data_hook. rewrite !(wr_run_hook_ex cb Hcb). cbn [fst snd].
  destruct (k_read (c_out c) <? k_receiver (c_out c))%nat;
  destruct (match cur_slice (c_out c) (k_receiver (c_out c)) (k_read (c_out c)) with Some s => length s | None => 0%nat end <? k_read (c_out c) - k_receiver (c_out c))%nat;
  destruct (k_data (c_out c)); try destruct (0 <? k_receiver (c_out c))%nat;
  repeat match goal with |- context [c_out_tx ?x] => progress change (c_out_tx x) with (c_out_tx c) end;
  destruct (c_out_tx c); reflexivity.
Qed.
Lemma tn_st_clear so si c : res_receiver_finalize_clear cb (tn_st so si c) = (fst (res_receiver_finalize_clear cb c), tn_st so si (snd (res_receiver_finalize_clear cb c))).
Proof.
  unfold res_receiver_finalize_clear. change (c_out (tn_st so si c)) with (c_out c).
  destruct (k_receiver_hook (c_out c)); [|reflexivity]. rewrite tn_st_send. destruct (res_receiver_send_data cb true c) as [rc c1]. reflexivity.
Qed.
Lemma tn_st_response_headers so si c : rs_response_headers cb (tn_st so si c) = (fst (rs_response_headers cb c), tn_st so si (snd (rs_response_headers cb c))).
Proof.
  unfold rs_response_headers. change (c_out_tx (tn_st so si c)) with (c_out_tx c). destruct (c_out_tx c) as [i|]; [|reflexivity].
  unfold tx_state_response_headers. rewrite tn_st_tx_upd, tn_st_clear.
  destruct (res_receiver_finalize_clear cb (tx_upd c i _)) as [rc c1]. cbn [fst snd]. destruct rc; try reflexivity.
  rewrite !(wr_run_hook cb Hcb). reflexivity.
Qed.
End StatusFrame.

Section Determine.
Variable cb : cb_oracle.
Variable g : cfg.
Hypothesis Hcb : wr_all_ok cb.
Context {w : tr_world}.
Notation tr_cin := (tr_cinw w).

(* ---- CONNECT answered with 2xx: no body whatever the header fields say; RES_FINALIZE is next ---- *)
Lemma tr_pass_determine_connect c d rd t : tr_cin c d rd [] None RES_BODY_DETERMINE (Some RES_BODY_DETERMINE) (Some H_RESPONSE_HEADER_DATA) t ->
  (t_request_method_number t =? c_HTP_M_CONNECT)%Z = true ->
  (200 <=? t_response_status_number t)%Z = true -> (t_response_status_number t <=? 299)%Z = true ->
  exists c', sr_iter cb g c = inr c' /\ tr_cin c' d rd [] None RES_FINALIZE (Some RES_FINALIZE) None (t <| t_res_cep := c_HTP_COMPRESSION_NONE |>).
Proof.
  intros H Hm H1 H2.
  assert (Ef : rs_state_fn cb g (c_out_state c) c = rs_RES_BODY_DETERMINE cb c) by (rewrite (ti_state _ _ _ _ _ _ _ _ _ H); reflexivity).
  unfold rs_RES_BODY_DETERMINE in Ef. rewrite (tr_rs_tx c d rd _ _ _ _ _ t H) in Ef. cbv zeta in Ef. rewrite Hm, H1, H2 in Ef. cbn [andb] in Ef.
  assert (H4 : tr_cin (rs_set_state RES_FINALIZE c) d rd [] None RES_FINALIZE (Some RES_BODY_DETERMINE) (Some H_RESPONSE_HEADER_DATA) t) by (eapply tr_cin_state; exact H).
  destruct (tr_response_headers cb Hcb _ d rd _ _ t H4) as (c5 & E5 & H5 & _). rewrite E5 in Ef.
  apply (tr_iter_ok cb g c c5 d rd _ _ _ _ _ _ Ef H5). discriminate.
Qed.

(* ---- 101 without Content-Length / Transfer-Encoding to a request that is not CONNECT: both directions go into tunnel mode.
        c1 is the parser as it would be without the two status writes ---- *)
Lemma tr_pass_determine_101 c d rd t : tr_cin c d rd [] None RES_BODY_DETERMINE (Some RES_BODY_DETERMINE) (Some H_RESPONSE_HEADER_DATA) t ->
  (t_request_method_number t =? c_HTP_M_CONNECT)%Z = false -> t_response_status_number t = 101%Z ->
  rs_hdr_get_c (t_response_headers t) rs_str_content_length = None -> rs_hdr_get_c (t_response_headers t) rs_str_transfer_encoding = None ->
  c_in_status c <> c_HTP_STREAM_ERROR ->
  exists c1, sr_iter cb g c = inl (tn_st c_HTP_STREAM_TUNNEL c_HTP_STREAM_TUNNEL c1, c_HTP_STREAM_TUNNEL) /\
    tr_cin c1 d rd [] None RES_FINALIZE (Some RES_BODY_DETERMINE) None (t <| t_res_cep := c_HTP_COMPRESSION_NONE |>).
Proof.
  intros H Hm Hs Hcl Hte Hin.
  assert (Ef : rs_state_fn cb g (c_out_state c) c = rs_RES_BODY_DETERMINE cb c) by (rewrite (ti_state _ _ _ _ _ _ _ _ _ H); reflexivity).
  unfold rs_RES_BODY_DETERMINE in Ef. rewrite (tr_rs_tx c d rd _ _ _ _ _ t H) in Ef. cbv zeta in Ef. rewrite Hm, Hs, Hcl, Hte in Ef. cbn [andb Z.eqb Pos.eqb] in Ef.
  unfold rs_unblock_request in Ef. change (c_in_status (rs_set_state RES_FINALIZE c)) with (c_in_status c) in Ef.
  apply Z.eqb_neq in Hin. rewrite Hin in Ef. cbn [negb] in Ef.
  change (rs_set_state RES_FINALIZE c <| c_in_status := c_HTP_STREAM_TUNNEL |> <| c_out_status := c_HTP_STREAM_TUNNEL |>)
    with (tn_st c_HTP_STREAM_TUNNEL c_HTP_STREAM_TUNNEL (rs_set_state RES_FINALIZE c)) in Ef.
  rewrite (tn_st_response_headers cb Hcb) in Ef.
  assert (H4 : tr_cin (rs_set_state RES_FINALIZE c) d rd [] None RES_FINALIZE (Some RES_BODY_DETERMINE) (Some H_RESPONSE_HEADER_DATA) t) by (eapply tr_cin_state; exact H).
  destruct (tr_response_headers cb Hcb _ d rd _ _ t H4) as (c5 & E5 & H5 & _). rewrite E5 in Ef. cbn [fst snd] in Ef.
  exists c5. split; [|exact H5]. unfold sr_iter. rewrite Ef. reflexivity.
Qed.
End Determine.
