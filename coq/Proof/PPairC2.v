(* C04, response direction for transaction number k: RES_IDLE with data (the response is attached to the slot at
   out_next_tx_index), RES_LINE cut anywhere, the state change into RES_HEADERS.  PSegResLine.v over the world of PPair.v;
   RES_IDLE and the pass through RES_LINE are stated for any read offset (a response may begin in the middle of a chunk). *)
Require Import Htp.Model.Base Htp.Model.MBstr Htp.Model.MConnTypes Htp.Model.MTxCommon Htp.Model.MResLine Htp.Model.MTxRes.
Require Import Htp.Model.MReq Htp.Model.MRes Htp.Model.MConnp.
Require Import Htp.Spec.SWire Htp.Proof.PWire Htp.Proof.PWireHdr Htp.Proof.PWireBlock Htp.Proof.PWireConn Htp.Proof.PWireExch.
Require Import Htp.Proof.PWireRun Htp.Proof.PWirePres Htp.Proof.PWireGlue Htp.Proof.PSeg Htp.Proof.PSegLine Htp.Proof.PSegHdr Htp.Proof.PSegRes Htp.Proof.PSegResLine.
Require Import Htp.Proof.PPairC1.

Section Line.
Variable cb : cb_oracle.
Variable g : cfg.
Hypothesis Hcb : wr_all_ok cb.
Context {w : pj_world}.
Notation pj_cin := (pj_cinw w).
Notation pj_mid := (pj_midw w).

(* ---- RES_IDLE with data: the response is matched to the transaction at out_next_tx_index = pj_k w ---- *)
Record pj_idle (c : connp) (d : bytes) (rd : nat) (p : bytes) (prev : option res_state) (t : tx) : Prop := mk_pj_idle {
  jd_status : sg_live (c_out_status c);
  jd_state : c_out_state c = RES_IDLE;
  jd_prev : c_out_state_previous c = prev;
  jd_data : k_data (c_out c) = Some d;
  jd_len : k_len (c_out c) = length d;
  jd_read : k_read (c_out c) = rd;
  jd_rd : (rd <= length d)%nat;
  jd_cons : (k_consume (c_out c) <= rd)%nat;
  jd_seen : sg_olist (k_buf (c_out c)) ++ firstn (rd - k_consume (c_out c)) (skipn (k_consume (c_out c)) d) = p;
  jd_hdr : k_header (c_out c) = None;
  jd_rh : k_receiver_hook (c_out c) = None;
  jd_rcv : (k_receiver (c_out c) <= rd)%nat;
  jd_next : c_out_next_tx_index c = pj_k w;
  jd_txs : c_txs c = pj_txs w t;
  jd_shift : c_txs_shifted c = 0%nat;
  jd_intx : (c_in_status c =? c_HTP_STREAM_DATA_OTHER)%Z = false;
  jd_other : c_out_data_other_at_tx_end c = false;
  jd_in : pj_qin c = jw_in w }.

Lemma pj_pass_idle c d rd p prev t : pj_idle c d rd p prev t -> (rd < length d)%nat -> t_is_protocol_0_9 t = false ->
  exists c', sr_iter cb g c = inr c' /\ pj_cin c' d rd p None RES_LINE (Some RES_LINE) None (sr_tx_start t).
Proof.
  intros [A1 A2 A3 A4 A5 A6 A7 A8 A9 A10 A11 A12 A13 A14 A15 A16 A17 A18] Hlt H09.
  unfold sr_iter. rewrite A2. cbn [rs_state_fn]. unfold rs_RES_IDLE, rs_has_byte. rewrite A5, A6.
  assert (L : (rd <? length d)%nat = true) by (apply Nat.ltb_lt; exact Hlt). rewrite L. cbn [negb].
  rewrite A13, A14. unfold pj_txs at 1, pj_k at 1. rewrite pj_nth_mid, A15. cbn [Nat.add]. fold (pj_k w).
  match goal with |- context [tx_state_response_start cb (out_txi ?x) ?x] => set (c1 := x) end.
  change (out_txi c1) with (pj_k w). unfold tx_state_response_start. rewrite (wr_run_hook cb Hcb).
  match goal with |- context [tx_get ?x (pj_k w)] => set (c2 := x) end.
  assert (S2 : tx_slot c2 (pj_k w) = Some t) by (apply pj_slot_at; [exact A14|exact A15]).
  unfold tx_get. rewrite S2, H09.
  set (c2' := c2 <| c_out_state := RES_LINE |>).
  assert (S2' : tx_slot c2' (pj_k w) = Some t) by exact S2.
  rewrite (wr_tx_upd_ok c2' (pj_k w) t _ S2').
  assert (X2 : c_txs c2' = pj_txs w t) by exact A14.
  assert (Y2 : c_txs_shifted c2' = 0%nat) by exact A15.
  rewrite (pj_tx_put_at c2' w t _ X2 Y2).
  match goal with |- context [rs_handle_state_change cb ?x] => set (c3 := x) end.
  change (c_out_status c3) with (c_out_status c). rewrite (sg_live_tunnel _ A1).
  assert (Eh : rs_handle_state_change cb c3 = (ST_OK, c3 <| c_out_state_previous := Some RES_LINE |>) \/
               (rs_handle_state_change cb c3 = (ST_OK, c3) /\ c_out_state_previous c3 = Some RES_LINE)).
  { unfold rs_handle_state_change. change (c_out_state c3) with RES_LINE.
    destruct (c_out_state_previous c3) as [[]|] eqn:Ep; cbn [res_state_eqb]; try (left; reflexivity). right. split; reflexivity. }
  destruct Eh as [Eh|[Eh Ep]]; rewrite Eh.
  - eexists. split; [reflexivity|]. constructor; try assumption; try reflexivity.
  - eexists. split; [reflexivity|]. constructor; try assumption; try reflexivity.
Qed.

(* ---- RES_LINE: one byte that is neither CR nor LF ---- *)
Lemma pj_line_loop_plain c d rd p hdr prev rh t b n : pj_cin c d rd p hdr RES_LINE prev rh t -> nth_error d rd = Some b ->
  (b =? CR)%N = false -> (b =? LF)%N = false ->
  rs_line_loop cb g (S n) c = rs_line_loop cb g n (rs_set_out (wr_kadv b) c).
Proof.
  intros H Hn H1 H2. pose proof H as [A1 A2 A3 A4 A5 A6 A7 A8 A9 A10 A11 A12 A13 A14 A15 A16 A17 A18 A19].
  rewrite (sr_line_loop_S cb g). unfold rs_closed. rewrite (sg_live_closed _ A1). cbn [negb].
  assert (Hn0 : nth_error d (k_read (c_out c)) = Some b) by (rewrite A6; exact Hn).
  rewrite (sr_copy_byte c d b A4 A5 Hn0).
  set (c1 := rs_set_out (wr_kadv b) c).
  assert (N1 : rs_nb_is c1 CR = false) by (unfold rs_nb_is, rs_nb; cbn; exact H1). rewrite N1.
  assert (N2 : rs_nb_is c1 LF = false) by (unfold rs_nb_is, rs_nb; cbn; exact H2). rewrite N2.
  change (c_out_status c1) with (c_out_status c). rewrite (sg_live_closed _ A1). reflexivity.
Qed.
Lemma pj_line_scan_plain d hdr prev rh t : forall s c rd p n r,
  pj_cin c d rd p hdr RES_LINE prev rh t -> skipn rd d = s ++ r -> sr_plain s = true ->
  exists c', rs_line_loop cb g (length s + n) c = rs_line_loop cb g n c' /\
             pj_cin c' d (rd + length s) (p ++ s) hdr RES_LINE prev rh t /\ skipn (rd + length s) d = r.
Proof.
  induction s as [|b s IH]; intros c rd p n r H Hu Hp.
  - exists c. cbn [length Nat.add app] in *. rewrite Nat.add_0_r, app_nil_r. split; [reflexivity|]. split; assumption.
  - cbn [app] in Hu. destruct (sg_skipn_cons d rd b _ Hu) as (Hnth & Hu' & Hlt).
    destruct (sr_plain_cons b s Hp) as (H1 & H2 & Hp').
    cbn [length Nat.add]. rewrite (pj_line_loop_plain c d rd p hdr prev rh t b _ H Hnth H1 H2).
    destruct (IH (rs_set_out (wr_kadv b) c) (S rd) (p ++ [b]) n r (pj_cin_adv _ _ _ _ _ _ _ _ _ b H Hnth) Hu' Hp') as (c' & E & H' & Hr').
    exists c'. split; [exact E|]. replace (rd + S (length s))%nat with (S rd + length s)%nat by lia. rewrite <- app_assoc in H'. split; assumption.
Qed.

(* the chunk ends: nothing left, or a CR whose successor is not there yet *)
Lemma pj_line_loop_end c d p hdr prev rh t n : pj_cin c d (length d) p hdr RES_LINE prev rh t ->
  rs_line_loop cb g (S n) c = (ST_DATA_BUFFER, c).
Proof.
  intros [A1 A2 A3 A4 A5 A6 A7 A8 A9 A10 A11 A12 A13 A14 A15 A16 A17 A18 A19].
  rewrite (sr_line_loop_S cb g). unfold rs_closed. rewrite (sg_live_closed _ A1). cbn [negb]. rewrite (sr_copy_none c d A5 A6). reflexivity.
Qed.
Lemma pj_line_loop_cr_end c d rd p hdr prev rh t n : pj_cin c d rd p hdr RES_LINE prev rh t -> skipn rd d = [CR] ->
  exists c', rs_line_loop cb g (S n) c = (ST_DATA_BUFFER, c') /\ pj_cin c' d (length d) (p ++ [CR]) hdr RES_LINE prev rh t.
Proof.
  intros H Hu. destruct (sg_skipn_cons d rd CR _ Hu) as (Hnth & Hu' & Hlt). pose proof (sg_skipn_nil _ _ Hu') as Hl.
  pose proof H as [A1 A2 A3 A4 A5 A6 A7 A8 A9 A10 A11 A12 A13 A14 A15 A16 A17 A18 A19].
  assert (Erd : S rd = length d) by lia.
  rewrite (sr_line_loop_S cb g). unfold rs_closed. rewrite (sg_live_closed _ A1). cbn [negb].
  assert (Hn0 : nth_error d (k_read (c_out c)) = Some CR) by (rewrite A6; exact Hnth).
  rewrite (sr_copy_byte c d CR A4 A5 Hn0).
  set (c1 := rs_set_out (wr_kadv CR) c).
  assert (H1 : pj_cin c1 d (S rd) (p ++ [CR]) hdr RES_LINE prev rh t) by (apply pj_cin_adv; assumption).
  assert (N1 : rs_nb_is c1 CR = true) by reflexivity. rewrite N1.
  rewrite (sr_peek c1 d (ji_data _ _ _ _ _ _ _ _ _ H1) (ji_len _ _ _ _ _ _ _ _ _ H1)), (ji_read _ _ _ _ _ _ _ _ _ H1).
  assert (Nn : nth_error d (S rd) = None) by (apply nth_error_None; lia). rewrite Nn.
  eexists. split; [reflexivity|]. apply pj_cin_next. rewrite <- Erd. exact H1.
Qed.
(* CR LF in the chunk, or the LF alone when the CR came with an earlier chunk: the line is complete *)
Lemma pj_line_loop_crlf c d rd p hdr prev rh t n u2 : pj_cin c d rd p hdr RES_LINE prev rh t -> skipn rd d = CR :: LF :: u2 ->
  exists c', rs_line_loop cb g (S (S n)) c = rs_line_complete cb g c' /\
             pj_cin c' d (S (S rd)) (p ++ [CR; LF]) hdr RES_LINE prev rh t /\ skipn (S (S rd)) d = u2.
Proof.
  intros H Hu. destruct (sg_skipn_cons d rd CR _ Hu) as (Hnth & Hu' & Hlt). destruct (sg_skipn_cons d (S rd) LF _ Hu') as (Hnth2 & Hu2 & Hlt2).
  pose proof H as [A1 A2 A3 A4 A5 A6 A7 A8 A9 A10 A11 A12 A13 A14 A15 A16 A17 A18 A19].
  rewrite (sr_line_loop_S cb g). unfold rs_closed. rewrite (sg_live_closed _ A1). cbn [negb].
  assert (Hn0 : nth_error d (k_read (c_out c)) = Some CR) by (rewrite A6; exact Hnth).
  rewrite (sr_copy_byte c d CR A4 A5 Hn0).
  set (c1 := rs_set_out (wr_kadv CR) c).
  assert (H1 : pj_cin c1 d (S rd) (p ++ [CR]) hdr RES_LINE prev rh t) by (apply pj_cin_adv; assumption).
  assert (N1 : rs_nb_is c1 CR = true) by reflexivity. rewrite N1.
  rewrite (sr_peek c1 d (ji_data _ _ _ _ _ _ _ _ _ H1) (ji_len _ _ _ _ _ _ _ _ _ H1)), (ji_read _ _ _ _ _ _ _ _ _ H1), Hnth2.
  set (c2 := rs_set_out (fun k => k <| k_next_byte := Some LF |>) c1).
  assert (H2 : pj_cin c2 d (S rd) (p ++ [CR]) hdr RES_LINE prev rh t) by (apply pj_cin_next; exact H1).
  change (rs_nb c2) with (Some LF). cbv beta iota. rewrite N.eqb_refl. cbv beta iota.
  rewrite (sr_line_loop_S cb g). unfold rs_closed.
  change (c_out_status c2) with (c_out_status c). rewrite (sg_live_closed _ A1). cbn [negb].
  assert (Hn2 : nth_error d (k_read (c_out c2)) = Some LF) by (rewrite (ji_read _ _ _ _ _ _ _ _ _ H2); exact Hnth2).
  rewrite (sr_copy_byte c2 d LF (ji_data _ _ _ _ _ _ _ _ _ H2) (ji_len _ _ _ _ _ _ _ _ _ H2) Hn2).
  set (c3 := rs_set_out (wr_kadv LF) c2).
  assert (N3 : rs_nb_is c3 CR = false) by reflexivity. rewrite N3.
  assert (N4 : rs_nb_is c3 LF = true) by reflexivity. rewrite N4. cbn [orb].
  exists c3. split; [reflexivity|]. split; [|exact Hu2].
  replace (p ++ [CR; LF]) with ((p ++ [CR]) ++ [LF]) by (rewrite <- app_assoc; reflexivity). apply pj_cin_adv; assumption.
Qed.
Lemma pj_line_loop_lf c d rd p hdr prev rh t n u2 : pj_cin c d rd p hdr RES_LINE prev rh t -> skipn rd d = LF :: u2 ->
  exists c', rs_line_loop cb g (S n) c = rs_line_complete cb g c' /\
             pj_cin c' d (S rd) (p ++ [LF]) hdr RES_LINE prev rh t /\ skipn (S rd) d = u2.
Proof.
  intros H Hu. destruct (sg_skipn_cons d rd LF _ Hu) as (Hnth & Hu' & Hlt).
  pose proof H as [A1 A2 A3 A4 A5 A6 A7 A8 A9 A10 A11 A12 A13 A14 A15 A16 A17 A18 A19].
  rewrite (sr_line_loop_S cb g). unfold rs_closed. rewrite (sg_live_closed _ A1). cbn [negb].
  assert (Hn0 : nth_error d (k_read (c_out c)) = Some LF) by (rewrite A6; exact Hnth).
  rewrite (sr_copy_byte c d LF A4 A5 Hn0).
  set (c1 := rs_set_out (wr_kadv LF) c).
  assert (N1 : rs_nb_is c1 CR = false) by reflexivity. rewrite N1.
  assert (N2 : rs_nb_is c1 LF = true) by reflexivity. rewrite N2. cbn [orb].
  exists c1. split; [reflexivity|]. split; [apply pj_cin_adv; assumption|exact Hu'].
Qed.

(* ---- the status line is complete: htp_connp_RES_LINE's tail on the assembled line ---- *)
Lemma pj_line_complete c d rd prev t ps s r : sr_status_ok ps s r = true ->
  pj_cin c d rd (wr_ser_status_line ps s r ++ [CR; LF]) None RES_LINE prev None t ->
  (length (wr_ser_status_line ps s r) + 2 <= g_field_limit_hard g)%nat ->
  exists c', rs_line_complete cb g c = (ST_OK, c') /\
             pj_cin c' d rd [] None RES_HEADERS prev None ((sr_tx_line t (wr_ser_status_line ps s r)) <| t_response_progress := c_HTP_RESPONSE_HEADERS |>).
Proof.
  intros W H Hlim. set (line := wr_ser_status_line ps s r) in *.
  destruct (sr_status_line_shape ps s r W) as (Pl & l & Esh). fold line in Pl, Esh.
  unfold rs_line_complete, sr_tx_line.
  destruct (pj_consolidate g c d rd _ None _ _ _ t H) as (c1 & E1 & H1); [rewrite app_length; cbn [length sg_olist]; lia|]. rewrite E1.
  cbn [rs_dbytes].
  assert (Ig : rs_is_line_ignorable (g_personality g) (line ++ [CR; LF]) = false).
  { unfold rs_is_line_ignorable. rewrite Esh. cbn [app]. destruct l as [|y l'].
    - reflexivity || (unfold rs_is_line_terminator, rs_is_line_whitespace; cbn [forallb app]; rewrite andb_false_r; reflexivity).
    - change (72%N :: 84%N :: 84%N :: 80%N :: (y :: l') ++ [CR; LF]) with (72%N :: 84%N :: ((84%N :: 80%N :: y :: l') ++ [CR; LF])).
      apply sr_line_not_terminator. reflexivity. }
  rewrite Ig.
  assert (Lp : wr_last_plain line) by (apply wr_plain_last; [rewrite Esh; discriminate|exact Pl]).
  pose proof (wr_rs_chomp_line line [CR; LF] eq_refl Lp) as Ech.
  destruct (rs_chomp (line ++ [CR; LF])) as [dc chr] eqn:Ec. cbn [fst] in Ech. subst dc.
  assert (Nb : rs_treat_response_line_as_body (Some line) = false) by (rewrite Esh; apply sr_line_not_body). rewrite Nb.
  rewrite (pj_otx c1 d rd _ _ _ _ _ t _ H1).
  set (tr := t <| t_response_line := None |> <| t_response_protocol := None |> <| t_response_status := None |> <| t_response_message := None |>).
  set (c2 := c1 <| c_txs := (pj_txs w tr) |>).
  assert (H2 : pj_cin c2 d rd (line ++ [CR; LF]) None RES_LINE prev None tr) by (eapply pj_cin_txs; exact H1).
  rewrite (pj_otx c2 d rd _ _ _ _ _ tr _ H2).
  set (tp := rs_apply_response_line (rs_parse_response_line line) (tr <| t_response_line := Some line |>)).
  clearbody tp. set (c3 := c2 <| c_txs := (pj_txs w tp) |>).
  assert (H3 : pj_cin c3 d rd (line ++ [CR; LF]) None RES_LINE prev None tp) by (eapply pj_cin_txs; exact H2).
  assert (O3 : out_txi c3 = pj_k w) by (unfold out_txi; rewrite (ji_tx _ _ _ _ _ _ _ _ _ H3); reflexivity). rewrite O3.
  unfold tx_state_response_line. rewrite (pj_tx_upd0 c3 d rd _ _ _ _ _ tp _ H3). rewrite (wr_run_hook cb Hcb).
  fold (sr_line_fix tp).
  set (c4 := c3 <| c_txs := (pj_txs w (sr_line_fix tp)) |>).
  assert (H4 : pj_cin c4 d rd (line ++ [CR; LF]) None RES_LINE prev None (sr_line_fix tp)) by (eapply pj_cin_txs; exact H3).
  set (c5 := rs_set_state RES_HEADERS (rs_clear_buffer (wr_hook_ev H_RESPONSE_LINE (pj_k w) None false c4))).
  assert (H5 : pj_cin c5 d rd [] None RES_HEADERS prev None (sr_line_fix tp)).
  { unfold c5. eapply pj_cin_state. eapply pj_cin_clear. apply pj_cin_hook. exact H4. }
  rewrite (pj_otx c5 d rd _ _ _ _ _ _ _ H5).
  eexists. split; [reflexivity|]. eapply pj_cin_txs. exact H5.
Qed.

(* ---- the state change into RES_HEADERS (the raw-header receiver is installed) ---- *)
Lemma pj_iter_to_headers c c1 d rd t :
  rs_state_fn cb g (c_out_state c) c = (ST_OK, c1) -> pj_cin c1 d rd [] None RES_HEADERS (Some RES_LINE) None t ->
  t_response_progress t = c_HTP_RESPONSE_HEADERS ->
  exists c', sr_iter cb g c = inr c' /\ pj_cin c' d rd [] None RES_HEADERS (Some RES_HEADERS) (Some H_RESPONSE_HEADER_DATA) t.
Proof.
  intros E H Hp. pose proof H as [A1 A2 A3 A4 A5 A6 A7 A8 A9 A10 A11 A12 A13 A14 A15 A16 A17 A18 A19].
  unfold sr_iter. rewrite E. rewrite (sg_live_tunnel _ A1).
  unfold rs_handle_state_change. rewrite A3, A2. cbn [res_state_eqb].
  rewrite (pj_rs_tx c1 d rd _ _ _ _ _ t H), Hp, A13.
  change ((c_HTP_RESPONSE_HEADERS =? c_HTP_RESPONSE_HEADERS)%Z) with true. cbv iota.
  unfold res_receiver_set, res_receiver_finalize_clear. rewrite A11.
  eexists. split; [reflexivity|].
  constructor; try assumption; try reflexivity; cbn; rewrite ?A2, ?A6; try reflexivity; try assumption; lia.
Qed.

(* ---- the pass through RES_LINE that sees the end of the status line ---- *)
Lemma pj_pass_line c d rd p q u2 t ps s r : sr_status_ok ps s r = true ->
  pj_cin c d rd p None RES_LINE (Some RES_LINE) None t -> skipn rd d = q ++ u2 -> q <> [] ->
  p ++ q = wr_ser_status_line ps s r ++ [CR; LF] ->
  (length (wr_ser_status_line ps s r) + 2 <= g_field_limit_hard g)%nat ->
  exists c', sr_iter cb g c = inr c' /\
    pj_cin c' d (rd + length q) [] None RES_HEADERS (Some RES_HEADERS) (Some H_RESPONSE_HEADER_DATA)
           ((sr_tx_line t (wr_ser_status_line ps s r)) <| t_response_progress := c_HTP_RESPONSE_HEADERS |>) /\
    skipn (rd + length q) d = u2.
Proof.
  intros W H Ed Hq Ep Hlim. set (line := wr_ser_status_line ps s r) in *.
  destruct (sr_status_line_shape ps s r W) as (Pl & _). fold line in Pl.
  assert (Es : c_out_state c = RES_LINE) by apply (ji_state _ _ _ _ _ _ _ _ _ H).
  pose proof (ji_rd _ _ _ _ _ _ _ _ _ H) as Hrd.
  assert (Lsk : length (skipn rd d) = (length d - rd)%nat) by apply skipn_length. rewrite Ed, app_length in Lsk.
  assert (Ef : rs_state_fn cb g (c_out_state c) c = rs_line_loop cb g (S (S (length d - rd))) c).
  { rewrite Es. cbn [rs_state_fn]. unfold rs_RES_LINE, rs_bytes_fuel. rewrite (ji_len _ _ _ _ _ _ _ _ _ H), (ji_read _ _ _ _ _ _ _ _ _ H). reflexivity. }
  (* q = q0 ++ [LF] with q0 = a plain part followed by CR, or empty *)
  assert (Eb : line ++ [CR; LF] = (line ++ [CR]) ++ [LF]) by (rewrite <- app_assoc; reflexivity).
  rewrite Eb in Ep. destruct (sg_app_last _ _ _ _ Ep Hq) as (q0 & Eq0 & Ep0).
  assert (Hcomp : exists c1, rs_line_loop cb g (S (S (length d - rd))) c = rs_line_complete cb g c1 /\
                    pj_cin c1 d (rd + length q) (line ++ [CR; LF]) None RES_LINE (Some RES_LINE) None t /\ skipn (rd + length q) d = u2).
  { destruct q0 as [|z q0'] using rev_ind.
    - (* the CR came with an earlier chunk *)
      rewrite app_nil_r in Ep0. cbn [app] in Eq0. subst q.
      destruct (pj_line_loop_lf c d rd p None _ None t (S (length d - rd)) u2 H) as (c1 & E1 & H1 & R1); [exact Ed|].
      exists c1. split; [exact E1|]. cbn [length]. rewrite Nat.add_1_r. rewrite Ep0, <- app_assoc in H1. split; assumption.
    - clear IHq0'. rewrite app_assoc in Ep0. apply app_inj_tail in Ep0. destruct Ep0 as [Ep1 Ez]. subst z.
      assert (Pq : sr_plain q0' = true) by (rewrite <- Ep1, sr_plain_app in Pl; apply andb_prop in Pl; apply Pl).
      assert (Ed' : skipn rd d = q0' ++ CR :: LF :: u2) by (rewrite Ed, Eq0, <- !app_assoc; reflexivity).
      assert (Lq : length q = (length q0' + 2)%nat) by (rewrite Eq0, !app_length; cbn [length]; lia).
      replace (S (S (length d - rd))) with (length q0' + S (S (length d - rd - length q0')))%nat by lia.
      destruct (pj_line_scan_plain d None _ None t q0' c rd p (S (S (length d - rd - length q0'))) _ H Ed' Pq) as (c1 & E1 & H1 & R1). rewrite E1.
      destruct (pj_line_loop_crlf c1 d _ _ None _ None t (length d - rd - length q0') u2 H1 R1) as (c2 & E2 & H2 & R2).
      exists c2. split; [exact E2|]. rewrite Lq. replace (rd + (length q0' + 2))%nat with (S (S (rd + length q0'))) by lia.
      split; [|exact R2]. rewrite <- Ep1, <- !app_assoc. rewrite <- app_assoc in H2. exact H2. }
  destruct Hcomp as (c1 & E1 & H1 & R1). rewrite E1 in Ef.
  destruct (pj_line_complete c1 d _ _ t ps s r W H1 Hlim) as (c2 & E2 & H2). rewrite E2 in Ef.
  destruct (pj_iter_to_headers c c2 d _ _ Ef H2 eq_refl) as (c3 & E3 & H3).
  exists c3. split; [exact E3|]. split; [exact H3|exact R1].
Qed.
End Line.
