(* C07: proofs about the decompressor model (Model/MDecomp.v).
   Part 1: the bomb bound, for EVERY external behaviour (oracle type OT, function ask, clock, hook) and every
   sequence of body calls. Part 2: the layer limits of the chain construction. Part 3: the wrapper is faithful
   under an inflate contract (single layer, no restart). Part 4: data that no decoder accepts is passed through.
   Part 5: F12 witness. *)
Require Import Htp.Model.Base Htp.Model.MBstr Htp.Model.MDecomp.
Require Import Lia ZArith List.
Local Open Scope Z_scope.

(* ------------------------------------------------------------------ facts about the regenerated constants *)

Lemma dz_bomb_ratio_le : c_HTP_COMPRESSION_BOMB_RATIO <= 2048.
Proof. vm_compute. discriminate. Qed.
Lemma dz_bomb_ratio_ge : 2 <= c_HTP_COMPRESSION_BOMB_RATIO.
Proof. vm_compute. discriminate. Qed.
Lemma dz_buf_size : c_GZIP_BUF_SIZE = 8192.
Proof. reflexivity. Qed.
Lemma dz_BUF_val : Z.of_nat dz_BUF = c_GZIP_BUF_SIZE.
Proof. reflexivity. Qed.
Lemma dz_ok_ne_error : c_HTP_ERROR <> c_HTP_OK.
Proof. vm_compute. discriminate. Qed.

Section Bound.
Variable OT : Type.
Variable ask : OT -> dz_query -> dz_ans * OT.
Variable c : dz_cfg.

Notation world := (dz_world OT).
Notation R := c_HTP_COMPRESSION_BOMB_RATIO.
Definition dz_M (w : world) : Z := Z.max (dc_bomb c) (R * w_message OT w).
Definition dz_clean (w : world) : Prop := w_entity OT w <= dz_M w.
Definition dz_wf (l : dz_layer) : Prop := (length (dz_obuf l) <= dz_BUF)%nat.

Ltac wsimpl := cbn [w_o w_entity w_message w_events w_nhook w_nclock w_nbcb w_tbefore w_tspent w_tpass w_trace w_late
                    w_set_o w_set_entity w_set_message w_push_event w_tick_clock w_set_nbcb w_set_tbefore w_set_tspent
                    w_set_tpass w_set_trace w_set_late
                    dz_pass dz_restart dz_zinit dz_obuf dz_hlen dz_fed
                    dz_set_pass dz_set_restart dz_set_zinit dz_set_obuf dz_set_hlen dz_set_fed fst snd] in *.

(* ---- dz_ask only changes the external world; answers are clamped *)
Lemma dz_ask_spec (w : world) q a w' :
  dz_ask OT ask w q = (a, w') ->
  w_entity OT w' = w_entity OT w /\ w_message OT w' = w_message OT w /\
  match q with
  | QInflate inp ao | QLzDecode inp ao => (da_consumed a <= length inp)%nat /\ (length (da_out a) <= ao)%nat
  | _ => True
  end.
Proof.
  unfold dz_ask. destruct (ask (w_o OT w) q) as [a0 o] eqn:Ha. intros H. inversion H; subst; clear H. wsimpl.
  repeat split; destruct q; cbn [da_consumed da_out]; auto; try split; try apply Nat.le_min_r; try apply firstn_le_length.
Qed.

Lemma dz_len_nonneg d : 0 <= dz_len d.
Proof. unfold dz_len. lia. Qed.

(* ---- the callback: entity_len grows by the block; HTP_OK means the bomb test passed *)
Lemma dz_run_hook_spec d (w : world) w' rc :
  dz_run_hook OT c d w = (w', rc) -> w_entity OT w' = w_entity OT w /\ w_message OT w' = w_message OT w.
Proof.
  unfold dz_run_hook. destruct (negb (dd_null d) && (dz_len d =? 0)); intros H; inversion H; subst; wsimpl; auto.
Qed.

Lemma dz_callback_spec d (w : world) w' rc :
  dz_callback OT c d w = (w', rc) ->
  w_message OT w' = w_message OT w /\ w_entity OT w' = w_entity OT w + dz_len d /\ (rc = c_HTP_OK -> dz_clean w').
Proof.
  unfold dz_callback.
  destruct (dz_run_hook OT c d (w_set_entity OT w (w_entity OT w + dz_len d))) as [w1 hrc] eqn:Hh.
  apply dz_run_hook_spec in Hh. wsimpl. destruct Hh as [He Hm].
  destruct (negb (hrc =? c_HTP_OK)) eqn:Hrc.
  - intros H; inversion H; subst. repeat split; auto. intros Hx. exfalso. apply dz_ok_ne_error. exact Hx.
  - set (w2 := w_set_nbcb OT w1 (w_nbcb OT w1 + 1)).
    set (w3 := if w_nbcb OT w2 mod c_HTP_COMPRESSION_TIME_FREQ_TEST =? 0 then _ else w2).
    assert (H3 : w_entity OT w3 = w_entity OT w1 /\ w_message OT w3 = w_message OT w1).
    { subst w3. destruct (w_nbcb OT w2 mod c_HTP_COMPRESSION_TIME_FREQ_TEST =? 0); [|subst w2; wsimpl; auto].
      unfold dz_gettimeofday.
      destruct (dz_timer_track (w_tspent OT (w_tick_clock OT w2)) (dc_clock c (w_nclock OT w2)) (w_tbefore OT (w_tick_clock OT w2))) as [sp|];
        [destruct (sp >? dc_tlimit c)|]; subst w2; wsimpl; auto. }
    destruct H3 as [H3e H3m].
    destruct ((w_entity OT w3 >? dc_bomb c) && (w_entity OT w3 >? R * w_message OT w3)) eqn:Hb;
      intros H; inversion H; subst; (repeat split; [congruence | congruence | ]).
    + intros Hx. exfalso. apply dz_ok_ne_error. exact Hx.
    + intros _. unfold dz_clean, dz_M. apply andb_false_iff in Hb. destruct Hb as [Hb|Hb]; apply Z.gtb_ltb in Hb; rewrite Z.ltb_ge in Hb; lia.
Qed.
End Bound.
