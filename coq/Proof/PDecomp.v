(* C07: proofs about the decompressor model (Model/MDecomp.v).
   Part 1: the bomb bound, for EVERY external behaviour (oracle type OT, function ask, clock, hook) and every
   sequence of body calls. Part 2: the layer limits of the chain construction. Part 3: the wrapper is faithful
   under an inflate contract (single layer, no restart). Part 4: data that no decoder accepts is passed through.
   Part 5: F12 witness. *)
Require Import Htp.Model.Base Htp.Model.MBstr Htp.Model.MDecomp.
Require Import Lia ZArith List.
Local Open Scope Z_scope.

(* ------------------------------------------------------------------ facts about the regenerated constants *)

Lemma dz_bomb_ratio_le : c_HTP_COMPRESSION_BOMB_RATIO <= 2048.
Proof. vm_compute. discriminate. Qed.
Lemma dz_bomb_ratio_ge : 2 <= c_HTP_COMPRESSION_BOMB_RATIO.
Proof. vm_compute. discriminate. Qed.
Lemma dz_buf_size : c_GZIP_BUF_SIZE = 8192.
Proof. reflexivity. Qed.
Lemma dz_BUF_val : Z.of_nat dz_BUF = c_GZIP_BUF_SIZE.
Proof. reflexivity. Qed.
Lemma dz_ok_ne_error : c_HTP_ERROR <> c_HTP_OK.
Proof. vm_compute. discriminate. Qed.

Global Opaque dz_BUF.

Section Bound.
Variable OT : Type.
Variable ask : OT -> dz_query -> dz_ans * OT.
Variable c : dz_cfg.

Notation world := (dz_world OT).
Notation R := c_HTP_COMPRESSION_BOMB_RATIO.
Definition dz_M (w : world) : Z := Z.max (dc_bomb c) (R * w_message OT w).
Definition dz_clean (w : world) : Prop := w_entity OT w <= dz_M w.
Definition dz_wf (l : dz_layer) : Prop := (length (dz_obuf l) <= dz_BUF)%nat.

Ltac wsimpl := cbn [w_o w_entity w_message w_events w_nhook w_nclock w_nbcb w_tbefore w_tspent w_tpass w_trace w_late
                    w_set_o w_set_entity w_set_message w_push_event w_tick_clock w_set_nbcb w_set_tbefore w_set_tspent
                    w_set_tpass w_set_trace w_set_late
                    dz_pass dz_restart dz_zinit dz_obuf dz_hlen dz_fed
                    dz_set_pass dz_set_restart dz_set_zinit dz_set_obuf dz_set_hlen dz_set_fed fst snd] in *.

(* ---- dz_ask only changes the external world; answers are clamped *)
Lemma dz_ask_spec (w : world) q a w' :
  dz_ask OT ask w q = (a, w') ->
  w_entity OT w' = w_entity OT w /\ w_message OT w' = w_message OT w /\
  match q with
  | QInflate inp ao | QLzDecode inp ao => (da_consumed a <= length inp)%nat /\ (length (da_out a) <= ao)%nat
  | _ => True
  end.
Proof.
  unfold dz_ask. destruct (ask (w_o OT w) q) as [a0 o] eqn:Ha. intros H. inversion H; subst; clear H. wsimpl.
  repeat split; destruct q; cbn [da_consumed da_out]; auto; try split; try apply Nat.le_min_r; try apply firstn_le_length.
Qed.

Lemma dz_len_nonneg d : 0 <= dz_len d.
Proof. unfold dz_len. lia. Qed.

(* ---- the callback: entity_len grows by the block; HTP_OK means the bomb test passed *)
Lemma dz_run_hook_spec d (w : world) w' rc :
  dz_run_hook OT c d w = (w', rc) -> w_entity OT w' = w_entity OT w /\ w_message OT w' = w_message OT w.
Proof.
  unfold dz_run_hook. destruct (negb (dd_null d) && (dz_len d =? 0)); intros H; inversion H; subst; wsimpl; auto.
Qed.

Lemma dz_cb_clock_spec (w : world) :
  w_entity OT (dz_cb_clock OT c w) = w_entity OT w /\ w_message OT (dz_cb_clock OT c w) = w_message OT w.
Proof.
  unfold dz_cb_clock, dz_gettimeofday.
  destruct (w_nbcb OT w mod c_HTP_COMPRESSION_TIME_FREQ_TEST =? 0); auto.
  destruct (dz_timer_track (w_tspent OT (w_tick_clock OT w)) (dc_clock c (w_nclock OT w)) (w_tbefore OT (w_tick_clock OT w))) as [sp|];
    [destruct (sp >? dc_tlimit c)|]; wsimpl; auto.
Qed.

Lemma dz_callback_spec d (w : world) w' rc :
  dz_callback OT c d w = (w', rc) ->
  w_message OT w' = w_message OT w /\ w_entity OT w' = w_entity OT w + dz_len d /\ (rc = c_HTP_OK -> dz_clean w').
Proof.
  unfold dz_callback.
  destruct (dz_run_hook OT c d (w_set_entity OT w (w_entity OT w + dz_len d))) as [w1 hrc] eqn:Hh.
  apply dz_run_hook_spec in Hh. wsimpl. destruct Hh as [He Hm].
  destruct (negb (hrc =? c_HTP_OK)) eqn:Hrc.
  - intros H; inversion H; subst. repeat split; auto. intros Hx. exfalso. apply dz_ok_ne_error. exact Hx.
  - destruct (dz_cb_clock_spec (w_set_nbcb OT w1 (w_nbcb OT w1 + 1))) as [H3e H3m]. wsimpl.
    set (w3 := dz_cb_clock OT c (w_set_nbcb OT w1 (w_nbcb OT w1 + 1))) in *.
    destruct ((w_entity OT w3 >? dc_bomb c) && (w_entity OT w3 >? R * w_message OT w3)) eqn:Hb;
      intros H; inversion H; subst; (repeat split; [congruence | congruence | ]).
    + intros Hx. exfalso. apply dz_ok_ne_error. exact Hx.
    + intros _. unfold dz_clean, dz_M. apply andb_false_iff in Hb. destruct Hb as [Hb|Hb]; rewrite Z.gtb_ltb, Z.ltb_ge in Hb; lia.
Qed.

Lemma dz_M_eq (w w' : world) : w_message OT w' = w_message OT w -> dz_M w' = dz_M w.
Proof. unfold dz_M. intros ->. reflexivity. Qed.

Lemma dz_end_spec l (w : world) l' w' :
  dz_end OT ask l w = (l', w') ->
  w_entity OT w' = w_entity OT w /\ w_message OT w' = w_message OT w /\ dz_obuf l' = dz_obuf l /\ dz_pass l' = dz_pass l /\ dz_zinit l' = 0.
Proof.
  unfold dz_end. destruct (dz_zinit l =? c_dz_COMPRESSION_LZMA).
  - destruct (dz_ask OT ask w QLzFree) as [a w1] eqn:Ha. apply dz_ask_spec in Ha. intros H; inversion H; subst; wsimpl. intuition.
  - destruct (negb (dz_zinit l =? 0)) eqn:Hz.
    + destruct (dz_ask OT ask w QEnd) as [a w1] eqn:Ha. apply dz_ask_spec in Ha. intros H; inversion H; subst; wsimpl. intuition.
    + intros H; inversion H; subst. apply negb_false_iff, Z.eqb_eq in Hz. intuition.
Qed.

Lemma dz_restart_dec_spec l data (w : world) l' w' oc :
  dz_restart_dec OT ask l data w = (l', w', oc) ->
  w_entity OT w' = w_entity OT w /\ w_message OT w' = w_message OT w /\ dz_obuf l' = dz_obuf l /\ dz_pass l' = dz_pass l.
Proof.
  unfold dz_restart_dec.
  destruct (dz_restart l <? 3)%nat; [|intros H; inversion H; subst; auto].
  destruct (dz_restart l =? 0)%nat.
  { destruct (dz_ask OT ask w _) as [a w1] eqn:Ha. apply dz_ask_spec in Ha.
    destruct (negb (da_rc a =? c_dz_Z_OK)); intros H; inversion H; subst; wsimpl; intuition. }
  destruct (dz_zinit l =? c_dz_COMPRESSION_DEFLATE).
  { destruct (dz_ask OT ask w _) as [a w1] eqn:Ha. apply dz_ask_spec in Ha.
    destruct (negb (da_rc a =? c_dz_Z_OK)); intros H; inversion H; subst; wsimpl; intuition. }
  destruct (dz_zinit l =? c_dz_COMPRESSION_GZIP).
  { destruct (dz_ask OT ask w _) as [a w1] eqn:Ha. apply dz_ask_spec in Ha.
    destruct (negb (da_rc a =? c_dz_Z_OK)); intros H; inversion H; subst; wsimpl; intuition. }
  intros H; inversion H; subst; auto.
Qed.

Lemma dz_wf_app l out : dz_wf l -> (length out <= dz_avail_out l)%nat -> dz_wf (dz_set_obuf l (dz_obuf l ++ out)).
Proof. unfold dz_wf, dz_avail_out. wsimpl. rewrite app_length. lia. Qed.

Lemma dz_wf_app2 l0 ob out : (length ob <= dz_BUF)%nat -> (length out <= dz_BUF - length ob)%nat -> dz_wf (dz_set_obuf l0 (ob ++ out)).
Proof. unfold dz_wf. wsimpl. rewrite app_length. lia. Qed.

(* the external decoding step delivers nothing *)
Lemma dz_decode_spec d l (w : world) input rc :
  dz_wf l ->
  match dz_decode OT ask d l w input rc with
  | inl (l', w', _, _) => w_entity OT w' = w_entity OT w /\ w_message OT w' = w_message OT w /\ dz_wf l' /\ dz_pass l' = dz_pass l
  | inr (l', w', _) => w_entity OT w' = w_entity OT w /\ w_message OT w' = w_message OT w /\ dz_wf l' /\ dz_pass l' = dz_pass l
  end.
Proof.
  intros Hwf. unfold dz_decode.
  destruct (dz_zinit l =? c_dz_COMPRESSION_LZMA).
  - destruct (dz_lz_header d l input) as [l1 input1] eqn:Hh.
    assert (Hp : dz_wf l1 /\ dz_pass l1 = dz_pass l).
    { unfold dz_lz_header in Hh. destruct (dz_hlen l <? c_dz_LZMA_HEADER_SIZE); inversion Hh; subst; auto. }
    destruct Hp as [Hwf1 Hp1].
    destruct (dz_hlen l1 =? c_dz_LZMA_HEADER_SIZE).
    + destruct (dz_ask OT ask w QLzAlloc) as [a w1] eqn:Ha. apply dz_ask_spec in Ha.
      destruct (negb (da_rc a =? c_dz_SZ_OK)); [intuition|].
      wsimpl.
      destruct (dz_hlen l1 + 1 >? c_dz_LZMA_HEADER_SIZE).
      * destruct (dz_ask OT ask w1 (QLzDecode input1 (dz_avail_out (dz_set_hlen l1 (dz_hlen l1 + 1))))) as [a2 w2] eqn:Ha2.
        apply dz_ask_spec in Ha2. destruct Ha as (?&?&_). destruct Ha2 as (?&?&?&?).
        wsimpl; repeat split; try congruence; try (apply dz_wf_app2; [first [exact Hwf1|exact Hwf] | assumption]).
      * intuition.
    + destruct (dz_hlen l1 >? c_dz_LZMA_HEADER_SIZE).
      * destruct (dz_ask OT ask w (QLzDecode input1 (dz_avail_out l1))) as [a2 w2] eqn:Ha2.
        apply dz_ask_spec in Ha2. destruct Ha2 as (?&?&?&?).
        wsimpl; repeat split; try congruence; try (apply dz_wf_app2; [first [exact Hwf1|exact Hwf] | assumption]).
      * intuition.
  - destruct (negb (dz_zinit l =? 0)).
    + destruct (dz_ask OT ask w (QInflate input (dz_avail_out l))) as [a2 w2] eqn:Ha2.
      apply dz_ask_spec in Ha2. destruct Ha2 as (?&?&?&?).
      wsimpl; repeat split; try congruence; try (apply dz_wf_app2; [first [exact Hwf1|exact Hwf] | assumption]).
    + intuition.
Qed.

(* ---- what a decompress-like function on the rest of the chain guarantees when called from a clean state with a block that
   fits the buffer: message_len untouched, at most one refused block on top of the bound, HTP_OK only from a clean state *)
Definition dz_next_ok (f : dz_next_t OT) : Prop :=
  forall ls d (w : world) ls' w' rc, f ls d w = (ls', w', rc) ->
    Forall dz_wf ls -> (length (dd_bytes d) <= dz_BUF)%nat -> dz_clean w ->
    w_message OT w' = w_message OT w /\ Forall dz_wf ls' /\ w_entity OT w <= w_entity OT w' /\
    w_entity OT w' <= dz_M w + Z.of_nat dz_BUF /\ (rc = c_HTP_OK -> dz_clean w').

Section OneLayer.
Variable next : dz_next_t OT.
Hypothesis Hnext : dz_next_ok next.

Lemma dz_callback_clean d (w : world) w' rc :
  dz_callback OT c d w = (w', rc) -> dz_clean w ->
  w_message OT w' = w_message OT w /\ w_entity OT w <= w_entity OT w' /\
  w_entity OT w' <= dz_M w + dz_len d /\ (rc = c_HTP_OK -> dz_clean w').
Proof.
  intros H Hc. apply dz_callback_spec in H. destruct H as (Hm & He & Hok). unfold dz_clean in Hc.
  pose proof (dz_len_nonneg d). repeat split; auto; lia.
Qed.

Lemma dz_deliver_spec l rest dd (w : world) rest' w' crc :
  dz_deliver OT c next l rest dd w = (rest', w', crc) ->
  Forall dz_wf rest -> (length (dd_bytes dd) <= dz_BUF)%nat -> dz_clean w ->
  w_message OT w' = w_message OT w /\ Forall dz_wf rest' /\ w_entity OT w <= w_entity OT w' /\
  w_entity OT w' <= dz_M w + Z.of_nat dz_BUF /\ (crc = c_HTP_OK -> dz_clean w').
Proof.
  unfold dz_deliver. intros H Hr Hd Hc.
  assert (Hcb : forall rest0, (let '(w0, rc) := dz_callback OT c dd w in (rest0, w0, rc)) = (rest', w', crc) -> Forall dz_wf rest0 ->
     w_message OT w' = w_message OT w /\ Forall dz_wf rest' /\ w_entity OT w <= w_entity OT w' /\
     w_entity OT w' <= dz_M w + Z.of_nat dz_BUF /\ (crc = c_HTP_OK -> dz_clean w')).
  { intros rest0. destruct (dz_callback OT c dd w) as [w0 rc0] eqn:Hcb. intros Hx Hr0. inversion Hx; subst.
    apply dz_callback_clean in Hcb; auto. unfold dz_len in Hcb. destruct Hcb as (?&?&?&?). repeat split; auto; lia. }
  destruct rest as [|l2 r2].
  - apply Hcb in H; auto.
  - destruct (negb (dz_zinit l =? 0)).
    + eapply Hnext in H; eauto.
    + apply Hcb in H; auto.
Qed.

(* state of the loop: everything delivered so far was accepted *)
Definition dz_good (w0 : world) l (rest : list dz_layer) (w : world) : Prop :=
  dz_wf l /\ Forall dz_wf rest /\ dz_clean w /\ w_message OT w = w_message OT w0 /\ w_entity OT w0 <= w_entity OT w /\ dz_pass l = false.
(* state at a return of the layer: at most one refused block B, and a refusal leaves this layer shut down *)
Definition dz_fin (B : Z) (w0 : world) l (rest : list dz_layer) (w : world) (r : Z) : Prop :=
  dz_wf l /\ Forall dz_wf rest /\ w_message OT w = w_message OT w0 /\ w_entity OT w0 <= w_entity OT w /\
  w_entity OT w <= dz_M w0 + B /\ (r = c_HTP_OK -> dz_clean w) /\ (dz_clean w \/ (dz_zinit l = 0 /\ dz_pass l = false)).

Lemma dz_good_fin B w0 l rest w r : 0 <= B -> dz_good w0 l rest w -> dz_fin B w0 l rest w r.
Proof.
  intros HB (Hwf & Hr & Hc & Hm & He & Hp). unfold dz_fin. repeat split; auto.
  unfold dz_clean in Hc. rewrite (dz_M_eq _ _ Hm) in Hc. lia.
Qed.

Lemma dz_clean_transfer (w w' : world) :
  dz_clean w -> w_entity OT w' = w_entity OT w -> w_message OT w' = w_message OT w -> dz_clean w'.
Proof. unfold dz_clean. intros Hc He Hm. rewrite (dz_M_eq w w' Hm). lia. Qed.

Lemma dz_good_transfer w0 l rest (w : world) l' (w' : world) :
  dz_good w0 l rest w -> w_entity OT w' = w_entity OT w -> w_message OT w' = w_message OT w ->
  dz_obuf l' = dz_obuf l -> dz_pass l' = dz_pass l -> dz_good w0 l' rest w'.
Proof.
  intros (Hwf & Hr & Hc & Hm & He & Hp) He' Hm' Ho' Hp'. unfold dz_good, dz_wf in *.
  repeat split; auto; try congruence; try lia. eapply dz_clean_transfer; eauto.
Qed.

Lemma dz_wf_reset l : dz_wf (dz_set_obuf l []).
Proof. unfold dz_wf. wsimpl. cbn. lia. Qed.

Lemma dz_flush_full_spec B w0 l rest w :
  Z.of_nat dz_BUF <= B -> dz_good w0 l rest w ->
  match dz_flush_full OT ask c next l rest w with
  | inl (l', rest', w') => dz_good w0 l' rest' w'
  | inr (l', rest', w', r) => dz_fin B w0 l' rest' w' r
  end.
Proof.
  intros HB Hg. pose proof Hg as (Hwf & Hr & Hc & Hm & He & Hp). unfold dz_flush_full.
  destruct (dz_avail_out l =? 0)%nat; [|exact Hg].
  destruct (dz_deliver OT c next l rest (dz_some (dz_obuf l)) w) as [[rest1 w1] crc] eqn:Hd.
  apply dz_deliver_spec in Hd; auto. destruct Hd as (Hm1 & Hr1 & He1 & Hb1 & Hok1).
  destruct (negb (crc =? c_HTP_OK)) eqn:Hcrc.
  - destruct (dz_end OT ask l w1) as [l2 w2] eqn:Hend. apply dz_end_spec in Hend. destruct Hend as (He2 & Hm2 & Ho2 & Hp2 & Hz2).
    unfold dz_fin. wsimpl. repeat split; auto using dz_wf_reset; try congruence; try lia.
    all: try (rewrite (dz_M_eq _ _ Hm) in Hb1; lia).
    all: try (intros Hx; subst crc; rewrite Z.eqb_refl in Hcrc; discriminate).
    all: try (right; split; congruence).
  - apply negb_false_iff, Z.eqb_eq in Hcrc. unfold dz_good. wsimpl. repeat split; auto using dz_wf_reset; try congruence; try lia.
Qed.

Lemma dz_fail_end_spec l (w : world) l' w' :
  dz_fail_end OT ask l w = (l', w') ->
  w_entity OT w' = w_entity OT w /\ w_message OT w' = w_message OT w /\ dz_obuf l' = dz_obuf l /\ dz_pass l' = dz_pass l.
Proof.
  unfold dz_fail_end. destruct (dz_zinit l =? c_dz_COMPRESSION_LZMA).
  - destruct (dz_ask OT ask w QLzFree) as [a w1] eqn:Ha. apply dz_ask_spec in Ha. intros H; inversion H; subst; wsimpl. intuition.
  - destruct (dz_ask OT ask w QEnd) as [a w1] eqn:Ha. apply dz_ask_spec in Ha. intros H; inversion H; subst; wsimpl. intuition.
Qed.

Lemma dz_after_spec B w0 d l rest w input rc :
  Z.of_nat dz_BUF <= B -> dz_len d <= B -> dz_good w0 l rest w ->
  match dz_after OT ask c next d l rest w input rc with
  | DzRet _ l' rest' w' r => dz_fin B w0 l' rest' w' r
  | DzCont _ l' rest' w' _ _ => dz_good w0 l' rest' w'
  | DzRestart _ l' rest' w' _ _ => dz_good w0 l' rest' w'
  end.
Proof.
  intros HB HdB Hg. pose proof Hg as (Hwf & Hr & Hc & Hm & He & Hp). unfold dz_after.
  set (rc' := if (dz_avail_out l <? dz_BUF)%nat && (rc =? c_dz_Z_DATA_ERROR) then c_dz_Z_STREAM_END else rc).
  destruct (rc' =? c_dz_Z_STREAM_END).
  { destruct (dz_deliver OT c next l rest (dz_some (dz_obuf l)) w) as [[rest1 w1] crc] eqn:Hd.
    apply dz_deliver_spec in Hd; auto. destruct Hd as (Hm1 & Hr1 & He1 & Hb1 & Hok1).
    rewrite (dz_M_eq _ _ Hm) in Hb1.
    destruct (negb (crc =? c_HTP_OK)) eqn:Hcrc.
    - destruct (dz_end OT ask l w1) as [l2 w2] eqn:Hend. apply dz_end_spec in Hend. destruct Hend as (He2 & Hm2 & Ho2 & Hp2 & Hz2).
      unfold dz_fin. wsimpl. repeat split; auto using dz_wf_reset; try congruence; try lia.
      all: try (intros Hx; subst crc; rewrite Z.eqb_refl in Hcrc; discriminate).
      all: try (right; split; congruence).
    - apply negb_false_iff, Z.eqb_eq in Hcrc. unfold dz_fin. wsimpl. repeat split; auto using dz_wf_reset; try congruence; try lia. }
  destruct (negb (rc' =? c_dz_Z_OK)); [|exact Hg].
  destruct (dz_fail_end OT ask l w) as [l1 w1] eqn:Hfe. apply dz_fail_end_spec in Hfe. destruct Hfe as (He1 & Hm1 & Ho1 & Hp1).
  set (w1' := if dz_fed l1 then w_set_late OT w1 true else w1).
  assert (Hw1' : w_entity OT w1' = w_entity OT w1 /\ w_message OT w1' = w_message OT w1).
  { subst w1'. destruct (dz_fed l1); wsimpl; auto. }
  destruct Hw1' as [He1' Hm1'].
  destruct (dz_restart_dec OT ask l1 (dd_bytes d) w1') as [[l2 w2] [cn|]] eqn:Hrs;
    apply dz_restart_dec_spec in Hrs; destruct Hrs as (He2 & Hm2 & Ho2 & Hp2).
  - eapply dz_good_transfer; [exact Hg| | | |]; wsimpl; congruence.
  - assert (Hc2 : dz_clean w2). { eapply dz_clean_transfer; [exact Hc| |]; congruence. }
    destruct (dz_callback OT c d w2) as [w3 crc] eqn:Hcb. apply dz_callback_clean in Hcb; auto.
    destruct Hcb as (Hm3 & He3 & Hb3 & Hok3). rewrite (dz_M_eq w0 w2) in Hb3 by congruence.
    destruct (negb (crc =? c_HTP_OK)) eqn:Hcrc.
    + unfold dz_fin, dz_wf in *. wsimpl. repeat split; auto; try congruence; try lia.
      all: try (intros Hx; exfalso; apply dz_ok_ne_error; exact Hx).
      all: try (right; split; congruence).
    + apply negb_false_iff, Z.eqb_eq in Hcrc. unfold dz_fin. wsimpl. repeat split; auto using dz_wf_reset; try congruence; try lia.
      unfold dz_wf. wsimpl. cbn. lia.
Qed.

Lemma dz_iter_spec B w0 d l rest w input rc :
  Z.of_nat dz_BUF <= B -> dz_len d <= B -> dz_good w0 l rest w ->
  match dz_iter OT ask c next d l rest w input rc with
  | DzRet _ l' rest' w' r => dz_fin B w0 l' rest' w' r
  | DzCont _ l' rest' w' _ _ => dz_good w0 l' rest' w'
  | DzRestart _ l' rest' w' _ _ => dz_good w0 l' rest' w'
  end.
Proof.
  intros HB HdB Hg. unfold dz_iter.
  pose proof (dz_flush_full_spec B w0 l rest w HB Hg) as Hf.
  destruct (dz_flush_full OT ask c next l rest w) as [[[l1 rest1] w1]|[[[l1 rest1] w1] r1]]; [|exact Hf].
  destruct Hf as (Hwf & Hr & Hc & Hm & He & Hp).
  pose proof (dz_decode_spec d l1 w1 input rc Hwf) as Hd.
  destruct (dz_decode OT ask d l1 w1 input rc) as [[[[l2 w2] input2] rc2]|[[l2 w2] r2]]; destruct Hd as (He2 & Hm2 & Hwf2 & Hp2).
  - apply dz_after_spec; auto. unfold dz_good. repeat split; auto; try congruence; try lia. eapply dz_clean_transfer; eauto.
  - apply dz_good_fin; [pose proof dz_BUF_val; lia|]. unfold dz_good. repeat split; auto; try congruence; try lia. eapply dz_clean_transfer; eauto.
Qed.

Lemma dz_loop_spec B w0 d fuel : forall l rest w input rc,
  Z.of_nat dz_BUF <= B -> dz_len d <= B -> dz_good w0 l rest w ->
  let '(l', rest', w', r) := dz_loop OT ask c next fuel d l rest w input rc in dz_fin B w0 l' rest' w' r.
Proof.
  induction fuel as [|f IH]; intros l rest w input rc HB HdB Hg; cbn [dz_loop].
  - apply dz_good_fin; auto. pose proof dz_BUF_val; lia.
  - destruct input as [|b input']; [apply dz_good_fin; auto; pose proof dz_BUF_val; lia|].
    pose proof (dz_iter_spec B w0 d l rest w (b :: input') rc HB HdB Hg) as Hi.
    destruct (dz_iter OT ask c next d l rest w (b :: input') rc) as [l1 rest1 w1 r1|l1 rest1 w1 in1 rc1|l1 rest1 w1 cn rc1].
    + exact Hi.
    + apply IH; auto.
    + destruct (dz_enter d cn) as [in1|]; [apply IH; auto|apply dz_good_fin; auto; pose proof dz_BUF_val; lia].
Qed.

Definition dz_head_dead (ls : list dz_layer) : Prop :=
  match ls with l :: _ => dz_zinit l = 0 /\ dz_pass l = false | [] => False end.

Definition dz_post (B : Z) (l : dz_layer) (d : dz_data) (w : world) (ls' : list dz_layer) (w' : world) (r : Z) : Prop :=
  w_message OT w' = w_message OT w /\ Forall dz_wf ls' /\ w_entity OT w <= w_entity OT w' /\
  w_entity OT w' <= dz_M w + B /\ (r = c_HTP_OK -> dz_clean w') /\
  (dz_pass l = false -> dd_null d = false -> dz_clean w' \/ dz_head_dead ls').

Lemma dz_layer_run_spec B l rest d (w : world) ls' w' r :
  dz_layer_run OT ask c next l rest d w = (ls', w', r) ->
  Z.of_nat dz_BUF <= B -> dz_len d <= B -> dz_wf l -> Forall dz_wf rest -> dz_clean w ->
  dz_post B l d w ls' w' r.
Proof.
  intros H HB HdB Hwf Hr Hc. unfold dz_layer_run in H. pose proof dz_BUF_val as HBV. unfold dz_post.
  destruct (dz_pass l) eqn:Hp.
  { destruct (dz_callback OT c d w) as [w1 crc] eqn:Hcb. inversion H; subst; clear H.
    apply dz_callback_clean in Hcb; auto. destruct Hcb as (Hm1 & He1 & Hb1 & Hok1).
    split; [exact Hm1|]. split; [constructor; auto|]. split; [exact He1|]. split; [lia|]. split.
    - destruct (negb (crc =? c_HTP_OK)) eqn:Hcrc; intros Hx.
      + exfalso. apply dz_ok_ne_error. exact Hx.
      + apply negb_false_iff, Z.eqb_eq in Hcrc. auto.
    - intros Hf. discriminate Hf. }
  destruct (dd_null d) eqn:Hn.
  { set (dout := match dz_obuf l with [] => dz_null | _ :: _ => dz_some (dz_obuf l) end) in H.
    assert (Hdout : (length (dd_bytes dout) <= dz_BUF)%nat).
    { subst dout. unfold dz_wf in Hwf. destruct (dz_obuf l); cbn [dd_bytes dz_null dz_some length] in *; lia. }
    assert (Hcbk : forall ls0, (let '(w0, crc) := dz_callback OT c dout w in
                     if negb (crc =? c_HTP_OK) then let '(l0, w1) := dz_end OT ask l w0 in (l0 :: ls0, w1, crc) else (l :: ls0, w0, c_HTP_OK)) = (ls', w', r) ->
                   Forall dz_wf ls0 ->
                   w_message OT w' = w_message OT w /\ Forall dz_wf ls' /\ w_entity OT w <= w_entity OT w' /\
                   w_entity OT w' <= dz_M w + B /\ (r = c_HTP_OK -> dz_clean w')).
    { intros ls0 Hx Hls0. destruct (dz_callback OT c dout w) as [w1 crc] eqn:Hcb.
      apply dz_callback_clean in Hcb; auto. destruct Hcb as (Hm1 & He1 & Hb1 & Hok1). unfold dz_len in Hb1.
      destruct (negb (crc =? c_HTP_OK)) eqn:Hcrc.
      - destruct (dz_end OT ask l w1) as [l2 w2] eqn:Hend. apply dz_end_spec in Hend. destruct Hend as (He2 & Hm2 & Ho2 & Hp2 & Hz2).
        inversion Hx; subst; clear Hx. repeat split; try congruence; try lia.
        all: try (constructor; auto; unfold dz_wf in *; congruence).
        all: try (intros Hx; subst r; rewrite Z.eqb_refl in Hcrc; discriminate).
      - apply negb_false_iff, Z.eqb_eq in Hcrc. inversion Hx; subst; clear Hx. repeat split; auto; try lia. }
    destruct rest as [|l2 r2].
    - apply Hcbk in H; auto. intuition discriminate.
    - destruct (negb (dz_zinit l =? 0)).
      + destruct (next (l2 :: r2) dout w) as [[rest1 w1] r1] eqn:Hnx. inversion H; subst; clear H.
        pose proof (Hnext _ _ _ _ _ _ Hnx Hr Hdout Hc) as (Hm1 & Hr1 & He1 & Hb1 & Hok1).
        repeat split; auto; try lia; try discriminate.
      + apply Hcbk in H; auto. intuition discriminate. }
  destruct (dz_enter d 0) as [input|].
  - assert (Hg : dz_good w l rest w). { unfold dz_good. repeat split; auto; lia. }
    pose proof (dz_loop_spec B w d (dc_fuel c) l rest w input 0 HB HdB Hg) as Hl.
    destruct (dz_loop OT ask c next (dc_fuel c) d l rest w input 0) as [[[l1 rest1] w1] r1].
    inversion H; subst; clear H.
    destruct Hl as (Hwf1 & Hr1 & Hm1 & He1 & Hb1 & Hok1 & Hdead).
    repeat split; auto.
    + constructor; auto. destruct (dd_bytes d); auto.
    + intros _ _. destruct Hdead as [Hcl|Hd]; [left; exact Hcl|right].
      cbn [dz_head_dead]. destruct (dd_bytes d); wsimpl; auto.
  - inversion H; subst; clear H. pose proof Hc as Hc'. unfold dz_clean in Hc'. repeat split; auto; try lia.
    all: try (intros Hx; exfalso; apply dz_ok_ne_error; exact Hx).
Qed.
End OneLayer.

(* ---- the whole chain, any depth *)
Lemma dz_decompress_next_ok n : dz_next_ok (dz_decompress OT ask c n).
Proof.
  assert (Htriv : forall ls (w : world), Forall dz_wf ls -> dz_clean w ->
     w_message OT w = w_message OT w /\ Forall dz_wf ls /\ w_entity OT w <= w_entity OT w /\
     w_entity OT w <= dz_M w + Z.of_nat dz_BUF /\ (c_HTP_ERROR = c_HTP_OK -> dz_clean w)).
  { intros ls w Hls Hc. unfold dz_clean in Hc. pose proof dz_BUF_val. repeat split; auto; try lia. }
  induction n as [|n IH]; unfold dz_next_ok; intros ls d w ls' w' rc H Hls Hd Hc; cbn [dz_decompress] in H.
  - inversion H; subst. apply Htriv; auto.
  - destruct ls as [|l rest].
    + inversion H; subst. apply Htriv; auto.
    + inversion Hls; subst.
      eapply (dz_layer_run_spec _ IH (Z.of_nat dz_BUF)) in H; eauto; try lia.
      * destruct H as (?&?&?&?&?&?). repeat split; auto.
      * unfold dz_len. lia.
Qed.

(* ---- a layer that is shut down (zlib_initialized = 0, no passthrough): only what is still in its buffer can come out *)
Lemma dz_lzma_ne_0 : (0 =? c_dz_COMPRESSION_LZMA) = false.
Proof. reflexivity. Qed.

Lemma dz_dead_run next l rest d (w : world) ls' w' r :
  dz_layer_run OT ask c next l rest d w = (ls', w', r) -> dz_pass l = false -> dz_zinit l = 0 ->
  w_message OT w' = w_message OT w /\ w_entity OT w <= w_entity OT w' /\
  exists l', ls' = l' :: rest /\ dz_zinit l' = 0 /\ dz_pass l' = false /\ (dz_wf l -> dz_wf l') /\
    (if dd_null d then w_entity OT w' <= w_entity OT w + Z.of_nat (length (dz_obuf l))
     else w_entity OT w' + Z.of_nat (length (dz_obuf l')) <= w_entity OT w + Z.of_nat (length (dz_obuf l))).
Proof.
  intros H Hp Hz. unfold dz_layer_run in H. rewrite Hp in H.
  assert (Hdel : forall dd, dz_deliver OT c next l rest dd w = (let '(w0, rc) := dz_callback OT c dd w in (rest, w0, rc))).
  { intros dd. unfold dz_deliver. rewrite Hz. cbn. destruct rest; reflexivity. }
  assert (Hend : forall w0, dz_end OT ask l w0 = (l, w0)).
  { intros w0. unfold dz_end. rewrite Hz. reflexivity. }
  destruct (dd_null d) eqn:Hn.
  { set (dout := match dz_obuf l with [] => dz_null | _ :: _ => dz_some (dz_obuf l) end) in H.
    assert (Hlen : dz_len dout = Z.of_nat (length (dz_obuf l))).
    { subst dout. unfold dz_len. destruct (dz_obuf l); reflexivity. }
    assert (Hx : (let '(w0, crc) := dz_callback OT c dout w in
                  if negb (crc =? c_HTP_OK) then let '(l0, w1) := dz_end OT ask l w0 in (l0 :: rest, w1, crc) else (l :: rest, w0, c_HTP_OK)) = (ls', w', r)).
    { destruct rest as [|l2 r2]; [exact H|]. rewrite Hz in H. cbn in H. exact H. }
    clear H. destruct (dz_callback OT c dout w) as [w1 crc] eqn:Hcb. apply dz_callback_spec in Hcb. destruct Hcb as (Hm1 & He1 & _).
    rewrite Hend in Hx. pose proof (dz_len_nonneg dout).
    destruct (negb (crc =? c_HTP_OK)); inversion Hx; subst; (split; [auto|split; [lia|]]); exists l; repeat split; auto; lia. }
  destruct (dz_enter d 0) as [input|].
  2:{ inversion H; subst. split; auto. split; [lia|]. exists l. repeat split; auto. lia. }
  assert (Hloop : exists l1 w1 r1, dz_loop OT ask c next (dc_fuel c) d l rest w input 0 = (l1, rest, w1, r1) /\
            w_message OT w1 = w_message OT w /\ w_entity OT w <= w_entity OT w1 /\ dz_zinit l1 = 0 /\ dz_pass l1 = false /\ (dz_wf l -> dz_wf l1) /\
            w_entity OT w1 + Z.of_nat (length (dz_obuf l1)) <= w_entity OT w + Z.of_nat (length (dz_obuf l))).
  { destruct (dc_fuel c) as [|f]; cbn [dz_loop].
    { exists l, w, c_HTP_ERROR. repeat split; auto; lia. }
    destruct input as [|b input'].
    { exists l, w, c_HTP_OK. repeat split; auto; lia. }
    unfold dz_iter, dz_flush_full. rewrite Hdel.
    destruct (dz_avail_out l =? 0)%nat.
    - destruct (dz_callback OT c (dz_some (dz_obuf l)) w) as [w1 crc] eqn:Hcb. apply dz_callback_spec in Hcb. destruct Hcb as (Hm1 & He1 & _).
      unfold dz_len in He1. cbn [dd_bytes dz_some] in He1.
      destruct (negb (crc =? c_HTP_OK)).
      + rewrite Hend. exists (dz_set_obuf l []), w1, crc. wsimpl. cbn [length]. repeat split; auto using dz_wf_reset; lia.
      + unfold dz_decode. wsimpl. rewrite Hz. rewrite dz_lzma_ne_0. cbn [negb Z.eqb].
        exists (dz_set_obuf l []), w1, c_HTP_ERROR. wsimpl. cbn [length]. repeat split; auto using dz_wf_reset; lia.
    - unfold dz_decode. rewrite Hz. rewrite dz_lzma_ne_0. cbn [negb Z.eqb].
      exists l, w, c_HTP_ERROR. repeat split; auto; lia. }
  destruct Hloop as (l1 & w1 & r1 & Hl & Hm1 & He1 & Hz1 & Hp1 & Hwf1 & Hb1). rewrite Hl in H. inversion H; subst; clear H.
  split; auto. split; auto.
  exists (match dd_bytes d with [] => l1 | _ :: _ => dz_set_fed l1 true end).
  destruct (dd_bytes d); wsimpl; repeat split; auto.
Qed.

(* ---- a layer in passthrough hands the block to the callback *)
Lemma dz_pass_run next l rest d (w : world) ls' w' r :
  dz_layer_run OT ask c next l rest d w = (ls', w', r) -> dz_pass l = true ->
  ls' = l :: rest /\ w_message OT w' = w_message OT w /\ w_entity OT w' = w_entity OT w + dz_len d.
Proof.
  intros H Hp. unfold dz_layer_run in H. rewrite Hp in H.
  destruct (dz_callback OT c d w) as [w1 crc] eqn:Hcb. apply dz_callback_spec in Hcb. destruct Hcb as (Hm1 & He1 & _).
  inversion H; subst. auto.
Qed.

(* ---- the invariant between two body calls *)
Variable maxchunk : Z.                       (* no body call carries more than maxchunk bytes *)
Definition dz_maxB : Z := Z.max (Z.of_nat dz_BUF) maxchunk.
Definition dz_K : Z := dz_maxB + Z.of_nat dz_BUF.

(* passthrough adds the same amount to entity_len and message_len: this is what survives *)
Definition dz_J (w : world) : Prop :=
  w_entity OT w <= R * w_message OT w + dz_K \/ w_entity OT w - w_message OT w <= dc_bomb c + dz_K.

Definition dz_inv_chain (ls : list dz_layer) (w : world) : Prop :=
  match ls with
  | [] => dz_J w
  | l :: _ => if dz_pass l then dz_J w
              else if dz_zinit l =? 0 then w_entity OT w + Z.of_nat (length (dz_obuf l)) <= dz_M w + dz_K
              else dz_clean w
  end.

Definition dz_inv (t : dz_tx OT) : Prop :=
  let w := tx_w OT t in
  0 <= w_message OT w /\ Forall dz_wf (tx_chain OT t) /\
  if dz_is_coded (tx_cep OT t) then dz_inv_chain (tx_chain OT t) w else w_entity OT w <= w_message OT w.

Lemma dz_K_bounds : 0 <= Z.of_nat dz_BUF /\ Z.of_nat dz_BUF <= dz_maxB /\ dz_maxB + Z.of_nat dz_BUF = dz_K /\ maxchunk <= dz_maxB.
Proof. unfold dz_K, dz_maxB. lia. Qed.

Lemma dz_J_of_bound (w : world) k : 0 <= w_message OT w -> k <= dz_K -> w_entity OT w <= dz_M w + k -> dz_J w.
Proof. unfold dz_J, dz_M. intros. lia. Qed.

Lemma dz_J_of_clean (w : world) : 0 <= w_message OT w -> dz_clean w -> dz_J w.
Proof. intros Hm Hc. pose proof dz_K_bounds. apply (dz_J_of_bound w 0); auto; unfold dz_clean in Hc; lia. Qed.

Lemma dz_inv_chain_J ls (w : world) : 0 <= w_message OT w -> dz_inv_chain ls w -> dz_J w.
Proof.
  intros Hm H. destruct ls as [|l r]; cbn [dz_inv_chain] in H; auto.
  destruct (dz_pass l); auto. destruct (dz_zinit l =? 0).
  - apply (dz_J_of_bound w dz_K); auto; lia.
  - apply dz_J_of_clean; auto.
Qed.

(* the state a call from a live or any other state leaves behind *)
Lemma dz_inv_chain_of_post ls (w : world) :
  0 <= w_message OT w -> Forall dz_wf ls -> w_entity OT w <= dz_M w + dz_maxB -> (dz_clean w \/ dz_head_dead ls) ->
  dz_inv_chain ls w.
Proof.
  intros Hm Hwf Hb Hd. pose proof dz_K_bounds as (HK0 & HK1 & HK2 & HK3).
  destruct ls as [|l r]; cbn [dz_inv_chain].
  - apply (dz_J_of_bound w dz_maxB); auto; lia.
  - inversion Hwf; subst. unfold dz_wf in *.
    destruct (dz_pass l) eqn:Hp.
    + apply (dz_J_of_bound w dz_maxB); auto; lia.
    + destruct (dz_zinit l =? 0) eqn:Hz; [lia|].
      destruct Hd as [Hc|Hd]; auto. cbn [dz_head_dead] in Hd. destruct Hd as [Hz' _]. rewrite Hz' in Hz. discriminate.
Qed.

Definition dz_apply_tpass (b : bool) (ls : list dz_layer) : list dz_layer :=
  match ls with l :: r => (if b then dz_set_pass l true else l) :: r | [] => [] end.

Lemma dz_inv_chain_tpass b ls (w : world) : 0 <= w_message OT w -> dz_inv_chain ls w -> dz_inv_chain (dz_apply_tpass b ls) w.
Proof.
  intros Hm H. destruct b; destruct ls as [|l r]; cbn [dz_apply_tpass]; auto.
  cbn [dz_inv_chain]. wsimpl. eapply dz_inv_chain_J; eauto.
Qed.

Lemma dz_wf_tpass b ls : Forall dz_wf ls -> Forall dz_wf (dz_apply_tpass b ls).
Proof. intros H. destruct ls; cbn; auto. inversion H; subst. constructor; auto. destruct b; auto. Qed.

Lemma dz_destroy_spec ls : forall (w : world), w_entity OT (dz_destroy OT ask ls w) = w_entity OT w /\ w_message OT (dz_destroy OT ask ls w) = w_message OT w.
Proof.
  induction ls as [|l r IH]; intros w; cbn [dz_destroy]; auto.
  destruct (dz_end OT ask l w) as [l1 w1] eqn:He. apply dz_end_spec in He. destruct He as (He & Hm & _). destruct (IH w1). split; congruence.
Qed.

Lemma dz_J_transfer (w w' : world) : dz_J w -> w_entity OT w' = w_entity OT w -> w_message OT w' = w_message OT w -> dz_J w'.
Proof. unfold dz_J. intros H He Hm. rewrite He, Hm. exact H. Qed.

Lemma dz_inv_chain_transfer ls (w w' : world) : dz_inv_chain ls w -> w_entity OT w' = w_entity OT w -> w_message OT w' = w_message OT w -> dz_inv_chain ls w'.
Proof.
  intros H He Hm. destruct ls as [|l r]; cbn [dz_inv_chain] in *; [eapply dz_J_transfer; eauto|].
  destruct (dz_pass l); [eapply dz_J_transfer; eauto|]. destruct (dz_zinit l =? 0).
  - rewrite He, (dz_M_eq w w' Hm). exact H.
  - eapply dz_clean_transfer; eauto.
Qed.

(* message_len grows (by the block and by framing bytes): every state survives *)
Lemma dz_inv_chain_msg ls (w : world) m : 0 <= m -> dz_inv_chain ls w -> dz_inv_chain ls (w_set_message OT w (w_message OT w + m)).
Proof.
  intros Hm H. pose proof dz_bomb_ratio_ge as HR.
  assert (HM : dz_M w <= dz_M (w_set_message OT w (w_message OT w + m))). { unfold dz_M. wsimpl. nia. }
  assert (HJ : dz_J w -> dz_J (w_set_message OT w (w_message OT w + m))). { unfold dz_J. wsimpl. intros [H1|H1]; [left; nia|right; lia]. }
  destruct ls as [|l r]; cbn [dz_inv_chain] in *; auto.
  destruct (dz_pass l); auto. destruct (dz_zinit l =? 0).
  - wsimpl. lia.
  - unfold dz_clean in *. wsimpl. lia.
Qed.

Lemma dz_process_body_data_inv (t : dz_tx OT) extra data :
  dz_inv t -> 0 <= extra -> (match data with Some b => Z.of_nat (length b) <= maxchunk | None => True end) ->
  dz_inv (fst (dz_process_body_data OT ask c t extra data)).
Proof.
  intros (Hmsg & Hwf & Hinv) Hex Hlen. unfold dz_process_body_data. cbv zeta.
  set (d := dz_data_of data).
  assert (Hd0 : 0 <= dz_len d) by apply dz_len_nonneg.
  assert (HdB : dz_len d <= dz_maxB).
  { pose proof dz_K_bounds. subst d. destruct data; unfold dz_len, dz_data_of; cbn [dd_bytes dz_some dz_null length]; lia. }
  set (w1 := w_set_message OT (tx_w OT t) (w_message OT (tx_w OT t) + extra + dz_len d)).
  assert (Hmsg1 : 0 <= w_message OT w1) by (subst w1; wsimpl; lia).
  pose proof dz_K_bounds as (HK0 & HK1 & HK2 & HK3). pose proof dz_bomb_ratio_ge as HR.
  destruct (dz_is_coded (tx_cep OT t)) eqn:Hcoded.
  2:{ destruct (tx_cep OT t =? c_dz_COMPRESSION_NONE).
      - destruct (dz_run_hook OT c d (w_set_entity OT w1 (w_entity OT w1 + dz_len d))) as [w2 rc] eqn:Hh.
        apply dz_run_hook_spec in Hh. destruct Hh as [He2 Hm2]. cbn [fst]. unfold dz_inv. cbn [tx_w tx_chain tx_cep]. rewrite Hcoded.
        subst w1; wsimpl. repeat split; auto; lia.
      - cbn [fst]. unfold dz_inv. cbn [tx_w tx_chain tx_cep]. rewrite Hcoded. subst w1; wsimpl. repeat split; auto; lia. }
  destruct (tx_chain OT t) as [|l rest] eqn:Hch.
  { cbn [fst]. unfold dz_inv. cbn [tx_w tx_chain tx_cep]. rewrite Hcoded. repeat split; auto.
    cbn [dz_inv_chain] in *. subst w1. replace (w_message OT (tx_w OT t) + extra + dz_len d) with (w_message OT (tx_w OT t) + (extra + dz_len d)) by lia.
    apply (dz_inv_chain_msg [] (tx_w OT t)); auto; lia. }
  (* the chain exists *)
  assert (Hinv1 : dz_inv_chain (l :: rest) w1).
  { subst w1. replace (w_message OT (tx_w OT t) + extra + dz_len d) with (w_message OT (tx_w OT t) + (extra + dz_len d)) by lia.
    apply dz_inv_chain_msg; auto; lia. }
  unfold dz_gettimeofday at 1.
  set (w2 := w_set_nbcb OT (w_set_tbefore OT (w_tick_clock OT w1) (dc_clock c (w_nclock OT w1))) 0).
  assert (He2 : w_entity OT w2 = w_entity OT w1) by reflexivity.
  assert (Hm2 : w_message OT w2 = w_message OT w1) by reflexivity.
  assert (Hinv2 : dz_inv_chain (l :: rest) w2) by (eapply dz_inv_chain_transfer; eauto).
  cbn [length dz_decompress].
  destruct (dz_layer_run OT ask c (dz_decompress OT ask c (length rest)) l rest d w2) as [[chain w3] r3] eqn:Hrun.
  (* what the call leaves: the invariant of the chain in the world right after decompress *)
  assert (Hafter : w_message OT w3 = w_message OT w2 /\ Forall dz_wf chain /\
                   (match data with Some _ => dz_inv_chain chain w3 | None => dz_J w3 end)).
  { inversion Hwf; subst. cbn [dz_inv_chain] in Hinv2.
    destruct (dz_pass l) eqn:Hp.
    - (* passthrough *)
      apply dz_pass_run in Hrun; auto. destruct Hrun as (Hc3 & Hm3 & He3). subst chain. split; auto. split; auto.
      assert (HJ3 : dz_J w3).
      { cbn [dz_inv_chain] in Hinv. rewrite Hp in Hinv. unfold dz_J in *. rewrite He3, Hm3, He2, Hm2. subst w1. wsimpl.
        destruct Hinv as [HJa|HJa]; [left; nia|right; lia]. }
      destruct data; auto. cbn [dz_inv_chain]. rewrite Hp. exact HJ3.
    - destruct (dz_zinit l =? 0) eqn:Hz.
      + (* shut down *)
        apply Z.eqb_eq in Hz. apply dz_dead_run in Hrun; auto.
        destruct Hrun as (Hm3 & He3 & l' & Hc3 & Hz3 & Hp3 & Hwf3 & Hb3). subst chain. split; auto. split; [constructor; auto|].
        destruct data; cbn [d dz_data_of dd_null dz_some dz_null] in Hb3.
        * cbn [dz_inv_chain]. rewrite Hp3, Hz3. cbn [Z.eqb]. rewrite (dz_M_eq w2 w3 Hm3). lia.
        * apply (dz_J_of_bound w3 dz_K); try lia. rewrite (dz_M_eq w2 w3 Hm3). lia.
      + (* live and clean *)
        pose proof (dz_decompress_next_ok (length rest)) as Hnx.
        eapply (dz_layer_run_spec _ Hnx dz_maxB) in Hrun; eauto; try lia.
        destruct Hrun as (Hm3 & Hwf3 & He3 & Hb3 & Hok3 & Hdead3). split; auto. split; auto.
        rewrite <- (dz_M_eq w2 w3 Hm3) in Hb3.
        destruct data.
        * apply dz_inv_chain_of_post; auto; try lia.
        * apply (dz_J_of_bound w3 dz_maxB); try lia. }
  destruct Hafter as (Hm3 & Hwf3 & Hpost).
  unfold dz_gettimeofday.
  set (w4 := match dz_timer_track _ _ _ with Some sp => _ | None => _ end).
  assert (Hw4 : w_entity OT w4 = w_entity OT w3 /\ w_message OT w4 = w_message OT w3).
  { subst w4. destruct (dz_timer_track _ _ _) as [sp|]; [destruct (sp >? dc_tlimit c)|]; wsimpl; auto. }
  destruct Hw4 as [He4 Hm4].
  fold (dz_apply_tpass (w_tpass OT w4) chain).
  destruct data; cbn [fst]; unfold dz_inv; cbn [tx_w tx_chain tx_cep]; rewrite Hcoded; wsimpl.
  - repeat split; [congruence | apply dz_wf_tpass; auto |].
    eapply dz_inv_chain_transfer with (w := w4); [|reflexivity|reflexivity].
    apply dz_inv_chain_tpass; [congruence|]. eapply dz_inv_chain_transfer; eauto.
  - destruct (dz_destroy_spec (dz_apply_tpass (w_tpass OT w4) chain) (w_set_tpass OT w4 false)) as [He5 Hm5]. wsimpl.
    repeat split; [congruence | constructor |]. cbn [dz_inv_chain].
    eapply dz_J_transfer; [exact Hpost| |]; congruence.
Qed.

(* ---- the chain built from the headers: nothing delivered yet, all buffers empty *)
Definition dz_fresh (l : dz_layer) : Prop := dz_obuf l = [].

Lemma dz_create_spec fmt (w : world) ol w' :
  dz_create OT ask c fmt w = (ol, w') ->
  w_entity OT w' = w_entity OT w /\ w_message OT w' = w_message OT w /\ (forall l, ol = Some l -> dz_fresh l).
Proof.
  unfold dz_create, dz_fresh.
  destruct (fmt =? c_dz_COMPRESSION_LZMA).
  { destruct ((dc_lzma_mem c >? 0) && (dc_lzma_layers c >? 0)); intros H; inversion H; subst; repeat split; auto; intros l Hl; inversion Hl; reflexivity. }
  destruct (fmt =? c_dz_COMPRESSION_DEFLATE).
  { destruct (dz_ask OT ask w _) as [a w1] eqn:Ha. apply dz_ask_spec in Ha. destruct Ha as (He1 & Hm1 & _).
    destruct (negb (da_rc a =? c_dz_Z_OK)).
    - destruct (dz_ask OT ask w1 QEnd) as [a2 w2] eqn:Ha2. apply dz_ask_spec in Ha2. destruct Ha2 as (He2 & Hm2 & _).
      intros H; inversion H; subst; repeat split; try congruence.
    - intros H; inversion H; subst; repeat split; auto. intros l Hl; inversion Hl; reflexivity. }
  destruct (fmt =? c_dz_COMPRESSION_GZIP).
  { destruct (dz_ask OT ask w _) as [a w1] eqn:Ha. apply dz_ask_spec in Ha. destruct Ha as (He1 & Hm1 & _).
    destruct (negb (da_rc a =? c_dz_Z_OK)).
    - destruct (dz_ask OT ask w1 QEnd) as [a2 w2] eqn:Ha2. apply dz_ask_spec in Ha2. destruct Ha2 as (He2 & Hm2 & _).
      intros H; inversion H; subst; repeat split; try congruence.
    - intros H; inversion H; subst; repeat split; auto. intros l Hl; inversion Hl; reflexivity. }
  intros H; inversion H; subst; repeat split; auto. discriminate.
Qed.

Lemma dz_tokens_spec fuel : forall input layers nblzma chain cep (w : world),
  Forall dz_fresh chain ->
  let t := dz_tokens OT ask c fuel input layers nblzma chain cep w in
  w_entity OT (tx_w OT t) = w_entity OT w /\ w_message OT (tx_w OT t) = w_message OT w /\ Forall dz_fresh (tx_chain OT t).
Proof.
  induction fuel as [|f IH]; intros input layers nblzma chain cep w Hch; cbn [dz_tokens]; [cbn; auto|].
  destruct input as [|b input']; [cbn; auto|].
  destruct (dz_get_token_at (b :: input')) as [[skipped tok]|]; [|cbn; auto].
  destruct (negb (dc_layers c =? 0) && (layers + 1 >? dc_layers c)); [cbn; auto|].
  set (cs := if negb (index_of_mem_nocase tok s_gzip =? -1) then _ else _).
  destruct cs as [cetype stop]. destruct stop; [cbn; auto|].
  assert (Hnext : forall chain' cep' (w' : world), Forall dz_fresh chain' -> w_entity OT w' = w_entity OT w -> w_message OT w' = w_message OT w ->
     let t := (if (length (b :: input') <=? skipped + length tok + 1)%nat then mk_dz_tx OT chain' cep' w' false
               else dz_tokens OT ask c f (skipn (skipped + length tok + 1) (b :: input'))
                      (if negb (dc_layers c =? 0) then layers + 1 else layers) (nblzma + 1) chain' cep' w') in
     w_entity OT (tx_w OT t) = w_entity OT w /\ w_message OT (tx_w OT t) = w_message OT w /\ Forall dz_fresh (tx_chain OT t)).
  { intros chain' cep' w' Hc' He' Hm'. destruct (length (b :: input') <=? skipped + length tok + 1)%nat; [cbn; auto|].
    destruct (IH (skipn (skipped + length tok + 1) (b :: input')) (if negb (dc_layers c =? 0) then layers + 1 else layers) (nblzma + 1) chain' cep' w' Hc') as (?&?&?).
    repeat split; auto; congruence. }
  destruct (negb (cetype =? c_dz_COMPRESSION_NONE)); [|apply Hnext; auto].
  destruct chain as [|l0 r0].
  - destruct (dz_create OT ask c cetype w) as [[l|] w1] eqn:Hcr; apply dz_create_spec in Hcr; destruct Hcr as (He1 & Hm1 & Hf1).
    + apply Hnext; auto.
    + cbn. auto.
  - destruct (dz_create OT ask c cetype w) as [[l|] w1] eqn:Hcr; apply dz_create_spec in Hcr; destruct Hcr as (He1 & Hm1 & Hf1).
    + apply Hnext; auto. apply Forall_app. split; auto.
    + cbn. auto.
Qed.

Lemma dz_response_headers_spec ce (w : world) :
  let t := dz_response_headers OT ask c ce w in
  w_entity OT (tx_w OT t) = w_entity OT w /\ w_message OT (tx_w OT t) = w_message OT w /\ Forall dz_fresh (tx_chain OT t).
Proof.
  unfold dz_response_headers.
  set (cm := match ce with None => _ | Some v => _ end). destruct cm as [coding multi].
  set (cm2 := if dc_enabled c then (coding, multi) else (c_dz_COMPRESSION_NONE, false)). destruct cm2 as [cep multi2].
  destruct ((cep =? c_dz_COMPRESSION_GZIP) || (cep =? c_dz_COMPRESSION_DEFLATE) || (cep =? c_dz_COMPRESSION_LZMA) || multi2); [|cbn; auto].
  destruct (negb multi2).
  - destruct (dz_create OT ask c cep w) as [[l|] w1] eqn:Hcr; apply dz_create_spec in Hcr; destruct Hcr as (He1 & Hm1 & Hf1); cbn; auto.
  - destruct ce as [v|]; [|cbn; auto]. apply dz_tokens_spec. constructor.
Qed.

Lemma dz_inv_initial (t : dz_tx OT) :
  0 <= maxchunk -> w_entity OT (tx_w OT t) = 0 -> w_message OT (tx_w OT t) = 0 -> Forall dz_fresh (tx_chain OT t) -> dz_inv t.
Proof.
  intros Hmc He Hm Hf. pose proof dz_K_bounds as (HK0 & HK1 & HK2 & HK3). pose proof dz_bomb_ratio_ge as HR.
  unfold dz_inv. split; [lia|]. split.
  - eapply Forall_impl; [|exact Hf]. intros l Hl. unfold dz_wf, dz_fresh in *. rewrite Hl. cbn. lia.
  - destruct (dz_is_coded (tx_cep OT t)); [|lia].
    destruct (tx_chain OT t) as [|l r]; cbn [dz_inv_chain].
    + unfold dz_J. lia.
    + inversion Hf; subst. unfold dz_fresh in *.
      destruct (dz_pass l); [unfold dz_J; lia|]. destruct (dz_zinit l =? 0).
      * rewrite H1. unfold dz_M. cbn [length]. lia.
      * unfold dz_clean, dz_M. lia.
Qed.

Definition dz_calls_ok (calls : list (Z * option bytes)) : Prop :=
  Forall (fun ed => 0 <= fst ed /\ match snd ed with Some b => Z.of_nat (length b) <= maxchunk | None => True end) calls.

Lemma dz_calls_inv calls : forall (t : dz_tx OT), dz_inv t -> dz_calls_ok calls -> dz_inv (dz_calls OT ask c t calls).
Proof.
  induction calls as [|[extra d] r IH]; intros t Hi Hc; cbn [dz_calls]; auto.
  inversion Hc; subst. cbn [fst snd] in *. apply IH; auto. apply dz_process_body_data_inv; tauto.
Qed.

(* what the invariant means for the counters *)
Lemma dz_J_bound (w : world) :
  0 <= w_message OT w -> dz_J w ->
  w_entity OT w <= dz_M w + dz_K + Z.max 0 (dc_bomb c) / (R - 1).
Proof.
  intros Hm HJ. pose proof dz_bomb_ratio_ge as HR. unfold dz_J, dz_M in *.
  assert (Hs : 0 <= Z.max 0 (dc_bomb c) / (R - 1)) by (apply Z.div_pos; lia).
  destruct HJ as [H|H]; [lia|].
  destruct (Z_le_gt_dec ((R - 1) * w_message OT w) (Z.max 0 (dc_bomb c))) as [Hle|Hgt].
  - assert (w_message OT w <= Z.max 0 (dc_bomb c) / (R - 1)) by (apply Z.div_le_lower_bound; lia). lia.
  - nia.
Qed.

Lemma dz_inv_bound (t : dz_tx OT) :
  dz_inv t -> w_entity OT (tx_w OT t) <= dz_M (tx_w OT t) + dz_K + Z.max 0 (dc_bomb c) / (R - 1).
Proof.
  intros (Hm & Hwf & H). pose proof dz_bomb_ratio_ge as HR. pose proof dz_K_bounds as (HK0 & HK1 & HK2 & HK3).
  assert (Hs : 0 <= Z.max 0 (dc_bomb c) / (R - 1)) by (apply Z.div_pos; lia).
  destruct (dz_is_coded (tx_cep OT t)).
  - apply dz_J_bound; auto. eapply dz_inv_chain_J; eauto.
  - unfold dz_M. nia.
Qed.

Theorem dz_bomb_bound_general ce calls (o : OT) :
  0 <= maxchunk -> dz_calls_ok calls ->
  let w := tx_w OT (fst (dz_run OT ask c ce calls o)) in
  w_entity OT w <= Z.max (dc_bomb c) (2048 * w_message OT w) + Z.max 8192 maxchunk + 8192 + Z.max 0 (dc_bomb c) / (R - 1).
Proof.
  intros Hmc Hcalls. unfold dz_run. cbn [fst tx_w].
  set (t0 := dz_response_headers OT ask c ce (dz_world0 OT o)).
  pose proof (dz_response_headers_spec ce (dz_world0 OT o)) as (He0 & Hm0 & Hf0). fold t0 in He0, Hm0, Hf0.
  assert (Hi0 : dz_inv t0) by (apply dz_inv_initial; auto).
  pose proof (dz_calls_inv calls t0 Hi0 Hcalls) as Hi. set (t := dz_calls OT ask c t0 calls) in *.
  destruct (dz_destroy_spec (tx_chain OT t) (tx_w OT t)) as [He Hm]. rewrite He, Hm.
  pose proof (dz_inv_bound t Hi) as Hb. destruct Hi as (Hmsg & _ & _).
  pose proof dz_bomb_ratio_le as HR. pose proof dz_BUF_val as HBV. rewrite dz_buf_size in HBV.
  unfold dz_M, dz_K, dz_maxB in Hb. rewrite HBV in Hb.
  assert (R * w_message OT (tx_w OT t) <= 2048 * w_message OT (tx_w OT t)) by nia. lia.
Qed.

(* ---- entity_len IS the number of bytes handed to the body-data hook *)
Definition dz_evsum (w : world) : Z := fold_right (fun e a => dz_len e + a) 0 (w_events OT w).
Definition dz_D (w : world) : Z := w_entity OT w - dz_evsum w.

Lemma dz_D_frame (w w' : world) : w_entity OT w' = w_entity OT w -> w_events OT w' = w_events OT w -> dz_D w' = dz_D w.
Proof. unfold dz_D, dz_evsum. intros -> ->. reflexivity. Qed.

Lemma dz_ask_D (w : world) q : dz_D (snd (dz_ask OT ask w q)) = dz_D w.
Proof. unfold dz_ask. destruct (ask (w_o OT w) q). cbn [snd]. apply dz_D_frame; reflexivity. Qed.

Lemma dz_cb_clock_D (w : world) : dz_D (dz_cb_clock OT c w) = dz_D w.
Proof.
  unfold dz_cb_clock, dz_gettimeofday. destruct (w_nbcb OT w mod c_HTP_COMPRESSION_TIME_FREQ_TEST =? 0); auto.
  destruct (dz_timer_track _ _ _) as [sp|]; [destruct (sp >? dc_tlimit c)|]; apply dz_D_frame; reflexivity.
Qed.

Lemma dz_run_hook_D d (w : world) : dz_D (fst (dz_run_hook OT c d w)) = dz_D w - (if negb (dd_null d) && (dz_len d =? 0) then 0 else dz_len d).
Proof.
  unfold dz_run_hook. destruct (negb (dd_null d) && (dz_len d =? 0)); cbn [fst]; [lia|].
  unfold dz_D, dz_evsum. wsimpl. cbn [fold_right]. lia.
Qed.

Lemma dz_callback_D d (w : world) : dz_D (fst (dz_callback OT c d w)) = dz_D w.
Proof.
  unfold dz_callback.
  pose proof (dz_run_hook_D d (w_set_entity OT w (w_entity OT w + dz_len d))) as Hh.
  destruct (dz_run_hook OT c d (w_set_entity OT w (w_entity OT w + dz_len d))) as [w1 hrc]. cbn [fst] in Hh.
  assert (H1 : dz_D w1 = dz_D w).
  { rewrite Hh. unfold dz_D at 1, dz_evsum. wsimpl. fold (dz_evsum w). unfold dz_D.
    destruct (negb (dd_null d) && (dz_len d =? 0)) eqn:Hz; [|lia].
    apply andb_true_iff in Hz. destruct Hz as [_ Hz]. apply Z.eqb_eq in Hz. lia. }
  destruct (negb (hrc =? c_HTP_OK)); [exact H1|].
  set (w3 := dz_cb_clock OT c (w_set_nbcb OT w1 (w_nbcb OT w1 + 1))).
  assert (H3 : dz_D w3 = dz_D w). { subst w3. rewrite dz_cb_clock_D. rewrite <- H1. apply dz_D_frame; reflexivity. }
  destruct ((w_entity OT w3 >? dc_bomb c) && (w_entity OT w3 >? R * w_message OT w3)); exact H3.
Qed.

Lemma dz_end_D l (w : world) : dz_D (snd (dz_end OT ask l w)) = dz_D w.
Proof.
  unfold dz_end. destruct (dz_zinit l =? c_dz_COMPRESSION_LZMA).
  - pose proof (dz_ask_D w QLzFree). destruct (dz_ask OT ask w QLzFree). exact H.
  - destruct (negb (dz_zinit l =? 0)); auto. pose proof (dz_ask_D w QEnd). destruct (dz_ask OT ask w QEnd). exact H.
Qed.

Lemma dz_fail_end_D l (w : world) : dz_D (snd (dz_fail_end OT ask l w)) = dz_D w.
Proof.
  unfold dz_fail_end. destruct (dz_zinit l =? c_dz_COMPRESSION_LZMA).
  - pose proof (dz_ask_D w QLzFree). destruct (dz_ask OT ask w QLzFree). exact H.
  - pose proof (dz_ask_D w QEnd). destruct (dz_ask OT ask w QEnd). exact H.
Qed.

Lemma dz_restart_dec_D l data (w : world) : dz_D (snd (fst (dz_restart_dec OT ask l data w))) = dz_D w.
Proof.
  unfold dz_restart_dec. destruct (dz_restart l <? 3)%nat; auto.
  destruct (dz_restart l =? 0)%nat.
  { match goal with |- context [dz_ask OT ask w ?q] => pose proof (dz_ask_D w q) as H; destruct (dz_ask OT ask w q) as [a w1] end.
    destruct (negb (da_rc a =? c_dz_Z_OK)); exact H. }
  destruct (dz_zinit l =? c_dz_COMPRESSION_DEFLATE).
  { match goal with |- context [dz_ask OT ask w ?q] => pose proof (dz_ask_D w q) as H; destruct (dz_ask OT ask w q) as [a w1] end.
    destruct (negb (da_rc a =? c_dz_Z_OK)); exact H. }
  destruct (dz_zinit l =? c_dz_COMPRESSION_GZIP); auto.
  match goal with |- context [dz_ask OT ask w ?q] => pose proof (dz_ask_D w q) as H; destruct (dz_ask OT ask w q) as [a w1] end.
  destruct (negb (da_rc a =? c_dz_Z_OK)); exact H.
Qed.

Lemma dz_decode_D d l (w : world) input rc :
  match dz_decode OT ask d l w input rc with
  | inl (_, w', _, _) => dz_D w' = dz_D w
  | inr (_, w', _) => dz_D w' = dz_D w
  end.
Proof.
  unfold dz_decode. destruct (dz_zinit l =? c_dz_COMPRESSION_LZMA).
  - destruct (dz_lz_header d l input) as [l1 input1].
    destruct (dz_hlen l1 =? c_dz_LZMA_HEADER_SIZE).
    + pose proof (dz_ask_D w QLzAlloc) as H1. destruct (dz_ask OT ask w QLzAlloc) as [a w1]. cbn [snd] in H1.
      destruct (negb (da_rc a =? c_dz_SZ_OK)); auto.
      destruct (dz_hlen (dz_set_hlen l1 (dz_hlen l1 + 1)) >? c_dz_LZMA_HEADER_SIZE); auto.
      match goal with |- context [dz_ask OT ask w1 ?q] => pose proof (dz_ask_D w1 q) as H2; destruct (dz_ask OT ask w1 q) as [a2 w2] end.
      cbn [snd] in H2. congruence.
    + destruct (dz_hlen l1 >? c_dz_LZMA_HEADER_SIZE); auto.
      match goal with |- context [dz_ask OT ask w ?q] => pose proof (dz_ask_D w q) as H2; destruct (dz_ask OT ask w q) as [a2 w2] end.
      exact H2.
  - destruct (negb (dz_zinit l =? 0)); auto.
    match goal with |- context [dz_ask OT ask w ?q] => pose proof (dz_ask_D w q) as H2; destruct (dz_ask OT ask w q) as [a2 w2] end.
    exact H2.
Qed.

Definition dz_next_D (f : dz_next_t OT) : Prop := forall ls d (w : world), dz_D (snd (fst (f ls d w))) = dz_D w.

Section OneLayerD.
Variable next : dz_next_t OT.
Hypothesis HnextD : dz_next_D next.

Lemma dz_deliver_D l rest dd (w : world) : dz_D (snd (fst (dz_deliver OT c next l rest dd w))) = dz_D w.
Proof.
  unfold dz_deliver.
  assert (Hcb : forall rest0 : list dz_layer, dz_D (snd (fst (let '(w0, rc) := dz_callback OT c dd w in (rest0, w0, rc)))) = dz_D w).
  { intros rest0. pose proof (dz_callback_D dd w). destruct (dz_callback OT c dd w). exact H. }
  destruct rest; auto. destruct (negb (dz_zinit l =? 0)); auto.
Qed.

Definition dz_step_D (w : world) (s : dz_step OT) : Prop :=
  match s with DzRet _ _ _ w' _ => dz_D w' = dz_D w | DzCont _ _ _ w' _ _ => dz_D w' = dz_D w | DzRestart _ _ _ w' _ _ => dz_D w' = dz_D w end.

Lemma dz_after_D d l rest (w : world) input rc : dz_step_D w (dz_after OT ask c next d l rest w input rc).
Proof.
  unfold dz_after.
  set (rc' := if (dz_avail_out l <? dz_BUF)%nat && (rc =? c_dz_Z_DATA_ERROR) then c_dz_Z_STREAM_END else rc).
  destruct (rc' =? c_dz_Z_STREAM_END).
  { pose proof (dz_deliver_D l rest (dz_some (dz_obuf l)) w) as Hd.
    destruct (dz_deliver OT c next l rest (dz_some (dz_obuf l)) w) as [[rest1 w1] crc]. cbn [fst snd] in Hd.
    destruct (negb (crc =? c_HTP_OK)); [|exact Hd].
    pose proof (dz_end_D l w1) as He. destruct (dz_end OT ask l w1) as [l2 w2]. cbn [dz_step_D snd] in *. congruence. }
  destruct (negb (rc' =? c_dz_Z_OK)); [|reflexivity].
  pose proof (dz_fail_end_D l w) as H1. destruct (dz_fail_end OT ask l w) as [l1 w1]. cbn [snd] in H1.
  set (w1' := if dz_fed l1 then w_set_late OT w1 true else w1).
  assert (H1' : dz_D w1' = dz_D w). { subst w1'. destruct (dz_fed l1); [rewrite <- H1; apply dz_D_frame; reflexivity | exact H1]. }
  pose proof (dz_restart_dec_D l1 (dd_bytes d) w1') as H2.
  destruct (dz_restart_dec OT ask l1 (dd_bytes d) w1') as [[l2 w2] [cn|]]; cbn [fst snd] in H2.
  - cbn [dz_step_D]. rewrite <- H1', <- H2. apply dz_D_frame; reflexivity.
  - pose proof (dz_callback_D d w2) as H3. destruct (dz_callback OT c d w2) as [w3 crc]. cbn [fst] in H3.
    destruct (negb (crc =? c_HTP_OK)); cbn [dz_step_D]; congruence.
Qed.

Lemma dz_iter_D d l rest (w : world) input rc : dz_step_D w (dz_iter OT ask c next d l rest w input rc).
Proof.
  unfold dz_iter, dz_flush_full.
  destruct (dz_avail_out l =? 0)%nat.
  - pose proof (dz_deliver_D l rest (dz_some (dz_obuf l)) w) as Hd.
    destruct (dz_deliver OT c next l rest (dz_some (dz_obuf l)) w) as [[rest1 w1] crc]. cbn [fst snd] in Hd.
    destruct (negb (crc =? c_HTP_OK)).
    + pose proof (dz_end_D l w1) as He. destruct (dz_end OT ask l w1) as [l2 w2]. cbn [dz_step_D snd] in *. congruence.
    + pose proof (dz_decode_D d (dz_set_obuf l []) w1 input rc) as H2.
      destruct (dz_decode OT ask d (dz_set_obuf l []) w1 input rc) as [[[[l2 w2] in2] rc2]|[[l2 w2] r2]].
      * pose proof (dz_after_D d l2 rest1 w2 in2 rc2) as H3.
        destruct (dz_after OT ask c next d l2 rest1 w2 in2 rc2); cbn [dz_step_D] in *; congruence.
      * cbn [dz_step_D]. congruence.
  - pose proof (dz_decode_D d l w input rc) as H2.
    destruct (dz_decode OT ask d l w input rc) as [[[[l2 w2] in2] rc2]|[[l2 w2] r2]].
    + pose proof (dz_after_D d l2 rest w2 in2 rc2) as H3.
      destruct (dz_after OT ask c next d l2 rest w2 in2 rc2); cbn [dz_step_D] in *; congruence.
    + cbn [dz_step_D]. congruence.
Qed.

Lemma dz_loop_D d fuel : forall l rest (w : world) input rc,
  dz_D (snd (fst (dz_loop OT ask c next fuel d l rest w input rc))) = dz_D w.
Proof.
  induction fuel as [|f IH]; intros; cbn [dz_loop]; auto.
  destruct input as [|b input']; auto.
  pose proof (dz_iter_D d l rest w (b :: input') rc) as Hi.
  destruct (dz_iter OT ask c next d l rest w (b :: input') rc) as [l1 rest1 w1 r1|l1 rest1 w1 in1 rc1|l1 rest1 w1 cn rc1]; cbn [dz_step_D] in Hi.
  - exact Hi.
  - rewrite IH. exact Hi.
  - destruct (dz_enter d cn); [rewrite IH|]; exact Hi.
Qed.

Lemma dz_layer_run_D l rest d (w : world) : dz_D (snd (fst (dz_layer_run OT ask c next l rest d w))) = dz_D w.
Proof.
  unfold dz_layer_run.
  destruct (dz_pass l).
  { pose proof (dz_callback_D d w). destruct (dz_callback OT c d w). exact H. }
  destruct (dd_null d).
  { set (dout := match dz_obuf l with [] => dz_null | _ :: _ => dz_some (dz_obuf l) end).
    assert (Hcb : forall ls0, dz_D (snd (fst (let '(w0, crc) := dz_callback OT c dout w in
                     if negb (crc =? c_HTP_OK) then let '(l0, w1) := dz_end OT ask l w0 in (l0 :: ls0, w1, crc) else (l :: ls0, w0, c_HTP_OK)))) = dz_D w).
    { intros ls0. pose proof (dz_callback_D dout w) as H1. destruct (dz_callback OT c dout w) as [w1 crc]. cbn [fst] in H1.
      destruct (negb (crc =? c_HTP_OK)); [|exact H1].
      pose proof (dz_end_D l w1) as H2. destruct (dz_end OT ask l w1). cbn [fst snd] in *. congruence. }
    destruct rest as [|l2 r2]; auto.
    destruct (negb (dz_zinit l =? 0)); auto.
    pose proof (HnextD (l2 :: r2) dout w) as H1. destruct (next (l2 :: r2) dout w) as [[rest1 w1] r1]. exact H1. }
  destruct (dz_enter d 0); auto.
  pose proof (dz_loop_D d (dc_fuel c) l rest w b 0) as H1.
  destruct (dz_loop OT ask c next (dc_fuel c) d l rest w b 0) as [[[l1 rest1] w1] r1]. exact H1.
Qed.
End OneLayerD.

Lemma dz_decompress_D n : dz_next_D (dz_decompress OT ask c n).
Proof.
  induction n as [|n IH]; unfold dz_next_D; intros ls d w; cbn [dz_decompress]; auto.
  destruct ls as [|l rest]; auto. apply dz_layer_run_D. exact IH.
Qed.

Lemma dz_destroy_D ls : forall (w : world), dz_D (dz_destroy OT ask ls w) = dz_D w.
Proof.
  induction ls as [|l r IH]; intros w; cbn [dz_destroy]; auto.
  pose proof (dz_end_D l w) as H. destruct (dz_end OT ask l w) as [l1 w1]. rewrite IH. exact H.
Qed.

Lemma dz_process_body_data_D (t : dz_tx OT) extra data :
  dz_D (tx_w OT (fst (dz_process_body_data OT ask c t extra data))) = dz_D (tx_w OT t).
Proof.
  unfold dz_process_body_data. cbv zeta.
  set (d := dz_data_of data).
  set (w1 := w_set_message OT (tx_w OT t) (w_message OT (tx_w OT t) + extra + dz_len d)).
  assert (H1 : dz_D w1 = dz_D (tx_w OT t)) by (apply dz_D_frame; reflexivity).
  destruct (dz_is_coded (tx_cep OT t)).
  - destruct (tx_chain OT t) as [|l rest]; [exact H1|].
    unfold dz_gettimeofday at 1.
    set (w2 := w_set_nbcb OT (w_set_tbefore OT (w_tick_clock OT w1) (dc_clock c (w_nclock OT w1))) 0).
    assert (H2 : dz_D w2 = dz_D w1) by (apply dz_D_frame; reflexivity).
    pose proof (dz_decompress_D (length (l :: rest)) (l :: rest) d w2) as H3.
    destruct (dz_decompress OT ask c (length (l :: rest)) (l :: rest) d w2) as [[chain w3] r3]. cbn [fst snd] in H3.
    unfold dz_gettimeofday.
    set (w4 := match dz_timer_track _ _ _ with Some sp => _ | None => _ end).
    assert (H4 : dz_D w4 = dz_D w3).
    { subst w4. destruct (dz_timer_track _ _ _) as [sp|]; [destruct (sp >? dc_tlimit c)|]; apply dz_D_frame; reflexivity. }
    destruct data; cbn [fst tx_w].
    + transitivity (dz_D w4); [apply dz_D_frame; reflexivity|congruence].
    + rewrite dz_destroy_D. transitivity (dz_D w4); [apply dz_D_frame; reflexivity|congruence].
  - destruct (tx_cep OT t =? c_dz_COMPRESSION_NONE); [|exact H1].
    pose proof (dz_run_hook_D d (w_set_entity OT w1 (w_entity OT w1 + dz_len d))) as Hh.
    destruct (dz_run_hook OT c d (w_set_entity OT w1 (w_entity OT w1 + dz_len d))) as [w2 rc]. cbn [fst tx_w] in *.
    rewrite Hh. rewrite <- H1. unfold dz_D at 1, dz_evsum. wsimpl. fold (dz_evsum w1). unfold dz_D.
    destruct (negb (dd_null d) && (dz_len d =? 0)) eqn:Hz; [|lia].
    apply andb_true_iff in Hz. destruct Hz as [_ Hz]. apply Z.eqb_eq in Hz. lia.
Qed.

Lemma dz_calls_D calls : forall (t : dz_tx OT), dz_D (tx_w OT (dz_calls OT ask c t calls)) = dz_D (tx_w OT t).
Proof.
  induction calls as [|[extra d] r IH]; intros t; cbn [dz_calls]; auto. rewrite IH. apply dz_process_body_data_D.
Qed.

Lemma dz_create_D fmt (w : world) : dz_D (snd (dz_create OT ask c fmt w)) = dz_D w.
Proof.
  unfold dz_create.
  destruct (fmt =? c_dz_COMPRESSION_LZMA). { destruct ((dc_lzma_mem c >? 0) && (dc_lzma_layers c >? 0)); reflexivity. }
  destruct (fmt =? c_dz_COMPRESSION_DEFLATE).
  { match goal with |- context [dz_ask OT ask w ?q] => pose proof (dz_ask_D w q) as H; destruct (dz_ask OT ask w q) as [a w1] end. cbn [snd] in H.
    destruct (negb (da_rc a =? c_dz_Z_OK)); [|exact H].
    pose proof (dz_ask_D w1 QEnd) as H2. destruct (dz_ask OT ask w1 QEnd). cbn [snd] in *. congruence. }
  destruct (fmt =? c_dz_COMPRESSION_GZIP); [|reflexivity].
  match goal with |- context [dz_ask OT ask w ?q] => pose proof (dz_ask_D w q) as H; destruct (dz_ask OT ask w q) as [a w1] end. cbn [snd] in H.
  destruct (negb (da_rc a =? c_dz_Z_OK)); [|exact H].
  pose proof (dz_ask_D w1 QEnd) as H2. destruct (dz_ask OT ask w1 QEnd). cbn [snd] in *. congruence.
Qed.

Lemma dz_tokens_D fuel : forall input layers nblzma chain cep (w : world),
  dz_D (tx_w OT (dz_tokens OT ask c fuel input layers nblzma chain cep w)) = dz_D w.
Proof.
  induction fuel as [|f IH]; intros input layers nblzma chain cep w; cbn [dz_tokens]; [reflexivity|].
  destruct input as [|b input']; [reflexivity|].
  destruct (dz_get_token_at (b :: input')) as [[skipped tok]|]; [|reflexivity].
  destruct (negb (dc_layers c =? 0) && (layers + 1 >? dc_layers c)); [reflexivity|].
  set (cs := if negb (index_of_mem_nocase tok s_gzip =? -1) then _ else _).
  destruct cs as [cetype stop]. destruct stop; [reflexivity|].
  assert (Hnext : forall chain' cep' (w' : world), dz_D w' = dz_D w ->
     dz_D (tx_w OT (if (length (b :: input') <=? skipped + length tok + 1)%nat then mk_dz_tx OT chain' cep' w' false
               else dz_tokens OT ask c f (skipn (skipped + length tok + 1) (b :: input'))
                      (if negb (dc_layers c =? 0) then layers + 1 else layers) (nblzma + 1) chain' cep' w')) = dz_D w).
  { intros chain' cep' w' H'. destruct (length (b :: input') <=? skipped + length tok + 1)%nat; [exact H'|]. rewrite IH. exact H'. }
  destruct (negb (cetype =? c_dz_COMPRESSION_NONE)); [|apply Hnext; reflexivity].
  pose proof (dz_create_D cetype w) as Hc.
  destruct chain as [|l0 r0]; destruct (dz_create OT ask c cetype w) as [[l|] w1]; cbn [snd] in Hc; try (apply Hnext; exact Hc); exact Hc.
Qed.

Lemma dz_response_headers_D ce (w : world) : dz_D (tx_w OT (dz_response_headers OT ask c ce w)) = dz_D w.
Proof.
  unfold dz_response_headers.
  set (cm := match ce with None => _ | Some v => _ end). destruct cm as [coding multi].
  set (cm2 := if dc_enabled c then (coding, multi) else (c_dz_COMPRESSION_NONE, false)). destruct cm2 as [cep multi2].
  destruct ((cep =? c_dz_COMPRESSION_GZIP) || (cep =? c_dz_COMPRESSION_DEFLATE) || (cep =? c_dz_COMPRESSION_LZMA) || multi2); [|reflexivity].
  destruct (negb multi2).
  - pose proof (dz_create_D cep w) as Hc. destruct (dz_create OT ask c cep w) as [[l|] w1]; exact Hc.
  - destruct ce as [v|]; [|reflexivity]. apply dz_tokens_D.
Qed.

(* the sum of the sizes of the blocks the hook received equals entity_len at the end of the message *)
Theorem dz_delivered_is_entity ce calls (o : OT) :
  let w := tx_w OT (fst (dz_run OT ask c ce calls o)) in
  dz_evsum w = w_entity OT w.
Proof.
  unfold dz_run. cbn [fst tx_w].
  assert (H : dz_D (dz_destroy OT ask (tx_chain OT (dz_calls OT ask c (dz_response_headers OT ask c ce (dz_world0 OT o)) calls))
                      (tx_w OT (dz_calls OT ask c (dz_response_headers OT ask c ce (dz_world0 OT o)) calls))) = 0).
  { rewrite dz_destroy_D, dz_calls_D, dz_response_headers_D. reflexivity. }
  unfold dz_D in H. lia.
Qed.

(* ------------------------------------------------------------------ Part 2: layer limits *)

Definition dz_is_lzma (l : dz_layer) : bool := (dz_zinit l =? c_dz_COMPRESSION_LZMA) && negb (dz_pass l).
Definition dz_nlzma (ls : list dz_layer) : Z := Z.of_nat (length (filter dz_is_lzma ls)).

Lemma dz_create_zinit fmt (w : world) l w' : dz_create OT ask c fmt w = (Some l, w') ->
  dz_zinit l = fmt /\ (dz_is_lzma l = true -> fmt = c_dz_COMPRESSION_LZMA /\ 0 < dc_lzma_layers c).
Proof.
  unfold dz_create, dz_is_lzma.
  destruct (fmt =? c_dz_COMPRESSION_LZMA) eqn:Hl.
  { apply Z.eqb_eq in Hl. destruct ((dc_lzma_mem c >? 0) && (dc_lzma_layers c >? 0)) eqn:Hc; intros H; inversion H; subst; cbn [dz_zinit dz_pass]; split; auto.
    - intros _. split; auto. apply andb_true_iff in Hc. destruct Hc as [_ Hc]. rewrite Z.gtb_ltb in Hc. apply Z.ltb_lt in Hc. exact Hc.
    - rewrite andb_false_r. discriminate. }
  destruct (fmt =? c_dz_COMPRESSION_DEFLATE).
  { destruct (dz_ask OT ask w _) as [a w1]. destruct (negb (da_rc a =? c_dz_Z_OK)); [destruct (dz_ask OT ask w1 QEnd); discriminate|].
    intros H; inversion H; subst; cbn [dz_zinit dz_pass]. split; auto. rewrite Hl. discriminate. }
  destruct (fmt =? c_dz_COMPRESSION_GZIP); [|discriminate].
  destruct (dz_ask OT ask w _) as [a w1]. destruct (negb (da_rc a =? c_dz_Z_OK)); [destruct (dz_ask OT ask w1 QEnd); discriminate|].
  intros H; inversion H; subst; cbn [dz_zinit dz_pass]. split; auto. rewrite Hl. discriminate.
Qed.

Lemma dz_nlzma_app ls l : dz_nlzma (ls ++ [l]) = dz_nlzma ls + (if dz_is_lzma l then 1 else 0).
Proof. unfold dz_nlzma. rewrite filter_app, app_length. cbn [filter]. destruct (dz_is_lzma l); cbn [length]; lia. Qed.

Lemma dz_tokens_layers fuel : forall input layers nblzma chain cep (w : world),
  0 <= nblzma ->
  (0 < dc_layers c -> Z.of_nat (length chain) <= layers /\ layers <= dc_layers c) ->
  dz_nlzma chain <= Z.min nblzma (Z.max 0 (dc_lzma_layers c)) ->
  let t := dz_tokens OT ask c fuel input layers nblzma chain cep w in
  (0 < dc_layers c -> Z.of_nat (length (tx_chain OT t)) <= dc_layers c) /\ dz_nlzma (tx_chain OT t) <= Z.max 0 (dc_lzma_layers c).
Proof.
  induction fuel as [|f IH]; intros input layers nblzma chain cep w Hnb Hlay Hlz; cbn [dz_tokens].
  { cbn [tx_chain]. split; [intros Hp; destruct Hlay; lia|lia]. }
  assert (Hstop : (0 < dc_layers c -> Z.of_nat (length chain) <= dc_layers c) /\ dz_nlzma chain <= Z.max 0 (dc_lzma_layers c)).
  { split; [intros Hp; destruct Hlay; lia|lia]. }
  destruct input as [|b input']; [exact Hstop|].
  destruct (dz_get_token_at (b :: input')) as [[skipped tok]|]; [|exact Hstop].
  destruct (negb (dc_layers c =? 0) && (layers + 1 >? dc_layers c)) eqn:Hlim; [exact Hstop|].
  set (layers2 := if negb (dc_layers c =? 0) then layers + 1 else layers).
  assert (Hlay2 : 0 < dc_layers c -> Z.of_nat (length chain) + 1 <= layers2 /\ layers2 <= dc_layers c).
  { intros Hpos. destruct (Hlay Hpos). assert (Hne : dc_layers c <> 0) by lia. subst layers2. apply Z.eqb_neq in Hne. rewrite Hne in *. cbn [negb andb] in *.
    rewrite Z.gtb_ltb, Z.ltb_ge in Hlim. lia. }
  set (cs := if negb (index_of_mem_nocase tok s_gzip =? -1) then _ else _).
  assert (Hcs : fst cs = c_dz_COMPRESSION_LZMA -> snd cs = false -> nblzma + 1 <= dc_lzma_layers c).
  { subst cs. destruct (negb (index_of_mem_nocase tok s_gzip =? -1)); [cbn; discriminate|].
    destruct (negb (index_of_mem_nocase tok s_deflate =? -1)); [cbn; discriminate|].
    destruct (cmp_mem tok s_lzma =? 0); [|cbn; discriminate].
    cbn [fst snd]. intros _ Hs. rewrite Z.gtb_ltb, Z.ltb_ge in Hs. exact Hs. }
  destruct cs as [cetype stop]. cbn [fst snd] in Hcs. destruct stop; [exact Hstop|].
  assert (Hnext : forall chain' cep' (w' : world),
     (0 < dc_layers c -> Z.of_nat (length chain') <= layers2 /\ layers2 <= dc_layers c) ->
     dz_nlzma chain' <= Z.min (nblzma + 1) (Z.max 0 (dc_lzma_layers c)) ->
     let t := (if (length (b :: input') <=? skipped + length tok + 1)%nat then mk_dz_tx OT chain' cep' w' false
               else dz_tokens OT ask c f (skipn (skipped + length tok + 1) (b :: input')) layers2 (nblzma + 1) chain' cep' w') in
     (0 < dc_layers c -> Z.of_nat (length (tx_chain OT t)) <= dc_layers c) /\ dz_nlzma (tx_chain OT t) <= Z.max 0 (dc_lzma_layers c)).
  { intros chain' cep' w' Hl' Hz'. destruct (length (b :: input') <=? skipped + length tok + 1)%nat.
    - cbn [tx_chain]. split; [intros Hp; destruct Hl'; lia|lia].
    - apply IH; auto; lia. }
  assert (Hsame : dz_nlzma chain <= Z.min (nblzma + 1) (Z.max 0 (dc_lzma_layers c))) by lia.
  assert (Hlaysame : 0 < dc_layers c -> Z.of_nat (length chain) <= layers2 /\ layers2 <= dc_layers c).
  { intros Hne. destruct (Hlay2 Hne). lia. }
  destruct (negb (cetype =? c_dz_COMPRESSION_NONE)); [|apply Hnext; auto].
  assert (Hadd : forall l w1, dz_create OT ask c cetype w = (Some l, w1) -> (if dz_is_lzma l then 1 else 0) + dz_nlzma chain <= Z.min (nblzma + 1) (Z.max 0 (dc_lzma_layers c))).
  { intros l w1 Hcr. apply dz_create_zinit in Hcr. destruct Hcr as [Hz Hl]. destruct (dz_is_lzma l); [|lia].
    destruct (Hl eq_refl) as [Hfmt Hpos]. specialize (Hcs Hfmt eq_refl). lia. }
  destruct chain as [|l0 r0].
  - destruct (dz_create OT ask c cetype w) as [[l|] w1] eqn:Hcr.
    + apply Hnext.
      * intros Hne. destruct (Hlay2 Hne). cbn [length] in *. lia.
      * specialize (Hadd l w1 eq_refl). unfold dz_nlzma in *. cbn [filter length] in *. destruct (dz_is_lzma l); cbn [length]; lia.
    + cbn [tx_chain]. split; [intros; cbn; lia|]. unfold dz_nlzma. cbn. lia.
  - destruct (dz_create OT ask c cetype w) as [[l|] w1] eqn:Hcr.
    + apply Hnext.
      * intros Hne. destruct (Hlay2 Hne). rewrite app_length. cbn [length] in *. lia.
      * specialize (Hadd l w1 eq_refl). rewrite dz_nlzma_app. lia.
    + cbn [tx_chain]. exact Hstop.
Qed.

Theorem dz_layers_bounded ce (w : world) :
  let t := dz_response_headers OT ask c ce w in
  (0 < dc_layers c -> Z.of_nat (length (tx_chain OT t)) <= dc_layers c) /\ dz_nlzma (tx_chain OT t) <= Z.max 0 (dc_lzma_layers c).
Proof.
  unfold dz_response_headers.
  set (cm := match ce with None => _ | Some v => _ end). destruct cm as [coding multi].
  set (cm2 := if dc_enabled c then (coding, multi) else (c_dz_COMPRESSION_NONE, false)). destruct cm2 as [cep multi2].
  assert (Hnil : (0 < dc_layers c -> Z.of_nat (@length dz_layer []) <= dc_layers c) /\ dz_nlzma [] <= Z.max 0 (dc_lzma_layers c)).
  { unfold dz_nlzma. cbn. split; lia. }
  destruct ((cep =? c_dz_COMPRESSION_GZIP) || (cep =? c_dz_COMPRESSION_DEFLATE) || (cep =? c_dz_COMPRESSION_LZMA) || multi2); [|exact Hnil].
  destruct (negb multi2).
  - destruct (dz_create OT ask c cep w) as [[l|] w1] eqn:Hcr; [|exact Hnil].
    apply dz_create_zinit in Hcr. destruct Hcr as [Hz Hl]. cbn [tx_chain length]. split; [lia|].
    unfold dz_nlzma. cbn [filter]. destruct (dz_is_lzma l); cbn [length]; [|lia]. destruct (Hl eq_refl). lia.
  - destruct ce as [v|]; [|exact Hnil]. apply dz_tokens_layers; try lia.
    + intros Hne. cbn. lia.
    + unfold dz_nlzma. cbn. lia.
Qed.
End Bound.

(* ------------------------------------------------------------------ packaged statements (closed) *)

(* bytes handed to the RESPONSE_BODY_DATA hook for the message *)
Definition dz_delivered_bytes {OT} (w : dz_world OT) : Z := dz_evsum OT w.

Theorem dz_C07_bomb_bound :
  forall (OT : Type) (ask : OT -> dz_query -> dz_ans * OT) (c : dz_cfg) (maxchunk : Z) ce calls (o : OT),
    0 <= maxchunk -> dz_calls_ok maxchunk calls ->
    let w := tx_w OT (fst (dz_run OT ask c ce calls o)) in
    dz_delivered_bytes w <= Z.max (dc_bomb c) (2048 * w_message OT w) + Z.max 8192 maxchunk + 8192
                            + Z.max 0 (dc_bomb c) / (c_HTP_COMPRESSION_BOMB_RATIO - 1).
Proof.
  intros. unfold dz_delivered_bytes. subst w. rewrite dz_delivered_is_entity. apply dz_bomb_bound_general; auto.
Qed.

(* with a bomb limit of at most (ratio - 1) output buffers (the default 1 MiB is), three buffers on top of the bound
   when no body call carries more than one buffer *)
Corollary dz_C07_bomb_bound_small_limit :
  forall (OT : Type) (ask : OT -> dz_query -> dz_ans * OT) (c : dz_cfg) (maxchunk : Z) ce calls (o : OT),
    0 <= maxchunk -> dz_calls_ok maxchunk calls ->
    dc_bomb c <= (c_HTP_COMPRESSION_BOMB_RATIO - 1) * c_GZIP_BUF_SIZE ->
    let w := tx_w OT (fst (dz_run OT ask c ce calls o)) in
    dz_delivered_bytes w <= Z.max (dc_bomb c) (2048 * w_message OT w) + Z.max 8192 maxchunk + 2 * 8192.
Proof.
  intros OT ask c maxchunk ce calls o Hmc Hcalls Hlim w.
  pose proof (dz_C07_bomb_bound OT ask c maxchunk ce calls o Hmc Hcalls) as H. cbv zeta in H. fold w in H.
  pose proof dz_bomb_ratio_ge as HR. rewrite dz_buf_size in Hlim.
  assert (Z.max 0 (dc_bomb c) / (c_HTP_COMPRESSION_BOMB_RATIO - 1) <= 8192).
  { apply Z.div_le_upper_bound; lia. }
  lia.
Qed.

(* ... and when no body call carries more than one buffer: three output buffers on top of max(limit, 2048 x message_len) *)
Corollary dz_C07_bomb_bound_small_blocks :
  forall (OT : Type) (ask : OT -> dz_query -> dz_ans * OT) (c : dz_cfg) ce calls (o : OT),
    dz_calls_ok 8192 calls ->
    dc_bomb c <= (c_HTP_COMPRESSION_BOMB_RATIO - 1) * c_GZIP_BUF_SIZE ->
    let w := tx_w OT (fst (dz_run OT ask c ce calls o)) in
    dz_delivered_bytes w <= Z.max (dc_bomb c) (2048 * w_message OT w) + 3 * c_GZIP_BUF_SIZE.
Proof.
  intros OT ask c ce calls o Hcalls Hlim w.
  assert (H0 : 0 <= 8192) by lia.
  pose proof (dz_C07_bomb_bound_small_limit OT ask c 8192 ce calls o H0 Hcalls Hlim) as H. cbv zeta in H. fold w in H.
  rewrite dz_buf_size. lia.
Qed.

Theorem dz_C07_layers_bounded :
  forall (OT : Type) (ask : OT -> dz_query -> dz_ans * OT) (c : dz_cfg) ce (w : dz_world OT),
    let t := dz_response_headers OT ask c ce w in
    (0 < dc_layers c -> Z.of_nat (length (tx_chain OT t)) <= dc_layers c) /\
    dz_nlzma (tx_chain OT t) <= Z.max 0 (dc_lzma_layers c).
Proof. intros. apply dz_layers_bounded. Qed.

(* the heart of the bound: the callback only answers HTP_OK from a state within the bound ... *)
Theorem dz_C07_accepted_means_within_bound :
  forall (OT : Type) (c : dz_cfg) d (w w' : dz_world OT),
    dz_callback OT c d w = (w', c_HTP_OK) ->
    w_entity OT w' <= Z.max (dc_bomb c) (c_HTP_COMPRESSION_BOMB_RATIO * w_message OT w').
Proof. intros OT c d w w' H. apply dz_callback_spec in H. destruct H as (_ & _ & H). apply H. reflexivity. Qed.

(* ... and a decompress call that starts within the bound goes over it by at most ONE block (output buffer or the chunk itself),
   for any chain depth and any external behaviour; it reports HTP_OK only from a state within the bound *)
Theorem dz_C07_one_block_over :
  forall (OT : Type) (ask : OT -> dz_query -> dz_ans * OT) (c : dz_cfg) n ls d (w : dz_world OT) ls' w' r,
    dz_decompress OT ask c n ls d w = (ls', w', r) ->
    Forall dz_wf ls -> dz_clean OT c w ->
    w_entity OT w' <= dz_M OT c w + Z.max (Z.of_nat dz_BUF) (dz_len d) /\ w_message OT w' = w_message OT w /\ (r = c_HTP_OK -> dz_clean OT c w').
Proof.
  intros OT ask c n ls d w ls' w' r H Hwf Hc.
  assert (Htriv : w_entity OT w <= dz_M OT c w + Z.max (Z.of_nat dz_BUF) (dz_len d) /\ w_message OT w = w_message OT w /\ (c_HTP_ERROR = c_HTP_OK -> dz_clean OT c w)).
  { unfold dz_clean in Hc. pose proof (dz_len_nonneg d). split; [lia|]. split; auto. }
  destruct n as [|n]; cbn [dz_decompress] in H.
  - inversion H; subst. exact Htriv.
  - destruct ls as [|l rest].
    + inversion H; subst. exact Htriv.
    + inversion Hwf; subst.
      eapply (dz_layer_run_spec OT ask c _ (dz_decompress_next_ok OT ask c n) (Z.max (Z.of_nat dz_BUF) (dz_len d))) in H; eauto; try lia.
      destruct H as (Hm & _ & _ & Hb & Hok & _). split; auto.
Qed.

(* ------------------------------------------------------------------ Part 3: the wrapper is faithful (single layer, no restart) *)

Definition dz_devs {OT} (w : dz_world OT) : bytes := concat (map dd_bytes (rev (w_events OT w))).

Section Faithful.
(* the external decoder as a state machine *)
Variable zst : Type.
Variable zinit : Z -> zst.                                             (* state after inflateInit2(windowBits) *)
Variable zinflate : zst -> bytes -> nat -> zst * nat * bytes * Z.      (* state, offered input, avail_out -> state', consumed, produced, rc *)

Definition zask (z : zst) (q : dz_query) : dz_ans * zst :=
  match q with
  | QInit wb => (mk_dz_ans 0 [] c_dz_Z_OK 0, zinit wb)
  | QInflate inp ao => let '(z', cn, out, rc) := zinflate z inp ao in (mk_dz_ans cn out rc 0, z')
  | _ => (mk_dz_ans 0 [] 0 0, z)
  end.

(* zvalid z s p: in state z, the rest s of the stream decodes to the rest p of the payload.
   Contract: offered a non-empty prefix of the rest of the stream and room for output, the decoder consumes a part of what is
   offered, produces the next part of the payload, makes progress, and reports Z_STREAM_END exactly in the call that consumes the
   last byte of the stream, with all output produced (true of formats with a trailer: gzip, zlib). *)
Variable zvalid : zst -> bytes -> bytes -> Prop.
Hypothesis Hz2 : forall z s p offered rest ao,
  zvalid z s p -> s = offered ++ rest -> offered <> [] -> (0 < ao)%nat ->
  let '(z', cn, out, rc) := zinflate z offered ao in
  (cn <= length offered)%nat /\ (length out <= ao)%nat /\ exists p', p = out ++ p' /\
  ((rc = c_dz_Z_OK /\ zvalid z' (skipn cn s) p' /\ (0 < cn + length out)%nat /\ skipn cn s <> []) \/
   (rc = c_dz_Z_STREAM_END /\ skipn cn s = [] /\ p' = [])).

Variable c : dz_cfg.
Variable t0 : Z * Z.
Hypothesis Hclock : forall k, dc_clock c k = t0.
Hypothesis Htlimit : 0 <= dc_tlimit c.
Hypothesis Hhook : forall k, dc_hook c k = c_HTP_OK.

Variable fmt : Z.
Hypothesis Hfmt : fmt = c_dz_COMPRESSION_GZIP \/ fmt = c_dz_COMPRESSION_DEFLATE.
Variable p : bytes.                                   (* the payload *)
Hypothesis Hbomb : Z.of_nat (length p) <= dc_bomb c.  (* the bomb test cannot fire *)

Notation world := (dz_world zst).
Definition dz_BW0 (w : world) : Prop := w_tspent zst w = 0 /\ w_tpass zst w = false.
Definition dz_BW (w : world) : Prop := dz_BW0 w /\ w_tbefore zst w = t0.

Ltac wsimpl := cbn [w_o w_entity w_message w_events w_nhook w_nclock w_nbcb w_tbefore w_tspent w_tpass w_trace w_late
                    w_set_o w_set_entity w_set_message w_push_event w_tick_clock w_set_nbcb w_set_tbefore w_set_tspent
                    w_set_tpass w_set_trace w_set_late
                    dz_pass dz_restart dz_zinit dz_obuf dz_hlen dz_fed
                    dz_set_pass dz_set_restart dz_set_zinit dz_set_obuf dz_set_hlen dz_set_fed fst snd] in *.

Lemma dz_timer_track_same sp t : dz_timer_track sp t t = Some sp.
Proof. unfold dz_timer_track. destruct t as [a b]. rewrite Z.ltb_irrefl, Z.eqb_refl, Z.ltb_irrefl. f_equal. lia. Qed.

Lemma dz_devs_push (w : world) d : dz_devs (w_push_event zst w d) = dz_devs w ++ dd_bytes d.
Proof. unfold dz_devs. wsimpl. cbn [rev]. rewrite map_app, concat_app. cbn. rewrite app_nil_r. reflexivity. Qed.

(* a callback in a benign world: accepted *)
Lemma dz_callback_benign d (w : world) :
  dz_BW w -> w_entity zst w = Z.of_nat (length (dz_devs w)) ->
  (Z.of_nat (length (dz_devs w)) + dz_len d <= dc_bomb c \/
   Z.of_nat (length (dz_devs w)) + dz_len d <= c_HTP_COMPRESSION_BOMB_RATIO * w_message zst w) ->
  exists w', dz_callback zst c d w = (w', c_HTP_OK) /\ dz_BW w' /\ w_o zst w' = w_o zst w /\
             dz_devs w' = dz_devs w ++ dd_bytes d /\ w_entity zst w' = Z.of_nat (length (dz_devs w')) /\ w_message zst w' = w_message zst w.
Proof.
  intros ((Hsp & Htp) & Htb) Hent Hb. unfold dz_callback.
  set (w1 := w_set_entity zst w (w_entity zst w + dz_len d)).
  assert (Hh : exists w2, dz_run_hook zst c d w1 = (w2, c_HTP_OK) /\ dz_devs w2 = dz_devs w ++ dd_bytes d /\
             w_entity zst w2 = w_entity zst w + dz_len d /\ w_o zst w2 = w_o zst w /\ w_message zst w2 = w_message zst w /\
             w_tspent zst w2 = 0 /\ w_tpass zst w2 = false /\ w_tbefore zst w2 = t0).
  { unfold dz_run_hook. destruct (negb (dd_null d) && (dz_len d =? 0)) eqn:Hz.
    - exists w1. subst w1. wsimpl. repeat split; auto.
      apply andb_true_iff in Hz. destruct Hz as [_ Hz]. apply Z.eqb_eq in Hz. unfold dz_len in Hz.
      destruct (dd_bytes d); [rewrite app_nil_r; reflexivity|cbn in Hz; lia].
    - exists (w_push_event zst w1 d). rewrite Hhook. subst w1. repeat split; auto. rewrite dz_devs_push. reflexivity. }
  destruct Hh as (w2 & Hh & Hd2 & He2 & Ho2 & Hm2 & Hsp2 & Htp2 & Htb2). rewrite Hh.
  rewrite Z.eqb_refl. cbn [negb].
  set (w3 := dz_cb_clock zst c (w_set_nbcb zst w2 (w_nbcb zst w2 + 1))).
  assert (H3 : w_entity zst w3 = w_entity zst w2 /\ w_message zst w3 = w_message zst w2 /\ w_o zst w3 = w_o zst w2 /\
               w_events zst w3 = w_events zst w2 /\ dz_BW w3).
  { subst w3. unfold dz_cb_clock, dz_gettimeofday. wsimpl.
    destruct ((w_nbcb zst w2 + 1) mod c_HTP_COMPRESSION_TIME_FREQ_TEST =? 0).
    - rewrite Hclock. wsimpl. rewrite Htb2, Hsp2, dz_timer_track_same.
      assert (Hng : (0 >? dc_tlimit c) = false) by (rewrite Z.gtb_ltb; apply Z.ltb_ge; lia). rewrite Hng.
      wsimpl. unfold dz_BW, dz_BW0. wsimpl. repeat split; auto.
    - unfold dz_BW, dz_BW0. wsimpl. repeat split; auto. }
  destruct H3 as (He3 & Hm3 & Ho3 & Hev3 & HBW3).
  assert (Hd3 : dz_devs w3 = dz_devs w2) by (unfold dz_devs; rewrite Hev3; reflexivity).
  assert (Hlen : w_entity zst w3 = Z.of_nat (length (dz_devs w3))).
  { rewrite He3, He2, Hd3, Hd2, Hent, app_length. unfold dz_len. lia. }
  assert (Hnb : (w_entity zst w3 >? dc_bomb c) && (w_entity zst w3 >? c_HTP_COMPRESSION_BOMB_RATIO * w_message zst w3) = false).
  { apply andb_false_iff. rewrite !Z.gtb_ltb, !Z.ltb_ge. rewrite He3, He2, Hent, Hm3, Hm2. destruct Hb as [Hb|Hb]; [left|right]; exact Hb. }
  rewrite Hnb.
  exists w3. repeat split; auto; try congruence; try apply HBW3.
Qed.

Ltac csplit := repeat match goal with |- _ /\ _ => split end.

Definition dz_FI (z : zst) (s_rem p_rem : bytes) (l : dz_layer) (w : world) : Prop :=
  zvalid z s_rem p_rem /\ w_o zst w = z /\ dz_pass l = false /\ dz_zinit l = fmt /\
  dz_devs w ++ dz_obuf l ++ p_rem = p /\ (length (dz_obuf l) <= dz_BUF)%nat /\ dz_BW w /\
  w_entity zst w = Z.of_nat (length (dz_devs w)).
Definition dz_FD (l : dz_layer) (w : world) : Prop :=
  dz_pass l = false /\ dz_zinit l = fmt /\ dz_obuf l = [] /\ dz_devs w = p /\ dz_BW w /\
  w_entity zst w = Z.of_nat (length (dz_devs w)).

Lemma dz_fmt_facts : (fmt =? c_dz_COMPRESSION_LZMA) = false /\ (fmt =? 0) = false.
Proof. destruct Hfmt as [-> | ->]; split; reflexivity. Qed.

Lemma dz_skipn_app_le {A} n (a b : list A) : (n <= length a)%nat -> skipn n (a ++ b) = skipn n a ++ b.
Proof. intros H. rewrite skipn_app. replace (n - length a)%nat with O by lia. reflexivity. Qed.

Lemma dz_loop_faithful next d fuel : forall input rest z p_rem l (w : world) rc0,
  dz_FI z (input ++ rest) p_rem l w -> input ++ rest <> [] -> (length input + length p_rem < fuel)%nat ->
  exists l' w' r, dz_loop zst zask c next fuel d l [] w input rc0 = (l', [], w', r) /\ w_message zst w' = w_message zst w /\
    ((rest <> [] /\ exists z' p_rem', dz_FI z' rest p_rem' l' w') \/ (rest = [] /\ dz_FD l' w')).
Proof.
  destruct dz_fmt_facts as [Hnl Hn0].
  induction fuel as [|f IH]; intros input rest z p_rem l w rc0 HFI Hne Hfuel; [lia|].
  cbn [dz_loop]. destruct input as [|b input'].
  { exists l, w, c_HTP_OK. split; auto. split; auto. left. cbn [app] in *. split; auto. exists z, p_rem. exact HFI. }
  set (input := b :: input') in *.
  destruct HFI as (Hv & Ho & Hp & Hz & Hpay & Hlen & HBW & Hent).
  (* the buffer-full flush *)
  assert (Hfl : exists l1 w1, dz_flush_full zst zask c next l [] w = inl (l1, [], w1) /\ (0 < dz_avail_out l1)%nat /\
            w_o zst w1 = z /\ dz_pass l1 = false /\ dz_zinit l1 = fmt /\ dz_devs w1 ++ dz_obuf l1 ++ p_rem = p /\
            (length (dz_obuf l1) <= dz_BUF)%nat /\ dz_BW w1 /\ w_entity zst w1 = Z.of_nat (length (dz_devs w1)) /\ w_message zst w1 = w_message zst w).
  { unfold dz_flush_full. destruct (dz_avail_out l =? 0)%nat eqn:Hao.
    - apply Nat.eqb_eq in Hao. unfold dz_deliver.
      destruct (dz_callback_benign (dz_some (dz_obuf l)) w HBW Hent) as (w1 & Hcb & HBW1 & Ho1 & Hd1 & He1 & Hm1).
      { left. rewrite <- Hpay in Hbomb. rewrite !app_length in Hbomb. unfold dz_len. cbn [dd_bytes dz_some]. lia. }
      rewrite Hcb. rewrite Z.eqb_refl. cbn [negb].
      exists (dz_set_obuf l []), w1. wsimpl. cbn [dd_bytes dz_some] in Hd1. csplit; auto; try congruence.
      + unfold dz_avail_out. wsimpl. cbn [length]. pose proof dz_BUF_val as HBV. rewrite dz_buf_size in HBV. lia.
      + rewrite Hd1, <- app_assoc. cbn [app]. exact Hpay.
      + cbn. lia.
    - apply Nat.eqb_neq in Hao. exists l, w. csplit; auto. lia. }
  destruct Hfl as (l1 & w1 & Hfl & Hao1 & Ho1 & Hp1 & Hz1 & Hpay1 & Hlen1 & HBW1 & Hent1 & Hm1).
  unfold dz_iter. rewrite Hfl.
  (* the inflate call *)
  pose proof (Hz2 z (input ++ rest) p_rem input rest (dz_avail_out l1) Hv eq_refl) as Hc.
  assert (Hin : input <> []) by (subst input; discriminate).
  specialize (Hc Hin Hao1).
  unfold dz_decode. rewrite Hz1, Hnl, Hn0. cbn [negb].
  unfold dz_ask. rewrite Ho1. cbn [zask].
  destruct (zinflate z input (dz_avail_out l1)) as [[[z' cn] out] rc].
  destruct Hc as (Hcn & Hout & p' & Hp' & Hcase). wsimpl. cbn [da_consumed da_out da_rc].
  rewrite (Nat.min_l _ _ Hcn). rewrite (firstn_all2 out Hout).
  set (l2 := dz_set_obuf l1 (dz_obuf l1 ++ out)). set (w2 := w_set_o zst w1 z').
  assert (Hlen2 : (length (dz_obuf l2) <= dz_BUF)%nat).
  { subst l2. wsimpl. rewrite app_length. unfold dz_avail_out in Hout. lia. }
  unfold dz_after.
  destruct Hcase as [(Hrc & Hv' & Hprog & Hmore)|(Hrc & Hdone & Hp'nil)].
  - (* Z_OK *)
    subst rc. replace (c_dz_Z_OK =? c_dz_Z_DATA_ERROR) with false by reflexivity. rewrite andb_false_r.
    replace (c_dz_Z_OK =? c_dz_Z_STREAM_END) with false by reflexivity. rewrite Z.eqb_refl. cbn [negb].
    rewrite dz_skipn_app_le in Hv', Hmore by exact Hcn.
    destruct (IH (skipn cn input) rest z' p' l2 w2 c_dz_Z_OK) as (l3 & w3 & r3 & Hloop & Hm3 & Hres).
    + subst l2 w2. unfold dz_FI. wsimpl. csplit; auto.
      rewrite <- Hpay1, Hp'. rewrite <- !app_assoc. reflexivity.
    + exact Hmore.
    + rewrite Hp', app_length in Hfuel. pose proof (skipn_length cn input). lia.
    + exists l3, w3, r3. split; auto. split; [subst w2; wsimpl; congruence|exact Hres].
  - (* Z_STREAM_END *)
    subst rc p'. rewrite app_nil_r in Hp'. replace (c_dz_Z_STREAM_END =? c_dz_Z_DATA_ERROR) with false by reflexivity. rewrite andb_false_r.
    rewrite Z.eqb_refl. unfold dz_deliver.
    assert (HBW2 : dz_BW w2) by (subst w2; exact HBW1).
    assert (Hent2 : w_entity zst w2 = Z.of_nat (length (dz_devs w2))) by (subst w2; exact Hent1).
    destruct (dz_callback_benign (dz_some (dz_obuf l2)) w2 HBW2 Hent2) as (w3 & Hcb & HBW3 & Ho3 & Hd3 & He3 & Hm3).
    { left. subst l2 w2. wsimpl. rewrite <- Hpay1, Hp' in Hbomb. rewrite !app_length in Hbomb. unfold dz_len. cbn [dd_bytes dz_some]. rewrite app_length.
      replace (dz_devs (w_set_o zst w1 z')) with (dz_devs w1) by reflexivity. lia. }
    rewrite Hcb. rewrite Z.eqb_refl. cbn [negb].
    exists (dz_set_obuf l2 []), w3, c_HTP_OK. split; auto. split; [subst w2; wsimpl; congruence|]. right.
    rewrite dz_skipn_app_le in Hdone by exact Hcn. apply app_eq_nil in Hdone. destruct Hdone as [_ Hrest]. split; auto.
    unfold dz_FD. subst l2. wsimpl. csplit; auto.
    rewrite Hd3. cbn [dd_bytes dz_some]. subst w2. replace (dz_devs (w_set_o zst w1 z')) with (dz_devs w1) by reflexivity.
    rewrite <- Hpay1, Hp'. reflexivity.
Qed.

(* between two body calls *)
Definition dz_TI (z : zst) (s_rem p_rem : bytes) (t : dz_tx zst) : Prop :=
  exists l, tx_chain zst t = [l] /\ tx_cep zst t = fmt /\ zvalid z s_rem p_rem /\ w_o zst (tx_w zst t) = z /\ dz_pass l = false /\
    dz_zinit l = fmt /\ dz_devs (tx_w zst t) ++ dz_obuf l ++ p_rem = p /\ (length (dz_obuf l) <= dz_BUF)%nat /\ dz_BW0 (tx_w zst t) /\
    w_entity zst (tx_w zst t) = Z.of_nat (length (dz_devs (tx_w zst t))).
Definition dz_TD (t : dz_tx zst) : Prop :=
  exists l, tx_chain zst t = [l] /\ tx_cep zst t = fmt /\ dz_pass l = false /\ dz_zinit l = fmt /\ dz_obuf l = [] /\
    dz_devs (tx_w zst t) = p /\ dz_BW0 (tx_w zst t) /\ w_entity zst (tx_w zst t) = Z.of_nat (length (dz_devs (tx_w zst t))).

Lemma dz_fmt_coded : dz_is_coded fmt = true.
Proof. destruct Hfmt as [-> | ->]; reflexivity. Qed.

Lemma dz_BW_enter (w : world) m : dz_BW0 w ->
  dz_BW (w_set_nbcb zst (w_set_tbefore zst (w_tick_clock zst (w_set_message zst w m)) (dc_clock c (w_nclock zst (w_set_message zst w m)))) 0).
Proof. intros [H1 H2]. unfold dz_BW, dz_BW0. wsimpl. rewrite Hclock. auto. Qed.

(* the tail of htp_tx_res_process_body_data_ex after decompress returned, in a benign world: nothing happens *)
Lemma dz_after_call_benign (w : world) : dz_BW w ->
  match dz_timer_track (w_tspent zst (w_tick_clock zst w)) (dc_clock c (w_nclock zst w)) (w_tbefore zst (w_tick_clock zst w)) with
  | Some sp => if sp >? dc_tlimit c then w_set_tpass zst (w_set_tspent zst (w_tick_clock zst w) sp) true else w_set_tspent zst (w_tick_clock zst w) sp
  | None => w_tick_clock zst w
  end = w_set_tspent zst (w_tick_clock zst w) 0.
Proof.
  intros ((Hsp & Htp) & Htb). wsimpl. rewrite Hclock, Htb, Hsp, dz_timer_track_same.
  assert (Hng : (0 >? dc_tlimit c) = false) by (rewrite Z.gtb_ltb; apply Z.ltb_ge; lia). rewrite Hng. reflexivity.
Qed.

Lemma dz_process_data_faithful (t : dz_tx zst) z ch rest p_rem :
  dz_TI z (ch ++ rest) p_rem t -> ch <> [] -> Z.of_nat (length ch) <= c_dz_UINT32_MAX -> (length ch + length p < dc_fuel c)%nat ->
  let t' := fst (dz_process_body_data zst zask c t 0 (Some ch)) in
  (rest <> [] /\ exists z' p_rem', dz_TI z' rest p_rem' t') \/ (rest = [] /\ dz_TD t').
Proof.
  intros (l & Hch & Hcep & Hv & Ho & Hp & Hz & Hpay & Hlen & HBW0 & Hent) Hne Hu32 Hfuel t'.
  assert (Ht' : t' = fst (dz_process_body_data zst zask c t 0 (Some ch))) by reflexivity. clearbody t'.
  unfold dz_process_body_data in Ht'. cbv zeta in Ht'. rewrite Hcep, dz_fmt_coded, Hch in Ht'.
  cbn [dz_data_of] in Ht'. unfold dz_gettimeofday at 1 in Ht'.
  set (w1 := w_set_message zst (tx_w zst t) (w_message zst (tx_w zst t) + 0 + dz_len (dz_some ch))) in *.
  set (w2 := w_set_nbcb zst (w_set_tbefore zst (w_tick_clock zst w1) (dc_clock c (w_nclock zst w1))) 0) in *.
  assert (HBW2 : dz_BW w2) by (apply dz_BW_enter; exact HBW0).
  cbn [length dz_decompress] in Ht'. unfold dz_layer_run in Ht'. rewrite Hp in Ht'. cbn [dd_null dz_some] in Ht'.
  assert (Henter : dz_enter (dz_some ch) 0 = Some ch).
  { unfold dz_enter. cbn [dd_bytes dz_some skipn]. unfold dz_len. cbn [dd_bytes dz_some].
    replace (length ch <? 0)%nat with false by (symmetry; apply Nat.ltb_ge; lia).
    replace (Z.of_nat (length ch) >? c_dz_UINT32_MAX) with false by (symmetry; rewrite Z.gtb_ltb; apply Z.ltb_ge; lia). reflexivity. }
  rewrite Henter in Ht'.
  assert (HFI : dz_FI z (ch ++ rest) p_rem l w2).
  { unfold dz_FI. csplit; auto. }
  assert (Hne2 : ch ++ rest <> []) by (destruct ch; [congruence|discriminate]).
  assert (Hf2 : (length ch + length p_rem < dc_fuel c)%nat).
  { rewrite <- Hpay in Hfuel. rewrite !app_length in Hfuel. lia. }
  destruct (dz_loop_faithful (fun (ls : list dz_layer) (_ : dz_data) (w : world) => (ls, w, c_HTP_ERROR)) (dz_some ch) (dc_fuel c) ch rest z p_rem l w2 0 HFI Hne2 Hf2)
    as (l3 & w3 & r3 & Hloop & Hm3 & Hres).
  rewrite Hloop in Ht'. cbn [dd_bytes dz_some] in Ht'. destruct ch as [|b ch']; [congruence|].
  unfold dz_gettimeofday in Ht'. cbn [fst] in Ht'.
  assert (HBW3 : dz_BW w3) by (destruct Hres as [(_ & z' & p' & HF)|(_ & HF)]; [apply HF|apply HF]).
  rewrite (dz_after_call_benign w3 HBW3) in Ht'. wsimpl.
  pose proof HBW3 as ((Hsp3 & Htp3) & Htb3). rewrite Htp3 in Ht'.
  set (w4 := w_set_tpass zst (w_set_tspent zst (w_tick_clock zst w3) 0) false) in *.
  assert (HBW04 : dz_BW0 w4) by (unfold dz_BW0; subst w4; wsimpl; auto).
  subst t'.
  destruct Hres as [(Hr & z' & p' & HF)|(Hr & HF)]; [left|right]; split; auto.
  - exists z', p'. destruct HF as (Hv' & Ho' & Hp' & Hz' & Hpay' & Hlen' & _ & Hent').
    exists (dz_set_fed l3 true). cbn [tx_chain tx_cep tx_w]. wsimpl. csplit; auto.
  - destruct HF as (Hp' & Hz' & Hob' & Hd' & _ & Hent').
    exists (dz_set_fed l3 true). cbn [tx_chain tx_cep tx_w]. wsimpl. csplit; auto.
Qed.

(* the end-of-stream call after the stream end: nothing more comes out, the decompressor is destroyed *)
Lemma dz_process_null_faithful (t : dz_tx zst) :
  dz_TD t ->
  let t' := fst (dz_process_body_data zst zask c t 0 None) in
  dz_devs (tx_w zst t') = p /\ tx_chain zst t' = [].
Proof.
  intros (l & Hch & Hcep & Hp & Hz & Hob & Hd & HBW0 & Hent) t'.
  assert (Ht' : t' = fst (dz_process_body_data zst zask c t 0 None)) by reflexivity. clearbody t'.
  unfold dz_process_body_data in Ht'. cbv zeta in Ht'. rewrite Hcep, dz_fmt_coded, Hch in Ht'.
  cbn [dz_data_of] in Ht'. unfold dz_gettimeofday at 1 in Ht'.
  set (w1 := w_set_message zst (tx_w zst t) (w_message zst (tx_w zst t) + 0 + dz_len dz_null)) in *.
  set (w2 := w_set_nbcb zst (w_set_tbefore zst (w_tick_clock zst w1) (dc_clock c (w_nclock zst w1))) 0) in *.
  assert (HBW2 : dz_BW w2) by (apply dz_BW_enter; exact HBW0).
  cbn [length dz_decompress] in Ht'. unfold dz_layer_run in Ht'. rewrite Hp, Hob in Ht'. cbn [dd_null dz_null] in Ht'.
  assert (Hent2 : w_entity zst w2 = Z.of_nat (length (dz_devs w2))) by exact Hent.
  destruct (dz_callback_benign dz_null w2 HBW2 Hent2) as (w3 & Hcb & HBW3 & Ho3 & Hd3 & He3 & Hm3).
  { left. replace (dz_devs w2) with (dz_devs (tx_w zst t)) by reflexivity. rewrite Hd. unfold dz_len. cbn. lia. }
  rewrite Hcb, Z.eqb_refl in Ht'. cbn [negb] in Ht'.
  unfold dz_gettimeofday in Ht'. rewrite (dz_after_call_benign w3 HBW3) in Ht'. cbn [fst] in Ht'.
  pose proof HBW3 as ((Hsp3 & Htp3) & Htb3). wsimpl. rewrite Htp3 in Ht'.
  cbn [dz_destroy] in Ht'. unfold dz_end in Ht'. destruct dz_fmt_facts as [Hnl Hn0]. rewrite Hz, Hnl, Hn0 in Ht'. cbn [negb] in Ht'.
  unfold dz_ask in Ht'. cbn [zask] in Ht'. subst t'. cbn [tx_w tx_chain]. split; auto.
  unfold dz_devs in *. wsimpl. rewrite Hd3. cbn [dd_bytes dz_null]. rewrite app_nil_r. exact Hd.
Qed.

Lemma dz_calls_faithful chunks : forall (t : dz_tx zst) z p_rem,
  dz_TI z (concat chunks) p_rem t -> concat chunks <> [] ->
  Forall (fun ch => ch <> [] /\ Z.of_nat (length ch) <= c_dz_UINT32_MAX /\ (length ch + length p < dc_fuel c)%nat) chunks ->
  dz_TD (dz_calls zst zask c t (map (fun ch => (0, Some ch)) chunks)).
Proof.
  induction chunks as [|ch r IH]; intros t z p_rem HTI Hne Hall; [cbn in Hne; congruence|].
  inversion Hall as [|? ? (Hc1 & Hc2 & Hc3) Hall']; subst. cbn [map dz_calls concat] in *.
  destruct (dz_process_data_faithful t z ch (concat r) p_rem HTI Hc1 Hc2 Hc3) as [(Hr & z' & p' & HTI')|(Hr & HTD)].
  - eapply IH; eauto.
  - destruct r as [|ch2 r2]; [exact HTD|].
    inversion Hall' as [|? ? (Hd1 & _) _]; subst. cbn [concat] in Hr. destruct ch2; [congruence|discriminate].
Qed.

Hypothesis Henabled : dc_enabled c = true.

Lemma dz_cmp_gzip : (cmp_mem_nocasenorzero s_gzip s_gzip =? 0) = true. Proof. vm_compute. reflexivity. Qed.
Lemma dz_cmp_deflate_1 : (cmp_mem_nocasenorzero s_deflate s_gzip =? 0) = false. Proof. vm_compute. reflexivity. Qed.
Lemma dz_cmp_deflate_2 : (cmp_mem_nocasenorzero s_deflate s_xgzip =? 0) = false. Proof. vm_compute. reflexivity. Qed.
Lemma dz_cmp_deflate_3 : (cmp_mem_nocasenorzero s_deflate s_deflate =? 0) = true. Proof. vm_compute. reflexivity. Qed.

Lemma dz_headers_single ce wb (o : zst) :
  (fmt = c_dz_COMPRESSION_GZIP /\ ce = s_gzip /\ wb = 15 + 32) \/ (fmt = c_dz_COMPRESSION_DEFLATE /\ ce = s_deflate /\ wb = -15) ->
  dz_response_headers zst zask c (Some ce) (dz_world0 zst o) =
  mk_dz_tx zst [mk_dz_layer false 0 fmt [] 0 false] fmt (w_set_o zst (dz_world0 zst o) (zinit wb)) false.
Proof.
  intros [(Hf & Hce & Hwb)|(Hf & Hce & Hwb)]; subst ce wb; unfold dz_response_headers; rewrite Henabled.
  - rewrite dz_cmp_gzip. cbn [orb]. rewrite Hf. reflexivity.
  - rewrite dz_cmp_deflate_1, dz_cmp_deflate_2, dz_cmp_deflate_3. cbn [orb]. rewrite Hf. reflexivity.
Qed.

Lemma dz_calls_app (t : dz_tx zst) a b : dz_calls zst zask c t (a ++ b) = dz_calls zst zask c (dz_calls zst zask c t a) b.
Proof. revert t. induction a as [|[e d] r IH]; intros t; cbn [app dz_calls]; auto. Qed.

Theorem dz_wrapper_faithful ce wb s chunks (o : zst) :
  (fmt = c_dz_COMPRESSION_GZIP /\ ce = s_gzip /\ wb = 15 + 32) \/ (fmt = c_dz_COMPRESSION_DEFLATE /\ ce = s_deflate /\ wb = -15) ->
  zvalid (zinit wb) s p -> s <> [] -> concat chunks = s ->
  Forall (fun ch => ch <> [] /\ Z.of_nat (length ch) <= c_dz_UINT32_MAX /\ (length ch + length p < dc_fuel c)%nat) chunks ->
  dz_devs (tx_w zst (fst (dz_run zst zask c (Some ce) (map (fun ch => (0, Some ch)) chunks ++ [(0, None)]) o))) = p.
Proof.
  intros Hsel Hv Hs Hcat Hall. unfold dz_run. rewrite (dz_headers_single ce wb o Hsel). cbn [fst tx_w tx_chain tx_cep].
  rewrite dz_calls_app.
  set (tx0 := mk_dz_tx zst [mk_dz_layer false 0 fmt [] 0 false] fmt (w_set_o zst (dz_world0 zst o) (zinit wb)) false).
  assert (HTI : dz_TI (zinit wb) (concat chunks) p tx0).
  { exists (mk_dz_layer false 0 fmt [] 0 false). subst tx0. cbn [tx_chain tx_cep tx_w]. wsimpl. rewrite Hcat.
    unfold dz_BW0, dz_devs, dz_world0. wsimpl. cbn. csplit; auto. lia. }
  assert (Hne : concat chunks <> []) by congruence.
  pose proof (dz_calls_faithful chunks tx0 (zinit wb) p HTI Hne Hall) as HTD.
  set (t1 := dz_calls zst zask c tx0 (map (fun ch => (0, Some ch)) chunks)) in *.
  pose proof (dz_process_null_faithful t1 HTD) as [Hd Hc]. cbv zeta in Hd, Hc.
  change (dz_calls zst zask c t1 [(0, None)]) with (fst (dz_process_body_data zst zask c t1 0 None)).
  rewrite Hc. cbn [dz_destroy]. exact Hd.
Qed.
End Faithful.

(* ------------------------------------------------------------------ Part 4: data that no decoder accepts is passed through *)

Section Passthrough.
Variable OT : Type.
Variable ask : OT -> dz_query -> dz_ans * OT.
(* every inflate attempt fails at once without output (Z_DATA_ERROR), re-initialisation succeeds *)
Hypothesis Hrej : forall o inp ao, da_rc (fst (ask o (QInflate inp ao))) = c_dz_Z_DATA_ERROR /\ da_out (fst (ask o (QInflate inp ao))) = [].
Hypothesis Hini : forall o wb, da_rc (fst (ask o (QInit wb))) = c_dz_Z_OK.

Variable c : dz_cfg.
Variable t0 : Z * Z.
Hypothesis Hclock : forall k, dc_clock c k = t0.
Hypothesis Htlimit : 0 <= dc_tlimit c.
Hypothesis Hhook : forall k, dc_hook c k = c_HTP_OK.
Hypothesis Hfuel : (5 <= dc_fuel c)%nat.

Notation world := (dz_world OT).
Notation BW := (dz_BW OT t0).
Notation BW0 := (dz_BW0 OT).

Ltac wsimpl := cbn [w_o w_entity w_message w_events w_nhook w_nclock w_nbcb w_tbefore w_tspent w_tpass w_trace w_late
                    w_set_o w_set_entity w_set_message w_push_event w_tick_clock w_set_nbcb w_set_tbefore w_set_tspent
                    w_set_tpass w_set_trace w_set_late
                    dz_pass dz_restart dz_zinit dz_obuf dz_hlen dz_fed
                    dz_set_pass dz_set_restart dz_set_zinit dz_set_obuf dz_set_hlen dz_set_fed fst snd] in *.
Ltac csplit := repeat match goal with |- _ /\ _ => split end.

(* worlds that differ only in the external state and the trace/ghost flags *)
Definition dz_sim (w w' : world) : Prop :=
  w_entity OT w' = w_entity OT w /\ w_message OT w' = w_message OT w /\ w_events OT w' = w_events OT w /\
  w_tspent OT w' = w_tspent OT w /\ w_tpass OT w' = w_tpass OT w /\ w_tbefore OT w' = w_tbefore OT w.
Lemma dz_sim_refl w : dz_sim w w. Proof. unfold dz_sim. csplit; reflexivity. Qed.
Lemma dz_sim_trans a b d : dz_sim a b -> dz_sim b d -> dz_sim a d.
Proof. unfold dz_sim. intros (?&?&?&?&?&?) (?&?&?&?&?&?). csplit; congruence. Qed.
Lemma dz_ask_sim (w : world) q : dz_sim w (snd (dz_ask OT ask w q)).
Proof. unfold dz_ask. destruct (ask (w_o OT w) q). cbn [snd]. unfold dz_sim. wsimpl. csplit; reflexivity. Qed.

Definition dz_gd (fmt : Z) : Prop := fmt = c_dz_COMPRESSION_GZIP \/ fmt = c_dz_COMPRESSION_DEFLATE.

(* one loop iteration on data the decoder rejects: either a restart with the other/same window bits, or the raw fallback *)
Lemma dz_iter_reject next (d : dz_data) l (w : world) b input' rc0 :
  dz_pass l = false -> dz_gd (dz_zinit l) -> dz_obuf l = [] -> dz_probe (dd_bytes d) = O ->
  (dz_restart l < 3)%nat /\
    (exists l' w', dz_iter OT ask c next d l [] w (b :: input') rc0 = DzRestart OT l' [] w' 0 c_dz_Z_DATA_ERROR /\
       dz_pass l' = false /\ dz_gd (dz_zinit l') /\ dz_obuf l' = [] /\ dz_restart l' = S (dz_restart l) /\ dz_sim w w')
  \/
  (3 <= dz_restart l)%nat /\
    (exists w', dz_sim w w' /\
       dz_iter OT ask c next d l [] w (b :: input') rc0 =
       (let '(w'', crc) := dz_callback OT c d w' in
        if negb (crc =? c_HTP_OK) then DzRet OT (dz_set_zinit l 0) [] w'' c_HTP_ERROR
        else DzRet OT (dz_set_pass (dz_set_obuf (dz_set_zinit l 0) []) true) [] w'' c_HTP_OK)).
Proof.
  intros Hp Hgd Hob Hprobe.
  assert (Hnl : (dz_zinit l =? c_dz_COMPRESSION_LZMA) = false) by (destruct Hgd as [-> | ->]; reflexivity).
  assert (Hn0 : (dz_zinit l =? 0) = false) by (destruct Hgd as [-> | ->]; reflexivity).
  unfold dz_iter, dz_flush_full.
  assert (Hao : (dz_avail_out l =? 0)%nat = false) by (unfold dz_avail_out; rewrite Hob; reflexivity). rewrite Hao.
  unfold dz_decode. rewrite Hnl, Hn0. cbn [negb].
  pose proof (dz_ask_sim w (QInflate (b :: input') (dz_avail_out l))) as Hs1.
  unfold dz_ask in *. pose proof (Hrej (w_o OT w) (b :: input') (dz_avail_out l)) as [Hrc Hout].
  destruct (ask (w_o OT w) (QInflate (b :: input') (dz_avail_out l))) as [a1 o1]. cbn [fst snd da_rc da_out] in *.
  rewrite Hout, Hrc. cbn [firstn]. rewrite firstn_nil.
  unfold dz_after. wsimpl. rewrite Hob. cbn [app].
  assert (Hfull : (dz_avail_out (dz_set_obuf l []) <? dz_BUF)%nat = false) by reflexivity. rewrite Hfull. cbn [andb].
  replace (c_dz_Z_DATA_ERROR =? c_dz_Z_STREAM_END) with false by reflexivity.
  replace (c_dz_Z_DATA_ERROR =? c_dz_Z_OK) with false by reflexivity. cbn [negb].
  unfold dz_fail_end. wsimpl. rewrite Hnl.
  set (w1 := w_set_o OT w o1) in *.
  pose proof (dz_ask_sim w1 QEnd) as Hs2. unfold dz_ask in *.
  destruct (ask (w_o OT w1) QEnd) as [a2 o2]. cbn [snd] in Hs2. set (w2 := w_set_o OT w1 o2) in *.
  set (w3 := if dz_fed (dz_set_obuf l []) then w_set_late OT w2 true else w2).
  assert (Hs3 : dz_sim w w3).
  { eapply dz_sim_trans; [exact Hs1|]. eapply dz_sim_trans; [exact Hs2|]. subst w3. destruct (dz_fed (dz_set_obuf l [])); unfold dz_sim; wsimpl; csplit; reflexivity. }
  unfold dz_restart_dec. wsimpl.
  destruct (dz_restart l <? 3)%nat eqn:Hr3.
  - apply Nat.ltb_lt in Hr3. left. split; auto.
    assert (Hini' : forall (w0 : world) wb, exists a o, ask (w_o OT w0) (QInit wb) = (a, o) /\ da_rc a = c_dz_Z_OK).
    { intros w0 wb. pose proof (Hini (w_o OT w0) wb). destruct (ask (w_o OT w0) (QInit wb)) as [a o]. exists a, o. auto. }
    destruct (dz_restart l =? 0)%nat.
    + unfold dz_ask. destruct (Hini' w3 (if dz_zinit l =? c_dz_COMPRESSION_GZIP then 15 + 32 else -15)) as (a3 & o3 & Ha3 & Hrc3).
      rewrite Ha3. cbn [da_rc]. rewrite Hrc3, Z.eqb_refl. cbn [negb]. rewrite Hprobe.
      eexists _, _. split; [reflexivity|]. wsimpl. csplit; auto.
    + destruct Hgd as [Hg|Hg]; rewrite Hg.
      * replace (c_dz_COMPRESSION_GZIP =? c_dz_COMPRESSION_DEFLATE) with false by reflexivity. rewrite Z.eqb_refl.
        unfold dz_ask. destruct (Hini' w3 (-15)) as (a3 & o3 & Ha3 & Hrc3).
        rewrite Ha3. cbn [da_rc]. rewrite Hrc3, Z.eqb_refl. cbn [negb]. rewrite Hprobe.
        eexists _, _. split; [reflexivity|]. wsimpl. csplit; auto. right. reflexivity.
        * rewrite Z.eqb_refl.
        unfold dz_ask. destruct (Hini' w3 (15 + 32)) as (a3 & o3 & Ha3 & Hrc3).
        rewrite Ha3. cbn [da_rc]. rewrite Hrc3, Z.eqb_refl. cbn [negb]. rewrite Hprobe.
        eexists _, _. split; [reflexivity|]. wsimpl. csplit; auto. left. reflexivity.
    - apply Nat.ltb_ge in Hr3. right. split; auto. exists w3. split; auto.
    replace (dz_set_obuf l []) with l; [reflexivity|]. destruct l; simpl in Hob; subst; reflexivity.
Qed.

Lemma dz_sim_BW (w w' : world) : dz_sim w w' -> BW w -> BW w'.
Proof. unfold dz_sim, dz_BW, dz_BW0. intros (?&?&?&?&?&?) ((?&?)&?). csplit; congruence. Qed.
Lemma dz_sim_devs (w w' : world) : dz_sim w w' -> dz_devs w' = dz_devs w.
Proof. unfold dz_sim, dz_devs. intros (?&?&He&_). rewrite He. reflexivity. Qed.

Lemma dz_end_sim l (w : world) : dz_sim w (snd (dz_end OT ask l w)).
Proof.
  unfold dz_end. destruct (dz_zinit l =? c_dz_COMPRESSION_LZMA).
  - pose proof (dz_ask_sim w QLzFree) as Hs. destruct (dz_ask OT ask w QLzFree). exact Hs.
  - destruct (negb (dz_zinit l =? 0)); [|apply dz_sim_refl].
    pose proof (dz_ask_sim w QEnd) as Hs. destruct (dz_ask OT ask w QEnd). exact Hs.
Qed.
Lemma dz_destroy_sim ls : forall (w : world), dz_sim w (dz_destroy OT ask ls w).
Proof.
  induction ls as [|l r IH]; intros w; cbn [dz_destroy]; [apply dz_sim_refl|].
  pose proof (dz_end_sim l w) as Hs. destruct (dz_end OT ask l w) as [l1 w1]. cbn [snd] in Hs. eapply dz_sim_trans; eauto.
Qed.

Definition dz_PS (w0 : world) (d : dz_data) (l' : dz_layer) (w' : world) : Prop :=
  dz_pass l' = true /\ dz_devs w' = dz_devs w0 ++ dd_bytes d /\ BW w' /\
  w_entity OT w' = Z.of_nat (length (dz_devs w')) /\ w_message OT w' = w_message OT w0.

Lemma dz_loop_reject next (d : dz_data) b data' : dd_bytes d = b :: data' -> dz_probe (dd_bytes d) = O ->
  Z.of_nat (length (dd_bytes d)) <= c_dz_UINT32_MAX ->
  forall k l (w w0 : world) fuel rc0,
  dz_pass l = false -> dz_gd (dz_zinit l) -> dz_obuf l = [] -> (dz_restart l + k = 3)%nat -> (k + 1 < fuel + 1)%nat -> (0 < fuel)%nat ->
  dz_sim w0 w -> BW w0 -> w_entity OT w0 = Z.of_nat (length (dz_devs w0)) ->
  Z.of_nat (length (dz_devs w0)) + dz_len d <= c_HTP_COMPRESSION_BOMB_RATIO * w_message OT w0 ->
  exists l' w', dz_loop OT ask c next fuel d l [] w (dd_bytes d) rc0 = (l', [], w', c_HTP_OK) /\ dz_PS w0 d l' w'.
Proof.
  intros Hd Hprobe Hu32.
  induction k as [|k IH]; intros l w w0 fuel rc0 Hp Hgd Hob Hr Hf Hf0 Hsim HBW Hent Hbomb;
    (destruct fuel as [|f]; [lia|]); cbn [dz_loop]; rewrite Hd;
    destruct (dz_iter_reject next d l w b data' rc0 Hp Hgd Hob Hprobe) as [(Hlt & l1 & w1 & Hit & Hp1 & Hgd1 & Hob1 & Hr1 & Hs1)|(Hge & w1 & Hs1 & Hit)]; try lia.
  - (* the last attempt failed: raw fallback *)
    rewrite Hit.
    assert (Hs01 : dz_sim w0 w1) by (eapply dz_sim_trans; eauto).
    destruct (dz_callback_benign OT c t0 Hclock Htlimit Hhook [] d w1) as (w2 & Hcb & HBW2 & _ & Hd2 & He2 & Hm2).
    + eapply dz_sim_BW; eauto.
    + rewrite (dz_sim_devs _ _ Hs01). destruct Hs01 as (He&_). congruence.
    + right. rewrite (dz_sim_devs _ _ Hs01). destruct Hs01 as (_&Hm&_). rewrite Hm. exact Hbomb.
    + rewrite Hcb, Z.eqb_refl. cbn [negb]. eexists _, w2. split; [reflexivity|].
      unfold dz_PS. wsimpl. rewrite (dz_sim_devs _ _ Hs01) in Hd2. destruct Hs01 as (_&Hm&_). csplit; auto; congruence.
  - (* a restart: go round again with the whole block *)
    rewrite Hit.
    assert (Henter : dz_enter d 0 = Some (dd_bytes d)).
    { unfold dz_enter. cbn [skipn]. unfold dz_len.
      replace (length (dd_bytes d) <? 0)%nat with false by (symmetry; apply Nat.ltb_ge; lia).
      replace (Z.of_nat (length (dd_bytes d)) >? c_dz_UINT32_MAX) with false by (symmetry; rewrite Z.gtb_ltb; apply Z.ltb_ge; lia). reflexivity. }
    rewrite Henter.
    apply (IH l1 w1 w0 f c_dz_Z_DATA_ERROR); auto; try lia. eapply dz_sim_trans; eauto.
Qed.

Variable fmt : Z.
Hypothesis Hfmt : dz_gd fmt.

Lemma dz_gd_coded : dz_is_coded fmt = true.
Proof. destruct Hfmt as [-> | ->]; reflexivity. Qed.

(* between calls, after the fallback: layer in passthrough, entity_len = message_len = bytes delivered *)
Definition dz_PI (t : dz_tx OT) : Prop :=
  exists l, tx_chain OT t = [l] /\ tx_cep OT t = fmt /\ dz_pass l = true /\ BW0 (tx_w OT t) /\
    w_entity OT (tx_w OT t) = Z.of_nat (length (dz_devs (tx_w OT t))) /\ w_message OT (tx_w OT t) = Z.of_nat (length (dz_devs (tx_w OT t))).

Lemma dz_after_call_benign' (w : world) : BW w ->
  match dz_timer_track (w_tspent OT (w_tick_clock OT w)) (dc_clock c (w_nclock OT w)) (w_tbefore OT (w_tick_clock OT w)) with
  | Some sp => if sp >? dc_tlimit c then w_set_tpass OT (w_set_tspent OT (w_tick_clock OT w) sp) true else w_set_tspent OT (w_tick_clock OT w) sp
  | None => w_tick_clock OT w
  end = w_set_tspent OT (w_tick_clock OT w) 0.
Proof. intros H. exact (dz_after_call_benign OT c t0 Hclock Htlimit [] w H). Qed.

Lemma dz_process_pass (t : dz_tx OT) data :
  dz_PI t ->
  let t' := fst (dz_process_body_data OT ask c t 0 data) in
  dz_devs (tx_w OT t') = dz_devs (tx_w OT t) ++ dd_bytes (dz_data_of data) /\
  match data with Some _ => dz_PI t' | None => tx_chain OT t' = [] end.
Proof.
  intros (l & Hch & Hcep & Hp & HBW0 & Hent & Hmsg) t'.
  assert (Ht' : t' = fst (dz_process_body_data OT ask c t 0 data)) by reflexivity. clearbody t'.
  unfold dz_process_body_data in Ht'. cbv zeta in Ht'. rewrite Hcep, dz_gd_coded, Hch in Ht'.
  unfold dz_gettimeofday at 1 in Ht'.
  set (d := dz_data_of data) in *.
  set (w1 := w_set_message OT (tx_w OT t) (w_message OT (tx_w OT t) + 0 + dz_len d)) in *.
  set (w2 := w_set_nbcb OT (w_set_tbefore OT (w_tick_clock OT w1) (dc_clock c (w_nclock OT w1))) 0) in *.
  assert (HBW2 : BW w2) by (apply (dz_BW_enter OT c t0 Hclock); exact HBW0).
  cbn [length dz_decompress] in Ht'. unfold dz_layer_run in Ht'. rewrite Hp in Ht'.
  pose proof dz_bomb_ratio_ge as HR. pose proof (dz_len_nonneg d) as Hd0.
  destruct (dz_callback_benign OT c t0 Hclock Htlimit Hhook [] d w2 HBW2) as (w3 & Hcb & HBW3 & _ & Hd3 & He3 & Hm3).
  { exact Hent. }
  { right. replace (dz_devs w2) with (dz_devs (tx_w OT t)) by reflexivity. replace (w_message OT w2) with (w_message OT (tx_w OT t) + 0 + dz_len d) by reflexivity.
    rewrite Hmsg. nia. }
  rewrite Hcb in Ht'.
  unfold dz_gettimeofday in Ht'. rewrite (dz_after_call_benign' w3 HBW3) in Ht'. cbn [fst] in Ht'.
  pose proof HBW3 as ((Hsp3 & Htp3) & Htb3). wsimpl. rewrite Htp3 in Ht'.
  replace (dz_devs w2) with (dz_devs (tx_w OT t)) in Hd3 by reflexivity.
  destruct data as [bts|]; subst t'; cbn [tx_w tx_chain tx_cep].
  - split; [exact Hd3|]. exists l. cbn [tx_w tx_chain tx_cep]. unfold dz_BW0. wsimpl.
    replace (dz_devs (w_set_tpass OT (w_set_tspent OT (w_tick_clock OT w3) 0) false)) with (dz_devs w3) by reflexivity.
    csplit; auto. cbn [tx_w]. wsimpl.
    replace (dz_devs (w_set_tpass OT (w_set_tspent OT (w_tick_clock OT w3) 0) false)) with (dz_devs w3) by reflexivity.
    rewrite Hm3. replace (w_message OT w2) with (w_message OT (tx_w OT t) + 0 + dz_len d) by reflexivity.
    rewrite Hmsg, Hd3, app_length. unfold dz_len. lia.
  - split; auto. cbn [fst tx_w]. rewrite (dz_sim_devs _ _ (dz_destroy_sim _ _)). exact Hd3.
Qed.

Lemma dz_calls_pass chunks : forall (t : dz_tx OT), dz_PI t ->
  let t' := dz_calls OT ask c t (map (fun ch => (0, Some ch)) chunks) in
  dz_PI t' /\ dz_devs (tx_w OT t') = dz_devs (tx_w OT t) ++ concat chunks.
Proof.
  induction chunks as [|ch r IH]; intros t HPI; cbn [map dz_calls concat].
  - split; auto. rewrite app_nil_r. reflexivity.
  - destruct (dz_process_pass t (Some ch) HPI) as [Hd HPI']. cbv zeta in Hd, HPI'.
    destruct (IH _ HPI') as [HPI'' Hd'']. cbv zeta in HPI'', Hd''. split; auto.
    rewrite Hd'', Hd. cbn [dz_data_of dd_bytes dz_some]. rewrite app_assoc. reflexivity.
Qed.

Hypothesis Henabled : dc_enabled c = true.

(* the first body call: four decoders refuse the block, it is handed on as it is and the layer goes to passthrough *)
Lemma dz_process_first (t : dz_tx OT) l b ch' :
  tx_chain OT t = [l] -> tx_cep OT t = fmt -> dz_pass l = false -> dz_zinit l = fmt -> dz_obuf l = [] -> dz_restart l = O ->
  BW0 (tx_w OT t) -> w_entity OT (tx_w OT t) = 0 -> w_message OT (tx_w OT t) = 0 -> w_events OT (tx_w OT t) = [] ->
  dz_probe (b :: ch') = O -> Z.of_nat (length (b :: ch')) <= c_dz_UINT32_MAX ->
  let t' := fst (dz_process_body_data OT ask c t 0 (Some (b :: ch'))) in
  dz_PI t' /\ dz_devs (tx_w OT t') = b :: ch'.
Proof.
  intros Hch Hcep Hp Hz Hob Hr HBW0 He0 Hm0 Hev0 Hprobe Hu32 t'.
  assert (Ht' : t' = fst (dz_process_body_data OT ask c t 0 (Some (b :: ch')))) by reflexivity. clearbody t'.
  unfold dz_process_body_data in Ht'. cbv zeta in Ht'. rewrite Hcep, dz_gd_coded, Hch in Ht'.
  cbn [dz_data_of] in Ht'. unfold dz_gettimeofday at 1 in Ht'.
  set (d := dz_some (b :: ch')) in *.
  set (w1 := w_set_message OT (tx_w OT t) (w_message OT (tx_w OT t) + 0 + dz_len d)) in *.
  set (w2 := w_set_nbcb OT (w_set_tbefore OT (w_tick_clock OT w1) (dc_clock c (w_nclock OT w1))) 0) in *.
  assert (HBW2 : BW w2) by (apply (dz_BW_enter OT c t0 Hclock); exact HBW0).
  assert (Hdb : dd_bytes d = b :: ch') by reflexivity.
  assert (Hdn : dd_null d = false) by reflexivity.
  assert (Hdl : dz_len d = Z.of_nat (length (b :: ch'))) by reflexivity.
  assert (Hdevs2 : dz_devs w2 = []) by (unfold dz_devs; subst w2 w1; wsimpl; rewrite Hev0; reflexivity).
  assert (He2 : w_entity OT w2 = 0) by exact He0.
  assert (Hm2 : w_message OT w2 = dz_len d) by (subst w2 w1; wsimpl; rewrite Hm0; lia).
  clearbody w2. clear w1. clearbody d.
  cbn [length dz_decompress] in Ht'. unfold dz_layer_run in Ht'. rewrite Hp, Hdn in Ht'.
  assert (Henter : dz_enter d 0 = Some (b :: ch')).
  { unfold dz_enter. rewrite Hdl, Hdb. cbn [skipn].
    replace (length (b :: ch') <? 0)%nat with false by (symmetry; apply Nat.ltb_ge; lia).
    replace (Z.of_nat (length (b :: ch')) >? c_dz_UINT32_MAX) with false by (symmetry; rewrite Z.gtb_ltb; apply Z.ltb_ge; lia). reflexivity. }
  rewrite Henter in Ht'.
  pose proof dz_bomb_ratio_ge as HR.
  assert (Hprobe' : dz_probe (dd_bytes d) = O) by (rewrite Hdb; exact Hprobe).
  assert (Hu32' : Z.of_nat (length (dd_bytes d)) <= c_dz_UINT32_MAX) by (rewrite Hdb; exact Hu32).
  assert (Hgd : dz_gd (dz_zinit l)) by (rewrite Hz; exact Hfmt).
  assert (Hr3 : (dz_restart l + 3 = 3)%nat) by lia.
  assert (Hf3 : (3 + 1 < dc_fuel c + 1)%nat) by lia.
  assert (Hf0 : (0 < dc_fuel c)%nat) by lia.
  assert (Hent2 : w_entity OT w2 = Z.of_nat (length (dz_devs w2))) by (rewrite Hdevs2, He2; reflexivity).
  assert (Hb2 : Z.of_nat (length (dz_devs w2)) + dz_len d <= c_HTP_COMPRESSION_BOMB_RATIO * w_message OT w2).
  { rewrite Hdevs2, Hm2. cbn [length]. pose proof (dz_len_nonneg d). nia. }
  destruct (dz_loop_reject (fun (ls : list dz_layer) (_ : dz_data) (w : world) => (ls, w, c_HTP_ERROR)) d b ch' Hdb Hprobe' Hu32'
              3%nat l w2 w2 (dc_fuel c) 0 Hp Hgd Hob Hr3 Hf3 Hf0 (dz_sim_refl w2) HBW2 Hent2 Hb2) as (l3 & w3 & Hloop & Hpass3 & Hd3 & HBW3 & He3 & Hm3).
  rewrite Hdb in Hloop. rewrite Hloop in Ht'. rewrite Hdb in Ht'.
  unfold dz_gettimeofday in Ht'. rewrite (dz_after_call_benign' w3 HBW3) in Ht'. cbn [fst] in Ht'.
  pose proof HBW3 as ((Hsp3 & Htp3) & Htb3). wsimpl. rewrite Htp3 in Ht'. subst t'. cbn [tx_w tx_chain tx_cep].
  rewrite Hdevs2, Hdb in Hd3. cbn [app] in Hd3.
  split.
  - exists (dz_set_fed l3 true). cbn [tx_w tx_chain tx_cep]. unfold dz_BW0. wsimpl.
    replace (dz_devs (w_set_tpass OT (w_set_tspent OT (w_tick_clock OT w3) 0) false)) with (dz_devs w3) by reflexivity.
    csplit; auto. rewrite Hm3, Hd3, Hm2, Hdl. reflexivity.
  - exact Hd3.
Qed.

Lemma dz_calls_app' (t : dz_tx OT) a1 a2 : dz_calls OT ask c t (a1 ++ a2) = dz_calls OT ask c (dz_calls OT ask c t a1) a2.
Proof. revert t. induction a1 as [|[e d] r IH]; intros t; cbn [app dz_calls]; auto. Qed.

Theorem dz_passthrough_lossless ce b ch' chunks (o : OT) :
  (fmt = c_dz_COMPRESSION_GZIP /\ ce = s_gzip) \/ (fmt = c_dz_COMPRESSION_DEFLATE /\ ce = s_deflate) ->
  dz_probe (b :: ch') = O -> Z.of_nat (length (b :: ch')) <= c_dz_UINT32_MAX ->
  dz_devs (tx_w OT (fst (dz_run OT ask c (Some ce) (map (fun ch => (0, Some ch)) ((b :: ch') :: chunks) ++ [(0, None)]) o)))
  = concat ((b :: ch') :: chunks).
Proof.
  intros Hsel Hprobe Hu32. unfold dz_run.
  (* the chain: one fresh layer of the announced format *)
  assert (Hhd : exists w0', dz_response_headers OT ask c (Some ce) (dz_world0 OT o) = mk_dz_tx OT [mk_dz_layer false 0 fmt [] 0 false] fmt w0' false /\
                            dz_sim (dz_world0 OT o) w0').
  { assert (Hq : forall wb, exists a w', dz_ask OT ask (dz_world0 OT o) (QInit wb) = (a, w') /\ da_rc a = c_dz_Z_OK /\ dz_sim (dz_world0 OT o) w').
    { intros wb. pose proof (dz_ask_sim (dz_world0 OT o) (QInit wb)) as Hs. unfold dz_ask in *.
      pose proof (Hini (w_o OT (dz_world0 OT o)) wb) as Hrc. destruct (ask (w_o OT (dz_world0 OT o)) (QInit wb)) as [a o']. cbn [fst snd] in *.
      eexists _, _. split; [reflexivity|]. split; auto. }
    destruct Hsel as [(Hf & Hce)|(Hf & Hce)]; subst ce; unfold dz_response_headers; rewrite Henabled.
    - rewrite dz_cmp_gzip. cbn [orb]. rewrite Hf. unfold dz_create.
      replace (c_dz_COMPRESSION_GZIP =? c_dz_COMPRESSION_LZMA) with false by reflexivity.
      replace (c_dz_COMPRESSION_GZIP =? c_dz_COMPRESSION_DEFLATE) with false by reflexivity.
      replace (c_dz_COMPRESSION_GZIP =? c_dz_COMPRESSION_GZIP) with true by reflexivity. cbn [orb negb].
      destruct (Hq (15 + 32)) as (a & w' & Ha & Hrc & Hs). rewrite Ha, Hrc. cbn [negb Z.eqb]. exists w'. split; auto.
    - rewrite dz_cmp_deflate_1, dz_cmp_deflate_2, dz_cmp_deflate_3. cbn [orb]. rewrite Hf. unfold dz_create.
      replace (c_dz_COMPRESSION_DEFLATE =? c_dz_COMPRESSION_LZMA) with false by reflexivity.
      replace (c_dz_COMPRESSION_DEFLATE =? c_dz_COMPRESSION_DEFLATE) with true by reflexivity.
      replace (c_dz_COMPRESSION_DEFLATE =? c_dz_COMPRESSION_GZIP) with false by reflexivity. cbn [orb negb].
      destruct (Hq (-15)) as (a & w' & Ha & Hrc & Hs). rewrite Ha, Hrc. cbn [negb Z.eqb]. exists w'. split; auto. }
  destruct Hhd as (w0' & Hhd & Hs0). rewrite Hhd. cbn [fst tx_w tx_chain tx_cep].
  set (tx0 := mk_dz_tx OT [mk_dz_layer false 0 fmt [] 0 false] fmt w0' false).
  rewrite dz_calls_app'. cbn [map dz_calls].
  destruct Hs0 as (He0 & Hm0 & Hev0 & Hsp0 & Htp0 & Htb0).
  destruct (dz_process_first tx0 (mk_dz_layer false 0 fmt [] 0 false) b ch') as [HPI Hd1]; auto.
  { unfold dz_BW0. subst tx0. cbn [tx_w]. rewrite Hsp0, Htp0. auto. }
  cbv zeta in HPI, Hd1.
  destruct (dz_calls_pass chunks _ HPI) as [HPI2 Hd2]. cbv zeta in HPI2, Hd2.
  set (t2 := dz_calls OT ask c (fst (dz_process_body_data OT ask c tx0 0 (Some (b :: ch')))) (map (fun ch => (0, Some ch)) chunks)) in *.
  destruct (dz_process_pass t2 None HPI2) as [Hd3 Hc3]. cbv zeta in Hd3, Hc3.
  change (dz_calls OT ask c t2 [(0, None)]) with (fst (dz_process_body_data OT ask c t2 0 (@None bytes))).
  unfold bytes in *. rewrite Hc3. cbn [dz_destroy]. rewrite Hd3. subst t2. rewrite Hd2, Hd1. cbn [dz_data_of dd_bytes dz_null concat]. rewrite app_nil_r. reflexivity.
Qed.
End Passthrough.

(* ------------------------------------------------------------------ a toy decoder that satisfies the inflate contract (non-vacuity of Hz2) *)
(* format: |windowBits| payload bytes copied verbatim, then one trailer byte; Z_STREAM_END when the trailer is consumed *)
Inductive dz_toy := ToyBody (n : nat) | ToyDone.
Definition dz_toy_init (wb : Z) : dz_toy := ToyBody (Z.to_nat (Z.abs wb)).
Definition dz_toy_inflate (z : dz_toy) (offered : bytes) (ao : nat) : dz_toy * nat * bytes * Z :=
  match z with
  | ToyBody O => match offered with [] => (z, O, [], c_dz_Z_OK) | _ :: _ => (ToyDone, 1%nat, [], c_dz_Z_STREAM_END) end
  | ToyBody (S n) => let k := Nat.min (S n) (Nat.min (length offered) ao) in (ToyBody (S n - k), k, firstn k offered, c_dz_Z_OK)
  | ToyDone => (ToyDone, O, [], c_dz_Z_STREAM_END)
  end.
Definition dz_toy_valid (z : dz_toy) (s p : bytes) : Prop :=
  match z with ToyBody n => length p = n /\ exists t, s = p ++ [t] | ToyDone => False end.

Lemma dz_toy_contract : forall z s p offered rest ao,
  dz_toy_valid z s p -> s = offered ++ rest -> offered <> [] -> (0 < ao)%nat ->
  let '(z', cn, out, rc) := dz_toy_inflate z offered ao in
  (cn <= length offered)%nat /\ (length out <= ao)%nat /\ exists p', p = out ++ p' /\
  ((rc = c_dz_Z_OK /\ dz_toy_valid z' (skipn cn s) p' /\ (0 < cn + length out)%nat /\ skipn cn s <> []) \/
   (rc = c_dz_Z_STREAM_END /\ skipn cn s = [] /\ p' = [])).
Proof.
  intros z s p offered rest ao Hv Hs Hne Hao. destruct z as [n|]; [|contradiction].
  destruct Hv as [Hlen [t Ht]]. destruct n as [|n].
  - (* only the trailer is left *)
    destruct p; [|discriminate]. cbn [app] in Ht. rewrite Ht in Hs.
    destruct offered as [|b o']; [congruence|]. cbn [dz_toy_inflate].
    destruct o'; [|destruct o', rest; discriminate]. destruct rest; [|discriminate].
    cbn [length]. split; [lia|]. split; [cbn; lia|]. exists []. split; auto. right. rewrite Ht. cbn. auto.
  - cbn [dz_toy_inflate]. set (k := Nat.min (S n) (Nat.min (length offered) ao)).
    assert (Hk1 : (1 <= k)%nat). { subst k. destruct offered; [congruence|]. cbn [length]. lia. }
    assert (Hk2 : (k <= length offered)%nat) by (subst k; lia).
    assert (Hk3 : (k <= length p)%nat) by (subst k; lia).
    assert (Hk4 : (k <= ao)%nat) by (subst k; lia).
    split; auto. split; [rewrite firstn_length; lia|].
    assert (Hpre : firstn k offered = firstn k p).
    { assert (H1 : firstn k (offered ++ rest) = firstn k (p ++ [t])) by congruence.
      rewrite !firstn_app in H1. replace (k - length offered)%nat with O in H1 by lia. replace (k - length p)%nat with O in H1 by lia.
      cbn [firstn] in H1. rewrite !app_nil_r in H1. exact H1. }
    exists (skipn k p). split; [rewrite Hpre; symmetry; apply firstn_skipn|].
    assert (Hsk : skipn k s = skipn k p ++ [t]).
    { rewrite Ht. rewrite skipn_app. replace (k - length p)%nat with O by lia. reflexivity. }
    left. split; auto. split.
    + cbn [dz_toy_valid]. split; [rewrite skipn_length; lia|]. exists t. exact Hsk.
    + split; [lia|]. rewrite Hsk. destruct (skipn k p); discriminate.
Qed.

(* an external world that rejects everything: every inflate fails at once (non-vacuity of the passthrough premise) *)
Definition dz_reject_ask (o : unit) (q : dz_query) : dz_ans * unit :=
  match q with
  | QInflate _ _ => (mk_dz_ans 0 [] c_dz_Z_DATA_ERROR 0, tt)
  | _ => (mk_dz_ans 0 [] c_dz_Z_OK 0, tt)
  end.
Lemma dz_reject_ask_rejects : forall o inp ao, da_rc (fst (dz_reject_ask o (QInflate inp ao))) = c_dz_Z_DATA_ERROR /\ da_out (fst (dz_reject_ask o (QInflate inp ao))) = [].
Proof. intros. split; reflexivity. Qed.
Lemma dz_reject_ask_inits : forall o wb, da_rc (fst (dz_reject_ask o (QInit wb))) = c_dz_Z_OK.
Proof. intros. reflexivity. Qed.
