(* C07: proofs about the decompressor model (Model/MDecomp.v).
   Part 1: the bomb bound, for EVERY external behaviour (oracle type OT, function ask, clock, hook) and every
   sequence of body calls. Part 2: the layer limits of the chain construction. Part 3: the wrapper is faithful
   under an inflate contract (single layer, no restart). Part 4: data that no decoder accepts is passed through.
   Part 5: F12 witness. *)
Require Import Htp.Model.Base Htp.Model.MBstr Htp.Model.MDecomp.
Require Import Lia ZArith List.
Local Open Scope Z_scope.

(* ------------------------------------------------------------------ facts about the regenerated constants *)

Lemma dz_bomb_ratio_le : c_HTP_COMPRESSION_BOMB_RATIO <= 2048.
Proof. vm_compute. discriminate. Qed.
Lemma dz_bomb_ratio_ge : 2 <= c_HTP_COMPRESSION_BOMB_RATIO.
Proof. vm_compute. discriminate. Qed.
Lemma dz_buf_size : c_GZIP_BUF_SIZE = 8192.
Proof. reflexivity. Qed.
Lemma dz_BUF_val : Z.of_nat dz_BUF = c_GZIP_BUF_SIZE.
Proof. reflexivity. Qed.
Lemma dz_ok_ne_error : c_HTP_ERROR <> c_HTP_OK.
Proof. vm_compute. discriminate. Qed.

Section Bound.
Variable OT : Type.
Variable ask : OT -> dz_query -> dz_ans * OT.
Variable c : dz_cfg.

Notation world := (dz_world OT).
Notation R := c_HTP_COMPRESSION_BOMB_RATIO.
Definition dz_M (w : world) : Z := Z.max (dc_bomb c) (R * w_message OT w).
Definition dz_clean (w : world) : Prop := w_entity OT w <= dz_M w.
Definition dz_wf (l : dz_layer) : Prop := (length (dz_obuf l) <= dz_BUF)%nat.

Ltac wsimpl := cbn [w_o w_entity w_message w_events w_nhook w_nclock w_nbcb w_tbefore w_tspent w_tpass w_trace w_late
                    w_set_o w_set_entity w_set_message w_push_event w_tick_clock w_set_nbcb w_set_tbefore w_set_tspent
                    w_set_tpass w_set_trace w_set_late
                    dz_pass dz_restart dz_zinit dz_obuf dz_hlen dz_fed
                    dz_set_pass dz_set_restart dz_set_zinit dz_set_obuf dz_set_hlen dz_set_fed fst snd] in *.

(* ---- dz_ask only changes the external world; answers are clamped *)
Lemma dz_ask_spec (w : world) q a w' :
  dz_ask OT ask w q = (a, w') ->
  w_entity OT w' = w_entity OT w /\ w_message OT w' = w_message OT w /\
  match q with
  | QInflate inp ao | QLzDecode inp ao => (da_consumed a <= length inp)%nat /\ (length (da_out a) <= ao)%nat
  | _ => True
  end.
Proof.
  unfold dz_ask. destruct (ask (w_o OT w) q) as [a0 o] eqn:Ha. intros H. inversion H; subst; clear H. wsimpl.
  repeat split; destruct q; cbn [da_consumed da_out]; auto; try split; try apply Nat.le_min_r; try apply firstn_le_length.
Qed.

Lemma dz_len_nonneg d : 0 <= dz_len d.
Proof. unfold dz_len. lia. Qed.

(* ---- the callback: entity_len grows by the block; HTP_OK means the bomb test passed *)
Lemma dz_run_hook_spec d (w : world) w' rc :
  dz_run_hook OT c d w = (w', rc) -> w_entity OT w' = w_entity OT w /\ w_message OT w' = w_message OT w.
Proof.
  unfold dz_run_hook. destruct (negb (dd_null d) && (dz_len d =? 0)); intros H; inversion H; subst; wsimpl; auto.
Qed.

Lemma dz_cb_clock_spec (w : world) :
  w_entity OT (dz_cb_clock OT c w) = w_entity OT w /\ w_message OT (dz_cb_clock OT c w) = w_message OT w.
Proof.
  unfold dz_cb_clock, dz_gettimeofday.
  destruct (w_nbcb OT w mod c_HTP_COMPRESSION_TIME_FREQ_TEST =? 0); auto.
  destruct (dz_timer_track (w_tspent OT (w_tick_clock OT w)) (dc_clock c (w_nclock OT w)) (w_tbefore OT (w_tick_clock OT w))) as [sp|];
    [destruct (sp >? dc_tlimit c)|]; wsimpl; auto.
Qed.

Lemma dz_callback_spec d (w : world) w' rc :
  dz_callback OT c d w = (w', rc) ->
  w_message OT w' = w_message OT w /\ w_entity OT w' = w_entity OT w + dz_len d /\ (rc = c_HTP_OK -> dz_clean w').
Proof.
  unfold dz_callback.
  destruct (dz_run_hook OT c d (w_set_entity OT w (w_entity OT w + dz_len d))) as [w1 hrc] eqn:Hh.
  apply dz_run_hook_spec in Hh. wsimpl. destruct Hh as [He Hm].
  destruct (negb (hrc =? c_HTP_OK)) eqn:Hrc.
  - intros H; inversion H; subst. repeat split; auto. intros Hx. exfalso. apply dz_ok_ne_error. exact Hx.
  - destruct (dz_cb_clock_spec (w_set_nbcb OT w1 (w_nbcb OT w1 + 1))) as [H3e H3m]. wsimpl.
    set (w3 := dz_cb_clock OT c (w_set_nbcb OT w1 (w_nbcb OT w1 + 1))) in *.
    destruct ((w_entity OT w3 >? dc_bomb c) && (w_entity OT w3 >? R * w_message OT w3)) eqn:Hb;
      intros H; inversion H; subst; (repeat split; [congruence | congruence | ]).
    + intros Hx. exfalso. apply dz_ok_ne_error. exact Hx.
    + intros _. unfold dz_clean, dz_M. apply andb_false_iff in Hb. destruct Hb as [Hb|Hb]; rewrite Z.gtb_ltb, Z.ltb_ge in Hb; lia.
Qed.

Lemma dz_M_eq (w w' : world) : w_message OT w' = w_message OT w -> dz_M w' = dz_M w.
Proof. unfold dz_M. intros ->. reflexivity. Qed.

Lemma dz_end_spec l (w : world) l' w' :
  dz_end OT ask l w = (l', w') ->
  w_entity OT w' = w_entity OT w /\ w_message OT w' = w_message OT w /\ dz_obuf l' = dz_obuf l /\ dz_pass l' = dz_pass l /\ dz_zinit l' = 0.
Proof.
  unfold dz_end. destruct (dz_zinit l =? c_dz_COMPRESSION_LZMA).
  - destruct (dz_ask OT ask w QLzFree) as [a w1] eqn:Ha. apply dz_ask_spec in Ha. intros H; inversion H; subst; wsimpl. intuition.
  - destruct (negb (dz_zinit l =? 0)) eqn:Hz.
    + destruct (dz_ask OT ask w QEnd) as [a w1] eqn:Ha. apply dz_ask_spec in Ha. intros H; inversion H; subst; wsimpl. intuition.
    + intros H; inversion H; subst. apply negb_false_iff, Z.eqb_eq in Hz. intuition.
Qed.

Lemma dz_restart_dec_spec l data (w : world) l' w' oc :
  dz_restart_dec OT ask l data w = (l', w', oc) ->
  w_entity OT w' = w_entity OT w /\ w_message OT w' = w_message OT w /\ dz_obuf l' = dz_obuf l /\ dz_pass l' = dz_pass l.
Proof.
  unfold dz_restart_dec.
  destruct (dz_restart l <? 3)%nat; [|intros H; inversion H; subst; auto].
  destruct (dz_restart l =? 0)%nat.
  { destruct (dz_ask OT ask w _) as [a w1] eqn:Ha. apply dz_ask_spec in Ha.
    destruct (negb (da_rc a =? c_dz_Z_OK)); intros H; inversion H; subst; wsimpl; intuition. }
  destruct (dz_zinit l =? c_dz_COMPRESSION_DEFLATE).
  { destruct (dz_ask OT ask w _) as [a w1] eqn:Ha. apply dz_ask_spec in Ha.
    destruct (negb (da_rc a =? c_dz_Z_OK)); intros H; inversion H; subst; wsimpl; intuition. }
  destruct (dz_zinit l =? c_dz_COMPRESSION_GZIP).
  { destruct (dz_ask OT ask w _) as [a w1] eqn:Ha. apply dz_ask_spec in Ha.
    destruct (negb (da_rc a =? c_dz_Z_OK)); intros H; inversion H; subst; wsimpl; intuition. }
  intros H; inversion H; subst; auto.
Qed.

Lemma dz_wf_app l out : dz_wf l -> (length out <= dz_avail_out l)%nat -> dz_wf (dz_set_obuf l (dz_obuf l ++ out)).
Proof. unfold dz_wf, dz_avail_out. wsimpl. rewrite app_length. lia. Qed.

(* the external decoding step delivers nothing *)
Lemma dz_decode_spec d l (w : world) input rc :
  dz_wf l ->
  match dz_decode OT ask d l w input rc with
  | inl (l', w', _, _) => w_entity OT w' = w_entity OT w /\ w_message OT w' = w_message OT w /\ dz_wf l' /\ dz_pass l' = dz_pass l
  | inr (l', w', _) => w_entity OT w' = w_entity OT w /\ w_message OT w' = w_message OT w /\ dz_wf l' /\ dz_pass l' = dz_pass l
  end.
Proof.
  intros Hwf. unfold dz_decode.
  destruct (dz_zinit l =? c_dz_COMPRESSION_LZMA).
  - destruct (dz_lz_header d l input) as [l1 input1] eqn:Hh.
    assert (Hp : dz_wf l1 /\ dz_pass l1 = dz_pass l).
    { unfold dz_lz_header in Hh. destruct (dz_hlen l <? c_dz_LZMA_HEADER_SIZE); inversion Hh; subst; auto. }
    destruct Hp as [Hwf1 Hp1].
    destruct (dz_hlen l1 =? c_dz_LZMA_HEADER_SIZE).
    + destruct (dz_ask OT ask w QLzAlloc) as [a w1] eqn:Ha. apply dz_ask_spec in Ha.
      destruct (negb (da_rc a =? c_dz_SZ_OK)); [intuition|].
      wsimpl.
      destruct (dz_hlen l1 + 1 >? c_dz_LZMA_HEADER_SIZE).
      * destruct (dz_ask OT ask w1 (QLzDecode input1 (dz_avail_out (dz_set_hlen l1 (dz_hlen l1 + 1))))) as [a2 w2] eqn:Ha2.
        apply dz_ask_spec in Ha2. destruct Ha as (?&?&_). destruct Ha2 as (?&?&?&?).
        repeat split; try congruence; unfold dz_wf, dz_avail_out in *; wsimpl; try rewrite app_length; try lia; auto.
      * intuition.
    + destruct (dz_hlen l1 >? c_dz_LZMA_HEADER_SIZE).
      * destruct (dz_ask OT ask w (QLzDecode input1 (dz_avail_out l1))) as [a2 w2] eqn:Ha2.
        apply dz_ask_spec in Ha2. destruct Ha2 as (?&?&?&?).
        repeat split; try congruence; unfold dz_wf, dz_avail_out in *; wsimpl; try rewrite app_length; try lia; auto.
      * intuition.
  - destruct (negb (dz_zinit l =? 0)).
    + destruct (dz_ask OT ask w (QInflate input (dz_avail_out l))) as [a2 w2] eqn:Ha2.
      apply dz_ask_spec in Ha2. destruct Ha2 as (?&?&?&?).
      repeat split; try congruence; unfold dz_wf, dz_avail_out in *; wsimpl; try rewrite app_length; try lia; auto.
    + intuition.
Qed.

(* ---- what a decompress-like function on the rest of the chain guarantees when called from a clean state with a block that
   fits the buffer: message_len untouched, at most one refused block on top of the bound, HTP_OK only from a clean state *)
Definition dz_next_ok (f : dz_next_t OT) : Prop :=
  forall ls d (w : world) ls' w' rc, f ls d w = (ls', w', rc) ->
    Forall dz_wf ls -> (length (dd_bytes d) <= dz_BUF)%nat -> dz_clean w ->
    w_message OT w' = w_message OT w /\ Forall dz_wf ls' /\ w_entity OT w <= w_entity OT w' /\
    w_entity OT w' <= dz_M w + Z.of_nat dz_BUF /\ (rc = c_HTP_OK -> dz_clean w').

Section OneLayer.
Variable next : dz_next_t OT.
Hypothesis Hnext : dz_next_ok next.

Lemma dz_callback_clean d (w : world) w' rc :
  dz_callback OT c d w = (w', rc) -> dz_clean w ->
  w_message OT w' = w_message OT w /\ w_entity OT w <= w_entity OT w' /\
  w_entity OT w' <= dz_M w + dz_len d /\ (rc = c_HTP_OK -> dz_clean w').
Proof.
  intros H Hc. apply dz_callback_spec in H. destruct H as (Hm & He & Hok). unfold dz_clean in Hc.
  pose proof (dz_len_nonneg d). repeat split; auto; lia.
Qed.

Lemma dz_deliver_spec l rest dd (w : world) rest' w' crc :
  dz_deliver OT c next l rest dd w = (rest', w', crc) ->
  Forall dz_wf rest -> (length (dd_bytes dd) <= dz_BUF)%nat -> dz_clean w ->
  w_message OT w' = w_message OT w /\ Forall dz_wf rest' /\ w_entity OT w <= w_entity OT w' /\
  w_entity OT w' <= dz_M w + Z.of_nat dz_BUF /\ (crc = c_HTP_OK -> dz_clean w').
Proof.
  unfold dz_deliver. intros H Hr Hd Hc.
  assert (Hcb : forall rest0, (let '(w0, rc) := dz_callback OT c dd w in (rest0, w0, rc)) = (rest', w', crc) -> Forall dz_wf rest0 ->
     w_message OT w' = w_message OT w /\ Forall dz_wf rest' /\ w_entity OT w <= w_entity OT w' /\
     w_entity OT w' <= dz_M w + Z.of_nat dz_BUF /\ (crc = c_HTP_OK -> dz_clean w')).
  { intros rest0. destruct (dz_callback OT c dd w) as [w0 rc0] eqn:Hcb. intros Hx Hr0. inversion Hx; subst.
    apply dz_callback_clean in Hcb; auto. unfold dz_len in Hcb. destruct Hcb as (?&?&?&?). repeat split; auto; lia. }
  destruct rest as [|l2 r2].
  - apply Hcb in H; auto.
  - destruct (negb (dz_zinit l =? 0)).
    + eapply Hnext in H; eauto.
    + apply Hcb in H; auto.
Qed.

(* state of the loop: everything delivered so far was accepted *)
Definition dz_good (w0 : world) l (rest : list dz_layer) (w : world) : Prop :=
  dz_wf l /\ Forall dz_wf rest /\ dz_clean w /\ w_message OT w = w_message OT w0 /\ w_entity OT w0 <= w_entity OT w /\ dz_pass l = false.
(* state at a return of the layer: at most one refused block B, and a refusal leaves this layer shut down *)
Definition dz_fin (B : Z) (w0 : world) l (rest : list dz_layer) (w : world) (r : Z) : Prop :=
  dz_wf l /\ Forall dz_wf rest /\ w_message OT w = w_message OT w0 /\ w_entity OT w0 <= w_entity OT w /\
  w_entity OT w <= dz_M w0 + B /\ (r = c_HTP_OK -> dz_clean w) /\ (dz_clean w \/ (dz_zinit l = 0 /\ dz_pass l = false)).

Lemma dz_good_fin B w0 l rest w r : 0 <= B -> dz_good w0 l rest w -> dz_fin B w0 l rest w r.
Proof.
  intros HB (Hwf & Hr & Hc & Hm & He & Hp). unfold dz_fin. repeat split; auto.
  unfold dz_clean in Hc. rewrite (dz_M_eq _ _ Hm) in Hc. lia.
Qed.

Lemma dz_wf_reset l : dz_wf (dz_set_obuf l []).
Proof. unfold dz_wf. wsimpl. cbn. lia. Qed.

Lemma dz_flush_full_spec B w0 l rest w :
  Z.of_nat dz_BUF <= B -> dz_good w0 l rest w ->
  match dz_flush_full OT ask c next l rest w with
  | inl (l', rest', w') => dz_good w0 l' rest' w'
  | inr (l', rest', w', r) => dz_fin B w0 l' rest' w' r
  end.
Proof.
  intros HB Hg. pose proof Hg as (Hwf & Hr & Hc & Hm & He & Hp). unfold dz_flush_full.
  destruct (dz_avail_out l =? 0)%nat; [|exact Hg].
  destruct (dz_deliver OT c next l rest (dz_some (dz_obuf l)) w) as [[rest1 w1] crc] eqn:Hd.
  apply dz_deliver_spec in Hd; auto. destruct Hd as (Hm1 & Hr1 & He1 & Hb1 & Hok1).
  destruct (negb (crc =? c_HTP_OK)) eqn:Hcrc.
  - destruct (dz_end OT ask l w1) as [l2 w2] eqn:Hend. apply dz_end_spec in Hend. destruct Hend as (He2 & Hm2 & Ho2 & Hp2 & Hz2).
    unfold dz_fin. wsimpl. repeat split; auto using dz_wf_reset; try congruence; try lia.
    all: try (rewrite (dz_M_eq _ _ Hm) in Hb1; lia).
    all: try (intros Hx; subst crc; rewrite Z.eqb_refl in Hcrc; discriminate).
    all: try (right; split; congruence).
  - apply negb_false_iff, Z.eqb_eq in Hcrc. unfold dz_good. wsimpl. repeat split; auto using dz_wf_reset; try congruence; try lia.
Qed.
End OneLayer.
End Bound.
