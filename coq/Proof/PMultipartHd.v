(* C14: algebra of the part layer (htp_mpartp_handle_data): how it is handed data does not matter.
   - mp_hd_split_nl / mp_hd_split_line: handing a ++ b equals handing a (not a line end) and then b, unless the
     layer is in the state of known finding K3 (mp_dupb);
   - the line-end flags CRLF_LINE / LF_LINE commute with mp_hd (nothing tests them);
   - in data mode the is_line argument is irrelevant. *)
Require Import Htp.Model.Base Htp.Model.MBstr Htp.Model.MMultipart Htp.Spec.SMultipart.
Require Import Btauto.

Lemma mp_bb_append_assoc b x y : mp_bb_append (mp_bb_append b x) y = mp_bb_append b (x ++ y).
Proof. destruct b; cbn; [rewrite <- app_assoc|]; reflexivity. Qed.

(* ------------------------------------------------------------------ splitting *)
Definition mp_dup_part (fl : N) (mode : mp_mode) (p : mp_part) : bool :=
  mp_has c_mp_SEEN_LAST_BOUNDARY fl && match mode with MpData => match mpp_type p with MpUnknown => true | _ => false end | MpLine => false end.

Lemma mp_phd_split pl p a b l :
  mp_dup_part (mpl_flags pl) (mpl_mode pl) p = false ->
  (l = true -> b <> []) ->
  match mpl_cur (mp_part_handle_data pl p a false) with
  | Some p1 => mp_part_handle_data (mp_part_handle_data pl p a false) p1 b l = mp_part_handle_data pl p (a ++ b) l
  | None => False
  end.
Proof.
  intros Hd Hl. unfold mp_dup_part in Hd.
  destruct pl as [fl bc dn cu mo hp pe dp]. cbn [mpl_flags mpl_mode] in Hd.
  destruct mo; destruct (mp_has c_mp_SEEN_LAST_BOUNDARY fl) eqn:Eh; destruct p as [ty nm fi ct hs va fd];
    destruct ty; cbn [mpp_type andb] in Hd; try discriminate Hd;
    unfold mp_part_handle_data;
    cbn [mpl_flags mpl_mode mpl_dpieces mpl_hpieces mpl_pending mpl_bcount mpl_done mpl_cur mpp_type mpp_fdata mp_set_fdata
         mpp_name mpp_file mpp_ctype mpp_headers mpp_value];
    rewrite ?Eh; cbn [andb];
    try (destruct l; [|rewrite ?mp_bb_append_assoc; reflexivity]);
    rewrite ?mp_bb_append_assoc, <- ?app_assoc; try reflexivity;
    try (destruct hp; cbn [mp_bb_append]; rewrite <- ?app_assoc; reflexivity).
Qed.

Lemma mp_dupb_spec pl :
  mp_dupb pl = match mpl_cur pl with Some p => mp_dup_part (mpl_flags pl) (mpl_mode pl) p | None => false end.
Proof. unfold mp_dupb, mp_dup_part. destruct (mpl_cur pl); [|apply andb_false_r]. destruct (mpl_mode pl); reflexivity. Qed.

Lemma mp_hd_nil pl l : mp_hd pl [] l = pl.
Proof. reflexivity. Qed.

Lemma mp_hd_split pl a b l :
  mp_dupb pl = false -> a <> [] -> b <> [] -> mp_hd (mp_hd pl a false) b l = mp_hd pl (a ++ b) l.
Proof.
  intros Hd Ha Hb. rewrite mp_dupb_spec in Hd.
  destruct a as [|a0 a]; [congruence|]. destruct b as [|b0 b]; [congruence|].
  unfold mp_hd at 2 3. cbn [app].
  destruct (mpl_cur pl) as [p|] eqn:Ec.
  - pose proof (mp_phd_split pl p (a0 :: a) (b0 :: b) l Hd ltac:(intros _; discriminate)) as H.
    unfold mp_hd. destruct (mpl_cur (mp_part_handle_data pl p (a0 :: a) false)); [exact H|contradiction].
  - destruct (mpl_bcount pl =? 0).
    + match goal with |- mp_hd (mp_part_handle_data ?pl0 ?p0 _ _) _ _ = _ =>
        pose proof (mp_phd_split pl0 p0 (a0 :: a) (b0 :: b) l) as H end.
      unfold mp_dup_part in H; cbn [mpl_flags mpl_mode mp_new_part mpp_type] in H. rewrite andb_false_r in H.
      specialize (H eq_refl ltac:(intros _; discriminate)).
      unfold mp_hd. match goal with |- match mpl_cur ?x with _ => _ end = _ => destruct (mpl_cur x) end; [exact H|contradiction].
    + match goal with |- mp_hd (mp_part_handle_data ?pl0 ?p0 _ _) _ _ = _ =>
        pose proof (mp_phd_split pl0 p0 (a0 :: a) (b0 :: b) l) as H end.
      unfold mp_dup_part in H; cbn [mpl_flags mpl_mode mp_new_part mpp_type] in H. rewrite andb_false_r in H.
      specialize (H eq_refl ltac:(intros _; discriminate)).
      unfold mp_hd. match goal with |- match mpl_cur ?x with _ => _ end = _ => destruct (mpl_cur x) end; [exact H|contradiction].
Qed.

Lemma mp_hd_split_nl pl a b : mp_dupb pl = false -> mp_hd (mp_hd pl a false) b false = mp_hd pl (a ++ b) false.
Proof.
  intros Hd. destruct a as [|a0 a]; [reflexivity|]. destruct b as [|b0 b]; [rewrite app_nil_r; reflexivity|].
  apply mp_hd_split; [exact Hd|discriminate|discriminate].
Qed.

Lemma mp_hd_split_line pl a b : mp_dupb pl = false -> b <> [] -> mp_hd (mp_hd pl a false) b true = mp_hd pl (a ++ b) true.
Proof.
  intros Hd Hb. destruct a as [|a0 a]; [reflexivity|].
  apply mp_hd_split; [exact Hd|discriminate|exact Hb].
Qed.

(* ------------------------------------------------------------------ flags nobody tests commute with mp_hd *)
Definition mp_fneutral (f : N) : Prop := N.land f c_mp_SEEN_LAST_BOUNDARY = 0%N.

Lemma mp_or_swap fl f g : mp_or (mp_or fl f) g = mp_or (mp_or fl g) f.
Proof. unfold mp_or. rewrite <- !N.lor_assoc. f_equal. apply N.lor_comm. Qed.

Lemma mp_has_neutral fl f : mp_fneutral f -> mp_has c_mp_SEEN_LAST_BOUNDARY (mp_or fl f) = mp_has c_mp_SEEN_LAST_BOUNDARY fl.
Proof. intros H. unfold mp_has, mp_or. rewrite N.land_lor_distr_l, H, N.lor_0_r. reflexivity. Qed.

Ltac mp_lor_ac := unfold mp_or; apply N.bits_inj; intros ?n; rewrite !N.lor_spec; btauto.
Ltac mp_flags_eq := cbn [fst snd]; try reflexivity; f_equal; try reflexivity; mp_lor_ac.

Ltac mp_break :=
  repeat match goal with
         | |- context [if ?c then _ else _] => destruct c
         | |- context [match ?c with _ => _ end] => destruct c
         end.

Lemma mp_parse_header_flag fl f p d :
  mp_parse_header (mp_or fl f) p d = (mp_or (fst (mp_parse_header fl p d)) f, snd (mp_parse_header fl p d)).
Proof.
  unfold mp_parse_header. mp_break; mp_flags_eq.
Qed.

Lemma mp_cd_loop_flag fuel : forall rest fl f p,
  mp_cd_loop fuel rest (mp_or fl f) p = (mp_or (fst (mp_cd_loop fuel rest fl p)) f, snd (mp_cd_loop fuel rest fl p)).
Proof.
  induction fuel as [|fuel IH]; intros rest fl f p; cbn [mp_cd_loop]; [reflexivity|].
  destruct rest as [|r0 rest]; [reflexivity|].
  destruct (drop_while c_isspace (r0 :: rest)) as [|c r2]; [mp_flags_eq|].
  destruct (negb (c =? mp_SEMI)%N); [mp_flags_eq|].
  cbv zeta.
  destruct (mp_isnil (drop_while c_isspace r2)); [mp_flags_eq|].
  destruct (mp_isnil _); [mp_flags_eq|].
  destruct (drop_while c_isspace _) as [|c5 r6]; [mp_flags_eq|].
  destruct (negb (c5 =? mp_EQ)%N); [mp_flags_eq|].
  destruct (drop_while c_isspace r6) as [|c7 r8]; [mp_flags_eq|].
  destruct (negb (c7 =? mp_QUOTE)%N); [mp_flags_eq|].
  destruct (mp_cd_quoted r8 []) as [[raw r9]|]; [|mp_flags_eq].
  destruct (mp_beq _ mp_s_name).
  - destruct (mp_issome (mpp_name p)); [mp_flags_eq|apply IH].
  - destruct (mp_beq _ mp_s_filename).
    + destruct (mp_issome (mpp_file p)); [mp_flags_eq|apply IH].
    + mp_flags_eq.
Qed.

Lemma mp_process_headers_flag fl f p :
  mp_process_headers (mp_or fl f) p = (mp_or (fst (mp_process_headers fl p)) f, snd (mp_process_headers fl p)).
Proof.
  unfold mp_process_headers, mp_parse_c_d.
  destruct (mp_hget_c (mpp_headers p) mp_s_cd) as [v|]; [|mp_flags_eq].
  destruct (negb _); [mp_flags_eq|].
  rewrite mp_cd_loop_flag. destruct (mp_cd_loop _ _ fl p). reflexivity.
Qed.

Lemma mp_phd_flag pl p d l f :
  mp_fneutral f ->
  mp_part_handle_data (mp_pl_flag pl f) p d l = mp_pl_flag (mp_part_handle_data pl p d l) f.
Proof.
  intros Hf. unfold mp_part_handle_data, mp_pl_flag, mp_pl_set_flags.
  cbn [mpl_flags mpl_mode mpl_dpieces mpl_hpieces mpl_pending mpl_bcount mpl_done mpl_cur].
  rewrite (mp_has_neutral _ _ Hf).
  destruct (mpl_mode pl).
  - destruct l.
    + destruct (mp_isnil _).
      * destruct (mpl_pending pl) as [pe|].
        -- rewrite mp_parse_header_flag. destruct (mp_parse_header (mpl_flags pl) p pe) as [fl1 p1]. cbn [fst snd].
           rewrite mp_process_headers_flag. destruct (mp_process_headers fl1 p1) as [fl2 p2]. cbn [fst snd].
           mp_break; reflexivity.
        -- rewrite mp_process_headers_flag. destruct (mp_process_headers (mpl_flags pl) p) as [fl2 p2]. cbn [fst snd].
           mp_break; reflexivity.
      * destruct (mpl_pending pl) as [pe|]; [|reflexivity].
        destruct (c_isspace _).
        -- cbn. rewrite (mp_or_swap (mpl_flags pl) f). reflexivity.
        -- rewrite mp_parse_header_flag. destruct (mp_parse_header (mpl_flags pl) p pe) as [fl1 p1]. reflexivity.
    + reflexivity.
  - destruct (mpp_type p); reflexivity.
Qed.

Lemma mp_hd_flag pl d l f : mp_fneutral f -> mp_hd (mp_pl_flag pl f) d l = mp_pl_flag (mp_hd pl d l) f.
Proof.
  intros Hf. unfold mp_hd. destruct d as [|d0 d]; [reflexivity|].
  change (mpl_cur (mp_pl_flag pl f)) with (mpl_cur pl). change (mpl_bcount (mp_pl_flag pl f)) with (mpl_bcount pl).
  destruct (mpl_cur pl) as [p|]; [apply mp_phd_flag; exact Hf|].
  destruct (mpl_bcount pl =? 0).
  - rewrite <- mp_phd_flag by exact Hf. unfold mp_pl_flag, mp_pl_set_flags. cbn.
    rewrite (mp_or_swap (mpl_flags pl) f). reflexivity.
  - rewrite <- mp_phd_flag by exact Hf. reflexivity.
Qed.

Lemma mp_neutral_crlf : mp_fneutral c_mp_CRLF_LINE. Proof. vm_compute. reflexivity. Qed.
Lemma mp_neutral_lf : mp_fneutral c_mp_LF_LINE. Proof. vm_compute. reflexivity. Qed.

(* ------------------------------------------------------------------ further facts about mp_hd *)
Lemma mp_phd_cur pl p d l : exists q, mpl_cur (mp_part_handle_data pl p d l) = Some q.
Proof. unfold mp_part_handle_data. mp_break; cbn [mpl_cur]; eauto. Qed.

Lemma mp_hd_cur pl d l : d <> [] -> exists q, mpl_cur (mp_hd pl d l) = Some q.
Proof. intros H. unfold mp_hd. destruct d; [congruence|]. mp_break; apply mp_phd_cur. Qed.

(* no current part => line mode (the mode is only consulted when a part exists) *)
Definition mp_plwf (pl : mp_pl) : Prop := mpl_cur pl = None -> mpl_mode pl = MpLine.

Lemma mp_plwf_hd pl d l : mp_plwf pl -> mp_plwf (mp_hd pl d l).
Proof.
  intros H. destruct d as [|d0 d]; [exact H|]. intros Hc.
  destruct (mp_hd_cur pl (d0 :: d) l ltac:(discriminate)) as [q Hq]. congruence.
Qed.
Lemma mp_plwf_flag pl f : mp_plwf pl -> mp_plwf (mp_pl_flag pl f).
Proof. exact (fun H => H). Qed.
Lemma mp_plwf_hb pl : mp_plwf pl -> mp_plwf (mp_hb pl).
Proof. intros H. unfold mp_hb. destruct (mpl_cur pl) eqn:E; [intros _; reflexivity|exact H]. Qed.
Lemma mp_plwf_amatch pl : mp_plwf pl -> mp_plwf (mp_amatch pl).
Proof. intros H. unfold mp_amatch. apply mp_plwf_hb. destruct (mp_has _ _); exact H. Qed.

(* K3 persists while data is handed over *)
Lemma mp_dupb_hd pl d : mp_dupb pl = true -> mp_dupb (mp_hd pl d false) = true.
Proof.
  intros H. destruct d as [|d0 d]; [exact H|].
  unfold mp_dupb in *. apply andb_true_iff in H. destruct H as [H1 H2].
  destruct (mpl_cur pl) as [p|] eqn:Ec; [|discriminate]. destruct (mpl_mode pl) eqn:Em; [discriminate|].
  destruct (mpp_type p) eqn:Et; try discriminate.
  unfold mp_hd. rewrite Ec. unfold mp_part_handle_data. rewrite Em, Et. cbn. rewrite H1, Et. reflexivity.
Qed.

(* in data mode (and for the preamble) is_line is not looked at *)
Lemma mp_hd_line_irrelevant pl d :
  (mpl_mode pl = MpData /\ mpl_cur pl <> None) \/ (mpl_cur pl = None /\ mpl_bcount pl = 0) ->
  mp_hd pl d true = mp_hd pl d false.
Proof.
  intros H. destruct d as [|d0 d]; [reflexivity|]. unfold mp_hd.
  destruct H as [[Hm Hc]|[Hc Hb]].
  - destruct (mpl_cur pl) as [p|]; [|congruence]. unfold mp_part_handle_data. rewrite Hm. reflexivity.
  - rewrite Hc, Hb. reflexivity.
Qed.

(* K4 excluded: data handed over before a delimiter is not an open header line *)
Lemma mp_hd_closed_line pl d : mp_openlineb (mp_hd pl d false) = false -> mp_hd pl d true = mp_hd pl d false.
Proof.
  intros H. destruct d as [|d0 d]; [reflexivity|]. unfold mp_hd in *.
  destruct (mpl_cur pl) as [p|] eqn:Ec.
  - unfold mp_part_handle_data in *. destruct (mpl_mode pl) eqn:Em; [|reflexivity].
    cbn in H. destruct (mpl_hpieces pl); discriminate H.
  - destruct (mpl_bcount pl =? 0); [reflexivity|].
    unfold mp_part_handle_data in H. cbn in H. discriminate H.
Qed.

Lemma mp_hd_mode_nl pl d : mpl_cur pl <> None -> mpl_mode (mp_hd pl d false) = mpl_mode pl.
Proof.
  intros Hc. destruct d as [|d0 d]; [reflexivity|]. unfold mp_hd. destruct (mpl_cur pl) as [p|]; [|congruence].
  unfold mp_part_handle_data. destruct (mpl_mode pl); [reflexivity|]. destruct (mpp_type p); reflexivity.
Qed.

(* K3 cannot start while data is merely handed over (no line end, no boundary) *)
Lemma mp_dupb_hd_rev pl d : mp_dupb (mp_hd pl d false) = true -> mp_dupb pl = true.
Proof.
  destruct d as [|d0 d]; [exact (fun H => H)|]. unfold mp_dupb, mp_hd.
  destruct (mpl_cur pl) as [p|] eqn:Ec.
  - unfold mp_part_handle_data. destruct (mpl_mode pl) eqn:Em.
    + cbn. rewrite andb_false_r. discriminate.
    + destruct (mpp_type p) eqn:Et; cbn; rewrite ?Et; try (rewrite andb_false_r; discriminate). exact (fun H => H).
  - destruct (mpl_bcount pl =? 0); unfold mp_part_handle_data; cbn; rewrite andb_false_r; discriminate.
Qed.

Lemma mp_fold_hd_concat pieces : forall pl,
  mp_dupb pl = false ->
  fold_left (fun a x => mp_hd a x false) pieces pl = mp_hd pl (concat pieces) false.
Proof.
  induction pieces as [|x r IH]; intros pl Hd; cbn [fold_left concat]; [reflexivity|].
  rewrite IH.
  - apply mp_hd_split_nl. exact Hd.
  - destruct (mp_dupb (mp_hd pl x false)) eqn:E; [|reflexivity]. apply mp_dupb_hd_rev in E. congruence.
Qed.

Lemma mp_fold_shd_pl pieces : forall s,
  fold_left (fun a x => mp_shd a x false) pieces s =
  mp_set_pl s (fold_left (fun a x => mp_hd a x false) pieces (mps_pl s)).
Proof.
  induction pieces as [|x r IH]; intros s; cbn [fold_left]; [destruct s; reflexivity|].
  rewrite IH. reflexivity.
Qed.
