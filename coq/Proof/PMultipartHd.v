(* C14: algebra of the part layer (htp_mpartp_handle_data): how it is handed data does not matter.
   - mp_hd_split_nl / mp_hd_split_line: handing a ++ b equals handing a (not a line end) and then b, unless the
     layer is in the state of known finding K3 (mp_dupb);
   - the line-end flags CRLF_LINE / LF_LINE commute with mp_hd (nothing tests them);
   - in data mode the is_line argument is irrelevant. *)
Require Import Htp.Model.Base Htp.Model.MBstr Htp.Model.MMultipart Htp.Spec.SMultipart.

Lemma mp_bb_append_assoc b x y : mp_bb_append (mp_bb_append b x) y = mp_bb_append b (x ++ y).
Proof. destruct b; cbn; [rewrite <- app_assoc|]; reflexivity. Qed.

(* ------------------------------------------------------------------ splitting *)
Definition mp_dup_part (fl : N) (mode : mp_mode) (p : mp_part) : bool :=
  mp_has c_mp_SEEN_LAST_BOUNDARY fl && match mode with MpData => match mpp_type p with MpUnknown => true | _ => false end | MpLine => false end.

Lemma mp_phd_split pl p a b l :
  mp_dup_part (mpl_flags pl) (mpl_mode pl) p = false ->
  (l = true -> b <> []) ->
  match mpl_cur (mp_part_handle_data pl p a false) with
  | Some p1 => mp_part_handle_data (mp_part_handle_data pl p a false) p1 b l = mp_part_handle_data pl p (a ++ b) l
  | None => False
  end.
Proof.
  intros Hd Hl. unfold mp_dup_part in Hd.
  destruct pl as [fl bc dn cu mo hp pe dp]. cbn [mpl_flags mpl_mode] in Hd.
  destruct mo; destruct (mp_has c_mp_SEEN_LAST_BOUNDARY fl) eqn:Eh; destruct p as [ty nm fi ct hs va fd];
    destruct ty; cbn [mpp_type andb] in Hd; try discriminate Hd;
    unfold mp_part_handle_data;
    cbn [mpl_flags mpl_mode mpl_dpieces mpl_hpieces mpl_pending mpl_bcount mpl_done mpl_cur mpp_type mpp_fdata mp_set_fdata
         mpp_name mpp_file mpp_ctype mpp_headers mpp_value];
    rewrite ?Eh; cbn [andb];
    try (destruct l; [|rewrite ?mp_bb_append_assoc; reflexivity]);
    rewrite ?mp_bb_append_assoc, <- ?app_assoc; try reflexivity;
    try (destruct hp; cbn [mp_bb_append]; rewrite <- ?app_assoc; reflexivity).
Qed.

Lemma mp_dupb_spec pl :
  mp_dupb pl = match mpl_cur pl with Some p => mp_dup_part (mpl_flags pl) (mpl_mode pl) p | None => false end.
Proof. unfold mp_dupb, mp_dup_part. destruct (mpl_cur pl); [|apply andb_false_r]. destruct (mpl_mode pl); reflexivity. Qed.

Lemma mp_hd_nil pl l : mp_hd pl [] l = pl.
Proof. reflexivity. Qed.

Lemma mp_hd_split pl a b l :
  mp_dupb pl = false -> a <> [] -> b <> [] -> mp_hd (mp_hd pl a false) b l = mp_hd pl (a ++ b) l.
Proof.
  intros Hd Ha Hb. rewrite mp_dupb_spec in Hd.
  destruct a as [|a0 a]; [congruence|]. destruct b as [|b0 b]; [congruence|].
  unfold mp_hd at 2 3. cbn [app].
  destruct (mpl_cur pl) as [p|] eqn:Ec.
  - pose proof (mp_phd_split pl p (a0 :: a) (b0 :: b) l Hd ltac:(intros _; discriminate)) as H.
    unfold mp_hd. destruct (mpl_cur (mp_part_handle_data pl p (a0 :: a) false)); [exact H|contradiction].
  - destruct (mpl_bcount pl =? 0).
    + match goal with |- mp_hd (mp_part_handle_data ?pl0 ?p0 _ _) _ _ = _ =>
        pose proof (mp_phd_split pl0 p0 (a0 :: a) (b0 :: b) l) as H end.
      unfold mp_dup_part in H; cbn [mpl_flags mpl_mode mp_new_part mpp_type] in H. rewrite andb_false_r in H.
      specialize (H eq_refl ltac:(intros _; discriminate)).
      unfold mp_hd. match goal with |- match mpl_cur ?x with _ => _ end = _ => destruct (mpl_cur x) end; [exact H|contradiction].
    + match goal with |- mp_hd (mp_part_handle_data ?pl0 ?p0 _ _) _ _ = _ =>
        pose proof (mp_phd_split pl0 p0 (a0 :: a) (b0 :: b) l) as H end.
      unfold mp_dup_part in H; cbn [mpl_flags mpl_mode mp_new_part mpp_type] in H. rewrite andb_false_r in H.
      specialize (H eq_refl ltac:(intros _; discriminate)).
      unfold mp_hd. match goal with |- match mpl_cur ?x with _ => _ end = _ => destruct (mpl_cur x) end; [exact H|contradiction].
Qed.

Lemma mp_hd_split_nl pl a b : mp_dupb pl = false -> mp_hd (mp_hd pl a false) b false = mp_hd pl (a ++ b) false.
Proof.
  intros Hd. destruct a as [|a0 a]; [reflexivity|]. destruct b as [|b0 b]; [rewrite app_nil_r; reflexivity|].
  apply mp_hd_split; [exact Hd|discriminate|discriminate].
Qed.

Lemma mp_hd_split_line pl a b : mp_dupb pl = false -> b <> [] -> mp_hd (mp_hd pl a false) b true = mp_hd pl (a ++ b) true.
Proof.
  intros Hd Hb. destruct a as [|a0 a]; [reflexivity|].
  apply mp_hd_split; [exact Hd|discriminate|exact Hb].
Qed.
