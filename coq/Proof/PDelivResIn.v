(* C06, history level, response direction: htp_connp_res_data leaves the REQUEST-side cursor alone (c_in: buffer, pending header,
   raw-data receiver), for every parser in which no request-side receiver is installed -- the only place where the response
   side touches it is the "unable to match response to request" branch of RES_IDLE, which finalises a dangling request.
   Needed for htp_connp_close after a close-delimited response: its request half runs the request-side receiver hook, and the
   delivery theorem has to know that none is installed.  Every function of MRes / MTxRes, callbacks answering HTP_OK. *)
Require Import Htp.Model.Base Htp.Model.MBstr Htp.Model.MConnTypes Htp.Model.MTxCommon Htp.Model.MResLine Htp.Model.MTxRes.
Require Import Htp.Model.MReq Htp.Model.MRes Htp.Model.MConnp.
Require Import Htp.Spec.SBody Htp.Proof.PBody Htp.Proof.PWireExch Htp.Proof.PWireGlue Htp.Proof.PSegRes Htp.Proof.PSegResGen Htp.Proof.PDeliv Htp.Proof.PDelivRes.

(* no request-side raw-data receiver *)
Definition dv_qin (c : connp) : Prop := k_receiver_hook (c_in c) = None.
Definition dv_qi (c c' : connp) : Prop := dv_qin c -> c_in c' = c_in c.
Lemma dv_qi_refl c : dv_qi c c. Proof. intros _. reflexivity. Qed.
Lemma dv_qi_eq c c' : c_in c' = c_in c -> dv_qi c c'. Proof. intros H _. exact H. Qed.
Lemma dv_qi_trans a b c : dv_qi a b -> dv_qi b c -> dv_qi a c.
Proof. intros H1 H2 Q. pose proof (H1 Q) as E1. rewrite <- E1. apply H2. unfold dv_qin. rewrite E1. exact Q. Qed.
Lemma dv_qi_eq_l a b c : c_in b = c_in a -> dv_qi b c -> dv_qi a c.
Proof. intros H1 H2. eapply dv_qi_trans; [apply dv_qi_eq; exact H1|exact H2]. Qed.
Lemma dv_qi_eq_r a b c : dv_qi a b -> c_in c = c_in b -> dv_qi a c.
Proof. intros H1 H2. eapply dv_qi_trans; [exact H1|apply dv_qi_eq; exact H2]. Qed.

(* ---- primitives: c_in is not touched ---- *)
Lemma ki_tx_put c i t : c_in (tx_put c i t) = c_in c.
Proof. unfold tx_put. dv_splits; reflexivity. Qed.
Lemma ki_tx_upd c i f : c_in (tx_upd c i f) = c_in c.
Proof. unfold tx_upd. destruct (tx_slot c i); [apply ki_tx_put|reflexivity]. Qed.
Lemma ki_otx f c : c_in (rs_otx f c) = c_in c.
Proof. unfold rs_otx. destruct (c_out_tx c); [apply ki_tx_upd|reflexivity]. Qed.
Lemma ki_load_next c : c_in (rs_load_next c) = c_in c.
Proof. unfold rs_load_next. destruct (rs_cur_byte c _); reflexivity. Qed.
Lemma ki_peek c : c_in (rs_peek_next c) = c_in c.
Proof. unfold rs_peek_next. destruct (rs_has_byte c); [apply ki_load_next|reflexivity]. Qed.
Lemma ki_copy c c' : rs_copy_byte c = Some c' -> c_in c' = c_in c.
Proof. unfold rs_copy_byte. destruct (rs_has_byte c); [|discriminate]. intros E. inversion E. cbn. apply ki_load_next. Qed.
Lemma ki_copy_or_fault c : c_in (match rs_copy_byte c with Some c' => c' | None => rs_fault c end) = c_in c.
Proof. destruct (rs_copy_byte c) eqn:E; [apply (ki_copy _ _ E)|reflexivity]. Qed.
Lemma ki_next c c' : rs_next_byte c = Some c' -> c_in c' = c_in c.
Proof. unfold rs_next_byte. destruct (rs_has_byte c); [|discriminate]. intros E. inversion E. cbn. apply ki_load_next. Qed.
Lemma ki_run_tx_hooks k h i data last c : c_in (run_tx_hooks k h i data last c) = c_in c.
Proof. destruct (bd_run_tx_hooks_spec k h i data last c) as (new & E & _). rewrite E. reflexivity. Qed.
Lemma ki_destroy_incomplete c i : c_in (tx_destroy_incomplete c i) = c_in c.
Proof. unfold tx_destroy_incomplete. dv_splits; reflexivity. Qed.
Lemma ki_destroy c i : c_in (tx_destroy c i) = c_in c.
Proof. unfold tx_destroy. destruct (tx_slot c i); [destruct (tx_is_complete t); [apply ki_destroy_incomplete|reflexivity]|reflexivity]. Qed.

Section InRes.
Variable cb : cb_oracle.
Variable g : cfg.
Hypothesis Hcb : wr_all_ok cb.

Lemma ki_finalize i c : c_in (snd (tx_finalize cb g i c)) = c_in c.
Proof.
  unfold tx_finalize. destruct (tx_slot c i) as [t|]; [|reflexivity]. destruct (negb _); [reflexivity|].
  unfold run_hook_ex. rewrite Hcb. match goal with |- context [tx_slot ?x i] => destruct (tx_slot x i) end; cbn [snd]; [|reflexivity].
  destruct (g_tx_auto_destroy g); [rewrite ki_destroy|]; reflexivity.
Qed.
Lemma ki_res_buffer c : c_in (snd (rs_res_buffer g c)) = c_in c.
Proof. unfold rs_res_buffer. cbv zeta. destruct (k_data (c_out c)); [|reflexivity]. dv_splits; reflexivity. Qed.
Lemma ki_consolidate c : c_in (snd (rs_consolidate g c)) = c_in c.
Proof.
  unfold rs_consolidate. cbv zeta. destruct (k_buf (c_out c)).
  - pose proof (ki_res_buffer c) as H. destruct (rs_res_buffer g c) as [[] c1]; exact H.
  - destruct (k_data (c_out c)); cbn [snd]; dv_splits; reflexivity.
Qed.
Lemma ki_send last c : c_in (snd (res_receiver_send_data cb last c)) = c_in c.
Proof.
  unfold res_receiver_send_data. destruct (k_receiver_hook (c_out c)); [|reflexivity]. cbv zeta.
  unfold run_data_hook. rewrite (wr_run_hook_ex cb Hcb). cbn [snd]. cbn. dv_splits; reflexivity.
Qed.
Lemma ki_rfinalize c : c_in (snd (res_receiver_finalize_clear cb c)) = c_in c.
Proof.
  unfold res_receiver_finalize_clear. destruct (k_receiver_hook (c_out c)); [|reflexivity].
  pose proof (ki_send true c) as H. destruct (res_receiver_send_data cb true c) as [rc c1]. cbn [snd] in *. exact H.
Qed.
Lemma ki_rset h c : c_in (snd (res_receiver_set cb h c)) = c_in c.
Proof. unfold res_receiver_set. pose proof (ki_rfinalize c) as H. destruct (res_receiver_finalize_clear cb c) as [rc c1]. cbn [snd] in *. exact H. Qed.
Lemma ki_state_change c : c_in (snd (rs_handle_state_change cb c)) = c_in c.
Proof.
  unfold rs_handle_state_change. cbv zeta. destruct (match c_out_state_previous c with Some p => _ | None => false end); [reflexivity|].
  set (r := if res_state_eqb (c_out_state c) RES_HEADERS then _ else (ST_OK, c)).
  assert (H : c_in (snd r) = c_in c).
  { unfold r. destruct (res_state_eqb _ _); [|reflexivity]. destruct (_ =? _)%Z; [rewrite ki_rset; destruct (c_out_tx c); reflexivity|].
    destruct (_ =? _)%Z; [rewrite ki_rset; destruct (c_out_tx c); reflexivity|destruct (c_out_tx c); reflexivity]. }
  clearbody r. destruct r as [rc c1]. cbn [snd] in H. destruct rc; exact H.
Qed.
Lemma ki_exit rc c : c_in (fst (rs_res_exit cb g rc c)) = c_in c.
Proof.
  unfold rs_res_exit. pose proof (ki_send false c) as H. destruct rc; try reflexivity.
  - cbn [fst]. exact H.
  - destruct (_ <=? _)%nat; reflexivity.
  - set (c0 := snd (res_receiver_send_data cb false c)) in *. pose proof (ki_res_buffer c0) as H1. destruct (rs_res_buffer g c0) as [brc c1]. cbn [snd] in H1.
    destruct brc; cbn [fst]; cbn; rewrite H1; exact H.
Qed.
Lemma ki_process_body data len c : c_in (snd (rs_process_body cb data len c)) = c_in c.
Proof.
  unfold rs_process_body. destruct (c_out_tx c) as [i|]; [|reflexivity]. unfold tx_res_process_body_data_ex.
  set (c1 := tx_upd c i _). assert (H1 : c_in c1 = c_in c) by apply ki_tx_upd.
  destruct (_ =? _)%Z; [|exact H1]. set (c2 := tx_upd c1 i _). assert (H2 : c_in c2 = c_in c) by (unfold c2; rewrite ki_tx_upd; exact H1).
  unfold res_run_hook_body_data.
  assert (G : forall r : st * connp, c_in (snd r) = c_in c -> c_in (snd (match r with (ST_OK, c) => (ST_OK, c) | (_, c) => (ST_ERROR, c) end)) = c_in c).
  { intros [[] x] Hx; exact Hx. }
  assert (Hk : c_in (snd (match c_out_tx c2 with
                          | None => (ST_ERROR, c2 <| c_fault := true |>)
                          | Some o => run_data_hook cb H_RESPONSE_BODY_DATA i data false
                                        (run_tx_hooks (t_hook_response_body (tx_get c2 o)) H_TX_RESPONSE_BODY_DATA i data false c2)
                          end)) = c_in c).
  { destruct (c_out_tx c2); [|exact H2]. unfold run_data_hook. rewrite (wr_run_hook_ex cb Hcb). cbn [snd]. cbn. rewrite ki_run_tx_hooks. exact H2. }
  destruct data as [d|]; [destruct len|]; [exact H2|apply G; exact Hk|apply G; exact Hk].
Qed.
Lemma ki_response_start i c : c_in (snd (tx_state_response_start cb i c)) = c_in c.
Proof.
  unfold tx_state_response_start. cbv zeta. rewrite (wr_run_hook cb Hcb). destruct (t_is_protocol_0_9 _); cbn [snd]; [cbn; rewrite ki_tx_upd|rewrite ki_tx_upd]; reflexivity.
Qed.
Lemma ki_response_line i c : c_in (snd (tx_state_response_line cb i c)) = c_in c.
Proof. unfold tx_state_response_line. rewrite (wr_run_hook cb Hcb). cbn [snd]. cbn. apply ki_tx_upd. Qed.
Lemma ki_response_headers_tx i c : c_in (snd (tx_state_response_headers cb i c)) = c_in c.
Proof.
  unfold tx_state_response_headers. cbv zeta. set (c1 := tx_upd c i _). assert (H1 : c_in c1 = c_in c) by apply ki_tx_upd.
  pose proof (ki_rfinalize c1) as H2. destruct (res_receiver_finalize_clear cb c1) as [rc c2]. cbn [snd] in H2.
  destruct rc; cbn [snd]; try (rewrite H2; exact H1). rewrite (wr_run_hook cb Hcb). cbn [snd]. cbn. rewrite H2. exact H1.
Qed.
Lemma ki_response_headers c : c_in (snd (rs_response_headers cb c)) = c_in c.
Proof. unfold rs_response_headers. destruct (c_out_tx c); [apply ki_response_headers_tx|reflexivity]. Qed.
Lemma ki_complete_ex i hy c : c_in (snd (tx_state_response_complete_ex cb g i hy c)) = c_in c.
Proof.
  unfold tx_state_response_complete_ex.
  set (r1 := if negb _ then _ else (ST_OK, c)).
  assert (H1 : c_in (snd r1) = c_in c).
  { unfold r1. destruct (negb _); [|reflexivity]. cbv zeta. set (c1 := tx_upd c i _). assert (E1 : c_in c1 = c_in c) by apply ki_tx_upd.
    set (c2 := if negb _ then snd (tx_res_process_body_data_ex cb i None 0 c1) else c1).
    assert (E2 : c_in c2 = c_in c).
    { unfold c2. destruct (negb _); [|exact E1]. unfold tx_res_process_body_data_ex. set (d1 := tx_upd c1 i _). assert (F1 : c_in d1 = c_in c) by (unfold d1; rewrite ki_tx_upd; exact E1).
      destruct (_ =? _)%Z; [|exact F1]. set (d2 := tx_upd d1 i _). assert (F2 : c_in d2 = c_in c) by (unfold d2; rewrite ki_tx_upd; exact F1).
      unfold res_run_hook_body_data. destruct (c_out_tx d2); [|cbn; exact F2].
      unfold run_data_hook. rewrite (wr_run_hook_ex cb Hcb). cbn [snd]. cbn. rewrite ki_run_tx_hooks. exact F2. }
    clearbody c2. rewrite (wr_run_hook cb Hcb). pose proof (ki_rfinalize (wr_hook_ev H_RESPONSE_COMPLETE i None false c2)) as E3.
    destruct (res_receiver_finalize_clear cb _) as [rc3 c3]. cbn [snd] in *. rewrite E3. exact E2. }
  clearbody r1. destruct r1 as [rc c1]. cbn [snd] in H1. destruct rc; cbn [snd]; try exact H1. cbv zeta.
  assert (W : forall ret x, c_in x = c_in c -> c_in (snd (match tx_finalize cb g i x with (ST_OK, c0) => (ret, c0 <| c_out_tx := None |> <| c_out_state := RES_IDLE |>) | r => r end)) = c_in c).
  { intros ret x Hx. pose proof (ki_finalize i x) as F. destruct (tx_finalize cb g i x) as [[] c2]; cbn [snd] in *; rewrite <- Hx; exact F. }
  destruct (negb hy && _); [apply W; exact H1|]. destruct (negb hy && _); apply W; exact H1.
Qed.
Lemma ki_response_complete c : c_in (snd (rs_response_complete cb g c)) = c_in c.
Proof. unfold rs_response_complete. destruct (c_out_tx c); [apply ki_complete_ex|reflexivity]. Qed.

Lemma ki_body_slice c n : c_in (snd (rs_body_slice c n)) = c_in c.
Proof. unfold rs_body_slice. destruct (k_data (c_out c)); cbn [snd]; [reflexivity|destruct (_ <? _)%nat; reflexivity]. Qed.
Lemma ki_cl_known c : c_in (snd (rs_RES_BODY_IDENTITY_CL_KNOWN cb c)) = c_in c.
Proof.
  unfold rs_RES_BODY_IDENTITY_CL_KNOWN. cbv zeta. destruct (rs_closed c); [rewrite ki_process_body; reflexivity|]. destruct (_ =? 0)%nat; [reflexivity|].
  pose proof (ki_body_slice c (rs_bytes_to_consume c (c_out_body_data_left c))) as H0. destruct (rs_body_slice c _) as [data c0]. cbn [snd] in H0.
  pose proof (ki_process_body data (rs_bytes_to_consume c (c_out_body_data_left c)) c0) as H1. destruct (rs_process_body cb data _ c0) as [rc c1]. cbn [snd] in H1.
  destruct rc; cbn [snd]; try (rewrite H1; exact H0). destruct (_ =? 0)%Z; [rewrite ki_process_body|]; cbn; rewrite H1; exact H0.
Qed.
Lemma ki_stream_close c : c_in (snd (rs_RES_BODY_IDENTITY_STREAM_CLOSE cb c)) = c_in c.
Proof.
  unfold rs_RES_BODY_IDENTITY_STREAM_CLOSE. cbv zeta.
  set (c0 := if (_ <? _)%nat then rs_fault c else c). assert (H0 : c_in c0 = c_in c) by (unfold c0; destruct (_ <? _)%nat; reflexivity).
  set (r := if (_ =? 0)%nat then (ST_OK, c0) else _).
  assert (H : c_in (snd r) = c_in c).
  { unfold r. destruct (_ =? 0)%nat; [exact H0|].
    pose proof (ki_body_slice c0 (k_len (c_out c) - k_read (c_out c))) as H1. destruct (rs_body_slice c0 _) as [data c1]. cbn [snd] in H1.
    pose proof (ki_process_body data (k_len (c_out c) - k_read (c_out c)) c1) as H2. destruct (rs_process_body cb data _ c1) as [rc c2]. cbn [snd] in H2.
    destruct rc; cbn [snd]; cbn; rewrite H2, H1; exact H0. }
  clearbody r. destruct r as [rc c1]. cbn [snd] in H. destruct rc; try exact H. destruct (rs_closed c1); exact H.
Qed.
Lemma ki_chunked_data c : c_in (snd (rs_RES_BODY_CHUNKED_DATA cb c)) = c_in c.
Proof.
  unfold rs_RES_BODY_CHUNKED_DATA. cbv zeta. destruct (_ =? 0)%nat; [reflexivity|].
  pose proof (ki_body_slice c (rs_bytes_to_consume c (c_out_chunked_length c))) as H0. destruct (rs_body_slice c _) as [data c0]. cbn [snd] in H0.
  pose proof (ki_process_body data (rs_bytes_to_consume c (c_out_chunked_length c)) c0) as H1. destruct (rs_process_body cb data _ c0) as [rc c1]. cbn [snd] in H1.
  destruct rc; cbn [snd]; try (rewrite H1; exact H0). destruct (_ =? 0)%Z; cbn; rewrite H1; exact H0.
Qed.
Lemma ki_data_end_loop : forall f c, c_in (snd (rs_chunked_data_end_loop f c)) = c_in c.
Proof.
  induction f as [|f IH]; intros c; cbn [rs_chunked_data_end_loop]; [reflexivity|].
  destruct (rs_next_byte c) as [c1|] eqn:E; [|reflexivity]. cbv zeta. pose proof (ki_next _ _ E) as H1.
  destruct (rs_nb_is _ LF); [cbn; rewrite ki_otx; exact H1|]. rewrite IH, ki_otx. exact H1.
Qed.
Lemma ki_chunked_length_loop : forall f c, c_in (snd (rs_chunked_length_loop g f c)) = c_in c.
Proof.
  induction f as [|f IH]; intros c; cbn [rs_chunked_length_loop]; [reflexivity|].
  destruct (rs_copy_byte c) as [c1|] eqn:E; [|reflexivity]. pose proof (ki_copy _ _ E) as H1. cbv zeta.
  destruct (_ || _); [|rewrite IH; exact H1].
  pose proof (ki_consolidate c1) as H2. destruct (rs_consolidate g c1) as [[data|] c2]; cbn [snd] in H2; [|cbn [snd]; rewrite H2; exact H1].
  assert (H3 : forall f0, c_in (rs_otx f0 c2) = c_in c) by (intros f0; rewrite ki_otx, H2; exact H1).
  destruct (_ =? -1004)%Z; [rewrite IH; cbn; apply H3|]. destruct (_ <? 0)%Z; cbn [snd]; [rewrite ki_otx; cbn; apply H3|].
  destruct (0 <? _)%Z; cbn [snd]; [cbn; apply H3|]. rewrite ki_otx. cbn. apply H3.
Qed.
Lemma ki_unblock z c : c_in (rs_unblock_request z c) = c_in c.
Proof. unfold rs_unblock_request. destruct (negb _); reflexivity. Qed.
Lemma ki_body_determine c : c_in (snd (rs_RES_BODY_DETERMINE cb c)) = c_in c.
Proof.
  unfold rs_RES_BODY_DETERMINE. cbv zeta.
  assert (RH : forall x, c_in x = c_in c -> c_in (snd (rs_response_headers cb x)) = c_in c) by (intros x Hx; rewrite ki_response_headers; exact Hx).
  destruct (_ && _ && _); [apply RH; reflexivity|].
  match goal with |- context [if ?b then rs_unblock_request c_HTP_STREAM_DATA c <| c_out_data_other_at_tx_end := true |> else c] =>
    set (c1 := if b then rs_unblock_request c_HTP_STREAM_DATA c <| c_out_data_other_at_tx_end := true |> else c);
    assert (H1 : c_in c1 = c_in c) by (unfold c1; destruct b; [cbn; apply ki_unblock|reflexivity]) end.
  clearbody c1.
  destruct (_ && _ && _); [apply RH; cbn; rewrite ki_unblock; exact H1|].
  destruct (_ && _ && _); [cbn [snd]; cbn; rewrite ki_otx; exact H1|].
  set (c2 := if (_ && _ && (0 <? c_in_content_length c1)%Z && _) then _ else c1).
  assert (H2 : c_in c2 = c_in c).
  { unfold c2. destruct (_ && _ && (0 <? c_in_content_length c1)%Z && _); [|exact H1].
    destruct (rs_hdr_get_c _ rs_str_expect); [destruct (_ =? 0)%Z|]; exact H1. }
  clearbody c2.
  match goal with |- context [if (t_request_method_number (rs_tx c) =? c_HTP_M_HEAD)%Z then ?X else ?Y] =>
    set (c3 := if (t_request_method_number (rs_tx c) =? c_HTP_M_HEAD)%Z then X else Y); assert (H3 : c_in c3 = c_in c) end.
  { unfold c3. destruct (_ =? c_HTP_M_HEAD)%Z; [cbn; rewrite ki_otx; exact H2|].
    destruct (_ || _ || _); [|exact H2]. destruct (_ && _); [cbn; rewrite ki_otx; exact H2|exact H2]. }
  clearbody c3.
  match goal with |- c_in (snd (let '(rc, c0) := ?R in _)) = _ => assert (H4 : c_in (snd R) = c_in c) end.
  { destruct (negb _); [|exact H3]. cbv zeta.
    set (c4 := match rs_hdr_get_c (t_response_headers (rs_tx c)) rs_str_content_type with
               | Some h => rs_otx (fun t => t <| t_response_content_type := Some (rs_content_type (h_value h)) |>) c3 | None => c3 end).
    assert (H5 : c_in c4 = c_in c) by (unfold c4; destruct (rs_hdr_get_c _ rs_str_content_type); [rewrite ki_otx|]; exact H3).
    clearbody c4.
    destruct (match rs_hdr_get_c _ rs_str_transfer_encoding with Some h => _ | None => false end); [cbn [snd]; cbn; rewrite ki_otx; exact H5|].
    destruct (rs_hdr_get_c _ rs_str_content_length) as [h|].
    - destruct (_ <? 0)%Z; [cbn [snd]; rewrite ki_otx; exact H5|]. destruct (negb _); cbn [snd]; cbn; rewrite ?ki_otx; cbn; rewrite ?ki_otx; exact H5.
    - destruct (match rs_hdr_get_c _ rs_str_content_type with Some h => _ | None => false end); cbn [snd]; [exact H5|]. cbn. rewrite ki_otx. exact H5. }
  match goal with |- c_in (snd (let '(rc, c0) := ?R in _)) = _ => destruct R as [rc c5] end. cbn [snd] in H4.
  destruct rc; try exact H4. apply RH. exact H4.
Qed.
Lemma ki_trailer_end c : c_in (snd (rs_trailer_end cb c)) = c_in c.
Proof.
  unfold rs_trailer_end. pose proof (ki_rfinalize c) as H. destruct (res_receiver_finalize_clear cb c) as [rc c1]. cbn [snd] in H.
  destruct rc; cbn [snd]; try exact H. rewrite (wr_run_hook cb Hcb). cbn [snd]. cbn. exact H.
Qed.
Lemma ki_flush_header c : c_in (rs_flush_header c) = c_in c.
Proof. unfold rs_flush_header. destruct (k_header (c_out c)); [cbn; unfold rs_process_header; apply ki_otx|reflexivity]. Qed.
Lemma ki_headers_line data c : c_in (snd (rs_headers_line cb g data c)) = c_in c /\
  match fst (rs_headers_line cb g data c) with Some r => c_in (snd r) = c_in c | None => True end.
Proof.
  unfold rs_headers_line. cbv zeta.
  set (c1 := if rs_has_byte c then match rs_cur_byte c (k_read (c_out c)) with Some _ => c | None => rs_fault c end else c).
  assert (H1 : c_in c1 = c_in c) by (unfold c1; destruct (rs_has_byte c); [destruct (rs_cur_byte c _)|]; reflexivity).
  destruct (rs_is_line_terminator _ _ _).
  - assert (H2 : c_in (rs_clear_buffer (rs_flush_header c1)) = c_in c) by (cbn; rewrite ki_flush_header; exact H1).
    destruct (_ =? _)%Z; cbn [fst snd]; (split; [exact H2|]); [exact H2|rewrite ki_trailer_end; exact H2].
  - cbn [fst snd]. split; [|exact I]. cbn.
    destruct (_ =? 0)%Z.
    + destruct (rs_nb _) as [b|]; [destruct (negb _)|]; unfold rs_process_header, rs_set_header; cbn; rewrite ?ki_otx, ?ki_peek, ?ki_flush_header; exact H1.
    + destruct (k_header (c_out c1)) as [h|].
      * destruct (_ && _); [unfold rs_process_header, rs_set_header, rs_flag_invalid_folding; cbn; rewrite !ki_otx; exact H1|].
        destruct (_ <? _)%Z; [unfold rs_set_header; cbn; exact H1|exact H1].
      * unfold rs_set_header, rs_flag_invalid_folding. cbn. rewrite ki_otx. exact H1.
Qed.
Lemma ki_headers_loop : forall f lf c, c_in (snd (rs_headers_loop cb g f lf c)) = c_in c.
Proof.
  induction f as [|f IH]; intros lf c; cbn [rs_headers_loop]; [reflexivity|].
  destruct (rs_closed c); [apply ki_trailer_end|].
  destruct (rs_copy_byte c) as [c1|] eqn:Ec; [|reflexivity]. pose proof (ki_copy _ _ Ec) as H1. rewrite <- H1. clear H1 Ec c. rename c1 into c.
  destruct (negb (rs_nb_is c LF) && negb (rs_nb_is c CR)); [apply IH|].
  assert (After : forall (scan : nat) c2, c_in c2 = c_in c ->
            c_in (snd (match scan with
                       | 0%nat => (ST_DATA_BUFFER, c2)
                       | 1%nat => rs_headers_loop cb g f lf c2
                       | _ => let endwithcr := (scan =? 2)%nat in
                              let lfcr' := (scan =? 4)%nat in
                              match rs_consolidate g c2 with
                              | (None, c) => (ST_ERROR, c)
                              | (Some data, c) =>
                                let d := rs_dbytes data in
                                if endwithcr && (length d <? 2)%nat then rs_headers_loop cb g f lfcr' c
                                else match rs_headers_line cb g d c with
                                     | (Some r, _) => r
                                     | (None, c) => rs_headers_loop cb g f lfcr' c
                                     end
                              end
                       end)) = c_in c).
  { intros scan c2 H2. destruct scan as [|[|scan]]; [exact H2|rewrite IH; exact H2|].
    cbv zeta. pose proof (ki_consolidate c2) as H3. destruct (rs_consolidate g c2) as [[data|] c3]; cbn [snd] in H3; [|cbn [snd]; rewrite H3; exact H2].
    destruct (_ && _); [rewrite IH, H3; exact H2|]. destruct (ki_headers_line (rs_dbytes data) c3) as [A B].
    destruct (rs_headers_line cb g (rs_dbytes data) c3) as [[r|] c4]; cbn [fst snd] in *; [rewrite B, H3; exact H2|rewrite IH, A, H3; exact H2]. }
  assert (CF : forall y, c_in (match rs_copy_byte y with Some c' => c' | None => rs_fault y end) = c_in y) by apply ki_copy_or_fault.
  destruct (rs_nb_is c CR).
  - destruct (rs_nb (rs_peek_next c)) as [b|]; [|apply (After 0%nat); apply ki_peek].
    destruct (b =? LF)%N; [|destruct (b =? CR)%N; [apply (After 1%nat)|apply (After 2%nat)]; apply ki_peek].
    apply (After 2%nat). clear After IH.
    set (x1 := match rs_copy_byte (rs_peek_next c) with Some c0 => c0 | None => rs_fault (rs_peek_next c) end).
    assert (X1 : c_in x1 = c_in c) by (unfold x1; rewrite CF; apply ki_peek).
    destruct lf; [|exact X1]. clearbody x1.
    destruct (rs_nb_is (rs_peek_next x1) CR); [|rewrite ki_peek; exact X1].
    set (x2 := rs_set_out (fun k => k <| k_consume ::= S |>) (match rs_copy_byte (rs_peek_next x1) with Some c0 => c0 | None => rs_fault (rs_peek_next x1) end)).
    assert (X2 : c_in x2 = c_in c) by (unfold x2; cbn; rewrite CF, ki_peek; exact X1).
    clearbody x2. destruct (rs_nb_is (rs_peek_next x2) LF); [|rewrite ki_peek; exact X2]. cbn. rewrite CF, ki_peek. exact X2.
  - destruct (rs_nb_is (rs_peek_next c) CR); [|apply (After 3%nat); apply ki_peek].
    apply (After 4%nat). rewrite CF. apply ki_peek.
Qed.
Lemma ki_line_complete c : c_in (snd (rs_line_complete cb g c)) = c_in c.
Proof.
  unfold rs_line_complete. pose proof (ki_consolidate c) as H. destruct (rs_consolidate g c) as [[data|] c1]; cbn [snd] in H; [|exact H].
  cbv zeta. destruct (rs_is_line_ignorable _ _).
  - cbn [snd]. cbn. rewrite ki_otx. destruct (rs_closed c1); exact H.
  - set (c2 := rs_otx _ c1). assert (H2 : c_in c2 = c_in c) by (unfold c2; rewrite ki_otx; exact H).
    destruct (rs_chomp (rs_dbytes data)) as [dc chomp_result].
    destruct (rs_treat_response_line_as_body _).
    + cbv zeta.
      set (c3 := if (S (k_read (c_out c2)) <? k_len (c_out c2))%nat then match rs_cur_byte c2 (k_read (c_out c2)) with Some _ => c2 | None => rs_fault c2 end else c2).
      assert (H3 : c_in c3 = c_in c) by (unfold c3; destruct (_ <? _)%nat; [destruct (rs_cur_byte c2 _)|]; exact H2).
      destruct ((S (k_read (c_out c2)) <? k_len (c_out c2))%nat && _); [cbn [snd]; cbn; rewrite ki_otx; exact H3|].
      match goal with |- context [rs_process_body cb ?bd ?bl ?x] => pose proof (ki_process_body bd bl x) as Hp;
        assert (H4 : c_in x = c_in c) by (cbn; rewrite ki_otx; exact H3); destruct (rs_process_body cb bd bl x) as [rc c5] end.
      cbn [snd] in Hp. destruct rc; cbn [snd]; try (cbn; rewrite Hp; exact H4).
      destruct (_ <=? _)%nat; cbn [snd]; cbn; rewrite ?ki_otx; cbn; rewrite Hp; exact H4.
    + set (c3 := rs_otx _ c2). assert (H3 : c_in c3 = c_in c) by (unfold c3; rewrite ki_otx; exact H2).
      pose proof (ki_response_line (out_txi c3) c3) as H4. unfold tx_state_response_line in *. rewrite (wr_run_hook cb Hcb) in *. cbn [snd] in *.
      rewrite ki_otx. cbn. cbn in H4. rewrite H4. exact H3.
Qed.
Lemma ki_line_loop : forall f c, c_in (snd (rs_line_loop cb g f c)) = c_in c.
Proof.
  induction f as [|f IH]; intros c; cbn [rs_line_loop]; [reflexivity|]. cbv zeta.
  assert (Hstep : forall c1, c_in c1 = c_in c ->
       c_in (snd (let '(act, c) := if rs_nb_is c1 CR then
                                    let c := rs_peek_next c1 in
                                    match rs_nb c with
                                    | None => (0%nat, c)
                                    | Some b => if (b =? LF)%N then (1%nat, c) else (2%nat, rs_set_out (fun k => k <| k_next_byte := Some LF |>) c)
                                    end
                                  else (2%nat, c1) in
                 match act with
                 | 0%nat => (ST_DATA_BUFFER, c)
                 | 1%nat => rs_line_loop cb g f c
                 | _ => if rs_nb_is c LF || rs_closed c then rs_line_complete cb g c else rs_line_loop cb g f c
                 end)) = c_in c).
  { intros c1 H1.
    assert (G3 : forall c2, c_in c2 = c_in c -> c_in (snd (if rs_nb_is c2 LF || rs_closed c2 then rs_line_complete cb g c2 else rs_line_loop cb g f c2)) = c_in c).
    { intros c2 H2. destruct (_ || _); [rewrite ki_line_complete|rewrite IH]; exact H2. }
    destruct (rs_nb_is c1 CR); [|apply G3; exact H1].
    cbv zeta. destruct (rs_nb (rs_peek_next c1)) as [b|]; [|cbn [snd]; rewrite ki_peek; exact H1].
    destruct (b =? LF)%N; [rewrite IH, ki_peek; exact H1|]. apply G3. cbn. rewrite ki_peek. exact H1. }
  destruct (negb (rs_closed c)).
  - destruct (rs_copy_byte c) as [c1|] eqn:Ec; [apply Hstep; apply (ki_copy _ _ Ec)|reflexivity].
  - apply Hstep. reflexivity.
Qed.
Lemma ki_finalize_scan : forall f c, c_in (snd (rs_finalize_scan f c)) = c_in c.
Proof.
  induction f as [|f IH]; intros c; cbn [rs_finalize_scan]; [reflexivity|].
  destruct (rs_copy_byte c) as [c1|] eqn:E; [|reflexivity]. destruct (rs_nb_is c1 LF); [cbn [snd]|rewrite IH]; apply (ki_copy _ _ E).
Qed.
Lemma ki_finalize_tail c : c_in (snd (rs_finalize_tail cb g c)) = c_in c.
Proof.
  unfold rs_finalize_tail. cbv zeta. pose proof (ki_consolidate c) as H. destruct (rs_consolidate g c) as [[data|] c1]; cbn [snd] in H; [|exact H].
  destruct (_ =? 0)%nat; [rewrite ki_response_complete; exact H|].
  destruct (rs_treat_response_line_as_body _).
  - pose proof (ki_process_body data (length (rs_dbytes data)) c1) as Hp.
    destruct (rs_process_body cb data (length (rs_dbytes data)) c1) as [rc c2]. cbn [snd] in *. cbn. rewrite Hp. exact H.
  - rewrite ki_response_complete. cbn. dv_splits; exact H.
Qed.
Lemma ki_res_finalize c : c_in (snd (rs_RES_FINALIZE cb g c)) = c_in c.
Proof.
  unfold rs_RES_FINALIZE. destruct (negb (rs_closed c)); [|apply ki_finalize_tail]. cbv zeta.
  destruct (rs_nb (rs_peek_next c)) as [b|]; [|rewrite ki_response_complete; apply ki_peek].
  destruct (_ || _); [|rewrite ki_finalize_tail; apply ki_peek].
  pose proof (ki_finalize_scan (rs_bytes_fuel (rs_peek_next c)) (rs_peek_next c)) as H. destruct (rs_finalize_scan _ _) as [[] c1]; cbn [snd] in H.
  - rewrite ki_finalize_tail, H. apply ki_peek.
  - cbn [snd]. rewrite H. apply ki_peek.
Qed.

(* ---- the request side, as far as the response side calls it (RES_IDLE: "unable to match response to request") ---- *)
Lemma qi_req_finalize_clear c : dv_qi c (snd (req_receiver_finalize_clear cb c)).
Proof. intros Q. unfold req_receiver_finalize_clear. unfold dv_qin in Q. rewrite Q. reflexivity. Qed.
Lemma qi_request_complete i c : dv_qi c (snd (tx_state_request_complete cb g i c)).
Proof.
  intros Q. unfold tx_state_request_complete. destruct (tx_slot c i) as [t0|]; [|reflexivity].
  set (r := if negb _ then tx_state_request_complete_partial cb i c else (ST_OK, c)).
  assert (H : c_in (snd r) = c_in c).
  { unfold r. destruct (negb _); [|reflexivity]. unfold tx_state_request_complete_partial.
    set (r0 := if tx_req_has_body (tx_get c i) then tx_req_process_body_data_ex cb i None 0 c else (ST_OK, c)).
    assert (H0 : c_in (snd r0) = c_in c).
    { unfold r0. destruct (tx_req_has_body _); [|reflexivity]. unfold tx_req_process_body_data_ex. cbv zeta.
      set (c1 := tx_upd c i _). assert (E1 : c_in c1 = c_in c) by apply ki_tx_upd. unfold req_run_hook_body_data.
      destruct (c_in_tx c1) as [j|]; [|cbn; exact E1]. unfold run_data_hook. rewrite (wr_run_hook_ex cb Hcb). cbn [snd]. cbn. rewrite ki_run_tx_hooks. exact E1. }
    clearbody r0. destruct r0 as [rc c1]. cbn [snd] in H0. destruct rc; cbn [snd]; try exact H0.
    rewrite (wr_run_hook cb Hcb). set (c2 := wr_hook_ev H_REQUEST_COMPLETE i None false (tx_upd c1 i _)).
    assert (E2 : c_in c2 = c_in c) by (unfold c2; cbn; rewrite ki_tx_upd; exact H0).
    rewrite (qi_req_finalize_clear c2); [exact E2|unfold dv_qin; rewrite E2; exact Q]. }
  clearbody r. destruct r as [rc c1]. cbn [snd] in H. destruct rc; cbn [snd]; try exact H.
  match goal with |- context [tx_finalize cb g i ?x] => set (x0 := x) end.
  assert (Ex : c_in x0 = c_in c) by (unfold x0; destruct (tx_slot c1 i); exact H).
  pose proof (ki_finalize i x0) as F. destruct (tx_finalize cb g i x0) as [rf cf]. cbn [snd] in *. cbn. rewrite F. exact Ex.
Qed.
Lemma ki_tx_create c : c_in (snd (connp_tx_create g c)) = c_in c.
Proof. unfold connp_tx_create. cbv zeta. dv_splits; reflexivity. Qed.
Lemma qi_res_idle c : dv_qi c (snd (rs_RES_IDLE cb g c)).
Proof.
  unfold rs_RES_IDLE. destruct (negb (rs_has_byte c)); [apply dv_qi_refl|]. cbv zeta.
  destruct (match nth_error (c_txs c) (c_out_next_tx_index c) with Some (Some _) => true | _ => false end).
  - cbv beta iota. apply dv_qi_eq. etransitivity; [apply ki_response_start|reflexivity].
  - match goal with |- context [connp_tx_create g ?x] => set (c1 := x) end.
    assert (H1 : dv_qi c c1).
    { unfold c1. destruct (req_state_eqb _ _); [|apply dv_qi_eq; reflexivity]. destruct (c_in_tx _) as [i|]; [|apply dv_qi_eq; reflexivity].
      eapply dv_qi_eq_l; [|apply qi_request_complete]. reflexivity. }
    clearbody c1. pose proof (ki_tx_create c1) as H2. destruct (connp_tx_create g c1) as [[id|] c2]; cbn [snd] in H2; cbv beta iota.
    + eapply dv_qi_eq_r; [exact H1|]. etransitivity; [apply ki_response_start|]. cbn. rewrite ki_tx_upd. cbn. exact H2.
    + eapply dv_qi_eq_r; [exact H1|exact H2].
Qed.
Lemma qi_state_fn s c : dv_qi c (snd (rs_state_fn cb g s c)).
Proof.
  destruct s; cbn [rs_state_fn].
  - apply qi_res_idle.
  - apply dv_qi_eq, ki_line_loop.
  - apply dv_qi_eq, ki_headers_loop.
  - apply dv_qi_eq, ki_body_determine.
  - apply dv_qi_eq, ki_cl_known.
  - apply dv_qi_eq, ki_stream_close.
  - apply dv_qi_eq, ki_chunked_length_loop.
  - apply dv_qi_eq, ki_chunked_data.
  - apply dv_qi_eq, ki_data_end_loop.
  - apply dv_qi_eq, ki_res_finalize.
Qed.
Lemma qi_res_loop : forall f gap c, dv_qi c (fst (rs_res_loop cb g f gap c)).
Proof.
  induction f as [|f IH]; intros gap c; cbn [rs_res_loop]; [apply dv_qi_eq; reflexivity|]. cbv zeta.
  destruct (gap && _ && _); [apply dv_qi_refl|].
  set (r := if gap && _ then rs_response_complete cb g c else rs_state_fn cb g (c_out_state c) c).
  assert (H : dv_qi c (snd r)) by (unfold r; destruct (gap && _); [apply dv_qi_eq, ki_response_complete|apply qi_state_fn]).
  clearbody r. destruct r as [rc c1]. cbn [snd] in H.
  destruct rc; try (eapply dv_qi_eq_r; [exact H|apply ki_exit]).
  destruct (_ =? _)%Z; [exact H|].
  pose proof (ki_state_change c1) as H2. destruct (rs_handle_state_change cb c1) as [rc2 c2]. cbn [snd] in H2.
  destruct rc2; try (eapply dv_qi_eq_r; [exact H|rewrite ki_exit; exact H2]).
  eapply dv_qi_trans; [eapply dv_qi_eq_r; [exact H|exact H2]|apply IH].
Qed.
Lemma qi_res_data data len c : dv_qi c (fst (connp_res_data cb g data len c)).
Proof.
  unfold connp_res_data. destruct (_ =? _)%Z; [apply dv_qi_refl|]. destruct (_ =? _)%Z; [apply dv_qi_refl|].
  destruct (match c_out_tx c with None => _ | Some _ => false end); [apply dv_qi_eq; reflexivity|].
  destruct (_ && _); [apply dv_qi_refl|]. cbv zeta. destruct (_ =? _)%Z; [apply dv_qi_eq; reflexivity|].
  eapply dv_qi_eq_l; [|apply qi_res_loop]. reflexivity.
Qed.
(* over a run of response-data calls *)
Lemma dv_qin_finish c : dv_qin c -> dv_qin (forget_chunks c <| c_events := [] |>).
Proof. unfold dv_qin. intros Q. cbn. unfold forget_one. destruct (k_data (c_in c)); cbn; exact Q. Qed.
Lemma dv_qin_res_run : forall (chunks : list bytes) c, dv_qin c -> dv_qin (fst (cp_run cb g c (map OpResData chunks))).
Proof.
  induction chunks as [|x rest IH]; intros c Q; [exact Q|]. cbn [map]. rewrite sr_cp_run_cons. apply IH. apply dv_qin_finish.
  unfold dv_qin. rewrite (qi_res_data (Some x) (length x) c Q). exact Q.
Qed.
End InRes.
