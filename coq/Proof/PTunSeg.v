(* C16: the request-side invariants of PSeg.v (Sections World and Prim) over a generalised world -- the connection flags,
   out_next_tx_index (not necessarily 0: a response may already have been attached) and the response side of the parser (a frame)
   are carried in an auxiliary record.  Generated from PSeg.v by renaming (sg_ -> tg_); proofs unchanged except where marked. *)
Require Import Htp.Model.Base Htp.Model.MBstr Htp.Model.MConnTypes Htp.Model.MTxCommon Htp.Model.MReqLine Htp.Model.MReqUri Htp.Model.MTxReq.
Require Import Htp.Model.MReq Htp.Model.MRes Htp.Model.MConnp.
Require Import Htp.Spec.SWire Htp.Proof.PWire Htp.Proof.PWireHdr Htp.Proof.PWireBlock Htp.Proof.PWireConn Htp.Proof.PWireExch.
Require Import Htp.Proof.PWireRun Htp.Proof.PWirePres Htp.Proof.PWireGlue Htp.Proof.PSeg Htp.Proof.PSegLine Htp.Proof.PSegHdr Htp.Proof.PSegGen Htp.Proof.PSegRun.
Require Import Htp.Proof.PSegFold Htp.Proof.PSegPipe Htp.Proof.PTunBase.

(* ---- the invariants ---- *)
(* the part of the connection that does not change while one request is parsed: the transactions before the current one
   (request side complete, no response offered so far) and the connection flags *)
(* connection flags, out_next_tx_index, the response side of the parser and in_content_length while the request side works *)
Record tg_aux := mk_tg_aux { ax_flags : N; ax_onext : nat; ax_rs : connp; ax_cl : Z }.
Record tg_world := mk_tg_world { gw_done : list (option tx); gw_aux : tg_aux }.
Definition tg_w0 (a : tg_aux) : tg_world := mk_tg_world [] a.
Definition tg_settx (w : tg_world) (t : tx) (c : connp) : connp := c <| c_txs := gw_done w ++ [Some t] |>.

(* between two passes of the loop, transaction number |gw_done w| being parsed: p = the bytes of the current line seen so far *)
Record tg_cinw (w : tg_world) (c : connp) (d : bytes) (rd : nat) (p : bytes) (hdr : option bytes) (st : req_state) (prev : option req_state)
              (rh : option nat) (t : tx) : Prop := mk_tg_cin {
  gi_status : tg_live (c_in_status c);
  gi_state : c_in_state c = st;
  gi_prev : c_in_state_previous c = prev;
  gi_data : k_data (c_in c) = Some d;
  gi_len : k_len (c_in c) = length d;
  gi_read : k_read (c_in c) = rd;
  gi_rd : (rd <= length d)%nat;
  gi_cons : (k_consume (c_in c) <= rd)%nat;
  gi_seen : sg_olist (k_buf (c_in c)) ++ firstn (rd - k_consume (c_in c)) (skipn (k_consume (c_in c)) d) = p;
  gi_hdr : k_header (c_in c) = hdr;
  gi_rh : k_receiver_hook (c_in c) = rh;
  gi_rcv : (k_receiver (c_in c) <= rd)%nat;
  gi_tx : c_in_tx c = Some (length (gw_done w));
  gi_txs : c_txs c = gw_done w ++ [Some t];
  gi_shift : c_txs_shifted c = 0%nat;
  gi_flags : c_conn_flags c = ax_flags (gw_aux w);
  gi_onext : c_out_next_tx_index c = ax_onext (gw_aux w) /\ tn_rs c = ax_rs (gw_aux w) /\ c_in_content_length c = ax_cl (gw_aux w) }.

(* between two calls of htp_connp_req_data *)
Record tg_midw (w : tg_world) (c : connp) (p : bytes) (hdr : option bytes) (st : req_state) (rh : option nat) (t : tx) : Prop := mk_tg_mid {
  gm_status : tg_live (c_in_status c);
  gm_state : c_in_state c = st;
  gm_prev : c_in_state_previous c = Some st;
  gm_buf : sg_olist (k_buf (c_in c)) = p;
  gm_hdr : k_header (c_in c) = hdr;
  gm_rh : k_receiver_hook (c_in c) = rh;
  gm_tx : c_in_tx c = Some (length (gw_done w));
  gm_txs : c_txs c = gw_done w ++ [Some t];
  gm_shift : c_txs_shifted c = 0%nat;
  gm_flags : c_conn_flags c = ax_flags (gw_aux w);
  gm_onext : c_out_next_tx_index c = ax_onext (gw_aux w) /\ tn_rs c = ax_rs (gw_aux w) /\ c_in_content_length c = ax_cl (gw_aux w) }.
Arguments gi_status {w}. Arguments gi_state {w}. Arguments gi_prev {w}. Arguments gi_data {w}. Arguments gi_len {w}. Arguments gi_read {w}.
Arguments gi_rd {w}. Arguments gi_cons {w}. Arguments gi_seen {w}. Arguments gi_hdr {w}. Arguments gi_rh {w}. Arguments gi_rcv {w}.
Arguments gi_tx {w}. Arguments gi_txs {w}. Arguments gi_shift {w}. Arguments gi_flags {w}. Arguments gi_onext {w}.
Arguments gm_status {w}. Arguments gm_state {w}. Arguments gm_prev {w}. Arguments gm_buf {w}. Arguments gm_hdr {w}. Arguments gm_rh {w}.
Arguments gm_tx {w}. Arguments gm_txs {w}. Arguments gm_shift {w}. Arguments gm_flags {w}. Arguments gm_onext {w}.

Section World.
Context {w : tg_world}.
Notation tg_cin := (tg_cinw w).
Notation tg_mid := (tg_midw w).

Lemma tg_cin_slot c d rd p hdr st prev rh t : tg_cin c d rd p hdr st prev rh t -> tx_slot c (length (gw_done w)) = Some t.
Proof. intros H. apply (sg_slot_at c _ t (gi_txs _ _ _ _ _ _ _ _ _ H) (gi_shift _ _ _ _ _ _ _ _ _ H)). Qed.

(* a parser that differs only outside the fields of the invariant *)
Lemma tg_cin_ext c c' d rd p hdr st prev rh t : tg_cin c d rd p hdr st prev rh t ->
  c_in_status c' = c_in_status c -> c_in_state c' = c_in_state c -> c_in_state_previous c' = c_in_state_previous c ->
  c_in c' = c_in c -> c_in_tx c' = c_in_tx c -> c_txs c' = c_txs c -> c_txs_shifted c' = c_txs_shifted c ->
  c_conn_flags c' = c_conn_flags c -> c_out_next_tx_index c' = c_out_next_tx_index c -> tn_rs c' = tn_rs c -> c_in_content_length c' = c_in_content_length c ->
  tg_cin c' d rd p hdr st prev rh t.
Proof. intros [A1 A2 A3 A4 A5 A6 A7 A8 A9 A10 A11 A12 A13 A14 A15 A16 A17] E1 E2 E3 E4 E5 E6 E7 E8 E9 E10 E11. constructor; rewrite ?E1, ?E2, ?E3, ?E4, ?E5, ?E6, ?E7, ?E8, ?E9, ?E10, ?E11; assumption. Qed.
Lemma tg_cin_txs c d rd p hdr st prev rh t t' : tg_cin c d rd p hdr st prev rh t -> tg_cin (tg_settx w t' c) d rd p hdr st prev rh t'.
Proof. intros [A1 A2 A3 A4 A5 A6 A7 A8 A9 A10 A11 A12 A13 A14 A15 A16 A17]. constructor; try assumption; reflexivity. Qed.
Lemma tg_cin_state c d rd p hdr st prev rh t st' : tg_cin c d rd p hdr st prev rh t -> tg_cin (c <| c_in_state := st' |>) d rd p hdr st' prev rh t.
Proof. intros [A1 A2 A3 A4 A5 A6 A7 A8 A9 A10 A11 A12 A13 A14 A15 A16 A17]. constructor; try assumption; reflexivity. Qed.
Lemma tg_cin_prev c d rd p hdr st prev rh t pv : tg_cin c d rd p hdr st prev rh t -> tg_cin (c <| c_in_state_previous := pv |>) d rd p hdr st pv rh t.
Proof. intros [A1 A2 A3 A4 A5 A6 A7 A8 A9 A10 A11 A12 A13 A14 A15 A16 A17]. constructor; try assumption; reflexivity. Qed.
Lemma tg_cin_header c d rd p hdr st prev rh t h : tg_cin c d rd p hdr st prev rh t ->
  tg_cin (rq_set_in (fun k => k <| k_header := h |>) c) d rd p h st prev rh t.
Proof. intros [A1 A2 A3 A4 A5 A6 A7 A8 A9 A10 A11 A12 A13 A14 A15 A16 A17]. constructor; try assumption; reflexivity. Qed.
Lemma tg_cin_next c d rd p hdr st prev rh t nb : tg_cin c d rd p hdr st prev rh t ->
  tg_cin (rq_set_in (fun k => k <| k_next_byte := nb |>) c) d rd p hdr st prev rh t.
Proof. intros [A1 A2 A3 A4 A5 A6 A7 A8 A9 A10 A11 A12 A13 A14 A15 A16 A17]. constructor; try assumption; reflexivity. Qed.
(* htp_connp_req_clear_buffer *)
Lemma tg_cin_clear c d rd p hdr st prev rh t : tg_cin c d rd p hdr st prev rh t -> tg_cin (req_clear_buffer c) d rd [] hdr st prev rh t.
Proof.
  intros [A1 A2 A3 A4 A5 A6 A7 A8 A9 A10 A11 A12 A13 A14 A15 A16 A17]. constructor; try assumption; try reflexivity.
  - cbn [req_clear_buffer rq_set_in c_in set k_consume k_read]. cbn. rewrite A6. lia.
  - cbn [req_clear_buffer rq_set_in c_in set k_consume k_read k_buf sg_olist]. cbn. rewrite A6, Nat.sub_diag. reflexivity.
Qed.
(* a callback that answered HTP_OK *)
Lemma tg_cin_hook c d rd p hdr st prev rh t h i data last : tg_cin c d rd p hdr st prev rh t -> tg_cin (wr_hook_ev h i data last c) d rd p hdr st prev rh t.
Proof. intros H. apply (tg_cin_ext c); try reflexivity. exact H. Qed.

(* one byte copied (IN_COPY_BYTE) *)
Lemma tg_cin_adv c d rd p hdr st prev rh t b : tg_cin c d rd p hdr st prev rh t -> nth_error d rd = Some b ->
  tg_cin (rq_set_in (wr_kadv b) c) d (S rd) (p ++ [b]) hdr st prev rh t.
Proof.
  intros [A1 A2 A3 A4 A5 A6 A7 A8 A9 A10 A11 A12 A13 A14 A15 A16 A17] Hn.
  assert (L : (rd < length d)%nat) by (apply nth_error_Some; rewrite Hn; discriminate).
  constructor; try assumption; try reflexivity.
  - cbn. rewrite A6. reflexivity.
  - change (k_consume (c_in (rq_set_in (wr_kadv b) c))) with (k_consume (c_in c)). lia.
  - change (k_consume (c_in (rq_set_in (wr_kadv b) c))) with (k_consume (c_in c)). change (k_buf (c_in (rq_set_in (wr_kadv b) c))) with (k_buf (c_in c)).
    rewrite (sg_slice_S d _ rd b A8 Hn), app_assoc, A9. reflexivity.
  - change (k_receiver (c_in (rq_set_in (wr_kadv b) c))) with (k_receiver (c_in c)). lia.
Qed.

End World.

Section Prim.
Variable cb : cb_oracle.
Variable g : cfg.
Hypothesis Hcb : wr_all_ok cb.
Context {w : tg_world}.
Notation tg_cin := (tg_cinw w).
Notation tg_mid := (tg_midw w).

(* transaction updates through connp->in_tx *)
Lemma tg_tx_upd c d rd p hdr st prev rh t f : tg_cin c d rd p hdr st prev rh t -> rq_tx_upd f c = tg_settx w (f t) c.
Proof.
  intros H. rewrite (wr_rq_tx_upd_ok c _ t f (gi_tx _ _ _ _ _ _ _ _ _ H) (tg_cin_slot _ _ _ _ _ _ _ _ _ H)).
  apply (sg_tx_put_at c _ t _ (gi_txs _ _ _ _ _ _ _ _ _ H) (gi_shift _ _ _ _ _ _ _ _ _ H)).
Qed.
Lemma tg_tx_put c d rd p hdr st prev rh t t' : tg_cin c d rd p hdr st prev rh t -> tx_put c (length (gw_done w)) t' = tg_settx w t' c.
Proof. intros H. apply (sg_tx_put_at c _ t _ (gi_txs _ _ _ _ _ _ _ _ _ H) (gi_shift _ _ _ _ _ _ _ _ _ H)). Qed.
Lemma tg_tx_upd_at c d rd p hdr st prev rh t f : tg_cin c d rd p hdr st prev rh t -> tx_upd c (length (gw_done w)) f = tg_settx w (f t) c.
Proof. intros H. rewrite (wr_tx_upd_ok c _ t f (tg_cin_slot _ _ _ _ _ _ _ _ _ H)). apply (tg_tx_put c d rd p hdr st prev rh t _ H). Qed.

(* htp_connp_req_buffer: what is in the chunk between consume and read goes to in_buf; the seen bytes are now all there *)
Lemma tg_req_buffer c d rd p hdr st prev rh t : tg_cin c d rd p hdr st prev rh t ->
  (length p + length (sg_olist hdr) <= g_field_limit_hard g)%nat ->
  exists c', req_buffer g c = (ST_OK, c') /\ tg_cin c' d rd p hdr st prev rh t /\ sg_olist (k_buf (c_in c')) = p /\ k_consume (c_in c') = rd.
Proof.
  intros H Hlim. pose proof H as [A1 A2 A3 A4 A5 A6 A7 A8 A9 A10 A11 A12 A13 A14 A15 A16 A17].
  unfold req_buffer. rewrite A4, A6.
  assert (E1 : (rd <? k_consume (c_in c))%nat = false) by (apply Nat.ltb_ge; lia). rewrite E1.
  destruct (rd - k_consume (c_in c) =? 0)%nat eqn:E2.
  - apply Nat.eqb_eq in E2. exists c. split; [reflexivity|]. split; [exact H|]. rewrite E2 in A9. cbn [firstn] in A9. rewrite app_nil_r in A9.
    split; [exact A9|lia].
  - apply Nat.eqb_neq in E2. rewrite A13. unfold rq_buf_size, rq_header_len. rewrite A10.
    pose proof (sg_slice_length d _ rd A8 A7) as SL.
    assert (Lp : length p = (length (sg_olist (k_buf (c_in c))) + (rd - k_consume (c_in c)))%nat) by (rewrite <- A9, app_length, SL; reflexivity).
    assert (E3 : (g_field_limit_hard g <? match k_buf (c_in c) with Some b => length b | None => 0 end + (rd - k_consume (c_in c)) +
                                           match hdr with Some h => length h | None => 0 end)%nat = false).
    { apply Nat.ltb_ge. unfold sg_olist in *. destruct (k_buf (c_in c)), hdr; cbn [length] in *; lia. }
    rewrite E3. unfold rq_slice. rewrite A4, ?A6.
    assert (E4 : (rd <=? length d)%nat = true) by (apply Nat.leb_le; exact A7). rewrite E4.
    eexists. split; [reflexivity|].
    assert (B : match k_buf (c_in c) with Some b => b | None => [] end ++ firstn (rd - k_consume (c_in c)) (skipn (k_consume (c_in c)) d) = p) by exact A9.
    split; [|split].
    + constructor; try assumption; try reflexivity.
      * cbn. rewrite A6. lia.
      * cbn [rq_set_in c_in set k_consume k_read k_buf sg_olist]. cbn. rewrite A6, Nat.sub_diag. cbn [firstn]. rewrite app_nil_r. exact B.
    + cbn. exact B.
    + cbn. exact A6.
Qed.

(* htp_connp_req_consolidate_data hands over exactly the seen bytes *)
Lemma tg_consolidate c d rd p hdr st prev rh t : tg_cin c d rd p hdr st prev rh t ->
  (length p + length (sg_olist hdr) <= g_field_limit_hard g)%nat ->
  exists c', req_consolidate_data g c = (ST_OK, c', p) /\ tg_cin c' d rd p hdr st prev rh t.
Proof.
  intros H Hlim. pose proof H as [A1 A2 A3 A4 A5 A6 A7 A8 A9 A10 A11 A12 A13 A14 A15 A16 A17].
  unfold req_consolidate_data. destruct (k_buf (c_in c)) as [b|] eqn:Eb.
  - destruct (tg_req_buffer c d rd p hdr st prev rh t H Hlim) as (c' & E & H' & B & _). rewrite E.
    exists c'. split; [|exact H']. unfold sg_olist in B. destruct (k_buf (c_in c')) as [b'|]; rewrite B; reflexivity.
  - unfold rq_slice. rewrite A4, A6. assert (E4 : (rd <=? length d)%nat = true) by (apply Nat.leb_le; exact A7). rewrite E4.
    exists c. split; [|exact H]. cbn [sg_olist app] in A9. rewrite A9. reflexivity.
Qed.

(* htp_connp_req_receiver_send_data: the raw bytes go to the receiver hook, which answers HTP_OK *)
Lemma tg_send_data c d rd p hdr st prev rh t last : tg_cin c d rd p hdr st prev rh t ->
  exists c', req_receiver_send_data cb last c = (ST_OK, c') /\ tg_cin c' d rd p hdr st prev rh t.
Proof.
  intros H. pose proof H as [A1 A2 A3 A4 A5 A6 A7 A8 A9 A10 A11 A12 A13 A14 A15 A16 A17].
  unfold req_receiver_send_data. rewrite A11. destruct rh as [h|]; [|exists c; split; [reflexivity|exact H]].
  unfold run_data_hook. rewrite (wr_run_hook_ex cb Hcb). cbv iota.
  eexists. split; [reflexivity|].
  match goal with |- tg_cin (?x <| c_in := _ |>) _ _ _ _ _ _ _ _ => set (c1 := x) end.
  assert (H1 : tg_cin c1 d rd p hdr st prev (Some h) t).
  { unfold c1. destruct (_ <? _)%nat; apply tg_cin_hook; [|exact H]. apply (tg_cin_ext c); try reflexivity. exact H. }
  clearbody c1. destruct H1 as [B1 B2 B3 B4 B5 B6 B7 B8 B9 B10 B11 B12 B13 B14 B15 B16 B17].
  constructor; try assumption; try reflexivity. cbn. rewrite B6. lia.
Qed.

(* the HTP_DATA_BUFFER exit of the loop *)
Lemma tg_exit_buffer c d p hdr st rh t : tg_cin c d (length d) p hdr st (Some st) rh t ->
  (length p + length (sg_olist hdr) <= g_field_limit_hard g)%nat ->
  exists c', rq_exit cb g ST_DATA_BUFFER c = (c', c_HTP_STREAM_DATA) /\ tg_mid c' p hdr st rh t.
Proof.
  intros H Hlim. unfold rq_exit.
  destruct (tg_send_data c d _ p hdr st _ rh t false H) as (c1 & E1 & H1). rewrite E1.
  destruct (tg_req_buffer c1 d _ p hdr st _ rh t H1 Hlim) as (c2 & E2 & H2 & B2 & _). rewrite E2.
  eexists. split; [reflexivity|].
  destruct H2 as [A1 A2 A3 A4 A5 A6 A7 A8 A9 A10 A11 A12 A13 A14 A15 A16 A17].
  constructor; try assumption; try reflexivity. right. reflexivity.
Qed.

(* htp_req_handle_state_change *)
Lemma tg_state_change c d rd p hdr st prev rh t : tg_cin c d rd p hdr st prev rh t -> st <> REQ_HEADERS ->
  req_handle_state_change cb c = (ST_OK, c <| c_in_state_previous := Some st |>) \/
  (req_handle_state_change cb c = (ST_OK, c) /\ prev = Some st).
Proof.
  intros [A1 A2 A3 A4 A5 A6 A7 A8 A9 A10 A11 A12 A13 A14 A15 A16 A17] Hne.
  unfold req_handle_state_change. rewrite A3, A2.
  destruct (match prev with Some s => req_state_eqb s st | None => false end) eqn:E.
  - right. split; [reflexivity|]. destruct prev as [s|]; [|discriminate]. destruct s, st; try discriminate; reflexivity.
  - left. assert (E2 : req_state_eqb st REQ_HEADERS = false) by (destruct st; try reflexivity; contradiction). rewrite E2, A2. reflexivity.
Qed.

(* a pass whose state function returned HTP_OK in a state other than REQ_HEADERS goes round again *)
Lemma tg_iter_ok c c1 d rd p hdr st prev rh t :
  rq_state_fn cb g (c_in_state c) c = (ST_OK, c1) -> tg_cin c1 d rd p hdr st prev rh t -> st <> REQ_HEADERS ->
  exists c', rq_iter cb g false c = inr c' /\ tg_cin c' d rd p hdr st (Some st) rh t.
Proof.
  intros E H Hne. unfold rq_iter. rewrite E. rewrite (tg_live_tunnel _ (gi_status _ _ _ _ _ _ _ _ _ H)).
  destruct (tg_state_change c1 d rd p hdr st prev rh t H Hne) as [E2|[E2 Ep]]; rewrite E2.
  - eexists. split; [reflexivity|]. eapply tg_cin_prev. exact H.
  - eexists. split; [reflexivity|]. rewrite <- Ep. exact H.
Qed.

(* entering htp_connp_req_data with a non-empty chunk *)
Lemma tg_enter c p hdr st rh t x : tg_mid c p hdr st rh t -> x <> [] ->
  exists c1, connp_req_data cb g (Some x) (length x) c = rq_loop cb g (rq_fuel (length x)) false c1 /\
             tg_cin c1 x 0 p hdr st (Some st) rh t.
Proof.
  intros [A1 A2 A3 A4 A5 A6 A7 A8 A9 A10 A11] Hne. unfold connp_req_data.
  rewrite (tg_live_stop _ A1), (tg_live_error _ A1), A7.
  assert (L0 : (length x =? 0)%nat = false) by (destruct x; [contradiction|reflexivity]). rewrite L0. cbn [andb].
  match goal with |- context [(c_in_status ?y =? c_HTP_STREAM_TUNNEL)%Z] => change (c_in_status y) with (c_in_status c) end.
  rewrite (tg_live_tunnel _ A1).
  eexists. split; [reflexivity|].
  match goal with |- tg_cin (if ?b then _ else _) _ _ _ _ _ _ _ _ => destruct b end.
  all: constructor; try assumption; try reflexivity; cbn; try lia.
  all: rewrite app_nil_r; exact A4.
Qed.
End Prim.
