(* C04, Stage C, request side once more: a request in htp_connp_REQ_FINALIZE (all of its bytes offered, a part of the next request
   line buffered) whose transaction the RESPONSE side has been working on.  Nothing is assumed about that transaction but what
   the request side reads of it; the response may even be complete (htp_tx_finalize then reports the transaction complete from
   htp_tx_state_request_complete). *)
Require Import Htp.Model.Base Htp.Model.MBstr Htp.Model.MConnTypes Htp.Model.MTxCommon Htp.Model.MReqLine Htp.Model.MReqUri Htp.Model.MTxReq.
Require Import Htp.Model.MReq Htp.Model.MRes Htp.Model.MConnp.
Require Import Htp.Spec.SWire Htp.Proof.PWire Htp.Proof.PWireHdr Htp.Proof.PWireBlock Htp.Proof.PWireConn Htp.Proof.PWireExch.
Require Import Htp.Proof.PWireRun Htp.Proof.PWirePres Htp.Proof.PWireGlue Htp.Proof.PSeg Htp.Proof.PSegLine Htp.Proof.PSegHdr Htp.Proof.PSegGen Htp.Proof.PSegRun.
Require Import Htp.Proof.PSegFold Htp.Proof.PSegPipe Htp.Proof.PSegResReq Htp.Proof.PPairReq Htp.Proof.PPairCr.

(* the request is marked complete *)
Definition pg_V (t : tx) : tx := t <| t_request_progress := c_HTP_REQUEST_COMPLETE |>.
(* what htp_connp_REQ_FINALIZE and htp_tx_state_request_complete read of the transaction *)
Definition pg_fin_ok (t : tx) : Prop :=
  t_request_transfer_coding t = c_HTP_CODING_NO_BODY /\ t_request_progress t = c_HTP_REQUEST_HEADERS /\ t_is_protocol_0_9 t = false.

Section GFin.
Variable cb : cb_oracle.
Variable g : cfg.
Hypothesis Hcb : wr_all_ok cb.
Hypothesis Hspace : g_allow_space_uri g = false.
Hypothesis Had : g_tx_auto_destroy g = false.
Context {w : sg_world}.
Notation sg_cin := (sg_cinw w).
Notation sg_mid := (sg_midw w).

(* PSegHdr.sg_request_complete without the premise that the response is not complete *)
Lemma gq_request_complete c d rd p prev t : sg_cin c d rd p None REQ_FINALIZE prev None t -> pg_fin_ok t ->
  exists c', rq_request_complete cb g c = (ST_OK, c') /\ sg_idl c' d rd p (w_done w ++ [Some (pg_V t)]) (w_flags w) prev.
Proof.
  intros H (Htc & Hprog & H09). pose proof (sg_cin_slot _ _ _ _ _ _ _ _ _ H) as Hsl. pose proof H as [A1 A2 A3 A4 A5 A6 A7 A8 A9 A10 A11 A12 A13 A14 A15 A16 A17].
  unfold rq_request_complete, rq_with_tx. rewrite A13.
  unfold tx_state_request_complete. rewrite Hsl, Hprog.
  change ((c_HTP_REQUEST_HEADERS =? c_HTP_REQUEST_COMPLETE)%Z) with false. cbn [negb].
  unfold tx_state_request_complete_partial, tx_get. rewrite Hsl.
  unfold tx_req_has_body. rewrite Htc.
  change ((c_HTP_CODING_NO_BODY =? c_HTP_CODING_IDENTITY)%Z) with false. change ((c_HTP_CODING_NO_BODY =? c_HTP_CODING_CHUNKED)%Z) with false. cbn [orb].
  rewrite (sg_tx_upd_at c d rd _ _ _ _ _ t _ H).
  rewrite (wr_run_hook cb Hcb). unfold req_receiver_finalize_clear.
  fold (pg_V t). set (t' := pg_V t).
  match goal with |- context [wr_hook_ev H_REQUEST_COMPLETE ?i None false ?x] => set (c2 := wr_hook_ev H_REQUEST_COMPLETE i None false x) end.
  change (k_receiver_hook (c_in c2)) with (k_receiver_hook (c_in c)). rewrite A11.
  assert (X2 : c_txs c2 = w_done w ++ [Some t']) by reflexivity. assert (Y2 : c_txs_shifted c2 = 0%nat) by exact A15.
  rewrite (sg_slot_at c2 _ _ X2 Y2). change (t_is_protocol_0_9 t') with (t_is_protocol_0_9 t). rewrite H09.
  unfold tx_finalize.
  assert (X3 : c_txs (c2 <| c_in_state := REQ_IDLE |>) = w_done w ++ [Some t']) by reflexivity.
  assert (Y3 : c_txs_shifted (c2 <| c_in_state := REQ_IDLE |>) = 0%nat) by exact A15.
  rewrite (sg_slot_at _ _ _ X3 Y3).
  destruct (tx_is_complete t') eqn:Ec; cbn [negb].
  - (* the response is complete already: the transaction is *)
    unfold run_hook_ex. rewrite Hcb.
    match goal with |- context [tx_slot ?x (length (w_done w))] => set (c4 := x) end.
    assert (X4 : c_txs c4 = w_done w ++ [Some t']) by reflexivity. assert (Y4 : c_txs_shifted c4 = 0%nat) by exact A15.
    rewrite (sg_slot_at c4 _ _ X4 Y4), Had.
    eexists. split; [reflexivity|]. constructor; try assumption; try reflexivity.
  - eexists. split; [reflexivity|]. constructor; try assumption; try reflexivity.
Qed.

Lemma gq_pass_finalize c d p t : sg_cin c d (length d) p None REQ_FINALIZE (Some REQ_FINALIZE) None t -> pg_fin_ok t ->
  exists c', rq_iter cb g false c = inr c' /\ sg_idl c' d (length d) p (w_done w ++ [Some (pg_V t)]) (w_flags w) (Some REQ_IDLE).
Proof.
  intros H Hok. pose proof H as [A1 A2 A3 A4 A5 A6 A7 A8 A9 A10 A11 A12 A13 A14 A15 A16 A17].
  assert (Ef : rq_state_fn cb g (c_in_state c) c = rq_request_complete cb g (rq_set_in (fun k => k <| k_next_byte := None |>) c)).
  { rewrite A2. cbn [rq_state_fn]. unfold REQ_FINALIZE_fn, rq_finalize_scan. rewrite (sg_live_closed _ A1).
    unfold rq_peek_next, rq_at_end. rewrite A5, A6, Nat.leb_refl. reflexivity. }
  destruct (gq_request_complete _ d _ p _ t (sg_cin_next _ _ _ _ _ _ _ _ _ None H) Hok) as (c1 & E1 & H1).
  eapply (sg_iter_idle cb g c c1 d _ p); [rewrite Ef; exact E1|exact H1].
Qed.

Lemma gq_fin_probe c d rd p t u1 u2 m' rest' : sg_cin c d rd p None REQ_FINALIZE (Some REQ_FINALIZE) None t -> k_consume (c_in c) = rd ->
  skipn rd d = u1 ++ LF :: u2 -> sg_no_lf u1 = true -> p ++ u1 = m' ++ SP :: rest' -> wr_token m' = true ->
  (htp_convert_method_to_number m' =? c_HTP_M_UNKNOWN)%Z = false -> (length (p ++ u1) <= g_field_limit_hard g)%nat -> pg_fin_ok t ->
  exists c6, rq_iter cb g false c = inr c6 /\
    sg_idl c6 d (rd + length u1) (p ++ u1) (w_done w ++ [Some (pg_V t)]) (w_flags w) (Some REQ_IDLE).
Proof.
  intros H Hc Hu Hnl Hp Wm Hk Hlim Hok.
  assert (Es : c_in_state c = REQ_FINALIZE) by apply (ci_state _ _ _ _ _ _ _ _ _ H).
  assert (Hlt' : (rd < length d)%nat).
  { destruct (Nat.lt_ge_cases rd (length d)) as [L|L]; [exact L|]. rewrite skipn_all2 in Hu by lia. destruct u1; discriminate. }
  assert (Ln : (length u1 <= length d - rd)%nat).
  { assert (L : length (skipn rd d) = length (u1 ++ LF :: u2)) by (rewrite Hu; reflexivity). rewrite skipn_length, app_length in L. cbn [length] in L. lia. }
  destruct (sg_peek_copy_lf d None _ _ _ t u2 u1 _ rd p (length d - rd) (sg_cin_next _ _ _ _ _ _ _ _ _ (nth_error d rd) H) Hu Hnl Ln) as (c1 & E1 & H1).
  destruct (sg_consolidate g c1 d _ _ None _ _ _ t H1) as (c2 & E2 & H2); [cbn [sg_olist length]; lia|].
  destruct (wr_token_split m' Wm) as (m0 & mr & Em & _).
  destruct (sg_probe_method m' rest' Wm) as [Pm Ps].
  assert (Hbd : sg_cin (c2 <| c_in_body_data_left := (-1)%Z |>) d (rd + length u1) (p ++ u1) None REQ_FINALIZE (Some REQ_FINALIZE) None t) by (apply sg_cin_bdl; exact H2).
  destruct (gq_request_complete _ d _ _ _ t Hbd Hok) as (c3 & E3 & H3).
  apply (sg_iter_idle cb g c c3 d _ _ _ _ (Some REQ_FINALIZE)); [|exact H3].
  rewrite Es. cbn [rq_state_fn]. unfold REQ_FINALIZE_fn. rewrite (sg_fin_scan c d rd p t H Hc Hlt'), E1, E2.
  rewrite Hp.
  assert (Hm : forall (A B : st * connp), match m' ++ SP :: rest' with [] => A | _ :: _ => B end = B) by (intros; rewrite Em; reflexivity).
  rewrite Hm, Pm, Ps, Hk.
  assert (L0 : (0 <? length m')%nat = true) by (rewrite Em; reflexivity). rewrite L0. cbn [andb negb]. exact E3.
Qed.
End GFin.

Section GStep.
Variable cb : cb_oracle.
Variable g : cfg.
Hypothesis Hcb : wr_all_ok cb.
Hypothesis Hspace : g_allow_space_uri g = false.
Hypothesis Had : g_tx_auto_destroy g = false.
Variable all : list wr_request.
Hypothesis Hok : Forall (fun r => sg_req_ok g r = true) all.
Hypothesis Hmax : (g_max_tx g = 0 \/ length all < g_max_tx g)%nat.

(* between two calls: request r in htp_connp_REQ_FINALIZE, its transaction = t, a part p of the request line of r' buffered *)
Definition pv_gfin (done : list (option tx)) (rsd : list wr_request) (r r' : wr_request) (rs'' : list wr_request) (t : tx) (c : connp) (rw : bytes) : Prop :=
  length done = length rsd /\ exists p q, sg_midw (sg_pw done) c p None REQ_FINALIZE None t /\ p ++ q = sg_line0 r' ++ [CR; LF] /\ q <> [] /\ p <> [] /\ rw = q ++ sg_bwt r' rs''.
Lemma pv_gfin_of done rsd rs c rw r r' rs'' p q fl : rs = r :: r' :: rs'' -> length done = length rsd ->
  sg_midw (sg_pw done) c p None REQ_FINALIZE None (sg_tpre_r g (length done) r fl) -> p ++ q = sg_line0 r' ++ [CR; LF] -> q <> [] -> p <> [] -> rw = q ++ sg_bwt r' rs'' ->
  pv_gfin done rsd r r' rs'' (sg_tpre_r g (length done) r fl) c rw.
Proof. intros _ R Hm Hpq Hq Hp Erw. split; [exact R|]. exists p, q. split; [exact Hm|]. split; [exact Hpq|]. split; [exact Hq|]. split; [exact Hp|exact Erw]. Qed.

(* the call goes on in REQ_FINALIZE with the same transaction, or completes r: then its slot is t with the request marked complete *)
Definition gv_goal (done : list (option tx)) (rsd : list wr_request) (r r' : wr_request) (rs'' : list wr_request) (t : tx) (c : connp) (fuel : nat) (rw' : bytes) : Prop :=
  exists cF rc, rq_loop cb g fuel false c = (cF, rc) /\
    (pv_gfin done rsd r r' rs'' t cF rw' \/
     exists fins newr rs', pv_fins g fins newr /\ all = ((rsd ++ [r]) ++ newr) ++ rs' /\
                           pv_between g ((done ++ [Some (pg_V t)]) ++ map Some fins) ((rsd ++ [r]) ++ newr) rs' cF rw').
Lemma gv_goal_done done rsd r r' rs'' t c fuel rw' : pv_goal cb g all (done ++ [Some (pg_V t)]) (rsd ++ [r]) c fuel rw' -> gv_goal done rsd r r' rs'' t c fuel rw'.
Proof. intros (cF & rc & E & X). exists cF, rc. split; [exact E|right; exact X]. Qed.
Lemma gv_goal_steps n done rsd r r' rs'' t c c' fuel (rw' : bytes) : (forall f, rq_loop cb g (n + f) false c = rq_loop cb g f false c') -> (n <= fuel)%nat ->
  gv_goal done rsd r r' rs'' t c' (fuel - n) rw' -> gv_goal done rsd r r' rs'' t c fuel rw'.
Proof.
  intros St L (cF & rc & E & X). exists cF, rc. split; [|exact X]. replace fuel with (n + (fuel - n))%nat by lia. rewrite St. exact E.
Qed.

Lemma gv_run_fin rsd r r' rs'' done c d rd1 p q t (rw' : bytes) fuel :
  all = rsd ++ r :: r' :: rs'' -> length done = length rsd -> pg_fin_ok t ->
  sg_cinw (sg_pw done) c d rd1 p None REQ_FINALIZE (Some REQ_FINALIZE) None t -> k_consume (c_in c) = rd1 ->
  p ++ q = sg_line0 r' ++ [CR; LF] -> q <> [] -> skipn rd1 d ++ rw' = q ++ sg_bwt r' rs'' -> (skipn rd1 d = [] -> p = []) -> (rd1 < length d)%nat -> p <> [] ->
  (16 * (length d - rd1) + 9 <= fuel)%nat -> gv_goal done rsd r r' rs'' t c fuel rw'.
Proof.
  intros Eall R Hfo H Hc Hpq Hq Hw Hp0 Hlt Hp Hf.
  destruct (sg_req_ok_parts g r' (pv_all_in2 g all Hok rsd r r' rs'' Eall)) as (Wr' & Hk' & Wl' & _ & _ & _ & Hl0' & _).
  pose proof (ci_rd _ _ _ _ _ _ _ _ _ H) as Hrd.
  assert (Eall' : all = (rsd ++ [r]) ++ r' :: rs'') by (rewrite <- app_assoc; exact Eall).
  assert (Lf : length (done ++ [Some (pg_V t)]) = S (length done)) by (rewrite app_length; cbn [length]; lia).
  destruct (wr_reqline_bytes _ _ _ Wl') as (Hnolf & _). fold (sg_line0 r') in Hnolf.
  assert (Eb : sg_line0 r' ++ [CR; LF] = (sg_line0 r' ++ [CR]) ++ [LF]) by (rewrite <- app_assoc; reflexivity).
  destruct (sg_app_cases (skipn rd1 d) rw' q _ Hw) as [Clt Cge].
  destruct (Nat.lt_ge_cases (length (skipn rd1 d)) (length q)) as [Llt|Lge].
  - (* no LF in the rest of the chunk *)
    destruct (Clt Llt) as (q2 & Eq & Hq2 & Erw).
    assert (Nu : sg_no_lf (skipn rd1 d) = true).
    { rewrite Eq, Eb, app_assoc in Hpq. destruct (sg_app_last _ _ _ _ Hpq Hq2) as (q3 & _ & E3). unfold sg_no_lf. rewrite <- E3, <- app_assoc, !forallb_app in Hnolf.
      apply andb_prop in Hnolf. destruct Hnolf as [_ Nb]. apply andb_prop in Nb. apply Nb. }
    assert (Lim : (length (p ++ skipn rd1 d) <= g_field_limit_hard g)%nat).
    { assert (L : length (p ++ q) = (length (sg_line0 r') + 2)%nat) by (rewrite Hpq, app_length; reflexivity). rewrite app_length in L. rewrite app_length. lia. }
    destruct (sg_fin_buffer cb g Hcb c d rd1 p _ H Hc Hlt Nu Lim) as (cF & EF & HF).
    destruct fuel as [|f]; [lia|].
    exists cF, c_HTP_STREAM_DATA. split; [apply (sg_rq_loop_inl cb g _ _ _ EF)|]. left. split; [exact R|].
    exists (p ++ skipn rd1 d), q2. split; [exact HF|]. split; [rewrite <- app_assoc, <- Eq; exact Hpq|]. split; [exact Hq2|]. split; [|exact Erw].
    intro E. apply app_eq_nil in E. destruct E as [E _]. contradiction.
  - (* the LF of the next request line is in the chunk *)
    destruct (Cge Lge) as (d2 & Ed & Eaft).
    rewrite Eb in Hpq. destruct (sg_app_last _ _ _ _ Hpq Hq) as (q1 & Eq1 & Ep1).
    assert (Nq1 : sg_no_lf q1 = true) by (unfold sg_no_lf in *; rewrite <- Ep1, forallb_app in Hnolf; apply andb_prop in Hnolf; apply Hnolf).
    assert (Ed' : skipn rd1 d = q1 ++ LF :: d2) by (rewrite Ed, Eq1, <- app_assoc; reflexivity).
    destruct (sg_line0_shape r') as (rest' & Esh). rewrite <- Ep1 in Esh.
    assert (Wm' : wr_token (wq_method r') = true).
    { unfold wr_wf_request_line in Wl'. apply andb_prop in Wl'. destruct Wl' as [Wl' _]. apply andb_prop in Wl'. apply Wl'. }
    assert (Lim : (length (p ++ q1) <= g_field_limit_hard g)%nat) by (rewrite Ep1, app_length; cbn [length]; lia).
    destruct (gq_fin_probe cb g Hcb Had c d rd1 p _ q1 d2 _ rest' H Hc Ed' Nq1 Esh Wm' Hk' Lim Hfo) as (c6 & E6 & H6).
    destruct fuel as [|f]; [lia|].
    cbn [w_done w_flags sg_pw] in H6. rewrite <- Lf in H6.
    apply (gv_goal_steps 1 done rsd r r' rs'' t c c6 (S f) rw' (sg_steps_inr cb g c c6 E6) ltac:(lia)).
    apply gv_goal_done.
    assert (Lq : (rd1 + length q1 < length d)%nat).
    { assert (L : length (skipn rd1 d) = length (q1 ++ LF :: d2)) by (rewrite Ed'; reflexivity). rewrite skipn_length, app_length in L. cbn [length] in L. lia. }
    apply (pv_Pidle_all cb g Hcb Hspace all Hok Hmax rs'' r' (rsd ++ [r]) _ c6 d (rd1 + length q1)%nat (p ++ q1) [LF] rw' _ (Some REQ_IDLE) Eall' (pv_len_snoc g all Hmax _ _ _ _ R) H6 Lq).
    + rewrite Ep1. symmetry. exact Eb.
    + discriminate.
    + rewrite <- sg_skipn_add, Ed', skipn_app, Nat.sub_diag, skipn_all. cbn [app skipn]. rewrite <- Eaft. reflexivity.
    + cbn [Nat.sub]. lia.
Qed.

(* ---- one call of htp_connp_req_data ---- *)
Lemma gv_step done rsd r r' rs'' t c (rw x rw' : bytes) : all = rsd ++ r :: r' :: rs'' -> pg_fin_ok t -> pv_gfin done rsd r r' rs'' t c rw -> x <> [] -> rw = x ++ rw' ->
  exists c' rc, connp_req_data cb g (Some x) (length x) c = (c', rc) /\
    (pv_gfin done rsd r r' rs'' t c' rw' \/
     exists fins newr rs', pv_fins g fins newr /\ all = ((rsd ++ [r]) ++ newr) ++ rs' /\
                           pv_between g ((done ++ [Some (pg_V t)]) ++ map Some fins) ((rsd ++ [r]) ++ newr) rs' c' rw').
Proof.
  intros Eall Hfo (R & p & q & Hm & Hpq & Hq & Hp & Erw) Hne Ex.
  assert (Lx : (0 < length x)%nat) by (destruct x; [contradiction|cbn; lia]).
  assert (Fu : (16 * (length x - 0) + 9 <= rq_fuel (length x))%nat) by (unfold rq_fuel; lia).
  destruct (sg_enter cb g c p None _ _ _ x Hm Hne) as (c1 & E1 & H1). unfold bytes in *. rewrite E1.
  assert (Hc1 : k_consume (c_in c1) = 0%nat) by (pose proof (ci_cons _ _ _ _ _ _ _ _ _ H1); lia).
  apply (gv_run_fin rsd r r' rs'' done c1 x 0 p q t rw' _ Eall R Hfo H1 Hc1 Hpq Hq); [cbn [skipn]; rewrite <- Ex; exact Erw| |exact Lx|exact Hp|exact Fu].
  cbn [skipn]. intros E. contradiction.
Qed.

Lemma pv_gfin_finish done rsd r r' rs'' t c rw : pv_gfin done rsd r r' rs'' t c rw -> pv_gfin done rsd r r' rs'' t (forget_chunks c <| c_events := [] |>) rw.
Proof. intros (R & p & q & Hm & X). split; [exact R|]. exists p, q. split; [apply pq_midw_finish; exact Hm|exact X]. Qed.
End GStep.
