(* C04, Stage C, response side: PPairB.v (Section PairRun) over the invariants of PPairC1..C6.v, which carry the request side of the parser
   as a frame.  `all` = the exchanges whose REQUEST is complete when the call is made (their transactions are known: px_t0), `junk` =
   what follows them in the transaction list (the transaction of a request still being parsed), `inn` = the request side of the
   parser.  The wire of this section is the wire of the responses to `all`: a legal interleaving offers no byte beyond it. *)
Require Import Htp.Model.Base Htp.Model.MBstr Htp.Model.MConnTypes Htp.Model.MTxCommon Htp.Model.MResLine Htp.Model.MTxRes.
Require Import Htp.Model.MReq Htp.Model.MRes Htp.Model.MConnp.
Require Import Htp.Spec.SWire Htp.Proof.PWire Htp.Proof.PWireHdr Htp.Proof.PWireBlock Htp.Proof.PWireConn Htp.Proof.PWireExch.
Require Import Htp.Proof.PWireRun Htp.Proof.PWirePres Htp.Proof.PWireGlue Htp.Proof.PSeg Htp.Proof.PSegLine Htp.Proof.PSegHdr Htp.Proof.PSegGen Htp.Proof.PSegRun.
Require Import Htp.Proof.PSegFold Htp.Proof.PSegRes Htp.Proof.PSegResLine Htp.Proof.PSegResHdr Htp.Proof.PSegResGen Htp.Proof.PSegResRun Htp.Proof.PSegResReq Htp.Proof.PSegResThm.
Require Import Htp.Proof.PPairA Htp.Proof.PPairB.
Require Import Htp.Proof.PPairC1 Htp.Proof.PPairC2 Htp.Proof.PPairC3 Htp.Proof.PPairC4 Htp.Proof.PPairC5 Htp.Proof.PPairC6.

(* an exchange the response side can work on: PPairA.pp_ex_ok, and the request carries no Expect field (htp_connp_RES_BODY_DETERMINE
   looks for it when the status is 4xx) *)
(* (PPairA.pp_ex_ok without the progress of the request: the response may be parsed while the request is in htp_connp_REQ_FINALIZE) *)
Definition qp_ex_ok (g : cfg) (e : pp_ex) : Prop :=
  t_is_protocol_0_9 (px_t0 e) = false /\
  sr_response_ok (px_res e) = true /\ sr_cuts_ok (px_res e) (px_cuts e) = true /\
  sr_frame_ok (sr_tend (px_t0 e) (px_res e) (px_cuts e)) (length (px_body e)) = true /\ sr_fits g (px_res e) (px_cuts e) = true.
Lemma qp_ex_ok_of g e : pp_ex_ok g e -> qp_ex_ok g e.
Proof. intros (A & _ & B). split; [exact A|exact B]. Qed.
Definition qp_ok (g : cfg) (e : pp_ex) : Prop := qp_ex_ok g e /\ rs_hdr_get_c (t_request_headers (px_tend e)) rs_str_expect = None.
Lemma qp_ex_parts g e : qp_ex_ok g e ->
  sr_status_ok (px_ps e) (px_st e) (px_rp e) = true /\ forallb sg_fl_ok (px_ls e) = true /\ sg_needs_pending (px_ls e) = false /\
  t_is_protocol_0_9 (px_t0 e) = false /\
  sr_frame_ok (px_tend e) (length (px_body e)) = true /\ (length (px_line0 e) + 2 <= g_field_limit_hard g)%nat /\
  sr_ffit (g_field_limit_hard g) (sr_p11 (sr_th0 (px_t0 e) (px_line0 e))) None (px_ls e) = true.
Proof.
  intros (H09 & Wr & Wc & Hfr & Hfit). destruct e as [t0 rs cuts body]. unfold px_ps, px_st, px_rp, px_line0, px_ls, px_tend. cbn [px_t0 px_res px_cuts px_body] in *.
  unfold sr_response_ok in Wr. apply andb_prop in Wr. destruct Wr as [Wl Wf].
  unfold sr_cuts_ok in Wc. apply andb_prop in Wc. destruct Wc as [_ Wc].
  destruct (sg_block_flat_ok (combine (wp_fields rs) cuts) (sr_forallb_combine_fst wr_field_ok _ cuts Wf) Wc) as [Okl Hnp].
  unfold sr_fits in Hfit. apply andb_prop in Hfit. destruct Hfit as [Hl0 Hfit]. apply Nat.leb_le in Hl0.
  rewrite <- (sr_p11_th0 t0 (sr_line0 rs)) in Hfit.
  repeat split; assumption.
Qed.
Lemma qx_tpre_facts g e : qp_ex_ok g e ->
  t_res_cep (px_tpre e) = c_HTP_COMPRESSION_NONE /\ (t_response_transfer_coding (px_tpre e) =? c_HTP_CODING_NO_BODY)%Z = false /\
  (t_response_progress (px_tpre e) =? c_HTP_RESPONSE_COMPLETE)%Z = false /\
  sr_tcomplete (px_tpre e) = pp_tfin e.
Proof.
  intros Hok. destruct (qp_ex_parts g e Hok) as (_ & _ & _ & _ & Hfr & _).
  apply (qp_Tpre_facts (px_ps e) (px_st e) (px_rp e) (px_ls e) (px_body e) (px_t0 e) Hfr).
Qed.
Lemma qx_line0_shape g e : qp_ex_ok g e -> sr_plain (px_line0 e) = true /\ exists l, px_line0 e = 72%N :: 84%N :: 84%N :: 80%N :: l.
Proof. intros Hok. destruct (qp_ex_parts g e Hok) as (Wl & _). apply (sr_status_line_shape _ _ _ Wl). Qed.

Section PairRun.
Variable cb : cb_oracle.
Variable g : cfg.
Hypothesis Hcb : wr_all_ok cb.
Hypothesis Had : g_tx_auto_destroy g = false.
Variable all : list pp_ex.
Hypothesis Hok : Forall (qp_ok g) all.
Variable junk : list (option tx).
Variable inn : pj_in.
Hypothesis Hfree : (pj_instat inn =? c_HTP_STREAM_DATA_OTHER)%Z = false.

Definition qp_wires (es : list pp_ex) : bytes := concat (map pp_wire es).
Definition qp_slots (es : list pp_ex) : list (option tx) := map (fun e => Some (pp_tfin e)) es.
Definition qp_pend (es : list pp_ex) : list (option tx) := map (fun e => Some (px_t0 e)) es.
(* the world of the exchange that comes after esd, es' following it *)
Definition qp_w (esd es' : list pp_ex) : pj_world := mk_pj_world (qp_slots esd) (qp_pend es' ++ junk) inn.
(* the wire after the status line of e, when es' follow *)
Definition px_bwt (e : pp_ex) (es' : list pp_ex) : bytes := sg_fwire (px_ls e) ++ [CR; LF] ++ px_body e ++ qp_wires es'.
Lemma qp_wires_cons e es' : qp_wires (e :: es') = px_line0 e ++ [CR; LF] ++ px_bwt e es'.
Proof. unfold qp_wires, px_bwt, pp_wire, sr_wire, px_line0, px_ls, sr_line0, px_ps, px_st, px_rp. cbn [map concat]. rewrite <- !app_assoc. reflexivity. Qed.
Lemma qp_w_next esd e e' es'' : pj_wnext (qp_w esd (e' :: es'')) (Some (pp_tfin e)) (qp_pend es'' ++ junk) = qp_w (esd ++ [e]) es''.
Proof. unfold pj_wnext, qp_w, qp_slots. cbn [jw_pre]. rewrite map_app. reflexivity. Qed.
Lemma qp_w_k esd es' : pj_k (qp_w esd es') = length esd.
Proof. unfold pj_k, qp_w, qp_slots. cbn [jw_pre]. apply map_length. Qed.

(* F1: the side condition on a chunk d followed by the wire rw', for every response of the history *)
Definition qp_f1 (d rw' : bytes) : Prop :=
  forall esd e es', all = esd ++ e :: es' -> sr_f1_local (px_body e ++ qp_wires es') (px_hh e) d rw'.

(* the states between two calls: esd = the exchanges whose response is complete, es = the others *)
Inductive qp_between (esd es : list pp_ex) (c : connp) (rw : bytes) : Prop :=
| JB_idle : pj_rest c (qp_slots esd ++ qp_pend es ++ junk) (length esd) inn -> rw = qp_wires es -> qp_between esd es c rw
| JB_in e es' : es = e :: es' ->
    qp_betw g (w := qp_w esd es') (px_ps e) (px_st e) (px_rp e) (px_ls e) (px_body e) (px_t0 e) (qp_wires es') c rw -> qp_between esd es c rw
| JB_fin e e' es'' p q : es = e :: e' :: es'' ->
    pj_midw (qp_w esd (e' :: es'')) c p None RES_FINALIZE None (px_tpre e) -> p ++ q = px_line0 e' ++ [CR; LF] -> q <> [] -> rw = q ++ px_bwt e' es'' ->
    qp_between esd es c rw.

Definition qp_rgoal (c : connp) (fuel : nat) (rw' : bytes) : Prop :=
  exists cF rc, rs_res_loop cb g fuel false c = (cF, rc) /\ exists esd' es', all = esd' ++ es' /\ qp_between esd' es' cF rw'.

Lemma qp_all_in0 esd e es' : all = esd ++ e :: es' -> qp_ok g e.
Proof. intros E. rewrite Forall_forall in Hok. apply Hok. rewrite E. apply in_or_app. right. left. reflexivity. Qed.
Lemma qp_all_in esd e es' : all = esd ++ e :: es' -> qp_ex_ok g e.
Proof. intros E. apply (qp_all_in0 esd e es' E). Qed.
Lemma qp_all_in2 esd e e' es'' : all = esd ++ e :: e' :: es'' -> qp_ex_ok g e'.
Proof. intros E. assert (X : qp_ok g e'); [|apply X]. rewrite Forall_forall in Hok. apply Hok. rewrite E. apply in_or_app. right. right. left. reflexivity. Qed.
(* the request side is not working on a transaction whose request is complete *)
Lemma qp_free_at esd e es' : all = esd ++ e :: es' -> pj_free (qp_w esd es').
Proof. intros _. exact Hfree. Qed.

Lemma qp_rgoal_step c c' fuel (rw' : bytes) : sr_iter cb g c = inr c' -> qp_rgoal c' fuel rw' -> qp_rgoal c (S fuel) rw'.
Proof. intros E (cF & rc & El & X). exists cF, rc. split; [rewrite (sr_loop_inr cb g _ _ _ E); exact El|exact X]. Qed.
Lemma qp_rgoal_exit c cF fuel (rw' : bytes) esd' es' : sr_iter cb g c = inl (cF, c_HTP_STREAM_DATA) ->
  all = esd' ++ es' -> qp_between esd' es' cF rw' -> qp_rgoal c (S fuel) rw'.
Proof. intros E Ea B. exists cF, c_HTP_STREAM_DATA. split; [apply (sr_loop_inl cb g _ _ _ E)|]. exists esd', es'. split; assumption. Qed.

(* what RES_IDLE with data has to establish when the response of e comes next and those of es'' follow *)
Definition qp_Pidle (e : pp_ex) (es'' : list pp_ex) : Prop :=
  forall esd c d rd p q (rw' : bytes) fuel prev,
    all = esd ++ e :: es'' -> pj_idle (w := qp_w esd es'') c d rd p prev (px_t0 e) -> (rd < length d)%nat ->
    p ++ q = px_line0 e ++ [CR; LF] -> q <> [] -> skipn rd d ++ rw' = q ++ px_bwt e es'' -> qp_f1 d rw' ->
    (8 * (length d - rd) + 10 <= fuel)%nat -> qp_rgoal c fuel rw'.
Definition qp_Pnext (es' : list pp_ex) : Prop := match es' with [] => True | e' :: es'' => qp_Pidle e' es'' end.

(* the idle state at the end of a call, after the response of e *)
Lemma qp_rest_after esd e es' cD d : pj_done (qp_w esd es') cD d (length d) [] (Some (pp_tfin e)) ->
  pj_rest (rs_set_out_status c_HTP_STREAM_DATA cD) (qp_slots (esd ++ [e]) ++ qp_pend es' ++ junk) (length (esd ++ [e])) inn.
Proof.
  intros Dn. pose proof (pj_done_rest _ cD d _ Dn) as R. cbn [jw_pre jw_post jw_in qp_w] in R.
  rewrite qp_w_k in R. unfold qp_slots in *. rewrite map_app, <- app_assoc, app_length. cbn [map app length]. rewrite Nat.add_1_r. exact R.
Qed.

(* ---- RES_FINALIZE of the response of e: the chunk ends, or the next response begins ---- *)
Lemma qp_run_fin esd e es' c d rd p (rw' : bytes) fuel :
  qp_Pnext es' -> all = esd ++ e :: es' ->
  pj_cinw (qp_w esd es') c d rd p None RES_FINALIZE (Some RES_FINALIZE) None (px_tpre e) -> k_consume (c_out c) = rd -> (rd = 0%nat \/ p = []) ->
  match es' with
  | [] => p = [] /\ skipn rd d ++ rw' = []
  | e' :: es'' => exists q, p ++ q = px_line0 e' ++ [CR; LF] /\ q <> [] /\ skipn rd d ++ rw' = q ++ px_bwt e' es'' /\ (skipn rd d = [] -> p = [])
  end -> qp_f1 d rw' -> (8 * (length d - rd) + 13 <= fuel)%nat -> qp_rgoal c fuel rw'.
Proof.
  intros IH Eall H Hc Htop Hw Hf1 Hf. pose proof (ji_rd _ _ _ _ _ _ _ _ _ H) as Hrd.
  destruct (qx_tpre_facts g e (qp_all_in esd e es' Eall)) as (Fc & Fd & Fp & Et).
  assert (Eall' : all = (esd ++ [e]) ++ es') by (rewrite <- app_assoc; exact Eall).
  (* the chunk ends with the response *)
  assert (Hend : rd = length d -> p = [] -> rw' = qp_wires es' -> qp_rgoal c fuel rw').
  { intros Erd Ep Erw. rewrite Erd, Ep in H.
    destruct (pj_finalize_end cb g Hcb Had _ c d _ H Fc Fd Fp) as (c1 & E1 & Dn). rewrite Et in Dn.
    destruct fuel as [|[|f]]; [lia|lia|].
    apply (qp_rgoal_step c c1 _ rw' E1).
    apply (qp_rgoal_exit c1 _ f rw' (esd ++ [e]) es' (pj_idle_end cb g _ c1 d [] _ Dn) Eall').
    apply JB_idle; [apply (qp_rest_after esd e es' c1 d Dn)|exact Erw]. }
  destruct es' as [|e' es''].
  - destruct Hw as [Ep Hw]. apply app_eq_nil in Hw. destruct Hw as [Hs Erw].
    apply Hend; [pose proof (sg_skipn_nil _ _ Hs); lia|exact Ep|rewrite Erw; reflexivity].
  - destruct Hw as (q & Hpq & Hq & Hw & Hp0).
    pose proof (qp_all_in2 esd e e' es'' Eall) as Ok'.
    destruct (qp_ex_parts g e' Ok') as (_ & _ & _ & _ & _ & Hl0' & _).
    destruct (qx_line0_shape g e' Ok') as (Pl & l & Esh).
    assert (Eb : px_line0 e' ++ [CR; LF] = (px_line0 e' ++ [CR]) ++ [LF]) by (rewrite <- app_assoc; reflexivity).
    assert (Hnolf : sg_no_lf (px_line0 e' ++ [CR]) = true).
    { unfold sg_no_lf. rewrite forallb_app. fold (sg_no_lf (px_line0 e')). rewrite (sr_plain_no_lf _ Pl). reflexivity. }
    destruct (Nat.eq_dec rd (length d)) as [Erd|Nrd].
    + assert (Eu : skipn rd d = []) by (apply skipn_all2; lia). rewrite Eu in Hw. cbn [app] in Hw.
      apply Hend; [exact Erd|exact (Hp0 Eu)|]. rewrite (Hp0 Eu) in Hpq. cbn [app] in Hpq. rewrite Hw, Hpq, qp_wires_cons, <- app_assoc. reflexivity.
    + assert (Hlt : (rd < length d)%nat) by lia.
      destruct (sg_app_cases (skipn rd d) rw' q _ Hw) as [Clt Cge].
      destruct (Nat.lt_ge_cases (length (skipn rd d)) (length q)) as [Llt|Lge].
      * (* no LF in the rest of the chunk: it is buffered *)
        destruct (Clt Llt) as (q2 & Eq & Hq2 & Erw).
        assert (Nu : sg_no_lf (skipn rd d) = true).
        { rewrite Eq, Eb, app_assoc in Hpq. destruct (sg_app_last _ _ _ _ Hpq Hq2) as (q3 & _ & E3). unfold sg_no_lf in *. rewrite <- E3, <- app_assoc, !forallb_app in Hnolf.
          apply andb_prop in Hnolf. destruct Hnolf as [_ Nb]. apply andb_prop in Nb. apply Nb. }
        assert (Lim : (length (p ++ skipn rd d) <= g_field_limit_hard g)%nat).
        { assert (L : length (p ++ q) = (length (px_line0 e') + 2)%nat) by (rewrite Hpq, app_length; reflexivity). rewrite app_length in L. rewrite app_length. lia. }
        destruct (pj_finalize_buffer cb g Hcb c d rd p _ H Hc Hlt Nu Lim) as (cF & EF & HF).
        destruct fuel as [|f]; [lia|].
        apply (qp_rgoal_exit c cF f rw' esd (e :: e' :: es'') EF Eall).
        apply (JB_fin _ _ _ _ e e' es'' (p ++ skipn rd d) q2 eq_refl HF); [rewrite <- app_assoc, <- Eq; exact Hpq|exact Hq2|exact Erw].
      * (* the LF of the next status line is in the chunk *)
        destruct (Cge Lge) as (d2 & Ed & Eaft).
        rewrite Eb in Hpq. destruct (sg_app_last _ _ _ _ Hpq Hq) as (q1 & Eq1 & Ep1).
        assert (Nq1 : sg_no_lf q1 = true) by (unfold sg_no_lf in *; rewrite <- Ep1, forallb_app in Hnolf; apply andb_prop in Hnolf; apply Hnolf).
        assert (Ed' : skipn rd d = q1 ++ LF :: d2) by (rewrite Ed, Eq1, <- app_assoc; reflexivity).
        assert (Esh' : p ++ q1 ++ [LF] = 72%N :: 84%N :: 84%N :: 80%N :: (l ++ [CR; LF])).
        { rewrite app_assoc, Ep1, <- app_assoc, Esh. reflexivity. }
        assert (Lim : (length (p ++ q1 ++ [LF]) <= g_field_limit_hard g)%nat).
        { rewrite app_assoc, Ep1, <- app_assoc, app_length. cbn [length app]. lia. }
        destruct (pj_finalize_next cb g Hcb Had c d rd p _ q1 d2 _ H Hc Htop Ed' Nq1 Esh' Lim Fc Fd Fp) as (c1 & E1 & Dn). rewrite Et in Dn.
        destruct fuel as [|f]; [lia|].
        apply (qp_rgoal_step c c1 f rw' E1).
        assert (Hfr' : pj_free (pj_wnext (qp_w esd (e' :: es'')) (Some (pp_tfin e)) (qp_pend es'' ++ junk))) by (rewrite qp_w_next; apply (qp_free_at (esd ++ [e]) e' es'' Eall')).
        pose proof (pj_done_idle _ c1 d rd p _ (px_t0 e') (qp_pend es'' ++ junk) Dn eq_refl Hfr') as Hi. rewrite qp_w_next in Hi.
        apply (IH (esd ++ [e]) c1 d rd p (q1 ++ [LF]) rw' f (Some RES_IDLE) Eall' Hi Hlt).
        -- rewrite app_assoc, Ep1. symmetry. exact Eb.
        -- intro E. apply app_eq_nil in E. destruct E as [_ E]. discriminate.
        -- rewrite <- Eq1. exact Hw.
        -- exact Hf1.
        -- lia.
Qed.

(* ---- RES_IDLE with the beginning of the response of e ---- *)
Lemma qp_run_idle_e e es' : qp_Pnext es' -> qp_Pidle e es'.
Proof.
  intros IH esd c d rd p q rw' fuel prev Eall Hi Hlt Hpq Hq Hw Hf1 Hf.
  pose proof (qp_all_in esd e es' Eall) as Oke.
  destruct (qp_ex_parts g e Oke) as (Wl & Okl & Hnp & H09 & Hfr & Hl0 & Hfit).
  apply (qp_run_idle cb g Hcb (w := qp_w esd es') (px_ps e) (px_st e) (px_rp e) (px_ls e) (px_body e) (px_t0 e) (qp_wires es') Wl Okl Hnp H09 Hfr (proj2 (qp_all_in0 esd e es' Eall)) Hl0 Hfit
           qp_f1 (fun d0 rw0 X => X esd e es' Eall) qp_rgoal) with (d := d) (rd := rd) (p := p) (q := q) (prev := prev); try assumption.
  - apply qp_rgoal_step.
  - intros a aF f0 rw0 E B _. apply (qp_rgoal_exit a aF f0 rw0 esd (e :: es') E Eall). apply (JB_in _ _ _ _ e es' eq_refl B).
  - intros a d0 rd0 rw0 f0 Hf10 Ha Hw0 Hf0.
    destruct (pj_cin_nil _ _ _ _ _ _ _ _ Ha) as [Hc0 _].
    apply (qp_run_fin esd e es' a d0 rd0 [] rw0 f0 IH Eall Ha Hc0 (or_intror eq_refl)); [|exact Hf10|exact Hf0].
    destruct es' as [|e' es''].
    + split; [reflexivity|exact Hw0].
    + exists (px_line0 e' ++ [CR; LF]). split; [reflexivity|]. split; [intro E; apply app_eq_nil in E; destruct E as [_ E]; discriminate|].
      split; [rewrite Hw0, qp_wires_cons, <- app_assoc; reflexivity|reflexivity].
Qed.
Lemma qp_Pidle_all : forall es' e, qp_Pidle e es'.
Proof. induction es' as [|e' es'' IH]; intros e; apply qp_run_idle_e; [exact I|apply IH]. Qed.
Lemma qp_Pnext_all es' : qp_Pnext es'.
Proof. destruct es' as [|e' es'']; [exact I|apply qp_Pidle_all]. Qed.

(* ---- one call of htp_connp_res_data ---- *)
Lemma qp_pstep esd es c (rw x rw' : bytes) : all = esd ++ es -> qp_between esd es c rw -> x <> [] -> rw = x ++ rw' -> qp_f1 x rw' ->
  exists c' rc, connp_res_data cb g (Some x) (length x) c = (c', rc) /\ exists esd' es', all = esd' ++ es' /\ qp_between esd' es' c' rw'.
Proof.
  intros Eall B Hne Ex Hf1.
  assert (Lx : (0 < length x)%nat) by (destruct x; [contradiction|cbn; lia]).
  destruct B as [Hr Erw|e es' Ees B|e e' es'' p q Ees Hm Hpq Hq Erw].
  - (* between two responses *)
    destruct es as [|e es'].
    + exfalso. cbn in Erw. rewrite Erw in Ex. destruct x; [contradiction|discriminate].
    + assert (Hr' : pj_ready (qp_w esd es') c (px_t0 e)) by (unfold pj_ready; rewrite qp_w_k; exact Hr).
      destruct (pj_enter_ready cb g _ c _ x Hr' (qp_free_at esd e es' Eall) Hne) as (c1 & E1 & H1). unfold bytes in *. rewrite E1.
      rewrite qp_wires_cons, app_assoc in Erw.
      apply (qp_Pidle_all es' e esd c1 x 0 [] (px_line0 e ++ [CR; LF]) rw' _ _ Eall H1 Lx eq_refl).
      * intro E. apply app_eq_nil in E. destruct E as [_ E]. discriminate.
      * cbn [skipn]. rewrite <- Ex. exact Erw.
      * exact Hf1.
      * unfold rs_res_fuel. lia.
  - (* inside a response *)
    subst es. pose proof (qp_all_in esd e es' Eall) as Oke.
    destruct (qp_ex_parts g e Oke) as (Wl & Okl & Hnp & H09 & Hfr & Hl0 & Hfit).
    destruct (qp_step cb g Hcb (w := qp_w esd es') (px_ps e) (px_st e) (px_rp e) (px_ls e) (px_body e) (px_t0 e) (qp_wires es') Wl Okl Hnp Hfr (proj2 (qp_all_in0 esd e es' Eall)) Hl0 Hfit
                qp_f1 (fun d0 rw0 X => X esd e es' Eall) qp_rgoal) with (c := c) (rw := rw) (x := x) (rw' := rw') as (c1 & E1 & G); try assumption.
    + apply qp_rgoal_step.
    + intros a aF f0 rw0 E B0 _. apply (qp_rgoal_exit a aF f0 rw0 esd (e :: es') E Eall). apply (JB_in _ _ _ _ e es' eq_refl B0).
    + intros a d0 rd0 rw0 f0 Hf10 Ha Hw0 Hf0.
      destruct (pj_cin_nil _ _ _ _ _ _ _ _ Ha) as [Hc0 _].
      apply (qp_run_fin esd e es' a d0 rd0 [] rw0 f0 (qp_Pnext_all es') Eall Ha Hc0 (or_intror eq_refl)); [|exact Hf10|exact Hf0].
      destruct es' as [|e' es''].
      * split; [reflexivity|exact Hw0].
      * exists (px_line0 e' ++ [CR; LF]). split; [reflexivity|]. split; [intro E; apply app_eq_nil in E; destruct E as [_ E]; discriminate|].
        split; [rewrite Hw0, qp_wires_cons, <- app_assoc; reflexivity|reflexivity].
    + unfold bytes in *. rewrite E1. exact G.
  - (* RES_FINALIZE with the beginning of the next status line buffered *)
    subst es. destruct (pj_enter cb g c p None _ _ _ x Hm Hne) as (c1 & E1 & H1). unfold bytes in *. rewrite E1.
    assert (Hc1 : k_consume (c_out c1) = 0%nat) by (pose proof (ji_cons _ _ _ _ _ _ _ _ _ H1); lia).
    apply (qp_run_fin esd e (e' :: es'') c1 x 0 p rw' _ (qp_Pidle_all es'' e') Eall H1 Hc1 (or_introl eq_refl)); [|exact Hf1|unfold rs_res_fuel; lia].
    exists q. split; [exact Hpq|]. split; [exact Hq|]. split; [cbn [skipn]; rewrite <- Ex; exact Erw|]. cbn [skipn]. intros E. contradiction.
Qed.

(* ---- finish_call between two calls ---- *)
Lemma qp_between_finish esd es c rw : qp_between esd es c rw -> qp_between esd es (forget_chunks c <| c_events := [] |>) rw.
Proof.
  intros [Hr Erw|e es' Ees B|e e' es'' p q Ees Hm Hpq Hq Erw].
  - apply JB_idle; [apply pj_rest_finish; exact Hr|exact Erw].
  - apply (JB_in _ _ _ _ e es' Ees). apply qp_betw_finish. exact B.
  - apply (JB_fin _ _ _ _ e e' es'' p q Ees (pj_mid_finish _ _ _ _ _ _ _ Hm) Hpq Hq Erw).
Qed.

(* when no wire is left, every response is complete *)
Lemma qp_wires_ne e es' : qp_wires (e :: es') <> [].
Proof. rewrite qp_wires_cons. intro E. apply app_eq_nil in E. destruct E as [_ E]. discriminate. Qed.
Lemma qp_between_end esd es c : all = esd ++ es -> qp_between esd es c [] -> pj_rest c (qp_slots all ++ junk) (length all) inn.
Proof.
  intros Eall [Hr Erw|e es' Ees B|e e' es'' p q Ees Hm Hpq Hq Erw].
  - destruct es as [|e es']; [|exfalso; apply (qp_wires_ne e es'); symmetry; exact Erw].
    rewrite app_nil_r in Eall. subst esd. cbn [qp_pend map app] in Hr. exact Hr.
  - exfalso. destruct B as [p q _ _ Hq Erw|p hdr t _ Hl|k Hk _ _ Erw].
    + destruct q; [contradiction|discriminate].
    + destruct Hl as (pend & tl & rem & q & ea & _ & _ & _ & _ & _ & Hne & Hea & E & _). destruct ea.
      * destruct (Hea eq_refl) as (_ & _ & Eq & _). subst q. discriminate.
      * destruct (Hne eq_refl) as (_ & Hq). destruct q; [contradiction|discriminate].
    + symmetry in Erw. apply app_eq_nil in Erw. destruct Erw as [E _]. apply (f_equal (@length N)) in E. rewrite skipn_length in E. cbn [length] in E. lia.
  - exfalso. destruct q; [contradiction|discriminate].
Qed.

(* ---- every chunk ---- *)
Lemma qp_pchunks : forall (chunks : list bytes) c esd es rw, all = esd ++ es -> qp_between esd es c rw ->
  Forall (fun x => x <> []) chunks -> concat chunks = rw -> sr_oks qp_f1 chunks ->
  pj_rest (fst (cp_run cb g c (map OpResData chunks))) (qp_slots all ++ junk) (length all) inn.
Proof.
  induction chunks as [|x rest IH]; intros c esd es rw Eall B Hall Hc Hoks.
  - cbn [concat] in Hc. subst rw. cbn [map cp_run fst]. apply (qp_between_end esd es c Eall B).
  - cbn [concat] in Hc. cbn [map]. rewrite sr_cp_run_cons. destruct Hoks as [Hok1 Hoks].
    destruct (qp_pstep esd es c rw x (concat rest) Eall B (Forall_inv Hall) (eq_sym Hc) Hok1) as (c' & rc & E & esd' & es' & Eall' & B').
    unfold bytes in *. rewrite E. cbn [fst].
    apply (IH _ esd' es' (concat rest) Eall' (qp_between_finish _ _ _ _ B') (Forall_inv_tail Hall) eq_refl Hoks).
Qed.
End PairRun.
