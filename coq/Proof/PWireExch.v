(* C02, connection level: the statement of exchange fidelity for the request direction. *)
Require Import Htp.Model.Base Htp.Model.MBstr Htp.Model.MConnTypes Htp.Model.MTxCommon Htp.Model.MReqLine Htp.Model.MTxReq.
Require Import Htp.Model.MReq Htp.Model.MRes Htp.Model.MConnp Htp.Spec.SWire.

Record wr_request := mk_wr_request { wq_method : bytes; wq_uri : bytes; wq_protocol : bytes; wq_fields : list wr_field }.
Definition wr_request_wire (r : wr_request) : bytes := wr_ser_request (wq_method r) (wq_uri r) (wq_protocol r) (wq_fields r).
Definition wr_str_transfer_encoding : bytes := [116;114;97;110;115;102;101;114;45;101;110;99;111;100;105;110;103]%N.
Definition wr_str_connect : bytes := [67;79;78;78;69;67;84]%N.
(* a well-formed request without a body: no Content-Length / Transfer-Encoding field, not CONNECT *)
Definition wr_request_ok (r : wr_request) : bool :=
  wr_wf_request_line (wq_method r) (wq_uri r) (wq_protocol r) && wr_block_ok (wq_fields r) &&
  negb (existsb (fun f => wr_same (wf_name f) wr_str_content_length || wr_same (wf_name f) wr_str_transfer_encoding) (wq_fields r)) &&
  negb (wr_eqb (wq_method r) wr_str_connect).

(* what the transaction has to say about the request *)
Definition wr_reported (t : tx) (r : wr_request) : Prop :=
  t_request_method t = Some (wq_method r) /\ t_request_method_number t = htp_convert_method_to_number (wq_method r) /\
  t_request_uri t = Some (wq_uri r) /\ t_request_protocol t = Some (wq_protocol r) /\
  t_request_protocol_number t = wr_protocol_number (wq_protocol r) /\ t_is_protocol_0_9 t = false /\
  t_request_headers t = wr_table (map wr_field_nv (wq_fields r)) /\
  t_request_progress t = c_HTP_REQUEST_COMPLETE.

Definition wr_all_ok (cb : cb_oracle) : Prop := forall h n, cb h n = CB_OK.

(* n pipelined requests, any segmentation into non-empty chunks, within the limits of the configuration *)
Definition wr_exchange_fidelity_full : Prop :=
  forall cb g (rs : list wr_request) (chunks : list bytes),
    wr_all_ok cb -> g_allow_space_uri g = false ->
    (length (concat chunks) <= g_field_limit_hard g)%nat -> (g_max_tx g = 0 \/ length rs < g_max_tx g)%nat ->
    forallb wr_request_ok rs = true -> concat chunks = concat (map wr_request_wire rs) -> Forall (fun ch => ch <> []) chunks ->
    Forall2 (fun slot r => exists t, slot = Some t /\ wr_reported t r)
            (c_txs (fst (cp_run cb g connp_new (OpOpen :: map OpReqData chunks)))) rs.
