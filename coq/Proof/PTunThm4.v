(* C16 at history level, part 4 -- AN ACCEPTED CONNECT WHOSE PAYLOAD IS PLAIN HTTP.  A CONNECT request of the wire grammar in any
   chunking, a 2xx answer (status line and header fields) in any chunking, and then the client's stream: n >= 1 pipelined requests of
   the PSegPipe grammar in any chunking.  REQ_CONNECT_PROBE_DATA looks at the bytes up to the first LF, finds a method
   htp_convert_method_to_number knows, completes the CONNECT transaction and hands over to REQ_IDLE with the bytes it looked at
   still pending: NO tunnel; transactions 1..n report requests 1..n; no call ever returns TUNNEL. *)
Require Import Htp.Model.Base Htp.Model.MBstr Htp.Model.MConnTypes Htp.Model.MTxCommon Htp.Model.MTxReq Htp.Model.MResLine Htp.Model.MTxRes.
Require Import Htp.Model.MReq Htp.Model.MRes Htp.Model.MConnp.
Require Import Htp.Spec.SWire Htp.Spec.SConnp Htp.Proof.PWire Htp.Proof.PWireHdr Htp.Proof.PWireBlock Htp.Proof.PWireConn Htp.Proof.PWireExch.
Require Import Htp.Proof.PWireRun Htp.Proof.PWirePres Htp.Proof.PWireGlue Htp.Proof.PSeg Htp.Proof.PSegLine Htp.Proof.PSegHdr Htp.Proof.PSegGen Htp.Proof.PSegRun.
Require Import Htp.Proof.PSegFold Htp.Proof.PSegPipe Htp.Proof.PSegRes Htp.Proof.PSegResLine Htp.Proof.PSegResHdr Htp.Proof.PSegResGen Htp.Proof.PSegResRun Htp.Proof.PSegResThm Htp.Proof.PSegResCanon Htp.Proof.PPairThm.
Require Import Htp.Proof.PReq Htp.Proof.PConnp.
Require Import Htp.Proof.PTunBase Htp.Proof.PTunSeg Htp.Proof.PTunSegLine Htp.Proof.PTunSegMid Htp.Proof.PTunRes Htp.Proof.PTunResTail Htp.Proof.PTunResFin.
Require Import Htp.Proof.PTunReq Htp.Proof.PTunProbe Htp.Proof.PTunConnR Htp.Proof.PTunThm1 Htp.Proof.PTunRefR Htp.Proof.PTunSegPipeRun Htp.Proof.PTunResume Htp.Proof.PTunThm3.
Require Htp.Proof.PTunThm2.
Local Open Scope Z_scope.

Lemma tk_cep t v : tk_q (t <| t_res_cep := v |>) = tk_q t.
Proof. reflexivity. Qed.
Lemma tk_tdone t0 ps s r ls : tk_q (tc_tdone t0 ps s r ls) = tk_q t0.
Proof.
  unfold tc_tdone. pose proof (tk_tcomplete ((sr_lrun ls (None, sr_th0 t0 (wr_ser_status_line ps s r))) <| t_res_cep := c_HTP_COMPRESSION_NONE |>)) as C.
  unfold tk_p in C. apply pair_equal_spec in C. destruct C as [C _]. rewrite C, tk_cep, tk_lrun. cbn [snd]. apply tk_th0.
Qed.

(* the history: the record of PTunThm3 (CONNECT chunks, glue, answer items, stream chunks); the answer has no body *)
Definition tn_h4_ok (rq : wr_request) (rsp : wr_response) (cuts : list (list bytes)) (rs : list wr_request) (h : tn_h3) : Prop :=
  Forall (fun x : bytes => x <> []) (j_qpre h) /\ j_qlast h <> [] /\
  concat (j_qpre h) ++ j_qlast h = wr_request_wire rq ++ j_glue h /\ (length (concat (j_qpre h)) < length (wr_request_wire rq))%nat /\
  tc_items_ne (j_items h) /\ concat (map snd (j_items h)) = sr_wire rsp cuts [] /\ tc_refs_ok (sr_lines rsp cuts) [] (j_items h) /\
  Forall (fun x : bytes => x <> []) (j_chunks h) /\ concat (j_chunks h) = sg_pwires rs.

Theorem tn_accepted_connect_http_resumes : forall cb g rq rsp cuts rs h,
  wr_all_ok cb -> g_allow_space_uri g = false ->
  tn_connect_ok g rq = true -> tn_no_framing rq = true ->
  tn_rsp_ok g rsp cuts = true -> tn_2xx rsp = true ->
  rs <> [] -> Forall (fun r => sg_req_ok g r = true) rs -> (g_max_tx g = 0 \/ 1 + length rs < g_max_tx g)%nat ->
  tn_h4_ok rq rsp cuts rs h ->
  let run := cp_run cb g connp_new (tn_h3_ops h) in
  (* what the calls up to the end of the answer return and consume; how many calls follow *)
  (exists rsH rsP, snd run = rsH ++ rsP /\ map tn_o rsH = tn_h3_expect h /\ length rsP = length (j_chunks h)) /\
  (* transaction 0 is the CONNECT transaction, complete in both directions (its slot is empty when tx_auto_destroy is set);
     transactions 1..n report requests 1..n *)
  (exists t dn, c_txs (fst run) = tn_done_slot g t :: dn /\ tn_reported t rq /\ t_response_status_number t = wr_status_value (wp_status rsp) /\
                t_response_progress t = c_HTP_RESPONSE_COMPLETE /\ sg_rep dn rs) /\
  (* the request side is between two requests; no call has returned TUNNEL; the extracted tunnel oracle accepts *)
  c_in_state (fst run) = REQ_IDLE /\ Forall tn_rquiet (snd run) /\
  chk_C16 (obs_run cb g connp_new (tn_h3_ops h)) = true.
Proof.
  intros cb g rq rsp cuts rs h Hcb Hsp Hq Hnf Hrs H2 Hne Hoks Hmax (Qa & Ql & Qc & Qn & Ia & Ic & Ir & Ca & Cc) run.
  destruct rs as [|r1 rs1]; [contradiction|]. clear Hne. set (rs := r1 :: rs1) in *.
  (* the answer *)
  unfold tn_rsp_ok in Hrs. apply andb_prop in Hrs. destruct Hrs as [Hrs Hfit]. apply andb_prop in Hrs. destruct Hrs as [Wr Wc].
  unfold sr_response_ok in Wr. apply andb_prop in Wr. destruct Wr as [Wl Wf].
  unfold sr_cuts_ok in Wc. apply andb_prop in Wc. destruct Wc as [_ Wc].
  destruct (sg_block_flat_ok (combine (wp_fields rsp) cuts) (sr_forallb_combine_fst wr_field_ok _ cuts Wf) Wc) as [Okl Hnp].
  unfold sr_fits in Hfit. apply andb_prop in Hfit. destruct Hfit as [Hl0 Hfit]. apply Nat.leb_le in Hl0.
  unfold tn_2xx in H2. apply andb_prop in H2. destruct H2 as [H2a H2b].
  set (ps := wp_protocol rsp) in *. set (ss := wp_status rsp) in *. set (rr := wp_reason rsp) in *. set (ls := sr_lines rsp cuts) in *.
  (* htp_connp_open *)
  destruct tn_c0_facts as (I0 & O0 & Si0 & So0 & X0 & _).
  (* the CONNECT request *)
  assert (Ew : wr_request_wire rq ++ j_glue h = (sg_line0 rq ++ [CR; LF]) ++ sg_fwire (sg_flat rq) ++ [CR; LF] ++ j_glue h).
  { rewrite sg_wire_flat. unfold sg_line0. rewrite <- !app_assoc. reflexivity. }
  assert (B0 : tq_betw g rq (j_glue h) tn_a0 tn_c0 (wr_request_wire rq ++ j_glue h)) by (apply TQ_idle; [exact I0|exact Ew]).
  destruct (tq_chunks cb g Hcb Hsp rq Hq (j_glue h) tn_a0 So0 X0 (j_qpre h) tn_c0 _ (j_qlast h) B0 O0 Qa Ql Qc ltac:(rewrite app_length; lia))
    as (c1 & fl & E1 & W1 & S1 & O1 & Ev1 & R1 & Q1).
  set (opsA := map OpReqData (j_qpre h ++ [j_qlast h])) in *.
  destruct (tn_run_stable cb g opsA tn_c0 Si0 So0) as [Si1 So1]. rewrite E1 in Si1, So1.
  destruct (tq_tw_facts g Hsp rq Hq fl) as (M0 & Rp0 & Z0 & Pg0 & Rep0).
  destruct (tn_tw_nobody g rq fl Hsp Hq Hnf) as (Tc0 & Rs0).
  set (t0 := tn_tw g rq fl) in *.
  destruct (tn_wait_to_res g rq fl c1 W1 O1 Si1) as (Wf1 & Rest1 & Cl1). fold t0 in Rest1.
  (* the answer *)
  assert (Hrp : t_response_progress t0 <= c_HTP_RESPONSE_LINE) by (rewrite Rp0; vm_compute; discriminate).
  assert (Hrq : (t_request_progress t0 =? c_HTP_REQUEST_COMPLETE) = false) by (rewrite Pg0; reflexivity).
  rewrite <- (sr_p11_th0 t0 (sr_line0 rsp)) in Hfit.
  assert (Ewr : sr_wire rsp cuts [] = tc_wire ps ss rr ls []) by (unfold sr_wire, tc_wire, sr_line0; rewrite <- !app_assoc; reflexivity).
  assert (B1 : tc_betw g t0 ps ss rr ls [] c1 (tc_wire ps ss rr ls [])) by (apply CB_idle; [exact Wf1|exact Rest1|reflexivity]).
  assert (Hne1 : tc_wire ps ss rr ls [] <> []) by (unfold tc_wire; intro E; apply app_eq_nil in E; destruct E as [E _]; apply app_eq_nil in E; destruct E as [_ E]; discriminate).
  destruct (tc_phase cb g Hcb t0 Z0 M0 Hrp Hrq ps ss rr ls Wl Okl Hnp H2a H2b Hl0 Hfit [] eq_refl (j_items h) c1 _ B1 Hne1 ltac:(rewrite Ic; exact Ewr) Ia Ir)
    as (Wf2 & A2 & Ev2 & R2 & Q2).
  set (opsB := tc_ops (j_items h)) in *. set (c2 := fst (cp_run cb g c1 opsB)) in *.
  destruct (tn_run_stable cb g opsB c1 Si1 So1) as [Si2 So2]. fold c2 in Si2, So2.
  destruct (tc_tdone_facts t0 M0 Hrq ps ss rr ls Wl) as (Kq & Pst & Krp). pose proof (tk_tdone t0 ps ss rr ls) as Ktc. set (td := tc_tdone t0 ps ss rr ls) in *.
  unfold tk_q in Ktc. apply pair_equal_spec in Ktc. destruct Ktc as [_ Ktc]. destruct (tc_rq_proj _ _ Kq) as (P1 & P2 & P3 & P4 & P5 & P6 & P7 & P8).
  (* the client's stream *)
  pose proof (tn_res_to_wait c2 td Wf2 A2) as W2.
  assert (Hst3 : tn_stable (c_out (ax_rs (gw_aux (tn_w2 c2))))) by exact So2.
  assert (Hot3 : c_out_tx (ax_rs (gw_aux (tn_w2 c2))) = None) by exact (tf_otx _ _ _ A2).
  destruct (th_chunks cb g Hcb Hsp rs r1 rs1 eq_refl Hoks td (gw_aux (tn_w2 c2)) Hmax Hst3 Hot3 ltac:(rewrite Ktc; exact Tc0) ltac:(rewrite P2; exact Pg0) Krp ltac:(rewrite P7; exact Z0)
              ltac:(rewrite Pst; exact H2a) ltac:(rewrite Pst; exact H2b)
              (j_chunks h) c2 (sg_pwires rs) (HB_wait _ _ _ _ _ _ _ _ W2 eq_refl) Ca Cc) as (Rep3 & Im3 & Q3).
  cbv zeta in Rep3, Im3. set (opsC := map OpReqData (j_chunks h)) in *. set (c3 := fst (cp_run cb g c2 opsC)) in *.
  (* the run as a whole *)
  assert (Eops : tn_h3_ops h = OpOpen :: opsA ++ opsB ++ opsC).
  { unfold tn_h3_ops, tn_h3_head, opsA, opsB, opsC. cbn [app]. rewrite <- !app_assoc. reflexivity. }
  assert (Erun : run = (c3, snd (finish_call (connp_open connp_new) (-1) 0 false) :: snd (cp_run cb g tn_c0 opsA) ++ snd (cp_run cb g c1 opsB) ++ snd (cp_run cb g c2 opsC))).
  { unfold run. rewrite Eops, tn_run_cons, tn_open_step. cbn [fst snd].
    rewrite (tn_run_app cb g opsA). cbn [fst snd]. rewrite E1. rewrite (tn_run_app cb g opsB). cbn [fst snd]. fold c2. reflexivity. }
  rewrite Erun. cbn [fst snd].
  set (r0 := snd (finish_call (connp_open connp_new) (-1) 0 false)) in *.
  set (rsA := snd (cp_run cb g tn_c0 opsA)) in *. set (rsB := snd (cp_run cb g c1 opsB)) in *. set (rsC := snd (cp_run cb g c2 opsC)) in *.
  assert (LC : length rsC = length (j_chunks h)) by (unfold rsC; rewrite tn_run_length; unfold opsC; apply map_length).
  assert (Q0 : tn_rquiet r0) by (unfold tn_rquiet; intro X; vm_compute in X; discriminate).
  assert (Qall : Forall tn_rquiet (r0 :: rsA ++ rsB ++ rsC)) by (constructor; [exact Q0|]; apply Forall_app; split; [exact Q1|]; apply Forall_app; split; [exact Q2|exact Q3]).
  split; [|split; [|split; [|split]]].
  - exists (r0 :: rsA ++ rsB), rsC. split; [cbn [app]; rewrite <- app_assoc; reflexivity|]. split; [|exact LC].
    unfold tn_h3_expect. cbn [map]. f_equal. rewrite map_app. apply f_equal2; [exact R1|exact R2].
  - destruct Rep3 as (dn & Ed & Rd). exists td, dn. split; [exact Ed|]. split; [|split; [|split; [exact Krp|exact Rd]]].
    + unfold tn_reported in *. destruct Rep0 as (Y1 & Y2 & Y3 & Y4 & Y5 & Y6 & Y7). repeat split; congruence.
    + exact Pst.
  - exact (gq_state _ _ _ Im3).
  - exact Qall.
  - unfold obs_run. fold run. rewrite Erun. cbn [snd]. apply tn_chk_quiet. apply tn_quiet_obs. exact Qall.
Qed.
(* ================= non-vacuity and the vm_compute harness ================= *)
(* the CONNECT request and the 200 answer of PTunThm1, the two GET requests of PTunThm3: the CONNECT request in two chunks, the second
   one with the first 7 bytes of the stream glued to it; these bytes are offered again (and refused) before the first chunk of the
   answer; the answer in two chunks; then the stream from its first byte in four chunks *)
Definition tw_ex_h : tn_h3 :=
  mk_tn_h3 [firstn 10 tn_ex_qw] (skipn 10 tn_ex_qw ++ firstn 7 tv_ex_pw) (firstn 7 tv_ex_pw)
           [([firstn 7 tv_ex_pw], firstn 5 tn_ex_sw); ([], skipn 5 tn_ex_sw)]
           [firstn 2 tv_ex_pw; firstn 9 (skipn 2 tv_ex_pw); firstn 30 (skipn 11 tv_ex_pw); skipn 41 tv_ex_pw].
Example tw_ex_premises auto :
  wr_all_ok tn_ex_cb /\ g_allow_space_uri (tv_ex_cfg auto) = false /\ tn_connect_ok (tv_ex_cfg auto) tn_ex_rq = true /\ tn_no_framing tn_ex_rq = true /\
  tn_rsp_ok (tv_ex_cfg auto) tn_ex_rsp tn_ex_cuts = true /\ tn_2xx tn_ex_rsp = true /\
  tv_ex_rs <> [] /\ Forall (fun r => sg_req_ok (tv_ex_cfg auto) r = true) tv_ex_rs /\
  (g_max_tx (tv_ex_cfg auto) = 0 \/ 1 + length tv_ex_rs < g_max_tx (tv_ex_cfg auto))%nat /\
  tn_h4_ok tn_ex_rq tn_ex_rsp tn_ex_cuts tv_ex_rs tw_ex_h.
Proof.
  split; [intros hk n; reflexivity|]. split; [destruct auto; reflexivity|]. split; [destruct auto; vm_compute; reflexivity|]. split; [vm_compute; reflexivity|].
  split; [destruct auto; vm_compute; reflexivity|]. split; [vm_compute; reflexivity|]. split; [discriminate|].
  split; [repeat constructor; destruct auto; vm_compute; reflexivity|]. split; [right; destruct auto; vm_compute; lia|].
  unfold tn_h4_ok. cbn [tw_ex_h j_qpre j_qlast j_glue j_items j_chunks].
  split; [repeat constructor; vm_compute; discriminate|]. split; [vm_compute; discriminate|]. split; [vm_compute; reflexivity|]. split; [vm_compute; lia|].
  split; [repeat constructor; cbn [fst snd]; vm_compute; discriminate|]. split; [vm_compute; reflexivity|].
  split; [cbn [tc_refs_ok fst]; split; [right; vm_compute; lia|split; [left; reflexivity|exact I]]|].
  split; [repeat constructor; vm_compute; discriminate|]. vm_compute. reflexivity.
Qed.
Definition tw_ex_show (auto : bool) :=
  let run := cp_run tn_ex_cb (tv_ex_cfg auto) connp_new (tn_h3_ops tw_ex_h) in
  (map tn_o (snd run),
   map (option_map (fun t => (t_request_method t, t_request_uri t, t_response_status_number t, t_request_progress t, t_response_progress t))) (c_txs (fst run)),
   chk_C16 (obs_run tn_ex_cb (tv_ex_cfg auto) connp_new (tn_h3_ops tw_ex_h))).
Definition tw_ex_codes : list (Z * nat) :=
  [(-1, 0%nat); (c_HTP_STREAM_DATA, 10%nat); (c_HTP_STREAM_DATA_OTHER, 25%nat); (c_HTP_STREAM_DATA_OTHER, 0%nat); (c_HTP_STREAM_DATA, 5%nat); (c_HTP_STREAM_DATA, 20%nat);
   (c_HTP_STREAM_DATA, 2%nat); (c_HTP_STREAM_DATA, 9%nat); (c_HTP_STREAM_DATA, 30%nat); (c_HTP_STREAM_DATA, 17%nat)].
Example tw_ex_run :
  tw_ex_show false = (tw_ex_codes, [Some (Some wr_str_connect, Some [97;58;52;52;51]%N, 200, c_HTP_REQUEST_COMPLETE, c_HTP_RESPONSE_COMPLETE); tv_ex_get 48; tv_ex_get 49], true) /\
  tw_ex_show true = (tw_ex_codes, [None; tv_ex_get 48; tv_ex_get 49], true) /\
  firstn 6 tw_ex_codes = tn_h3_expect tw_ex_h.
Proof. vm_compute. repeat split; reflexivity. Qed.
(* the decision is the probe's: the same history with a payload whose first token is not a method the library knows is the tunnel of
   PTunThm1 (GEX /t0 ...): the call that brings the first LF returns TUNNEL, one transaction *)
Example tw_ex_unknown_method :
  let run := cp_run tn_ex_cb (tv_ex_cfg false) connp_new [OpOpen; OpReqData tn_ex_qw; OpResData tn_ex_sw; OpReqData ([71;69;88]%N ++ skipn 3 tv_ex_pw)] in
  map tn_o (snd run) = [(-1, 0%nat); (c_HTP_STREAM_DATA, 35%nat); (c_HTP_STREAM_DATA, 25%nat); (c_HTP_STREAM_TUNNEL, 17%nat)] /\ length (c_txs (fst run)) = 1%nat.
Proof. vm_compute. repeat split; reflexivity. Qed.

(* ================= THEOREMS FOR RE-EXPORT (Properties_C16.v) =================
   C16 at history level, model with callbacks answering OK; all four are closed under the global context.
   PTunThm1.tn_tunnel_established            (T1)  CONNECT, 2xx, payload not HTTP for the probe: tunnel; absorbing; chk_C16 accepts
   PTunThm2.tu_switching_protocols           (T2)  GET with Upgrade, 101: both directions tunnel
   PTunThm3.tn_refused_connect_resumes       (T3)  CONNECT, not 2xx (Content-Length body): transactions 1..n report requests 1..n
   PTunThm4.tn_accepted_connect_http_resumes (T4)  CONNECT, 2xx, payload = pipelined requests of the grammar: no tunnel, as T3
   Premises of T4: wr_all_ok cb, g_allow_space_uri g = false, tn_connect_ok g rq, tn_no_framing rq, tn_rsp_ok g rsp cuts, tn_2xx rsp,
     rs <> [], every request of rs PSegPipe.sg_req_ok (this includes: its method is one htp_convert_method_to_number knows -- the
     probe's criterion), max_tx 0 or > 1 + |rs|, tn_h4_ok (chunks non-empty; the chunks before j_qlast end inside the CONNECT
     request; request data inside the answer phase only before the LF of the status line; the stream after the answer is the
     pipeline wire from its first byte). *)
Print Assumptions tn_tunnel_established.
Print Assumptions Htp.Proof.PTunThm2.tu_switching_protocols.
Print Assumptions PTunThm3.tn_refused_connect_resumes.
Print Assumptions tn_accepted_connect_http_resumes.
