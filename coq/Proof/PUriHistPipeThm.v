(* C13 / C12 at history level: every transaction of n pipelined grammar requests, any segmentation. *)
Require Import Htp.Model.Base Htp.Model.MBstr Htp.Model.MConnTypes Htp.Model.MTxCommon Htp.Model.MReqLine Htp.Model.MReqUri Htp.Model.MTxReq.
Require Import Htp.Model.MReq Htp.Model.MRes Htp.Model.MConnp Htp.Model.MUri Htp.Model.MPath.
Require Import Htp.Spec.SWire Htp.Proof.PWire Htp.Proof.PWireExch Htp.Proof.PWireGlue Htp.Proof.PSeg Htp.Proof.PSegLine Htp.Proof.PSegRun Htp.Proof.PSegFold Htp.Proof.PSegPipe.
Require Import Htp.Proof.PUriHist Htp.Proof.PUriHistTx Htp.Proof.PUriHistThm Htp.Proof.PUriHistPipe.

Lemma uh_Forall2_impl {A B} (P P' : A -> B -> Prop) (Q : B -> Prop) : forall l rs,
  Forall2 P l rs -> Forall Q rs -> (forall x r, P x r -> Q r -> P' x r) -> Forall2 P' l rs.
Proof.
  intros l rs H. induction H as [|x r l rs Hx H IH]; intros HQ Himp; [constructor|].
  constructor; [apply Himp; [exact Hx|exact (Forall_inv HQ)]|apply IH; [exact (Forall_inv_tail HQ)|exact Himp]].
Qed.

Theorem uh_pipeline_uri : forall cb g (rs : list wr_request) (chunks : list bytes),
  wr_all_ok cb -> g_allow_space_uri g = false -> (g_max_tx g = 0 \/ length rs < g_max_tx g)%nat ->
  Forall (fun r => sg_req_ok g r = true) rs -> Forall (fun x => x <> []) chunks -> concat chunks = concat (map wr_request_wire rs) ->
  Forall2 (fun slot r => exists t, slot = Some t /\ uh_c13 (wq_uri r) t /\ uh_c12 g (wq_uri r) t)
          (c_txs (fst (cp_run cb g connp_new (OpOpen :: map OpReqData chunks)))) rs.
Proof.
  intros cb g rs chunks Hcb Hsp Hmax Hok Hall Hc.
  set (c0 := forget_chunks (connp_open connp_new) <| c_events := [] |>).
  assert (E0 : fst (cp_run cb g connp_new (OpOpen :: map OpReqData chunks)) = fst (cp_run cb g c0 (map OpReqData chunks))).
  { cbn [cp_run cp_step]. unfold finish_call. fold c0. destruct (cp_run cb g c0 (map OpReqData chunks)). reflexivity. }
  rewrite E0.
  assert (Hm : sg_imid c0 [] (sg_pflags (length (@nil (option tx))))) by (constructor; try reflexivity; left; reflexivity).
  destruct (up_pchunks cb g Hcb Hsp rs Hok Hmax chunks c0 [] rs _ eq_refl (UPB_idle g [] rs c0 _ [] Hm (up_rep_nil g) eq_refl) Hall Hc) as [[R] _].
  apply (uh_Forall2_impl _ _ _ _ _ R Hok). intros slot r (k & fl & ->) Hr.
  assert (Wr : wr_request_ok r = true).
  { unfold sg_req_ok in Hr. apply andb_prop in Hr. destruct Hr as [Hr _]. apply andb_prop in Hr. apply Hr. }
  eexists. split; [reflexivity|]. apply (uh_tfin_c g k r fl Hsp Wr).
Qed.

(* ================= evaluation: three pipelined requests (absolute URI with userinfo and port; "/a/%2e%2e/b\c/../d%00e";
   "/p?x#y?z"), whole, per request, byte by byte, under the IDS personality ================= *)
Definition uh_ex_pipe : list wr_request := [uh_ex_req uh_ex_u1; uh_ex_req uh_ex_u3; uh_ex_req uh_ex_u4].
Definition uh_ex_pwire : bytes := concat (map wr_request_wire uh_ex_pipe).
Example uh_ex_pipe_premises :
  forallb (sg_req_ok (uh_ex_cfg 2)) uh_ex_pipe = true /\ (g_max_tx (uh_ex_cfg 2) = 0 \/ length uh_ex_pipe < g_max_tx (uh_ex_cfg 2))%nat.
Proof. split; [vm_compute; reflexivity|]. right. vm_compute. lia. Qed.
Example uh_ex_pipe_runs :
  uh_ex_run 2 (sg_bytewise uh_ex_pwire) = uh_ex_run 2 [uh_ex_pwire] /\
  uh_ex_run 2 (map wr_request_wire uh_ex_pipe) = uh_ex_run 2 [uh_ex_pwire] /\
  map (option_map (fun v => (fst (fst v), snd (fst v)))) (uh_ex_run 2 [uh_ex_pwire]) =
    map (fun r => Some (uh_ex_expect 2 (wq_uri r))) uh_ex_pipe.
Proof. split; [vm_compute; reflexivity|]. split; vm_compute; reflexivity. Qed.

(* ================= THEOREMS FOR RE-EXPORT (Properties_C13.v / Properties_C12.v) =================
   PUriHistThm.uh_request_uri_chunking       any segmentation of a grammar request (premises of PSegRun.sg_request_chunking):
                                               exists t, c_txs c = [Some t] /\ uh_c13 (wq_uri r) t /\ uh_c12 g (wq_uri r) t
   PUriHistThm.uh_request_uri_fold_chunking  the same with header fields folded anywhere (premises of PSegFold.sg_request_fold_chunking)
   uh_pipeline_uri                           n pipelined requests, any segmentation (premises of PSegPipe.sg_pipeline_fidelity):
                                               Forall2 (fun slot r => exists t, slot = Some t /\ uh_c13 (wq_uri r) t /\ uh_c12 g (wq_uri r) t) (c_txs c) rs
   with c = fst (cp_run cb g connp_new (OpOpen :: map OpReqData chunks)).
   uh_c13 u t  (PUriHistThm; C13 about the reported transaction):
       t_request_uri t = Some u;  uh_uri_of (t_parsed_uri_raw t) = parse_uri u;  raw port_number = -1;
       rejoin (raw) = u  <->  no_junk_after_bracketb u = true   (finding F13 otherwise);
       exists A j B, u = A ++ j ++ B /\ rejoin (raw) = A ++ B;   u = '/' :: _ -> no scheme, no authority;
       parsed_uri: port = None, port_number = fst (norm_port p) for the raw port text p (-1 without one), with C13_port's
       alternative, and snd (norm_port p) = true -> HTP_HOSTU_INVALID on the transaction.
   uh_c12 g u t  (C12 about the reported transaction, c = g_dec_url_path g, any decoder record):
       raw path = Some p = uri_path (parse_uri u);  parsed_uri.path = Some (pth_pipeline c p); query = raw query; scheme lower-cased;
       |pipeline| <= |p| <= |u|;  no "." / ".." segment;  dot_normalize (pipeline) = pipeline;
       the six path-only indicators (uh_pure_bits) on t_flags = those of pth_pipeline_st c p;
       the three shared with the generic decoder (uh_shared_bits): raised by the pipeline -> raised on the transaction, and
       equal when the target has no authority and no fragment.
   The component lemma for other reference transactions: PUriHistTx.uh_tfin / uh_th0 (uh_tx_ok g u t), PUriHistThm.uh_c13_of / uh_c12_of. *)
Print Assumptions uh_request_uri_chunking.
Print Assumptions uh_request_uri_fold_chunking.
Print Assumptions uh_pipeline_uri.
