(* C12 -- every stage of the path pipeline is length-non-increasing (this is also wpos <= rpos of the in-place loops). *)
Require Import Htp.Model.Base Htp.Model.MPath Htp.Spec.SPath Htp.Proof.PPathDot.
Local Open Scope N_scope.

(* ---- htp_decode_path_inplace ---- *)
Lemma pth_loop_length c : forall rest skip prev st,
  (length (fst (pth_loop c skip rest prev st)) <= length rest)%nat.
Proof.
  induction rest as [|x r IH]; intros skip prev st; cbn [pth_loop]; [cbn; lia|].
  destruct skip as [|k]; [|specialize (IH k prev st); cbn [length]; lia].
  destruct (pth_step c (x :: r) st) as [st'|adv st'|ch adv st']; [cbn; lia| |].
  - specialize (IH (adv - 1)%nat prev st'). cbn [length]. lia.
  - destruct (pth_post c ch st') as [ch' st''].
    destruct (d_sep_compress c); [destruct (ch' =? pth_SL); [destruct prev|]|];
      match goal with
      | |- context [pth_loop c ?k r ?p ?s] => specialize (IH k p s); destruct (pth_loop c k r p s) as [o sf]
      end; cbn [fst length] in *; lia.
Qed.

Theorem pth_decode_path_length c s st : (length (fst (pth_decode_path_st c s st)) <= length s)%nat.
Proof. apply pth_loop_length. Qed.

(* ---- htp_utf8_decode_path_inplace: bytes read but not yet answered by an output byte ---- *)
Definition upend (v : utf8_vars) : nat := match u_counter v with O => 0%nat | S _ => 1%nat end.

Lemma utf8_dec_iter_len c x v :
  match utf8_dec_iter c x v with
  | (o, true, v') => (length (utf8_cons o []) + upend v' <= 1 + upend v)%nat
  | (o, false, v') => upend v' = 0%nat /\ upend v = 1%nat /\ length (utf8_cons o []) = 1%nat
  end.
Proof.
  unfold utf8_dec_iter.
  destruct (utf8_step (u_state v) (u_cp v) x) as [state cp].
  destruct (state =? utf8_ACCEPT).
  - destruct (Nat.eqb (S (u_counter v)) 1); cbn; lia.
  - destruct (state =? utf8_REJECT).
    + destruct (Nat.eqb (S (u_counter v)) 1) eqn:E; cbn; [lia|].
      unfold upend. destruct (u_counter v); [discriminate|]. auto.
    + cbn. lia.
Qed.

Lemma utf8_cons_len o l : length (utf8_cons o l) = (length (utf8_cons o []) + length l)%nat.
Proof. destruct o; reflexivity. Qed.

Lemma utf8_dec_loop_length c : forall rest v,
  (length (fst (utf8_dec_loop c rest v)) <= length rest + upend v)%nat.
Proof.
  induction rest as [|x r IH]; intros v; cbn [utf8_dec_loop]; [cbn; lia|].
  pose proof (utf8_dec_iter_len c x v) as H1.
  destruct (utf8_dec_iter c x v) as [[o1 adv] v1]. destruct adv.
  - specialize (IH v1). destruct (utf8_dec_loop c r v1) as [out vf]. cbn [fst length] in *.
    rewrite utf8_cons_len. lia.
  - destruct H1 as (H1 & H2 & H3).
    pose proof (utf8_dec_iter_len c x v1) as H4.
    destruct (utf8_dec_iter c x v1) as [[o2 adv2] v2].
    specialize (IH v2). destruct (utf8_dec_loop c r v2) as [out vf]. cbn [fst length] in *.
    rewrite utf8_cons_len, (utf8_cons_len o2). destruct adv2; [lia|]. destruct H4 as (_ & H4 & _). lia.
Qed.

Theorem utf8_decode_path_length c s st : (length (fst (utf8_decode_path c s st)) <= length s)%nat.
Proof.
  unfold utf8_decode_path. pose proof (utf8_dec_loop_length c s (utf8_vars0 st)) as H.
  destruct (utf8_dec_loop c s (utf8_vars0 st)) as [out v]. cbn in *. lia.
Qed.

(* the second look at a byte that was not consumed always consumes it (the model's unfolding of the loop is exact) *)
Lemma utf8_dec_iter_second c x v o v1 :
  utf8_dec_iter c x v = (o, false, v1) -> snd (fst (utf8_dec_iter c x v1)) = true.
Proof.
  intros H. pose proof (utf8_dec_iter_len c x v) as H1. rewrite H in H1. destruct H1 as (H1 & _).
  pose proof (utf8_dec_iter_len c x v1) as H2.
  destruct (utf8_dec_iter c x v1) as [[o2 adv2] v2]. destruct adv2; [reflexivity|].
  destruct H2 as (_ & H2 & _). lia.
Qed.

(* ---- the pipeline of htp_normalize_parsed_uri ---- *)
Theorem pth_pipeline_length c s : (length (pth_pipeline c s) <= length s)%nat.
Proof.
  unfold pth_pipeline, pth_pipeline_st, pth_decode_path.
  pose proof (pth_decode_path_length c s pth_st0) as H1.
  destruct (pth_decode_path_st c s pth_st0) as [p1 st1]. cbn [fst] in H1.
  destruct (d_bestfit c).
  - pose proof (utf8_decode_path_length c p1 st1) as H2.
    destruct (utf8_decode_path c p1 st1) as [p2 st2]. cbn [fst] in *.
    pose proof (dot_normalize_length p2). lia.
  - cbn [fst]. pose proof (dot_normalize_length p1). lia.
Qed.
