(* C16: PSegPipe.v, Section PipeRun (n pipelined requests in any chunking) over the generalised world of PTunSeg.v: the
   transaction list starts with slots `pre0` that are not requests of the pipeline (the CONNECT transaction of a refused CONNECT),
   out_next_tx_index is whatever the auxiliary record a0 says.  Generated from PSegPipe.v by renaming, then adapted where marked. *)
Require Import Htp.Model.Base Htp.Model.MBstr Htp.Model.MConnTypes Htp.Model.MTxCommon Htp.Model.MReqLine Htp.Model.MReqUri Htp.Model.MTxReq.
Require Import Htp.Model.MReq Htp.Model.MRes Htp.Model.MConnp.
Require Import Htp.Spec.SWire Htp.Proof.PWire Htp.Proof.PWireHdr Htp.Proof.PWireBlock Htp.Proof.PWireConn Htp.Proof.PWireExch.
Require Import Htp.Proof.PWireRun Htp.Proof.PWirePres Htp.Proof.PWireGlue Htp.Proof.PSeg Htp.Proof.PSegLine Htp.Proof.PSegHdr Htp.Proof.PSegGen Htp.Proof.PSegRun.
Require Import Htp.Proof.PSegFold Htp.Proof.PSegPipe Htp.Proof.PTunBase Htp.Proof.PTunSeg Htp.Proof.PTunSegLine Htp.Proof.PTunSegHdr Htp.Proof.PTunSegFold Htp.Proof.PTunSegRun Htp.Proof.PTunSegPipe Htp.Proof.PTunSegMid.

Lemma tg_cin_cons_nil {w} c d rd hdr st prev rh t : tg_cinw w c d rd [] hdr st prev rh t -> k_consume (c_in c) = rd.
Proof.
  intros [A1 A2 A3 A4 A5 A6 A7 A8 A9 A10 A11 A12 A13 A14 A15 A16 A17]. apply app_eq_nil in A9. destruct A9 as [_ B2].
  assert (L : length (firstn (rd - k_consume (c_in c)) (skipn (k_consume (c_in c)) d)) = 0%nat) by (rewrite B2; reflexivity).
  rewrite (sg_slice_length d _ rd A8 A7) in L. lia.
Qed.

Section PipeRun.
Variable cb : cb_oracle.
Variable g : cfg.
Hypothesis Hcb : wr_all_ok cb.
Hypothesis Hspace : g_allow_space_uri g = false.
Variable all : list wr_request.
Hypothesis Hok : Forall (fun r => sg_req_ok g r = true) all.
Variable pre0 : list (option tx).                          (* the slots before the first request of the pipeline *)
Variable a0 : tg_aux.                                      (* flags, out_next_tx_index, response side, in_content_length when the pipeline starts *)
Hypothesis Hmax : (g_max_tx g = 0 \/ length pre0 + length all < g_max_tx g)%nat.
Hypothesis Hst : tn_stable (c_out (ax_rs a0)).

(* [adapted] the slots of the pipeline's requests follow pre0 *)
Definition tg_rep (done : list (option tx)) (rsd : list wr_request) : Prop := exists dn, done = pre0 ++ dn /\ sg_rep dn rsd.
(* [adapted] the auxiliary record when n transactions exist: htp_connp_tx_create has run n - |pre0| times *)
Fixpoint tg_pauxj (j : nat) : tg_aux :=
  match j with O => a0 | S j' => tg_next_flags (repeat None (length pre0 + j')) (tg_pauxj j') end.
Definition tg_pflags (n : nat) : tg_aux := tg_pauxj (n - length pre0).
Definition tg_pw (done : list (option tx)) : tg_world := mk_tg_world done (tg_pflags (S (length done))).
Lemma tg_next_flags_len d1 d2 fl : length d1 = length d2 -> tg_next_flags d1 fl = tg_next_flags d2 fl.
Proof. intros E. unfold tg_next_flags. rewrite E. reflexivity. Qed.
Lemma tg_next_pflags (done : list (option tx)) rsd : tg_rep done rsd -> tg_next_flags done (tg_pflags (length done)) = tg_pflags (S (length done)).
Proof.
  intros (dn & E & _). unfold tg_pflags. assert (L : length done = (length pre0 + length dn)%nat) by (rewrite E, app_length; reflexivity).
  replace (S (length done) - length pre0)%nat with (S (length done - length pre0)) by lia. cbn [tg_pauxj].
  apply tg_next_flags_len. rewrite repeat_length. lia.
Qed.
Lemma tg_pflags_rs n : ax_rs (tg_pflags n) = ax_rs a0 /\ ax_onext (tg_pflags n) = ax_onext a0.
Proof. unfold tg_pflags. induction (n - length pre0)%nat as [|j IH]; [split; reflexivity|]. cbn [tg_pauxj]. unfold tg_next_flags. cbn [ax_rs ax_onext]. exact IH. Qed.
Lemma tg_pw_stable done : tn_stable (c_out (ax_rs (gw_aux (tg_pw done)))).
Proof. unfold tg_pw. cbn [gw_aux]. rewrite (proj1 (tg_pflags_rs _)). exact Hst. Qed.

Notation sg_tend := (Htp.Proof.PSegPipe.sg_tend g).
Notation sg_tpre_r := (Htp.Proof.PSegPipe.sg_tpre_r g).
Notation sg_tfin_r := (Htp.Proof.PSegPipe.sg_tfin_r g).
(* the states between two calls: rsd = the requests that are complete, rs = the others (the first one may be in progress) *)
Inductive tg_pbetween (rsd rs : list wr_request) (c : connp) (rw : bytes) : Prop :=
| PB_idle done : tg_imid c done (tg_pflags (length done)) -> tg_rep done rsd -> rw = sg_pwires rs -> tg_pbetween rsd rs c rw
| PB_line done r rs' p q : rs = r :: rs' -> tg_rep done rsd ->
    tg_midw (tg_pw done) c p None REQ_LINE None (sg_t1 (length done)) -> p ++ q = sg_line0 r ++ [CR; LF] -> q <> [] -> rw = q ++ sg_bwt r rs' ->
    tg_pbetween rsd rs c rw
| PB_hdrs done r rs' p hdr t : rs = r :: rs' -> tg_rep done rsd ->
    tg_midw (tg_pw done) c p hdr REQ_HEADERS (Some H_REQUEST_HEADER_DATA) t -> sg_fhlog g (sg_tend (length done) r) (sg_pwires rs') hdr t p rw ->
    tg_pbetween rsd rs c rw
| PB_fin done r r' rs'' p q fl : rs = r :: r' :: rs'' -> tg_rep done rsd ->
    tg_midw (tg_pw done) c p None REQ_FINALIZE None (sg_tpre_r (length done) r fl) -> p ++ q = sg_line0 r' ++ [CR; LF] -> q <> [] -> rw = q ++ sg_bwt r' rs'' ->
    tg_pbetween rsd rs c rw.

Definition tg_pgoal (c : connp) (fuel : nat) (rw' : bytes) : Prop :=
  exists cF rc, rq_loop cb g fuel false c = (cF, rc) /\ exists rsd' rs', all = rsd' ++ rs' /\ tg_pbetween rsd' rs' cF rw'.

Notation sg_all_in := (Htp.Proof.PSegPipe.sg_all_in g all Hok).
Notation sg_all_in2 := (Htp.Proof.PSegPipe.sg_all_in2 g all Hok).
Lemma tg_max_ok rsd r rs' done : all = rsd ++ r :: rs' -> tg_rep done rsd -> (g_max_tx g = 0 \/ length done <= g_max_tx g)%nat.
Proof.
  intros E (dn & Ed & R). pose proof (sg_Forall2_length _ _ _ R) as L. destruct Hmax as [H|H]; [left; exact H|right]. rewrite E, app_length in H. cbn [length] in H. rewrite Ed, app_length. lia.
Qed.
Lemma tg_rep_snoc done rsd r k fl : tg_rep done rsd -> wr_request_ok r = true -> tg_rep (done ++ [Some (sg_tfin_r k r fl)]) (rsd ++ [r]).
Proof.
  intros (dn & Ed & R) Wr. exists (dn ++ [Some (sg_tfin_r k r fl)]). split; [rewrite Ed, <- app_assoc; reflexivity|].
  apply Forall2_app; [exact R|]. constructor; [|constructor]. eexists. split; [reflexivity|]. apply sg_tfin_reported; assumption.
Qed.

(* what REQ_IDLE with data has to establish when the request r comes next and rs'' follow *)
Definition tg_Pidle (r : wr_request) (rs'' : list wr_request) : Prop :=
  forall rsd done c d rd p q (rw' : bytes) fuel prev,
    all = rsd ++ r :: rs'' -> tg_rep done rsd -> tg_idl c d rd p done (tg_pflags (length done)) prev -> (rd < length d)%nat ->
    p ++ q = sg_line0 r ++ [CR; LF] -> q <> [] -> skipn rd d ++ rw' = q ++ sg_bwt r rs'' ->
    (16 * (length d - rd) + 8 <= fuel)%nat -> tg_pgoal c fuel rw'.
Definition tg_Pnext (rs' : list wr_request) : Prop := match rs' with [] => True | r' :: rs'' => tg_Pidle r' rs'' end.

(* ---- the idle state after a call ---- *)

(* ---- REQ_FINALIZE of the last request: the wire ends here ---- *)
Lemma tg_run_fin_last rsd r done c d fl (rw' : bytes) fuel :
  all = rsd ++ [r] -> tg_rep done rsd ->
  tg_cinw (tg_pw done) c d (length d) [] None REQ_FINALIZE (Some REQ_FINALIZE) None (sg_tpre_r (length done) r fl) -> rw' = [] ->
  (2 <= fuel)%nat -> tg_pgoal c fuel rw'.
Proof.
  intros Eall R H Erw Hf. destruct (sg_req_ok_parts g r (sg_all_in rsd r [] Eall)) as (Wr & _ & Wl & Wb & Wnf & Wc & _).
  destruct (sg_tpre_facts g Hspace (length done) _ _ _ _ Wl Wb Wnf fl Wc) as (_ & TC & Pg & Rp & Z9).
  destruct (tg_pass_finalize cb g Hcb c d _ _ H TC Pg Rp Z9) as (c6 & E6 & H6).
  destruct fuel as [|[|f]]; [lia|lia|].
  eexists _, _. split; [rewrite (sg_rq_loop_inr cb g _ _ _ E6), (sg_rq_loop_inl cb g _ _ _ (tg_pass_idle_end cb g c6 d _ _ _ _ H6)); reflexivity|]. exists (rsd ++ [r]), []. split; [rewrite app_nil_r; exact Eall|].
  apply (PB_idle _ _ _ _ (done ++ [Some (sg_tfin_r (length done) r fl)])).
  - cbn [gw_done gw_aux tg_pw] in H6. rewrite app_length. cbn [length]. rewrite Nat.add_1_r. apply (tg_imid_of_idl _ d [] _ _ _ H6 eq_refl).
  - apply tg_rep_snoc; assumption.
  - rewrite Erw. reflexivity.
Qed.

(* ---- REQ_FINALIZE when another request follows ---- *)
Lemma tg_run_fin_next rsd r r' rs'' done c d rd1 p q fl (rw' : bytes) fuel :
  tg_Pidle r' rs'' ->
  all = rsd ++ r :: r' :: rs'' -> tg_rep done rsd ->
  tg_cinw (tg_pw done) c d rd1 p None REQ_FINALIZE (Some REQ_FINALIZE) None (sg_tpre_r (length done) r fl) -> k_consume (c_in c) = rd1 ->
  p ++ q = sg_line0 r' ++ [CR; LF] -> q <> [] -> skipn rd1 d ++ rw' = q ++ sg_bwt r' rs'' -> (skipn rd1 d = [] -> p = []) ->
  (16 * (length d - rd1) + 9 <= fuel)%nat -> tg_pgoal c fuel rw'.
Proof.
  intros IH Eall R H Hc Hpq Hq Hw Hp0 Hf.
  destruct (sg_req_ok_parts g r (sg_all_in rsd r _ Eall)) as (Wr & _ & Wl & Wb & Wnf & Wc & _).
  destruct (sg_req_ok_parts g r' (sg_all_in2 rsd r r' rs'' Eall)) as (Wr' & Hk' & Wl' & _ & _ & _ & Hl0' & _).
  destruct (sg_tpre_facts g Hspace (length done) _ _ _ _ Wl Wb Wnf fl Wc) as (_ & TC & Pg & Rp & Z9).
  pose proof (gi_rd _ _ _ _ _ _ _ _ _ H) as Hrd.
  assert (Eall' : all = (rsd ++ [r]) ++ r' :: rs'') by (rewrite <- app_assoc; exact Eall).
  assert (R' : forall fl0, tg_rep (done ++ [Some (sg_tfin_r (length done) r fl0)]) (rsd ++ [r])) by (intros fl0; apply tg_rep_snoc; assumption).
  assert (Lf : length (done ++ [Some (sg_tfin_r (length done) r fl)]) = S (length done)) by (rewrite app_length; cbn [length]; lia).
  destruct (wr_reqline_bytes _ _ _ Wl') as (Hnolf & _). fold (sg_line0 r') in Hnolf.
  assert (Eb : sg_line0 r' ++ [CR; LF] = (sg_line0 r' ++ [CR]) ++ [LF]) by (rewrite <- app_assoc; reflexivity).
  destruct (Nat.eq_dec rd1 (length d)) as [Erd|Nrd].
  - (* the chunk ends with the request *)
    assert (Eu : skipn rd1 d = []) by (apply skipn_all2; lia). rewrite Eu in Hw. rewrite Erd in H. rewrite (Hp0 Eu) in *. cbn [app] in Hw, Hpq.
    destruct (tg_pass_finalize cb g Hcb c d _ _ H TC Pg Rp Z9) as (c6 & E6 & H6).
    destruct fuel as [|[|f]]; [lia|lia|].
    eexists _, _. split; [rewrite (sg_rq_loop_inr cb g _ _ _ E6), (sg_rq_loop_inl cb g _ _ _ (tg_pass_idle_end cb g c6 d _ _ _ _ H6)); reflexivity|]. exists (rsd ++ [r]), (r' :: rs''). split; [exact Eall'|].
    apply (PB_idle _ _ _ _ (done ++ [Some (sg_tfin_r (length done) r fl)])).
    + cbn [gw_done gw_aux tg_pw] in H6. rewrite Lf. apply (tg_imid_of_idl _ d [] _ _ _ H6 eq_refl).
    + apply R'.
    + rewrite Hw, sg_pwires_cons, Hpq, <- app_assoc. reflexivity.
  - assert (Hlt : (rd1 < length d)%nat) by lia.
    destruct (sg_app_cases (skipn rd1 d) rw' q _ Hw) as [Clt Cge].
    destruct (Nat.lt_ge_cases (length (skipn rd1 d)) (length q)) as [Llt|Lge].
    + (* no LF in the rest of the chunk *)
      destruct (Clt Llt) as (q2 & Eq & Hq2 & Erw).
      assert (Nu : sg_no_lf (skipn rd1 d) = true).
      { rewrite Eq, Eb, app_assoc in Hpq. destruct (sg_app_last _ _ _ _ Hpq Hq2) as (q3 & _ & E3). unfold sg_no_lf. rewrite <- E3, <- app_assoc, !forallb_app in Hnolf.
        apply andb_prop in Hnolf. destruct Hnolf as [_ Nb]. apply andb_prop in Nb. apply Nb. }
      assert (Lim : (length (p ++ skipn rd1 d) <= g_field_limit_hard g)%nat).
      { assert (L : length (p ++ q) = (length (sg_line0 r') + 2)%nat) by (rewrite Hpq, app_length; reflexivity). rewrite app_length in L. rewrite app_length. lia. }
      destruct (tg_fin_buffer cb g Hcb c d rd1 p _ H Hc Hlt Nu Lim) as (cF & EF & HF).
      destruct fuel as [|f]; [lia|].
      eexists _, _. split; [rewrite (sg_rq_loop_inl cb g _ _ _ EF); reflexivity|]. exists rsd, (r :: r' :: rs''). split; [exact Eall|].
      apply (PB_fin _ _ _ _ done r r' rs'' (p ++ skipn rd1 d) q2 fl eq_refl R HF); [rewrite <- app_assoc, <- Eq; exact Hpq|exact Hq2|exact Erw].
    + (* the LF of the next request line is in the chunk *)
      destruct (Cge Lge) as (d2 & Ed & Eaft).
      rewrite Eb in Hpq. destruct (sg_app_last _ _ _ _ Hpq Hq) as (q1 & Eq1 & Ep1).
      assert (Nq1 : sg_no_lf q1 = true) by (unfold sg_no_lf in *; rewrite <- Ep1, forallb_app in Hnolf; apply andb_prop in Hnolf; apply Hnolf).
      assert (Ed' : skipn rd1 d = q1 ++ LF :: d2) by (rewrite Ed, Eq1, <- app_assoc; reflexivity).
      destruct (sg_line0_shape r') as (rest' & Esh). rewrite <- Ep1 in Esh.
      assert (Wm' : wr_token (wq_method r') = true).
      { unfold wr_wf_request_line in Wl'. apply andb_prop in Wl'. destruct Wl' as [Wl' _]. apply andb_prop in Wl'. apply Wl'. }
      assert (Lim : (length (p ++ q1) <= g_field_limit_hard g)%nat) by (rewrite Ep1, app_length; cbn [length]; lia).
      destruct (tg_fin_probe cb g Hcb c d rd1 p _ q1 d2 _ rest' H Hc Ed' Nq1 Esh Wm' Hk' Lim TC Pg Rp Z9) as (c6 & E6 & H6).
      destruct fuel as [|f]; [lia|].
      cbn [gw_done gw_aux tg_pw] in H6. rewrite <- Lf in H6.
      assert (Hgoal : tg_pgoal c6 f rw' -> tg_pgoal c (S f) rw').
      { intros (cF & rc & E & X). exists cF, rc. split; [rewrite (sg_rq_loop_inr cb g _ _ _ E6); exact E|exact X]. }
      apply Hgoal.
      assert (Lq : (rd1 + length q1 < length d)%nat).
      { assert (L : length (skipn rd1 d) = length (q1 ++ LF :: d2)) by (rewrite Ed'; reflexivity). rewrite skipn_length, app_length in L. cbn [length] in L. lia. }
      apply (IH (rsd ++ [r]) _ c6 d (rd1 + length q1)%nat (p ++ q1) [LF] rw' f (Some REQ_IDLE) Eall' (R' fl) H6 Lq).
      * rewrite Ep1. symmetry. exact Eb.
      * discriminate.
      * rewrite <- sg_skipn_add, Ed', skipn_app, Nat.sub_diag, skipn_all. cbn [app skipn]. rewrite <- Eaft. reflexivity.
      * lia.
Qed.

Lemma tg_pgoal_steps n c c' fuel (rw' : bytes) : (forall f, rq_loop cb g (n + f) false c = rq_loop cb g f false c') -> (n <= fuel)%nat ->
  tg_pgoal c' (fuel - n) rw' -> tg_pgoal c fuel rw'.
Proof.
  intros St L (cF & rc & E & X). exists cF, rc. split; [|exact X]. replace fuel with (n + (fuel - n))%nat by lia. rewrite St. exact E.
Qed.
Lemma tg_pgoal_exit c cF fuel (rw' : bytes) rsd' rs' : rq_iter cb g false c = inl (cF, c_HTP_STREAM_DATA) -> (1 <= fuel)%nat ->
  all = rsd' ++ rs' -> tg_pbetween rsd' rs' cF rw' -> tg_pgoal c fuel rw'.
Proof.
  intros E L Ea B. destruct fuel as [|f]; [lia|]. exists cF, c_HTP_STREAM_DATA. split; [apply (sg_rq_loop_inl cb g _ _ _ E)|]. exists rsd', rs'. split; assumption.
Qed.

(* ---- a call that is in REQ_HEADERS of request r ---- *)
Lemma tg_run_hdrs rsd r rs' done c d rd p hdr t (rw' : bytes) fuel :
  tg_Pnext rs' -> all = rsd ++ r :: rs' -> tg_rep done rsd ->
  tg_cinw (tg_pw done) c d rd p hdr REQ_HEADERS (Some REQ_HEADERS) (Some H_REQUEST_HEADER_DATA) t ->
  sg_fhlog g (sg_tend (length done) r) (sg_pwires rs') hdr t p (skipn rd d ++ rw') ->
  (16 * (length d - rd) + 1 <= fuel)%nat -> tg_pgoal c fuel rw'.
Proof.
  intros IH Eall R H Hlog Hf.
  destruct (sg_req_ok_parts g r (sg_all_in rsd r _ Eall)) as (Wr & _ & Wl & Wb & Wnf & Wc & _).
  destruct (tg_pipe_hdrs cb g Hcb Hspace c d rd p hdr t rw' _ _ _ _ _ Wl Wb Wnf Wc H Hlog) as [(cF & p' & hdr' & t' & E & HF & Hl' & Hne)|(c5 & rd1 & fl & St & H5 & Hw & Hlt)].
  - apply (tg_pgoal_exit c cF fuel rw' rsd (r :: rs') E ltac:(lia) Eall). apply (PB_hdrs _ _ _ _ done r rs' p' hdr' t' eq_refl R HF Hl').
  - pose proof (gi_rd _ _ _ _ _ _ _ _ _ H5) as L1. pose proof (tg_cin_cons_nil _ _ _ _ _ _ _ _ H5) as Hc5.
    apply (tg_pgoal_steps 3 c c5 fuel rw' St ltac:(lia)).
    destruct rs' as [|r' rs''].
    + cbn [sg_pwires map concat] in Hw. apply app_eq_nil in Hw. destruct Hw as [Hs Hrw].
      assert (Erd : rd1 = length d) by (pose proof (sg_skipn_nil _ _ Hs); lia). rewrite Erd in H5.
      apply (tg_run_fin_last rsd r done c5 d fl rw' _ Eall R H5 Hrw). lia.
    + rewrite sg_pwires_cons, app_assoc in Hw.
      apply (tg_run_fin_next rsd r r' rs'' done c5 d rd1 [] (sg_line0 r' ++ [CR; LF]) fl rw' _ IH Eall R H5 Hc5 eq_refl); [|exact Hw|reflexivity|lia].
      intro E. apply app_eq_nil in E. destruct E as [_ E]. discriminate.
Qed.

(* ---- a call that is in REQ_LINE of request r ---- *)
Lemma tg_run_line rsd r rs' done c d rd p q (rw' : bytes) fuel :
  tg_Pnext rs' -> all = rsd ++ r :: rs' -> tg_rep done rsd ->
  tg_cinw (tg_pw done) c d rd p None REQ_LINE (Some REQ_LINE) None (sg_t1 (length done)) ->
  p ++ q = sg_line0 r ++ [CR; LF] -> q <> [] -> skipn rd d ++ rw' = q ++ sg_bwt r rs' ->
  (16 * (length d - rd) + 1 <= fuel)%nat -> tg_pgoal c fuel rw'.
Proof.
  intros IH Eall R H Hpq Hq Hw Hf.
  destruct (sg_req_ok_parts g r (sg_all_in rsd r _ Eall)) as (Wr & _ & Wl & Wb & Wnf & Wc & Hl0 & Hfit).
  destruct (tg_pipe_line cb g Hcb Hspace c d rd p q rw' (sg_bwt r rs') _ _ _ Wl Hl0 H Hpq Hq Hw) as [(cF & q2 & E & HF & Hq2 & Hpq2 & Erw)|(c3 & rd2 & St & H3 & Hw3 & Hlt)].
  - apply (tg_pgoal_exit c cF fuel rw' rsd (r :: rs') E ltac:(lia) Eall). apply (PB_line _ _ _ _ done r rs' _ q2 eq_refl R HF Hpq2 Hq2 Erw).
  - pose proof (gi_rd _ _ _ _ _ _ _ _ _ H3) as L3.
    apply (tg_pgoal_steps 2 c c3 fuel rw' St ltac:(lia)).
    apply (tg_run_hdrs rsd r rs' done c3 d rd2 [] None _ rw' _ IH Eall R H3); [|lia].
    rewrite Hw3. apply sg_flat_start; assumption.
Qed.

(* ---- REQ_IDLE with the beginning of request r ---- *)
Lemma tg_run_idle r rs' : tg_Pnext rs' -> tg_Pidle r rs'.
Proof.
  intros IH rsd done c d rd p q rw' fuel prev Eall R H Hlt Hpq Hq Hw Hf.
  destruct (tg_pass_idle cb g Hcb c d rd p done _ prev H Hlt (tg_max_ok rsd r rs' done Eall R)) as (c1 & E1 & H1).
  rewrite (tg_next_pflags done rsd R) in H1. fold (tg_pw done) in H1.
  apply (tg_pgoal_steps 1 c c1 fuel rw' (sg_steps_inr cb g c c1 E1) ltac:(lia)).
  apply (tg_run_line rsd r rs' done c1 d rd p q rw' _ IH Eall R H1 Hpq Hq Hw). lia.
Qed.
Lemma tg_Pidle_all : forall rs' r, tg_Pidle r rs'.
Proof. induction rs' as [|r' rs'' IH]; intros r; apply tg_run_idle; [exact I|apply IH]. Qed.
Lemma tg_Pnext_all rs' : tg_Pnext rs'.
Proof. destruct rs' as [|r' rs'']; [exact I|apply tg_Pidle_all]. Qed.

(* ---- entering htp_connp_req_data between two requests ---- *)

(* ---- one call of htp_connp_req_data ---- *)
Lemma tg_pstep rsd rs c (rw x rw' : bytes) : all = rsd ++ rs -> tg_pbetween rsd rs c rw -> x <> [] -> rw = x ++ rw' ->
  exists c' rc, connp_req_data cb g (Some x) (length x) c = (c', rc) /\ exists rsd' rs', all = rsd' ++ rs' /\ tg_pbetween rsd' rs' c' rw'.
Proof.
  intros Eall B Hne Ex. destruct (sg_fuel_8 x) as (f & Ef).
  assert (Lx : (0 < length x)%nat) by (destruct x; [contradiction|cbn; lia]).
  assert (Fu : (16 * (length x - 0) + 9 <= rq_fuel (length x))%nat) by (unfold rq_fuel; lia).
  destruct B as [done Hm R Erw|done r rs' p q Ers R Hm Hpq Hq Erw|done r rs' p hdr t Ers R Hm Hl|done r r' rs'' p q fl Ers R Hm Hpq Hq Erw].
  - destruct (tg_enter_idle cb g c done _ x Hm Hne) as (c1 & E1 & H1 & _). unfold bytes in *. rewrite E1.
    destruct rs as [|r rs'].
    + exfalso. cbn [sg_pwires map concat] in Erw. rewrite Erw in Ex. destruct x; [contradiction|discriminate].
    + rewrite sg_pwires_cons, app_assoc in Erw.
      apply (tg_Pidle_all rs' r rsd done c1 x 0 [] (sg_line0 r ++ [CR; LF]) rw' _ _ Eall R H1 Lx eq_refl).
      * intro E. apply app_eq_nil in E. destruct E as [_ E]. discriminate.
      * cbn [skipn]. rewrite <- Ex. exact Erw.
      * lia.
  - subst rs. destruct (tg_enter cb g c p None _ _ _ x Hm Hne) as (c1 & E1 & H1). unfold bytes in *. rewrite E1.
    apply (tg_run_line rsd r rs' done c1 x 0 p q rw' _ (tg_Pnext_all rs') Eall R H1 Hpq Hq); [cbn [skipn]; rewrite <- Ex; exact Erw|lia].
  - subst rs. destruct (tg_enter cb g c p hdr _ _ t x Hm Hne) as (c1 & E1 & H1). unfold bytes in *. rewrite E1.
    apply (tg_run_hdrs rsd r rs' done c1 x 0 p hdr t rw' _ (tg_Pnext_all rs') Eall R H1); [cbn [skipn]; rewrite <- Ex; exact Hl|lia].
  - subst rs. destruct (tg_enter cb g c p None _ _ _ x Hm Hne) as (c1 & E1 & H1). unfold bytes in *. rewrite E1.
    assert (Hc1 : k_consume (c_in c1) = 0%nat) by (pose proof (gi_cons _ _ _ _ _ _ _ _ _ H1); lia).
    apply (tg_run_fin_next rsd r r' rs'' done c1 x 0 p q fl rw' _ (tg_Pidle_all rs'' r') Eall R H1 Hc1 Hpq Hq); [cbn [skipn]; rewrite <- Ex; exact Erw| |lia].
    cbn [skipn]. intros E. contradiction.
Qed.

(* ---- finish_call between two calls ---- *)
Lemma tg_pbetween_finish rsd rs c rw : tg_pbetween rsd rs c rw -> tg_pbetween rsd rs (tn_fin c) rw.
Proof.
  intros [done Hm R Erw|done r rs' p q Ers R Hm Hpq Hq Erw|done r rs' p hdr t Ers R Hm Hl|done r r' rs'' p q fl Ers R Hm Hpq Hq Erw].
  - apply (PB_idle _ _ _ _ done (tg_imid_finish _ _ _ Hm ltac:(rewrite (proj1 (tg_pflags_rs _)); exact Hst)) R Erw).
  - apply (PB_line _ _ _ _ done r rs' p q Ers R (tg_midw_finish _ _ _ _ _ _ _ Hm (tg_pw_stable done)) Hpq Hq Erw).
  - apply (PB_hdrs _ _ _ _ done r rs' p hdr t Ers R (tg_midw_finish _ _ _ _ _ _ _ Hm (tg_pw_stable done)) Hl).
  - apply (PB_fin _ _ _ _ done r r' rs'' p q fl Ers R (tg_midw_finish _ _ _ _ _ _ _ Hm (tg_pw_stable done)) Hpq Hq Erw).
Qed.

(* [adapted] when no wire is left, every request is complete and the request side is idle *)
Lemma tg_pbetween_end rsd rs c : all = rsd ++ rs -> tg_pbetween rsd rs c [] ->
  tg_rep (c_txs c) all /\ tg_imid c (c_txs c) (tg_pflags (length (c_txs c))).
Proof.
  intros Eall [done Hm R Erw|done r rs' p q Ers R Hm Hpq Hq Erw|done r rs' p hdr t Ers R Hm Hl|done r r' rs'' p q fl Ers R Hm Hpq Hq Erw].
  - destruct rs as [|r rs']; [|rewrite sg_pwires_cons in Erw; symmetry in Erw; apply app_eq_nil in Erw; destruct Erw as [_ E]; discriminate].
    rewrite app_nil_r in Eall. subst rsd. rewrite (gq_txs _ _ _ Hm). split; [exact R|exact Hm].
  - exfalso. destruct q; [contradiction|discriminate].
  - exfalso. destruct Hl as (pend & tl & rem & q & _ & _ & _ & _ & _ & Hq & E & _). destruct q; [contradiction|discriminate].
  - exfalso. destruct q; [contradiction|discriminate].
Qed.
Lemma tg_pbetween_live rsd rs c rw : tg_pbetween rsd rs c rw -> tg_live (c_in_status c) /\ Htp.Proof.PReq.rq_inv c.
Proof.
  intros [done Hm R Erw|done r rs' p q Ers R Hm Hpq Hq Erw|done r rs' p hdr t Ers R Hm Hl|done r r' rs'' p q fl Ers R Hm Hpq Hq Erw].
  - split; [exact (gq_status _ _ _ Hm)|apply Htp.Proof.PReq.rq_inv_plain; rewrite (gq_state _ _ _ Hm); split; discriminate].
  - split; [exact (gm_status _ _ _ _ _ _ Hm)|apply Htp.Proof.PReq.rq_inv_plain; rewrite (gm_state _ _ _ _ _ _ Hm); split; discriminate].
  - split; [exact (gm_status _ _ _ _ _ _ Hm)|apply Htp.Proof.PReq.rq_inv_plain; rewrite (gm_state _ _ _ _ _ _ Hm); split; discriminate].
  - split; [exact (gm_status _ _ _ _ _ _ Hm)|apply Htp.Proof.PReq.rq_inv_plain; rewrite (gm_state _ _ _ _ _ _ Hm); split; discriminate].
Qed.

(* ---- every chunk ---- *)
(* [adapted] with what the caller sees: no call leaves the request side in tunnel mode *)
Lemma tg_pchunks : forall (chunks : list bytes) c rsd rs rw, all = rsd ++ rs -> tg_pbetween rsd rs c rw ->
  Forall (fun x => x <> []) chunks -> concat chunks = rw ->
  let cF := fst (cp_run cb g c (map OpReqData chunks)) in
  tg_rep (c_txs cF) all /\ tg_imid cF (c_txs cF) (tg_pflags (length (c_txs cF))) /\ Forall tn_rquiet (snd (cp_run cb g c (map OpReqData chunks))).
Proof.
  induction chunks as [|x rest IH]; intros c rsd rs rw Eall B Hall Hc; cbv zeta.
  - cbn [concat] in Hc. subst rw. cbn [map cp_run fst snd]. destruct (tg_pbetween_end rsd rs c Eall B) as [A1 A2]. split; [exact A1|]. split; [exact A2|constructor].
  - cbn [concat] in Hc. cbn [map]. rewrite tn_run_cons. cbn [fst snd]. rewrite tn_step_req.
    destruct (tg_pstep rsd rs c rw x (concat rest) Eall B (Forall_inv Hall) (eq_sym Hc)) as (c' & rc & E & rsd' & rs' & Eall' & B').
    unfold bytes in E |- *. rewrite E. cbn [fst snd].
    destruct (IH _ rsd' rs' (concat rest) Eall' (tg_pbetween_finish _ _ _ _ B') (Forall_inv_tail Hall) eq_refl) as (A1 & A2 & A3).
    split; [exact A1|]. split; [exact A2|]. constructor; [|exact A3].
    unfold tn_rquiet, tn_res, finish_call. cbn [snd r_in_status]. apply tn_live_quiet. exact (proj1 (tg_pbetween_live _ _ _ _ B')).
Qed.
End PipeRun.
