(* C12 / C13 at history level, part 1: what htp_tx_state_request_line's URI pipeline leaves in a fresh transaction, as a
   function of the wire target:  parsed_uri_raw = the split of C13 (MUri.parse_uri),  parsed_uri.path = the pipeline of C12
   (MPath.pth_pipeline) under the connection's path-decoder configuration, and which HTP_PATH_* indicators can come from where.
   Then: nothing that follows in a request without body (header fields, end of headers, completion) touches these. *)
Require Import Htp.Model.Base Htp.Model.MBstr Htp.Model.MConnTypes Htp.Model.MTxCommon Htp.Model.MReqLine Htp.Model.MReqUri Htp.Model.MTxReq.
Require Import Htp.Model.MUri Htp.Model.MPath Htp.Model.MUrlenc.
Require Import Htp.Spec.SPath Htp.Proof.PPathFlags.
Local Open Scope N_scope.

(* ---- bit masks ---- *)
Lemma uh_land_lor_0 f x m : N.land x m = 0 -> N.land (N.lor f x) m = N.land f m.
Proof. intros H. rewrite N.land_lor_distr_l, H, N.lor_0_r. reflexivity. Qed.
Lemma uh_land_sub f p m b : N.land f m = N.land p m -> N.land b m = b -> N.land f b = N.land p b.
Proof. intros H Hb. rewrite <- Hb, !N.land_assoc, (N.land_comm f b), (N.land_comm p b), <- !N.land_assoc, H. reflexivity. Qed.
Lemma uh_has_lor_r f x b : flag_has x b = true -> flag_has (N.lor f x) b = true.
Proof.
  unfold flag_has. intros H. apply negb_true_iff in H. apply N.eqb_neq in H. apply negb_true_iff. apply N.eqb_neq. intros E. apply H.
  rewrite N.land_lor_distr_l in E. apply N.lor_eq_0_iff in E. apply E.
Qed.
Lemma uh_has_lor_l f x b : flag_has f b = true -> flag_has (N.lor f x) b = true.
Proof. rewrite N.lor_comm. apply uh_has_lor_r. Qed.

(* ---- the UTF-8 stage does not look at the incoming flags, except for HTP_PATH_UTF8_INVALID at the very end ---- *)
Definition uh_rv (fl : N) (v v' : utf8_vars) : Prop :=
  u_state v = u_state v' /\ u_cp v = u_cp v' /\ u_counter v = u_counter v' /\ u_seen v = u_seen v' /\ fst (u_st v) = N.lor fl (fst (u_st v')).

Lemma uh_dec_iter fl c x v v' : uh_rv fl v v' ->
  fst (fst (utf8_dec_iter c x v)) = fst (fst (utf8_dec_iter c x v')) /\ snd (fst (utf8_dec_iter c x v)) = snd (fst (utf8_dec_iter c x v')) /\
  uh_rv fl (snd (utf8_dec_iter c x v)) (snd (utf8_dec_iter c x v')).
Proof.
  destruct v as [s cp n sn st], v' as [s' cp' n' sn' st']. unfold uh_rv. cbn [u_state u_cp u_counter u_seen u_st].
  intros (-> & -> & -> & -> & H). unfold utf8_dec_iter. cbn [u_state u_cp u_counter u_seen u_st].
  destruct (utf8_step s' cp' x) as [state cp]. destruct (state =? utf8_ACCEPT).
  - destruct (Nat.eqb (S n') 1); cbn [fst snd u_state u_cp u_counter u_seen u_st]; [repeat split; exact H|].
    destruct (utf8_overlong (S n') cp); destruct ((65280 <=? cp) && (cp <=? 65519)); cbn [fst snd u_state u_cp u_counter u_seen u_st];
      repeat split; rewrite ?fst_flag, H, ?N.lor_assoc; reflexivity.
  - destruct (state =? utf8_REJECT); cbn [fst snd u_state u_cp u_counter u_seen u_st]; repeat split; try exact H.
    rewrite !fst_unwanted, !fst_flag, H, N.lor_assoc. reflexivity.
Qed.

Lemma uh_dec_loop fl c : forall rest v v', uh_rv fl v v' ->
  fst (utf8_dec_loop c rest v) = fst (utf8_dec_loop c rest v') /\ uh_rv fl (snd (utf8_dec_loop c rest v)) (snd (utf8_dec_loop c rest v')).
Proof.
  induction rest as [|x r IH]; intros v v' R; [split; [reflexivity|exact R]|].
  cbn [utf8_dec_loop]. destruct (uh_dec_iter fl c x v v' R) as (E1 & E2 & R1).
  destruct (utf8_dec_iter c x v) as [[o1 adv] v1]. destruct (utf8_dec_iter c x v') as [[o1' adv'] v1']. cbn [fst snd] in E1, E2, R1. subst o1' adv'.
  destruct adv.
  - destruct (IH v1 v1' R1) as [I1 I2]. destruct (utf8_dec_loop c r v1) as [out vf]. destruct (utf8_dec_loop c r v1') as [out' vf'].
    cbn [fst snd] in *. subst out'. split; [reflexivity|exact I2].
  - destruct (uh_dec_iter fl c x v1 v1' R1) as (F1 & _ & R2).
    destruct (utf8_dec_iter c x v1) as [[o2 a2] v2]. destruct (utf8_dec_iter c x v1') as [[o2' a2'] v2']. cbn [fst snd] in F1, R2. subst o2'.
    destruct (IH v2 v2' R2) as [I1 I2]. destruct (utf8_dec_loop c r v2) as [out vf]. destruct (utf8_dec_loop c r v2') as [out' vf'].
    cbn [fst snd] in *. subst out'. split; [reflexivity|exact I2].
Qed.

Lemma uh_val_iter fl x v v' : uh_rv fl v v' -> uh_rv fl (utf8_val_iter x v) (utf8_val_iter x v').
Proof.
  destruct v as [s cp n sn st], v' as [s' cp' n' sn' st']. unfold uh_rv. cbn [u_state u_cp u_counter u_seen u_st].
  intros (-> & -> & -> & -> & H). unfold utf8_val_iter. cbn [u_state u_cp u_counter u_seen u_st].
  destruct (utf8_step s' cp' x) as [state cp]. destruct (state =? utf8_ACCEPT).
  - destruct (Nat.ltb 1 (S n') && utf8_overlong (S n') cp); destruct ((65279 <? cp) && (cp <? 65536)); cbn [fst snd u_state u_cp u_counter u_seen u_st];
      repeat split; rewrite ?fst_flag, H, ?N.lor_assoc; reflexivity.
  - destruct (state =? utf8_REJECT); cbn [fst snd u_state u_cp u_counter u_seen u_st]; repeat split; try exact H.
    rewrite !fst_flag, H, N.lor_assoc. reflexivity.
Qed.
Lemma uh_val_fold fl : forall s v v', uh_rv fl v v' ->
  uh_rv fl (fold_left (fun v x => utf8_val_iter x v) s v) (fold_left (fun v x => utf8_val_iter x v) s v').
Proof. induction s as [|x r IH]; intros v v' R; [exact R|]. cbn [fold_left]. apply IH. apply uh_val_iter. exact R. Qed.

Lemma uh_has_pth f st : pth_has f st = flag_has (fst st) f.
Proof. reflexivity. Qed.
Lemma uh_flag_has_lor f a b : flag_has (N.lor a b) f = flag_has a f || flag_has b f.
Proof.
  unfold flag_has. rewrite N.land_lor_distr_l. destruct (N.land a f =? 0) eqn:Ea; destruct (N.land b f =? 0) eqn:Eb; cbn [negb orb].
  - apply N.eqb_eq in Ea. apply N.eqb_eq in Eb. rewrite Ea, Eb. reflexivity.
  - apply N.eqb_eq in Ea. rewrite Ea, N.lor_0_l, Eb. reflexivity.
  - apply N.eqb_eq in Eb. rewrite Eb, N.lor_0_r, Ea. reflexivity.
  - apply N.eqb_neq in Ea. destruct (N.lor (N.land a f) (N.land b f) =? 0) eqn:E; [|reflexivity]. apply N.eqb_eq in E. apply N.lor_eq_0_iff in E. destruct E as [E _]. contradiction.
Qed.
Lemma uh_finish fl v v' : flag_has fl c_HTP_PATH_UTF8_INVALID = false -> uh_rv fl v v' -> fst (utf8_finish v) = N.lor fl (fst (utf8_finish v')).
Proof.
  intros Hfl (_ & _ & _ & Es & H). unfold utf8_finish. rewrite Es, !uh_has_pth, H, uh_flag_has_lor, Hfl. cbn [orb].
  destruct (u_seen v' && negb (flag_has (fst (u_st v')) c_HTP_PATH_UTF8_INVALID)); rewrite ?fst_flag, H, ?N.lor_assoc; reflexivity.
Qed.

(* ---- htp_decode_path_inplace + UTF-8 stage + dot segments, started with the flags fl of the transaction ---- *)
Definition uh_pflags (c : dcfg) (p : bytes) : N := fst (snd (pth_pipeline_st c p)).
Lemma uh_path_frame c p fl z : flag_has fl c_HTP_PATH_UTF8_INVALID = false ->
  let '(p1, st1) := pth_decode_path_st c p (fl, z) in
  let '(p2, st2) := if d_bestfit c then utf8_decode_path c p1 st1 else (p1, utf8_validate_path p1 st1) in
  dot_normalize p2 = pth_pipeline c p /\ fst st2 = N.lor fl (uh_pflags c p).
Proof.
  intros Hfl. unfold uh_pflags, pth_pipeline, pth_pipeline_st, pth_decode_path, pth_decode_path_st.
  destruct (pth_loop_lex c p 0%nat false (fl, z)) as [A1 A2]. destruct (pth_loop_lex c p 0%nat false pth_st0) as [B1 B2].
  destruct (pth_loop c 0 p false (fl, z)) as [p1 st1]. destruct (pth_loop c 0 p false pth_st0) as [p1' st1']. cbn [fst snd] in *.
  rewrite <- B1 in A1. subst p1'. cbn [pth_st0 fst] in B2. rewrite N.lor_0_l in B2. rewrite <- B2 in A2.
  assert (R0 : uh_rv fl (utf8_vars0 st1) (utf8_vars0 st1')) by (unfold uh_rv, utf8_vars0; cbn; repeat split; exact A2).
  destruct (d_bestfit c).
  - unfold utf8_decode_path. destruct (uh_dec_loop fl c p1 _ _ R0) as [I1 I2].
    destruct (utf8_dec_loop c p1 (utf8_vars0 st1)) as [out vf]. destruct (utf8_dec_loop c p1 (utf8_vars0 st1')) as [out' vf']. cbn [fst snd] in *. subst out'.
    split; [reflexivity|apply uh_finish; assumption].
  - cbn [fst snd]. split; [reflexivity|]. unfold utf8_validate_path. apply uh_finish; [exact Hfl|]. apply uh_val_fold. exact R0.
Qed.

(* ---- the indicators of the path stage, and the three that the generic decoder (user, password, host, fragment) shares ---- *)
Definition uh_S3 : N := N.lor c_HTP_PATH_INVALID_ENCODING (N.lor c_HTP_PATH_ENCODED_NUL c_HTP_PATH_RAW_NUL).
Definition uh_PURE : N :=
  N.lor c_HTP_PATH_ENCODED_SEPARATOR (N.lor c_HTP_PATH_OVERLONG_U (N.lor c_HTP_PATH_HALF_FULL_RANGE
    (N.lor c_HTP_PATH_UTF8_VALID (N.lor c_HTP_PATH_UTF8_INVALID c_HTP_PATH_UTF8_OVERLONG)))).
Definition uh_PM : N := N.lor uh_S3 uh_PURE.
Lemma uh_land_lor2 a b m : N.land a m = 0 -> N.land b m = 0 -> N.land (N.lor a b) m = 0.
Proof. intros H1 H2. rewrite N.land_lor_distr_l, H1, H2. reflexivity. Qed.
Lemma uh_land_0_sub a m b : N.land a m = 0 -> N.land b m = b -> N.land a b = 0.
Proof. intros H Hb. rewrite <- Hb, N.land_assoc, (N.land_comm a b), <- N.land_assoc, H. apply N.land_0_r. Qed.
Lemma uh_cond_lor (c : bool) f b : (if c then flag_set f b else f) = N.lor f (if c then b else 0).
Proof. destruct c; [reflexivity|rewrite N.lor_0_r; reflexivity]. Qed.

(* a transaction with other flags / expected status *)
Definition uh_fs (t : tx) (f : N) (z : Z) : tx := t <| t_flags := f |> <| t_response_status_expected_number := z |>.
Lemma uh_fs_fs t f z f' z' : uh_fs (uh_fs t f z) f' z' = uh_fs t f' z'. Proof. destruct t; reflexivity. Qed.
Lemma uh_fs_id t : uh_fs t (t_flags t) (t_response_status_expected_number t) = t. Proof. destruct t; reflexivity. Qed.
Lemma uh_fs_flags t f z : t_flags (uh_fs t f z) = f. Proof. reflexivity. Qed.
Lemma uh_fs_status t f z : t_response_status_expected_number (uh_fs t f z) = z. Proof. reflexivity. Qed.
Lemma uh_fs_setflag t f z b : (uh_fs t f z) <| t_flags ::= (fun x => flag_set x b) |> = uh_fs t (N.lor f b) z. Proof. destruct t; reflexivity. Qed.

(* htp_tx_urldecode_uri_inplace: only the three shared indicators can be added *)
Lemma uh_urldecode g s t : exists X z, snd (rq_urldecode_uri g s t) = uh_fs t (N.lor (t_flags t) X) z /\ N.land X uh_PURE = 0.
Proof.
  unfold rq_urldecode_uri. destruct (ud_urldecode_from _ _ _ _) as [[out fl] st]. cbn [snd].
  rewrite !uh_cond_lor, <- !N.lor_assoc.
  eexists _, st. split; [reflexivity|].
  destruct (flag_has fl c_HTP_URLEN_INVALID_ENCODING); destruct (flag_has fl c_HTP_URLEN_ENCODED_NUL); destruct (flag_has fl c_HTP_URLEN_RAW_NUL); vm_compute; reflexivity.
Qed.
Definition uh_isnone {A} (o : option A) : bool := match o with None => true | Some _ => false end.
Lemma uh_urldecode_opt g s t : exists o X z, rq_urldecode_uri_opt g s t = (o, uh_fs t (N.lor (t_flags t) X) z) /\ N.land X uh_PURE = 0 /\
  (s = None -> X = 0) /\ uh_isnone o = uh_isnone s.
Proof.
  unfold rq_urldecode_uri_opt. destruct s as [s|].
  - destruct (uh_urldecode g s t) as (X & z & E & M). destruct (rq_urldecode_uri g s t) as [o t']. cbn [snd] in E. subst t'.
    exists (Some o), X, z. split; [reflexivity|]. split; [exact M|]. split; [discriminate|reflexivity].
  - exists None, 0, (t_response_status_expected_number t). rewrite N.lor_0_r, uh_fs_id. repeat split; reflexivity.
Qed.

(* the path part *)
Lemma uh_normalize_path g p t : flag_has (t_flags t) c_HTP_PATH_UTF8_INVALID = false ->
  exists z, rq_normalize_path g p t = (pth_pipeline (g_dec_url_path g) p, uh_fs t (N.lor (t_flags t) (uh_pflags (g_dec_url_path g) p)) z).
Proof.
  intros H. unfold rq_normalize_path. cbv zeta.
  pose proof (uh_path_frame (g_dec_url_path g) p (t_flags t) (t_response_status_expected_number t) H) as F.
  destruct (pth_decode_path_st (g_dec_url_path g) p (t_flags t, t_response_status_expected_number t)) as [p1 st1].
  destruct (if d_bestfit (g_dec_url_path g) then _ else _) as [p2 st2]. destruct F as [F1 F2].
  exists (snd st2). rewrite F1, <- F2. reflexivity.
Qed.

(* ---- htp_normalize_parsed_uri on a transaction without flags ---- *)
Definition uh_noauth (raw : puri) : Prop := u_user raw = None /\ u_pass raw = None /\ u_host raw = None /\ u_port raw = None.
Definition uh_praw (g : cfg) (raw : puri) : N :=
  match u_path raw with Some p => uh_pflags (g_dec_url_path g) p | None => 0 end.
(* what is stated about the normalised URI: scheme, port number, path, query are functions of the raw components by the
   leaf models; for user, password, host, fragment (generic decoder, C15's model) only their presence *)
Definition uh_norm_ok (g : cfg) (raw nu : puri) : Prop :=
  u_scheme nu = option_map to_lowercase (u_scheme raw) /\ u_port nu = None /\ u_port_number nu = fst (uri_norm_port_opt (u_port raw)) /\
  u_path nu = option_map (pth_pipeline (g_dec_url_path g)) (u_path raw) /\ u_query nu = u_query raw /\
  uh_isnone (u_user nu) = uh_isnone (u_user raw) /\ uh_isnone (u_pass nu) = uh_isnone (u_pass raw) /\
  uh_isnone (u_host nu) = uh_isnone (u_host raw) /\ uh_isnone (u_frag nu) = uh_isnone (u_frag raw).
(* the flags: A = from user / password / host / port, then the path stage, then B = from the fragment *)
Definition uh_flags_ok (g : cfg) (raw : puri) (f : N) : Prop :=
  exists A B, f = N.lor (N.lor A (uh_praw g raw)) B /\ N.land A uh_PURE = 0 /\ N.land B uh_PURE = 0 /\
    (uh_noauth raw -> A = 0) /\ (u_frag raw = None -> N.land B uh_S3 = 0) /\
    (snd (uri_norm_port_opt (u_port raw)) = true -> flag_has A c_HTP_HOSTU_INVALID = true).

Lemma uh_pure_utf8inv A : N.land A uh_PURE = 0 -> flag_has A c_HTP_PATH_UTF8_INVALID = false.
Proof. intros H. unfold flag_has. rewrite (uh_land_0_sub A uh_PURE _ H); reflexivity. Qed.

Lemma uh_normalize g raw t : t_flags t = 0 ->
  exists nu A B z, htp_normalize_parsed_uri g raw t = (nu, uh_fs t (N.lor (N.lor A (uh_praw g raw)) B) z) /\ uh_norm_ok g raw nu /\
    N.land A uh_PURE = 0 /\ N.land B uh_PURE = 0 /\ (uh_noauth raw -> A = 0) /\ (u_frag raw = None -> B = 0) /\
    (snd (uri_norm_port_opt (u_port raw)) = true -> flag_has A c_HTP_HOSTU_INVALID = true).
Proof.
  intros Hf. unfold htp_normalize_parsed_uri.
  destruct (uh_urldecode_opt g (u_user raw) t) as (o1 & X1 & z1 & E1 & M1 & N1 & S1). rewrite E1, Hf.
  set (t1 := uh_fs t (N.lor 0 X1) z1).
  destruct (uh_urldecode_opt g (u_pass raw) t1) as (o2 & X2 & z2 & E2 & M2 & N2 & S2). rewrite E2. unfold t1. rewrite uh_fs_fs, uh_fs_flags. clear E2 t1.
  set (t2 := uh_fs t (N.lor (N.lor 0 X1) X2) z2).
  destruct (uh_urldecode_opt g (u_host raw) t2) as (o3 & X3 & z3 & E3 & M3 & N3 & S3). rewrite E3. unfold t2. rewrite uh_fs_fs, uh_fs_flags. clear E3 t2.
  destruct (uri_norm_port_opt (u_port raw)) as [pn inv] eqn:Ep.
  set (Hp := if inv then c_HTP_HOSTU_INVALID else 0).
  set (A := N.lor (N.lor (N.lor (N.lor 0 X1) X2) X3) Hp).
  assert (E4 : (if inv then (uh_fs t (N.lor (N.lor (N.lor 0 X1) X2) X3) z3) <| t_flags ::= (fun f => flag_set f c_HTP_HOSTU_INVALID) |>
                else uh_fs t (N.lor (N.lor (N.lor 0 X1) X2) X3) z3) = uh_fs t A z3).
  { unfold A, Hp. destruct inv; [apply uh_fs_setflag|rewrite N.lor_0_r; reflexivity]. }
  rewrite E4. clear E4.
  assert (MA : N.land A uh_PURE = 0).
  { unfold A. repeat apply uh_land_lor2; try assumption; [reflexivity|]. unfold Hp. destruct inv; reflexivity. }
  assert (E5 : exists z5, match u_path raw with
                          | Some p => let '(o, t0) := rq_normalize_path g p (uh_fs t A z3) in (Some o, t0)
                          | None => (None, uh_fs t A z3)
                          end = (option_map (pth_pipeline (g_dec_url_path g)) (u_path raw), uh_fs t (N.lor A (uh_praw g raw)) z5)).
  { unfold uh_praw. destruct (u_path raw) as [p|].
    - destruct (uh_normalize_path g p (uh_fs t A z3)) as (z5 & E); [rewrite uh_fs_flags; apply uh_pure_utf8inv; exact MA|].
      rewrite E, uh_fs_fs, uh_fs_flags. exists z5. reflexivity.
    - exists z3. rewrite N.lor_0_r. reflexivity. }
  destruct E5 as (z5 & E5). rewrite E5. clear E5.
  destruct (uh_urldecode_opt g (u_frag raw) (uh_fs t (N.lor A (uh_praw g raw)) z5)) as (o6 & X6 & z6 & E6 & M6 & N6 & S6).
  rewrite E6, uh_fs_fs, uh_fs_flags.
  eexists _, A, X6, z6. split; [reflexivity|]. split.
  { unfold uh_norm_ok. cbn [u_scheme u_port u_port_number u_path u_query u_user u_pass u_host u_frag fst]. repeat split; try assumption.
    - rewrite Ep. reflexivity.
    - rewrite <- S3. destruct o3; reflexivity. }
  split; [exact MA|]. split; [exact M6|]. split; [|split; [exact N6|]].
  - intros (Hu & Hpw & Hh & Hpo). unfold A, Hp. rewrite (N1 Hu), (N2 Hpw), (N3 Hh). rewrite Hpo in Ep. cbn in Ep. inversion Ep. reflexivity.
  - cbn [snd]. intros ->. unfold A, Hp. apply uh_has_lor_r. reflexivity.
Qed.

(* ---- the URI part of htp_tx_state_request_line on a fresh transaction (not CONNECT) ---- *)
Definition uh_puri_of (u : uri) (pn : Z) : puri :=
  mkpuri (uri_scheme u) (uri_username u) (uri_password u) (uri_hostname u) (uri_port u) (uri_path u) (uri_query u) (uri_fragment u) pn.
Definition uh_uri_of (p : puri) : uri := mk_uri (u_scheme p) (u_user p) (u_pass p) (u_host p) (u_port p) (u_path p) (u_query p) (u_frag p).
Definition uh_raw (u : bytes) : puri := uh_puri_of (parse_uri u) (-1).
Lemma uh_uri_of_raw u : uh_uri_of (uh_raw u) = parse_uri u. Proof. unfold uh_raw, uh_puri_of, uh_uri_of. destruct (parse_uri u); reflexivity. Qed.
Definition uh_mk (t : tx) (raw nu : puri) (f : N) (z : Z) : tx := uh_fs (t <| t_parsed_uri_raw := raw |> <| t_parsed_uri := Some nu |>) f z.
Lemma uh_mk_raw t raw nu f z : t_parsed_uri_raw (uh_mk t raw nu f z) = raw. Proof. reflexivity. Qed.
Lemma uh_mk_nu t raw nu f z : t_parsed_uri (uh_mk t raw nu f z) = Some nu. Proof. reflexivity. Qed.
Lemma uh_mk_flags t raw nu f z : t_flags (uh_mk t raw nu f z) = f. Proof. reflexivity. Qed.
Lemma uh_mk_of t raw nu f z : (uh_fs (t <| t_parsed_uri_raw := raw |>) f z) <| t_parsed_uri := Some nu |> = uh_mk t raw nu f z.
Proof. destruct t; reflexivity. Qed.
Lemma uh_mk_setflag t raw nu f z b : (uh_mk t raw nu f z) <| t_flags ::= (fun x => flag_set x b) |> = uh_mk t raw nu (N.lor f b) z.
Proof. destruct t; reflexivity. Qed.

Lemma uh_pipeline g u t : t_flags t = 0 -> t_parsed_uri t = None -> u_port_number (t_parsed_uri_raw t) = (-1)%Z ->
  exists nu f z, rq_uri_pipeline_opt g false (Some u) t = Some (uh_mk t (uh_raw u) nu f z) /\ uh_norm_ok g (uh_raw u) nu /\ uh_flags_ok g (uh_raw u) f.
Proof.
  intros Hf Hn Hpn. unfold rq_uri_pipeline_opt. cbv iota beta.
  assert (Er : rq_parse_uri_into (t_parsed_uri_raw t) (Some u) = uh_raw u) by (unfold rq_parse_uri_into, uh_raw, uh_puri_of; rewrite Hpn; reflexivity).
  rewrite Er. cbv zeta.
  set (t' := t <| t_parsed_uri_raw := uh_raw u |>).
  assert (Hn' : t_parsed_uri t' = None) by exact Hn. assert (Hf' : t_flags t' = 0) by exact Hf.
  rewrite Hn'. destruct (uh_normalize g (uh_raw u) t' Hf') as (nu & A & B & z & E & Ok & MA & MB & NA & NB & PA). rewrite E. unfold t'. rewrite uh_mk_of.
  set (Hh := match u_host nu with Some h => if htp_validate_hostname h then 0 else c_HTP_HOSTU_INVALID | None => 0 end).
  exists nu, (N.lor (N.lor (N.lor A (uh_praw g (uh_raw u))) B) Hh), z. split; [|split; [exact Ok|]].
  - unfold Hh. destruct (u_host nu) as [h|]; [destruct (htp_validate_hostname h)|]; rewrite ?N.lor_0_r, ?uh_mk_setflag; reflexivity.
  - exists A, (N.lor B Hh). split; [rewrite N.lor_assoc; reflexivity|]. split; [exact MA|].
    assert (MH : N.land Hh uh_PM = 0) by (unfold Hh; destruct (u_host nu) as [h|]; [destruct (htp_validate_hostname h)|]; reflexivity).
    split; [apply uh_land_lor2; [exact MB|apply (uh_land_0_sub Hh uh_PM _ MH); reflexivity]|].
    split; [exact NA|]. split; [|exact PA].
    intros Hfr. rewrite (NB Hfr), N.lor_0_l. apply (uh_land_0_sub Hh uh_PM _ MH). reflexivity.
Qed.
