(* Proofs about the ownership model, second part (C18): htp_parse_uri, htp_normalize_parsed_uri and
   htp_tx_state_request_line (Model/MOwn2.v), in the calculus of Proof/POwn.v. *)
Require Import Htp.Model.Base Htp.Model.MOwn Htp.Model.MOwnCases Htp.Model.MOwn2 Htp.Proof.POwn Htp.Proof.POwn2.

(* ------------------------------------------------------------------ htp_parse_uri: the code is the fill of its plan *)
Lemma parse_uri_body_plan sh u : ow_parse_uri_body sh u = ow_uri_fill (ow_parse_uri_plan sh) u.
Proof.
  destruct sh as [e sc au cr v6 po q fr]. unfold ow_parse_uri_body, ow_parse_uri_plan.
  cbn [opu_empty opu_scheme opu_authority opu_cred opu_v6 opu_port opu_query opu_fragment].
  destruct cr as [|[|cr]], v6 as [|[|v6]], sc, au, po, q, fr; reflexivity.
Qed.

Lemma parse_uri_plan_ok sh : NoDup (ow_parse_uri_plan sh) /\ (forall i, In i (ow_parse_uri_plan sh) -> i < 8).
Proof.
  destruct sh as [e sc au cr v6 po q fr]. unfold ow_parse_uri_plan.
  cbn [opu_empty opu_scheme opu_authority opu_cred opu_v6 opu_port opu_query opu_fragment].
  destruct cr as [|[|cr]], v6 as [|[|v6]], sc, au, po, q, fr;
    (split; [ repeat constructor; cbn; unfold c_ou_scheme, c_ou_username, c_ou_password, c_ou_hostname, c_ou_port, c_ou_path, c_ou_query, c_ou_fragment; intuition discriminate
            | cbn; unfold c_ou_scheme, c_ou_username, c_ou_password, c_ou_hostname, c_ou_port, c_ou_path, c_ou_query, c_ou_fragment; intros i H; intuition lia ]).
Qed.

Definition uri_fresh (u : ow_uri) : Prop := wf_uri8 u /\ forall i, ow_uri_get u i = None.

Lemma wp_uri_dup_field u i k F (Q : bool * ow_uri -> ow_state -> Prop) s :
  wf_uri8 u -> i < 8 -> ow_uri_get u i = None -> ow_own (fp_uri u ++ F) s ->
  (forall s', ow_own (fp_uri u ++ F) s' -> Q (false, ow_uri_set u i None) s') ->
  (forall b s', ow_own (fp_uri (ow_uri_set u i (Some b)) ++ F) s' -> ow_wp (k (ow_uri_set u i (Some b))) Q s') ->
  ow_wp (ow_uri_dup_field u i k) Q s.
Proof.
  intros [Wa Wl] Hi Ei [Hok Hown] HF HS. unfold ow_uri_dup_field.
  destruct (our_self u) as [a|] eqn:Ea; [|congruence].
  assert (La : 1 <= cnt a (oos_live s)). { rewrite Hown. unfold fp_uri. rewrite Ea. cnt_norm. lia. }
  wp_go.
  - apply HF. split; auto. intros j. rewrite H0. auto.
  - apply HS. split; auto. intros j. rewrite cnt_app, fp_uri_set_none by (auto; lia). rewrite H0, Hown. cnt_norm. lia.
Qed.

Lemma uri_set_none_same u i : i < length (our_fields u) -> ow_uri_get u i = None ->
  forall j, cnt j (fp_uri (ow_uri_set u i None)) = cnt j (fp_uri u).
Proof. intros Hi E j. rewrite fp_uri_set_none by auto. cbn. lia. Qed.

Lemma wp_uri_fill plan : forall u F (Q : bool * ow_uri -> ow_state -> Prop) s,
  wf_uri8 u -> NoDup plan -> (forall i, In i plan -> i < 8 /\ ow_uri_get u i = None) -> ow_own (fp_uri u ++ F) s ->
  (forall ok u' s', wf_uri8 u' -> our_self u' = our_self u -> ow_own (fp_uri u' ++ F) s' ->
                    (forall k, ~ In k plan -> ow_uri_get u' k = ow_uri_get u k) -> Q (ok, u') s') ->
  ow_wp (ow_uri_fill plan u) Q s.
Proof.
  induction plan as [|i r IH]; intros u F Q s W ND Hp O HQ; cbn [ow_uri_fill].
  - apply wp_ret. apply HQ; auto.
  - inversion ND as [|? ? Hni ND']; subst. destruct (Hp i (or_introl eq_refl)) as [Hi Ei].
    assert (Hl : i < length (our_fields u)) by (destruct W as [_ ->]; exact Hi).
    apply wp_uri_dup_field with (F := F); auto.
    + intros s1 O1. apply HQ.
      * now apply wf_uri8_set.
      * reflexivity.
      * eapply own_perm; [|exact O1]. intros j. rewrite !cnt_app, uri_set_none_same; auto.
      * intros k Hk. apply uri_get_set_other. intros ->. apply Hk. now left.
    + intros b s1 O1. apply IH with (F := F); auto.
      * now apply wf_uri8_set.
      * intros k Hk. destruct (Hp k (or_intror Hk)) as [A B]. split; auto.
        rewrite uri_get_set_other; auto. intros ->. contradiction.
      * intros ok u' s2 W' Es O2 Hk. apply HQ; auto.
        intros k Hnk. rewrite Hk. { apply uri_get_set_other. intros ->. apply Hnk. now left. }
        intros Hin. apply Hnk. now right.
Qed.

Definition uri_ok_for_parse (u : option ow_uri) : Prop := match u with Some u => uri_fresh u | None => True end.
Definition wf_uri8o (u : option ow_uri) : Prop := match u with Some u => wf_uri8 u | None => True end.

Lemma uri_alloc_fresh a : uri_fresh (ow_mk_uri (Some a) [None; None; None; None; None; None; None; None]).
Proof.
  split; [split; [discriminate | reflexivity]|]. intros i. unfold ow_uri_get. cbn [our_fields].
  do 8 (destruct i as [|i]; [reflexivity|]). destruct i; reflexivity.
Qed.

Lemma wp_uri_alloc_fresh F (Q : option ow_uri -> ow_state -> Prop) s :
  ow_own F s -> (forall s', ow_own F s' -> Q None s') ->
  (forall u s', uri_fresh u -> ow_own (fp_uri u ++ F) s' -> Q (Some u) s') ->
  ow_wp ow_uri_alloc Q s.
Proof.
  intros [Hok Hown] HN HS. unfold ow_uri_alloc. wp_go.
  - apply HN. split; auto. intros j; cnt_at j.
  - apply HS. { apply uri_alloc_fresh. } split; auto. intros j. unfold fp_uri. cbn. cnt_at j.
Qed.

Lemma wp_parse_uri sh input u F (Q : bool * option ow_uri -> ow_state -> Prop) s :
  uri_ok_for_parse u -> ow_own (fp_urio u ++ F) s -> (input = None \/ in_frame input F) ->
  (forall ok u' s', wf_uri8o u' -> (u' = None -> ok = false /\ u = None) ->
                    (forall x, u = Some x -> exists x', u' = Some x' /\ our_self x' = our_self x) ->
                    ow_own (fp_urio u' ++ F) s' -> Q (ok, u') s') ->
  ow_wp (ow_parse_uri sh input u) Q s.
Proof.
  intros Hu O Hin HQ. unfold ow_parse_uri. apply wp_bind.
  assert (Hmid : forall u1 s1, uri_fresh u1 -> (forall x, u = Some x -> u1 = x) -> ow_own (fp_uri u1 ++ F) s1 ->
            ow_wp (if ow_isnull input then ow_ret (true, Some u1) else
                   ow_use input ;;; if opu_empty sh then ow_ret (true, Some u1) else
                   r <- ow_parse_uri_body sh u1 ;; ow_ret (fst r, Some (snd r))) Q s1).
  { intros u1 s1 [W1 Fr] Hsame O1.
    assert (Hex : forall x, u = Some x -> exists x', Some u1 = Some x' /\ our_self x' = our_self x).
    { intros x E. exists u1. split; auto. now rewrite (Hsame x E). }
    destruct Hin as [-> | Hin]; cbn [ow_isnull].
    - apply wp_ret. apply HQ; cbn; auto. intros; discriminate.
    - assert (Li : live_in input s1) by (eapply in_frame_live; eauto).
      destruct Li as [a [-> La]]. cbn [ow_isnull]. wp_go.
      + apply HQ; cbn; auto. intros; discriminate.
      + rewrite parse_uri_body_plan. destruct (parse_uri_plan_ok sh) as [ND Hlt].
        apply wp_uri_fill with (F := F); auto.
        intros ok u' s2 W' Es O2 _. apply wp_ret. cbn [fst snd]. apply HQ; cbn; auto.
        * intros; discriminate.
        * intros x E. exists u'. split; auto. rewrite Es. now rewrite (Hsame x E). }
  destruct u as [u0|]; cbn [fp_urio uri_ok_for_parse] in *.
  - apply wp_ret. apply Hmid; auto. intros x E. congruence.
  - apply wp_uri_alloc_fresh with (F := F); auto.
    + intros s1 O1. apply wp_ret. apply HQ; cbn; auto. intros; discriminate.
    + intros u1 s1 Fr O1. apply Hmid; auto. intros; discriminate.
Qed.

(* ------------------------------------------------------------------ htp_normalize_parsed_uri *)
Lemma cnto_nth_le (l : list ow_oid) i j : cnto j (nth i l None) <= cnt j (olist l).
Proof.
  revert i. induction l as [|x r IH]; intros [|i]; cbn [nth]; try (cbn; lia).
  - rewrite cnt_olist_cons. lia.
  - rewrite cnt_olist_cons. specialize (IH i). lia.
Qed.

Lemma in_frame_uri_field u i G : ow_uri_get u i <> None -> in_frame (ow_uri_get u i) (fp_uri u ++ G).
Proof.
  intros H. split; [exact H|]. intros j. unfold ow_uri_get, fp_uri. rewrite cnt_app, cnt_olist_cons.
  pose proof (cnto_nth_le (our_fields u) i j). lia.
Qed.
Lemma in_frame_uri_self u G : our_self u <> None -> in_frame (our_self u) (fp_uri u ++ G).
Proof. intros H. split; [exact H|]. intros j. unfold fp_uri. rewrite cnt_app, cnt_olist_cons. lia. Qed.

(* the source uri: a frame object whose strings are frame objects too *)
Definition uri_in_frame (u : ow_uri) (F : list nat) : Prop :=
  in_frame (our_self u) F /\ forall i, ow_uri_get u i = None \/ in_frame (ow_uri_get u i) F.

Lemma wp_norm_field tx inc nrm i k F (Q : bool * ow_uri -> ow_state -> Prop) s :
  wf_uri8 nrm -> i < 8 -> ow_uri_get nrm i = None -> ow_own (fp_uri nrm ++ F) s ->
  in_frame tx F -> uri_in_frame inc F ->
  (forall v s', ow_own (fp_uri (ow_uri_set nrm i v) ++ F) s' -> Q (false, ow_uri_set nrm i v) s') ->
  (forall v s', ow_own (fp_uri (ow_uri_set nrm i v) ++ F) s' -> ow_wp (k (ow_uri_set nrm i v)) Q s') ->
  (forall s', ow_own (fp_uri nrm ++ F) s' -> ow_wp (k nrm) Q s') ->
  ow_wp (ow_norm_field tx inc nrm i k) Q s.
Proof.
  intros [Wa Wl] Hi Ei O Htx [Hself Hf] HF HS HK. unfold ow_norm_field.
  assert (Ls : live_in (our_self inc) s) by (eapply in_frame_live; eauto).
  assert (Lt : live_in tx s) by (eapply in_frame_live; eauto).
  destruct (our_self nrm) as [a|] eqn:Ea; [|congruence].
  destruct Ls as [c [Ec Lc]]. destruct Lt as [t [-> Lt]]. rewrite Ec.
  apply wp_bind. apply wp_use. { exists c. auto. }
  destruct (Hf i) as [En | Hfi].
  - rewrite En. cbn [ow_isnull]. apply HK. exact O.
  - assert (Lf : live_in (ow_uri_get inc i) s) by (eapply in_frame_live; eauto).
    destruct Lf as [f [Ef Lf]]. rewrite Ef. cbn [ow_isnull].
    destruct O as [Hok Hown].
    assert (La : 1 <= cnt a (oos_live s)). { rewrite Hown. unfold fp_uri. rewrite Ea. cnt_norm. lia. }
    assert (Hl : i < length (our_fields nrm)) by (rewrite Wl; exact Hi).
    apply wp_bind. apply wp_bstr_dup; auto. { exists f. auto. }
    intros d s1 Ok1 L1.
    apply wp_bind. apply wp_use. { exists a. split; auto. rewrite L1. lia. }
    destruct d as [d|].
    + apply wp_bind. apply wp_use. { exists t. split; auto. rewrite L1. lia. }
      apply wp_bind. apply wp_use. { exists d. split; auto. rewrite L1. cnt_norm. lia. }
      apply HS. split; auto. intros j. rewrite cnt_app, fp_uri_set_none by auto. rewrite L1, Hown. cnt_norm. lia.
    + apply wp_ret. apply HF. split; auto. intros j. rewrite cnt_app, fp_uri_set_none by auto. rewrite L1, Hown. cnt_norm. lia.
Qed.

(* the normalized uri keeps its identity; only the named field may have changed *)
Definition uri_upd (u u' : ow_uri) (keep : nat -> Prop) : Prop :=
  wf_uri8 u' /\ our_self u' = our_self u /\ forall k, keep k -> ow_uri_get u' k = ow_uri_get u k.

Lemma uri_upd_set u i v (keep : nat -> Prop) : wf_uri8 u -> (forall k, keep k -> k <> i) -> uri_upd u (ow_uri_set u i v) keep.
Proof.
  intros W H. split; [now apply wf_uri8_set | split; [reflexivity|]].
  intros k Hk. apply uri_get_set_other. intros ->. now apply (H k Hk).
Qed.
Lemma uri_upd_refl u (keep : nat -> Prop) : wf_uri8 u -> uri_upd u u keep.
Proof. intros W. split; auto. Qed.
Lemma uri_upd_trans u1 u2 u3 (k1 k2 : nat -> Prop) :
  uri_upd u1 u2 k1 -> uri_upd u2 u3 k2 -> (forall k, k2 k -> k1 k) -> uri_upd u1 u3 k2.
Proof.
  intros [W2 [S2 G2]] [W3 [S3 G3]] Hk. split; auto. split; [congruence|].
  intros k Hk2. rewrite G3 by auto. apply G2. auto.
Qed.

(* one step of the chain: the fields above i are still untouched afterwards *)
Lemma wp_norm_step tx inc nrm0 nrm i k F (Q : bool * ow_uri -> ow_state -> Prop) s :
  uri_upd nrm0 nrm (fun k => i <= k) -> (forall k, ow_uri_get nrm0 k = None) -> i < 8 ->
  ow_own (fp_uri nrm ++ F) s -> in_frame tx F -> uri_in_frame inc F ->
  (forall n s', wf_uri8 n -> our_self n = our_self nrm0 -> ow_own (fp_uri n ++ F) s' -> Q (false, n) s') ->
  (forall n s', uri_upd nrm0 n (fun k => S i <= k) -> ow_own (fp_uri n ++ F) s' -> ow_wp (k n) Q s') ->
  ow_wp (ow_norm_field tx inc nrm i k) Q s.
Proof.
  intros [W [Es G]] Fr Hi O Htx Hinc HF HS.
  assert (Ei : ow_uri_get nrm i = None). { rewrite G by lia. apply Fr. }
  apply wp_norm_field with (F := F); auto.
  - intros v s1 O1. apply HF; auto. now apply wf_uri8_set.
  - intros v s1 O1. apply HS; auto.
    eapply uri_upd_trans with (u2 := nrm) (k1 := fun k => i <= k).
    + split; auto.
    + apply uri_upd_set; auto. intros k0 Hk. cbn in Hk. lia.
    + intros k0 Hk. cbn in *. lia.
  - intros s1 O1. apply HS; auto. split; auto. split; auto. intros k0 Hk. apply G. lia.
Qed.

Lemma wp_normalize_parsed_uri tx inc nrm F (Q : bool * ow_uri -> ow_state -> Prop) s :
  uri_fresh nrm -> ow_own (fp_uri nrm ++ F) s -> in_frame tx F -> uri_in_frame inc F ->
  (forall ok n s', wf_uri8 n -> our_self n = our_self nrm -> ow_own (fp_uri n ++ F) s' -> Q (ok, n) s') ->
  ow_wp (ow_normalize_parsed_uri tx inc nrm) Q s.
Proof.
  intros [W Fr] O Htx Hinc HQ. unfold ow_normalize_parsed_uri.
  assert (HF : forall n s', wf_uri8 n -> our_self n = our_self nrm -> ow_own (fp_uri n ++ F) s' -> Q (false, n) s') by (intros; apply HQ; auto).
  unfold c_ou_scheme, c_ou_username, c_ou_password, c_ou_hostname, c_ou_port, c_ou_path, c_ou_query, c_ou_fragment.
  apply wp_norm_step with (nrm0 := nrm) (F := F); auto; try lia. { apply uri_upd_refl; auto. }
  intros n1 s1 U1 O1. apply wp_norm_step with (nrm0 := nrm) (F := F); auto; try lia.
  intros n2 s2 U2 O2. apply wp_norm_step with (nrm0 := nrm) (F := F); auto; try lia.
  intros n3 s3 U3 O3. apply wp_norm_step with (nrm0 := nrm) (F := F); auto; try lia.
  intros n4 s4 U4 O4.
  (* the port: read only *)
  destruct Hinc as [Hself Hf].
  assert (Ls : live_in (our_self inc) s4) by (eapply in_frame_live; eauto).
  assert (Lt : live_in tx s4) by (eapply in_frame_live; eauto).
  destruct U4 as [W4 [Es4 G4]].
  destruct (our_self n4) as [a4|] eqn:Ea4; [|destruct W4; congruence].
  assert (La4 : live_in (Some a4) s4).
  { exists a4. split; auto. destruct O4 as [_ O4]. rewrite O4. unfold fp_uri. rewrite Ea4. cnt_norm. lia. }
  apply wp_bind. apply wp_use; auto.
  apply wp_bind.
  { destruct (Hf 4) as [En | Hp].
    - rewrite En. cbn [ow_isnull]. apply wp_ret.
      apply wp_bind. apply wp_use; auto.
      apply wp_norm_step with (nrm0 := nrm) (F := F); auto; try lia.
      { split; auto. split; [congruence|]. intros k Hk. apply G4. lia. }
      { split; auto. }
      intros n5 s5 U5 O5. apply wp_norm_step with (nrm0 := nrm) (F := F); auto; try lia. { split; auto. }
      intros n6 s6 U6 O6. apply wp_norm_step with (nrm0 := nrm) (F := F); auto; try lia. { split; auto. }
      intros n7 s7 [W7 [Es7 _]] O7. apply wp_ret. apply HQ; auto.
    - assert (Lp : live_in (ow_uri_get inc 4) s4) by (eapply in_frame_live; eauto).
      destruct Lp as [pp [Epp Lp]]. rewrite Epp. cbn [ow_isnull].
      apply wp_bind. apply wp_use. { exists pp. auto. }
      apply wp_use; auto.
      apply wp_bind. apply wp_use; auto.
      apply wp_norm_step with (nrm0 := nrm) (F := F); auto; try lia.
      { split; auto. split; [congruence|]. intros k Hk. apply G4. lia. }
      { split; auto. }
      intros n5 s5 U5 O5. apply wp_norm_step with (nrm0 := nrm) (F := F); auto; try lia. { split; auto. }
      intros n6 s6 U6 O6. apply wp_norm_step with (nrm0 := nrm) (F := F); auto; try lia. { split; auto. }
      intros n7 s7 [W7 [Es7 _]] O7. apply wp_ret. apply HQ; auto. }
Qed.

(* ------------------------------------------------------------------ htp_tx_state_request_line *)
Ltac tx_proj := cbn [otx_self otx_conn otx_connp otx_req_strs otx_uri_raw otx_uri otx_auth_user otx_auth_pass otx_req_hdrs otx_req_hvals
                     otx_pvals otx_params otx_cookies otx_cvals otx_hook_req otx_hook_res otx_res_strs otx_res_hdrs otx_res_hvals otx_rep].

Lemma fp_tx_set_uris tx a b j :
  cnt j (fp_tx (otx_set_uris tx a b)) + cnt j (fp_urio (otx_uri_raw tx)) + cnt j (fp_urio (otx_uri tx)) =
  cnt j (fp_tx tx) + cnt j (fp_urio a) + cnt j (fp_urio b).
Proof. unfold fp_tx, otx_set_uris. tx_proj. cnt_norm. lia. Qed.

Lemma wf_tx_set_uris tx a b : wf_tx tx -> wf_urio a -> wf_urio b -> wf_tx (otx_set_uris tx a b).
Proof.
  intros [W1 [W2 [W3 W]]] Wa Wb. unfold wf_tx, otx_set_uris. tx_proj. split; auto.
Qed.

Lemma set_uris_self tx a b : otx_self (otx_set_uris tx a b) = otx_self tx.
Proof. reflexivity. Qed.
Lemma set_uris_req_strs tx a b : otx_req_strs (otx_set_uris tx a b) = otx_req_strs tx.
Proof. reflexivity. Qed.
Lemma tx_self_in_fp tx j : cnto j (otx_self tx) <= cnt j (fp_tx tx).
Proof. unfold fp_tx. cnt_norm. lia. Qed.
Lemma tx_req_strs_in_fp tx j : cnt j (olist (otx_req_strs tx)) <= cnt j (fp_tx tx).
Proof. unfold fp_tx. cnt_norm. lia. Qed.
Lemma tx_uri_raw_in_fp tx j : cnt j (fp_urio (otx_uri_raw tx)) <= cnt j (fp_tx tx).
Proof. unfold fp_tx. cnt_norm. lia. Qed.
Lemma tx_uri_in_fp tx j : cnt j (fp_urio (otx_uri tx)) <= cnt j (fp_tx tx).
Proof. unfold fp_tx. cnt_norm. lia. Qed.

Lemma wf_uri8o_urio u : wf_uri8o u -> wf_urio u.
Proof. destruct u as [u|]; cbn; auto. intros [A _]. exact A. Qed.

Lemma uri_field_live (u : ow_uri) i G s : ow_own (fp_uri u ++ G) s -> ow_uri_get u i = None \/ live_in (ow_uri_get u i) s.
Proof.
  intros O. destruct (ow_uri_get u i) as [a|] eqn:E; auto. right. rewrite <- E.
  eapply in_frame_live with (G := []) (F := fp_uri u ++ G); auto.
  apply in_frame_uri_field. congruence.
Qed.

Lemma wp_tx_state_request_line connect hsh psh tx F (Q : bool * ow_tx -> ow_state -> Prop) s :
  wf_tx tx -> uri_ok_for_parse (otx_uri_raw tx) -> (connect = true -> otx_uri_raw tx <> None) ->
  in_frame (otx_connp tx) F -> ow_own (fp_tx tx ++ F) s ->
  (forall ok tx' s', wf_tx tx' -> otx_conn tx' = otx_conn tx -> otx_connp tx' = otx_connp tx ->
                     ow_own (fp_tx tx' ++ F) s' -> Q (ok, tx') s') ->
  ow_wp (ow_tx_state_request_line connect hsh psh tx) Q s.
Proof.
  intros W Hraw Hcon Hcp O HQ. unfold ow_tx_state_request_line.
  pose proof W as [T1 [T2 [T3 _]]]. destruct (otx_self tx) as [ta|] eqn:Eta; [|congruence].
  assert (Hself : forall G, in_frame (Some ta) (fp_tx (otx_set_uris tx None (otx_uri tx)) ++ G)).
  { intros G. split; [discriminate|]. intros j. rewrite cnt_app.
    pose proof (tx_self_in_fp (otx_set_uris tx None (otx_uri tx)) j) as A. rewrite set_uris_self, Eta in A. lia. }
  apply wp_bind. apply wp_use.
  { exists ta. split; auto. destruct O as [_ O]. rewrite O. pose proof (tx_self_in_fp tx ta). rewrite Eta in *. cnt_norm. lia. }
  set (ruri := nth c_otx_request_uri (otx_req_strs tx) None).
  set (tx0 := otx_set_uris tx None (otx_uri tx)).
  set (F1 := fp_tx tx0 ++ F).
  assert (O1 : ow_own (fp_urio (otx_uri_raw tx) ++ F1) s).
  { eapply own_perm; [|exact O]. intros j. unfold F1, tx0. pose proof (fp_tx_set_uris tx None (otx_uri tx) j). cnt_norm. cbn [fp_urio cnt] in *. lia. }
  assert (Hruri : ruri = None \/ in_frame ruri F1).
  { unfold ruri. destruct (nth c_otx_request_uri (otx_req_strs tx) None) as [r|] eqn:Er; auto. right.
    split; [discriminate|]. intros j. unfold F1, tx0. rewrite cnt_app.
    pose proof (tx_req_strs_in_fp (otx_set_uris tx None (otx_uri tx)) j) as A. rewrite set_uris_req_strs in A.
    pose proof (cnto_nth_le (otx_req_strs tx) c_otx_request_uri j) as B. rewrite Er in B. lia. }
  assert (Hcp1 : in_frame (otx_connp tx) F1) by (apply in_frame_weaken; auto).
  (* what happens after the raw uri is there *)
  assert (Hrest : forall ok1 raw' s1, wf_uri8o raw' -> (ok1 = true -> raw' <> None) -> ow_own (fp_urio raw' ++ F1) s1 ->
    ow_wp (let tx1 := otx_set_uris tx raw' (otx_uri tx) in
           if negb ok1 then ow_ret (false, tx1) else
           r2 <- (match otx_uri tx with
                  | Some n => ow_ret (true, Some n)
                  | None =>
                    n <- ow_uri_alloc ;;
                    match n, raw' with
                    | None, _ => ow_ret (false, None)
                    | Some n, None => ow_use None ;;; ow_ret (false, Some n)
                    | Some n, Some raw => r <- ow_normalize_parsed_uri (Some ta) raw n ;; ow_ret (fst r, Some (snd r))
                    end
                  end) ;;
           let tx2 := otx_set_uris tx raw' (snd r2) in
           if negb (fst r2) then ow_ret (false, tx2) else
           match snd r2 with
           | None => ow_use None ;;; ow_ret (false, tx2)
           | Some n =>
             ow_use (our_self n) ;;;
             (if ow_isnull (ow_uri_get n c_ou_hostname) then ow_ret tt else ow_use (ow_uri_get n c_ou_hostname)) ;;;
             ow_use (otx_connp tx) ;;;
             ow_ret (true, tx2)
           end) Q s1).
  { intros ok1 raw' s1 Wr Hnn Or. cbv zeta.
    assert (HQ2 : forall ok nn s2, wf_urio nn -> ow_own (fp_urio nn ++ fp_urio raw' ++ fp_tx (otx_set_uris tx None None) ++ F) s2 ->
                  Q (ok, otx_set_uris tx raw' nn) s2).
    { intros ok nn s2 Wn O2. apply HQ; auto.
      - apply wf_tx_set_uris; auto. now apply wf_uri8o_urio.
      - eapply own_perm; [|exact O2]. intros j.
        pose proof (fp_tx_set_uris tx raw' nn j). pose proof (fp_tx_set_uris tx None None j). cnt_norm. cbn [fp_urio cnt] in *. lia. }
    assert (Or' : ow_own (fp_urio (otx_uri tx) ++ fp_urio raw' ++ fp_tx (otx_set_uris tx None None) ++ F) s1).
    { eapply own_perm; [|exact Or]. intros j. unfold F1, tx0.
      pose proof (fp_tx_set_uris tx None (otx_uri tx) j). pose proof (fp_tx_set_uris tx None None j). cnt_norm. cbn [fp_urio cnt] in *. lia. }
    destruct ok1; cbn [negb].
    2:{ apply wp_ret. apply HQ2; auto. }
    (* the tail: the normalized uri n is there *)
    assert (Htail : forall n s2, wf_urio (Some n) -> ow_own (fp_uri n ++ fp_urio raw' ++ fp_tx (otx_set_uris tx None None) ++ F) s2 ->
              ow_wp (ow_use (our_self n) ;;;
                     (if ow_isnull (ow_uri_get n c_ou_hostname) then ow_ret tt else ow_use (ow_uri_get n c_ou_hostname)) ;;;
                     ow_use (otx_connp tx) ;;; ow_ret (true, otx_set_uris tx raw' (Some n))) Q s2).
    { intros n s2 Wn O2. cbn [wf_urio] in Wn.
      apply wp_bind. apply wp_use. { eapply in_frame_live with (G := []); [|exact O2]. apply in_frame_uri_self; auto. }
      apply wp_bind.
      { destruct (uri_field_live n c_ou_hostname _ _ O2) as [-> | L]; cbn [ow_isnull].
        - apply wp_ret. apply wp_bind. apply wp_use.
          { eapply in_frame_live; [|exact O2]. do 2 apply in_frame_weaken. exact Hcp. }
          apply wp_ret. apply HQ2; auto.
        - destruct L as [hh [-> Lh]]. cbn [ow_isnull]. apply wp_use. { exists hh. auto. }
          apply wp_bind. apply wp_use.
          { eapply in_frame_live; [|exact O2]. do 2 apply in_frame_weaken. exact Hcp. }
          apply wp_ret. apply HQ2; auto. } }
    destruct (otx_uri tx) as [n|] eqn:En.
    - apply wp_bind. apply wp_ret. cbn [fst snd negb]. apply Htail; auto.
    - cbn [fp_urio app] in Or'. apply wp_bind. apply wp_bind.
      apply wp_uri_alloc_fresh with (F := fp_urio raw' ++ fp_tx (otx_set_uris tx None None) ++ F); auto.
      + intros s2 O2. apply wp_ret. cbn [fst snd negb]. apply wp_ret. apply HQ2; cbn; auto.
      + intros n s2 Fr O2. destruct raw' as [raw|]; [|exfalso; now apply Hnn].
        apply wp_bind. cbn [fp_urio] in O2.
        apply wp_normalize_parsed_uri with (F := fp_uri raw ++ fp_tx (otx_set_uris tx None None) ++ F); auto.
        * apply in_frame_weaken. split; [discriminate|]. intros j. rewrite cnt_app.
          pose proof (tx_self_in_fp (otx_set_uris tx None None) j) as A. rewrite set_uris_self, Eta in A. lia.
        * split.
          -- apply in_frame_uri_self. apply Wr.
          -- intros i. destruct (ow_uri_get raw i) eqn:E; auto. right. rewrite <- E. apply in_frame_uri_field. congruence.
        * intros ok n' s3 Wn' Es O3. apply wp_ret. cbn [fst snd].
          destruct ok; cbn [negb].
          -- apply Htail; auto. apply Wn'.
          -- apply wp_ret. apply HQ2; auto. apply Wn'. }
  destruct connect.
  - destruct (otx_uri_raw tx) as [u|] eqn:Eu; [|exfalso; now apply Hcon].
    apply wp_bind. apply wp_bind. cbn [fp_urio uri_ok_for_parse] in *. destruct Hraw as [Wu Fu].
    apply wp_parse_uri_hostport with (F := F1); auto. { apply Hself. }
    intros ok u' s1 Wu' _ O1' _. apply wp_ret. cbn [fst snd]. apply Hrest; auto. intros _. discriminate.
  - apply wp_bind. apply wp_parse_uri with (F := F1); auto.
    intros ok u' s1 Wu' Hn _ O1'. cbn [fst snd]. apply Hrest; auto.
    intros -> E. destruct (Hn E). discriminate.
Qed.

(* ------------------------------------------------------------------ theorems *)
Theorem ow_safe_parse_uri sh input u F s :
  uri_ok_for_parse u -> ow_own (fp_urio u ++ F) s -> (input = None \/ in_frame input F) ->
  ow_nofault (ow_parse_uri sh input u) s.
Proof. intros. eapply wp_nofault. apply wp_parse_uri with (F := F) (Q := fun _ _ => True); auto. Qed.

(* whatever the outcome, *uri is a well-formed uri that owns its strings: htp_uri_free releases all of it *)
Theorem ow_then_destroy_clean_parse_uri sh input u F s :
  uri_ok_for_parse u -> ow_own (fp_urio u ++ F) s -> (input = None \/ in_frame input F) ->
  ow_clean_to F (r <- ow_parse_uri sh input u ;; ow_uri_free (snd r)) s.
Proof.
  intros Hu O Hin. apply wp_bind. apply wp_parse_uri with (F := F); auto.
  intros ok u' s1 W' _ _ O1. cbn [snd]. apply wp_uri_free with (F := F); auto. now apply wf_uri8o_urio.
Qed.

Theorem ow_safe_normalize_parsed_uri tx inc nrm F s :
  uri_fresh nrm -> ow_own (fp_uri nrm ++ F) s -> in_frame tx F -> uri_in_frame inc F ->
  ow_nofault (ow_normalize_parsed_uri tx inc nrm) s.
Proof. intros. eapply wp_nofault. apply wp_normalize_parsed_uri with (F := F) (Q := fun _ _ => True); auto. Qed.

Theorem ow_then_destroy_clean_normalize_parsed_uri tx inc nrm F s :
  uri_fresh nrm -> ow_own (fp_uri nrm ++ F) s -> in_frame tx F -> uri_in_frame inc F ->
  ow_clean_to F (r <- ow_normalize_parsed_uri tx inc nrm ;; ow_uri_free (Some (snd r))) s.
Proof.
  intros Fr O Htx Hinc. apply wp_bind. apply wp_normalize_parsed_uri with (F := F); auto.
  intros ok n s1 Wn _ O1. cbn [snd]. apply wp_uri_free with (F := F); auto. apply Wn.
Qed.

(* parse, allocate the second uri, normalize, release both: from any heap back to it *)
Theorem ow_parse_normalize_free_clean sh input tx F s :
  ow_own F s -> in_frame input F -> in_frame tx F ->
  ow_clean_to F (r <- ow_parse_uri sh input None ;;
                 match snd r with
                 | None => ow_ret tt
                 | Some raw =>
                   (if fst r then
                      n <- ow_uri_alloc ;;
                      match n with
                      | None => ow_ret tt
                      | Some n => r2 <- ow_normalize_parsed_uri tx raw n ;; ow_uri_free (Some (snd r2))
                      end
                    else ow_ret tt) ;;;
                   ow_uri_free (Some raw)
                 end) s.
Proof.
  intros O Hin Htx. apply wp_bind. apply wp_parse_uri with (F := F); cbn [fp_urio uri_ok_for_parse app]; auto.
  intros ok u' s1 W' _ _ O1. cbn [fst snd]. destruct u' as [raw|]; [|apply wp_ret; exact O1].
  cbn [fp_urio wf_uri8o] in *.
  assert (Hfree : forall s2, ow_own (fp_uri raw ++ F) s2 -> ow_wp (ow_uri_free (Some raw)) (fun _ s' => ow_own F s') s2).
  { intros s2 O2. apply wp_uri_free with (F := F); auto. apply W'. }
  apply wp_bind. destruct ok; [|apply wp_ret; now apply Hfree].
  apply wp_bind. apply wp_uri_alloc_fresh with (F := fp_uri raw ++ F); auto.
  intros n s2 Fr O2. cbv beta iota. apply wp_bind. apply wp_normalize_parsed_uri with (F := fp_uri raw ++ F); auto.
  - now apply in_frame_weaken.
  - split. { apply in_frame_uri_self. apply W'. }
    intros i. destruct (ow_uri_get raw i) eqn:E; auto. right. rewrite <- E. apply in_frame_uri_field. congruence.
  - intros ok2 n' s3 Wn' _ O3. cbn [snd]. apply wp_uri_free with (F := fp_uri raw ++ F); auto. apply Wn'.
Qed.

Theorem ow_safe_tx_state_request_line connect hsh psh p c tx F s :
  ow_world p c -> wf_tx tx -> otx_connp tx = ocp_self p ->
  uri_ok_for_parse (otx_uri_raw tx) -> (connect = true -> otx_uri_raw tx <> None) ->
  ow_own (fp_connp p ++ fp_tx tx ++ F) s ->
  ow_nofault (ow_tx_state_request_line connect hsh psh tx) s.
Proof.
  intros Wd Wt Ep Hraw Hcon O. destruct (world_split _ _ Wd) as [a [R [Ea [Wc [Ha [E1 [E2 Hwf]]]]]]].
  eapply wp_nofault. apply wp_tx_state_request_line with (F := fp_connp p ++ F) (Q := fun _ _ => True); auto.
  - rewrite Ep, Ea. split; [discriminate|]. intros j. specialize (Ha j). specialize (E1 j). cnt_norm. lia.
  - eapply own_perm; [|exact O]. intros j. cnt_norm. lia.
Qed.

Theorem ow_then_destroy_clean_tx_state_request_line connect hsh psh p c tx F s :
  ow_world p c -> wf_tx tx -> otx_conn tx = ocn_self c -> otx_connp tx = ocp_self p -> ocn_txl c <> None ->
  uri_ok_for_parse (otx_uri_raw tx) -> (connect = true -> otx_uri_raw tx <> None) ->
  ow_own (fp_connp p ++ fp_tx tx ++ F) s ->
  ow_clean_to F (r <- ow_tx_state_request_line connect hsh psh tx ;; ow_connp_destroy_all (Some (ow_put_tx p c (snd r)))) s.
Proof.
  intros Wd Wt Ec Ep Hl Hraw Hcon O. destruct (world_split _ _ Wd) as [a [R [Ea [Wc [Ha [E1 [E2 Hwf]]]]]]].
  apply wp_bind. apply wp_tx_state_request_line with (F := fp_connp p ++ F); auto.
  - rewrite Ep, Ea. split; [discriminate|]. intros j. specialize (Ha j). specialize (E1 j). cnt_norm. lia.
  - eapply own_perm; [|exact O]. intros j. cnt_norm. lia.
  - intros ok tx' s1 Wt' Ec' Ep' O2. cbn [snd]. unfold ow_put_tx. apply wp_connp_destroy_all with (F := F).
    + apply Hwf. apply wf_conn_put; auto; congruence.
    + eapply own_perm; [|exact O2]. intros j. rewrite (cnt_app j (fp_connp _)), E2, fp_conn_put. specialize (E1 j). cnt_norm. lia.
    + auto.
Qed.
