(* Termination of the for(;;) of htp_connp_req_data (MReq.rq_loop): every pass that goes round again strictly
   decreases PReq.rq_phi, hence rq_fuel is never exhausted: more fuel does not change the outcome. *)
Require Import Htp.Model.MConnTypes Htp.Model.MTxCommon Htp.Model.MBstr Htp.Model.MReqLine Htp.Model.MReqUri Htp.Model.MTxReq Htp.Model.MReq.
Require Import Htp.Proof.PReq.
Require Import Lia.
Local Open Scope Z_scope.

(* ---- the frame: what the byte-level helpers never touch (state, stream status, in_tx) ---- *)
Definition rt_fr (c c' : connp) : Prop :=
  c_in_state c' = c_in_state c /\ c_in_status c' = c_in_status c /\ c_in_tx c' = c_in_tx c.
Lemma rt_fr_refl c : rt_fr c c.
Proof. unfold rt_fr. tauto. Qed.
Lemma rt_fr_trans a b c : rt_fr a b -> rt_fr b c -> rt_fr a c.
Proof. unfold rt_fr. intros (A1 & A2 & A3) (B1 & B2 & B3). repeat split; congruence. Qed.

Lemma rt_fr_fault c : rt_fr c (rq_fault c).
Proof. unfold rt_fr. repeat split. Qed.
Lemma rt_fr_set_in f c : rt_fr c (rq_set_in f c).
Proof. unfold rt_fr. repeat split. Qed.
Lemma rt_fr_read_byte c : rt_fr c (fst (rq_read_byte c)).
Proof. unfold rq_read_byte. destruct (k_data (c_in c)); [destruct (nth_error b _)|]; cbn [fst]; auto using rt_fr_refl, rt_fr_fault. Qed.
Lemma rt_fr_slice c from to : rt_fr c (fst (rq_slice c from to)).
Proof.
  unfold rq_slice. destruct (k_data (c_in c)); [destruct (to <=? length b)%nat|destruct (to <=? from)%nat]; cbn [fst];
    auto using rt_fr_refl, rt_fr_fault.
Qed.
Lemma rt_fr_peek_next c : rt_fr c (rq_peek_next c).
Proof.
  unfold rq_peek_next. destruct (rq_at_end c); [apply rt_fr_set_in|].
  pose proof (rt_fr_read_byte c) as H. destruct (rq_read_byte c) as [c1 b]. cbn [fst] in H.
  eapply rt_fr_trans; [exact H|apply rt_fr_set_in].
Qed.
Lemma rt_fr_copy_byte c c' : rq_copy_byte c = Some c' -> rt_fr c c'.
Proof.
  unfold rq_copy_byte. destruct (rq_at_end c); [discriminate|].
  pose proof (rt_fr_read_byte c) as H. destruct (rq_read_byte c) as [c1 b]. cbn [fst] in H.
  intros E. injection E as <-. eapply rt_fr_trans; [exact H|apply rt_fr_set_in].
Qed.
Lemma rt_fr_next_byte c c' : rq_next_byte c = Some c' -> rt_fr c c'.
Proof.
  unfold rq_next_byte. destruct (rq_at_end c); [discriminate|].
  pose proof (rt_fr_read_byte c) as H. destruct (rq_read_byte c) as [c1 b]. cbn [fst] in H.
  intros E. injection E as <-. eapply rt_fr_trans; [exact H|apply rt_fr_set_in].
Qed.
Lemma rt_fr_buffer g c : rt_fr c (snd (req_buffer g c)).
Proof.
  unfold req_buffer. destruct (k_data (c_in c)); [|apply rt_fr_refl].
  set (c1 := if (k_read (c_in c) <? k_consume (c_in c))%nat then rq_fault c else c).
  assert (H1 : rt_fr c c1) by (subst c1; destruct (_ <? _)%nat; auto using rt_fr_refl, rt_fr_fault).
  destruct (_ =? 0)%nat; [exact H1|].
  set (c2 := match c_in_tx c1 with Some _ => c1 | None => rq_fault c1 end).
  assert (H2 : rt_fr c c2) by (subst c2; destruct (c_in_tx c1); [exact H1|eapply rt_fr_trans; [exact H1|apply rt_fr_fault]]).
  destruct (g_field_limit_hard g <? _)%nat; [exact H2|].
  pose proof (rt_fr_slice c2 (k_consume (c_in c2)) (k_read (c_in c2))) as H3.
  destruct (rq_slice c2 (k_consume (c_in c2)) (k_read (c_in c2))) as [c3 piece]. cbn [fst snd] in *.
  eapply rt_fr_trans; [exact H2|]. eapply rt_fr_trans; [exact H3|apply rt_fr_set_in].
Qed.
Lemma rt_fr_consolidate g c : rt_fr c (snd (fst (req_consolidate_data g c))).
Proof.
  unfold req_consolidate_data. destruct (k_buf (c_in c)).
  - pose proof (rt_fr_buffer g c) as H. destruct (req_buffer g c) as [rc c1]. destruct rc; exact H.
  - pose proof (rt_fr_slice c (k_consume (c_in c)) (k_read (c_in c))) as H.
    destruct (rq_slice c (k_consume (c_in c)) (k_read (c_in c))). exact H.
Qed.
Lemma rt_fr_clear_buffer c : rt_fr c (req_clear_buffer c).
Proof. apply rt_fr_set_in. Qed.

Lemma tx_put_in_tx c i t : c_in_tx (tx_put c i t) = c_in_tx c.
Proof. unfold tx_put. destruct (i <? c_txs_shifted c)%nat; [reflexivity|]. destruct (_ <? _)%nat; reflexivity. Qed.
Lemma tx_upd_in_tx c i f : c_in_tx (tx_upd c i f) = c_in_tx c.
Proof. unfold tx_upd. destruct (tx_slot c i); [apply tx_put_in_tx|reflexivity]. Qed.
Lemma rt_fr_tx_upd f c : rt_fr c (rq_tx_upd f c).
Proof.
  pose proof (rq_tx_upd_core f c) as H. apply rq_core_of_st in H. destruct H as [Hc Hs].
  unfold rt_fr. split; [exact Hs|]. split.
  - unfold rq_core in Hc. injection Hc as _ _ _ _ _ _ _ H _ _. exact H.
  - unfold rq_tx_upd. destruct (c_in_tx c) eqn:E; [rewrite tx_upd_in_tx; exact E|exact E].
Qed.
Lemma rt_fr_process_header l c : rt_fr c (rq_process_header l c).
Proof. apply rt_fr_tx_upd. Qed.
Lemma rt_fr_flush_header c : rt_fr c (rq_flush_header c).
Proof.
  unfold rq_flush_header. destruct (k_header (c_in c)); [|apply rt_fr_refl].
  eapply rt_fr_trans; [apply rt_fr_process_header|apply rt_fr_set_in].
Qed.

(* status and state come with the core *)
Lemma rt_core_status a b : rq_core a = rq_core b -> c_in_status a = c_in_status b.
Proof. unfold rq_core. intros H. injection H as _ _ _ _ _ _ _ H _ _. exact H. Qed.
Lemma rt_core_buf a b : rq_core a = rq_core b -> k_buf (c_in a) = k_buf (c_in b).
Proof. unfold rq_core. intros H. injection H as _ _ _ _ _ H _ _ _ _. exact H. Qed.
Lemma rt_core_rd a b : rq_core a = rq_core b -> rq_rd a = rq_rd b /\ rq_len a = rq_len b /\ rq_cs a = rq_cs b.
Proof. unfold rq_core, rq_rd, rq_len, rq_cs. intros H. injection H as _ H1 H2 H3 _ _ _ _ _ _. tauto. Qed.
Lemma rt_core_next a b : rq_core a = rq_core b -> k_next_byte (c_in a) = k_next_byte (c_in b).
Proof. unfold rq_core. intros H. injection H as _ _ _ _ H _ _ _ _ _. exact H. Qed.

(* ---- the transaction layer: which state an OK result leaves ---- *)
Lemma rt_request_start_ok cb i c c' : tx_state_request_start cb i c = (ST_OK, c') -> c_in_state c' = REQ_LINE.
Proof.
  unfold tx_state_request_start. destruct (run_hook cb H_REQUEST_START i c) as [rc c1].
  destruct rc; try discriminate. intros H. injection H as <-.
  change (c_in_tx (c1 <| c_in_state := REQ_LINE |>)) with (c_in_tx c1). destruct (c_in_tx c1) as [j|]; [|reflexivity].
  pose proof (tx_upd_core (c1 <| c_in_state := REQ_LINE |>) j (fun t => t <| t_request_progress := c_HTP_REQUEST_LINE |>)) as H.
  apply rq_core_of_st in H. destruct H as [_ H]. exact H.
Qed.
Lemma rt_request_line_ok cb g i c c' : tx_state_request_line cb g i c = (ST_OK, c') -> c_in_state c' = REQ_PROTOCOL.
Proof.
  unfold tx_state_request_line.
  match goal with |- context [rq_uri_pipeline_opt ?a ?b ?u ?t] => destruct (rq_uri_pipeline_opt a b u t) as [t'|] end; [|discriminate].
  destruct (run_hook cb H_REQUEST_URI_NORMALIZE i (tx_put c i t')) as [rc c1]. destruct rc; try discriminate.
  destruct (run_hook cb H_REQUEST_LINE i c1) as [rc2 c2]. destruct rc2; try discriminate.
  intros H. injection H as <-. reflexivity.
Qed.
Lemma rt_request_headers_ok cb i c c' :
  tx_state_request_headers cb i c = (ST_OK, c') -> c_in_state c' = REQ_FINALIZE \/ c_in_state c' = REQ_CONNECT_CHECK.
Proof.
  unfold tx_state_request_headers. destruct (c_HTP_REQUEST_HEADERS <? t_request_progress (tx_get c i)).
  - destruct (run_hook cb H_REQUEST_TRAILER i c) as [rc c1]. destruct rc; try discriminate.
    destruct (req_receiver_finalize_clear cb c1) as [rc2 c2]. destruct rc2; try discriminate.
    intros H. injection H as <-. left. reflexivity.
  - destruct (c_HTP_REQUEST_LINE <=? t_request_progress (tx_get c i)); [|discriminate].
    match goal with |- context [tx_process_request_headers cb i ?cx] => destruct (tx_process_request_headers cb i cx) as [rc c2] end.
    destruct rc; try discriminate. intros H. injection H as <-. right. reflexivity.
Qed.
Lemma rt_request_complete_ok cb g i c c' : tx_state_request_complete cb g i c = (ST_OK, c') -> c_in_tx c' = None.
Proof.
  unfold tx_state_request_complete. destruct (tx_slot c i) as [t0|]; [|discriminate].
  destruct (if negb (t_request_progress t0 =? c_HTP_REQUEST_COMPLETE) then tx_state_request_complete_partial cb i c else (ST_OK, c)) as [rc c1].
  destruct rc; try discriminate.
  match goal with |- context [tx_finalize cb g i ?cx] => destruct (tx_finalize cb g i cx) as [rc3 c3] end.
  intros H. injection H as <-. reflexivity.
Qed.

Section Dec.
Variable cb : cb_oracle.
Variable g : cfg.

(* the four tx-state functions applied to in_tx: core kept; OK => the state named; (complete) OK => in_tx NULL *)
Lemma rt_with_tx_none (f : nat -> connp -> st * connp) c c' : c_in_tx c = None -> rq_with_tx f c = (ST_OK, c') -> False.
Proof. unfold rq_with_tx. intros ->. discriminate. Qed.

Lemma rt_complete c c' : rq_request_complete cb g c = (ST_OK, c') ->
  rq_core c' = rq_core c /\ c_in_tx c <> None /\ c_in_tx c' = None /\
  (c_in_state c' = c_in_state c \/ c_in_state c' = REQ_IDLE \/ c_in_state c' = REQ_IGNORE_DATA_AFTER_HTTP_0_9).
Proof.
  unfold rq_request_complete, rq_with_tx. destruct (c_in_tx c) as [i|]; [|discriminate]. intros H.
  pose proof (tx_state_request_complete_spec cb g i c) as S. cbv zeta in S. rewrite H in S. cbn [fst snd] in S.
  destruct S as (S1 & _ & S3). split; [exact S1|]. split; [discriminate|]. split; [exact (rt_request_complete_ok _ _ _ _ _ H)|exact S3].
Qed.
Lemma rt_line c c' : rq_with_tx (tx_state_request_line cb g) c = (ST_OK, c') -> rq_core c' = rq_core c /\ c_in_state c' = REQ_PROTOCOL.
Proof.
  unfold rq_with_tx. destruct (c_in_tx c) as [i|]; [|discriminate]. intros H.
  pose proof (tx_state_request_line_spec cb g i c) as S. cbv zeta in S. rewrite H in S. cbn [fst snd] in S.
  split; [exact (proj1 S)|exact (rt_request_line_ok _ _ _ _ _ H)].
Qed.
Lemma rt_headers c c' : rq_with_tx (tx_state_request_headers cb) c = (ST_OK, c') ->
  rq_core c' = rq_core c /\ (c_in_state c' = REQ_FINALIZE \/ c_in_state c' = REQ_CONNECT_CHECK).
Proof.
  unfold rq_with_tx. destruct (c_in_tx c) as [i|]; [|discriminate]. intros H.
  pose proof (tx_state_request_headers_spec cb i c) as S. cbv zeta in S. rewrite H in S. cbn [fst snd] in S.
  split; [exact (proj1 S)|exact (rt_request_headers_ok _ _ _ _ H)].
Qed.
Lemma rt_body d n c rc c' : rq_with_tx (fun i => tx_req_process_body_data_ex cb i d n) c = (rc, c') ->
  rq_core_st c' = rq_core_st c /\ (rc = ST_OK -> c_in_tx c <> None).
Proof.
  unfold rq_with_tx. destruct (c_in_tx c) as [i|].
  - intros H. pose proof (tx_req_process_body_data_ex_core cb i d n c) as Q. rewrite H in Q. split; [exact Q|discriminate].
  - intros H. injection H as <- <-. split; [reflexivity|discriminate].
Qed.

(* ---- what an OK pass of a state function achieves ---- *)
(* the stream became a tunnel (the loop returns), or the status is kept and either the read offset advanced or
   the parser moved down the ladder rq_rank *)
Definition rt_dec (c c' : connp) : Prop :=
  c_in_status c' = c_HTP_STREAM_TUNNEL \/
  (c_in_status c' = c_in_status c /\ ((rq_rd c < rq_rd c')%nat \/ (rq_rank c' < rq_rank c)%nat)).

Ltac rt_rank :=
  unfold rq_rank;
  repeat match goal with H : c_in_state _ = _ |- _ => rewrite H end;
  repeat match goal with H : c_in_tx _ = _ |- _ => rewrite H end;
  repeat match goal with H : k_buf _ = _ |- _ => rewrite H end;
  repeat match goal with H : (c_in_status _ =? _) = _ |- _ => rewrite H end;
  repeat first [ match goal with |- context [if ?b then _ else _] => destruct b end
               | match goal with |- context [match ?x with _ => _ end] => destruct x end ];
  lia.

Lemma rt_rank_le c : (rq_rank c <= 15)%nat.
Proof. rt_rank. Qed.

Lemma rt_tx_create c :
  c_in (snd (connp_tx_create g c)) = c_in c /\ c_in_status (snd (connp_tx_create g c)) = c_in_status c /\
  c_in_state (snd (connp_tx_create g c)) = c_in_state c.
Proof.
  unfold connp_tx_create.
  set (c1 := if (c_out_next_tx_index c <? length (c_txs c))%nat then _ else c).
  assert (H1 : c_in c1 = c_in c /\ c_in_status c1 = c_in_status c /\ c_in_state c1 = c_in_state c)
    by (subst c1; destruct (_ <? _)%nat; repeat split; reflexivity).
  destruct H1 as (H1 & H2 & H3).
  destruct ((0 <? g_max_tx g) && (g_max_tx g <? length (c_txs c)))%nat; cbn; repeat split; assumption.
Qed.

(* htp_connp_REQ_IDLE *)
Lemma rt_IDLE c c' : rq_closed_empty c -> c_in_state c = REQ_IDLE -> REQ_IDLE_fn cb g c = (ST_OK, c') -> rt_dec c c'.
Proof.
  intros Hce Hs H. unfold REQ_IDLE_fn in H. destruct (rq_at_end c) eqn:E; [discriminate|].
  unfold rq_at_end in E. apply Nat.leb_gt in E.
  assert (Hncl : (c_in_status c =? c_HTP_STREAM_CLOSED) = false).
  { apply Z.eqb_neq. intros Hx. specialize (Hce Hx). unfold rq_len in Hce. lia. }
  pose proof (rt_tx_create c) as (T1 & T2 & T3).
  destruct (connp_tx_create g c) as [[i|] c1]; cbn [snd] in *; [|discriminate].
  pose proof (tx_state_request_start_spec cb i c1) as S. cbv zeta in S. rewrite H in S. cbn [fst snd] in S.
  destruct S as (Sc & _ & _). pose proof (rt_request_start_ok _ _ _ _ H) as Hs'.
  pose proof (rt_core_status _ _ Sc) as St. rewrite T2 in St.
  right. split; [exact St|right]. rewrite <- St in Hncl. rt_rank.
Qed.

(* htp_connp_REQ_LINE_complete *)
Lemma rt_consolidate_empty c : k_buf (c_in c) = None -> (rq_rd c <= rq_cs c)%nat -> snd (req_consolidate_data g c) = [].
Proof.
  intros Hb Hle. unfold req_consolidate_data. rewrite Hb. unfold rq_slice, rq_rd, rq_cs in *.
  replace (k_read (c_in c) - k_consume (c_in c))%nat with 0%nat by lia.
  destruct (k_data (c_in c)); [destruct (_ <=? _)%nat|destruct (_ <=? _)%nat]; reflexivity.
Qed.
Lemma rt_LINE_complete c c' : REQ_LINE_complete cb g c = (ST_OK, c') ->
  c_in_status c' = c_in_status c /\ k_buf (c_in c') = None /\ (c_in_state c' = c_in_state c \/ c_in_state c' = REQ_PROTOCOL) /\
  snd (req_consolidate_data g c) <> [].
Proof.
  intros H. unfold REQ_LINE_complete in H.
  pose proof (rt_fr_consolidate g c) as F. destruct (req_consolidate_data g c) as [[rc1 c1] data]. cbn [fst snd] in *.
  destruct F as (F1 & F2 & F3).
  destruct rc1; try discriminate. destruct data as [|x data]; [discriminate|].
  destruct (htp_is_line_ignorable (g_personality g) (x :: data)).
  - injection H as <-.
    match goal with |- context [rq_tx_upd ?f c1] => destruct (rt_fr_tx_upd f c1) as (U1 & U2 & U3) end.
    cbn. repeat split; try congruence. left. cbn in U1. congruence.
  - match type of H with context [rq_tx_upd ?f c1] => destruct (rt_fr_tx_upd f c1) as (U1 & U2 & U3); remember (rq_tx_upd f c1) as c2 eqn:Ec2; clear Ec2 end.
    destruct (rq_with_tx (tx_state_request_line cb g) c2) as [rc3 c3] eqn:E3. destruct rc3; try discriminate.
    injection H as <-. destruct (rt_line _ _ E3) as [L1 L2]. apply rt_core_status in L1.
    cbn. repeat split; try congruence. right. exact L2.
Qed.

(* htp_connp_REQ_LINE: the status is kept; and either the closed-stream branch was taken at once, or a byte was read *)
Lemma rt_LINE_loop_status n : forall c c', REQ_LINE_loop cb g n c = (ST_OK, c') -> c_in_status c' = c_in_status c.
Proof.
  induction n as [|n IH]; intros c c' H; cbn [REQ_LINE_loop] in H.
  all: destruct (rt_fr_peek_next c) as (_ & P & _); remember (rq_peek_next c) as c0 eqn:Ec0; clear Ec0.
  all: destruct ((c_in_status c0 =? c_HTP_STREAM_CLOSED) && match k_next_byte (c_in c0) with None => true | Some _ => false end);
       [destruct (rt_LINE_complete _ _ H) as (L & _); congruence|].
  all: destruct (rq_copy_byte c0) as [c2|] eqn:E; [|discriminate]; destruct (rt_fr_copy_byte _ _ E) as (_ & C & _).
  all: destruct (rq_next_is c2 LF); [destruct (rt_LINE_complete _ _ H) as (L & _); congruence|].
  - discriminate.
  - rewrite (IH _ _ H). congruence.
Qed.
Lemma rt_LINE_loop_adv n c c' :
  rq_pre c -> rq_readable c -> (rq_len c - rq_rd c <= n)%nat -> REQ_LINE_loop cb g n c = (ST_OK, c') ->
  (rq_rd c < rq_rd c')%nat \/
  (c_in_status c = c_HTP_STREAM_CLOSED /\ (rq_len c <= rq_rd c)%nat /\ REQ_LINE_complete cb g (rq_peek_next c) = (ST_OK, c')).
Proof.
  intros Hp Hread Hn H. destruct n as [|n]; cbn [REQ_LINE_loop] in H.
  all: pose proof (rq_peek_next_pos c) as (P1 & P2 & P3 & P4); pose proof (rq_peek_next_moved c) as M1;
       pose proof (rq_pre_moved _ _ M1 Hp) as Hp1; destruct (rt_fr_peek_next c) as (_ & P5 & _);
       pose proof (rq_moved_facts _ _ M1 Hp) as (F1 & F2 & F3 & _).
  all: destruct ((c_in_status (rq_peek_next c) =? c_HTP_STREAM_CLOSED) &&
                 match k_next_byte (c_in (rq_peek_next c)) with None => true | Some _ => false end) eqn:Ecl.
  1,3: right; apply andb_prop in Ecl; destruct Ecl as [Ecl1 Ecl2]; apply Z.eqb_eq in Ecl1;
       destruct (k_next_byte (c_in (rq_peek_next c))) eqn:En; [discriminate|];
       split; [congruence|split; [apply P4; reflexivity|exact H]].
  all: left; destruct (rq_copy_byte (rq_peek_next c)) as [c2|] eqn:Ec; [|discriminate].
  all: destruct (rq_pre_copy _ _ Hp1 Ec) as [Hp2 Hlt];
       pose proof (rq_copy_byte_some _ _ Ec) as (C1 & C2 & C3 & C4 & C5 & C6 & C7 & C8).
  all: destruct (rq_next_is c2 LF).
  1,3: destruct (REQ_LINE_complete_step cb g _ _ _ Hp2 H) as [S|(S & _)]; [|discriminate];
       destruct S as (_ & _ & S3 & _); lia.
  - discriminate.
  - assert (Hr2 : rq_readable c2) by (unfold rq_readable in *; rewrite C8, C1, F3, F1; exact Hread).
    destruct (REQ_LINE_loop_step cb g n c2 ST_OK c' Hp2 Hr2 ltac:(lia) H) as (_ & _ & S3 & _). lia.
Qed.
Lemma rt_LINE c c' : rq_pre c -> rq_readable c -> rq_closed_empty c -> c_in_state c = REQ_LINE ->
  REQ_LINE_fn cb g c = (ST_OK, c') -> rt_dec c c'.
Proof.
  intros Hp Hread Hce Hs H. unfold REQ_LINE_fn in H. right. split; [exact (rt_LINE_loop_status _ _ _ H)|].
  destruct (rt_LINE_loop_adv _ _ _ Hp Hread (Nat.le_refl _) H) as [A|(A1 & A2 & A3)]; [left; exact A|right].
  pose proof (rq_peek_next_pos c) as (P1 & P2 & P3 & P4). destruct (rt_fr_peek_next c) as (_ & P5 & _).
  destruct (rt_LINE_complete _ _ A3) as (L1 & L2 & L3 & L4).
  assert (Hcl : (c_in_status c =? c_HTP_STREAM_CLOSED) = true) by (apply Z.eqb_eq; exact A1).
  assert (Hcl' : (c_in_status c' =? c_HTP_STREAM_CLOSED) = true) by (apply Z.eqb_eq; congruence).
  destruct (k_buf (c_in c)) as [b|] eqn:Eb.
  - destruct L3 as [L3|L3]; [rewrite P3, Hs in L3|]; rt_rank.
  - exfalso. apply L4. apply rt_consolidate_empty.
    + unfold rq_pos in P1. pose proof (rq_peek_next_moved c) as M. 
      pose proof (rq_peek_next_pos c) as Q. unfold rq_peek_next in *. destruct (rq_at_end c); [cbn; exact Eb|].
      pose proof (rq_read_byte_pos c) as R. destruct (rq_read_byte c) as [c1 bb]. cbn [fst] in R.
      apply rq_core_of_st in R. destruct R as [R _]. apply rt_core_buf in R. cbn. congruence.
    + specialize (Hce A1). unfold rq_pos, rq_rd, rq_cs, rq_len in *. injection P1 as Q1 Q2 _ _ _.
      destruct Hp as [(Hb & _) _]. unfold rq_len, rq_rd in *. lia.
Qed.

(* htp_connp_REQ_PROTOCOL *)
Lemma rt_PROTOCOL c c' : c_in_state c = REQ_PROTOCOL -> REQ_PROTOCOL_fn c = (ST_OK, c') -> rt_dec c c'.
Proof.
  intros Hs H. unfold REQ_PROTOCOL_fn in H. right.
  assert (G : forall c1, c_in_status c1 = c_in_status c ->
              c_in_status (rq_to_headers c1) = c_in_status c /\ c_in_state (rq_to_headers c1) = REQ_HEADERS).
  { intros c1 H1. unfold rq_to_headers.
    match goal with |- context [rq_tx_upd ?f ?cx] => destruct (rt_fr_tx_upd f cx) as (U1 & U2 & U3) end.
    split; [rewrite U2; exact H1|rewrite U1; reflexivity]. }
  assert (R : forall c1, c_in_status c1 = c_in_status c -> c' = rq_to_headers c1 ->
              c_in_status c' = c_in_status c /\ ((rq_rd c < rq_rd c')%nat \/ (rq_rank c' < rq_rank c)%nat)).
  { intros c1 H1 ->. destruct (G c1 H1) as [G1 G2]. split; [exact G1|right; rt_rank]. }
  destruct (negb (t_is_protocol_0_9 (rq_tx c))).
  - injection H as H. apply (R c); [reflexivity|congruence].
  - destruct (_ <? _)%nat.
    + injection H as H. match type of H with rq_to_headers ?cx = _ => apply (R cx) end; [|congruence].
      match goal with |- context [rq_tx_upd ?f ?cx] => destruct (rt_fr_tx_upd f cx) as (U1 & U2 & U3) end. exact U2.
    + pose proof (rt_fr_slice c (k_read (c_in c)) (k_len (c_in c))) as Q.
      destruct (rq_slice c (k_read (c_in c)) (k_len (c_in c))) as [c1 rest]. cbn [fst] in Q. destruct Q as (Q1 & Q2 & Q3).
      destruct (forallb htp_is_space rest); injection H as H.
      * subst c'. cbn. split; [exact Q2|right]. assert (Hs' : c_in_state (c1 <| c_in_state := REQ_FINALIZE |>) = REQ_FINALIZE) by reflexivity. rt_rank.
      * match type of H with rq_to_headers ?cx = _ => apply (R cx) end; [|congruence].
        match goal with |- context [rq_tx_upd ?f ?cx] => destruct (rt_fr_tx_upd f cx) as (U1 & U2 & U3) end. congruence.
Qed.

(* one complete header line *)
Lemma rt_header_line c ret c2 : rq_header_line cb g c = (ret, c2) ->
  match ret with
  | Some (rc, c') => rc = ST_OK -> c_in_status c' = c_in_status c
  | None => c_in_status c2 = c_in_status c
  end.
Proof.
  intros H. unfold rq_header_line in H.
  pose proof (rt_fr_consolidate g c) as F. destruct (req_consolidate_data g c) as [[rc1 c1] data]. cbn [fst snd] in F.
  destruct F as (_ & F & _).
  destruct rc1; try (injection H as <- <-; discriminate).
  destruct (htp_is_line_terminator (g_personality g) data false).
  - injection H as <- <-.
    destruct (rq_with_tx (tx_state_request_headers cb) (req_clear_buffer (rq_flush_header c1))) as [rc c'] eqn:E.
    intros ->. destruct (rt_headers _ _ E) as [L _]. apply rt_core_status in L. rewrite L.
    destruct (rt_fr_flush_header c1) as (_ & A & _). cbn. congruence.
  - injection H as <- <-. cbn [req_clear_buffer rq_set_in c_in_status set]. 
    rewrite <- F. clear F.
    destruct (htp_is_line_folded (htp_chomp data) =? 0).
    + destruct (rt_fr_flush_header c1) as (_ & A & _). destruct (rt_fr_peek_next (rq_flush_header c1)) as (_ & B & _).
      destruct (k_next_byte (c_in (rq_peek_next (rq_flush_header c1)))) as [b|];
        [destruct (negb (htp_is_folding_char b))|].
      * destruct (rt_fr_process_header (htp_chomp data) (rq_peek_next (rq_flush_header c1))) as (_ & C & _). congruence.
      * cbn. congruence.
      * cbn. congruence.
    + destruct (k_header (c_in c1)) as [h|].
      * destruct (_ <? _); reflexivity.
      * match goal with |- context [rq_tx_upd ?f ?cx] => destruct (rt_fr_tx_upd f cx) as (_ & U2 & _) end. cbn. exact U2.
Qed.

(* htp_connp_REQ_HEADERS *)
Lemma rt_HEADERS_loop_status n : forall c c', REQ_HEADERS_loop cb g n c = (ST_OK, c') -> c_in_status c' = c_in_status c.
Proof.
  induction n as [|n IH]; intros c c' H; cbn [REQ_HEADERS_loop] in H.
  all: destruct (c_in_status c =? c_HTP_STREAM_CLOSED).
  1,3: destruct (rt_headers _ _ H) as [L _]; apply rt_core_status in L; rewrite L;
       match goal with |- context [rq_tx_upd ?f ?cx] => destruct (rt_fr_tx_upd f cx) as (_ & U2 & _) end; rewrite U2;
       destruct (rt_fr_flush_header c) as (_ & A & _); cbn; exact A.
  all: destruct (rq_copy_byte c) as [c1|] eqn:E1; [|discriminate]; destruct (rt_fr_copy_byte _ _ E1) as (_ & C & _).
  all: destruct (if rq_next_is c1 LF then rq_header_line cb g c1 else (None, c1)) as [ret c2] eqn:E2.
  all: assert (S2 : match ret with Some (rc, c0) => rc = ST_OK -> c_in_status c0 = c_in_status c1 | None => c_in_status c2 = c_in_status c1 end)
         by (destruct (rq_next_is c1 LF); [exact (rt_header_line _ _ _ E2)|injection E2 as <- <-; reflexivity]).
  all: destruct ret as [[rc0 c0]|]; [injection H as -> ->; rewrite (S2 eq_refl); exact C|].
  - discriminate.
  - rewrite (IH _ _ H). congruence.
Qed.
Lemma rt_HEADERS_loop_adv n c c' :
  rq_pre c -> (rq_len c - rq_rd c <= n)%nat -> REQ_HEADERS_loop cb g n c = (ST_OK, c') ->
  (rq_rd c < rq_rd c')%nat \/ c_in_state c' = REQ_FINALIZE \/ c_in_state c' = REQ_CONNECT_CHECK.
Proof.
  intros Hp Hn H. destruct n as [|n]; cbn [REQ_HEADERS_loop] in H.
  all: destruct (c_in_status c =? c_HTP_STREAM_CLOSED); [right; exact (proj2 (rt_headers _ _ H))|left].
  all: destruct (rq_copy_byte c) as [c1|] eqn:E1; [|discriminate].
  all: destruct (rq_pre_copy _ _ Hp E1) as [Hp1 _];
       pose proof (rq_copy_byte_some _ _ E1) as (C1 & C2 & C3 & C4 & C5 & C6 & C7 & C8).
  all: destruct (if rq_next_is c1 LF then rq_header_line cb g c1 else (None, c1)) as [ret c2] eqn:E2.
  all: assert (S2 : match ret with Some (rc0, c0) => rq_step_ok c1 c0 rc0 | None => rq_moved c1 c2 end)
         by (destruct (rq_next_is c1 LF); [exact (rq_header_line_step cb g _ _ _ Hp1 E2)|injection E2 as <- <-; apply rq_moved_refl]).
  all: destruct ret as [[rc0 c0]|]; [injection H as -> ->; destruct S2 as (_ & _ & S3 & _); lia|].
  - discriminate.
  - pose proof (rq_moved_facts _ _ S2 Hp1) as (F1 & F2 & _).
    destruct (REQ_HEADERS_loop_step cb g n c2 ST_OK c' (rq_pre_moved _ _ S2 Hp1) ltac:(lia) H) as (_ & _ & S3 & _). lia.
Qed.
Lemma rt_HEADERS c c' : rq_pre c -> c_in_state c = REQ_HEADERS -> REQ_HEADERS_fn cb g c = (ST_OK, c') -> rt_dec c c'.
Proof.
  intros Hp Hs H. unfold REQ_HEADERS_fn in H. right. split; [exact (rt_HEADERS_loop_status _ _ _ H)|].
  destruct (rt_HEADERS_loop_adv _ _ _ Hp (Nat.le_refl _) H) as [A|[A|A]]; [left; exact A|right; rt_rank|right; rt_rank].
Qed.

(* htp_connp_REQ_CONNECT_CHECK / _WAIT_RESPONSE / htp_connp_REQ_BODY_DETERMINE *)
Lemma rt_CONNECT_CHECK c c' : c_in_state c = REQ_CONNECT_CHECK -> REQ_CONNECT_CHECK_fn c = (ST_OK, c') -> rt_dec c c'.
Proof.
  intros Hs H. unfold REQ_CONNECT_CHECK_fn in H. destruct (_ =? _); [discriminate|]. injection H as <-.
  right. split; [reflexivity|right]. assert (Hs' : c_in_state (c <| c_in_state := REQ_BODY_DETERMINE |>) = REQ_BODY_DETERMINE) by reflexivity. rt_rank.
Qed.
Lemma rt_CONNECT_WAIT_RESPONSE c c' : c_in_state c = REQ_CONNECT_WAIT_RESPONSE -> REQ_CONNECT_WAIT_RESPONSE_fn c = (ST_OK, c') -> rt_dec c c'.
Proof.
  intros Hs H. unfold REQ_CONNECT_WAIT_RESPONSE_fn in H. destruct (_ <=? _); [discriminate|].
  right. destruct (_ && _); injection H as <-; (split; [reflexivity|right]).
  - assert (Hs' : c_in_state (c <| c_in_state := REQ_CONNECT_PROBE_DATA |>) = REQ_CONNECT_PROBE_DATA) by reflexivity. rt_rank.
  - assert (Hs' : c_in_state (c <| c_in_state := REQ_FINALIZE |>) = REQ_FINALIZE) by reflexivity. rt_rank.
Qed.
Lemma rt_BODY_DETERMINE c c' : c_in_state c = REQ_BODY_DETERMINE -> REQ_BODY_DETERMINE_fn c = (ST_OK, c') -> rt_dec c c'.
Proof.
  intros Hs H. unfold REQ_BODY_DETERMINE_fn in H. right.
  assert (G : forall f c1 s, c_in_status c1 = c_in_status c -> c_in_state c1 = s ->
              c_in_status (rq_tx_upd f c1) = c_in_status c /\ c_in_state (rq_tx_upd f c1) = s).
  { intros f c1 s H1 H2. destruct (rt_fr_tx_upd f c1) as (U1 & U2 & _). split; congruence. }
  destruct (_ =? c_HTP_CODING_CHUNKED).
  - injection H as <-.
    match goal with |- context [rq_tx_upd ?f ?cx] => destruct (G f cx REQ_BODY_CHUNKED_LENGTH eq_refl eq_refl) as [G1 G2] end.
    split; [exact G1|right; rt_rank].
  - destruct (_ =? c_HTP_CODING_IDENTITY).
    + cbv zeta in H. destruct (negb (_ =? 0)); injection H as <-.
      * match goal with |- context [rq_tx_upd ?f ?cx] => destruct (G f cx REQ_BODY_IDENTITY eq_refl eq_refl) as [G1 G2] end.
        split; [exact G1|right; rt_rank].
      * split; [reflexivity|right].
        match goal with |- (rq_rank ?cx < _)%nat => assert (Hs' : c_in_state cx = REQ_FINALIZE) by reflexivity end. rt_rank.
    + destruct (_ =? c_HTP_CODING_NO_BODY); [|discriminate]. injection H as <-. split; [reflexivity|right].
      assert (Hs' : c_in_state (c <| c_in_state := REQ_FINALIZE |>) = REQ_FINALIZE) by reflexivity. rt_rank.
Qed.

(* for (;;) { IN_PEEK_NEXT; if (stop) break; IN_COPY_BYTE_OR_RETURN; }: frame, and the byte it stopped at *)
Lemma rt_peek_copy_until stop n : forall c b c', rq_peek_copy_until stop n c = (b, c') ->
  rt_fr c c' /\ (b = true -> exists x, k_next_byte (c_in c') = Some x /\ stop x = true).
Proof.
  induction n as [|n IH]; intros c b c' H; cbn [rq_peek_copy_until] in H.
  all: pose proof (rt_fr_peek_next c) as F0; remember (rq_peek_next c) as c0 eqn:Ec0; clear Ec0.
  all: destruct (k_next_byte (c_in c0)) as [x|] eqn:En.
  all: try (destruct (stop x) eqn:Ex; [injection H as <- <-; split; [exact F0|intros _; exists x; split; assumption]|]).
  all: destruct (rq_copy_byte c0) as [c2|] eqn:E; [|injection H as <- <-; split; [exact F0|discriminate]].
  all: pose proof (rt_fr_copy_byte _ _ E) as F2.
  1,2: injection H as <- <-; split; [eapply rt_fr_trans; [exact F0|eapply rt_fr_trans; [exact F2|apply rt_fr_fault]]|discriminate].
  all: destruct (IH _ _ _ H) as [F3 X]; split; [eapply rt_fr_trans; [exact F0|eapply rt_fr_trans; [exact F2|exact F3]]|exact X].
Qed.

(* htp_connp_REQ_CONNECT_PROBE_DATA *)
Lemma rt_PROBE c c' : c_in_state c = REQ_CONNECT_PROBE_DATA -> REQ_CONNECT_PROBE_DATA_fn cb g c = (ST_OK, c') -> rt_dec c c'.
Proof.
  intros Hs H. unfold REQ_CONNECT_PROBE_DATA_fn in H.
  destruct (rq_peek_copy_until (fun b => (b =? LF)%N || (b =? 0)%N) (k_len (c_in c) - k_read (c_in c)) c) as [b c1] eqn:E.
  destruct (rt_peek_copy_until _ _ _ _ _ E) as [(A1 & A2 & A3) _]. destruct b; [|discriminate].
  pose proof (rt_fr_consolidate g c1) as F. destruct (req_consolidate_data g c1) as [[rc1 c2] data]. cbn [fst snd] in F.
  destruct F as (F1 & F2 & F3). destruct rc1; try discriminate.
  destruct (rq_probe_method data) as [mstart pos]. destruct (negb _).
  - destruct (rt_complete _ _ H) as (K1 & K2 & K3 & K4). apply rt_core_status in K1.
    right. split; [congruence|right].
    destruct (c_in_tx c) as [i|] eqn:Ei; [|exfalso; apply K2; congruence].
    destruct K4 as [K4|[K4|K4]]; [rewrite F1, A1, Hs in K4| |]; rt_rank.
  - injection H as <-. left. reflexivity.
Qed.

(* the shared body of REQ_BODY_IDENTITY / REQ_BODY_CHUNKED_DATA *)
Lemma rt_consume_body_status n c rc c' : rq_consume_body cb n c = (rc, c') -> c_in_status c' = c_in_status c.
Proof.
  intros H. unfold rq_consume_body in H.
  set (x := match k_data (c_in c) with
            | Some _ => let '(c0, d) := rq_slice c (k_read (c_in c)) (k_read (c_in c) + n) in (c0, Some d)
            | None => (if (k_read (c_in c) =? 0)%nat then c else rq_fault c, None) end) in H.
  assert (M1 : c_in_status (fst x) = c_in_status c).
  { subst x. destruct (k_data (c_in c)).
    - destruct (rt_fr_slice c (k_read (c_in c)) (k_read (c_in c) + n)) as (_ & Q & _). destruct (rq_slice c (k_read (c_in c)) (k_read (c_in c) + n)). exact Q.
    - cbn. destruct (_ =? 0)%nat; reflexivity. }
  destruct x as [c1 data]. cbn [fst] in M1.
  destruct (rq_with_tx (fun i => tx_req_process_body_data_ex cb i data n) c1) as [rc2 c2] eqn:E2.
  destruct (rt_body _ _ _ _ _ E2) as [B _]. apply rq_core_of_st in B. destruct B as [B _]. apply rt_core_status in B.
  destruct rc2; injection H as <- <-; try congruence.
  match goal with |- context [rq_tx_upd ?f ?cx] => destruct (rt_fr_tx_upd f cx) as (_ & U2 & _) end. rewrite U2. cbn. congruence.
Qed.
Lemma rt_BODY_IDENTITY c c' : rq_pre c -> REQ_BODY_IDENTITY_fn cb c = (ST_OK, c') -> rt_dec c c'.
Proof.
  intros Hp H. unfold REQ_BODY_IDENTITY_fn in H.
  pose proof (rq_bytes_to_consume_spec c (c_in_body_data_left c) Hp) as (N1 & _).
  set (n := rq_bytes_to_consume c (c_in_body_data_left c)) in *.
  destruct (n =? 0)%nat eqn:E0; [discriminate|]. apply Nat.eqb_neq in E0.
  destruct (rq_consume_body cb n c) as [rc2 c2] eqn:E2.
  destruct (rq_consume_body_step cb n c rc2 c2 Hp N1 E2) as (_ & _ & _ & _ & _ & _ & B6 & _).
  pose proof (rt_consume_body_status _ _ _ _ E2) as St.
  destruct rc2; try discriminate. destruct (B6 eq_refl) as [B8 _].
  right. destruct (_ =? 0) in H; [|discriminate]. injection H as <-. split; [exact St|left]. change (rq_rd c < rq_rd c2)%nat. lia.
Qed.
Lemma rt_BODY_CHUNKED_DATA c c' : rq_pre c -> REQ_BODY_CHUNKED_DATA_fn cb c = (ST_OK, c') -> rt_dec c c'.
Proof.
  intros Hp H. unfold REQ_BODY_CHUNKED_DATA_fn in H.
  pose proof (rq_bytes_to_consume_spec c (c_in_chunked_length c) Hp) as (N1 & _).
  set (n := rq_bytes_to_consume c (c_in_chunked_length c)) in *.
  destruct (n =? 0)%nat eqn:E0; [discriminate|]. apply Nat.eqb_neq in E0.
  destruct (rq_consume_body cb n c) as [rc2 c2] eqn:E2.
  destruct (rq_consume_body_step cb n c rc2 c2 Hp N1 E2) as (_ & _ & _ & _ & _ & _ & B6 & _).
  pose proof (rt_consume_body_status _ _ _ _ E2) as St.
  destruct rc2; try discriminate. destruct (B6 eq_refl) as [B8 _].
  right. destruct (_ =? 0) in H; [|discriminate]. injection H as <-. split; [exact St|left]. change (rq_rd c < rq_rd c2)%nat. lia.
Qed.

(* htp_connp_REQ_IGNORE_DATA_AFTER_HTTP_0_9 never returns HTP_OK *)
Lemma rt_IGNORE c c' : REQ_IGNORE_DATA_AFTER_HTTP_0_9_fn c = (ST_OK, c') -> rt_dec c c'.
Proof. unfold REQ_IGNORE_DATA_AFTER_HTTP_0_9_fn. discriminate. Qed.

(* htp_connp_REQ_BODY_CHUNKED_DATA_END *)
Lemma rt_CHUNKED_DATA_END_loop_status n : forall c c', REQ_BODY_CHUNKED_DATA_END_loop n c = (ST_OK, c') -> c_in_status c' = c_in_status c.
Proof.
  induction n as [|n IH]; intros c c' H; cbn [REQ_BODY_CHUNKED_DATA_END_loop] in H.
  all: destruct (rq_next_byte c) as [c1|] eqn:E1; [|discriminate]; destruct (rt_fr_next_byte _ _ E1) as (_ & C & _).
  all: match type of H with context [rq_tx_upd ?f ?cx] => destruct (rt_fr_tx_upd f cx) as (_ & U & _); remember (rq_tx_upd f cx) as c2 eqn:Ec2; clear Ec2 end.
  all: destruct (rq_next_is c2 LF); [injection H as <-; cbn; congruence|].
  - discriminate.
  - rewrite (IH _ _ H). congruence.
Qed.
Lemma rt_CHUNKED_DATA_END c c' : rq_pre c -> c_in_state c = REQ_BODY_CHUNKED_DATA_END ->
  REQ_BODY_CHUNKED_DATA_END_fn c = (ST_OK, c') -> rt_dec c c'.
Proof.
  intros Hp Hs H. unfold REQ_BODY_CHUNKED_DATA_END_fn in H. right. split; [exact (rt_CHUNKED_DATA_END_loop_status _ _ _ H)|left].
  remember (k_len (c_in c) - k_read (c_in c))%nat as n eqn:En.
  assert (Hn : (rq_len c - rq_rd c <= n)%nat) by (unfold rq_len, rq_rd; lia). clear En.
  destruct n as [|n]; cbn [REQ_BODY_CHUNKED_DATA_END_loop] in H.
  all: destruct (rq_next_byte c) as [c1|] eqn:E1; [|discriminate].
  all: pose proof (rq_pre_next _ _ Hp E1) as Hp1;
       pose proof (rq_next_byte_some _ _ E1) as (C1 & C2 & C3 & C4 & C5 & C6 & C7 & C8);
       match type of H with context [rq_tx_upd ?f ?cx] => pose proof (rq_tx_upd_moved f cx) as M;
         remember (rq_tx_upd f cx) as c2 eqn:Ec2; clear Ec2 end;
       pose proof (rq_moved_facts _ _ M Hp1) as (F1 & F2 & F3 & F4 & _); pose proof (rq_pre_moved _ _ M Hp1) as Hp2.
  all: destruct (rq_next_is c2 LF); [injection H as <-; change (rq_rd c < rq_rd c2)%nat; lia|].
  - discriminate.
  - destruct (REQ_BODY_CHUNKED_DATA_END_loop_step n c2 ST_OK c' Hp2 ltac:(congruence) ltac:(lia) H) as (_ & _ & S3 & _). lia.
Qed.

(* htp_connp_REQ_BODY_CHUNKED_LENGTH *)
Lemma rt_CHUNKED_LENGTH_tail c1 c' :
  match req_consolidate_data g c1 with
  | (ST_OK, c, data) =>
      let c := rq_tx_upd (fun t => t <| t_request_message_len ::= Z.add (Z.of_nat (length data)) |>) c in
      let '(v, _) := parse_chunked_length (htp_chomp data) in
      let c := req_clear_buffer (c <| c_in_chunked_length := v |>) in
      if 0 <? v then (ST_OK, c <| c_in_state := REQ_BODY_CHUNKED_DATA |>)
      else if v =? 0 then
        (ST_OK, rq_tx_upd (fun t => t <| t_request_progress := c_HTP_REQUEST_TRAILER |>) (c <| c_in_state := REQ_HEADERS |>))
      else (ST_ERROR, c)
  | (_, c, _) => (ST_ERROR, c)
  end = (ST_OK, c') ->
  c_in_status c' = c_in_status c1 /\ rq_rd c' = rq_rd c1.
Proof.
  intros H.
  pose proof (rt_fr_consolidate g c1) as F. pose proof (req_consolidate_data_moved g c1) as M.
  destruct (req_consolidate_data g c1) as [[rc1 c2] data]. cbn [fst snd] in F, M.
  destruct F as (_ & F & _). destruct M as (M & _). unfold rq_pos in M. injection M as _ M _ _ _.
  destruct rc1; try discriminate. cbv zeta in H.
  match type of H with context [rq_tx_upd ?f c2] => destruct (rt_fr_tx_upd f c2) as (_ & U & _);
    pose proof (rq_tx_upd_core f c2) as Uc; remember (rq_tx_upd f c2) as c3 eqn:Ec3; clear Ec3 end.
  apply rq_core_of_st in Uc. destruct Uc as [Uc _]. apply rt_core_rd in Uc. destruct Uc as (Uc & _).
  destruct (parse_chunked_length (htp_chomp data)) as [v ext].
  destruct (0 <? v); [injection H as <-; cbn; unfold rq_rd in *; split; congruence|].
  destruct (v =? 0); [|discriminate]. injection H as <-.
  match goal with |- context [rq_tx_upd ?f ?cx] => destruct (rt_fr_tx_upd f cx) as (_ & U2 & _);
    pose proof (rq_tx_upd_core f cx) as Uc2 end.
  apply rq_core_of_st in Uc2. destruct Uc2 as [Uc2 _]. apply rt_core_rd in Uc2. destruct Uc2 as (Uc2 & _).
  rewrite U2, Uc2. cbn. unfold rq_rd in *. split; congruence.
Qed.
Lemma rt_CHUNKED_LENGTH_loop_status n : forall c c', REQ_BODY_CHUNKED_LENGTH_loop g n c = (ST_OK, c') -> c_in_status c' = c_in_status c.
Proof.
  induction n as [|n IH]; intros c c' H; cbn [REQ_BODY_CHUNKED_LENGTH_loop] in H.
  all: destruct (rq_copy_byte c) as [c1|] eqn:E1; [|discriminate]; destruct (rt_fr_copy_byte _ _ E1) as (_ & C & _).
  all: destruct (rq_next_is c1 LF); [destruct (rt_CHUNKED_LENGTH_tail _ _ H) as [T _]; congruence|].
  - discriminate.
  - rewrite (IH _ _ H). exact C.
Qed.
Lemma rt_CHUNKED_LENGTH c c' : rq_pre c -> c_in_state c = REQ_BODY_CHUNKED_LENGTH ->
  REQ_BODY_CHUNKED_LENGTH_fn g c = (ST_OK, c') -> rt_dec c c'.
Proof.
  intros Hp Hs H. unfold REQ_BODY_CHUNKED_LENGTH_fn in H. right. split; [exact (rt_CHUNKED_LENGTH_loop_status _ _ _ H)|left].
  remember (k_len (c_in c) - k_read (c_in c))%nat as n eqn:En.
  assert (Hn : (rq_len c - rq_rd c <= n)%nat) by (unfold rq_len, rq_rd; lia). clear En.
  destruct n as [|n]; cbn [REQ_BODY_CHUNKED_LENGTH_loop] in H.
  all: destruct (rq_copy_byte c) as [c1|] eqn:E1; [|discriminate].
  all: destruct (rq_pre_copy _ _ Hp E1) as [Hp1 _];
       pose proof (rq_copy_byte_some _ _ E1) as (C1 & C2 & C3 & C4 & C5 & C6 & C7 & C8).
  all: destruct (rq_next_is c1 LF); [destruct (rt_CHUNKED_LENGTH_tail _ _ H) as [_ T]; lia|].
  - discriminate.
  - destruct (REQ_BODY_CHUNKED_LENGTH_loop_step g n c1 ST_OK c' Hp1 ltac:(congruence) ltac:(lia) H) as (_ & _ & S3 & _). lia.
Qed.

(* htp_connp_REQ_FINALIZE *)
Lemma rt_buffer_next c : k_next_byte (c_in (snd (req_buffer g c))) = k_next_byte (c_in c).
Proof.
  unfold req_buffer. destruct (k_data (c_in c)); [|reflexivity].
  set (c1 := if (k_read (c_in c) <? k_consume (c_in c))%nat then rq_fault c else c).
  assert (H1 : c_in c1 = c_in c) by (subst c1; destruct (_ <? _)%nat; reflexivity).
  destruct (_ =? 0)%nat; [cbn [snd]; rewrite H1; reflexivity|].
  set (c2 := match c_in_tx c1 with Some _ => c1 | None => rq_fault c1 end).
  assert (H2 : c_in c2 = c_in c) by (subst c2; destruct (c_in_tx c1); exact H1).
  destruct (g_field_limit_hard g <? _)%nat; [cbn [snd]; rewrite H2; reflexivity|].
  pose proof (rq_slice_in c2 (k_consume (c_in c2)) (k_read (c_in c2))) as H3.
  destruct (rq_slice c2 (k_consume (c_in c2)) (k_read (c_in c2))) as [c3 piece]. cbn [fst snd] in *.
  unfold rq_set_in. cbn. congruence.
Qed.
Lemma rt_consolidate_next c : k_next_byte (c_in (snd (fst (req_consolidate_data g c)))) = k_next_byte (c_in c).
Proof.
  unfold req_consolidate_data. destruct (k_buf (c_in c)).
  - pose proof (rt_buffer_next c) as H. destruct (req_buffer g c) as [rc c1]. destruct rc; exact H.
  - pose proof (rq_slice_in c (k_consume (c_in c)) (k_read (c_in c))) as H.
    destruct (rq_slice c (k_consume (c_in c)) (k_read (c_in c))). cbn [fst snd] in *. congruence.
Qed.

Lemma rt_finalize_scan c :
  match rq_finalize_scan c with
  | RF_complete c1 => rt_fr c c1
  | RF_buffer c1 => True
  | RF_probe c1 => rt_fr c c1 /\ ((c_in_status c = c_HTP_STREAM_CLOSED /\ c1 = c) \/ k_next_byte (c_in c1) = Some LF)
  end.
Proof.
  unfold rq_finalize_scan. destruct (c_in_status c =? c_HTP_STREAM_CLOSED) eqn:Ecl.
  - apply Z.eqb_eq in Ecl. split; [apply rt_fr_refl|left; split; [exact Ecl|reflexivity]].
  - pose proof (rt_fr_peek_next c) as F0. remember (rq_peek_next c) as c0 eqn:Ec0. clear Ec0.
    destruct (k_next_byte (c_in c0)) as [b|] eqn:En; [|exact F0].
    destruct (negb (b =? LF)%N || (k_read (c_in c0) <=? k_consume (c_in c0))%nat) eqn:Ec.
    + destruct (rq_peek_copy_until (fun b0 => (b0 =? LF)%N) (k_len (c_in c0) - k_read (c_in c0)) c0) as [b1 c1] eqn:E.
      destruct (rt_peek_copy_until _ _ _ _ _ E) as [F1 X]. destruct b1; [|exact I].
      split; [exact (rt_fr_trans _ _ _ F0 F1)|right]. destruct (X eq_refl) as (x & X1 & X2). apply N.eqb_eq in X2. congruence.
    + split; [exact F0|right]. apply orb_false_iff in Ec. destruct Ec as [Ec _]. apply negb_false_iff in Ec. apply N.eqb_eq in Ec. congruence.
Qed.

(* htp_tx_state_request_complete from REQ_FINALIZE: IDLE / IGNORE, or still FINALIZE with in_tx NULL *)
Lemma rt_complete_dec c0 c c' : rt_fr c0 c -> c_in_state c0 = REQ_FINALIZE -> rq_request_complete cb g c = (ST_OK, c') -> rt_dec c0 c'.
Proof.
  intros (F1 & F2 & F3) Hs H. destruct (rt_complete _ _ H) as (K1 & K2 & K3 & K4). apply rt_core_status in K1.
  right. split; [congruence|right].
  destruct (c_in_tx c0) as [i|] eqn:Ei; [|exfalso; apply K2; congruence].
  destruct K4 as [K4|[K4|K4]]; [rewrite F1, Hs in K4| |]; rt_rank.
Qed.

Lemma rt_FINALIZE c c' : rq_pre c -> rq_closed_empty c -> c_in_state c = REQ_FINALIZE ->
  REQ_FINALIZE_fn cb g c = (ST_OK, c') -> rt_dec c c'.
Proof.
  intros Hp Hce Hs H. unfold REQ_FINALIZE_fn in H.
  pose proof (rq_finalize_scan_adv c Hp) as A. pose proof (rt_finalize_scan c) as B.
  destruct (rq_finalize_scan c) as [c1|c1|c1].
  - exact (rt_complete_dec _ _ _ B Hs H).
  - discriminate.
  - destruct B as [B Bx]. pose proof A as (A1 & _ & A3 & A4 & Hp1).
    pose proof (rt_fr_consolidate g c1) as F. pose proof (req_consolidate_data_moved g c1) as M.
    pose proof (rt_consolidate_next c1) as Nx. pose proof (rt_consolidate_empty c1) as Em.
    destruct (req_consolidate_data g c1) as [[rc1 c2] data]. cbn [fst snd] in F, M, Nx, Em.
    destruct rc1; try discriminate.
    pose proof (rt_fr_trans _ _ _ B F) as B2. pose proof (rq_pre_moved _ _ M Hp1) as Hp2.
    pose proof (rq_moved_facts _ _ M Hp1) as (M1 & M2 & _ & M4 & _).
    destruct data as [|x data]; [exact (rt_complete_dec _ _ _ B2 Hs H)|].
    destruct (rq_probe_method (x :: data)) as [mstart pos].
    destruct ((mstart <? pos)%nat && negb _).
    + refine (rt_complete_dec _ _ _ _ Hs H). eapply rt_fr_trans; [exact B2|]. unfold rt_fr. repeat split.
    + set (c3 := if (mstart <? pos)%nat && (0 <? c_in_body_data_left c2) then c2 <| c_in_body_data_left := 1 |> else c2) in H.
      assert (S3 : c_in_state c2 = REQ_FINALIZE) by (destruct B2 as (B2 & _); congruence).
      assert (Q : rt_fr c2 c3 /\ c_in c3 = c_in c2 /\ rq_pre c3).
      { subst c3. destruct (_ && _); [|split; [apply rt_fr_refl|split; [reflexivity|exact Hp2]]].
        split; [unfold rt_fr; repeat split|split; [reflexivity|]].
        destruct Hp2 as [Hw _]. split; [exact Hw|]. apply rq_inv_plain. cbn. rewrite S3. split; discriminate. }
      destruct Q as (Q1 & Q2 & Hp3). pose proof (rt_fr_trans _ _ _ B2 Q1) as B3. clearbody c3.
      right. destruct (rq_next_is c3 LF) eqn:ELF.
      * destruct (rq_copy_byte c3) as [c4|] eqn:E4; [|discriminate].
        pose proof (rt_fr_copy_byte _ _ E4) as F4. pose proof (rq_copy_byte_some _ _ E4) as (C1 & C2 & _).
        destruct (rq_pre_copy _ _ Hp3 E4) as [Hp4 _].
        pose proof (rt_fr_consolidate g c4) as F5. pose proof (req_consolidate_data_moved g c4) as M5.
        destruct (req_consolidate_data g c4) as [[rc4 c5] d2]. cbn [fst snd] in F5, M5.
        pose proof (rq_moved_facts _ _ M5 Hp4) as (_ & N2 & _).
        assert (G : forall d rc0 c6, rq_with_tx (fun i => tx_req_process_body_data_ex cb i (Some d) 0) c5 = (rc0, c6) ->
                      c_in_status (req_clear_buffer c6) = c_in_status c /\ (rq_rd c < rq_rd (req_clear_buffer c6))%nat).
        { intros d rc0 c6 E6. destruct (rt_body _ _ _ _ _ E6) as [K _]. apply rq_core_of_st in K. destruct K as [K _].
          pose proof (rt_core_status _ _ K) as K1. apply rt_core_rd in K. destruct K as (K2 & _).
          destruct B3 as (_ & B3 & _). destruct F4 as (_ & F4 & _). destruct F5 as (_ & F5 & _).
          split; [cbn; congruence|]. change (rq_rd (req_clear_buffer c6)) with (rq_rd c6).
          unfold rq_rd in *. rewrite Q2 in C2. lia. }
        destruct rc4;
          match type of H with (let '(_, _) := ?t in _) = _ => destruct t as [rc0 c6] eqn:E6 end;
          injection H as -> <-; destruct (G _ _ _ E6) as [G1 G2]; (split; [exact G1|left; exact G2]).
      * destruct Bx as [[Bc ->]|Bx]; [|exfalso; unfold rq_next_is in ELF; rewrite Q2, Nx, Bx, N.eqb_refl in ELF; discriminate].
        match type of H with (let '(_, _) := ?t in _) = _ => destruct t as [rc0 c6] eqn:E6 end. injection H as -> <-.
        destruct (rt_body _ _ _ _ _ E6) as [K Kt]. apply rq_core_of_st in K. destruct K as [K Ks].
        pose proof (rt_core_status _ _ K) as K1. destruct B3 as (B31 & B32 & B33).
        split; [cbn; congruence|right].
        assert (Hb : k_buf (c_in c) <> None).
        { intros Hb. specialize (Em Hb). specialize (Hce Bc). destruct Hp as [(Hb1 & Hb2 & _) _]. 
          assert (E0 : x :: data = []) by (apply Em; lia). discriminate. }
        assert (Ht : c_in_tx c <> None) by (rewrite <- B33; apply Kt; reflexivity).
        assert (Hs' : c_in_state (req_clear_buffer c6) = REQ_FINALIZE) by (cbn; congruence).
        assert (Hb' : k_buf (c_in (req_clear_buffer c6)) = None) by reflexivity.
        destruct (c_in_tx c) eqn:Et; [|congruence]. destruct (k_buf (c_in c)) eqn:Ebuf; [|congruence]. rt_rank.
Qed.

(* connp->in_state(connp) *)
Lemma rt_state_fn c c' :
  rq_pre c -> (c_in_state c = REQ_LINE -> rq_readable c) -> rq_closed_empty c ->
  rq_state_fn cb g (c_in_state c) c = (ST_OK, c') -> rt_dec c c'.
Proof.
  intros Hp Hr Hce H. destruct (c_in_state c) eqn:Es; cbn [rq_state_fn] in H.
  - apply rt_IDLE; assumption.
  - apply rt_LINE; auto.
  - apply rt_PROTOCOL; assumption.
  - apply rt_HEADERS; assumption.
  - apply rt_CONNECT_CHECK; assumption.
  - apply rt_CONNECT_WAIT_RESPONSE; assumption.
  - apply rt_PROBE; assumption.
  - apply rt_BODY_DETERMINE; assumption.
  - apply rt_BODY_IDENTITY; assumption.
  - apply rt_CHUNKED_LENGTH; assumption.
  - apply rt_BODY_CHUNKED_DATA; assumption.
  - apply rt_CHUNKED_DATA_END; assumption.
  - apply rt_FINALIZE; assumption.
  - apply rt_IGNORE; assumption.
Qed.

(* htp_req_handle_state_change: the core is kept; in_tx too unless the state is REQ_HEADERS (the receiver hooks run) *)
Lemma rt_handle_state_change c :
  rq_core_st (snd (req_handle_state_change cb c)) = rq_core_st c /\
  (c_in_state c <> REQ_HEADERS -> c_in_tx (snd (req_handle_state_change cb c)) = c_in_tx c).
Proof.
  unfold req_handle_state_change.
  destruct (match c_in_state_previous c with Some s => req_state_eqb s (c_in_state c) | None => false end); [split; reflexivity|].
  destruct (req_state_eqb (c_in_state c) REQ_HEADERS) eqn:Eh.
  - assert (Hh : c_in_state c = REQ_HEADERS) by (destruct (c_in_state c); try discriminate; reflexivity).
    split; [|intros Hx; contradiction].
    assert (R : forall h c0, rq_core_st (snd (req_receiver_set cb h c0)) = rq_core_st c0).
    { intros h c0. unfold req_receiver_set. pose proof (req_receiver_finalize_clear_core cb c0) as Q.
      destruct (req_receiver_finalize_clear cb c0) as [rc1 c1]. cbn [fst snd] in *. rewrite <- Q. reflexivity. }
    set (c0 := match c_in_tx c with Some _ => c | None => rq_fault c end).
    assert (M0 : rq_core_st c0 = rq_core_st c) by (subst c0; destruct (c_in_tx c); reflexivity).
    match goal with |- rq_core_st (snd (match ?t with _ => _ end)) = _ => assert (T : rq_core_st (snd t) = rq_core_st c); [|destruct t as [rc1 c1]] end.
    { destruct (_ =? c_HTP_REQUEST_HEADERS); [|destruct (_ =? c_HTP_REQUEST_TRAILER)]; rewrite ?R; exact M0. }
    cbn [snd] in T. destruct rc1; cbn [snd]; exact T.
  - split; reflexivity.
Qed.

Lemma rt_rank_eq a b :
  rq_core_st a = rq_core_st b -> (c_in_state b <> REQ_HEADERS -> c_in_tx a = c_in_tx b) -> rq_rank a = rq_rank b.
Proof.
  intros H Ht. apply rq_core_of_st in H. destruct H as [Hc Hs].
  pose proof (rt_core_status _ _ Hc) as H1. pose proof (rt_core_buf _ _ Hc) as H2.
  unfold rq_rank. rewrite Hs, H1, H2. destruct (c_in_state b); try reflexivity; rewrite Ht; try reflexivity; discriminate.
Qed.

(* ---- every pass that goes round again decreases rq_phi ---- *)
Theorem rt_pass_decreases gap c c1 :
  rq_loop_inv gap c -> rq_closed_empty c -> rq_iter cb g gap c = inr c1 ->
  (rq_phi c1 < rq_phi c)%nat /\ rq_closed_empty c1.
Proof.
  intros Hinv Hce H. pose proof (rq_iter_spec cb g gap c Hinv) as S. rewrite H in S. destruct S as [[Hp1 _] Hl].
  destruct Hinv as [Hp Hr]. unfold rq_iter in H.
  set (dispatch := if gap then _ else _) in H.
  assert (D : match dispatch with Some (ST_OK, c0) => rt_dec c c0 /\ (rq_rd c <= rq_rd c0)%nat | _ => True end).
  { subst dispatch. destruct gap.
    - destruct (req_state_eqb (c_in_state c) REQ_BODY_IDENTITY || req_state_eqb (c_in_state c) REQ_IGNORE_DATA_AFTER_HTTP_0_9) eqn:E.
      + destruct (rq_state_fn cb g (c_in_state c) c) as [rc c0] eqn:E1. destruct rc; try exact I.
        assert (Hl' : c_in_state c = REQ_LINE -> rq_readable c) by (intros Hx; rewrite Hx in E; discriminate).
        split; [exact (rt_state_fn _ _ Hp Hl' Hce E1)|].
        destruct (rq_state_fn_step cb g _ _ _ Hp Hl' E1) as (_ & _ & S3 & _). exact S3.
      + destruct (req_state_eqb (c_in_state c) REQ_FINALIZE) eqn:Ef; [|exact I].
        assert (Hf : c_in_state c = REQ_FINALIZE) by (destruct (c_in_state c); try discriminate; reflexivity).
        destruct (rq_request_complete cb g c) as [rc c0] eqn:E1. destruct rc; try exact I.
        split; [exact (rt_complete_dec _ _ _ (rt_fr_refl c) Hf E1)|].
        destruct (rq_request_complete_step cb g _ _ _ Hp E1) as [(_ & _ & S3 & _) _]. exact S3.
    - destruct (rq_state_fn cb g (c_in_state c) c) as [rc c0] eqn:E1. destruct rc; try exact I.
      assert (Hl' : c_in_state c = REQ_LINE -> rq_readable c) by (intros _; apply Hr; reflexivity).
      split; [exact (rt_state_fn _ _ Hp Hl' Hce E1)|].
      destruct (rq_state_fn_step cb g _ _ _ Hp Hl' E1) as (_ & _ & S3 & _). exact S3. }
  destruct dispatch as [[rc c0]|]; [|discriminate]. destruct rc; try discriminate.
  destruct D as [D Hrd]. destruct (c_in_status c0 =? c_HTP_STREAM_TUNNEL) eqn:Et; [discriminate|]. apply Z.eqb_neq in Et.
  destruct D as [D|[D1 D2]]; [contradiction|].
  pose proof (rt_handle_state_change c0) as [K Kt]. destruct (req_handle_state_change cb c0) as [rc2 c2]. cbn [snd] in K, Kt.
  destruct rc2; try discriminate. injection H as <-.
  pose proof (rt_rank_eq _ _ K Kt) as Rk. apply rq_core_of_st in K. destruct K as [K _].
  pose proof (rt_core_status _ _ K) as K1. apply rt_core_rd in K. destruct K as (K2 & K3 & _).
  split.
  - destruct Hp1 as [(Hb & _) _]. pose proof (rt_rank_le c0) as Hle. unfold rq_phi. rewrite Rk, K2, Hl. rewrite K2, Hl in Hb.
    destruct D2 as [D2|D2]; lia.
  - unfold rq_closed_empty in *. rewrite Hl, K1, D1. exact Hce.
Qed.

End Dec.

(* ---- the closed statements ---- *)
Theorem req_pass_decreases : req_pass_decreases_full.
Proof. intros cb g gap c c1. apply rt_pass_decreases. Qed.

Theorem req_loop_fuel_sufficient : req_loop_fuel_sufficient_full.
Proof. exact (req_loop_fuel_sufficient_partial req_pass_decreases). Qed.

(* ---- the out-of-fuel branch of rq_loop is never taken ---- *)
Section Entry.
Variable cb : cb_oracle.
Variable g : cfg.

(* rq_loop with fuel exhaustion reported as None instead of fault + ERROR *)
Fixpoint rq_loop_opt (fuel : nat) (gap : bool) (c : connp) : option (connp * Z) :=
  match fuel with
  | O => None
  | S f => match rq_iter cb g gap c with
           | inl r => Some r
           | inr c => rq_loop_opt f gap c
           end
  end.

Theorem rq_loop_never_out_of_fuel gap : forall f c,
  rq_loop_inv gap c -> rq_closed_empty c -> (rq_phi c < f)%nat -> rq_loop_opt f gap c = Some (rq_loop cb g f gap c).
Proof.
  induction f as [|f IH]; intros c Hinv Hc Hf; [lia|].
  cbn [rq_loop_opt rq_loop]. destruct (rq_iter cb g gap c) as [r|c1] eqn:E; [reflexivity|].
  pose proof (rq_iter_spec cb g gap c Hinv) as S. rewrite E in S. destruct S as [S _].
  destruct (rt_pass_decreases cb g gap c c1 Hinv Hc E) as [D1 D2].
  apply IH; [exact S|exact D2|lia].
Qed.

Lemma rt_phi_lt_fuel c : (rq_phi c < rq_fuel (rq_len c))%nat.
Proof. pose proof (rt_rank_le c). unfold rq_phi, rq_fuel. lia. Qed.

(* htp_connp_req_data with the loop abstracted: [ret] wraps the early returns, [loop] runs the for(;;) *)
Definition rt_req_data_gen {R : Type} (ret : connp * Z -> R) (loop : bool -> connp -> R)
    (data : option bytes) (len : nat) (c : connp) : R :=
  if c_in_status c =? c_HTP_STREAM_STOP then ret (c, c_HTP_STREAM_STOP)
  else if c_in_status c =? c_HTP_STREAM_ERROR then ret (c, c_HTP_STREAM_ERROR)
  else if match c_in_tx c with None => negb (req_state_eqb (c_in_state c) REQ_IDLE) && negb (c_in_status c =? c_HTP_STREAM_TUNNEL) | Some _ => false end
  then ret (c <| c_in_status := c_HTP_STREAM_ERROR |>, c_HTP_STREAM_ERROR)
  else if (len =? 0)%nat && negb (c_in_status c =? c_HTP_STREAM_CLOSED) then ret (c, c_HTP_STREAM_CLOSED)
  else
    let c := rq_set_in (fun k => k <| k_data := data |> <| k_len := len |> <| k_read := O |> <| k_consume := O |>
                                   <| k_receiver := O |>) c in
    let c := c <| c_in_chunk_count ::= S |> <| c_in_data_counter ::= Z.add (Z.of_nat len) |> in
    if c_in_status c =? c_HTP_STREAM_TUNNEL then ret (c, c_HTP_STREAM_TUNNEL)
    else
      let c := if c_out_status c =? c_HTP_STREAM_DATA_OTHER then c <| c_out_status := c_HTP_STREAM_DATA |> else c in
      loop (match data with None => (0 <? len)%nat | Some _ => false end) c.

Lemma rt_req_data_is_gen data len c :
  connp_req_data cb g data len c = rt_req_data_gen (fun r => r) (rq_loop cb g (rq_fuel len)) data len c.
Proof. reflexivity. Qed.

(* the parser the entry point hands to the loop satisfies the loop invariant *)
Lemma rt_req_data_gen_loop {R R' : Type} (h : R' -> R) (ret' : connp * Z -> R') (loop : bool -> connp -> R) (loop' : bool -> connp -> R')
    data len c :
  rq_inv c -> (forall d, data = Some d -> (len <= length d)%nat) -> (c_in_status c = c_HTP_STREAM_CLOSED -> len = 0%nat) ->
  (forall gap c2, rq_loop_inv gap c2 -> rq_closed_empty c2 -> rq_len c2 = len -> loop gap c2 = h (loop' gap c2)) ->
  rt_req_data_gen (fun r => h (ret' r)) loop data len c = h (rt_req_data_gen ret' loop' data len c).
Proof.
  intros Hi Hd Hcl HL. unfold rt_req_data_gen.
  destruct (c_in_status c =? c_HTP_STREAM_STOP); [reflexivity|].
  destruct (c_in_status c =? c_HTP_STREAM_ERROR); [reflexivity|].
  destruct (match c_in_tx c with None => negb (req_state_eqb (c_in_state c) REQ_IDLE) && negb (c_in_status c =? c_HTP_STREAM_TUNNEL) | Some _ => false end); [reflexivity|].
  destruct ((len =? 0)%nat && negb (c_in_status c =? c_HTP_STREAM_CLOSED)); [reflexivity|].
  cbv zeta.
  set (c1 := (rq_set_in _ c) <| c_in_chunk_count ::= S |> <| c_in_data_counter ::= Z.add (Z.of_nat len) |>).
  destruct (c_in_status c1 =? c_HTP_STREAM_TUNNEL); [reflexivity|].
  set (c2 := if c_out_status c1 =? c_HTP_STREAM_DATA_OTHER then _ else c1).
  assert (E2 : c_in c2 = c_in c1 /\ c_in_state c2 = c_in_state c /\ c_in_body_data_left c2 = c_in_body_data_left c /\
               c_in_chunked_length c2 = c_in_chunked_length c /\ c_in_status c2 = c_in_status c).
  { subst c2. destruct (c_out_status c1 =? c_HTP_STREAM_DATA_OTHER); repeat split; reflexivity. }
  destruct E2 as (E2 & E3 & E4 & E5 & E6).
  assert (L : k_len (c_in c2) = len /\ k_read (c_in c2) = 0%nat /\ k_consume (c_in c2) = 0%nat /\ k_data (c_in c2) = data)
    by (rewrite E2; repeat split; reflexivity).
  destruct L as (L1 & L2 & L3 & L4).
  apply HL.
  - unfold rq_loop_inv, rq_pre, rq_wf, rq_readable, rq_inv, rq_len, rq_rd, rq_cs. rewrite L1, L2, L3, L4, E3, E4, E5.
    repeat split; try lia; try exact Hi.
    + destruct data as [d|]; [apply Hd; reflexivity|exact I].
    + intros Hg Hn. destruct data; [discriminate Hn|]. apply Nat.ltb_ge in Hg. lia.
  - unfold rq_closed_empty, rq_len. rewrite E6, L1. exact Hcl.
  - exact L1.
Qed.

(* htp_connp_req_data never runs out of fuel: the variant that reports exhaustion as None always answers, with the same result *)
Definition connp_req_data_opt (data : option bytes) (len : nat) (c : connp) : option (connp * Z) :=
  rt_req_data_gen Some (rq_loop_opt (rq_fuel len)) data len c.
(* htp_connp_req_data run with some other amount of fuel *)
Definition connp_req_data_fuel (fuel : nat) (data : option bytes) (len : nat) (c : connp) : connp * Z :=
  rt_req_data_gen (fun r => r) (rq_loop cb g fuel) data len c.

Theorem req_data_never_out_of_fuel data len c :
  rq_inv c -> (forall d, data = Some d -> (len <= length d)%nat) -> (c_in_status c = c_HTP_STREAM_CLOSED -> len = 0%nat) ->
  connp_req_data_opt data len c = Some (connp_req_data cb g data len c).
Proof.
  intros Hi Hd Hcl. rewrite rt_req_data_is_gen. unfold connp_req_data_opt.
  apply (rt_req_data_gen_loop Some (fun r => r)); try assumption.
  intros gap c2 Hinv Hce Hl. apply rq_loop_never_out_of_fuel; try assumption. rewrite <- Hl. apply rt_phi_lt_fuel.
Qed.

Theorem req_data_fuel_sufficient data len c k :
  rq_inv c -> (forall d, data = Some d -> (len <= length d)%nat) -> (c_in_status c = c_HTP_STREAM_CLOSED -> len = 0%nat) ->
  connp_req_data_fuel (rq_fuel len + k) data len c = connp_req_data cb g data len c.
Proof.
  intros Hi Hd Hcl. rewrite rt_req_data_is_gen. unfold connp_req_data_fuel.
  apply (rt_req_data_gen_loop (fun r => r) (fun r => r)); try assumption.
  intros gap c2 Hinv Hce Hl. rewrite <- Hl. apply req_loop_fuel_sufficient; assumption.
Qed.

(* the two ways htp_connp_req_data is called: a data/gap call on a stream that is not closed, and the close call *)
Corollary req_data_open_never_out_of_fuel data len c :
  rq_inv c -> (forall d, data = Some d -> (len <= length d)%nat) -> c_in_status c <> c_HTP_STREAM_CLOSED ->
  connp_req_data_opt data len c = Some (connp_req_data cb g data len c).
Proof. intros Hi Hd Hn. apply req_data_never_out_of_fuel; try assumption. intros Hx. contradiction. Qed.
Corollary req_data_close_never_out_of_fuel c :
  rq_inv c -> connp_req_data_opt None 0 c = Some (connp_req_data cb g None 0 c).
Proof. intros Hi. apply req_data_never_out_of_fuel; [exact Hi|discriminate|reflexivity]. Qed.

End Entry.

Print Assumptions req_pass_decreases.
Print Assumptions req_loop_fuel_sufficient.
Print Assumptions rq_loop_never_out_of_fuel.
Print Assumptions req_data_never_out_of_fuel.
Print Assumptions req_data_fuel_sufficient.
