(* C02: the URI pipeline and the header post-processing of htp_tx_state_request_line / _headers leave the reported request fields alone. *)
Require Import Htp.Model.Base Htp.Model.MBstr Htp.Model.MUri Htp.Model.MPath Htp.Model.MUrlenc Htp.Model.MConnTypes Htp.Model.MTxCommon Htp.Model.MReqLine Htp.Model.MReqUri Htp.Model.MTxReq.

(* the fields C02 speaks about, and the two progress fields the state machine consults *)
Definition wr_keep (a b : tx) : Prop :=
  t_request_method a = t_request_method b /\ t_request_method_number a = t_request_method_number b /\
  t_request_uri a = t_request_uri b /\ t_request_protocol a = t_request_protocol b /\
  t_request_protocol_number a = t_request_protocol_number b /\ t_is_protocol_0_9 a = t_is_protocol_0_9 b /\
  t_request_headers a = t_request_headers b /\ t_req_header_repetitions a = t_req_header_repetitions b /\
  t_request_progress a = t_request_progress b /\ t_response_progress a = t_response_progress b /\
  t_hook_request_body a = t_hook_request_body b.
Lemma wr_keep_refl a : wr_keep a a. Proof. repeat split. Qed.
Lemma wr_keep_trans a b c : wr_keep a b -> wr_keep b c -> wr_keep a c.
Proof. unfold wr_keep. intros H1 H2. decompose [and] H1. decompose [and] H2. repeat split; congruence. Qed.

Ltac wr_keep_now := unfold wr_keep; cbn; repeat split; reflexivity.

Lemma wr_keep_urldecode g s t : wr_keep (snd (rq_urldecode_uri g s t)) t.
Proof. unfold rq_urldecode_uri. destruct (ud_urldecode_from _ _ _ _) as [[o fl] st]. wr_keep_now. Qed.
Lemma wr_keep_urldecode_opt g s t : wr_keep (snd (rq_urldecode_uri_opt g s t)) t.
Proof.
  unfold rq_urldecode_uri_opt. destruct s as [s|]; [|apply wr_keep_refl].
  pose proof (wr_keep_urldecode g s t) as H. destruct (rq_urldecode_uri g s t) as [o t']. exact H.
Qed.
Lemma wr_keep_normalize_path g p t : wr_keep (snd (rq_normalize_path g p t)) t.
Proof.
  unfold rq_normalize_path. destruct (pth_decode_path_st _ _ _) as [p1 st1].
  destruct (if d_bestfit (g_dec_url_path g) then _ else _) as [p2 st2]. wr_keep_now.
Qed.

Lemma wr_keep_set_flags t f : wr_keep (t <| t_flags ::= f |>) t. Proof. wr_keep_now. Qed.

Lemma wr_keep_normalize_parsed_uri g raw t : wr_keep (snd (htp_normalize_parsed_uri g raw t)) t.
Proof.
  unfold htp_normalize_parsed_uri.
  pose proof (wr_keep_urldecode_opt g (u_user raw) t) as H1. destruct (rq_urldecode_uri_opt g (u_user raw) t) as [user t1]. cbn [snd] in H1.
  pose proof (wr_keep_urldecode_opt g (u_pass raw) t1) as H2. destruct (rq_urldecode_uri_opt g (u_pass raw) t1) as [pass t2]. cbn [snd] in H2.
  pose proof (wr_keep_urldecode_opt g (u_host raw) t2) as H3. destruct (rq_urldecode_uri_opt g (u_host raw) t2) as [host t3]. cbn [snd] in H3.
  destruct (uri_norm_port_opt (u_port raw)) as [pn inv].
  set (t4 := if inv then t3 <| t_flags ::= (fun f => flag_set f c_HTP_HOSTU_INVALID) |> else t3).
  assert (H4 : wr_keep t4 t3) by (unfold t4; destruct inv; [apply wr_keep_set_flags|apply wr_keep_refl]).
  assert (H5 : wr_keep (snd (match u_path raw with
                             | None => (None, t4)
                             | Some p => let '(o, t) := rq_normalize_path g p t4 in (Some o, t)
                             end)) t4).
  { destruct (u_path raw) as [p|]; [|apply wr_keep_refl]. pose proof (wr_keep_normalize_path g p t4) as H. destruct (rq_normalize_path g p t4). exact H. }
  destruct (match u_path raw with None => (None, t4) | Some p => let '(o, t) := rq_normalize_path g p t4 in (Some o, t) end) as [path t5]. cbn [snd] in H5.
  pose proof (wr_keep_urldecode_opt g (u_frag raw) t5) as H6. destruct (rq_urldecode_uri_opt g (u_frag raw) t5) as [frag t6]. cbn [snd] in H6 |- *.
  eapply wr_keep_trans; [exact H6|]. eapply wr_keep_trans; [exact H5|]. eapply wr_keep_trans; [exact H4|].
  eapply wr_keep_trans; [exact H3|]. eapply wr_keep_trans; [exact H2|]. exact H1.
Qed.

(* the URI part of htp_tx_state_request_line: with a request URI it succeeds, sets parsed_uri, and keeps the reported fields *)
Lemma wr_keep_uri_pipeline g is_connect u t :
  exists t', rq_uri_pipeline_opt g is_connect (Some u) t = Some t' /\ wr_keep t' t /\ (exists nu, t_parsed_uri t' = Some nu).
Proof.
  unfold rq_uri_pipeline_opt.
  assert (Hr : exists raw t0, (if is_connect then rq_parse_uri_hostport (t_parsed_uri_raw t) (Some u) t
                               else Some (rq_parse_uri_into (t_parsed_uri_raw t) (Some u), t)) = Some (raw, t0) /\ wr_keep t0 t /\ t_parsed_uri t0 = t_parsed_uri t).
  { destruct is_connect.
    - unfold rq_parse_uri_hostport. destruct (parse_hostport u) as [[[hn port] pn] invalid].
      eexists _, _. split; [reflexivity|]. destruct (match hn with Some h => invalid || negb (htp_validate_hostname h) | None => invalid end).
      + split; [apply wr_keep_set_flags|reflexivity].
      + split; [apply wr_keep_refl|reflexivity].
    - eexists _, _. split; [reflexivity|]. split; [apply wr_keep_refl|reflexivity]. }
  destruct Hr as (raw & t0 & Er & K0 & P0). rewrite Er.
  set (t1 := t0 <| t_parsed_uri_raw := raw |>).
  assert (K1 : wr_keep t1 t0) by (unfold t1; wr_keep_now).
  assert (Hn : exists nu t2, (match t_parsed_uri t1 with Some nu => (nu, t1) | None => htp_normalize_parsed_uri g raw t1 end) = (nu, t2) /\ wr_keep t2 t1).
  { destruct (t_parsed_uri t1) as [nu|].
    - eexists _, _. split; [reflexivity|apply wr_keep_refl].
    - pose proof (wr_keep_normalize_parsed_uri g raw t1) as H. destruct (htp_normalize_parsed_uri g raw t1) as [nu t2]. eexists _, _. split; [reflexivity|exact H]. }
  destruct Hn as (nu & t2 & En & K2). rewrite En.
  set (t3 := t2 <| t_parsed_uri := Some nu |>).
  assert (K3 : wr_keep t3 t2) by (unfold t3; wr_keep_now).
  eexists. split; [reflexivity|].
  assert (Kall : wr_keep t3 t).
  { eapply wr_keep_trans; [exact K3|]. eapply wr_keep_trans; [exact K2|]. eapply wr_keep_trans; [exact K1|exact K0]. }
  destruct (u_host nu) as [h|].
  - destruct (htp_validate_hostname h).
    + split; [exact Kall|]. exists nu. reflexivity.
    + split; [eapply wr_keep_trans; [apply wr_keep_set_flags|exact Kall]|]. exists nu. reflexivity.
  - split; [exact Kall|]. exists nu. reflexivity.
Qed.

(* ---- htp_tx_process_request_headers: framing decision, host, content type ---- *)
Lemma wr_keep_te_cl t : wr_keep (rq_te_cl t) t.
Proof.
  unfold rq_te_cl, tx_set_flag.
  destruct (rq_hdr_get_c (t_request_headers t) rq_str_transfer_encoding) as [te|]; destruct (rq_hdr_get_c (t_request_headers t) rq_str_content_length_lc) as [cl|].
  - destruct (negb (htp_header_has_token (h_value te) rq_str_chunked)); [wr_keep_now|]. destruct (t_request_protocol_number t <? c_HTP_PROTOCOL_1_1)%Z; wr_keep_now.
  - destruct (negb (htp_header_has_token (h_value te) rq_str_chunked)); [wr_keep_now|]. destruct (t_request_protocol_number t <? c_HTP_PROTOCOL_1_1)%Z; wr_keep_now.
  - destruct (flag_has (h_flags cl) c_HTP_FIELD_FOLDED); destruct (flag_has (h_flags cl) c_HTP_FIELD_REPEATED);
      destruct (parse_content_length (h_value cl) <? 0)%Z; wr_keep_now.
  - wr_keep_now.
Qed.
Lemma wr_te_cl_nobody t :
  rq_hdr_get_c (t_request_headers t) rq_str_transfer_encoding = None -> rq_hdr_get_c (t_request_headers t) rq_str_content_length_lc = None ->
  t_request_transfer_coding (rq_te_cl t) = c_HTP_CODING_NO_BODY /\ t_parsed_uri (rq_te_cl t) = t_parsed_uri t.
Proof. intros H1 H2. unfold rq_te_cl. rewrite H1, H2. split; reflexivity. Qed.

Ltac wr_split_ifs := repeat match goal with
  | |- context [if ?c then _ else _] => destruct c
  | |- context [match ?x with Some _ => _ | None => _ end] => destruct x
  | |- context [let '(_, _) := ?x in _] => destruct x
  end.
Lemma wr_keep_host nu t : wr_keep (rq_host nu t) t /\ t_request_transfer_coding (rq_host nu t) = t_request_transfer_coding t.
Proof. unfold rq_host, tx_set_flag. wr_split_ifs; (split; [wr_keep_now|reflexivity]). Qed.
Lemma wr_keep_content_type t : wr_keep (rq_content_type t) t /\ t_request_transfer_coding (rq_content_type t) = t_request_transfer_coding t.
Proof. unfold rq_content_type. destruct (rq_hdr_get_c _ _); split; try wr_keep_now; reflexivity. Qed.
