(* Proofs about the second part of the ownership model (C18, Model/MOwn2.v), in the calculus of Proof/POwn.v. *)
Require Import Htp.Model.Base Htp.Model.MOwn Htp.Model.MOwnCases Htp.Model.MOwn2 Htp.Proof.POwn.

(* ------------------------------------------------------------------ uri fields *)
Lemma cnt_set_nth l i v j :
  i < length l -> cnt j (olist (ow_set_nth l i v)) + cnto j (nth i l None) = cnt j (olist l) + cnto j v.
Proof.
  revert i. induction l as [|x r IH]; intros i Hi; cbn [length] in Hi; [lia|].
  destruct i as [|i]; cbn [ow_set_nth nth].
  - rewrite !cnt_olist_cons. lia.
  - rewrite !cnt_olist_cons. specialize (IH i ltac:(lia)). lia.
Qed.
Lemma length_set_nth l i v : length (ow_set_nth l i v) = length l.
Proof. revert i. induction l as [|x r IH]; intros [|i]; cbn; auto. Qed.
Lemma nth_set_nth_same l i v : i < length l -> nth i (ow_set_nth l i v) None = v.
Proof. revert i. induction l as [|x r IH]; intros [|i] H; cbn in *; try lia; auto. apply IH. lia. Qed.
Lemma nth_set_nth_other l i k v : i <> k -> nth k (ow_set_nth l i v) None = nth k l None.
Proof. revert i k. induction l as [|x r IH]; intros [|i] [|k] H; cbn; auto; try lia. Qed.

Definition wf_uri8 (u : ow_uri) : Prop := our_self u <> None /\ length (our_fields u) = 8.

Lemma fp_uri_set u i v j :
  i < length (our_fields u) ->
  cnt j (fp_uri (ow_uri_set u i v)) + cnto j (ow_uri_get u i) = cnt j (fp_uri u) + cnto j v.
Proof.
  intros Hi. unfold fp_uri, ow_uri_set, ow_uri_get. cbn [our_self our_fields]. rewrite !cnt_olist_cons.
  pose proof (cnt_set_nth (our_fields u) i v j Hi). lia.
Qed.
Lemma uri_get_set_same u i v : i < length (our_fields u) -> ow_uri_get (ow_uri_set u i v) i = v.
Proof. intros H. unfold ow_uri_get, ow_uri_set. cbn [our_fields]. now apply nth_set_nth_same. Qed.
Lemma uri_get_set_other u i k v : i <> k -> ow_uri_get (ow_uri_set u i v) k = ow_uri_get u k.
Proof. intros H. unfold ow_uri_get, ow_uri_set. cbn [our_fields]. now apply nth_set_nth_other. Qed.
Lemma uri_len_set u i v : length (our_fields (ow_uri_set u i v)) = length (our_fields u).
Proof. unfold ow_uri_set. cbn [our_fields]. apply length_set_nth. Qed.
Lemma fp_uri_set_none u i v j :
  i < length (our_fields u) -> ow_uri_get u i = None -> cnt j (fp_uri (ow_uri_set u i v)) = cnt j (fp_uri u) + cnto j v.
Proof. intros Hi E. pose proof (fp_uri_set u i v j Hi) as A. rewrite E in A. cbn [cnto] in A. lia. Qed.
Lemma wf_uri8_set u i v : wf_uri8 u -> wf_uri8 (ow_uri_set u i v).
Proof. intros [A B]. split; cbn; auto. now rewrite length_set_nth. Qed.

(* ------------------------------------------------------------------ htp_parse_hostport *)
Lemma wp_parse_hostport sh hp (wantp : bool) h0 p0 F (Q : bool * ow_oid * ow_oid -> ow_state -> Prop) s :
  ow_own F s -> live_in hp s ->
  (forall ok h p s', ow_own (olist [h; if wantp then p else None] ++ F) s' ->
                     (wantp = false -> p = p0) ->
                     (ok = false -> h = None /\ (wantp = true -> p = None)) ->
                     Q (ok, h, p) s') ->
  ow_wp (ow_parse_hostport sh hp wantp h0 p0) Q s.
Proof.
  intros [Hok Hown] [a [-> Ha]] HQ. unfold ow_parse_hostport, ow_parse_hostport_gen. cbn [ow_isnull].
  destruct wantp; wp_go.
  all: apply HQ; try (intros; discriminate); try (intros; now auto).
  all: try (split; auto; intros j; cnt_at j).
Qed.

Definition in_frame (o : ow_oid) (F : list nat) : Prop := o <> None /\ forall j, cnto j o <= cnt j F.

Lemma in_frame_live o F G s : in_frame o F -> ow_own (G ++ F) s -> live_in o s.
Proof. intros [A B] O. eapply own_F_live; eauto. Qed.
Lemma in_frame_live0 o F s : in_frame o F -> ow_own F s -> live_in o s.
Proof. intros H O. apply in_frame_live with (F := F) (G := []); auto. Qed.
Lemma in_frame_weaken o F G : in_frame o F -> in_frame o (G ++ F).
Proof. intros [A B]. split; auto. intros j. rewrite cnt_app. specialize (B j). lia. Qed.
Lemma in_frame_perm o F F' : (forall j, cnt j F = cnt j F') -> in_frame o F -> in_frame o F'.
Proof. intros E [A B]. split; auto. intros j. rewrite <- E. auto. Qed.

Lemma hostport_null fixed sh wantp h0 p0 : ow_parse_hostport_gen fixed sh None wantp h0 p0 = ow_ret (false, h0, p0).
Proof. reflexivity. Qed.

Lemma wp_parse_header_hostport sh hp (wantp : bool) h0 p0 fl F (Q : bool * ow_oid * ow_oid -> ow_state -> Prop) s :
  ow_own F s -> in_frame hp F -> in_frame fl F ->
  (forall ok h p s', ow_own (olist [h; if wantp then p else None] ++ F) s' ->
                     (wantp = false -> p = p0) ->
                     (ok = false -> h = None /\ (wantp = true -> p = None)) ->
                     Q (ok, h, p) s') ->
  ow_wp (ow_parse_header_hostport sh hp wantp h0 p0 fl) Q s.
Proof.
  intros O Hhp Hfl HQ. unfold ow_parse_header_hostport, ow_parse_header_hostport_gen.
  apply wp_bind. apply wp_parse_hostport with (F := F); auto. { eapply in_frame_live0; eauto. }
  intros ok h p s1 O1 E1 E2. destruct ok; cbn [negb].
  2:{ apply wp_ret. apply HQ; auto. }
  assert (Lf : live_in fl s1) by (eapply in_frame_live; eauto).
  destruct Lf as [f [-> Lf]]. destruct O1 as [Ok1 L1].
  destruct h as [hh|]; wp_go; apply HQ; auto; split; auto.
Qed.

Lemma wp_parse_uri_hostport sh cp tx hp u F (Q : bool * ow_uri -> ow_state -> Prop) s :
  wf_uri8 u -> ow_uri_get u c_ou_hostname = None -> ow_uri_get u c_ou_port = None ->
  ow_own (fp_uri u ++ F) s -> (hp = None \/ in_frame hp F) -> in_frame cp F -> in_frame tx F ->
  (forall ok u' s', wf_uri8 u' -> our_self u' = our_self u -> ow_own (fp_uri u' ++ F) s' ->
                    (ok = false -> ow_uri_get u' c_ou_hostname = None /\ ow_uri_get u' c_ou_port = None) ->
                    Q (ok, u') s') ->
  ow_wp (ow_parse_uri_hostport sh cp tx hp u) Q s.
Proof.
  intros [Wa Wl] Eh Ep O Hhp Hcp Htx HQ. unfold ow_parse_uri_hostport, ow_parse_uri_hostport_gen.
  destruct (our_self u) as [a|] eqn:Ea; [|congruence].
  apply wp_bind. apply wp_use.
  { exists a. split; auto. destruct O as [_ O]. rewrite O. unfold fp_uri. rewrite Ea. cnt_norm. lia. }
  apply wp_bind.
  assert (Hafter : forall ok h p s1, ow_own (olist [h; p] ++ fp_uri u ++ F) s1 -> (ok = false -> h = None /\ p = None) ->
            ow_wp (let '(ok, h, p) := (ok, h, p) in
                   let u1 := ow_uri_set (ow_uri_set u c_ou_hostname h) c_ou_port p in
                   if negb ok then ow_ret (false, u1) else
                   (if ow_isnull h then ow_ret tt else ow_use h) ;;;
                   (if ohp_flagged sh then ow_use cp ;;; ow_use tx else ow_ret tt) ;;;
                   ow_ret (true, u1)) Q s1).
  { intros ok h p s1 O1 E2. cbv zeta beta iota.
    set (u1 := ow_uri_set (ow_uri_set u c_ou_hostname h) c_ou_port p).
    assert (W1 : wf_uri8 u1). { apply wf_uri8_set, wf_uri8_set. split; congruence. }
    assert (O2 : ow_own (fp_uri u1 ++ F) s1).
    { eapply own_perm; [|exact O1]. intros j. unfold u1. rewrite !cnt_app.
      rewrite fp_uri_set_none.
      2:{ rewrite uri_len_set, Wl. unfold c_ou_port. lia. }
      2:{ rewrite uri_get_set_other by (unfold c_ou_hostname, c_ou_port; lia). exact Ep. }
      rewrite fp_uri_set_none; auto.
      2:{ rewrite Wl. unfold c_ou_hostname. lia. }
      cnt_norm. lia. }
    assert (G3 : ow_uri_get u1 c_ou_hostname = h).
    { unfold u1. rewrite uri_get_set_other by (unfold c_ou_hostname, c_ou_port; lia).
      apply uri_get_set_same. rewrite Wl. unfold c_ou_hostname. lia. }
    assert (G4 : ow_uri_get u1 c_ou_port = p).
    { unfold u1. apply uri_get_set_same. rewrite uri_len_set, Wl. unfold c_ou_port. lia. }
    destruct ok; cbn [negb].
    2:{ apply wp_ret. apply HQ; auto. intros _. rewrite G3, G4. apply E2. reflexivity. }
    assert (Lh : h = None \/ live_in h s1).
    { destruct h as [hh|]; auto. right. exists hh. split; auto. destruct O1 as [_ O1]. rewrite O1. cnt_norm. lia. }
    assert (Lc : live_in cp s1) by (eapply in_frame_live; eauto).
    assert (Lt : live_in tx s1) by (eapply in_frame_live; eauto).
    destruct Lc as [c [-> Lc]]. destruct Lt as [t [-> Lt]].
    destruct Lh as [-> | [hh [-> Lh]]]; wp_go; apply HQ; auto; intros; discriminate. }
  destruct Hhp as [-> | Hhp].
  - rewrite hostport_null, Eh, Ep. apply wp_ret. apply (Hafter false None None); auto.
  - apply wp_parse_hostport with (F := fp_uri u ++ F); auto.
    { eapply in_frame_live; eauto. }
    intros ok h p s1 O1 _ E2. apply (Hafter ok h p); auto.
    intros Eo. destruct (E2 Eo) as [A B]. auto.
Qed.

(* ------------------------------------------------------------------ theorems: the hostport family *)

Theorem ow_safe_parse_hostport sh hp wantp h0 p0 F s :
  ow_own F s -> (hp = None \/ in_frame hp F) -> ow_nofault (ow_parse_hostport sh hp wantp h0 p0) s.
Proof.
  intros O [-> | H].
  - unfold ow_parse_hostport. rewrite hostport_null. apply wp_ret. exact I.
  - eapply wp_nofault. apply wp_parse_hostport with (F := F) (Q := fun _ _ => True); auto. eapply in_frame_live0; eauto.
Qed.

Lemma free_two h p F (Q : unit -> ow_state -> Prop) s :
  ow_own (olist [h; p] ++ F) s -> (forall s', ow_own F s' -> Q tt s') -> ow_wp (ow_free h ;;; ow_free p) Q s.
Proof.
  intros [Hok Hown] HQ. destruct h as [a|], p as [b|]; wp_go; apply HQ; split; auto; intros j; cnt_at j.
Qed.

Theorem ow_then_destroy_clean_parse_hostport sh hp wantp F s :
  ow_own F s -> (hp = None \/ in_frame hp F) ->
  ow_clean_to F (r <- ow_parse_hostport sh hp wantp None None ;; ow_free (snd (fst r)) ;;; ow_free (snd r)) s.
Proof.
  intros O [-> | H]; apply wp_bind.
  - unfold ow_parse_hostport. rewrite hostport_null. apply wp_ret. cbn [fst snd]. apply free_two with (F := F); auto.
  - apply wp_parse_hostport with (F := F); auto. { eapply in_frame_live0; eauto. }
    intros ok h p s1 O1 E1 _. cbn [fst snd]. apply free_two with (F := F); auto.
    destruct wantp; auto. rewrite (E1 eq_refl). exact O1.
Qed.

(* the out-parameters after an error return: both NULL (nothing dangling, nothing for the caller to release) *)
Theorem ow_parse_hostport_error_clears sh hp F s :
  ow_own F s -> in_frame hp F ->
  ow_wp (ow_parse_hostport sh hp true None None)
        (fun r s' => ow_own (olist [snd (fst r); snd r] ++ F) s' /\ (fst (fst r) = false -> snd (fst r) = None /\ snd r = None)) s.
Proof.
  intros O H. apply wp_parse_hostport with (F := F); auto. { eapply in_frame_live0; eauto. }
  intros ok h p s1 O1 _ E. cbn [fst snd]. split; auto. intros Eo. destruct (E Eo) as [A B]. auto.
Qed.

Theorem ow_safe_parse_header_hostport sh hp wantp h0 p0 fl F s :
  ow_own F s -> in_frame hp F -> in_frame fl F -> ow_nofault (ow_parse_header_hostport sh hp wantp h0 p0 fl) s.
Proof. intros. eapply wp_nofault. apply wp_parse_header_hostport with (F := F) (Q := fun _ _ => True); auto. Qed.

Theorem ow_then_destroy_clean_parse_header_hostport sh hp wantp fl F s :
  ow_own F s -> in_frame hp F -> in_frame fl F ->
  ow_clean_to F (r <- ow_parse_header_hostport sh hp wantp None None fl ;; ow_free (snd (fst r)) ;;; ow_free (snd r)) s.
Proof.
  intros O H Hf. apply wp_bind. apply wp_parse_header_hostport with (F := F); auto.
  intros ok h p s1 O1 E1 _. cbn [fst snd]. apply free_two with (F := F); auto.
  destruct wantp; auto. rewrite (E1 eq_refl). exact O1.
Qed.

Definition uri_fresh_hostport (u : ow_uri) : Prop :=
  wf_uri8 u /\ ow_uri_get u c_ou_hostname = None /\ ow_uri_get u c_ou_port = None.

Theorem ow_safe_parse_uri_hostport sh cp tx hp u F s :
  uri_fresh_hostport u -> ow_own (fp_uri u ++ F) s -> (hp = None \/ in_frame hp F) -> in_frame cp F -> in_frame tx F ->
  ow_nofault (ow_parse_uri_hostport sh cp tx hp u) s.
Proof.
  intros [W [A B]] O H1 H2 H3. eapply wp_nofault.
  apply wp_parse_uri_hostport with (F := F) (Q := fun _ _ => True); auto.
Qed.

Lemma wf_uri8_urio u : wf_uri8 u -> wf_urio (Some u).
Proof. intros [A _]. exact A. Qed.

Theorem ow_then_destroy_clean_parse_uri_hostport sh cp tx hp u F s :
  uri_fresh_hostport u -> ow_own (fp_uri u ++ F) s -> (hp = None \/ in_frame hp F) -> in_frame cp F -> in_frame tx F ->
  ow_clean_to F (r <- ow_parse_uri_hostport sh cp tx hp u ;; ow_uri_free (Some (snd r))) s.
Proof.
  intros [W [A B]] O H1 H2 H3. apply wp_bind. apply wp_parse_uri_hostport with (F := F); auto.
  intros ok u' s1 W' _ O1 _. cbn [snd]. apply wp_uri_free with (F := F); auto. now apply wf_uri8_urio.
Qed.

Theorem ow_parse_uri_hostport_error_clears sh cp tx hp u F s :
  uri_fresh_hostport u -> ow_own (fp_uri u ++ F) s -> (hp = None \/ in_frame hp F) -> in_frame cp F -> in_frame tx F ->
  ow_wp (ow_parse_uri_hostport sh cp tx hp u)
        (fun r s' => ow_own (fp_uri (snd r) ++ F) s' /\
                     (fst r = false -> ow_uri_get (snd r) c_ou_hostname = None /\ ow_uri_get (snd r) c_ou_port = None)) s.
Proof.
  intros [W [A B]] O H1 H2 H3. apply wp_parse_uri_hostport with (F := F); auto.
Qed.

(* the code before bc54fd2: the port copy fails (k = 2) -> uri->hostname keeps the released string and
   htp_uri_free releases it again (fault 1 = free of a non-live cell); args = shape "host:port" *)
Example ow_parse_uri_hostport_old_refuted : ow_res_fault (ow_case_uri_hostport_gen false [0; 0; 0; 0; 1; 0] 2) = 1.
Proof. vm_compute. reflexivity. Qed.
Example ow_parse_uri_hostport_old_refuted_v6 : ow_res_fault (ow_case_uri_hostport_gen false [0; 1; 1; 1; 0; 0] 2) = 1.
Proof. vm_compute. reflexivity. Qed.
Example ow_parse_uri_hostport_fixed_ok :
  ow_res_fault (ow_case_uri_hostport_gen true [0; 0; 0; 0; 1; 0] 2) = 0 /\
  ow_res_fault (ow_case_uri_hostport_gen true [0; 1; 1; 1; 0; 0] 2) = 0.
Proof. vm_compute. split; reflexivity. Qed.
Example ow_parse_hostport_old_refuted : ow_res_fault (ow_case_hostport_gen false [0; 1; 0; 0; 0; 0; 0; 1; 0] 2) = 1.
Proof. vm_compute. reflexivity. Qed.
