(* C06, part H (response side): identity body with Content-Length under every chunking. *)
Require Import Htp.Model.MConnTypes Htp.Model.MBstr Htp.Model.MTxCommon Htp.Model.MResLine Htp.Model.MTxRes Htp.Model.MRes.
Require Import Htp.Spec.SBody Htp.Proof.PBody Htp.Proof.PBodyRes Htp.Proof.PBodyResRun.
Local Open Scope Z_scope.

Section Res.
Variable cb : cb_oracle.
Variable g : cfg.
Hypothesis cb_ok : forall n, cb H_RESPONSE_BODY_DATA n = CB_OK.

Lemma bd_delivered_app' h a b : bd_delivered h (a ++ b) = bd_delivered h b ++ bd_delivered h a.
Proof. unfold bd_delivered, bd_evs. rewrite filter_app, rev_app_distr, map_app, concat_app. reflexivity. Qed.
Lemma bd_app_prefix' {B} (a b x y : list B) : a ++ x = b ++ y -> (length a <= length b)%nat -> exists b', b = a ++ b' /\ x = b' ++ y.
Proof.
  revert b. induction a as [|h a IH]; intros b H L; [exists b; split; [reflexivity|exact H]|].
  destruct b as [|h' b]; [cbn in L; lia|]. cbn in H. inversion H; subst h'. destruct (IH b H2) as (b' & E1 & E2); [cbn in L; lia|].
  exists b'. split; [cbn; rewrite E1; reflexivity|exact E2].
Qed.

Lemma bd_rs_identity_finish o c body rest rem1 rest1 :
  bd_rs_inv o c -> bd_rs_clean c -> c_out_state c = RES_BODY_IDENTITY_CL_KNOWN ->
  c_out_body_data_left c = Z.of_nat (length body) -> body <> [] ->
  bd_rs_rest c = body ++ rest1 -> Forall (fun d => d <> []) rem1 -> rest1 ++ concat rem1 = rest ->
  exists c' rem', bd_rs_seg cb g o c rem1 c' rem' body (Z.of_nat (length body)) /\ c_out_state c' = RES_FINALIZE /\
                  c_out_body_data_left c' = 0 /\ bd_rs_rest c' ++ concat rem' = rest /\
                  c_out_chunked_length c' = c_out_chunked_length c /\
                  (exists evs0, c_events c' = mkev H_RESPONSE_BODY_DATA o None false None :: evs0).
Proof.
  intros Inv Cl Hs Hleft Hne Hsplit Hrem1 Hw1.
  assert (Hpos : 0 < c_out_body_data_left c) by (rewrite Hleft; destruct body; [congruence|cbn; lia]).
  destruct (bs_live _ _ Inv) as (t & Hl & Hh & Hc).
  destruct (bd_rs_cl_known_step_abs cb cb_ok o t c Inv Hl Hpos) as (_ & _ & Hstep). rewrite Hleft, Nat2Z.id in Hstep.
  assert (Hdd : firstn (length body) (bd_rs_rest c) = body) by (rewrite Hsplit, firstn_app, Nat.sub_diag, firstn_all; cbn; apply app_nil_r).
  rewrite Hdd in Hstep.
  assert (Hfn : rs_state_fn cb g (c_out_state c) c = rs_RES_BODY_IDENTITY_CL_KNOWN cb c) by (rewrite Hs; reflexivity).
  destruct (Hstep Hne (Z.sub_diag _)) as (c1 & t1 & Hst & I1 & R1 & C1 & E1 & T1 & X1 & X2 & L1 & S1 & K1).
  destruct (bd_rs_hsc_misc c1) as (M1 & M2 & M3).
  exists (bd_rs_hsc c1), rem1. bd_rsplits.
  - constructor.
    + eapply bd_sr_iter; [|apply bd_sr_refl]. apply bd_rs_iter_ok; [rewrite Hfn; exact Hst|apply (bs_status _ _ I1)|rewrite S1; reflexivity].
    + eapply bd_rs_eqv_inv; [apply bd_rs_eqv_hsc|exact I1].
    + eapply bd_rs_eqv_clean; [apply bd_rs_eqv_hsc|exact (C1 Cl)].
    + exact Hrem1.
    + eexists. rewrite (bd_rs_eqv_events _ _ (bd_rs_eqv_hsc c1)), E1.
      split; [change (?a :: ?b :: c_events c) with ([a; b] ++ c_events c); reflexivity|].
      split; [cbn; apply app_nil_r|reflexivity].
    + intros t0 Ht0. rewrite Hl in Ht0. inversion Ht0; subst t0. exists t1. rewrite (bd_rs_eqv_slot _ _ o (bd_rs_eqv_hsc c1)). auto.
  - rewrite M1. exact S1.
  - rewrite M2. exact L1.
  - rewrite (bd_rs_eqv_rest _ _ (bd_rs_eqv_hsc c1)), (R1 _ Hsplit). exact Hw1.
  - rewrite M3. exact K1.
  - eexists. rewrite (bd_rs_eqv_events _ _ (bd_rs_eqv_hsc c1)), E1. reflexivity.
Qed.

(* ================= (2), response twin: RES_BODY_IDENTITY_CL_KNOWN fed any chunking of body ++ rest ================= *)
Theorem bd_rs_identity_seg o : forall rem c body rest,
  bd_rs_inv o c -> bd_rs_clean c -> c_out_state c = RES_BODY_IDENTITY_CL_KNOWN ->
  c_out_body_data_left c = Z.of_nat (length body) -> body <> [] ->
  Forall (fun d => d <> []) rem ->
  bd_rs_rest c ++ concat rem = body ++ rest ->
  exists c' rem',
    bd_rs_seg cb g o c rem c' rem' body (Z.of_nat (length body)) /\
    c_out_state c' = RES_FINALIZE /\ c_out_body_data_left c' = 0 /\
    bd_rs_rest c' ++ concat rem' = rest /\
    c_out_chunked_length c' = c_out_chunked_length c /\
    (exists evs0, c_events c' = mkev H_RESPONSE_BODY_DATA o None false None :: evs0).
Proof.
  induction rem as [|d' rem IH]; intros c body rest Inv Cl Hs Hleft Hne Hrem Hw.
  - cbn [concat] in Hw. rewrite app_nil_r in Hw.
    apply (bd_rs_identity_finish o c body rest [] rest); auto. apply app_nil_r.
  - assert (Hpos : 0 < c_out_body_data_left c) by (rewrite Hleft; destruct body; [congruence|cbn; lia]).
    destruct (bs_live _ _ Inv) as (t & Hl & Hh & Hc).
    destruct (bd_rs_cl_known_step_abs cb cb_ok o t c Inv Hl Hpos) as (Hstep0 & Hstep1 & _); rewrite Hleft, Nat2Z.id in Hstep0, Hstep1.
    set (dd := firstn (length body) (bd_rs_rest c)) in *.
    assert (Hfn : rs_state_fn cb g (c_out_state c) c = rs_RES_BODY_IDENTITY_CL_KNOWN cb c) by (rewrite Hs; reflexivity).
    pose proof (Forall_inv Hrem) as Hd'. pose proof (Forall_inv_tail Hrem) as Hrem'. cbn beta in Hd'.
    destruct (Nat.le_gt_cases (length body) (length (bd_rs_rest c))) as [Hle|Hgt].
    + assert (Hdd : dd = body).
      { subst dd. assert (firstn (length body) (bd_rs_rest c ++ concat (d' :: rem)) = firstn (length body) (body ++ rest)) by (rewrite Hw; reflexivity).
        rewrite firstn_app in H. replace (length body - length (bd_rs_rest c))%nat with 0%nat in H by lia. cbn [firstn] in H. rewrite app_nil_r in H.
        rewrite H, firstn_app, Nat.sub_diag, firstn_all. cbn. apply app_nil_r. }
      assert (Hsplit : bd_rs_rest c = body ++ skipn (length body) (bd_rs_rest c)).
      { rewrite <- Hdd at 1. subst dd. symmetry. apply firstn_skipn. }
      apply (bd_rs_identity_finish o c body rest (d' :: rem) _ Inv Cl Hs Hleft Hne Hsplit Hrem).
      rewrite Hsplit in Hw at 1. rewrite <- app_assoc in Hw. apply app_inv_head in Hw. exact Hw.
    + assert (Hdd : dd = bd_rs_rest c) by (subst dd; apply firstn_all2; lia).
      destruct (bd_app_prefix' (bd_rs_rest c) body (concat (d' :: rem)) rest Hw) as (body' & Hb & Hw'); [lia|].
      assert (Hb'ne : body' <> []) by (intros ->; rewrite app_nil_r in Hb; rewrite Hb in Hgt; lia).
      destruct (bd_rs_rest c) as [|r0 rr] eqn:Er.
      * specialize (Hstep0 Hdd). clear Hstep1.
        set (c1 := bd_res_begin d' (rs_set_out_status c_HTP_STREAM_DATA c)).
        destruct (bd_rs_begin_misc d' (rs_set_out_status c_HTP_STREAM_DATA c)) as (B1 & B2 & B3 & B4 & B5 & B6 & B7 & B8).
        assert (I1 : bd_rs_inv o c1) by (apply bd_rs_inv_begin; apply bd_rs_inv_status; exact Inv).
        assert (C1 : bd_rs_clean c1) by (apply B2; apply Cl).
        assert (S1 : c_out_state c1 = RES_BODY_IDENTITY_CL_KNOWN) by (unfold c1; rewrite B4; exact Hs).
        assert (L1 : c_out_body_data_left c1 = Z.of_nat (length body)) by (unfold c1; rewrite B5; exact Hleft).
        assert (W1 : bd_rs_rest c1 ++ concat rem = body ++ rest) by (unfold c1; rewrite B1; exact Hw).
        destruct (IH c1 body rest I1 C1 S1 L1 Hne Hrem' W1) as (c' & rem' & Seg & S' & F' & W' & O' & Mk).
        exists c', rem'. bd_rsplits; auto.
        { destruct Seg as [A B C D (evs & E1 & E2 & E3) H]. constructor; [|exact B|exact C|exact D| |].
          - eapply bd_sr_next; [|exact A]. apply bd_rs_iter_data; [rewrite Hfn; exact Hstep0|apply (bs_rcv _ _ Inv)].
          - exists evs. split; [rewrite E1; unfold c1; rewrite B3; reflexivity|split; assumption].
          - intros t0 Ht0. apply H. unfold c1. rewrite B8. rewrite <- Ht0. apply bd_slot_ext; reflexivity. }
        all: try (rewrite O'; unfold c1; rewrite B6; reflexivity).
      * clear Hstep0. set (rc := r0 :: rr) in *. rewrite Hdd in Hstep1.
        assert (Hlt : Z.of_nat (length body) - Z.of_nat (length rc) <> 0) by lia.
        destruct (Hstep1 ltac:(discriminate) Hlt) as (cd & Hstep & [Invd Rd Cld Evd Sld Std] & Lf & Kf).
        set (c1 := bd_res_begin d' (rs_set_out_status c_HTP_STREAM_DATA cd)).
        destruct (bd_rs_begin_misc d' (rs_set_out_status c_HTP_STREAM_DATA cd)) as (B1 & B2 & B3 & B4 & B5 & B6 & B7 & B8).
        assert (I1 : bd_rs_inv o c1) by (apply bd_rs_inv_begin; apply bd_rs_inv_status; exact Invd).
        assert (C1 : bd_rs_clean c1) by (apply B2; apply (Cld Cl)).
        assert (S1 : c_out_state c1 = RES_BODY_IDENTITY_CL_KNOWN) by (unfold c1; rewrite B4; cbn; congruence).
        assert (L1 : c_out_body_data_left c1 = Z.of_nat (length body')).
        { unfold c1. rewrite B5. cbn. rewrite Lf. rewrite Hb at 1. rewrite app_length. lia. }
        assert (W1 : bd_rs_rest c1 ++ concat rem = body' ++ rest) by (unfold c1; rewrite B1; exact Hw').
        destruct (IH c1 body' rest I1 C1 S1 L1 Hb'ne Hrem' W1) as (c' & rem' & Seg & S' & F' & W' & O' & Mk).
        exists c', rem'. bd_rsplits; auto.
        { destruct Seg as [A B C D (evs & E1 & E2 & E3) H].
          assert (Hsl : tx_slot c1 o = Some (t <| t_response_message_len ::= Z.add (Z.of_nat (length rc)) |>
                                               <| t_response_entity_len ::= Z.add (Z.of_nat (length rc)) |>)).
          { unfold c1. rewrite B8. rewrite <- Sld. apply bd_slot_ext; reflexivity. }
          constructor; [|exact B|exact C|exact D| |].
          - eapply bd_sr_next; [|exact A]. apply bd_rs_iter_data; [rewrite Hfn; exact Hstep|apply (bs_rcv _ _ Invd)].
          - exists (evs ++ [mkev H_RESPONSE_BODY_DATA o (Some rc) false None]).
            split; [rewrite E1; unfold c1; rewrite B3; cbn; rewrite Evd, <- app_assoc; reflexivity|].
            split; [rewrite bd_delivered_app', E2; cbn; rewrite app_nil_r; symmetry; exact Hb|].
            unfold bd_evs in *. rewrite filter_app, E3. reflexivity.
          - intros t0 Ht0. rewrite Hl in Ht0. inversion Ht0; subst t0.
            destruct (H _ Hsl) as (t' & T1 & T2 & T3). exists t'. split; [exact T1|]. rewrite T2, T3.
            destruct (bd_tx_res_lens_get t (Z.of_nat (length rc))) as (Q1 & Q2). rewrite Q1, Q2.
            assert (HL : length body = (length rc + length body')%nat) by (rewrite Hb at 1; apply app_length).
            rewrite HL, Nat2Z.inj_add. split; lia. }
        all: try (rewrite O'; unfold c1; rewrite B6; cbn; exact Kf).
Qed.
End Res.
